/-
  QKV.Lemmas.FixedQ — the class models of Model/FixedQ.lean as instances of `sq`.
-/
import QKV.Lemmas.Round
import QKV.Lemmas.Fixed
namespace QKV

theorem twoPow_eq_tp (n : ℤ) : twoPow n = tp n := rfl

theorem BitsCfg.step_pos (c : BitsCfg) : 0 < c.step := pow2_pos _
theorem ReluCfg.step_pos (c : ReluCfg) : 0 < c.step := pow2_pos _

theorem BitsCfg.lo_le_hi (c : BitsCfg) : c.lo ≤ c.hi := by
  unfold BitsCfg.lo BitsCfg.hi
  have := tp_pos c.ub
  rw [twoPow_eq_tp]
  split <;> (try split) <;> omega

theorem ReluCfg.zero_le_hi (c : ReluCfg) : (0 : ℤ) ≤ c.hi := by
  unfold ReluCfg.hi; have := tp_pos c.nsb; rw [twoPow_eq_tp]; omega

theorem LinCfg.lo_le_hi (c : LinCfg) : c.lo ≤ c.hi := by
  unfold LinCfg.lo LinCfg.hi
  have := tp_pos c.ub
  rw [twoPow_eq_tp]
  split <;> (try split) <;> omega

/-- `quantized_bits` with at least one magnitude bit is the scaled quantizer -/
theorem qbits_eq_sq (t : Tie) (c : BitsCfg) (h : 0 < c.ub) (x : ℚ) :
    qbits t c x = sq t c.step c.lo c.hi c.gain x := by
  unfold qbits sq; rw [if_pos h]

/-- plain `quantized_relu` is the scaled quantizer on codes `0 … 2^bits − 1` -/
theorem qrelu_plain_eq_sq (t : Tie) (c : ReluCfg) (h : c.slopeLog = none) (x : ℚ) :
    qrelu t c x = sq t c.step 0 c.hi 1 x := by
  unfold qrelu sq; simp only [h]; ring

/-- clip-then-round equals round-then-clip for integer bounds -/
theorem round_clip_eq_rc (t : Tie) (s : ℚ) {lo hi : ℤ} (h : lo ≤ hi) :
    roundTie t (if s < (lo : ℚ) then (lo : ℚ) else if (hi : ℚ) < s then (hi : ℚ) else s)
      = rc t s lo hi := by
  split
  · rename_i h1; rw [roundTie_int, rc_sat_lo t h h1.le]
  · split
    · rename_i h1 h2; rw [roundTie_int, rc_sat_hi t h h2.le]
    · rename_i h1 h2
      push Not at h1 h2
      rw [rc_inrange t h1 h2]

theorem qlinear_eq_sq (t : Tie) (c : LinCfg) (h : c.signFn = false) (x : ℚ) :
    qlinear t c x = ((rc t (x / c.qs) c.lo c.hi : ℤ) : ℚ) * c.qs := by
  unfold qlinear
  simp only [h, Bool.false_eq_true, if_false]
  rw [round_clip_eq_rc t _ c.lo_le_hi]

end QKV
