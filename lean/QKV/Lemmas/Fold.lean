/-
  QKV.Lemmas.Fold — per-output-channel scaling commutes with the convolution sum; list plumbing.
-/
import Mathlib.Tactic
import QKV.Model.Fold
namespace QKV.Fold

theorem sumRange_mul_left (n : ℕ) (a : ℚ) (f : ℕ → ℚ) :
    sumRange n (fun i => a * f i) = a * sumRange n f := by
  unfold sumRange
  induction List.range n with
  | nil => simp
  | cons h t ih => simp [List.sum_cons, ih, mul_add]

theorem sumRange_congr {n : ℕ} {f g : ℕ → ℚ} (h : ∀ i, i < n → f i = g i) :
    sumRange n f = sumRange n g := by
  unfold sumRange
  congr 1
  apply List.map_congr_left
  intro i hi
  exact h i (List.mem_range.mp hi)

theorem length_tabulate (n : ℕ) (f : ℕ → ℚ) : (tabulate n f).length = n := by
  simp [tabulate]

theorem getD_tabulate {n : ℕ} (f : ℕ → ℚ) {t : ℕ} (h : t < n) : (tabulate n f).getD t 0 = f t := by
  simp [tabulate, List.getD_eq_getElem?_getD, h]

theorem tabulate_congr {n : ℕ} {f g : ℕ → ℚ} (h : ∀ t, t < n → f t = g t) :
    tabulate n f = tabulate n g := by
  unfold tabulate
  apply List.map_congr_left
  intro i hi
  exact h i (List.mem_range.mp hi)

theorem mapIdx_tabulate (n : ℕ) (f : ℕ → ℚ) (g : ℕ → ℚ → ℚ) :
    (tabulate n f).mapIdx g = tabulate n (fun t => g t (f t)) := by
  apply List.ext_getElem
  · simp [tabulate]
  · intro i h1 h2
    simp [tabulate]

theorem getD_mapIdx_mul (k : T) (c : ℕ → ℚ) (t : ℕ) :
    (k.mapIdx fun t v => c t * v).getD t 0 = c t * k.getD t 0 := by
  by_cases h : t < k.length
  · simp [List.getD_eq_getElem?_getD, h]
  · have h' : k.length ≤ t := Nat.le_of_not_lt h
    simp [List.getD_eq_getElem?_getD, h']

theorem getD_mapIdx_mul_right (k : T) (c : ℕ → ℚ) (t : ℕ) :
    (k.mapIdx fun t v => v * c t).getD t 0 = k.getD t 0 * c t := by
  by_cases h : t < k.length
  · simp [List.getD_eq_getElem?_getD, h]
  · have h' : k.length ≤ t := Nat.le_of_not_lt h
    simp [List.getD_eq_getElem?_getD, h']

/-- conv kernel index `((i*kw+j)*cin+c)*cout+co` lies in output channel `co` -/
theorem conv_index_mod {cout co : ℕ} (a : ℕ) (h : co < cout) : (a * cout + co) % cout = co := by
  rw [Nat.add_comm, Nat.add_mul_mod_self_right, Nat.mod_eq_of_lt h]

/-- depthwise kernel index `(a*cin + c)*dm + m` with `c < cin`, `m < dm` is element `(c, m)` -/
theorem dw_index {cin dm c m : ℕ} (a : ℕ) (hc : c < cin) (hm : m < dm) :
    (((a * cin + c) * dm + m) / dm % cin) * dm + ((a * cin + c) * dm + m) % dm = c * dm + m := by
  have hdm : 0 < dm := Nat.lt_of_le_of_lt (Nat.zero_le _) hm
  have h1 : ((a * cin + c) * dm + m) / dm = a * cin + c := by
    rw [Nat.add_comm, Nat.add_mul_div_right _ _ hdm, Nat.div_eq_of_lt hm, Nat.zero_add]
  have h2 : ((a * cin + c) * dm + m) % dm = m := by
    rw [Nat.add_comm, Nat.add_mul_mod_self_right, Nat.mod_eq_of_lt hm]
  have h3 : (a * cin + c) % cin = c := by
    rw [Nat.add_comm, Nat.add_mul_mod_self_right, Nat.mod_eq_of_lt hc]
  rw [h1, h2, h3]

/-- scaling the kernel per output channel scales the conv2d output element -/
theorem conv2dAt_scale (g : Geom) (cout : ℕ) (x k inv : T) (b oh ow co : ℕ) (h : co < cout) :
    conv2dAt g cout x (scaleKernelConv cout inv k) b oh ow co
      = inv.getD co 0 * conv2dAt g cout x k b oh ow co := by
  unfold conv2dAt scaleKernelConv
  simp only [← sumRange_mul_left]
  apply sumRange_congr; intro i _
  apply sumRange_congr; intro j _
  apply sumRange_congr; intro c _
  rw [getD_mapIdx_mul k (fun t => inv.getD (t % cout) 0), conv_index_mod _ h]
  ring

/-- the same for depthwise_conv2d: the `[cin, dm]` reshape of `inv` scales channel `co = c*dm+m` -/
theorem dwconv2dAt_scale (g : Geom) (dm : ℕ) (x k inv : T) (b oh ow co : ℕ) (h : co < g.cin * dm) :
    dwconv2dAt g dm x (scaleKernelDw g.cin dm inv k) b oh ow co
      = inv.getD co 0 * dwconv2dAt g dm x k b oh ow co := by
  have hdm : 0 < dm := by
    rcases Nat.eq_zero_or_pos dm with h0 | h0
    · subst h0; simp at h
    · exact h0
  have hc : co / dm < g.cin := by
    rw [Nat.div_lt_iff_lt_mul hdm]; exact h
  have hm : co % dm < dm := Nat.mod_lt _ hdm
  unfold dwconv2dAt scaleKernelDw
  simp only [← sumRange_mul_left]
  apply sumRange_congr; intro i _
  apply sumRange_congr; intro j _
  rw [getD_mapIdx_mul k (fun t => inv.getD ((t / dm % g.cin) * dm + t % dm) 0),
    dw_index _ hc hm, Nat.div_add_mod' co dm]
  ring

theorem at_scale (c : LayerCfg) (x k inv : T) (b oh ow co : ℕ) (h : co < c.cout) :
    c.at x (scaleKernel c inv k) b oh ow co = inv.getD co 0 * c.at x k b oh ow co := by
  unfold LayerCfg.at scaleKernel
  cases hc : c.cls with
  | conv =>
    simp only
    exact conv2dAt_scale c.g c.cm x k inv b oh ow co (by simpa [LayerCfg.cout, hc] using h)
  | dw =>
    simp only
    exact dwconv2dAt_scale c.g c.cm x k inv b oh ow co (by simpa [LayerCfg.cout, hc] using h)

/-- the channel of a flat output index is an output channel, in both layouts -/
theorem chan_lt (c : LayerCfg) (t : ℕ) (h : 0 < c.cout) : c.chan t < c.cout := by
  unfold LayerCfg.chan
  split <;> exact Nat.mod_lt _ h

theorem chan_channels_last (c : LayerCfg) (h : c.g.cf = false) : c.chan = fun t => t % c.cout := by
  funext t; simp [LayerCfg.chan, h]

theorem atFlat_scale (c : LayerCfg) (x k inv : T) (t : ℕ) (h : 0 < c.cout) :
    c.atFlat x (scaleKernel c inv k) t = inv.getD (c.chan t) 0 * c.atFlat x k t := by
  unfold LayerCfg.atFlat
  split <;> exact at_scale c x k inv _ _ _ _ (chan_lt c t h)

theorem cout_pos_of_lt_outLen {c : LayerCfg} {t : ℕ} (h : t < c.outLen) : 0 < c.cout := by
  unfold LayerCfg.outLen at h
  rcases Nat.eq_zero_or_pos c.cout with h0 | h0
  · rw [h0] at h; simp at h
  · exact h0

theorem biasAdd_convOp (c : LayerCfg) (x k b : T) :
    biasAdd c.chan (convOp c x k) b
      = tabulate c.outLen (fun t => c.atFlat x k t + b.getD (c.chan t) 0) := by
  unfold biasAdd convOp
  exact mapIdx_tabulate _ _ _

/-- `takeIf` takes the head exactly when the variable exists -/
theorem takeIf_some {present : Bool} {ws : List T} {r : Option T × List T} (h : takeIf present ws = some r) :
    r.1.isSome = present ∧ ws = r.1.toList ++ r.2 := by
  unfold takeIf at h
  cases present
  · simp at h; subst h; simp
  · cases ws with
    | nil => simp at h
    | cons w t => simp at h; subst h; simp

end QKV.Fold
