/-
  QKV.Lemmas.Stoch — facts about the stochastic-rounding model (QKV.Model.Stoch) used by C08.
-/
import Mathlib.Tactic
import QKV.Lemmas.Pow2
import QKV.Lemmas.F32
import QKV.Model.Stoch
namespace QKV.Stoch
open QKV

/-! ## bridges to Mathlib notions -/

theorem fl_eq (x : ℚ) : fl x = (⌊x⌋ : ℚ) := rfl

theorem ce_eq (x : ℚ) : ce x = (⌈x⌉ : ℚ) := by
  unfold ce; rw [fl_eq, Int.floor_neg]; push_cast; ring

theorem clip_eq (x lo hi : ℚ) : clip x lo hi = min (max x lo) hi := by
  unfold clip
  simp only []
  rcases lt_or_ge x lo with h | h
  · rw [if_pos h, max_eq_right h.le]
    rcases lt_or_ge hi lo with h2 | h2
    · rw [if_pos h2, min_eq_right h2.le]
    · rw [if_neg (not_lt.mpr h2), min_eq_left h2]
  · rw [if_neg (not_lt.mpr h), max_eq_left h]
    rcases lt_or_ge hi x with h2 | h2
    · rw [if_pos h2, min_eq_right h2.le]
    · rw [if_neg (not_lt.mpr h2), min_eq_left h2]

theorem clip_of_mem {x lo hi : ℚ} (h1 : lo ≤ x) (h2 : x ≤ hi) : clip x lo hi = x := by
  rw [clip_eq, max_eq_left h1, min_eq_left h2]

theorem clip_of_lt {x lo hi : ℚ} (h : lo ≤ hi) (h1 : x ≤ lo) : clip x lo hi = lo := by
  rw [clip_eq, max_eq_right h1, min_eq_left h]

theorem clip_of_gt {x lo hi : ℚ} (h : lo ≤ hi) (h1 : hi ≤ x) : clip x lo hi = hi := by
  rw [clip_eq]
  have : hi ≤ max x lo := le_trans h1 (le_max_left _ _)
  exact min_eq_right this

theorem clip_mem {x lo hi : ℚ} (h : lo ≤ hi) : lo ≤ clip x lo hi ∧ clip x lo hi ≤ hi := by
  rw [clip_eq]
  exact ⟨le_min (le_max_right _ _) h, min_le_right _ _⟩

theorem clip_mono {x y lo hi : ℚ} (h : x ≤ y) : clip x lo hi ≤ clip y lo hi := by
  rw [clip_eq, clip_eq]; exact min_le_min_right _ (max_le_max_right _ h)

theorem clip_mul_pos (x lo hi c : ℚ) (hc : 0 < c) :
    clip (x * c) (lo * c) (hi * c) = clip x lo hi * c := by
  rw [clip_eq, clip_eq, ← max_mul_of_nonneg _ _ hc.le, ← min_mul_of_nonneg _ _ hc.le]

theorem clip_div_pos (x lo hi c : ℚ) (hc : 0 < c) :
    clip (x / c) (lo / c) (hi / c) = clip x lo hi / c := by
  simp only [div_eq_mul_inv]; exact clip_mul_pos _ _ _ _ (inv_pos.mpr hc)

theorem clip_sub (x lo hi c : ℚ) : clip (x - c) (lo - c) (hi - c) = clip x lo hi - c := by
  rw [clip_eq, clip_eq, max_sub_sub_right, min_sub_sub_right]

/-! ## `tf.round` -/

theorem roundHE_int (k : ℤ) : roundHE (k : ℚ) = k := by
  unfold roundHE
  simp

/-- `tf.round` returns one of the two neighbouring integers, within 1/2 -/
theorem roundHE_mem (x : ℚ) : roundHE x = (⌊x⌋ : ℚ) ∨ roundHE x = (⌊x⌋ : ℚ) + 1 := by
  unfold roundHE
  simp only []
  split
  · left; rfl
  · split
    · right; push_cast; rfl
    · split
      · left; rfl
      · right; push_cast; rfl

/-! ## `stochastic_round` -/

/-- a precision `1/n` (the code uses 1, 1/2, 1/3, 1/8) -/
def IsPrec (π : ℚ) : Prop := ∃ n : ℕ, 0 < n ∧ π = 1 / (n : ℚ)

theorem IsPrec.pos {π : ℚ} (h : IsPrec π) : 0 < π := by
  obtain ⟨n, hn, rfl⟩ := h; positivity

theorem isPrec_one : IsPrec 1 := ⟨1, by norm_num, by norm_num⟩
theorem isPrec_half : IsPrec (1 / 2) := ⟨2, by norm_num, by norm_num⟩
theorem isPrec_third : IsPrec (1 / 3) := ⟨3, by norm_num, by norm_num⟩
theorem isPrec_eighth : IsPrec (1 / 8) := ⟨8, by norm_num, by norm_num⟩

/-- closed form of `stochastic_round` -/
theorem stochasticRound_eq (x π u : ℚ) (hπ : 0 < π) :
    stochasticRound x π u =
      if x / π - (⌊x / π⌋ : ℚ) < u then π * (⌊x / π⌋ : ℚ) else π * (⌈x / π⌉ : ℚ) := by
  unfold stochasticRound
  simp only [fl_eq, ce_eq]
  have h1 : x * (1 / π) = x / π := by ring
  rw [h1]
  split <;> field_simp

/-- (adjacent) the result is the multiple of `π` just below or just above `x` -/
theorem stochasticRound_mem (x π u : ℚ) (hπ : 0 < π) :
    stochasticRound x π u = π * (⌊x / π⌋ : ℚ) ∨ stochasticRound x π u = π * (⌈x / π⌉ : ℚ) := by
  rw [stochasticRound_eq x π u hπ]; split <;> simp

/-- (fixed points) multiples of `π` are returned unchanged by every draw -/
theorem stochasticRound_fixed (π u : ℚ) (k : ℤ) (hπ : 0 < π) :
    stochasticRound (π * k) π u = π * k := by
  rw [stochasticRound_eq _ π u hπ]
  have : π * (k : ℚ) / π = k := by field_simp
  rw [this]; simp

/-- integers are multiples of every precision `1/n` -/
theorem stochasticRound_int {π : ℚ} (hπ : IsPrec π) (u : ℚ) (k : ℤ) :
    stochasticRound (k : ℚ) π u = k := by
  obtain ⟨n, hn, rfl⟩ := hπ
  have h := stochasticRound_fixed (1 / (n : ℚ)) u (k * n) (by positivity)
  have e : (1 / (n : ℚ)) * ((k * n : ℤ) : ℚ) = k := by
    push_cast; field_simp
  rw [e] at h; exact h

/-- (threshold) off the lattice, the draw rounds up exactly when `u ≤ frac` -/
theorem stochasticRound_up_iff (x π u : ℚ) (hπ : 0 < π) (hx : (⌊x / π⌋ : ℚ) ≠ x / π) :
    stochasticRound x π u = π * (⌈x / π⌉ : ℚ) ↔ u ≤ x / π - (⌊x / π⌋ : ℚ) := by
  rw [stochasticRound_eq x π u hπ]
  have hlt : (⌊x / π⌋ : ℚ) < x / π := lt_of_le_of_ne (Int.floor_le _) hx
  have hce : ⌈x / π⌉ = ⌊x / π⌋ + 1 := by
    rw [Int.ceil_eq_iff]
    constructor
    · push_cast; linarith
    · push_cast; exact (Int.lt_floor_add_one _).le
  split
  · rename_i h
    constructor
    · intro h2
      rw [hce] at h2; push_cast at h2
      have : π * (⌊x / π⌋ : ℚ) = π * ((⌊x / π⌋ : ℚ) + 1) := h2
      nlinarith
    · intro h2; linarith
  · rename_i h
    simp only [true_iff]; linarith

theorem stochasticRound_down_iff (x π u : ℚ) (hπ : 0 < π) (hx : (⌊x / π⌋ : ℚ) ≠ x / π) :
    stochasticRound x π u = π * (⌊x / π⌋ : ℚ) ↔ x / π - (⌊x / π⌋ : ℚ) < u := by
  rw [stochasticRound_eq x π u hπ]
  have hlt : (⌊x / π⌋ : ℚ) < x / π := lt_of_le_of_ne (Int.floor_le _) hx
  have hce : ⌈x / π⌉ = ⌊x / π⌋ + 1 := by
    rw [Int.ceil_eq_iff]
    constructor
    · push_cast; linarith
    · push_cast; exact (Int.lt_floor_add_one _).le
  split
  · rename_i h; exact ⟨fun _ => h, fun _ => rfl⟩
  · rename_i h
    constructor
    · intro h2
      rw [hce] at h2; push_cast at h2
      nlinarith
    · intro h2; exact absurd h2 h

/-- (unbiased) with `frac` the probability of the upper neighbour, the mean is the input -/
theorem stochasticRound_mean (x π : ℚ) (hπ : 0 < π) :
    (1 - (x / π - (⌊x / π⌋ : ℚ))) * (π * (⌊x / π⌋ : ℚ)) + (x / π - (⌊x / π⌋ : ℚ)) * (π * (⌈x / π⌉ : ℚ))
      = x := by
  by_cases hx : (⌊x / π⌋ : ℚ) = x / π
  · have hc : (⌈x / π⌉ : ℚ) = x / π := by
      have : ⌈x / π⌉ = ⌊x / π⌋ := by
        rw [← hx]; simp
      rw [this, hx]
    rw [hc, hx]; field_simp; ring
  · have hlt : (⌊x / π⌋ : ℚ) < x / π := lt_of_le_of_ne (Int.floor_le _) hx
    have hce : ⌈x / π⌉ = ⌊x / π⌋ + 1 := by
      rw [Int.ceil_eq_iff]
      constructor
      · push_cast; linarith
      · push_cast; exact (Int.lt_floor_add_one _).le
    rw [hce]; push_cast; field_simp; ring

/-- the draw set: `0 ≤ frac < 1` -/
theorem frac_mem (t : ℚ) : 0 ≤ t - (⌊t⌋ : ℚ) ∧ t - (⌊t⌋ : ℚ) < 1 :=
  ⟨by linarith [Int.floor_le t], by linarith [Int.lt_floor_add_one t]⟩

/-- rounding (to multiples of `1/n`) commutes with clipping to integer bounds -/
theorem clip_stochasticRound_comm {π : ℚ} (hπ : IsPrec π) (p u : ℚ) (lo hi : ℤ) (h : lo ≤ hi) :
    clip (stochasticRound p π u) lo hi = stochasticRound (clip p lo hi) π u := by
  have hπ0 := hπ.pos
  have hq : (lo : ℚ) ≤ hi := by exact_mod_cast h
  obtain ⟨n, hn, rfl⟩ := hπ
  have hn' : (0 : ℚ) < n := by exact_mod_cast hn
  have hdiv : ∀ t : ℚ, t / (1 / (n : ℚ)) = t * n := fun t => by field_simp
  rcases le_or_gt p lo with h1 | h1
  · -- below the range: both neighbours are ≤ lo
    rw [clip_of_lt hq h1, stochasticRound_int ⟨n, hn, rfl⟩]
    apply clip_of_lt hq
    have hc : (⌈p * n⌉ : ℚ) ≤ (lo * n : ℤ) := by
      have : ⌈p * n⌉ ≤ lo * n := by
        rw [Int.ceil_le]; push_cast; nlinarith
      exact_mod_cast this
    have hf : (⌊p * n⌋ : ℚ) ≤ (⌈p * n⌉ : ℚ) := by exact_mod_cast Int.floor_le_ceil _
    rcases stochasticRound_mem p (1 / (n : ℚ)) u hπ0 with e | e <;> rw [e, hdiv] <;>
      push_cast at hc <;> rw [div_mul_eq_mul_div, one_mul, div_le_iff₀ hn'] <;> linarith
  · rcases le_or_gt p hi with h2 | h2
    · rw [clip_of_mem h1.le h2]
      apply clip_of_mem
      · have hf : ((lo * n : ℤ) : ℚ) ≤ (⌊p * n⌋ : ℚ) := by
          have : lo * n ≤ ⌊p * n⌋ := by rw [Int.le_floor]; push_cast; nlinarith
          exact_mod_cast this
        have hfc : (⌊p * n⌋ : ℚ) ≤ (⌈p * n⌉ : ℚ) := by exact_mod_cast Int.floor_le_ceil _
        rcases stochasticRound_mem p (1 / (n : ℚ)) u hπ0 with e | e <;> rw [e, hdiv] <;>
          push_cast at hf <;> rw [div_mul_eq_mul_div, one_mul, le_div_iff₀ hn'] <;> linarith
      · have hc : (⌈p * n⌉ : ℚ) ≤ ((hi * n : ℤ) : ℚ) := by
          have : ⌈p * n⌉ ≤ hi * n := by rw [Int.ceil_le]; push_cast; nlinarith
          exact_mod_cast this
        have hfc : (⌊p * n⌋ : ℚ) ≤ (⌈p * n⌉ : ℚ) := by exact_mod_cast Int.floor_le_ceil _
        rcases stochasticRound_mem p (1 / (n : ℚ)) u hπ0 with e | e <;> rw [e, hdiv] <;>
          push_cast at hc <;> rw [div_mul_eq_mul_div, one_mul, div_le_iff₀ hn'] <;> linarith
    · rw [clip_of_gt hq h2.le, stochasticRound_int ⟨n, hn, rfl⟩]
      apply clip_of_gt hq
      have hf : ((hi * n : ℤ) : ℚ) ≤ (⌊p * n⌋ : ℚ) := by
        have : hi * n ≤ ⌊p * n⌋ := by rw [Int.le_floor]; push_cast; nlinarith
        exact_mod_cast this
      have hfc : (⌊p * n⌋ : ℚ) ≤ (⌈p * n⌉ : ℚ) := by exact_mod_cast Int.floor_le_ceil _
      rcases stochasticRound_mem p (1 / (n : ℚ)) u hπ0 with e | e <;> rw [e, hdiv] <;>
        push_cast at hf <;> rw [div_mul_eq_mul_div, one_mul, le_div_iff₀ hn'] <;> linarith

/-! ## the generic clipped lattice quantizer -/

/-- clip to the level range, shift, round stochastically at precision `π`, shift back, scale -/
def latQ (π : ℚ) (L : Lat) (p u : ℚ) : ℚ := L.post * (stochasticRound (L.lvl p) π u + L.off)

/-- neighbours on the lattice refined by `π` (`π = 1`: the class's own codes) -/
def Lat.belowP (L : Lat) (π p : ℚ) : ℚ := L.post * (π * (⌊L.lvl p / π⌋ : ℚ) + L.off)
def Lat.aboveP (L : Lat) (π p : ℚ) : ℚ := L.post * (π * (⌈L.lvl p / π⌉ : ℚ) + L.off)
def Lat.fracP (L : Lat) (π p : ℚ) : ℚ := L.lvl p / π - (⌊L.lvl p / π⌋ : ℚ)

theorem Lat.belowP_one (L : Lat) (p : ℚ) : L.belowP 1 p = L.below p := by
  simp [Lat.belowP, Lat.below, fl_eq]
theorem Lat.aboveP_one (L : Lat) (p : ℚ) : L.aboveP 1 p = L.above p := by
  simp [Lat.aboveP, Lat.above, ce_eq]
theorem Lat.fracP_one (L : Lat) (p : ℚ) : L.fracP 1 p = L.frac p := by
  simp [Lat.fracP, Lat.frac, fl_eq]

theorem Lat.clipped_eq (L : Lat) (p : ℚ) : L.clipped p = L.post * (L.lvl p + L.off) := by
  simp [Lat.clipped, Lat.lvl]

theorem latQ_mem (π : ℚ) (hπ : 0 < π) (L : Lat) (p u : ℚ) :
    latQ π L p u = L.belowP π p ∨ latQ π L p u = L.aboveP π p := by
  unfold latQ Lat.belowP Lat.aboveP
  rcases stochasticRound_mem (L.lvl p) π u hπ with e | e <;> rw [e] <;> simp

theorem latQ_mean (π : ℚ) (hπ : 0 < π) (L : Lat) (p : ℚ) :
    (1 - L.fracP π p) * L.belowP π p + L.fracP π p * L.aboveP π p = L.clipped p := by
  have h := stochasticRound_mean (L.lvl p) π hπ
  rw [Lat.clipped_eq]
  unfold Lat.fracP Lat.belowP Lat.aboveP
  linear_combination L.post * h

theorem latQ_up_iff (π : ℚ) (hπ : 0 < π) (L : Lat) (hpost : L.post ≠ 0) (p u : ℚ)
    (hx : (⌊L.lvl p / π⌋ : ℚ) ≠ L.lvl p / π) :
    latQ π L p u = L.aboveP π p ↔ u ≤ L.fracP π p := by
  unfold Lat.fracP
  rw [← stochasticRound_up_iff (L.lvl p) π u hπ hx]
  unfold latQ Lat.aboveP
  constructor
  · intro h; have := mul_left_cancel₀ hpost h; linarith
  · intro h; rw [h]

theorem latQ_down_iff (π : ℚ) (hπ : 0 < π) (L : Lat) (hpost : L.post ≠ 0) (p u : ℚ)
    (hx : (⌊L.lvl p / π⌋ : ℚ) ≠ L.lvl p / π) :
    latQ π L p u = L.belowP π p ↔ L.fracP π p < u := by
  unfold Lat.fracP
  rw [← stochasticRound_down_iff (L.lvl p) π u hπ hx]
  unfold latQ Lat.belowP
  constructor
  · intro h; have := mul_left_cancel₀ hpost h; linarith
  · intro h; rw [h]

theorem Lat.fracP_mem (L : Lat) (π p : ℚ) : 0 ≤ L.fracP π p ∧ L.fracP π p < 1 := frac_mem _

/-- a level that is an integer after clipping is returned as is, for every draw -/
theorem latQ_fixed {π : ℚ} (hπ : IsPrec π) (L : Lat) (p u : ℚ) (k : ℤ) (hk : L.lvl p = k) :
    latQ π L p u = L.clipped p := by
  rw [Lat.clipped_eq]; unfold latQ; rw [hk, stochasticRound_int hπ]

/-- integer level bounds, non-empty range -/
def Lat.IntBounds (L : Lat) : Prop := ∃ lo hi : ℤ, lo ≤ hi ∧ L.lo = lo ∧ L.hi = hi

/-- round-then-clip form (quantized_bits, relu, tanh, sigmoid) equals `latQ` (clip-then-round) -/
theorem latQ_of_round_clip {π : ℚ} (hπ : IsPrec π) (L : Lat) (hL : L.IntBounds) (hoff : L.off = 0)
    (p u : ℚ) : L.post * clip (stochasticRound p π u) L.lo L.hi = latQ π L p u := by
  obtain ⟨lo, hi, h, h1, h2⟩ := hL
  unfold latQ Lat.lvl
  rw [hoff, h1, h2, clip_stochasticRound_comm hπ p u lo hi h]; simp

/-! ## `pow2` of a non-negative exponent is an integer -/

theorem pow2_int {e : ℤ} (he : 0 ≤ e) : ∃ M : ℤ, 1 ≤ M ∧ pow2 e = M := by
  obtain ⟨n, rfl⟩ := Int.eq_ofNat_of_zero_le he
  refine ⟨((2 ^ n : ℕ) : ℤ), ?_, ?_⟩
  · exact_mod_cast Nat.one_le_two_pow
  · rw [pow2_natCast]; push_cast; rfl

theorem pow2_int_ge2 {e : ℤ} (he : 1 ≤ e) : ∃ M : ℤ, 2 ≤ M ∧ pow2 e = M := by
  obtain ⟨M, hM, h⟩ := pow2_int (e := e - 1) (by omega)
  refine ⟨2 * M, by omega, ?_⟩
  have : e = (e - 1) + 1 := by ring
  rw [this, pow2_add, h]
  have : pow2 1 = 2 := by simp [pow2_eq_zpow]
  rw [this]; push_cast; ring

theorem b2r_cast (b : Bool) : b2r b = ((b2z b : ℤ) : ℚ) := by cases b <;> simp [b2r, b2z]
theorem b2z_mem (b : Bool) : b2z b = 0 ∨ b2z b = 1 := by cases b <;> simp [b2z]

/-! ## class shape lemmas (training phase, stochastic rounding on) -/

theorem roundThrough_train (π x u : ℚ) : roundThrough true true π x u = stochasticRound x π u := by
  simp [roundThrough]

theorem roundThrough_infer (stoch : Bool) (π x u : ℚ) :
    roundThrough false stoch π x u = roundHE x := by
  cases stoch <;> simp [roundThrough]

theorem roundThrough_det (phase : Bool) (π x u : ℚ) :
    roundThrough phase false π x u = roundHE x := by
  simp [roundThrough]

theorem bitsLat_int (c : BitsCfg) (hub : 0 < c.bits - b2z c.keepNegative) : (bitsLat c).IntBounds := by
  obtain ⟨M, hM, h⟩ := pow2_int_ge2 (e := c.bits - b2z c.keepNegative) (by omega)
  refine ⟨b2z c.keepNegative * (-M + b2z c.symmetric), M - 1, ?_, ?_, ?_⟩
  · rcases b2z_mem c.keepNegative with a | a <;> rcases b2z_mem c.symmetric with b | b <;>
      rw [a, b] <;> omega
  · simp only [bitsLat, h, b2r_cast]; push_cast; ring
  · simp only [bitsLat, h]; push_cast; ring

theorem quantizedBits_train (c : BitsCfg) (hs : c.stoch = true)
    (hub : 0 < c.bits - b2z c.keepNegative) (x u : ℚ) :
    quantizedBits c true x u = latQ bitsPrecision (bitsLat c) (bitsLevel c x) u := by
  rw [← latQ_of_round_clip (by unfold bitsPrecision; exact isPrec_one) _ (bitsLat_int c hub) rfl]
  unfold quantizedBits
  simp only [hub, if_true, hs, roundThrough_train]
  simp only [bitsLat, bitsLevel]
  have hm := pow2_ne_zero (c.bits - b2z c.keepNegative)
  field_simp

theorem linLat_int (c : BitsCfg) (hb : 1 ≤ c.bits) :
    ∃ lo hi : ℤ, lo ≤ hi ∧ (linLat c).lo - (linLat c).off = lo ∧ (linLat c).hi - (linLat c).off = hi := by
  by_cases hsgn : linSign c = true
  · refine ⟨-1, 0, by norm_num, ?_, ?_⟩ <;> simp [linLat, linClipBounds, hsgn] <;> norm_num
  · have hsgn' : linSign c = false := by simpa using hsgn
    have hub : 1 ≤ c.bits - b2z c.keepNegative := by
      unfold linSign at hsgn'
      rcases b2z_mem c.keepNegative with a | a
      · rw [a]; omega
      · have hk : c.keepNegative = true := by
          cases h : c.keepNegative <;> simp [b2z, h] at a ⊢
        rw [a]
        simp [hk] at hsgn'
        omega
    obtain ⟨M, hM, h⟩ := pow2_int_ge2 hub
    refine ⟨b2z c.keepNegative * (-M + b2z c.symmetric), M - 1, ?_, ?_, ?_⟩
    · rcases b2z_mem c.keepNegative with a | a <;> rcases b2z_mem c.symmetric with b | b <;>
        rw [a, b] <;> omega
    · simp only [linLat, linClipBounds, hsgn', h, b2r_cast]; push_cast; simp
    · simp only [linLat, linClipBounds, hsgn', h]; push_cast; simp

theorem quantizedLinear_train (c : BitsCfg) (hs : c.stoch = true) (x u : ℚ) :
    quantizedLinear c true x u = latQ bitsPrecision (linLat c) (linLevel c x) u := by
  unfold quantizedLinear latQ Lat.lvl linLat linLevel
  simp only [hs, roundThrough_train]
  by_cases hsgn : linSign c = true <;> simp [hsgn, mul_comm]

theorem reluLat_int (c : ReluCfg) (h0 : c.negSlope = 0) (hb : 1 ≤ c.bits) : (reluLat c).IntBounds := by
  obtain ⟨M, hM, h⟩ := pow2_int_ge2 hb
  refine ⟨0, M - 1, by omega, ?_, ?_⟩
  · simp [reluLat]
  · simp only [reluLat, h0, if_true, sub_zero, h]; push_cast; ring

theorem quantizedRelu_train {π : ℚ} (hπ : IsPrec π) (c : ReluCfg) (hs : c.stoch = true)
    (h0 : c.negSlope = 0) (hb : 1 ≤ c.bits) (x u1 u2 : ℚ) :
    quantizedRelu π c true x u1 u2 = latQ π (reluLat c) (reluLevel c x) u1 := by
  rw [← latQ_of_round_clip hπ _ (reluLat_int c h0 hb) rfl]
  unfold quantizedRelu
  simp only [h0, lt_irrefl, if_false, if_true, sub_zero, hs, roundThrough_train]
  have hm := pow2_pos c.bits
  have e0 : (0 : ℚ) = 0 / pow2 c.bits := by simp
  have e1 : (1 : ℚ) - 1 / pow2 c.bits = (pow2 c.bits - 1) / pow2 c.bits := by field_simp
  rw [e1]
  conv_lhs => rw [e0]
  rw [clip_div_pos _ _ _ _ hm]
  simp only [reluLat, reluLevel, h0, if_true, sub_zero]
  ring

theorem tanhLat_int (bits : ℤ) (sym : Bool) (hb : 2 ≤ bits) : (tanhLat bits sym).IntBounds := by
  obtain ⟨M, hM, h⟩ := pow2_int_ge2 (e := bits - 1) (by omega)
  refine ⟨-M + b2z sym, M - 1, ?_, ?_, ?_⟩
  · rcases b2z_mem sym with b | b <;> rw [b] <;> omega
  · simp only [tanhLat, h, b2r_cast]; push_cast; ring
  · simp only [tanhLat, h]; push_cast; ring

theorem quantizedTanh_train {π : ℚ} (hπ : IsPrec π) (bits : ℤ) (sym : Bool) (hb : 2 ≤ bits)
    (p u : ℚ) :
    quantizedTanh π bits sym true true p u = latQ π (tanhLat bits sym) (p * pow2 (bits - 1)) u := by
  rw [← latQ_of_round_clip hπ _ (tanhLat_int bits sym hb) rfl]
  unfold quantizedTanh
  simp only [roundThrough_train]
  have hm := pow2_pos (bits - 1)
  have e0 : (-1 : ℚ) + b2r sym / pow2 (bits - 1) = (-pow2 (bits - 1) + b2r sym) / pow2 (bits - 1) := by
    field_simp
  have e1 : (1 : ℚ) - 1 / pow2 (bits - 1) = (pow2 (bits - 1) - 1) / pow2 (bits - 1) := by field_simp
  rw [e0, e1, clip_div_pos _ _ _ _ hm]
  simp only [tanhLat]
  ring

theorem sigmoidLat_int (bits : ℤ) (sym : Bool) (hb : 1 ≤ bits) : (sigmoidLat bits sym).IntBounds := by
  obtain ⟨M, hM, h⟩ := pow2_int_ge2 hb
  refine ⟨b2z sym, M - 1, ?_, ?_, ?_⟩
  · rcases b2z_mem sym with b | b <;> rw [b] <;> omega
  · simp only [sigmoidLat, b2r_cast]
  · simp only [sigmoidLat, h]; push_cast; ring

theorem quantizedSigmoid_train {π : ℚ} (hπ : IsPrec π) (bits : ℤ) (sym : Bool) (hb : 1 ≤ bits)
    (p u : ℚ) :
    quantizedSigmoid π bits sym true true p u = latQ π (sigmoidLat bits sym) (p * pow2 bits) u := by
  rw [← latQ_of_round_clip hπ _ (sigmoidLat_int bits sym hb) rfl]
  unfold quantizedSigmoid
  simp only [roundThrough_train]
  have hm := pow2_pos bits
  have e1 : (1 : ℚ) - 1 / pow2 bits = (pow2 bits - 1) / pow2 bits := by field_simp
  rw [e1, clip_div_pos _ _ _ _ hm]
  simp only [sigmoidLat]
  ring

/-! ## `stochastic_round_po2` -/

theorem lt_of_pow2_lt {a b : ℤ} (h : pow2 a < pow2 b) : a < b := by
  by_contra hc
  push Not at hc
  exact absurd (pow2_le_pow2 hc) (not_le.mpr h)

theorem pow2_succ (l : ℤ) : pow2 (l + 1) = 2 * pow2 l := by
  rw [pow2_add]
  have : pow2 1 = 2 := by simp [pow2_eq_zpow]
  rw [this]; ring

/-- the bracket of `y`: the unique `l` with `2^l ≤ y < 2^(l+1)` -/
def Bracket (y : ℚ) (l : ℤ) : Prop := pow2 l ≤ y ∧ y < pow2 (l + 1)

/-- hypothesis on the computed `round(log2(y+eps))` (an oracle for the model): within one of
    the true logarithm.  Any `e0` with this property gives the same result. -/
def LogOK (y : ℚ) (e0 : ℤ) : Prop := pow2 (e0 - 1) < y ∧ y < pow2 (e0 + 1)

theorem po2H_iff (y : ℚ) (e0 : ℤ) : po2H y e0 = true ↔ LogOK y e0 := by
  simp [po2H, LogOK]

theorem logOK_cases {y : ℚ} {e0 l : ℤ} (hb : Bracket y l) (h : LogOK y e0) : e0 = l ∨ e0 = l + 1 := by
  have h1 : e0 - 1 < l + 1 := lt_of_pow2_lt (lt_trans h.1 hb.2)
  have h2 : l < e0 + 1 := lt_of_pow2_lt (lt_of_le_of_lt hb.1 h.2)
  omega

/-- closed form of `stochastic_round_po2`: independent of the log oracle -/
theorem stochasticRoundPo2Core_eq {y : ℚ} {e0 l : ℤ} (u : ℚ) (hb : Bracket y l) (h : LogOK y e0) :
    stochasticRoundPo2Core y e0 u = if y ≤ pow2 l + u * pow2 l then l else l + 1 := by
  unfold stochasticRoundPo2Core
  rcases logOK_cases hb h with e | e
  · subst e
    have : ¬ y < pow2 e0 := not_lt.mpr hb.1
    simp only [this, if_false]
    rw [pow2_succ]
    have : u * (2 * pow2 e0 - pow2 e0) + pow2 e0 = pow2 e0 + u * pow2 e0 := by ring
    rw [this]
  · subst e
    have : y < pow2 (l + 1) := hb.2
    simp only [this, if_true]
    have e1 : l + 1 - 1 = l := by ring
    rw [e1, pow2_succ]
    have : u * (2 * pow2 l - pow2 l) + pow2 l = pow2 l + u * pow2 l := by ring
    rw [this]

theorem clipI_eq (x lo hi : ℤ) : clipI x lo hi = min (max x lo) hi := by
  unfold clipI
  simp only []
  rcases lt_or_ge x lo with h | h
  · rw [if_pos h, max_eq_right h.le]
    rcases lt_or_ge hi lo with h2 | h2
    · rw [if_pos h2, min_eq_right h2.le]
    · rw [if_neg (not_lt.mpr h2), min_eq_left h2]
  · rw [if_neg (not_lt.mpr h), max_eq_left h]
    rcases lt_or_ge hi x with h2 | h2
    · rw [if_pos h2, min_eq_right h2.le]
    · rw [if_neg (not_lt.mpr h2), min_eq_left h2]

theorem absR_eq (x : ℚ) : absR x = |x| := by
  unfold absR
  split
  · rename_i h; rw [abs_of_neg h]
  · rename_i h; rw [abs_of_nonneg (not_lt.mp h)]

theorem absR_nonneg_id {x : ℚ} (h : 0 ≤ x) : absR x = x := by rw [absR_eq, abs_of_nonneg h]

theorem bracket_pow2 (k : ℤ) : Bracket (pow2 k) k := ⟨le_refl _, pow2_lt_pow2 (by omega)⟩
theorem logOK_pow2 (k : ℤ) : LogOK (pow2 k) k := ⟨pow2_lt_pow2 (by omega), pow2_lt_pow2 (by omega)⟩

theorem sgn_mem (x : ℚ) : sgn x = -1 ∨ sgn x = 0 ∨ sgn x = 1 := by
  unfold sgn; split
  · left; rfl
  · split
    · right; right; rfl
    · right; left; rfl

theorem roundHE_unit {u : ℚ} (h0 : 0 ≤ u) (h1 : u < 1) : roundHE u = 0 ∨ roundHE u = 1 := by
  have hf : ⌊u⌋ = 0 := by rw [Int.floor_eq_iff]; constructor <;> push_cast <;> linarith
  rcases roundHE_mem u with e | e <;> rw [e, hf] <;> simp

theorem stochasticRound_pos {x π u : ℚ} (hπ : 0 < π) (hx : π ≤ x) : 0 < stochasticRound x π u := by
  have h1 : (1 : ℤ) ≤ ⌊x / π⌋ := by
    rw [Int.le_floor]; push_cast; rw [le_div_iff₀ hπ]; linarith
  have h1q : (1 : ℚ) ≤ (⌊x / π⌋ : ℚ) := by exact_mod_cast h1
  have h2q : (⌊x / π⌋ : ℚ) ≤ (⌈x / π⌉ : ℚ) := by exact_mod_cast Int.floor_le_ceil _
  rcases stochasticRound_mem x π u hπ with e | e <;> rw [e] <;> nlinarith

theorem stochasticRound_neg {x π u : ℚ} (hπ : 0 < π) (hx : x ≤ -π) : stochasticRound x π u < 0 := by
  have h1 : ⌈x / π⌉ ≤ (-1 : ℤ) := by
    rw [Int.ceil_le]; push_cast; rw [div_le_iff₀ hπ]; linarith
  have h1q : (⌈x / π⌉ : ℚ) ≤ (-1 : ℚ) := by exact_mod_cast h1
  have h2q : (⌊x / π⌋ : ℚ) ≤ (⌈x / π⌉ : ℚ) := by exact_mod_cast Int.floor_le_ceil _
  rcases stochasticRound_mem x π u hπ with e | e <;> rw [e] <;> nlinarith

theorem sgn_pos {x : ℚ} (h : 0 < x) : sgn x = 1 := by
  unfold sgn; rw [if_neg (not_lt.mpr h.le), if_pos h]
theorem sgn_neg {x : ℚ} (h : x < 0) : sgn x = -1 := by
  unfold sgn; rw [if_pos h]

/-- binary(use_stochastic_rounding): an input with `|x| ≥ f/8` (`f = 2·min(max|x|,1)`) — in
    particular the codes `±1` — keeps its sign for every pair of draws: the output is exactly
    what `binary()` without the flag returns. -/
theorem binary_sign_kept (use01 : Bool) (α x m u1 u2 : ℚ) (hm : 0 < m)
    (hx : 2 * (if 1 < m then 1 else m) / 8 ≤ |x|) (phase' : Bool) (m' v1 v2 : ℚ) :
    binaryQ use01 true true α x m u1 u2 = binaryQ use01 false phase' α x m' v1 v2 := by
  have hf : 0 < 2 * (if 1 < m then 1 else m) := by split <;> linarith
  generalize hfd : 2 * (if 1 < m then 1 else m) = f at hf hx
  unfold binaryQ
  simp only [hfd, Bool.and_self, if_true, roundThrough_train, Bool.false_and, Bool.false_eq_true, if_false]
  rcases lt_or_ge x 0 with hneg | hpos
  · rw [abs_of_neg hneg] at hx
    have h1 : x / f ≤ -(1 / 8) := by rw [div_le_iff₀ hf]; linarith
    have h2 := stochasticRound_neg (u := u1) (by norm_num : (0 : ℚ) < 1 / 8) h1
    have h3 : f * stochasticRound (x / f) (1 / 8) u1 < 0 := by nlinarith
    rw [sgn_neg h3, sgn_neg hneg]
    cases use01 <;> simp [absR] 
  · rw [abs_of_nonneg hpos] at hx
    have hx0 : 0 < x := by nlinarith
    have h1 : 1 / 8 ≤ x / f := by rw [le_div_iff₀ hf]; linarith
    have h2 := stochasticRound_pos (u := u1) (by norm_num : (0 : ℚ) < 1 / 8) h1
    have h3 : 0 < f * stochasticRound (x / f) (1 / 8) u1 := by positivity
    rw [sgn_pos h3, sgn_pos hx0]
    cases use01 <;> simp [absR] <;> norm_num

/-- po2: an input whose `x_input` is an exact power of two (not cut by `max_value`; under
    quadratic approximation: square root `2^k`, i.e. the code `4^k`) is fixed by every draw u ≥ 0 -/
theorem po2_clip_code_fixed (c : Po2Cfg) (hs : c.stoch = true) (hfl : c.floorMode = false) (k : ℤ)
    (xabs s u : ℚ) (hu : 0 ≤ u) (hx : ¬ xabs < epsK) (hin : po2Input c xabs s = pow2 k)
    (h : LogOK (pow2 k) (roundLog2 (pow2 k + epsK))) :
    clipPowerOfTwo c true xabs s u = po2Qf c * clipI k c.minExp c.maxExp := by
  unfold clipPowerOfTwo po2Log2
  simp only [hs, hfl, hx, if_true, if_false, hin, stochasticRoundPo2, absR_nonneg_id (pow2_pos k).le,
    Bool.false_eq_true]
  rw [stochasticRoundPo2Core_eq u (bracket_pow2 k) h]
  have : pow2 k ≤ pow2 k + u * pow2 k := by have := pow2_pos k; nlinarith
  simp [this]

/-! ## `log2_rounding = "floor"` and `quadratic_approximation` -/

theorem pow2_two_mul (a : ℤ) : pow2 (2 * a) = pow2 a * pow2 a := by
  rw [two_mul, pow2_add]

/-- "round, then step down when the rounded power exceeds the input" is the floor of the binary
    logarithm, for ANY rounded logarithm that is within one of the truth (weak form of `LogOK`) -/
theorem floorFromRound_eq {y : ℚ} {e0 l : ℤ} (hb : Bracket y l)
    (h : pow2 (e0 - 1) ≤ y ∧ y < pow2 (e0 + 1)) : floorFromRound y e0 = l := by
  unfold floorFromRound
  have h1 : e0 - 1 < l + 1 := lt_of_pow2_lt (lt_of_le_of_lt h.1 hb.2)
  have h2 : l < e0 + 1 := lt_of_pow2_lt (lt_of_le_of_lt hb.1 h.2)
  have hc : e0 = l ∨ e0 = l + 1 := by omega
  rcases hc with e | e
  · subst e; rw [if_neg (not_lt.mpr hb.1)]
  · subst e; rw [if_pos hb.2]; ring

/-- the exact `roundLog2` is within one of the logarithm (so the hypothesis of
    `floorFromRound_eq` / `stochasticRoundPo2Core_eq` holds for it), for every `y > 0` -/
theorem logOK_roundLog2 {y : ℚ} (hy : 0 < y) : LogOK y (roundLog2 y) := by
  unfold roundLog2 LogOK
  have hyy : 0 < y * y := mul_pos hy hy
  obtain ⟨h1, h2⟩ := floorLog2Rat_spec hyy
  generalize floorLog2Rat (y * y) = L at h1 h2
  set e := (L + 1) / 2 with he
  have hL1 : 2 * e - 1 ≤ L := by omega
  have hL2 : L ≤ 2 * e := by omega
  constructor
  · by_contra hc
    push Not at hc
    have hp := pow2_pos (e - 1)
    have : y * y ≤ pow2 (e - 1) * pow2 (e - 1) := by nlinarith
    rw [← pow2_two_mul] at this
    have h3 : pow2 (2 * (e - 1)) < pow2 L := pow2_lt_pow2 (by omega)
    linarith
  · by_contra hc
    push Not at hc
    have hp := pow2_pos (e + 1)
    have : pow2 (e + 1) * pow2 (e + 1) ≤ y * y := by nlinarith
    rw [← pow2_two_mul] at this
    have h3 : pow2 (L + 1) ≤ pow2 (2 * (e + 1)) := pow2_le_pow2 (by omega)
    linarith

theorem epsK_pos : 0 < epsK := by unfold epsK; norm_num

/-- the rounded logarithm of `y + eps` that `stochastic_round_po2` starts from is within one of
    `log2 y` whenever `y` is strictly inside its bracket and `eps` does not push it out -/
theorem logOK_eps_of_bracket {y : ℚ} {l : ℤ} (hb : Bracket y l) (h1 : pow2 l < y)
    (h2 : y + epsK < pow2 (l + 1)) : LogOK y (roundLog2 (y + epsK)) := by
  have he := epsK_pos
  have hy : 0 < y + epsK := by have := pow2_pos l; linarith
  obtain ⟨H1, H2⟩ := logOK_roundLog2 hy
  generalize roundLog2 (y + epsK) = e at H1 H2
  have a1 : e - 1 < l + 1 := lt_of_pow2_lt (lt_trans H1 h2)
  have a2 : l < e + 1 := lt_of_pow2_lt (by linarith)
  have hc : e = l ∨ e = l + 1 := by omega
  rcases hc with rfl | rfl
  · exact ⟨lt_trans (pow2_lt_pow2 (by omega)) h1, hb.2⟩
  · refine ⟨by simpa using h1, lt_trans hb.2 (pow2_lt_pow2 (by omega))⟩

/-- the bracket of a square root, squared: the bracket in the lattice of the codes `4^k` -/
theorem bracket_sq {s : ℚ} {l : ℤ} (hb : Bracket s l) :
    pow2 (2 * l) ≤ s * s ∧ s * s < pow2 (2 * (l + 1)) := by
  have hp := pow2_pos l
  have hs : 0 < s := lt_of_lt_of_le hp hb.1
  rw [pow2_two_mul, pow2_two_mul]
  constructor
  · nlinarith [hb.1]
  · nlinarith [hb.2, pow2_pos (l + 1)]

/-- in "floor" mode `_clip_power_of_two` never looks at the stochastic flag, the phase or the draw -/
theorem clipPowerOfTwo_floor (c : Po2Cfg) (hfl : c.floorMode = true) (phase : Bool) (xabs s u : ℚ) :
    clipPowerOfTwo c phase xabs s u =
      if xabs < epsK then c.minExp
      else po2Qf c * clipI (floorFromRound (po2Input c xabs s) (roundLog2 (po2Input c xabs s)))
                          c.minExp c.maxExp := by
  unfold clipPowerOfTwo po2Log2; simp only [hfl, if_true]

/-! ## ternary's unrolled iteration: inference / flag-off calls ignore phase and draws -/

theorem ternCodes_det (phase phase' : Bool) (xs : List ℚ) (scale : ℚ) (us us' : List ℚ) :
    ternCodes false phase xs scale us = ternCodes false phase' xs scale us' := by
  unfold ternCodes ternaryStep
  simp only [roundThrough_det]

theorem ternCodes_infer (stoch phase' : Bool) (xs : List ℚ) (scale : ℚ) (us us' : List ℚ) :
    ternCodes stoch false xs scale us = ternCodes false phase' xs scale us' := by
  unfold ternCodes ternaryStep
  simp only [roundThrough_det, roundThrough_infer]

theorem ternLoop_infer (po2 stoch phase' : Bool) (xs : List ℚ) (n : ℕ) :
    ∀ (scale : ℚ) (d d' : List (List ℚ)) (q : List ℚ),
      ternLoop po2 stoch false xs n scale d q = ternLoop po2 false phase' xs n scale d' q := by
  induction n with
  | zero => intro scale d d' q; rfl
  | succ n ih =>
    intro scale d d' q
    simp only [ternLoop]
    rw [ternCodes_infer stoch phase' xs scale (d.headD []) (d'.headD [])]
    exact ih _ _ _ _

theorem binaryQ_det (use01 phase phase' : Bool) (α x m m' u1 u2 v1 v2 : ℚ) :
    binaryQ use01 false phase α x m u1 u2 = binaryQ use01 false phase' α x m' v1 v2 := by
  unfold binaryQ; simp

end QKV.Stoch
