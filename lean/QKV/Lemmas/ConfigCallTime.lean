/-
  QKV.Lemmas.ConfigCallTime — the invariant `Canon` survives plain assignment to a
  declared-modifiable attribute; closed form of the clip range of `quantized_linear`.
-/
import Mathlib.Tactic
import QKV.Lemmas.Pow2
import QKV.Lemmas.ConfigState
import QKV.Model.ConfigCallTime
namespace QKV.Py

/-- `quantized_linear.__init__` checks `bits` and `alpha`, normalises nothing and derives no
    hidden attribute: assigning `symmetric` / `qnoise_factor` keeps the instance canonical -/
theorem canon_assignAttr (k : String) (v : PyVal) {i : Inst} (h : Canon i) :
    Canon (assignAttr k v i) := by
  unfold assignAttr
  split
  · rename_i hk
    have hchk := h.check
    have hhid := h.hid_eq
    have hkeys : (i.q.env.set k v).keys = paramNames i.q.cls := by
      rw [Env.keys_set]; exact h.1
    obtain ⟨⟨c, e⟩, hid⟩ := i
    simp only at hk hchk hhid hkeys ⊢
    cases c <;> simp only [assignable, List.contains_nil, Bool.false_eq_true] at hk
    -- quantized_linear is the only class left
    have hk' : k = "symmetric" ∨ k = "qnoise_factor" := by
      simpa [List.contains_cons, List.contains_nil, beq_iff_eq] using hk
    have hb : "bits" ≠ k := by rcases hk' with rfl | rfl <;> decide
    have ha : "alpha" ≠ k := by rcases hk' with rfl | rfl <;> decide
    refine ⟨hkeys, ?_⟩
    show initI .quantized_linear (e.set k v) = _
    have hc2 : check .quantized_linear (e.set k v) = none := by
      simp only [check, Env.get_set_ne hb, Env.get_set_ne ha] at hchk ⊢
      exact hchk
    rw [initI_of_check hc2]
    simp only [normInit, hiddenInit] at hhid ⊢
    rw [hhid]
  · exact h

theorem canon_stepX {s : World × Inst} (h : Canon s.2) (st : StepX) : Canon (stepX s st).2 := by
  obtain ⟨w, i⟩ := s
  cases st with
  | base b => exact canon_step (s := (w, i)) h b
  | assign k v => exact canon_assignAttr k v h

theorem canon_runHistoryX {s : World × Inst} (h : Canon s.2) (steps : List StepX) :
    Canon (runHistoryX s steps).2 := by
  unfold runHistoryX
  induction steps generalizing s with
  | nil => exact h
  | cons st t ih => exact ih (canon_stepX h st)

theorem stepX_cls (s : World × Inst) (st : StepX) : (stepX s st).2.q.cls = s.2.q.cls := by
  obtain ⟨w, i⟩ := s
  cases st with
  | base b => exact step_cls (w, i) b
  | assign k v =>
    simp only [stepX, assignAttr]
    split <;> rfl

theorem runHistoryX_cls (s : World × Inst) (steps : List StepX) :
    (runHistoryX s steps).2.q.cls = s.2.q.cls := by
  unfold runHistoryX
  induction steps generalizing s with
  | nil => rfl
  | cons st t ih => exact (ih (stepX s st)).trans (stepX_cls s st)

/-- histories without assignment are the histories of `ConfigState` -/
theorem runHistoryX_base (s : World × Inst) (steps : List Step) :
    runHistoryX s (steps.map StepX.base) = runHistory s steps := by
  unfold runHistoryX runHistory
  induction steps generalizing s with
  | nil => rfl
  | cons st t ih => exact ih (step s st)

theorem ratInt_intCast (n : Int) : ratInt (n : Rat) = some n := by
  simp [ratInt]

/-- closed form of the clip range: integer `bits ≥ 2`, `keep_negative=True`, numeric `symmetric` -/
theorem linClipBounds_signed {q : Q} {b : Int} (hb : q.get "bits" = .int b) (h2 : 2 ≤ b)
    (hk : q.get "keep_negative" = .bool true) {sy : Rat}
    (hs : (q.get "symmetric").numVal = some sy) :
    linClipBounds q = some (-(QKV.pow2 (b - 1)) + sy, QKV.pow2 (b - 1) - 1) := by
  have hb1 : b ≠ 1 := by omega
  have hsub : ((b : Int) : Rat) - 1 = ((b - 1 : Int) : Rat) := by push_cast; ring
  have hus : linUseSign q = false := by
    simp [linUseSign, hb, PyVal.numVal, hb1]
  unfold linClipBounds
  rw [hus]
  simp only [Bool.false_eq_true, if_false, hb, hk]
  rw [hs]
  simp only [PyVal.numVal, if_true, hsub, ratInt_intCast]
  simp

end QKV.Py
