/-
  QKV.Lemmas.Po2Quant — facts used by the C03 proofs: the specification of `floorLog2Rat`,
  the exact exponent functions of the po2 model, and the band relation.
-/
import Mathlib.Tactic
import QKV.Lemmas.Pow2
import QKV.Model.Po2Quant
namespace QKV.Po2Q
open QKV

/-! ### `floorLog2Rat` is the floor of the binary logarithm -/

theorem rat_eq_num_div_den (q : ℚ) (hq : 0 < q) :
    q = ((q.num.toNat : ℕ) : ℚ) / ((q.den : ℕ) : ℚ) ∧ 0 < q.num.toNat := by
  have hn : 0 < q.num := Rat.num_pos.mpr hq
  have h1 : ((q.num.toNat : ℕ) : ℤ) = q.num := Int.toNat_of_nonneg hn.le
  refine ⟨?_, by omega⟩
  have : ((q.num.toNat : ℕ) : ℚ) = (q.num : ℚ) := by exact_mod_cast congrArg (fun z : ℤ => (z : ℚ)) h1
  rw [this]; exact (Rat.num_div_den q).symm

theorem floorLog2Rat_spec (q : ℚ) (hq : 0 < q) :
    pow2 (floorLog2Rat q) ≤ q ∧ q < pow2 (floorLog2Rat q + 1) := by
  obtain ⟨hqe, hn⟩ := rat_eq_num_div_den q hq
  set n := q.num.toNat with hndef
  set d := q.den with hddef
  have hd : 0 < d := q.den_pos
  have hdQ : (0 : ℚ) < (d : ℚ) := by exact_mod_cast hd
  have hnQ : (0 : ℚ) < (n : ℚ) := by exact_mod_cast hn
  have hfl : floorLog2Rat q = if d ≤ n then ((n / d).log2 : ℤ) else - (clog2 ((d + n - 1) / n) : ℤ) := by
    unfold floorLog2Rat; rfl
  rw [hfl]
  split
  · rename_i hdn
    have hpos : n / d ≠ 0 := by
      have : 1 ≤ n / d := (Nat.one_le_div_iff hd).mpr hdn
      omega
    have h1 : 2 ^ (n / d).log2 ≤ n / d := Nat.log2_self_le hpos
    have h2 : n / d < 2 ^ ((n / d).log2 + 1) := Nat.lt_log2_self
    have h1' : 2 ^ (n / d).log2 * d ≤ n := (Nat.le_div_iff_mul_le hd).mp h1
    have h2' : n < 2 ^ ((n / d).log2 + 1) * d := (Nat.div_lt_iff_lt_mul hd).mp h2
    constructor
    · rw [pow2_natCast, hqe, le_div_iff₀ hdQ]; exact_mod_cast h1'
    · have : ((n / d).log2 : ℤ) + 1 = (((n / d).log2 + 1 : ℕ) : ℤ) := by push_cast; ring
      rw [this, pow2_natCast, hqe, div_lt_iff₀ hdQ]; exact_mod_cast h2'
  · rename_i hdn
    push Not at hdn
    set c := (d + n - 1) / n with hc
    set k := clog2 c with hk
    have hck : c ≤ 2 ^ k := le_two_pow_clog2 c
    have hceil : d ≤ c * n := by
      have h0 := Nat.div_add_mod (d + n - 1) n
      have hm : (d + n - 1) % n < n := Nat.mod_lt _ hn
      have h00 : (d + n - 1) / n * n = n * ((d + n - 1) / n) := Nat.mul_comm _ _
      rw [hc]; omega
    have hc2 : 2 ≤ c := by
      rw [hc]; apply (Nat.le_div_iff_mul_le hn).mpr; omega
    have hk1 : 1 ≤ k := by
      by_contra h
      have : k = 0 := by omega
      rw [this] at hck; omega
    have hmin : 2 ^ (k - 1) < c := by
      by_contra h
      push Not at h
      have := clog2_le_of_le_two_pow h
      omega
    have hlow : 2 ^ (k - 1) * n + 1 ≤ d := by
      have h3 : 2 ^ (k - 1) + 1 ≤ (d + n - 1) / n := hmin
      have h4 := (Nat.le_div_iff_mul_le hn).mp h3
      have : (2 ^ (k - 1) + 1) * n = 2 ^ (k - 1) * n + n := by ring
      omega
    have hpk : (2 : ℕ) ^ k = 2 * 2 ^ (k - 1) := by
      have : k = (k - 1) + 1 := by omega
      conv_lhs => rw [this, pow_succ]
      ring
    have hkQ : pow2 (-(k : ℤ)) = 1 / ((2 ^ k : ℕ) : ℚ) := by
      rw [pow2_eq_zpow, zpow_neg, zpow_natCast]; push_cast; simp
    have h2k : (0 : ℚ) < ((2 ^ k : ℕ) : ℚ) := by positivity
    constructor
    · rw [hkQ, hqe, div_le_div_iff₀ h2k hdQ, one_mul]
      have : d ≤ n * 2 ^ k := by nlinarith
      exact_mod_cast this
    · have h1 : pow2 (-(k : ℤ) + 1) = 2 / ((2 ^ k : ℕ) : ℚ) := by
        rw [pow2_add, hkQ]; simp [pow2_eq_zpow]; ring
      rw [h1, hqe, div_lt_div_iff₀ hdQ h2k]
      have : n * 2 ^ k < 2 * d := by rw [hpk]; nlinarith
      exact_mod_cast this

/-- the floor exponent is unique -/
theorem floorLog2Rat_unique (q : ℚ) (e : ℤ) (h1 : pow2 e ≤ q) (h2 : q < pow2 (e + 1)) :
    floorLog2Rat q = e := by
  have hq : 0 < q := lt_of_lt_of_le (pow2_pos e) h1
  obtain ⟨s1, s2⟩ := floorLog2Rat_spec q hq
  by_contra hne
  rcases lt_or_gt_of_ne hne with h | h
  · have : pow2 (floorLog2Rat q + 1) ≤ pow2 e := pow2_le_pow2 (by omega)
    linarith
  · have : pow2 (e + 1) ≤ pow2 (floorLog2Rat q) := pow2_le_pow2 (by omega)
    linarith

theorem floorLog2Rat_pow2 (k : ℤ) : floorLog2Rat (pow2 k) = k :=
  floorLog2Rat_unique _ _ le_rfl (pow2_lt_pow2 (by omega))


theorem floorLog2Rat_mono {a b : ℚ} (ha : 0 < a) (hab : a ≤ b) : floorLog2Rat a ≤ floorLog2Rat b := by
  obtain ⟨a1, _⟩ := floorLog2Rat_spec a ha
  obtain ⟨_, b2⟩ := floorLog2Rat_spec b (lt_of_lt_of_le ha hab)
  by_contra h
  push Not at h
  have : pow2 (floorLog2Rat b + 1) ≤ pow2 (floorLog2Rat a) := pow2_le_pow2 (by omega)
  linarith

/-! ### the band constant -/

theorem beta_pos : 0 < beta := by norm_num [beta]
theorem one_sub_beta_pos : 0 < 1 - beta := by norm_num [beta]
theorem one_sub_beta_le : 1 - beta ≤ 1 := by norm_num [beta]
theorem one_le_one_add_beta : 1 ≤ 1 + beta := by norm_num [beta]
theorem sq_sub_le_one : (1 - beta) * (1 - beta) ≤ 1 := by norm_num [beta]
theorem one_le_sq_add : 1 ≤ (1 + beta) * (1 + beta) := by norm_num [beta]
theorem sq_sub_pos : 0 < (1 - beta) * (1 - beta) := by norm_num [beta]
theorem sq_add_pos : 0 < (1 + beta) * (1 + beta) := by norm_num [beta]
theorem beta_sq_lt : (1 + beta) * (1 + beta) < 2 * ((1 - beta) * (1 - beta)) := by norm_num [beta]
theorem beta_lin_lt : (1 + beta) < 2 * (1 - beta) := by norm_num [beta]
theorem beta_one_lt_sq : (1 : ℚ) < 2 * ((1 - beta) * (1 - beta)) := by norm_num [beta]
theorem beta_sq_lt_two : (1 + beta) * (1 + beta) < 2 * 1 := by norm_num [beta]
theorem beta_one_lt_lin : (1 : ℚ) < 2 * (1 - beta) := by norm_num [beta]
theorem beta_lin_lt_two : (1 + beta) < 2 * 1 := by norm_num [beta]

/-- two scaled powers of two whose exponents differ by at least one cannot be ordered the
    wrong way when the scale factors are within a factor two -/
theorem pow2_scale_contra {a b : ℤ} {s t : ℚ} (hab : b + 1 ≤ a) (ht : 0 ≤ t) (hst : t < 2 * s)
    (h : pow2 a * s ≤ pow2 b * t) : False := by
  have hs : 0 < s := by linarith
  have h1 : pow2 (b + 1) ≤ pow2 a := pow2_le_pow2 hab
  have h2 : pow2 (b + 1) = pow2 b * 2 := by rw [pow2_add]; simp [pow2_eq_zpow]
  have hb := pow2_pos b
  have : pow2 b * 2 * s ≤ pow2 b * t := by
    calc pow2 b * 2 * s = pow2 (b + 1) * s := by rw [h2]
      _ ≤ pow2 a * s := mul_le_mul_of_nonneg_right h1 hs.le
      _ ≤ pow2 b * t := h
  have : 2 * s ≤ t := by
    have := le_of_mul_le_mul_left (by linarith : pow2 b * (2 * s) ≤ pow2 b * t) hb
    exact this
  linarith

theorem pow2_two_mul (r : ℤ) : pow2 (2 * r) = pow2 r * pow2 r := by
  rw [show 2 * r = r + r by ring, pow2_add]

theorem pow2_one : pow2 1 = 2 := by simp [pow2_eq_zpow]

/-! ### `clipI` -/

theorem clipI_mem {r lo hi : ℤ} (h : lo ≤ hi) : lo ≤ clipI r lo hi ∧ clipI r lo hi ≤ hi := by
  unfold clipI; split_ifs <;> omega
theorem clipI_mono {r r' lo hi : ℤ} (h : r ≤ r') (hlh : lo ≤ hi) : clipI r lo hi ≤ clipI r' lo hi := by
  unfold clipI; split_ifs <;> omega
theorem clipI_id {r lo hi : ℤ} (h1 : lo ≤ r) (h2 : r ≤ hi) : clipI r lo hi = r := by
  unfold clipI; split_ifs <;> omega
theorem clipI_le_max {r lo hi : ℤ} (h : lo ≤ hi) : clipI r lo hi ≤ max r lo := by
  unfold clipI; split_ifs <;> omega
theorem le_clipI_of {r lo hi : ℤ} (h : lo ≤ hi) (h2 : lo < clipI r lo hi) : clipI r lo hi ≤ r := by
  unfold clipI at *; split_ifs at * <;> omega
theorem clipI_le_of {r lo hi : ℤ} (h : lo ≤ hi) (h2 : clipI r lo hi < hi) : r ≤ clipI r lo hi := by
  unfold clipI at *; split_ifs at * <;> omega

/-! ### exponent range -/

theorem two_pow_eff_pos (c : Cfg) : (1 : ℤ) ≤ ((2 ^ c.effBits : ℕ) : ℤ) := by
  have : 1 ≤ 2 ^ c.effBits := Nat.one_le_two_pow
  exact_mod_cast this

theorem minExp_le_neg_one (c : Cfg) : c.minExp ≤ -1 := by
  have := two_pow_eff_pos c; unfold Cfg.minExp; omega

theorem maxExp_nonneg (c : Cfg) (hq : c.quad = false) : 0 ≤ c.maxExp := by
  have := two_pow_eff_pos c; unfold Cfg.maxExp Cfg.maxExp0; simp only [hq]; simp only [Bool.false_eq_true, if_false]; omega

theorem minExp_le_maxExp (c : Cfg) (hq : c.quad = false) : c.minExp ≤ c.maxExp := by
  have := minExp_le_neg_one c; have := maxExp_nonneg c hq; omega

theorem qf_one (c : Cfg) (hq : c.quad = false) : c.qf = 1 := by unfold Cfg.qf; simp [hq]

theorem clipExpWith_mem (c : Cfg) (hq : c.quad = false) (a : ℚ) (r : ℤ) :
    c.minExp ≤ clipExpWith c a r ∧ clipExpWith c a r ≤ c.maxExp := by
  have h := minExp_le_maxExp c hq
  unfold clipExpWith
  split_ifs
  · exact ⟨le_rfl, h⟩
  · rw [qf_one c hq, one_mul]; exact clipI_mem h

/-! ### sign factor -/

theorem signOut_cases (c : Cfg) (x : ℚ) : signOut c x = 1 ∨ signOut c x = -1 := by
  unfold signOut; split_ifs <;> simp

theorem rabs_eq_abs (q : ℚ) : rabs q = |q| := by
  unfold rabs; split_ifs with h
  · rw [abs_of_neg h]
  · rw [abs_of_nonneg (not_lt.mp h)]

theorem abs_quantWith (c : Cfg) (x : ℚ) (r : ℤ) :
    |quantWith c x r| = pow2 (clipExpWith c (magIn c x) r) := by
  unfold quantWith
  rw [abs_mul, abs_of_pos (pow2_pos _)]
  rcases signOut_cases c x with h | h <;> simp [h]

/-! ### band bounds, non-quadratic -/

theorem key_nq (c : Cfg) (hq : c.quad = false) (v : ℚ) : key c v = v * v := by
  unfold key; simp [hq]
theorem bandLo_eq (c : Cfg) (r : ℤ) :
    bandLo c r = pow2 (2 * r - 1) * ((1 - beta) * (1 - beta)) := rfl
theorem bandHi_eq (c : Cfg) (r : ℤ) :
    bandHi c r = pow2 (2 * r + 1) * ((1 + beta) * (1 + beta)) := rfl

theorem key_mono (c : Cfg) (hq : c.quad = false) {v v' : ℚ} (hv : 0 ≤ v) (h : v ≤ v') :
    key c v ≤ key c v' := by
  rw [key_nq c hq, key_nq c hq]; exact mul_le_mul h h hv (le_trans hv h)

theorem rawAdm_rnd (c : Cfg) (hf : c.floorMode = false) (v : ℚ) (r : ℤ) :
    RawAdm c v r ↔ RndAdm c v r := by unfold RawAdm; simp [hf]

theorem rawAdm_floor (c : Cfg) (hf : c.floorMode = true) (v : ℚ) (r : ℤ) :
    RawAdm c v r ↔ ∃ rn : ℤ, RndAdm c v rn ∧ r = stepDown c v rn := by unfold RawAdm; simp [hf]

/-- the exact rounded logarithm: `2^(2r-1) ≤ v² < 2^(2r+1)` -/
theorem rndExact_spec (c : Cfg) (hq : c.quad = false) (v : ℚ) (hv : 0 < v) :
    pow2 (2 * rndExact c v - 1) ≤ v * v ∧ v * v < pow2 (2 * rndExact c v + 1) := by
  have hvv : 0 < v * v := mul_pos hv hv
  obtain ⟨s1, s2⟩ := floorLog2Rat_spec (v * v) hvv
  have hr : rndExact c v = (floorLog2Rat (v * v) + 1) / 2 := by unfold rndExact; rw [key_nq c hq]
  rw [hr]
  constructor
  · exact le_trans (pow2_le_pow2 (by omega)) s1
  · exact lt_of_lt_of_le s2 (pow2_le_pow2 (by omega))

theorem rawExp_rnd_spec (c : Cfg) (hq : c.quad = false) (hf : c.floorMode = false) (v : ℚ) (hv : 0 < v) :
    pow2 (2 * rawExp c v - 1) ≤ v * v ∧ v * v < pow2 (2 * rawExp c v + 1) := by
  have : rawExp c v = rndExact c v := by unfold rawExp; simp [hf]
  rw [this]; exact rndExact_spec c hq v hv

/-- the exact floor logarithm: `2^r ≤ v < 2^(r+1)` -/
theorem rawExp_floor_spec (c : Cfg) (hq : c.quad = false) (hf : c.floorMode = true) (v : ℚ) (hv : 0 < v) :
    pow2 (rawExp c v) ≤ v ∧ v < pow2 (rawExp c v + 1) := by
  have hr : rawExp c v = floorLog2Rat v := by unfold rawExp; simp [hq, hf]
  rw [hr]; exact floorLog2Rat_spec v hv

/-- the exact rounding is an admissible rounding -/
theorem rndExact_adm (c : Cfg) (hq : c.quad = false) (v : ℚ) (hv : 0 < v) : RndAdm c v (rndExact c v) := by
  obtain ⟨h1, h2⟩ := rndExact_spec c hq v hv
  unfold RndAdm
  rw [key_nq c hq, bandLo_eq, bandHi_eq]
  have p1 := pow2_pos (2 * rndExact c v - 1)
  have p2 := pow2_pos (2 * rndExact c v + 1)
  constructor
  · nlinarith [sq_sub_le_one]
  · nlinarith [one_le_sq_add]

/-- an admissible rounding of `v` is the floor exponent of `v` or one above -/
theorem rndAdm_near_floor (c : Cfg) (hq : c.quad = false) (v : ℚ) (hv : 0 < v) (rn : ℤ)
    (h : RndAdm c v rn) : rn = floorLog2Rat v ∨ rn = floorLog2Rat v + 1 := by
  obtain ⟨f1, f2⟩ := floorLog2Rat_spec v hv
  set f := floorLog2Rat v
  obtain ⟨h1, h2⟩ := h
  rw [key_nq c hq] at h1 h2
  rw [bandLo_eq] at h1
  rw [bandHi_eq] at h2
  have hpf := pow2_pos f
  have lo : pow2 (2 * f) * 1 ≤ v * v := by
    rw [mul_one, pow2_two_mul]; exact mul_le_mul f1 f1 hpf.le hv.le
  have hi : v * v ≤ pow2 (2 * (f + 1)) * 1 := by
    rw [mul_one, pow2_two_mul]; exact mul_le_mul f2.le f2.le hv.le (pow2_pos _).le
  by_contra hne
  push Not at hne
  rcases lt_or_gt_of_ne hne.1 with hlt | hgt
  · exact pow2_scale_contra (a := 2 * f) (b := 2 * rn + 1) (by omega) sq_add_pos.le beta_sq_lt_two
      (le_trans lo h2)
  · have : f + 2 ≤ rn := by omega
    exact pow2_scale_contra (a := 2 * rn - 1) (b := 2 * (f + 1)) (by omega) (by norm_num)
      beta_one_lt_sq (le_trans h1 hi)

/-- "floor" mode (after the fix): whatever admissible rounding the float logarithm produced, the
    step-down test returns the exact floor exponent -/
theorem rawAdm_floor_unique (c : Cfg) (hq : c.quad = false) (hf : c.floorMode = true) (v : ℚ)
    (hv : 0 < v) (r : ℤ) (h : RawAdm c v r) : r = rawExp c v := by
  have hr : rawExp c v = floorLog2Rat v := by unfold rawExp; simp [hq, hf]
  obtain ⟨rn, hrn, rfl⟩ := (rawAdm_floor c hf v r).mp h
  obtain ⟨f1, f2⟩ := floorLog2Rat_spec v hv
  rw [hr]
  unfold stepDown
  simp only [hq, Bool.false_eq_true, if_false]
  rcases rndAdm_near_floor c hq v hv rn hrn with h | h
  · rw [h, if_neg (not_lt.mpr f1)]
  · rw [h, if_pos f2]; omega

/-- the exact exponent is admissible (both modes) -/
theorem rawExp_adm (c : Cfg) (hq : c.quad = false) (v : ℚ) (hv : 0 < v) : RawAdm c v (rawExp c v) := by
  cases hf : c.floorMode
  · rw [rawAdm_rnd c hf]
    have : rawExp c v = rndExact c v := by unfold rawExp; simp [hf]
    rw [this]; exact rndExact_adm c hq v hv
  · have h : RawAdm c v (stepDown c v (rndExact c v)) :=
      (rawAdm_floor c hf v _).mpr ⟨rndExact c v, rndExact_adm c hq v hv, rfl⟩
    have := rawAdm_floor_unique c hq hf v hv _ h
    rw [this] at h; exact h

theorem rawExp_mono (c : Cfg) (hq : c.quad = false) {v v' : ℚ} (hv : 0 < v) (h : v ≤ v') :
    rawExp c v ≤ rawExp c v' := by
  cases hf : c.floorMode
  · have : floorLog2Rat (v * v) ≤ floorLog2Rat (v' * v') :=
      floorLog2Rat_mono (mul_pos hv hv) (mul_le_mul h h hv.le (le_trans hv.le h))
    have e1 : rawExp c v = (floorLog2Rat (v * v) + 1) / 2 := by
      unfold rawExp rndExact; simp [hf, key_nq c hq]
    have e2 : rawExp c v' = (floorLog2Rat (v' * v') + 1) / 2 := by
      unfold rawExp rndExact; simp [hf, key_nq c hq]
    rw [e1, e2]; omega
  · have e1 : rawExp c v = floorLog2Rat v := by unfold rawExp; simp [hq, hf]
    have e2 : rawExp c v' = floorLog2Rat v' := by unfold rawExp; simp [hq, hf]
    rw [e1, e2]; exact floorLog2Rat_mono hv h

/-- the band relation orders exponents, except inside one band ("rnd"); in "floor" mode it
    always does -/
theorem rawAdm_order (c : Cfg) (hq : c.quad = false) {v v' : ℚ} (hv : 0 < v) (h : v ≤ v') {r r' : ℤ}
    (ha : RawAdm c v r) (ha' : RawAdm c v' r') (hlt : r' < r) :
    c.floorMode = false ∧ r' = r - 1 := by
  cases hf : c.floorMode
  · refine ⟨rfl, ?_⟩
    rw [rawAdm_rnd c hf] at ha ha'
    by_contra hne
    have hr : r' + 2 ≤ r := by omega
    have hk := key_mono c hq hv.le h
    have hle : bandLo c r ≤ bandHi c r' := le_trans ha.1 (le_trans hk ha'.2)
    rw [bandLo_eq, bandHi_eq] at hle
    exact pow2_scale_contra (by omega) sq_add_pos.le beta_sq_lt hle
  · exfalso
    have e1 := rawAdm_floor_unique c hq hf v hv r ha
    have e2 := rawAdm_floor_unique c hq hf v' (lt_of_lt_of_le hv h) r' ha'
    have := rawExp_mono c hq hv h
    omega

/-- at an exact power of two "rnd" leaves no choice -/
theorem rawAdm_pow2_rnd (c : Cfg) (hq : c.quad = false) (hf : c.floorMode = false) (e r : ℤ)
    (h : RawAdm c (pow2 e) r) : r = e := by
  rw [rawAdm_rnd c hf] at h
  obtain ⟨h1, h2⟩ := h
  rw [key_nq c hq, ← pow2_two_mul] at h1 h2
  rw [bandLo_eq] at h1
  rw [bandHi_eq] at h2
  by_contra hne
  rcases lt_or_gt_of_ne hne with hlt | hgt
  · -- r ≤ e - 1 : upper bound too small
    have h2' : pow2 (2 * e) * 1 ≤ pow2 (2 * r + 1) * ((1 + beta) * (1 + beta)) := by simpa using h2
    exact pow2_scale_contra (by omega) sq_add_pos.le beta_sq_lt_two h2'
  · have h1' : pow2 (2 * r - 1) * ((1 - beta) * (1 - beta)) ≤ pow2 (2 * e) * 1 := by simpa using h1
    exact pow2_scale_contra (by omega) (by norm_num) beta_one_lt_sq h1'

theorem rawExp_pow2_floor (c : Cfg) (hq : c.quad = false) (hf : c.floorMode = true) (e : ℤ) :
    rawExp c (pow2 e) = e := by
  unfold rawExp; simp [hq, hf, floorLog2Rat_pow2]

/-- at an exact power of two neither mode leaves a choice -/
theorem rawAdm_pow2 (c : Cfg) (hq : c.quad = false) (e r : ℤ) (h : RawAdm c (pow2 e) r) : r = e := by
  cases hf : c.floorMode
  · exact rawAdm_pow2_rnd c hq hf e r h
  · rw [rawAdm_floor_unique c hq hf _ (pow2_pos e) r h, rawExp_pow2_floor c hq hf]

/-! ### `x_filter`, the deterministic exponent, sign and magnitude by sign of the input -/

theorem xFilter_pos (c : Cfg) (he : 0 < c.eps) (hm : ∀ m, c.maxValue = some m → 0 < m) (a : ℚ) :
    0 < xFilter c a := by
  unfold xFilter
  cases hmv : c.maxValue with
  | none => simp only; split_ifs <;> linarith
  | some m => have := hm m hmv; simp only; split_ifs <;> linarith

theorem xFilter_mono (c : Cfg) {a a' : ℚ} (h : a ≤ a') : xFilter c a ≤ xFilter c a' := by
  unfold xFilter
  cases c.maxValue with
  | none => simp only; split_ifs <;> linarith
  | some m => simp only; split_ifs <;> linarith

theorem xFilter_le_mv (c : Cfg) (m : ℚ) (hm : c.maxValue = some m) (a : ℚ) : xFilter c a ≤ m := by
  unfold xFilter; rw [hm]; simp only; split_ifs <;> linarith

theorem eps_le_xFilter (c : Cfg) (a : ℚ) (hm : ∀ m, c.maxValue = some m → c.eps ≤ m) :
    c.eps ≤ xFilter c a := by
  unfold xFilter
  cases hmv : c.maxValue with
  | none => simp only; split_ifs <;> linarith
  | some m => have := hm m hmv; simp only; split_ifs <;> linarith

/-- `x_filter` leaves a value in `[eps, max_value]` alone -/
theorem xFilter_id (c : Cfg) (a : ℚ) (h1 : ¬ a < c.eps) (h2 : ∀ m, c.maxValue = some m → a ≤ m) :
    xFilter c a = a := by
  unfold xFilter
  cases hmv : c.maxValue with
  | none => simp [h1]
  | some m =>
    have := h2 m hmv
    simp only [if_neg h1]
    split_ifs with h
    · linarith
    · rfl

/-- the exponent chosen with the exact logarithm, as a function of the magnitude -/
def expDet (c : Cfg) (a : ℚ) : ℤ := clipExpWith c a (rawExp c (xFilter c a))

theorem quant_eq (c : Cfg) (x : ℚ) : quant c x = signOut c x * pow2 (expDet c (magIn c x)) := rfl

theorem expDet_mono (c : Cfg) (hq : c.quad = false) (he : 0 < c.eps)
    (hm : ∀ m, c.maxValue = some m → 0 < m) {a a' : ℚ} (h : a ≤ a') : expDet c a ≤ expDet c a' := by
  unfold expDet
  by_cases h1 : a < c.eps
  · have : clipExpWith c a (rawExp c (xFilter c a)) = c.minExp := by unfold clipExpWith; rw [if_pos h1]
    rw [this]; exact (clipExpWith_mem c hq _ _).1
  · have h2 : ¬ a' < c.eps := by push Not at h1 ⊢; linarith
    unfold clipExpWith
    rw [if_neg h1, if_neg h2, qf_one c hq, one_mul, one_mul]
    exact clipI_mono (rawExp_mono c hq (xFilter_pos c he hm a) (xFilter_mono c h)) (minExp_le_maxExp c hq)

theorem signOut_of_nonneg (c : Cfg) {x : ℚ} (hx : 0 ≤ x) : signOut c x = 1 := by
  unfold signOut posBranch; cases c.relu <;> simp [hx, not_lt.mpr hx]

theorem magIn_of_nonneg (c : Cfg) {x : ℚ} (hx : 0 ≤ x) : magIn c x = x := by
  unfold magIn posBranch rabs; cases c.relu <;> simp [hx, not_lt.mpr hx]

/-- a negative input: either the negative branch with magnitude `(-x)·s` (`s = 1` for the signed
    quantizer, `s = negative_slope > 0` for the leaky relu), or the relu variant's zero branch -/
theorem neg_cases (c : Cfg) (hs0 : 0 ≤ c.negSlope) {x : ℚ} (hx : x < 0) :
    (∃ s : ℚ, 0 < s ∧ signOut c x = -1 ∧ magIn c x = (-x) * s ∧ ∀ x' : ℚ, x' < 0 →
        signOut c x' = -1 ∧ magIn c x' = (-x') * s) ∨
    (c.relu = true ∧ c.negSlope = 0 ∧ signOut c x = 1 ∧ magIn c x = 0) := by
  cases hr : c.relu
  · left
    refine ⟨1, one_pos, ?_, ?_, ?_⟩
    · unfold signOut; simp [hr, hx]
    · unfold magIn rabs; simp [hr, hx]
    · intro x' hx'
      constructor
      · unfold signOut; simp [hr, hx']
      · unfold magIn rabs; simp [hr, hx']
  · by_cases hs : c.negSlope = 0
    · right
      refine ⟨rfl, hs, ?_, ?_⟩
      · unfold signOut posBranch; simp [hr, hs]
      · unfold magIn posBranch; simp [hr, hs, not_le.mpr hx]
    · left
      have hpos : 0 < c.negSlope := lt_of_le_of_ne hs0 (Ne.symm hs)
      refine ⟨c.negSlope, hpos, ?_, ?_, ?_⟩
      · unfold signOut posBranch; simp [hr, hs, not_le.mpr hx]
      · unfold magIn posBranch; simp [hr, hs, not_le.mpr hx]
      · intro x' hx'
        constructor
        · unfold signOut posBranch; simp [hr, hs, not_le.mpr hx']
        · unfold magIn posBranch; simp [hr, hs, not_le.mpr hx']


/-! ### float32 layer -/

theorem floor_eq (q : ℚ) (f : ℤ) (h1 : (f : ℚ) ≤ q) (h2 : q < f + 1) : q.floor = f := by
  show ⌊q⌋ = f
  exact Int.floor_eq_iff.mpr ⟨h1, h2⟩

theorem roundHalfEven_int (z : ℤ) : roundHalfEven (z : ℚ) = z := by
  have hf : (z : ℚ).floor = z := floor_eq _ z le_rfl (by linarith)
  unfold roundHalfEven
  simp only [hf, sub_self]
  norm_num

theorem roundHalfEven_up (q : ℚ) (f : ℤ) (h1 : (f : ℚ) + 1 / 2 < q) (h2 : q < f + 1) :
    roundHalfEven q = f + 1 := by
  have hf : q.floor = f := floor_eq _ f (by linarith) h2
  unfold roundHalfEven
  simp only [hf]
  rw [if_neg (by linarith), if_pos (by linarith)]

theorem rabs_signed_pow2 (s : ℚ) (hs : s = 1 ∨ s = -1) (e : ℤ) : rabs (s * pow2 e) = pow2 e := by
  rw [rabs_eq_abs, abs_mul, abs_of_pos (pow2_pos e)]
  rcases hs with h | h <;> simp [h]

/-- a signed power of two in the normal range is a float32 -/
theorem rnd32_pow2 (s : ℚ) (hs : s = 1 ∨ s = -1) (e : ℤ) (h1 : -126 ≤ e) (h2 : e ≤ 127) :
    rnd32 (s * pow2 e) = some (s * pow2 e) := by
  have hp := pow2_pos e
  have hne : s * pow2 e ≠ 0 := by rcases hs with h | h <;> simp [h, hp.ne']
  have h23 : pow2 e / pow2 (e - 23) = ((8388608 : ℤ) : ℚ) := by
    rw [div_eq_iff (pow2_ne_zero _)]
    have : pow2 e = pow2 23 * pow2 (e - 23) := by rw [← pow2_add]; congr 1; ring
    rw [this, pow2_eq_zpow 23]; norm_num
  have hr : ((8388608 : ℤ) : ℚ) * pow2 (e - 23) = pow2 e := by
    rw [← h23, div_mul_cancel₀ _ (pow2_ne_zero _)]
  unfold rnd32
  rw [if_neg hne]
  simp only [rabs_signed_pow2 s hs e, floorLog2Rat_pow2, h23, roundHalfEven_int, hr]
  rw [if_neg (not_lt.mpr (pow2_le_pow2 h1)), if_neg (not_le.mpr (pow2_lt_pow2 (by omega)))]
  rcases hs with h | h
  · rw [h, one_mul, if_neg (not_lt.mpr hp.le)]
  · rw [h, if_pos (by linarith)]; ring_nf

theorem rnd32_zero : rnd32 0 = some 0 := by unfold rnd32; simp

/-- an admissible exponent of a value `≤ 2^k` is `≤ k` -/
theorem rawAdm_le_of_le_pow2 (c : Cfg) (hq : c.quad = false) {v : ℚ} (hv : 0 < v) {k r : ℤ}
    (hvk : v ≤ pow2 k) (ha : RawAdm c v r) : r ≤ k := by
  by_contra hlt
  push Not at hlt
  cases hf : c.floorMode
  · rw [rawAdm_rnd c hf] at ha
    obtain ⟨h1, _⟩ := ha
    rw [key_nq c hq, bandLo_eq] at h1
    have hvv : v * v ≤ pow2 (2 * k) * 1 := by
      rw [mul_one, pow2_two_mul]; exact mul_le_mul hvk hvk hv.le (pow2_pos k).le
    exact pow2_scale_contra (by omega) (by norm_num) beta_one_lt_sq (le_trans h1 hvv)
  · have hr := rawAdm_floor_unique c hq hf v hv r ha
    obtain ⟨h1, _⟩ := rawExp_floor_spec c hq hf v hv
    rw [← hr] at h1
    have : pow2 (k + 1) ≤ pow2 r := pow2_le_pow2 (by omega)
    have := pow2_lt_pow2 (show k < k + 1 by omega)
    linarith

theorem le_rmax_right (a b : ℚ) : b ≤ rmax a b := by unfold rmax; split_ifs <;> linarith


end QKV.Po2Q
