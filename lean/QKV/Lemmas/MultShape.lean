/-
  QKV.Lemmas.MultShape — closed forms of the multiplier output records per table cell.
-/
import QKV.Lemmas.Po2Type
import QKV.Model.Mult
namespace QKV

@[simp] theorem hasPo2_qpo2 : QName.hasPo2 .quantized_po2 = true := rfl
@[simp] theorem hasPo2_qrpo2 : QName.hasPo2 .quantized_relu_po2 = true := rfl
@[simp] theorem hasPo2_qbits : QName.hasPo2 .quantized_bits = false := rfl
@[simp] theorem hasPo2_ternary : QName.hasPo2 .ternary = false := rfl
@[simp] theorem hasPo2_binary : QName.hasPo2 .binary = false := rfl

/-- Mux, weight is ternary/±1-binary named, fixed-point output template -/
theorem mkMux_qbits_wunit (w x : QRec) (hwn : (w.name.hasBinary || w.name.hasTernary) = true) :
    mkMux w x tQuantizedBits =
      { tQuantizedBits with signed := x.signed || w.signed,
                            bits := if !x.signed && w.signed then x.bits + 1 else x.bits,
                            intBits := x.intBits } := by
  cases hxs : x.signed <;> cases hws : w.signed <;>
    simp [mkMux, hwn, hxs, hws, tQuantizedBits]

/-- Mux, weight is not ternary/binary named, fixed-point output template -/
theorem mkMux_qbits_wother (w x : QRec) (hwn : (w.name.hasBinary || w.name.hasTernary) = false) :
    mkMux w x tQuantizedBits =
      { tQuantizedBits with signed := x.signed || w.signed,
                            bits := if !w.signed && x.signed then w.bits + 1 else w.bits,
                            intBits := w.intBits } := by
  cases hxs : x.signed <;> cases hws : w.signed <;>
    simp [mkMux, hwn, hxs, hws, tQuantizedBits]

/-- Mux, weight is ternary/binary named, po2 output template (input is the po2 operand) -/
theorem mkMux_po2_wunit (w x : QRec) (hwn : (w.name.hasBinary || w.name.hasTernary) = true)
    (hwp : w.name.hasPo2 = false) :
    mkMux w x tPowerOfTwo =
      { tPowerOfTwo with signed := x.signed || w.signed,
                         name := if x.signed || w.signed then .quantized_po2 else .quantized_relu_po2,
                         bits := if !x.signed && w.signed then x.bits + 1 else x.bits,
                         intBits := if !x.signed && w.signed then x.bits + 1 else x.bits,
                         maxValPo2 := x.maxValPo2 } := by
  cases hxs : x.signed <;> cases hws : w.signed <;>
    simp [mkMux, hwn, hwp, hxs, hws, tPowerOfTwo, po2Rename]

/-- Mux, weight is the po2 operand, po2 output template -/
theorem mkMux_po2_wpo2 (w x : QRec) (hwn : (w.name.hasBinary || w.name.hasTernary) = false)
    (hwp : w.name.hasPo2 = true) :
    mkMux w x tPowerOfTwo =
      { tPowerOfTwo with signed := x.signed || w.signed,
                         name := if x.signed || w.signed then .quantized_po2 else .quantized_relu_po2,
                         bits := if !w.signed && x.signed then w.bits + 1 else w.bits,
                         intBits := if !w.signed && x.signed then w.bits + 1 else w.bits,
                         maxValPo2 := w.maxValPo2 } := by
  cases hxs : x.signed <;> cases hws : w.signed <;>
    simp [mkMux, hwn, hwp, hxs, hws, tPowerOfTwo, po2Rename]

/-- AndGate, fixed-point output template -/
theorem mkAnd_qbits (w x : QRec) :
    mkAnd w x tQuantizedBits =
      { tQuantizedBits with bits := imax x.bits w.bits, signed := x.signed || w.signed,
                            isFloat := x.isFloat || w.isFloat,
                            intBits := if w.mode = 4 then x.intBits else w.intBits } := by
  by_cases h : w.mode = 4 <;>
    simp [mkAnd, h, tQuantizedBits]

/-- AndGate, po2 output template -/
theorem mkAnd_po2 (w x : QRec) :
    mkAnd w x tPowerOfTwo =
      { tPowerOfTwo with bits := imax x.bits w.bits, signed := x.signed || w.signed,
                         isFloat := x.isFloat || w.isFloat,
                         intBits := if w.mode = 4 then x.intBits else w.intBits,
                         name := if x.signed || w.signed then .quantized_po2 else .quantized_relu_po2,
                         maxValPo2 := if w.name.hasPo2 then w.maxValPo2 else x.maxValPo2 } := by
  by_cases h : w.mode = 4 <;>
    cases hs : (x.signed || w.signed) <;>
    simp [mkAnd, h, hs, tPowerOfTwo, po2Rename]

/-- Adder (po2 × po2) -/
theorem mkAdder_po2 (w x : QRec) :
    mkAdder w x tPowerOfTwo =
      { tPowerOfTwo with bits := imax (x.bits - b2i x.signed) (w.bits - b2i w.signed) + 1 + b2i (x.signed || w.signed),
                         intBits := imax x.intBits w.intBits + 1,
                         signed := x.signed || w.signed,
                         name := if x.signed || w.signed then .quantized_po2 else .quantized_relu_po2,
                         maxValPo2 := mulMaxVal x.maxValPo2 w.maxValPo2 } := by
  cases hs : (x.signed || w.signed) <;>
    simp [mkAdder, hs, tPowerOfTwo, po2Rename]

end QKV
