/- helper lemmas for the qnoise storage state machine (C07) -/
import Mathlib.Tactic
import QKV.Model.QNoise
namespace QKV.QNoise

@[simp] theorem eff_update (rd : Rnd) (s : QState) (v : ℚ) : (s.update rd v).eff rd = rd.r32 v := by
  unfold QState.update QState.eff
  cases h : s.store <;> simp [Store.asF]

@[simp] theorem eff_build (rd : Rnd) (s : QState) (b : Bool) : (s.build rd b).eff rd = s.eff rd := by
  unfold QState.build QState.eff
  cases b <;> cases h : s.store <;> simp [Store.asF]

@[simp] theorem eff_call (rd : Rnd) (s : QState) : (s.call rd).eff rd = s.eff rd := by
  unfold QState.call
  split <;> simp

/-- no operation of the storage API raises (after the fix of C07-update-from-variable) -/
theorem step_no_raise (rd : Rnd) (s : QState) (op : Op) : (s.step rd op).2 = false := by
  cases op <;> simp [QState.step]
  unfold QState.updateFromVar
  cases s.store <;> simp

theorem anyRaise_false (rd : Rnd) (ops : List Op) : ∀ s : QState, QState.anyRaise rd s ops = false := by
  induction ops with
  | nil => intro s; rfl
  | cons op ops ih => intro s; simp [QState.anyRaise, step_no_raise, ih]

/-- a float32 variable handed to the update API holds a float32 value -/
def Op.WF (rd : Rnd) : Op → Prop
  | .updateFromVar v => rd.r32 v = v
  | _ => True

theorem eff_step (rd : Rnd) (s : QState) (op : Op) (hwf : Op.WF rd op) :
    ((s.step rd op).1).eff rd =
      match lastWrite [op] with
      | some v => rd.r32 v
      | none => s.eff rd := by
  cases op with
  | build b => simp [QState.step, lastWrite]
  | update v => simp [QState.step, lastWrite]
  | updateFromVar v =>
    simp only [QState.step, QState.updateFromVar]
    simp only [Op.WF] at hwf
    cases hs : s.store with
    | py w => simp [lastWrite, QState.eff, Store.asF]
    | var w => simp [lastWrite, QState.eff, Store.asF, hwf]
  | setUseVars b => simp [QState.step, lastWrite, QState.eff]
  | call => simp [QState.step, lastWrite]

theorem lastWrite_cons (op : Op) (ops : List Op) :
    lastWrite (op :: ops) = (lastWrite ops).or (lastWrite [op]) := by
  cases op <;> simp [lastWrite]

theorem storage_invariant (rd : Rnd) (ops : List Op) : ∀ (s : QState),
    (∀ op ∈ ops, Op.WF rd op) →
    (QState.run rd s ops).eff rd =
      match lastWrite ops with
      | some v => rd.r32 v
      | none => s.eff rd := by
  induction ops with
  | nil => intro s _; simp [QState.run, lastWrite]
  | cons op ops ih =>
    intro s hwf
    have h1 := eff_step rd s op (hwf op (by simp))
    have h2 := ih (s.step rd op).1 (fun o ho => hwf o (by simp [ho]))
    simp only [QState.run]
    rw [h2, lastWrite_cons]
    cases hl : lastWrite ops with
    | some w => simp
    | none => simp [h1]

end QKV.QNoise
