/- helper lemmas for the qnoise storage state machine (C07) -/
import Mathlib.Tactic
import QKV.Model.QNoise
namespace QKV.QNoise

@[simp] theorem eff_update (rd : Rnd) (s : QState) (v : ℚ) : (s.update rd v).eff rd = rd.r32 v := by
  unfold QState.update QState.eff
  cases h : s.store <;> simp [Store.asF]

@[simp] theorem eff_build (rd : Rnd) (s : QState) (b : Bool) : (s.build rd b).eff rd = s.eff rd := by
  unfold QState.build QState.eff
  cases b <;> cases h : s.store <;> simp [Store.asF]

@[simp] theorem eff_call (rd : Rnd) (s : QState) : (s.call rd).eff rd = s.eff rd := by
  unfold QState.call
  split <;> simp

/-- no operation of the storage API raises (after the fix of C07-update-from-variable) -/
theorem step_no_raise (rd : Rnd) (s : QState) (op : Op) : (s.step rd op).2 = false := by
  cases op <;> simp [QState.step]
  unfold QState.updateFromVar
  cases s.store <;> simp

theorem anyRaise_false (rd : Rnd) (ops : List Op) : ∀ s : QState, QState.anyRaise rd s ops = false := by
  induction ops with
  | nil => intro s; rfl
  | cons op ops ih => intro s; simp [QState.anyRaise, step_no_raise, ih]

/-- a float32 variable handed to the update API holds a float32 value -/
def Op.WF (rd : Rnd) : Op → Prop
  | .updateFromVar v => rd.r32 v = v
  | _ => True

theorem eff_step (rd : Rnd) (s : QState) (op : Op) (hwf : Op.WF rd op) :
    ((s.step rd op).1).eff rd =
      match lastWrite [op] with
      | some v => rd.r32 v
      | none => s.eff rd := by
  cases op with
  | build b => simp [QState.step, lastWrite]
  | update v => simp [QState.step, lastWrite]
  | updateFromVar v =>
    simp only [QState.step, QState.updateFromVar]
    simp only [Op.WF] at hwf
    cases hs : s.store with
    | py w => simp [lastWrite, QState.eff, Store.asF]
    | var w => simp [lastWrite, QState.eff, Store.asF, hwf]
  | setUseVars b => simp [QState.step, lastWrite, QState.eff]
  | call => simp [QState.step, lastWrite]

theorem lastWrite_cons (op : Op) (ops : List Op) :
    lastWrite (op :: ops) = (lastWrite ops).or (lastWrite [op]) := by
  cases op <;> simp [lastWrite]

theorem storage_invariant (rd : Rnd) (ops : List Op) : ∀ (s : QState),
    (∀ op ∈ ops, Op.WF rd op) →
    (QState.run rd s ops).eff rd =
      match lastWrite ops with
      | some v => rd.r32 v
      | none => s.eff rd := by
  induction ops with
  | nil => intro s _; simp [QState.run, lastWrite]
  | cons op ops ih =>
    intro s hwf
    have h1 := eff_step rd s op (hwf op (by simp))
    have h2 := ih (s.step rd op).1 (fun o ho => hwf o (by simp [ho]))
    simp only [QState.run]
    rw [h2, lastWrite_cons]
    cases hl : lastWrite ops with
    | some w => simp
    | none => simp [h1]

/-! ## several quantizers and caller-owned variables -/

@[simp] theorem setAt_same {α : Type} (f : ℕ → α) (i : ℕ) (a : α) : setAt f i a i = a := by
  simp [setAt]

@[simp] theorem setAt_other {α : Type} (f : ℕ → α) (i j : ℕ) (a : α) (h : j ≠ i) :
    setAt f i a j = f j := by
  simp [setAt, h]

/-- one system step, seen from quantizer `b`: the resolved single-quantizer operation, or nothing -/
theorem sys_step_q (rd : Rnd) (s : Sys) (m : MOp) (b : ℕ) :
    (s.step rd m).q b =
      match m.resolve s b with
      | some op => ((s.q b).step rd op).1
      | none => s.q b := by
  cases m with
  | «local» i op =>
    by_cases h : i = b
    · subst h; simp [Sys.step, MOp.resolve]
    · simp [Sys.step, MOp.resolve, h, setAt_other _ _ _ _ (Ne.symm h)]
  | updateFromCaller i k =>
    by_cases h : i = b
    · subst h; simp [Sys.step, MOp.resolve, QState.step]
    · simp [Sys.step, MOp.resolve, h, setAt_other _ _ _ _ (Ne.symm h)]
  | updateFromQuant i j =>
    by_cases h : i = b
    · subst h
      simp only [Sys.step, MOp.resolve, if_true, setAt_same]
      cases (s.q j).store <;> simp [QState.step, QState.updateFromAttr]
    · simp [Sys.step, MOp.resolve, h, setAt_other _ _ _ _ (Ne.symm h)]
  | assign k v => simp [Sys.step, MOp.resolve]

theorem resolve_none_of_target (s : Sys) (m : MOp) (b : ℕ) (h : m.target ≠ some b) :
    m.resolve s b = none := by
  cases m <;> simp_all [MOp.target, MOp.resolve]

/-- frame, one step: an operation addressed to another quantizer — or to a caller's variable —
    leaves quantizer `b` (its storage kind, its value, built, use_variables) exactly as it was -/
theorem sys_step_frame (rd : Rnd) (s : Sys) (m : MOp) (b : ℕ) (h : m.target ≠ some b) :
    (s.step rd m).q b = s.q b := by
  rw [sys_step_q, resolve_none_of_target s m b h]

theorem sys_run_frame (rd : Rnd) (b : ℕ) (ms : List MOp) : ∀ s : Sys,
    (∀ m ∈ ms, m.target ≠ some b) → (Sys.run rd s ms).q b = s.q b := by
  induction ms with
  | nil => intro s _; rfl
  | cons m ms ih =>
    intro s h
    simp only [Sys.run]
    rw [ih (s.step rd m) (fun m' hm' => h m' (by simp [hm'])), sys_step_frame rd s m b (h m (by simp))]

/-- only the caller's own `assign` changes a caller's variable -/
theorem sys_step_w (rd : Rnd) (s : Sys) (m : MOp) (k : ℕ) (h : m.assigns ≠ some k) :
    (s.step rd m).w k = s.w k := by
  cases m with
  | assign k' v =>
    have : k ≠ k' := fun e => h (by simp [MOp.assigns, e])
    simp [Sys.step, setAt_other _ _ _ _ this]
  | _ => simp [Sys.step]

theorem sys_run_w (rd : Rnd) (k : ℕ) (ms : List MOp) : ∀ s : Sys,
    (∀ m ∈ ms, m.assigns ≠ some k) → (Sys.run rd s ms).w k = s.w k := by
  induction ms with
  | nil => intro s _; rfl
  | cons m ms ih =>
    intro s h
    simp only [Sys.run]
    rw [ih (s.step rd m) (fun m' hm' => h m' (by simp [hm'])), sys_step_w rd s m k (h m (by simp))]

/-- the interleaved history acts on quantizer `b` exactly like its own projected history -/
theorem sys_run_proj (rd : Rnd) (b : ℕ) (ms : List MOp) : ∀ s : Sys,
    (Sys.run rd s ms).q b = QState.run rd (s.q b) (proj rd b s ms) := by
  induction ms with
  | nil => intro s; rfl
  | cons m ms ih =>
    intro s
    simp only [Sys.run, proj]
    rw [ih (s.step rd m), sys_step_q]
    cases m.resolve s b <;> simp [QState.run]

/-- an interleaved history in which nothing is addressed to `b` projects to the empty history -/
theorem proj_nil_of_frame (rd : Rnd) (b : ℕ) (ms : List MOp) : ∀ s : Sys,
    (∀ m ∈ ms, m.target ≠ some b) → proj rd b s ms = [] := by
  induction ms with
  | nil => intro s _; rfl
  | cons m ms ih =>
    intro s h
    simp only [proj]
    rw [resolve_none_of_target s m b (h m (by simp))]
    exact ih (s.step rd m) (fun m' hm' => h m' (by simp [hm']))

/-- every float32 variable in the system holds a float32 value -/
def Sys.WF (rd : Rnd) (s : Sys) : Prop :=
  (∀ k, rd.r32 (s.w k) = s.w k) ∧ ∀ i v, (s.q i).store = .var v → rd.r32 v = v

def MOp.WF (rd : Rnd) : MOp → Prop
  | .local _ op => Op.WF rd op
  | _ => True

theorem resolve_wf (rd : Rnd) (s : Sys) (hs : s.WF rd) (m : MOp) (hm : m.WF rd) (b : ℕ) (op : Op)
    (h : m.resolve s b = some op) : Op.WF rd op := by
  cases m with
  | «local» i o =>
    simp only [MOp.resolve] at h
    split at h
    · cases h; exact hm
    · cases h
  | updateFromCaller i k =>
    simp only [MOp.resolve] at h
    split at h
    · cases h; exact hs.1 k
    · cases h
  | updateFromQuant i j =>
    simp only [MOp.resolve] at h
    split at h
    · cases h
      cases hj : (s.q j).store with
      | var v => simpa [Op.WF] using hs.2 j v hj
      | py v => simp [Op.WF]
    · cases h
  | assign k v => simp [MOp.resolve] at h

theorem qstep_var_wf (rd : Rnd) (hid : ∀ x, rd.r32 (rd.r32 x) = rd.r32 x) (st : QState)
    (hst : ∀ v, st.store = .var v → rd.r32 v = v) (op : Op) (hop : Op.WF rd op) :
    ∀ v, ((st.step rd op).1).store = .var v → rd.r32 v = v := by
  intro v hv
  cases op with
  | build b =>
    cases b
    · simp only [QState.step, QState.build, Bool.false_eq_true, if_false] at hv; exact hst v hv
    · simp only [QState.step, QState.build, if_true, Store.var.injEq] at hv
      subst hv
      cases hs : st.store with
      | py u => simp [Store.asF, hid]
      | var u => simpa [Store.asF] using hst u hs
  | update u =>
    simp only [QState.step, QState.update] at hv
    cases hs : st.store with
    | py _ => simp [hs] at hv
    | var _ => simp only [hs, Store.var.injEq] at hv; subst hv; exact hid u
  | updateFromVar u =>
    simp only [QState.step, QState.updateFromVar] at hv
    cases hs : st.store with
    | py _ => simp [hs] at hv
    | var _ => simp only [hs, Store.var.injEq] at hv; subst hv; exact hop
  | setUseVars b => simp only [QState.step] at hv; exact hst v hv
  | call =>
    simp only [QState.step, QState.call] at hv
    split at hv
    · exact hst v hv
    · cases hb : st.useVars
      · simp only [QState.build, hb, Bool.false_eq_true, if_false] at hv; exact hst v hv
      · simp only [QState.build, hb, if_true, Store.var.injEq] at hv
        subst hv
        cases hs : st.store with
        | py u => simp [Store.asF, hid]
        | var u => simpa [Store.asF] using hst u hs

theorem sys_step_wf (rd : Rnd) (hid : ∀ x, rd.r32 (rd.r32 x) = rd.r32 x) (s : Sys) (hs : s.WF rd)
    (m : MOp) (hm : m.WF rd) : (s.step rd m).WF rd := by
  constructor
  · intro k
    cases m with
    | assign k' v =>
      by_cases h : k = k'
      · subst h; simp [Sys.step, hid]
      · simp [Sys.step, setAt_other _ _ _ _ h, hs.1 k]
    | _ => simpa [Sys.step] using hs.1 k
  · intro i v hv
    rw [sys_step_q] at hv
    cases hr : m.resolve s i with
    | none => rw [hr] at hv; exact hs.2 i v hv
    | some op =>
      rw [hr] at hv
      exact qstep_var_wf rd hid (s.q i) (hs.2 i) op (resolve_wf rd s hs m hm i op hr) v hv

theorem proj_wf (rd : Rnd) (hid : ∀ x, rd.r32 (rd.r32 x) = rd.r32 x) (b : ℕ) (ms : List MOp) :
    ∀ s : Sys, s.WF rd → (∀ m ∈ ms, m.WF rd) → ∀ op ∈ proj rd b s ms, Op.WF rd op := by
  induction ms with
  | nil => intro s _ _ op hop; simp [proj] at hop
  | cons m ms ih =>
    intro s hs hms op hop
    have hm := hms m (by simp)
    have ih' := ih (s.step rd m) (sys_step_wf rd hid s hs m hm) (fun m' hm' => hms m' (by simp [hm']))
    simp only [proj] at hop
    cases hr : m.resolve s b with
    | none => rw [hr] at hop; exact ih' op hop
    | some o =>
      rw [hr] at hop
      rcases List.mem_cons.mp hop with h | h
      · subst h; exact resolve_wf rd s hs m hm b _ hr
      · exact ih' op h

/-! ## variable-backed mode and compiled calls (seed C07-8) -/

theorem build_true_store (rd : Rnd) (s : QState) : (s.build rd true).store = .var (s.eff rd) := by
  simp [QState.build, QState.eff]

theorem qrun_append (rd : Rnd) (ops1 ops2 : List Op) : ∀ s : QState,
    QState.run rd s (ops1 ++ ops2) = QState.run rd (QState.run rd s ops1) ops2 := by
  induction ops1 with
  | nil => intro s; rfl
  | cons o os ih => intro s; simp [QState.run, ih]

theorem crun_append (rd : Rnd) (os1 os2 : List COp) : ∀ c : CState,
    CState.run rd c (os1 ++ os2) = CState.run rd (CState.run rd c os1) os2 := by
  induction os1 with
  | nil => intro c; rfl
  | cons o os ih => intro c; simp [CState.run, ih]

theorem isVar_step (rd : Rnd) (s : QState) (op : Op) (h : s.store.isVar = true) :
    ((s.step rd op).1).store.isVar = true := by
  cases hs : s.store with
  | py v => simp [hs, Store.isVar] at h
  | var v =>
    cases op with
    | build b => cases b <;> simp [QState.step, QState.build, hs, Store.isVar]
    | update w => simp [QState.step, QState.update, hs, Store.isVar]
    | updateFromVar w => simp [QState.step, QState.updateFromVar, hs, Store.isVar]
    | setUseVars b => simp [QState.step, hs, Store.isVar]
    | call =>
      simp only [QState.step, QState.call]
      split
      · simp [hs, Store.isVar]
      · cases s.useVars <;> simp [QState.build, hs, Store.isVar]

theorem isVar_run (rd : Rnd) (ops : List Op) : ∀ s : QState, s.store.isVar = true →
    (QState.run rd s ops).store.isVar = true := by
  induction ops with
  | nil => intro s h; exact h
  | cons o os ih => intro s h; exact ih _ (isVar_step rd s o h)

/-- variable mode is kept by every operation except switching `use_variables` off and an explicit
    `build(use_variables=False)` -/
theorem varMode_step (rd : Rnd) (s : QState) (op : Op) (h : s.varMode = true)
    (hno : op ≠ .setUseVars false ∧ op ≠ .build false) : ((s.step rd op).1).varMode = true := by
  unfold QState.varMode at h ⊢
  cases hv : s.store.isVar with
  | true => simp [isVar_step rd s op hv]
  | false =>
    simp only [hv, Bool.false_or, Bool.and_eq_true, Bool.not_eq_eq_eq_not, Bool.not_true] at h
    obtain ⟨hu, hb⟩ := h
    cases op with
    | build b =>
      cases b with
      | true => simp [QState.step, QState.build, Store.isVar]
      | false => exact absurd rfl hno.2
    | update w =>
      cases hs : s.store <;> simp [QState.step, QState.update, hs, hu, hb]
    | updateFromVar w =>
      cases hs : s.store <;> simp [QState.step, QState.updateFromVar, hs, hu, hb]
    | setUseVars b =>
      cases b with
      | true => simp [QState.step, hb]
      | false => exact absurd rfl hno.1
    | call => simp [QState.step, QState.call, hb, hu, QState.build, Store.isVar]

theorem varMode_run (rd : Rnd) (ops : List Op) : ∀ s : QState, s.varMode = true →
    (∀ op ∈ ops, op ≠ .setUseVars false ∧ op ≠ .build false) →
    (QState.run rd s ops).varMode = true := by
  induction ops with
  | nil => intro s h _; exact h
  | cons o os ih =>
    intro s h hno
    exact ih _ (varMode_step rd s o h (hno o (by simp))) (fun p hp => hno p (by simp [hp]))

/-- a call of a quantizer in variable mode leaves the factor in a Variable, and the quantizer built -/
theorem varMode_call (rd : Rnd) (s : QState) (h : s.varMode = true) :
    (s.call rd).store.isVar = true ∧ (s.call rd).built = true := by
  unfold QState.varMode at h
  unfold QState.call
  cases hb : s.built with
  | true => simpa [hb] using h
  | false =>
    cases hu : s.useVars with
    | true => simp [QState.build, Store.isVar]
    | false => simpa [hb, hu, QState.build] using h

theorem built_step (rd : Rnd) (s : QState) (op : Op) (h : s.built = true) :
    ((s.step rd op).1).built = true := by
  cases op with
  | build b => simp [QState.step, QState.build]
  | update w => cases hs : s.store <;> simp [QState.step, QState.update, hs, h]
  | updateFromVar w => cases hs : s.store <;> simp [QState.step, QState.updateFromVar, hs, h]
  | setUseVars b => simp [QState.step, h]
  | call => simp [QState.step, QState.call, h]

/-- eager operations on an untraced quantizer: the compiled function stays untraced -/
theorem crun_eager_untraced (rd : Rnd) (ops : List Op) : ∀ s : QState,
    CState.run rd ⟨s, none⟩ (ops.map .eager) = ⟨QState.run rd s ops, none⟩ := by
  induction ops with
  | nil => intro s; rfl
  | cons o os ih => intro s; simp [CState.run, CState.step, QState.run, ih]

/-- eager operations after a trace that captured the Variable: as long as none of them replaces
    the Variable the graph keeps reading the quantizer's current one -/
theorem crun_eager_live (rd : Rnd) (ops : List Op) : ∀ s : QState, s.built = true →
    (∀ op ∈ ops, op ≠ .build true) →
    CState.run rd ⟨s, some .live⟩ (ops.map .eager) = ⟨QState.run rd s ops, some .live⟩ := by
  induction ops with
  | nil => intro s _ _; rfl
  | cons o os ih =>
    intro s hb hno
    have h1 : s.replacesVar o = false := by
      cases o with
      | build b =>
        cases b with
        | true => exact absurd rfl (hno _ (by simp))
        | false => rfl
      | call => simp [QState.replacesVar, hb]
      | _ => rfl
    simp only [List.map_cons, CState.run, CState.step, Option.map_some, Cap.after, h1,
      Bool.false_eq_true, if_false, QState.run]
    exact ih _ (built_step rd s o hb) (fun p hp => hno p (by simp [hp]))

theorem ceff_live (rd : Rnd) (s : QState) : (⟨s, some .live⟩ : CState).ceff rd = s.eff rd := by
  simp [CState.ceff, CState.cstore, CState.step, Cap.store, QState.eff]

theorem cap_after_const (s : QState) (op : Op) (v : ℚ) : Cap.after s op (.const v) = .const v := rfl

/-- a python-number capture is never revised, whatever happens afterwards -/
theorem crun_const (rd : Rnd) (v : ℚ) (os : List COp) : ∀ c : CState, c.cap = some (.const v) →
    (CState.run rd c os).cap = some (.const v) := by
  induction os with
  | nil => intro c h; exact h
  | cons o os ih =>
    intro c h
    apply ih
    cases o with
    | ccall => simp [CState.step, h]
    | eager op => simp [CState.step, h, cap_after_const]

theorem ceff_const (rd : Rnd) (c : CState) (v : ℚ) (h : c.cap = some (.const v)) :
    c.ceff rd = rd.r32 v := by
  simp [CState.ceff, CState.cstore, CState.step, h, Cap.store, Store.asF]

/-! ## the values returned by the calls of a history on one object (seed C07-10) -/

/-- the STE form and quantized_linear's form read the storage only through the float32 factor -/
theorem outF_asF (rd : Rnd) (s q : ℚ) (st : Store) (fm : Form) (h : fm ≠ .two false) :
    fm.outF rd s q st = fm.outF rd s q (.var (st.asF rd)) := by
  cases fm with
  | two u =>
    cases u with
    | false => exact absurd rfl h
    | true => rfl
  | linear => rfl

/-- in the real-number reading every form is `s + f (q − s)` -/
theorem outF_exact (s q : ℚ) (st : Store) (fm : Form) :
    fm.outF Rnd.exact s q st = s + st.asF Rnd.exact * (q - s) := by
  cases fm with
  | two u =>
    cases u <;> cases st <;>
      simp only [Form.outF, mixF, mixSteF, mixNoSteF, Store.asF, Store.oneMinus, Rnd.exact, id,
        if_true, Bool.false_eq_true, if_false] <;> ring
  | linear => cases st <;> simp [Form.outF, mixLinearF, Store.asF, Rnd.exact]

theorem callFactors_cons_other (r : ℚ → ℚ) (cur : ℚ) (op : Op) (ops : List Op)
    (h : lastWrite [op] = none) (hc : op ≠ .call) :
    callFactors r cur (op :: ops) = callFactors r cur ops := by
  cases op <;> simp_all [callFactors, lastWrite]

/-- if the return expression reads the storage only through the effective factor (`g`), the values
    returned by the calls of ANY history are `g` of the property's own factor list -/
theorem outs_of_factor (rd : Rnd) (fm : Form) (s q : ℚ) (g : ℚ → ℚ)
    (hg : ∀ st : Store, fm.outF rd s q st = g (st.asF rd)) (ops : List Op) :
    ∀ st : QState, (∀ op ∈ ops, Op.WF rd op) →
      QState.outs rd fm s q st ops = (callFactors rd.r32 (st.eff rd) ops).map g := by
  induction ops with
  | nil => intro st _; rfl
  | cons op ops ih =>
    intro st hwf
    have hop := hwf op (by simp)
    have h2 := ih (st.step rd op).1 (fun o ho => hwf o (by simp [ho]))
    have he := eff_step rd st op hop
    simp only [QState.outs, h2]
    cases op with
    | build b =>
      simp only [lastWrite] at he
      simp [callFactors, he]
    | update v =>
      simp only [lastWrite, Option.or] at he
      simp [callFactors, he]
    | updateFromVar v =>
      simp only [lastWrite, Option.or] at he
      simp [callFactors, he]
    | setUseVars b =>
      simp only [lastWrite] at he
      simp [callFactors, he]
    | call =>
      simp only [lastWrite] at he
      have : fm.outF rd s q (st.step rd .call).1.store = g (st.eff rd) := by
        rw [hg]; exact congrArg g he
      simp [callFactors, he, this]

/-- at a factor of exactly 0 the float32 evaluation of every form IS the surrogate, bit for bit
    (`s` a float32 value; the roundings fix 0 and 1) -/
theorem outF_zero (rd : Rnd) (h0 : rd.r32 0 = 0) (h1 : rd.r32 1 = 1) (h64 : rd.r64 1 = 1)
    (s q : ℚ) (hs : rd.r32 s = s) (fm : Form) (st : Store) (hz : st.raw = 0) :
    fm.outF rd s q st = s := by
  cases st with
  | py v =>
    simp only [Store.raw] at hz; subst hz
    cases fm with
    | two u =>
      cases u <;> simp [Form.outF, mixF, mixSteF, mixNoSteF, Store.asF, Store.oneMinus, h0, h1, h64, hs]
    | linear => simp [Form.outF, mixLinearF, Store.asF, h0, hs]
  | var v =>
    simp only [Store.raw] at hz; subst hz
    cases fm with
    | two u =>
      cases u <;> simp [Form.outF, mixF, mixSteF, mixNoSteF, Store.asF, Store.oneMinus, h0, h1, hs]
    | linear => simp [Form.outF, mixLinearF, Store.asF, h0, hs]

theorem outsShortcut_eq (rd : Rnd) (fm : Form) (s q : ℚ)
    (hz : ∀ st : Store, st.raw = 0 → fm.outF rd s q st = s) (ops : List Op) :
    ∀ st : QState, QState.outsShortcut rd fm s q st ops = QState.outs rd fm s q st ops := by
  induction ops with
  | nil => intro st; rfl
  | cons op ops ih =>
    intro st
    simp only [QState.outsShortcut, QState.outs, ih]
    by_cases hc : op = .call
    · by_cases h : (st.step rd op).1.store.raw = 0
      · simp [hc, hz _ (hc ▸ h)]
      · simp [hc, hc ▸ h]
    · simp [hc]

end QKV.QNoise
