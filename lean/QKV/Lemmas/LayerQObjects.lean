/- helper lemmas for `Model/LayerQObjects.lean` (C11 last clause: quantizer objects) -/
import Mathlib.Tactic
import QKV.Model.LayerQObjects
namespace QKV.Layers.QObj
open QKV.Layers

theorem setTrainable_idem (q : QState) : q.setTrainable.setTrainable = q.setTrainable := by
  unfold QState.setTrainable
  by_cases h : (q.hasSetTrainable && q.alpha.isNone) = true
  · simp [h]
  · simp [h]

theorem setTrainable_alpha (q : QState) (hs : q.hasSetTrainable = true) (ha : q.alpha = none) :
    q.setTrainable.alpha = some 0 := by
  simp [QState.setTrainable, hs, ha]

theorem setTrainable_of_alpha_some (q : QState) (k : Nat) (ha : q.alpha = some k) : q.setTrainable = q := by
  simp [QState.setTrainable, ha]

theorem setTrainable_of_no_method (q : QState) (hs : q.hasSetTrainable = false) : q.setTrainable = q := by
  simp [QState.setTrainable, hs]

theorem setTrainableAt_same (h : Heap) (o : Nat) : setTrainableAt h (some o) o = (h o).setTrainable := by
  simp [setTrainableAt, Heap.set]

theorem setTrainableAt_other (h : Heap) (i o : Nat) (hne : o ≠ i) : setTrainableAt h (some i) o = h o := by
  simp [setTrainableAt, Heap.set, hne]

/-- the in-place switches of a constructor, object by object: every object that sits in a trainable slot is
    switched (once: the method is idempotent), every other object is untouched -/
theorem foldl_setTrainableAt (ids : List (Option Nat)) (h : Heap) (o : Nat) :
    (ids.foldl setTrainableAt h) o = if some o ∈ ids then (h o).setTrainable else h o := by
  induction ids generalizing h with
  | nil => simp
  | cons a ids ih =>
    rw [List.foldl_cons, ih]
    cases a with
    | none => simp [setTrainableAt]
    | some i =>
      by_cases hio : o = i
      · subst hio
        simp [setTrainableAt_same, setTrainable_idem]
      · have hne : ¬ (some o = some i) := by simpa using hio
        simp [setTrainableAt_other h i o hio, hio]

theorem internal_getD (n : Nat) (args : List (Option Nat)) (s : Nat) :
    ((List.range n).map fun s => args.getD s none).getD s none = if s < n then args.getD s none else none := by
  by_cases hs : s < n <;> simp [hs]

theorem construct_heap (n : Nat) (train : List Nat) (args : List (Option Nat)) (h : Heap) (o : Nat) :
    (construct n train args h).2 o =
      if some o ∈ train.map (fun s => ((List.range n).map fun s => args.getD s none).getD s none)
      then (h o).setTrainable else h o := by
  unfold construct
  simp only []
  rw [← foldl_setTrainableAt, List.foldl_map]

theorem construct_obj (n : Nat) (train : List Nat) (args : List (Option Nat)) (h : Heap) :
    (construct n train args h).1.quantizers = (construct n train args h).1.internal := rfl

theorem construct_internal (n : Nat) (train : List Nat) (args : List (Option Nat)) (h : Heap) (s : Nat)
    (hs : s < n) : (construct n train args h).1.internal.getD s none = args.getD s none := by
  simp [construct, hs]

/-- without sharing the helper of seed C11-8 IS the in-place switch -/
theorem setAutoScaling_unshared (h : Heap) (next : Nat) (o : Option Nat) (others : List (Option Nat))
    (hn : ∀ i, o = some i → others.any (· == some i) = false) :
    setAutoScaling h next o others = (o, setTrainableAt h o, next) := by
  cases o with
  | none => rfl
  | some i =>
    have := hn i rfl
    unfold setAutoScaling
    simp only [this]
    by_cases hm : (h i).hasSetTrainable = true
    · simp [hm, setTrainableAt]
    · have hm' : (h i).hasSetTrainable = false := by simpa using hm
      simp only [hm', setTrainableAt]
      have : Heap.set h i (h i).setTrainable = h := by
        funext o'
        by_cases e : o' = i
        · subst e; simp [Heap.set, setTrainable_of_no_method _ hm']
        · simp [Heap.set, e]
      simp [this]

/-- the helper of seed C11-8 leaves alone every object it does not write: the fresh id and an UNshared argument -/
theorem setAutoScaling_heap_other (H : Heap) (n : Nat) (a : Option Nat) (others : List (Option Nat)) (p : Nat)
    (hsh : a = some p → others.any (· == some p) = true) (hp : p ≠ n) :
    (setAutoScaling H n a others).2.1 p = H p := by
  cases a with
  | none => rfl
  | some j =>
    unfold setAutoScaling
    by_cases hm : (H j).hasSetTrainable = true
    · by_cases hany : others.any (· == some j) = true
      · simp [hm, hany, Heap.set, hp]
      · have hpj : p ≠ j := by
          intro e; subst e; exact hany (hsh rfl)
        simp [hm, hany, Heap.set, hpj]
    · simp [hm]

end QKV.Layers.QObj
