/-
  QKV.Lemmas.Fixed — integer facts about two's-complement code ranges.
-/
import Mathlib.Tactic
import QKV.Lemmas.Pow2
import QKV.Model.QTypes
namespace QKV

/-- `2^n` as an integer through the same `toNat` route the model uses. -/
def tp (n : ℤ) : ℤ := ((2 ^ n.toNat : ℕ) : ℤ)

theorem tp_pos (n : ℤ) : 0 < tp n := by unfold tp; positivity
theorem tp_ge_one (n : ℤ) : 1 ≤ tp n := tp_pos n

theorem tp_add {a b : ℤ} (ha : 0 ≤ a) (hb : 0 ≤ b) : tp (a + b) = tp a * tp b := by
  unfold tp
  rw [Int.toNat_add ha hb, pow_add]; push_cast; ring

theorem tp_zero : tp 0 = 1 := by simp [tp]
theorem tp_one : tp 1 = 2 := by simp [tp]

theorem tp_succ {a : ℤ} (ha : 0 ≤ a) : tp (a + 1) = 2 * tp a := by
  rw [tp_add ha (by norm_num), tp_one]; ring

theorem tp_mono {a b : ℤ} (h : a ≤ b) : tp a ≤ tp b := by
  unfold tp
  exact_mod_cast Nat.pow_le_pow_right (by norm_num) (Int.toNat_le_toNat h)

theorem tp_cast {a : ℤ} (ha : 0 ≤ a) : ((tp a : ℤ) : ℚ) = pow2 a := by
  obtain ⟨n, rfl⟩ := Int.eq_ofNat_of_zero_le ha
  simp [tp, pow2_eq_zpow]

theorem fixedLo_signed (b : ℤ) : fixedLo b true = - tp (b - 1) := by simp [fixedLo, tp]
theorem fixedLo_unsigned (b : ℤ) : fixedLo b false = 0 := by simp [fixedLo]
theorem fixedHi_signed (b : ℤ) : fixedHi b true = tp (b - 1) - 1 := by simp [fixedHi, tp]
theorem fixedHi_unsigned (b : ℤ) : fixedHi b false = tp b - 1 := by simp [fixedHi, tp]

/-- signed × signed: the product of two codes fits one bit less than the sum of widths,
    unless both are most negative. -/
theorem mul_bounds_ss {A B k l : ℤ} (hA : 0 < A) (hB : 0 < B)
    (hk1 : -A ≤ k) (hk2 : k ≤ A - 1) (hl1 : -B ≤ l) (hl2 : l ≤ B - 1)
    (hex : ¬(k = -A ∧ l = -B)) : -(A * B) ≤ k * l ∧ k * l ≤ A * B - 1 := by
  constructor
  · nlinarith
  · by_cases hk : k = -A
    · have hl : -B + 1 ≤ l := by
        rcases lt_or_eq_of_le hl1 with h | h
        · omega
        · exact absurd ⟨hk, h.symm⟩ hex
      subst hk
      nlinarith
    · have hk' : -A + 1 ≤ k := by
        rcases lt_or_eq_of_le hk1 with h | h
        · omega
        · exact absurd h.symm hk
      by_cases hl0 : 0 ≤ l
      · nlinarith
      · push Not at hl0
        nlinarith

/-- signed × unsigned -/
theorem mul_bounds_su {A B k l : ℤ} (hA : 0 < A) (hB : 0 < B)
    (hk1 : -A ≤ k) (hk2 : k ≤ A - 1) (hl1 : 0 ≤ l) (hl2 : l ≤ B - 1) :
    -(A * B) ≤ k * l ∧ k * l ≤ A * B - 1 := by
  constructor <;> nlinarith

/-- unsigned × unsigned -/
theorem mul_bounds_uu {A B k l : ℤ} (hA : 0 < A) (hB : 0 < B)
    (hk1 : 0 ≤ k) (hk2 : k ≤ A - 1) (hl1 : 0 ≤ l) (hl2 : l ≤ B - 1) :
    0 ≤ k * l ∧ k * l ≤ A * B - 1 := by
  constructor <;> nlinarith

end QKV

namespace QKV

/-- magnitude bits of a fixed-point type -/
def magBits (bits : ℤ) (signed : Bool) : ℤ := bits - b2i signed

theorem fixedHi_eq (b : ℤ) (s : Bool) : fixedHi b s = tp (magBits b s) - 1 := by
  cases s <;> simp [fixedHi, tp, magBits, b2i]

theorem fixedLo_eq (b : ℤ) (s : Bool) : fixedLo b s = if s then - tp (magBits b s) else 0 := by
  cases s <;> simp [fixedLo, tp, magBits, b2i]

/-- the code interval of a fixed-point type in terms of its magnitude bits -/
theorem code_bounds {b : ℤ} {s : Bool} {k : ℤ} (h1 : fixedLo b s ≤ k) (h2 : k ≤ fixedHi b s) :
    (if s then - tp (magBits b s) else 0) ≤ k ∧ k ≤ tp (magBits b s) - 1 := by
  rw [fixedLo_eq] at h1; rw [fixedHi_eq] at h2; exact ⟨h1, h2⟩

/-- Product of two fixed-point values is a value of any fixed-point type whose lsb is the sum
    of the lsbs, whose magnitude bits are the sum of magnitude bits and which is signed iff
    one operand is — unless both operands are most negative. -/
theorem valFixed_mul {bw iw bx ix bo io : ℤ} {sw sx so : Bool} {a b : ℚ}
    (hs : so = (sw || sx))
    (hm : magBits bo so = magBits bw sw + magBits bx sx)
    (hl : fixedLsb bo io so = fixedLsb bw iw sw + fixedLsb bx ix sx)
    (hmw : 0 ≤ magBits bw sw) (hmx : 0 ≤ magBits bx sx)
    (ha : ValFixed bw iw sw a) (hb : ValFixed bx ix sx b)
    (hex : ¬ (sw = true ∧ sx = true ∧
              a = (fixedLo bw true : ℚ) * pow2 (fixedLsb bw iw true) ∧
              b = (fixedLo bx true : ℚ) * pow2 (fixedLsb bx ix true))) :
    ValFixed bo io so (a * b) := by
  obtain ⟨k, hk1, hk2, rfl⟩ := ha
  obtain ⟨l, hl1, hl2, rfl⟩ := hb
  obtain ⟨hk1, hk2⟩ := code_bounds hk1 hk2
  obtain ⟨hl1, hl2⟩ := code_bounds hl1 hl2
  refine ⟨k * l, ?_, ?_, ?_⟩
  · rw [fixedLo_eq, hm, tp_add hmw hmx]
    subst hs
    have hA := tp_pos (magBits bw sw)
    have hB := tp_pos (magBits bx sx)
    cases sw <;> cases sx <;> simp only [Bool.or_false, Bool.or_true, if_true,
      if_false, Bool.false_eq_true] at hk1 hl1 ⊢ <;> nlinarith
  · rw [fixedHi_eq, hm, tp_add hmw hmx]
    have hA := tp_pos (magBits bw sw)
    have hB := tp_pos (magBits bx sx)
    cases sw <;> cases sx <;> simp only [if_true, if_false, Bool.false_eq_true] at hk1 hl1
    · nlinarith
    · nlinarith
    · nlinarith
    · have hne : ¬(k = -tp (magBits bw true) ∧ l = -tp (magBits bx true)) := by
        rintro ⟨rfl, rfl⟩
        apply hex
        refine ⟨rfl, rfl, ?_, ?_⟩ <;> simp [fixedLo_eq]
      exact (mul_bounds_ss hA hB hk1 hk2 hl1 hl2 hne).2
  · rw [hl, pow2_add]; push_cast; ring

end QKV

namespace QKV

theorem valFixed_zero {b i : ℤ} {s : Bool} : ValFixed b i s 0 := by
  refine ⟨0, ?_, ?_, by simp⟩
  · rw [fixedLo_eq]; have := tp_pos (magBits b s); cases s <;> simp <;> omega
  · rw [fixedHi_eq]; have := tp_pos (magBits b s); omega

/-- a fixed-point value times `±2^e`, `−mn ≤ e ≤ mx`, is a value of the type with `mn` more
    fractional bits and `mx` more integer bits (the Shifter rule) — unless the fixed operand is
    most negative and the power of two is `−2^mx`. -/
theorem valFixed_mul_po2 {bq iq bo io : ℤ} {sq so sp : Bool} {a : ℚ} {e mn mx : ℤ} {neg : Bool}
    (hs : so = (sq || sp))
    (hm : magBits bo so = magBits bq sq + (mn + mx))
    (hl : fixedLsb bo io so = fixedLsb bq iq sq - mn)
    (hmq : 0 ≤ magBits bq sq) (h1 : -mn ≤ e) (h2 : e ≤ mx) (hneg : neg = true → sp = true)
    (ha : ValFixed bq iq sq a)
    (hex : ¬(sq = true ∧ neg = true ∧ e = mx ∧
             a = (fixedLo bq true : ℚ) * pow2 (fixedLsb bq iq true))) :
    ValFixed bo io so (a * (if neg then - pow2 e else pow2 e)) := by
  obtain ⟨k, hk1, hk2, rfl⟩ := ha
  obtain ⟨hk1, hk2⟩ := code_bounds hk1 hk2
  have hA := tp_pos (magBits bq sq)
  have hT1 := tp_ge_one (e + mn)
  have hTM : tp (e + mn) ≤ tp (mn + mx) := tp_mono (by omega)
  have hM : tp (magBits bq sq + (mn + mx)) = tp (magBits bq sq) * tp (mn + mx) :=
    tp_add hmq (by omega)
  have hval : ∀ σ : ℤ, ((σ * k * tp (e + mn) : ℤ) : ℚ) * pow2 (fixedLsb bq iq sq - mn)
      = (k : ℚ) * pow2 (fixedLsb bq iq sq) * ((σ : ℚ) * pow2 e) := by
    intro σ
    have : pow2 e = pow2 (e + mn) * pow2 (-mn) := by rw [← pow2_add]; congr 1; ring
    rw [this, sub_eq_add_neg, pow2_add]
    push_cast
    rw [tp_cast (by omega)]
    ring
  cases hn : neg
  · -- positive power of two
    refine ⟨1 * k * tp (e + mn), ?_, ?_, ?_⟩
    · rw [fixedLo_eq, hm, hM]; subst hs
      cases sq <;> cases sp <;> simp only [Bool.or_false, Bool.or_true, if_true,
        if_false, Bool.false_eq_true] at hk1 ⊢ <;> nlinarith
    · rw [fixedHi_eq, hm, hM]
      cases sq <;> simp only [if_true, if_false, Bool.false_eq_true] at hk1 <;> nlinarith
    · rw [hl, hval 1]; simp
  · -- negative power of two: the po2 operand is signed, hence so is the output
    have hsp : sp = true := hneg hn
    subst hsp
    have hso : so = true := by rw [hs]; simp
    subst hso
    refine ⟨(-1) * k * tp (e + mn), ?_, ?_, ?_⟩
    · rw [fixedLo_eq, hm, hM]
      cases sq <;> simp only [if_true, if_false, Bool.false_eq_true] at hk1 ⊢ <;> nlinarith
    · rw [fixedHi_eq, hm, hM]
      have hAM := mul_pos hA (tp_pos (mn + mx))
      cases sq
      · simp only [if_false, Bool.false_eq_true] at hk1
        have := mul_nonneg hk1 (le_trans zero_le_one hT1)
        nlinarith
      · simp only [if_true] at hk1
        -- q signed: only k = −2^m with e = mx overflows
        by_cases hk : k = - tp (magBits bq true)
        · have he : e ≠ mx := by
            intro he
            apply hex
            refine ⟨rfl, hn, he, ?_⟩
            rw [fixedLo_eq, hk]; simp
          have hlt : tp (e + mn) < tp (mn + mx) := by
            have h3 : e + mn + 1 ≤ mn + mx := by omega
            have := tp_mono h3
            rw [tp_succ (by omega)] at this
            omega
          rw [hk]; nlinarith
        · have hk' : - tp (magBits bq true) + 1 ≤ k := by
            rcases lt_or_eq_of_le hk1 with h | h
            · omega
            · exact absurd h.symm hk
          by_cases hk0 : 0 ≤ k
          · have := mul_nonneg hk0 (le_trans zero_le_one hT1)
            nlinarith
          · push Not at hk0
            nlinarith
    · rw [hl, hval (-1)]; simp

end QKV
