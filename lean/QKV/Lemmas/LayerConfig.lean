/-
  QKV.Lemmas.LayerConfig — association-list facts and the generic (table-independent) round-trip
  lemmas behind Props/C13.
-/
import Mathlib.Tactic
import QKV.Model.LayerConfig
namespace QKV.LC

/-! ### association lists -/

theorem lookup_map_none {α β : Type} (l : List α) (key : α → String) (g : α → β) (k : String)
    (h : k ∉ l.map key) : (l.map fun x => (key x, g x)).lookup k = none := by
  induction l with
  | nil => rfl
  | cons x t ih =>
    simp only [List.map_cons, List.mem_cons, not_or] at h
    have hne : (k == key x) = false := by simpa using h.1
    simp only [List.map_cons, List.lookup_cons, hne]
    exact ih h.2

theorem lookup_map_some {α β : Type} (l : List α) (key : α → String) (g : α → β) (a : α)
    (ha : a ∈ l) (hnd : (l.map key).Nodup) :
    (l.map fun x => (key x, g x)).lookup (key a) = some (g a) := by
  induction l with
  | nil => cases ha
  | cons x t ih =>
    simp only [List.map_cons, List.nodup_cons] at hnd
    rcases List.mem_cons.mp ha with rfl | hat
    · simp [List.lookup_cons]
    · have hne : (key a == key x) = false := by
        have : key a ≠ key x := fun e => hnd.1 (e ▸ List.mem_map_of_mem hat)
        simpa using this
      simp only [List.map_cons, List.lookup_cons, hne]
      exact ih hat hnd.2

theorem key_inj_of_nodup {α : Type} (l : List α) (key : α → String) (hnd : (l.map key).Nodup)
    {a b : α} (ha : a ∈ l) (hb : b ∈ l) (h : key a = key b) : a = b :=
  List.inj_on_of_nodup_map hnd ha hb h

theorem lookup_filter_map {α β : Type} (l : List α) (key : α → String) (g : α → β) (P : α → Bool)
    (a : α) (ha : a ∈ l) (hnd : (l.map key).Nodup) :
    ((l.filter P).map fun x => (key x, g x)).lookup (key a) = if P a then some (g a) else none := by
  have hsub : ((l.filter P).map key).Nodup :=
    List.Nodup.sublist (List.Sublist.map key List.filter_sublist) hnd
  by_cases hp : P a = true
  · simp only [hp, if_true]
    exact lookup_map_some _ key g a (List.mem_filter.mpr ⟨ha, hp⟩) hsub
  · simp only [hp]
    apply lookup_map_none
    intro hmem
    obtain ⟨b, hb, hk⟩ := List.mem_map.mp hmem
    have hb' := List.mem_filter.mp hb
    have : b = a := key_inj_of_nodup l key hnd hb'.1 ha hk
    exact hp (this ▸ hb'.2)

theorem lookup_append_of_not_mem {β : Type} (l1 l2 : List (String × β)) (k : String)
    (h : k ∉ l1.map Prod.fst) : (l1 ++ l2).lookup k = l2.lookup k := by
  induction l1 with
  | nil => rfl
  | cons x t ih =>
    obtain ⟨k', v⟩ := x
    simp only [List.map_cons, List.mem_cons, not_or] at h
    have hne : (k == k') = false := by simpa using h.1
    simp only [List.cons_append, List.lookup_cons, hne]
    exact ih h.2

theorem lookup_self_map {β : Type} (l : List String) (f : String → β) (k : String) :
    (l.map fun x => (x, f x)).lookup k = if k ∈ l then some (f k) else none := by
  induction l with
  | nil => simp
  | cons x t ih =>
    by_cases h : k = x
    · subst h; simp [List.lookup_cons]
    · have hne : (k == x) = false := by simpa using h
      simp only [List.map_cons, List.lookup_cons, hne, ih, List.mem_cons, h, false_or]

/-- an association list with distinct keys is determined by its keys and its lookups -/
theorem assoc_eq_of_keys {β : Type} (l : List (String × β)) (hnd : (l.map Prod.fst).Nodup) :
    l = l.map fun kv => (kv.1, (l.lookup kv.1).getD kv.2) := by
  induction l with
  | nil => rfl
  | cons x t ih =>
    obtain ⟨k, v⟩ := x
    simp only [List.map_cons, List.nodup_cons] at hnd
    simp only [List.map_cons, List.lookup_cons, beq_self_eq_true, Option.getD_some]
    congr 1
    conv_lhs => rw [ih hnd.2]
    apply List.map_congr_left
    intro kv hkv
    have hne : (kv.1 == k) = false := by
      have : kv.1 ≠ k := fun e => hnd.1 (e ▸ List.mem_map_of_mem (f := Prod.fst) hkv)
      simpa using this
    simp [hne]

/-! ### `collect` -/

theorem collect_ok {α : Type} (l : List α) (key : α → String) (f : α → Except Err Arg)
    (r : α → Arg) (h : ∀ x ∈ l, f x = .ok (r x)) :
    collect (l.map fun x => (key x, f x)) = .ok (l.map fun x => (key x, r x)) := by
  induction l with
  | nil => rfl
  | cons x t ih =>
    have hx := h x (by simp)
    have ht := ih (fun y hy => h y (by simp [hy]))
    simp only [List.map_cons, hx, collect, ht]

theorem collectNodes_ok {α : Type} (l : List α) (f : α → Except Err MNode) (r : α → MNode)
    (h : ∀ x ∈ l, f x = .ok (r x)) : collectNodes (l.map f) = .ok (l.map r) := by
  induction l with
  | nil => rfl
  | cons x t ih =>
    have hx := h x (by simp)
    have ht := ih (fun y hy => h y (by simp [hy]))
    simp only [List.map_cons, hx, collectNodes, ht]

/-! ### quantizers -/

/-- value `get_config` writes for key `k` -/
def qAttr (s : QSpec) (q : QObj) (k : String) : PyVal :=
  match q.args.lookup k with
  | some v => v
  | none => (s.extra.lookup k).getD .none

/-- every emitted key is a constructor parameter (true of every class but quantized_hswish) -/
def QSpec.Closed (s : QSpec) : Prop := ∀ k ∈ s.emits, s.hasParam k = true

theorem qGetConfig_eq (s : QSpec) (q : QObj) :
    qGetConfig s q = s.emits.map fun k => (k, qAttr s q k) := rfl

theorem qGetConfig_lookup (s : QSpec) (q : QObj) (k : String) :
    (qGetConfig s q).lookup k = if k ∈ s.emits then some (qAttr s q k) else none := by
  rw [qGetConfig_eq]; exact lookup_self_map _ _ _

/-- the reloaded quantizer: emitted arguments keep their value, dropped ones get the default -/
def qReloaded (s : QSpec) (q : QObj) : QObj :=
  ⟨s.name, s.params.map fun p => (p.1, if p.1 ∈ s.emits then qAttr s q p.1 else p.2), []⟩

theorem qFromConfig_getConfig (s : QSpec) (q : QObj) (hc : s.Closed) :
    qFromConfig s (qGetConfig s q) = .ok (qReloaded s q) := by
  unfold qFromConfig
  have hall : (qGetConfig s q).all (fun kv => s.hasParam kv.1) = true := by
    rw [qGetConfig_eq, List.all_eq_true]
    intro kv hkv
    obtain ⟨k, hk, rfl⟩ := List.mem_map.mp hkv
    exact hc k hk
  rw [if_pos hall]
  unfold qReloaded
  congr 2
  apply List.map_congr_left
  intro p _
  rw [qGetConfig_lookup]
  by_cases h : p.1 ∈ s.emits <;> simp [h]

theorem qFromConfig_getConfig_error (s : QSpec) (q : QObj) (k : String) (hk : k ∈ s.emits)
    (hn : s.hasParam k = false) : qFromConfig s (qGetConfig s q) = .error .typeError := by
  unfold qFromConfig
  have hall : ¬ (qGetConfig s q).all (fun kv => s.hasParam kv.1) = true := by
    rw [qGetConfig_eq, List.all_eq_true]
    intro h
    have := h (k, qAttr s q k) (List.mem_map.mpr ⟨k, hk, rfl⟩)
    simp [hn] at this
  rw [if_neg hall]

/-- `q` is an instance of class `s` holding a value for exactly the constructor parameters, and
    every argument that `get_config` drops has its default value -/
structure QSerializable (s : QSpec) (q : QObj) : Prop where
  cls : q.cls = s.name
  keys : q.args.map Prod.fst = s.params.map Prod.fst
  nodup : (s.params.map Prod.fst).Nodup
  dropped : ∀ p ∈ s.params, p.1 ∉ s.emits → q.args.lookup p.1 = some p.2
  /-- every argument is a numpy value where the class calls numpy methods on it (what `from_config`
      produces; a plain Python list / float for `post_training_scale` is outside) -/
  numpy : q.native = []

theorem zip_keys_eq {β : Type} (a b : List (String × β)) (hk : a.map Prod.fst = b.map Prod.fst)
    (hv : ∀ k, k ∈ a.map Prod.fst → a.lookup k = b.lookup k) (hnd : (a.map Prod.fst).Nodup) :
    a = b := by
  induction a generalizing b with
  | nil =>
    cases b with
    | nil => rfl
    | cons y t => simp at hk
  | cons x t ih =>
    cases b with
    | nil => simp at hk
    | cons y u =>
      obtain ⟨k, v⟩ := x
      obtain ⟨k', v'⟩ := y
      simp only [List.map_cons, List.cons.injEq] at hk
      obtain ⟨rfl, hk2⟩ := hk
      simp only [List.map_cons, List.nodup_cons] at hnd
      have h0 := hv k (by simp)
      simp only [List.lookup_cons, beq_self_eq_true, Option.some.injEq] at h0
      subst h0
      congr 1
      apply ih u hk2 _ hnd.2
      intro k2 hk2m
      have hne : (k2 == k) = false := by
        have : k2 ≠ k := fun e => hnd.1 (e ▸ hk2m)
        simpa using this
      have := hv k2 (by simp [hk2m])
      simpa [List.lookup_cons, hne] using this

theorem qReloaded_eq_self (s : QSpec) (q : QObj) (h : QSerializable s q) : qReloaded s q = q := by
  obtain ⟨c, a, nat⟩ := q
  have hc : c = s.name := h.cls
  subst hc
  have hn : nat = [] := h.numpy
  subst hn
  unfold qReloaded
  congr 1
  symm
  apply zip_keys_eq
  · simp only [List.map_map]
    exact h.keys
  · intro k hk
    have hk' : k ∈ s.params.map Prod.fst := h.keys ▸ hk
    obtain ⟨p, hp, rfl⟩ := List.mem_map.mp hk'
    have hl := lookup_map_some s.params Prod.fst
      (fun p => if p.1 ∈ s.emits then qAttr s ⟨s.name, a, []⟩ p.1 else p.2) p hp h.nodup
    rw [hl]
    by_cases he : p.1 ∈ s.emits
    · simp only [he, if_true]
      obtain ⟨kv, hkv, hkeq⟩ := List.mem_map.mp hk
      unfold qAttr
      have hsome : ∃ v, List.lookup p.1 a = some v := by
        have hnd : (a.map Prod.fst).Nodup := h.keys ▸ h.nodup
        refine ⟨kv.2, ?_⟩
        have := lookup_map_some a Prod.fst Prod.snd kv hkv hnd
        simpa [hkeq] using this
      obtain ⟨v, hv⟩ := hsome
      simp [hv]
    · simp only [he, if_false]
      exact h.dropped p hp he
  · exact h.keys ▸ h.nodup

/-! ### layers -/

/-- parameter kinds whose constructor treatment looks at the parameter alone -/
def Kind.isLocal : Kind → Bool
  | .constr _ _ => false
  | .init _ _ _ => false
  | _ => true

theorem normParam_of_local (E : Env) (spec : LSpec) (raw : List (String × Arg)) (p : Param)
    (hl : p.kind.isLocal = true) :
    normParam E spec raw p = normLocal E spec p.kind ((raw.lookup p.name).getD p.default) := by
  unfold normParam
  cases hk : p.kind <;> simp_all [Kind.isLocal]

theorem normParam_local (E : Env) (spec : LSpec) (raw raw' : List (String × Arg)) (p : Param)
    (hl : p.kind.isLocal = true) (h : raw.lookup p.name = raw'.lookup p.name) :
    normParam E spec raw p = normParam E spec raw' p := by
  rw [normParam_of_local E spec raw p hl, normParam_of_local E spec raw' p hl, h]

theorem deserParam_getConfig (E : Env) (spec : LSpec) (L : Layer) (p : Param) (hp : p ∈ spec.params)
    (hnd : (spec.params.map (·.name)).Nodup)
    (hkw : ∀ k ∈ L.kwargs.map Prod.fst, spec.hasParam k = false) :
    deserParam E (layerGetConfig E spec L) p =
      if p.emitted then deserArg E p.kind (serArg E p.kind (L.arg p.name))
      else if p.required then .error .typeError else .ok p.default := by
  unfold deserParam layerGetConfig
  have hnot : p.name ∉ L.kwargs.map Prod.fst := by
    intro hmem
    have := hkw _ hmem
    have h2 : spec.hasParam p.name = true := by
      unfold LSpec.hasParam
      rw [List.any_eq_true]
      exact ⟨p, hp, by simp⟩
    rw [h2] at this; cases this
  rw [lookup_append_of_not_mem _ _ _ hnot]
  rw [lookup_filter_map spec.params (·.name) (fun p => serArg E p.kind (L.arg p.name)) (·.emitted) p hp hnd]
  by_cases he : p.emitted = true
  · simp [he]
  · simp [he]

/-- hypotheses of the layer round trip, for a layer `L` of class `spec` as it exists after its
    constructor ran -/
structure LayerOK (E : Env) (spec : LSpec) (L : Layer) : Prop where
  cls : L.cls = spec.name
  nodup : (spec.params.map (·.name)).Nodup
  /-- forwarded keyword arguments are not constructor parameters of the class -/
  kwargs : ∀ k ∈ L.kwargs.map Prod.fst, spec.hasParam k = false
  /-- the class' from_config pre-processing leaves the emitted config alone
      (QLSTM/QGRU: `implementation` is not 0) -/
  hook : applyHook spec.hook (layerGetConfig E spec L) = layerGetConfig E spec L
  /-- post-constructor state: re-running the constructor's normalisation changes no read argument -/
  normal : ∀ p ∈ spec.params, p.read = true → normLocal E spec p.kind (L.arg p.name) = L.arg p.name
  readLocal : ∀ p ∈ spec.params, p.read = true → p.kind.isLocal = true
  requiredEmitted : ∀ p ∈ spec.params, p.required = true → p.emitted = true
  /-- every emitted argument deserialises without an exception -/
  reloads : ∀ p ∈ spec.params, p.emitted = true →
    ∃ a', deserArg E p.kind (serArg E p.kind (L.arg p.name)) = .ok a'
  /-- every emitted argument the computation reads comes back unchanged -/
  readBack : ∀ p ∈ spec.params, p.read = true → p.emitted = true →
    deserArg E p.kind (serArg E p.kind (L.arg p.name)) = .ok (L.arg p.name)
  /-- read arguments that get_config drops have their default value -/
  droppedDefault : ∀ p ∈ spec.params, p.read = true → p.emitted = false → L.arg p.name = p.default

/-- the reloaded raw argument of parameter `p` -/
def reloadedRaw (E : Env) (L : Layer) (p : Param) : Arg :=
  if p.emitted then
    match deserArg E p.kind (serArg E p.kind (L.arg p.name)) with
    | .ok a => a
    | .error _ => p.default
  else p.default

theorem filter_kwargs (E : Env) (spec : LSpec) (L : Layer)
    (hkw : ∀ k ∈ L.kwargs.map Prod.fst, spec.hasParam k = false) :
    (layerGetConfig E spec L).filter (fun kv => !spec.hasParam kv.1) = L.kwargs := by
  unfold layerGetConfig
  rw [List.filter_append]
  have h1 : L.kwargs.filter (fun kv => !spec.hasParam kv.1) = L.kwargs := by
    apply List.filter_eq_self.mpr
    intro kv hkv
    have := hkw kv.1 (List.mem_map_of_mem (f := Prod.fst) hkv)
    simp [this]
  have h2 : ((spec.params.filter (·.emitted)).map fun p => (p.name, serArg E p.kind (L.arg p.name))).filter
      (fun kv => !spec.hasParam kv.1) = [] := by
    apply List.filter_eq_nil_iff.mpr
    intro kv hkv
    obtain ⟨p, hp, rfl⟩ := List.mem_map.mp hkv
    have hp' := (List.mem_filter.mp hp).1
    have : spec.hasParam p.name = true := by
      unfold LSpec.hasParam
      rw [List.any_eq_true]
      exact ⟨p, hp', by simp⟩
    simp [this]
  rw [h1, h2, List.append_nil]

theorem layer_roundtrip (E : Env) (spec : LSpec) (L : Layer) (h : LayerOK E spec L) :
    ∃ L', layerFromConfig E spec (layerGetConfig E spec L) = .ok L' ∧ L'.cls = L.cls ∧
      L'.kwargs = L.kwargs ∧ readArgs spec L' = readArgs spec L := by
  have hdes : ∀ p ∈ spec.params,
      deserParam E (layerGetConfig E spec L) p = .ok (reloadedRaw E L p) := by
    intro p hp
    rw [deserParam_getConfig E spec L p hp h.nodup h.kwargs]
    unfold reloadedRaw
    by_cases he : p.emitted = true
    · obtain ⟨a', ha'⟩ := h.reloads p hp he
      simp [he, ha']
    · have hr : p.required = false := by
        by_contra hr
        exact he (h.requiredEmitted p hp (by simpa using hr))
      simp [he, hr]
  refine ⟨⟨spec.name, L.kwargs,
    normalize E spec (spec.params.map fun p => (p.name, reloadedRaw E L p))⟩, ?_, h.cls.symm, rfl, ?_⟩
  · unfold layerFromConfig
    simp only [h.hook]
    rw [collect_ok spec.params (·.name) (deserParam E (layerGetConfig E spec L)) (reloadedRaw E L) hdes]
    simp only [filter_kwargs E spec L h.kwargs]
  · unfold readArgs
    apply List.map_congr_left
    intro p hp
    obtain ⟨hp, hread⟩ := List.mem_filter.mp hp
    congr 1
    set raw := spec.params.map fun p => (p.name, reloadedRaw E L p) with hraw
    have hlook : (normalize E spec raw).lookup p.name = some (normParam E spec raw p) := by
      unfold normalize
      exact lookup_map_some spec.params (·.name) (normParam E spec raw) p hp h.nodup
    have hrawl : raw.lookup p.name = some (reloadedRaw E L p) :=
      lookup_map_some spec.params (·.name) (reloadedRaw E L) p hp h.nodup
    show ((normalize E spec raw).lookup p.name).getD (.lit .none) = L.arg p.name
    rw [hlook, Option.getD_some, normParam_of_local E spec raw p (h.readLocal p hp hread), hrawl,
      Option.getD_some]
    have hval : reloadedRaw E L p = L.arg p.name := by
      unfold reloadedRaw
      by_cases he : p.emitted = true
      · simp [he, h.readBack p hp hread he]
      · have he' : p.emitted = false := by simpa using he
        simp [he', h.droppedDefault p hp hread he']
    rw [hval]
    exact h.normal p hp hread

/-! ### evaluation only looks at the view -/

/-- what the semantics can see of a node -/
inductive NView where
  | q (cls : String) (kw : Cfg) (args : List (String × Arg))
  | keras (cls : String) (cfg : Cfg)
  | bidir (kw : Cfg) (f : String × Cfg × List (String × Arg)) (b : Option (String × Cfg × List (String × Arg)))

def nodeView (E : Env) : Node → NView
  | .q l => let v := layerView E l; .q v.1 v.2.1 v.2.2
  | .keras c cfg => .keras c cfg
  | .bidir kw f b => .bidir kw (layerView E f) (b.map (layerView E))

def evalView {W V : Type} (S : Sem W V) : NView → W → List V → V
  | .q c kw a, w, xs => S.layer c kw a w xs
  | .keras c cfg, w, xs => S.keras c cfg w xs
  | .bidir kw f b, w, xs =>
    S.bidir kw (S.layer f.1 f.2.1 f.2.2 w xs) (b.map fun v => S.layer v.1 v.2.1 v.2.2 w xs)

theorem evalNode_eq_view {W V : Type} (E : Env) (S : Sem W V) (n : Node) (w : W) (xs : List V) :
    evalNode E S n w xs = evalView S (nodeView E n) w xs := by
  cases n with
  | q l => rfl
  | keras c cfg => rfl
  | bidir kw f b => cases b <;> rfl

/-- two models whose nodes pairwise have the same wiring and the same view -/
def SameViews (E : Env) (m m' : Model) : Prop :=
  List.Forall₂ (fun a b => a.inbound = b.inbound ∧ nodeView E a.node = nodeView E b.node) m m'

theorem evalFrom_congr {W V : Type} [Inhabited V] (E : Env) (S : Sem W V) (ws : Nat → W)
    (m m' : Model) (h : SameViews E m m') (i : Nat) (acc : List V) :
    evalFrom E S ws m i acc = evalFrom E S ws m' i acc := by
  induction h generalizing i acc with
  | nil => rfl
  | cons hab _ ih =>
    simp only [evalFrom]
    rw [evalNode_eq_view, evalNode_eq_view, hab.1, hab.2]
    exact ih _ _

/-! ### per-kind sufficient conditions -/

theorem findQ_name (E : Env) (c : String) (s : QSpec) (h : E.findQ c = some s) : s.name = c := by
  unfold Env.findQ at h
  have := List.find?_some h
  simpa using this

theorem findQ_mem_globals (E : Env) (c : String) (s : QSpec) (h : E.findQ c = some s) :
    E.quantizerGlobals.contains c = true := by
  unfold Env.quantizerGlobals
  have hm := List.mem_of_find?_eq_some h
  have hn := findQ_name E c s h
  simp only [List.contains_eq_mem, List.mem_map, decide_eq_true_eq]
  exact ⟨s, hm, hn⟩

theorem deserQ_serQ_obj (E : Env) (scope : List String) (q : QObj) (s : QSpec)
    (hf : E.findQ q.cls = some s) (hc : s.Closed) (hs : scope.contains q.cls = true) :
    deserQ E scope (serQ E (.obj q)) = .ok (.obj (qReloaded s q)) := by
  simp only [serQ, hf, serObj, deserQ, List.lookup_cons, beq_self_eq_true]
  have h1 : ("config" == "class_name") = false := by decide
  simp only [h1, hs, if_true, hf, qFromConfig_getConfig s q hc, List.lookup_cons, beq_self_eq_true]
  rfl

/-- a quantizer slot value that comes back unchanged -/
inductive QValOK (E : Env) (scope : List String) : QVal → Prop where
  | none : QValOK E scope .none
  | obj (q : QObj) (s : QSpec) (hf : E.findQ q.cls = some s) (hc : s.Closed)
      (hs : scope.contains q.cls = true) (hser : QSerializable s q) : QValOK E scope (.obj q)

theorem deserQ_serQ_ok (E : Env) (scope : List String) (v : QVal) (h : QValOK E scope v) :
    deserQ E scope (serQ E v) = .ok v := by
  cases h with
  | none => rfl
  | obj q s hf hc hs hser =>
    rw [deserQ_serQ_obj E scope q s hf hc hs, qReloaded_eq_self s q hser]

theorem readBack_quant (E : Env) (t : Bool) (v : QVal) (h : QValOK E E.quantizerGlobals v) :
    deserArg E (.quant t) (serArg E (.quant t) (.q v)) = .ok (.q v) := by
  simp only [serArg, deserArg, deserQ_serQ_ok E _ v h]
  rfl

theorem readBack_lit (E : Env) (v : PyVal) : deserArg E .lit (serArg E .lit (.lit v)) = .ok (.lit v) := rfl

theorem readBack_fixed (E : Env) (c v : PyVal) :
    deserArg E (.fixed c) (serArg E (.fixed c) (.lit v)) = .ok (.lit v) := rfl

theorem readBack_mask (E : Env) (v : PyVal) (h : reshapeMask v = .ok v) :
    deserArg E .mask (serArg E .mask (.lit v)) = .ok (.lit v) := by
  simp only [serArg, deserArg, h]
  rfl

/-- an activation slot value that comes back unchanged through the layer constructor -/
inductive ActOK (E : Env) : Act → Prop where
  | none : ActOK E .none
  | fn (n : String) (h : isQuantizerString E n = false) : ActOK E (.fn n)
  | obj (q : QObj) (h : QValOK E E.quantizerGlobals (.obj q)) : ActOK E (.obj q)

theorem readBack_act (E : Env) (a : Act) (h : ActOK E a) :
    deserArg E .act (serArg E .act (.act a)) = .ok (.act a) := by
  cases h with
  | none => rfl
  | fn n h => simp [serArg, serAct, deserArg, deserAct, h]; rfl
  | obj q h =>
    have := deserQ_serQ_ok E _ _ h
    cases h with
    | obj q s hf hc hs hser =>
      simp only [serArg, serAct, deserArg]
      have hd : serQ E (.obj q) = serObj q.cls (qGetConfig s q) := by simp [serQ, hf]
      rw [hd] at this ⊢
      simp only [serObj, deserAct]
      simp only [serObj] at this
      rw [this]
      rfl

/-- a QActivation `activation` value that comes back unchanged: a dict is resolved through
    the custom-object table -/
inductive RawActOK (E : Env) : Act → Prop where
  | raw (s : String) : RawActOK E (.raw s)
  | obj (q : QObj) (h : QValOK E E.customObjects (.obj q)) : RawActOK E (.obj q)

theorem readBack_rawAct (E : Env) (a : Act) (h : RawActOK E a) :
    deserArg E .rawAct (serArg E .rawAct (.act a)) = .ok (.act a) := by
  cases h with
  | raw s => rfl
  | obj q h =>
    have := deserQ_serQ_ok E _ _ h
    cases h with
    | obj q s hf hc hs hser =>
      simp only [serArg, serAct, deserArg]
      have hd : serQ E (.obj q) = serObj q.cls (qGetConfig s q) := by simp [serQ, hf]
      rw [hd] at this ⊢
      simp only [serObj, deserRawAct]
      simp only [serObj] at this
      rw [this]
      rfl

/-- `Clip.from_config(Clip.get_config(c))`: the bounds survive, the inner constraint and the
    quantizer do not -/
theorem clip_roundtrip (E : Env) (c : ClipObj) :
    clipFromConfig E (clipGetConfig c) = .ok ⟨c.minV, c.maxV, .none, .none⟩ := by
  simp [clipFromConfig, clipGetConfig, deserQ, List.lookup_cons]

theorem reloads_constr_clip (E : Env) (qs : String) (cond : List String) (c : ClipObj) :
    deserArg E (.constr qs cond) (serArg E (.constr qs cond) (.constr (.clip c))) =
      .ok (.constr (.clip ⟨c.minV, c.maxV, .none, .none⟩)) := by
  simp only [serArg, serConstr, serObj, deserArg, deserConstr, List.lookup_cons, beq_self_eq_true]
  have h1 : ("config" == "class_name") = false := by decide
  simp only [h1, clip_roundtrip]
  rfl

theorem reloads_constr_none (E : Env) (qs : String) (cond : List String) :
    deserArg E (.constr qs cond) (serArg E (.constr qs cond) (.constr .none)) = .ok (.constr .none) := rfl

theorem reloads_init_none (E : Env) (qs : String) (cond : List String) (r : Bool) :
    deserArg E (.init qs cond r) (serArg E (.init qs cond r) (.init .none)) = .ok (.init .none) := rfl

theorem reloads_init_qinit (E : Env) (qs : String) (cond : List String) (r : Bool) (i u : PyVal)
    (v : QVal) (h : QValOK E E.quantizerGlobals v) :
    deserArg E (.init qs cond r) (serArg E (.init qs cond r) (.init (.qinit i u v))) =
      .ok (.init (.qinit i u v)) := by
  have h1 : ("config" == "class_name") = false := by decide
  have h2 : ("use_scale" == "initializer") = false := by decide
  have h3 : ("quantizer" == "initializer") = false := by decide
  have h4 : ("quantizer" == "use_scale") = false := by decide
  simp only [serArg, serInit, serObj, deserArg, deserInit, List.lookup_cons, beq_self_eq_true,
    h1, h2, h3, h4, deserQ_serQ_ok E _ v h]
  rfl

/-! ### model level -/

/-- a node the round-trip theorem covers: a qkeras layer whose class is in the table and which
    satisfies `LayerOK`, or a Keras-native layer -/
inductive NodeOK (E : Env) : Node → Prop where
  | q (l : Layer) (spec : LSpec) (hf : E.findL l.cls = some spec)
      (ht : E.customObjects.contains l.cls = true) (hb : (l.cls == "QBidirectional") = false)
      (hok : LayerOK E spec l) : NodeOK E (.q l)
  | keras (c : String) (cfg : Cfg) (h : E.isLibraryClass c = false)
      -- no identifier string of the stock layer's config is a key of the custom-object table
      (hs : kerasNodeCfg E cfg = cfg) : NodeOK E (.keras c cfg)

theorem node_roundtrip (E : Env) (n : Node) (h : NodeOK E n) :
    ∃ n', nodeFromConfig E ⟨(nodeGetConfig E n).1, (nodeGetConfig E n).2, []⟩ = .ok n' ∧
      nodeView E n' = nodeView E n := by
  cases h with
  | keras c cfg h hs =>
    refine ⟨.keras c cfg, ?_, rfl⟩
    simp [nodeFromConfig, nodeGetConfig, h, hs]
  | q l spec hf ht hb hok =>
    obtain ⟨L', hL', hcls, hkw, hread⟩ := layer_roundtrip E spec l hok
    refine ⟨.q L', ?_, ?_⟩
    · have hlib : E.isLibraryClass l.cls = true := by simp [Env.isLibraryClass, hf]
      simp only [nodeFromConfig, nodeGetConfig, hf, hlib, ht, hb, if_true, hL']
      rfl
    · simp only [nodeView, layerView, hcls, hkw, hf, hread]

theorem model_roundtrip (E : Env) (m : Model) (h : ∀ n ∈ m, NodeOK E n.node) :
    ∃ m', modelFromConfig E (modelGetConfig E m) = .ok m' ∧ SameViews E m' m := by
  induction m with
  | nil => exact ⟨[], rfl, List.Forall₂.nil⟩
  | cons n t ih =>
    obtain ⟨t', ht', hv'⟩ := ih (fun x hx => h x (by simp [hx]))
    obtain ⟨n', hn', hnv⟩ := node_roundtrip E n.node (h n (by simp))
    refine ⟨⟨n', n.inbound⟩ :: t', ?_, List.Forall₂.cons ⟨rfl, hnv⟩ hv'⟩
    unfold modelFromConfig modelGetConfig at ht' ⊢
    simp only [List.map_cons, List.map_map] at ht' ⊢
    have hn2 : nodeFromConfig E ⟨(nodeGetConfig E n.node).1, (nodeGetConfig E n.node).2, n.inbound⟩ = .ok n' := by
      have : ∀ ib, nodeFromConfig E ⟨(nodeGetConfig E n.node).1, (nodeGetConfig E n.node).2, ib⟩ =
          nodeFromConfig E ⟨(nodeGetConfig E n.node).1, (nodeGetConfig E n.node).2, []⟩ := by
        intro ib; rfl
      rw [this, hn']
    simp only [collectNodes, hn2, ht']

/-! ### the QConv2D mask: `np.reshape(mask, (h, w, 1, 1))` ∘ `tolist()` for every kernel shape -/

theorem leaves_of_scalar (v : PyVal) (h : v.isScalar = true) : PyVal.leaves v = [v] := by
  cases v <;> simp_all [PyVal.isScalar, PyVal.leaves]

theorem leavesL_map {α : Type} (l : List α) (g : α → PyVal) :
    PyVal.leavesL (l.map g) = l.flatMap (fun x => PyVal.leaves (g x)) := by
  induction l with
  | nil => simp [PyVal.leavesL]
  | cons x t ih => simp [PyVal.leavesL, ih]

theorem flatMap_singleton_map {α β : Type} (l : List α) (g : α → β) :
    l.flatMap (fun x => [g x]) = l.map g := by
  induction l <;> simp_all

mutual
/-- `leaves` only returns non-lists -/
theorem leaves_scalar : ∀ (v : PyVal), ∀ x ∈ PyVal.leaves v, x.isScalar = true
  | .list l => by
    intro x hx
    rw [PyVal.leaves] at hx
    exact leavesL_scalar l x hx
  | .none => by intro x hx; simp [PyVal.leaves] at hx; subst hx; rfl
  | .bool _ => by intro x hx; simp [PyVal.leaves] at hx; subst hx; rfl
  | .num _ => by intro x hx; simp [PyVal.leaves] at hx; subst hx; rfl
  | .str _ => by intro x hx; simp [PyVal.leaves] at hx; subst hx; rfl
  | .dict _ => by intro x hx; simp [PyVal.leaves] at hx; subst hx; rfl
theorem leavesL_scalar : ∀ (l : List PyVal), ∀ x ∈ PyVal.leavesL l, x.isScalar = true
  | [] => by intro x hx; simp [PyVal.leavesL] at hx
  | y :: ys => by
    intro x hx
    rw [PyVal.leavesL, List.mem_append] at hx
    rcases hx with h | h
    · exact leaves_scalar y x h
    · exact leavesL_scalar ys x h
end

theorem getD_of_lt {α : Type} (l : List α) (d : α) (k : Nat) (hk : k < l.length) :
    l.getD k d = l[k] := by
  simp [List.getD_eq_getElem?_getD, List.getElem?_eq_getElem hk]

theorem getD_of_ge {α : Type} (l : List α) (d : α) (k : Nat) (hk : l.length ≤ k) :
    l.getD k d = d := by
  simp [List.getD_eq_getElem?_getD, List.getElem?_eq_none hk]

theorem getD_append_lt {α : Type} (l l' : List α) (d : α) (k : Nat) (hk : k < l.length) :
    (l ++ l').getD k d = l.getD k d := by
  simp [List.getD_eq_getElem?_getD, List.getElem?_append_left hk]

theorem getD_append_ge {α : Type} (l l' : List α) (d : α) (k : Nat) (hk : l.length ≤ k) :
    (l ++ l').getD k d = l'.getD (k - l.length) d := by
  simp [List.getD_eq_getElem?_getD, List.getElem?_append_right hk]

theorem getD_scalar (xs : List PyVal) (hx : ∀ x ∈ xs, x.isScalar = true) (k : Nat) :
    (xs.getD k .none).isScalar = true := by
  by_cases hk : k < xs.length
  · rw [getD_of_lt _ _ _ hk]
    exact hx _ (List.getElem_mem hk)
  · rw [getD_of_ge _ _ _ (by omega)]
    rfl

theorem flatMap_range_length {α : Type} (G : Nat → List α) (w h : Nat) (hG : ∀ i, (G i).length = w) :
    ((List.range h).flatMap G).length = h * w := by
  induction h with
  | zero => simp
  | succ n ih =>
    rw [List.range_succ, List.flatMap_append, List.length_append, ih]
    simp [hG]
    ring

/-- row-major indexing of `h` concatenated rows of length `w` -/
theorem flatMap_range_getD {α : Type} (G : Nat → List α) (w h : Nat) (hG : ∀ i, (G i).length = w)
    (d : α) (i j : Nat) (hi : i < h) (hj : j < w) :
    ((List.range h).flatMap G).getD (i * w + j) d = (G i).getD j d := by
  induction h with
  | zero => omega
  | succ n ih =>
    rw [List.range_succ, List.flatMap_append]
    have hlen := flatMap_range_length G w n hG
    by_cases hin : i < n
    · have hlt : i * w + j < ((List.range n).flatMap G).length := by
        rw [hlen]
        calc i * w + j < i * w + w := by omega
          _ = (i + 1) * w := by ring
          _ ≤ n * w := Nat.mul_le_mul_right w hin
      rw [getD_append_lt _ _ _ _ hlt]
      exact ih hin
    · have hieq : i = n := by omega
      subst hieq
      have hle : ((List.range i).flatMap G).length ≤ i * w + j := by rw [hlen]; omega
      rw [getD_append_ge _ _ _ _ hle, hlen]
      simp

theorem mask4_congr (h w : Nat) (f g : Nat → Nat → PyVal)
    (hfg : ∀ i, i < h → ∀ j, j < w → f i j = g i j) : mask4 h w f = mask4 h w g := by
  unfold mask4
  congr 1
  apply List.map_congr_left
  intro i hi
  congr 1
  apply List.map_congr_left
  intro j hj
  rw [hfg i (List.mem_range.mp hi) j (List.mem_range.mp hj)]

theorem leaves_mask4 (h w : Nat) (f : Nat → Nat → PyVal) (hs : ∀ i j, (f i j).isScalar = true) :
    PyVal.leaves (mask4 h w f) = (List.range h).flatMap fun i => (List.range w).map (f i) := by
  unfold mask4
  rw [PyVal.leaves, leavesL_map]
  congr 1
  funext i
  rw [PyVal.leaves, leavesL_map]
  have : ∀ j, PyVal.leaves (.list [.list [f i j]]) = [f i j] := by
    intro j
    simp [PyVal.leaves, PyVal.leavesL, leaves_of_scalar _ (hs i j)]
  simp only [this]
  exact flatMap_singleton_map _ _

theorem leaves_mask2 (h w : Nat) (f : Nat → Nat → PyVal) (hs : ∀ i j, (f i j).isScalar = true) :
    PyVal.leaves (mask2 h w f) = (List.range h).flatMap fun i => (List.range w).map (f i) := by
  unfold mask2
  rw [PyVal.leaves, leavesL_map]
  congr 1
  funext i
  rw [PyVal.leaves, leavesL_map]
  have : ∀ j, PyVal.leaves (f i j) = [f i j] := fun j => leaves_of_scalar _ (hs i j)
  simp only [this]
  exact flatMap_singleton_map _ _

/-- `reshapeMask` on a list whose first row is a list, in closed form -/
theorem reshapeMask_rows (rows r0 t : List PyVal) (hr : rows = .list r0 :: t) :
    reshapeMask (.list rows) =
      if r0.length ≠ 0 ∧ (PyVal.leaves (.list rows)).length = rows.length * r0.length then
        .ok (mask4 rows.length r0.length fun i j =>
          (PyVal.leaves (.list rows)).getD (i * r0.length + j) .none)
      else .error .valueError := by
  subst hr
  rfl

/-- any array literal with `h·w` scalar entries whose first two dimensions are `h ≥ 1`, `w ≥ 1`
    and whose entry (i, j) is `f i j` is reshaped to `mask4 h w f` -/
theorem reshapeMask_of_leaves (rows r0 t : List PyVal) (hr : rows = .list r0 :: t) (h w : Nat)
    (f : Nat → Nat → PyVal) (hh : rows.length = h) (hw : r0.length = w) (hw0 : 0 < w)
    (hl : PyVal.leaves (.list rows) = (List.range h).flatMap fun i => (List.range w).map (f i)) :
    reshapeMask (.list rows) = .ok (mask4 h w f) := by
  have hG : ∀ i, ((List.range w).map (f i)).length = w := by intro i; simp
  rw [reshapeMask_rows rows r0 t hr, hl, hh, hw, flatMap_range_length _ w h hG]
  rw [if_pos ⟨by omega, rfl⟩]
  congr 1
  apply mask4_congr
  intro i hi j hj
  rw [flatMap_range_getD _ w h hG _ i j hi hj, getD_of_lt _ _ _ (by simpa using hj)]
  simp

/-- get_config → from_config → constructor: the stored (h, w, 1, 1) mask is read back unchanged,
    for EVERY kernel height and width (unit dimensions included) -/
theorem reshapeMask_mask4 (h w : Nat) (f : Nat → Nat → PyVal) (hh : 0 < h) (hw : 0 < w)
    (hs : ∀ i j, (f i j).isScalar = true) : reshapeMask (mask4 h w f) = .ok (mask4 h w f) := by
  obtain ⟨n, rfl⟩ : ∃ n, h = n + 1 := ⟨h - 1, by omega⟩
  have hl := leaves_mask4 (n + 1) w f hs
  unfold mask4 at hl ⊢
  refine reshapeMask_of_leaves _ ((List.range w).map fun j => .list [.list [f 0 j]])
    ((List.range n).map fun i => .list ((List.range w).map fun j => .list [.list [f (i + 1) j]]))
    ?_ (n + 1) w f (by simp) (by simp) hw hl
  simp [List.range_succ_eq_map, Function.comp_def]

/-- the constructor on the (h, w) array a user passes: stored as `mask4 h w f` -/
theorem reshapeMask_mask2 (h w : Nat) (f : Nat → Nat → PyVal) (hh : 0 < h) (hw : 0 < w)
    (hs : ∀ i j, (f i j).isScalar = true) : reshapeMask (mask2 h w f) = .ok (mask4 h w f) := by
  obtain ⟨n, rfl⟩ : ∃ n, h = n + 1 := ⟨h - 1, by omega⟩
  have hl := leaves_mask2 (n + 1) w f hs
  unfold mask2 at hl ⊢
  refine reshapeMask_of_leaves _ ((List.range w).map fun j => f 0 j)
    ((List.range n).map fun i => .list ((List.range w).map fun j => f (i + 1) j))
    ?_ (n + 1) w f (by simp) (by simp) hw hl
  simp [List.range_succ_eq_map, Function.comp_def]

/-- whatever the constructor accepted, what it stored is a fixed point of the constructor -/
theorem reshapeMask_idem (v m : PyVal) (h : reshapeMask v = .ok m) : reshapeMask m = .ok m := by
  cases v with
  | none => simp [reshapeMask] at h; subst h; rfl
  | list rows =>
    cases rows with
    | nil => simp [reshapeMask] at h
    | cons r t =>
      cases r with
      | list r0 =>
        rw [reshapeMask_rows _ r0 t rfl] at h
        split at h
        · rename_i hc
          injection h with h
          subst h
          apply reshapeMask_mask4
          · simp
          · omega
          · intro i j
            exact getD_scalar _ (leaves_scalar _) _
        · cases h
      | none => simp [reshapeMask] at h
      | bool _ => simp [reshapeMask] at h
      | num _ => simp [reshapeMask] at h
      | str _ => simp [reshapeMask] at h
      | dict _ => simp [reshapeMask] at h
  | bool _ => simp [reshapeMask] at h
  | num _ => simp [reshapeMask] at h
  | str _ => simp [reshapeMask] at h
  | dict _ => simp [reshapeMask] at h

/-- a literal of rank < 2 (a scalar, or a list whose first element is not a list) is rejected by
    the constructor ("Expected shape to have rank at least 2") — what a writer that loses an axis
    of a (1, w, 1, 1) / (h, 1, 1, 1) / (1, 1, 1, 1) mask produces -/
theorem reshapeMask_rank_lt_2 (v : PyVal) (hv : v.isScalar = true) (t : List PyVal) :
    (v ≠ .none → reshapeMask v = .error .valueError) ∧
      reshapeMask (.list (v :: t)) = .error .valueError := by
  cases v <;> simp_all [reshapeMask, PyVal.isScalar]

/-! ### `get_config` raising: numpy methods on plain Python values -/

theorem qGetConfigRaises_of_numpy (s : QSpec) (q : QObj) (h : q.native = []) :
    qGetConfigRaises s q = false := by
  unfold qGetConfigRaises
  rw [h]
  simp

/-- every quantizer object reachable from the argument holds numpy values where the class calls
    numpy methods -/
def QVal.numpy : QVal → Bool
  | .obj q => q.native.isEmpty
  | _ => true

def Arg.numpy : Arg → Bool
  | .q v => v.numpy
  | .act (.obj o) => o.native.isEmpty
  | .init (.qinit _ _ v) => v.numpy
  | _ => true

theorem QVal.getConfigRaises_of_numpy (E : Env) (v : QVal) (h : v.numpy = true) :
    v.getConfigRaises E = false := by
  cases v with
  | none => rfl
  | str _ => rfl
  | obj q =>
    have hn : q.native = [] := by simpa [QVal.numpy] using h
    simp only [QVal.getConfigRaises]
    split
    · exact qGetConfigRaises_of_numpy _ _ hn
    · rfl

theorem argGetConfigRaises_of_numpy (E : Env) (k : Kind) (a : Arg) (h : a.numpy = true) :
    argGetConfigRaises E k a = false := by
  cases k <;> cases a <;> try rfl
  case quant.q t v => exact QVal.getConfigRaises_of_numpy E v (by simpa [Arg.numpy] using h)
  case act.act x =>
    cases x <;> try rfl
    case obj q => exact QVal.getConfigRaises_of_numpy E (.obj q) (by simpa [Arg.numpy, QVal.numpy] using h)
  case rawAct.act x =>
    cases x <;> try rfl
    case obj q => exact QVal.getConfigRaises_of_numpy E (.obj q) (by simpa [Arg.numpy, QVal.numpy] using h)
  case init.init qs c r i =>
    cases i <;> try rfl
    case qinit a b v => exact QVal.getConfigRaises_of_numpy E v (by simpa [Arg.numpy] using h)

theorem layerGetConfigRaises_of_numpy (E : Env) (spec : LSpec) (L : Layer)
    (h : ∀ p ∈ spec.params, (L.arg p.name).numpy = true) : layerGetConfigRaises E spec L = false := by
  unfold layerGetConfigRaises
  rw [List.any_eq_false]
  intro p hp
  have hp' := (List.mem_filter.mp hp).1
  simp [argGetConfigRaises_of_numpy E p.kind _ (h p hp')]

/-! ### … and no raising at all when no class of the tables calls a numpy method on an argument
      (the state of the tables since `quantized_bits.get_config` converts `post_training_scale`
      with `np.asarray` first) -/

theorem qGetConfigRaises_of_no_tolist (s : QSpec) (q : QObj) (h : s.tolist = []) :
    qGetConfigRaises s q = false := by
  unfold qGetConfigRaises
  rw [h]
  rfl

theorem QVal.getConfigRaises_of_no_tolist (E : Env) (hE : ∀ s ∈ E.qspecs, s.tolist = []) (v : QVal) :
    v.getConfigRaises E = false := by
  cases v with
  | none => rfl
  | str _ => rfl
  | obj q =>
    simp only [QVal.getConfigRaises]
    split
    · rename_i s hs
      unfold Env.findQ at hs
      exact qGetConfigRaises_of_no_tolist s q (hE s (List.mem_of_find?_eq_some hs))
    · rfl

theorem argGetConfigRaises_of_no_tolist (E : Env) (hE : ∀ s ∈ E.qspecs, s.tolist = []) (k : Kind)
    (a : Arg) : argGetConfigRaises E k a = false := by
  cases k <;> cases a <;> try rfl
  case quant.q t v => exact QVal.getConfigRaises_of_no_tolist E hE v
  case act.act x =>
    cases x <;> try rfl
    case obj q => exact QVal.getConfigRaises_of_no_tolist E hE (.obj q)
  case rawAct.act x =>
    cases x <;> try rfl
    case obj q => exact QVal.getConfigRaises_of_no_tolist E hE (.obj q)
  case init.init qs c r i =>
    cases i <;> try rfl
    case qinit a b v => exact QVal.getConfigRaises_of_no_tolist E hE v

theorem layerGetConfigRaises_of_no_tolist (E : Env) (hE : ∀ s ∈ E.qspecs, s.tolist = [])
    (spec : LSpec) (L : Layer) : layerGetConfigRaises E spec L = false := by
  unfold layerGetConfigRaises
  rw [List.any_eq_false]
  intro p _
  simp [argGetConfigRaises_of_no_tolist E hE p.kind _]

theorem Layer.getConfigRaises_of_no_tolist (E : Env) (hE : ∀ s ∈ E.qspecs, s.tolist = [])
    (L : Layer) : L.getConfigRaises E = false := by
  unfold Layer.getConfigRaises
  split
  · exact layerGetConfigRaises_of_no_tolist E hE _ L
  · rfl

theorem modelGetConfigRaises_of_no_tolist (E : Env) (hE : ∀ s ∈ E.qspecs, s.tolist = [])
    (m : Model) : modelGetConfigRaises E m = false := by
  unfold modelGetConfigRaises
  rw [List.any_eq_false]
  intro n _
  cases hn : n.node with
  | q l => simp [nodeGetConfigRaises, Layer.getConfigRaises_of_no_tolist E hE l]
  | keras c cfg => simp [nodeGetConfigRaises]
  | bidir kw f b =>
    cases b with
    | none => simp [nodeGetConfigRaises, Layer.getConfigRaises_of_no_tolist E hE f]
    | some bl =>
      simp [nodeGetConfigRaises, Layer.getConfigRaises_of_no_tolist E hE f,
        Layer.getConfigRaises_of_no_tolist E hE bl]

theorem rebuild_of_no_raise (E : Env) (m : Model) (h : modelGetConfigRaises E m = false) :
    rebuild E m = modelFromConfig E (modelGetConfig E m) := by
  unfold rebuild
  simp [h]

theorem rebuild_of_raise (E : Env) (m : Model) (h : modelGetConfigRaises E m = true) :
    rebuild E m = .error .attributeError := by
  unfold rebuild
  simp [h]

/-! ### stock Keras layers inside the custom-object scope -/

theorem resolveName_id (E : Env) (v : PyVal)
    (h : ∀ s, v = .str s → E.customObjects.contains s = false) : resolveName E v = v := by
  cases v <;> try rfl
  case str s =>
    have hh := h s rfl
    simp only [resolveName, hh, Bool.false_eq_true, if_false]

/-- a stock layer's config keeps its meaning when none of its identifier strings is a table key -/
theorem kerasNodeCfg_id (E : Env) (cfg : Cfg)
    (h : ∀ kv ∈ cfg, identifierKeys.contains kv.1 = true →
      ∀ s, kv.2 = .str s → E.customObjects.contains s = false) : kerasNodeCfg E cfg = cfg := by
  unfold kerasNodeCfg
  conv_rhs => rw [← List.map_id cfg]
  apply List.map_congr_left
  intro kv hkv
  by_cases hk : identifierKeys.contains kv.1 = true
  · rw [if_pos hk, resolveName_id E kv.2 (h kv hkv hk)]
    rfl
  · rw [if_neg hk]
    rfl

/-! ### the constructor's normalisation is idempotent -/

theorem lookup_alpha_map (l : Cfg) (t : Nat) (v : PyVal) (h : l.lookup "alpha" = some v) :
    (l.map fun kv =>
      if kv.1 == "alpha" then (kv.1, PyVal.str "auto_po2")
      else if t == 2 && kv.1 == "symmetric" then (kv.1, PyVal.bool true)
      else kv).lookup "alpha" = some (.str "auto_po2") := by
  induction l with
  | nil => simp at h
  | cons x xs ih =>
    obtain ⟨k, w⟩ := x
    by_cases hk : k = "alpha"
    · subst hk
      simp [List.lookup_cons]
    · have hne : ("alpha" == k) = false := by simpa using fun e => hk e.symm
      have hne' : (k == "alpha") = false := by simpa using hk
      simp only [List.lookup_cons, hne] at h
      simp only [List.map_cons, hne']
      by_cases hs : (t == 2 && k == "symmetric") = true
      · simp only [hs, if_true, List.lookup_cons, hne, Bool.false_eq_true, if_false]
        exact ih h
      · simp only [hs, Bool.false_eq_true, if_false, List.lookup_cons, hne]
        exact ih h

/-- `_set_trainable_parameter()` twice = once (alpha None → 'auto_po2' is a one-way switch) -/
theorem setTrainable_idem (s : QSpec) (q : QObj) :
    setTrainable s (setTrainable s q) = setTrainable s q := by
  cases ht : s.trainable with
  | zero => simp [setTrainable, ht]
  | succ n =>
    cases hl : q.args.lookup "alpha" with
    | none => simp [setTrainable, ht, hl]
    | some v =>
      cases v with
      | none =>
        have h1 : setTrainable s q = ⟨q.cls, q.args.map (fun kv =>
            if kv.1 == "alpha" then (kv.1, PyVal.str "auto_po2")
            else if (n + 1) == 2 && kv.1 == "symmetric" then (kv.1, PyVal.bool true)
            else kv), q.native⟩ := by
          simp only [setTrainable, ht, hl]
        rw [h1]
        have h2 := lookup_alpha_map q.args (n + 1) _ hl
        simp only [setTrainable, ht, h2]
      | bool _ => simp [setTrainable, ht, hl]
      | num _ => simp [setTrainable, ht, hl]
      | str _ => simp [setTrainable, ht, hl]
      | list _ => simp [setTrainable, ht, hl]
      | dict _ => simp [setTrainable, ht, hl]

theorem setTrainable_cls (s : QSpec) (q : QObj) : (setTrainable s q).cls = q.cls := by
  unfold setTrainable
  split <;> rfl

theorem normQ_idem (E : Env) (t : Bool) (a : Arg) : normQ E t (normQ E t a) = normQ E t a := by
  cases a with
  | q v =>
    cases v with
    | obj q =>
      cases t with
      | false => simp [normQ]
      | true =>
        cases hf : E.findQ q.cls with
        | none => simp [normQ, hf]
        | some s =>
          have h1 : normQ E true (.q (.obj q)) = .q (.obj (setTrainable s q)) := by simp [normQ, hf]
          rw [h1]
          simp [normQ, setTrainable_cls, hf, setTrainable_idem]
    | none => rfl
    | str _ => rfl
  | lit _ => rfl
  | act _ => rfl
  | constr _ => rfl
  | init _ => rfl

/-- what the constructor does to an argument by itself, done twice = once: the `normal` hypothesis
    of `LayerOK` holds for every argument that a constructor produced -/
theorem normLocal_idem (E : Env) (spec : LSpec) (k : Kind) (a : Arg) :
    normLocal E spec k (normLocal E spec k a) = normLocal E spec k a := by
  cases k with
  | fixed v => simp [normLocal]
  | quant t => simp only [normLocal]; exact normQ_idem E t a
  | act =>
    cases a with
    | act x =>
      cases x with
      | none => by_cases h : spec.noneIsLinear = true <;> simp [normLocal, h]
      | fn _ => rfl
      | obj _ => rfl
      | raw _ => rfl
    | lit _ => rfl
    | q _ => rfl
    | constr _ => rfl
    | init _ => rfl
  | lit => cases a <;> rfl
  | rawAct => cases a <;> rfl
  | mask => cases a <;> rfl
  | constr _ _ => cases a <;> rfl
  | init _ _ _ => cases a <;> rfl

/-! ### quantizer objects shared between slots -/

theorem setTr_idem (E : Env) (q : QObj) : setTr E (setTr E q) = setTr E q := by
  unfold setTr
  cases hf : E.findQ q.cls with
  | none => simp [hf]
  | some s => simp [setTrainable_cls, hf, setTrainable_idem]

theorem normQ_obj (E : Env) (q : QObj) : normQ E true (.q (.obj q)) = .q (.obj (setTr E q)) := by
  unfold normQ setTr
  cases hf : E.findQ q.cls <;> simp [hf]

/-- does parameter `p` make the constructor switch object `j`? -/
def touches (ref : String → Option Nat) (j : Nat) (p : Param) : Bool :=
  p.kind.isTrainableQuant && ref p.name == some j

theorem constructStep_touch (E : Env) (ref : String → Option Nat) (h : QHeap) (p : Param) (j : Nat)
    (ht : touches ref j p = true) : constructStep E ref h p j = setTr E (h j) := by
  unfold touches at ht
  simp only [Bool.and_eq_true, beq_iff_eq] at ht
  simp [constructStep, ht.1, ht.2, QHeap.mutate]

theorem constructStep_other (E : Env) (ref : String → Option Nat) (h : QHeap) (p : Param) (j : Nat)
    (ht : touches ref j p = false) : constructStep E ref h p j = h j := by
  unfold constructStep
  cases hk : p.kind.isTrainableQuant with
  | false => rfl
  | true =>
    cases hr : ref p.name with
    | none => rfl
    | some i =>
      have hij : j ≠ i := by
        intro e
        subst e
        simp [touches, hk, hr] at ht
      simp [QHeap.mutate, hij]

/-- the in-place switches of a constructor, closed form: an object is switched (once — the switch
    is idempotent) iff some trainable slot refers to it, whatever the order of the slots and
    however many of them share it; every other object is untouched -/
theorem foldl_constructStep (E : Env) (ref : String → Option Nat) (l : List Param) (h : QHeap) (j : Nat) :
    (l.foldl (constructStep E ref) h) j = if l.any (touches ref j) then setTr E (h j) else h j := by
  induction l generalizing h with
  | nil => simp
  | cons p l ih =>
    rw [List.foldl_cons, ih (constructStep E ref h p)]
    cases ht : touches ref j p with
    | true =>
      rw [constructStep_touch E ref h p j ht]
      simp [ht, setTr_idem]
    | false =>
      rw [constructStep_other E ref h p j ht]
      simp [ht]

theorem constructHeap_closed (E : Env) (spec : LSpec) (ref : String → Option Nat) (h : QHeap) (j : Nat) :
    constructHeap E spec ref h j = if touched spec ref j then setTr E (h j) else h j := by
  unfold constructHeap touched
  exact foldl_constructStep E ref spec.params h j

end QKV.LC
