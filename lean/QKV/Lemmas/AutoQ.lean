/-
  QKV.Lemmas.AutoQ — invariants of `_get_quantizer` / `quantize_model` used by Props/C20.
-/
import Mathlib.Tactic
import QKV.Model.AutoQ
namespace QKV.AutoQ

/-! ## predicates the theorems are stated with -/

/-- the tuner interface: `hp.Choice(name, options)` returns one of the options -/
def ValidOracle (choose : String → List String → String) : Prop :=
  ∀ nm l, l ≠ [] → choose nm l ∈ l

/-- the limit key `_get_quantizer` works with: the first key of `limit` (in insertion order)
    matching the layer name, else the class name if it is a key -/
def resolveKey (env : Env) (lname cls : String) : Option String :=
  match firstMatch (fun p => env.matches p lname) (limKeys env.limit) with
  | some p => some p
  | none => if (alookup cls env.limit).isSome then some cls else none

/-- the layer is grouped by a pattern -/
def patternOf (env : Env) (lname : String) : Option String :=
  firstMatch (fun p => env.matches p lname) (limKeys env.limit)

/-- what the limit entry at one position admits -/
def LimOK : LimVal → String → Int → Prop
  | .num L, _, b => b ≤ L
  | .lst qs, q, _ => q ∈ qs

/-- `(q, b)` is admissible under `limit[key][idx]`: it is an entry of a configuration field that
    the head dispatch maps to position `idx`, and that position admits it -/
def AllowedAt (env : Env) (key : String) (idx : Int) (q : String) (b : Int) : Prop :=
  ∃ l lv field qd, alookup key env.limit = some (.vals l) ∧ pyIndex l idx = some lv ∧
    (field, idx) ∈ fieldIndexTable ∧ alookup field env.config = some qd ∧ (q, b) ∈ qd ∧ LimOK lv q b

/-- same, for the configuration field the head itself selects (fresh, uncached choices) -/
def AllowedField (env : Env) (key field : String) (idx : Int) (q : String) (b : Int) : Prop :=
  ∃ l lv qd, alookup key env.limit = some (.vals l) ∧ pyIndex l idx = some lv ∧
    alookup field env.config = some qd ∧ (q, b) ∈ qd ∧ LimOK lv q b

def GroupsOK (env : Env) (g : Groups) : Prop :=
  ∀ key idx q b, alookup (key, idx) g = some (q, b) → AllowedAt env key idx q b

/-! ## small facts -/

theorem alookup_mem {α β : Type} [DecidableEq α] {k : α} {v : β} :
    ∀ {l : List (α × β)}, alookup k l = some v → (k, v) ∈ l
  | [], h => by simp [alookup] at h
  | (k', v') :: t, h => by
    unfold alookup at h
    split at h
    · rename_i hk; cases h; subst hk; simp
    · exact List.mem_cons_of_mem _ (alookup_mem h)

theorem alookup_isSome_of_mem_keys {β : Type} {k : String} :
    ∀ {l : List (String × β)}, k ∈ l.map Prod.fst → (alookup k l).isSome
  | [], h => by simp at h
  | (k', v') :: t, h => by
    unfold alookup
    split
    · simp
    · rename_i hk
      simp only [List.map_cons, List.mem_cons] at h
      rcases h with h | h
      · exact absurd h.symm hk
      · exact alookup_isSome_of_mem_keys h

theorem alookup_append_of_some {α β : Type} [DecidableEq α] {k : α} {v : β} :
    ∀ {l : List (α × β)} (l' : List (α × β)), alookup k l = some v → alookup k (l ++ l') = some v
  | [], _, h => by simp [alookup] at h
  | (k', v') :: t, l', h => by
    simp only [List.cons_append]
    unfold alookup at h ⊢
    split
    · rename_i hk; simpa [hk] using h
    · rename_i hk; simp only [hk, if_false] at h; exact alookup_append_of_some l' h

theorem alookup_append_of_none {α β : Type} [DecidableEq α] {k : α} :
    ∀ {l : List (α × β)} (l' : List (α × β)), alookup k l = none → alookup k (l ++ l') = alookup k l'
  | [], _, _ => by simp
  | (k', v') :: t, l', h => by
    by_cases hk : k' = k
    · simp [alookup, hk] at h
    · simp only [alookup, hk, if_false] at h
      simp only [List.cons_append, alookup, hk, if_false]
      exact alookup_append_of_none l' h

theorem firstMatch_mem {m : String → Bool} {p : String} :
    ∀ {ks : List String}, firstMatch m ks = some p → p ∈ ks ∧ m p = true
  | [], h => by simp [firstMatch] at h
  | k :: t, h => by
    unfold firstMatch at h
    split at h
    · rename_i hm; cases h; exact ⟨by simp, hm⟩
    · have := firstMatch_mem h; exact ⟨List.mem_cons_of_mem _ this.1, this.2⟩

theorem firstMatch_none {m : String → Bool} :
    ∀ {ks : List String}, (∀ k ∈ ks, m k = false) → firstMatch m ks = none
  | [], _ => rfl
  | k :: t, h => by
    unfold firstMatch
    have hk : m k = false := h k (by simp)
    simp only [hk, Bool.false_eq_true, if_false]
    exact firstMatch_none (fun k' hk' => h k' (List.mem_cons_of_mem _ hk'))

theorem headField_mem (isLinear : Bool) (head lname : String) :
    headField isLinear head lname ∈ fieldIndexTable := by
  unfold headField roleField fieldIndexTable
  split_ifs <;> simp

/-! ## `candidates`, `hpPick` -/

theorem restrict_spec {qd : QField} :
    ∀ {qs : List String} {d : QField}, restrict qd qs = some d →
      ∀ q b, (q, b) ∈ d → q ∈ qs ∧ (q, b) ∈ qd
  | [], d, h, q, b, hm => by simp [restrict] at h; subst h; simp at hm
  | k :: t, d, h, q, b, hm => by
    unfold restrict at h
    split at h
    · rename_i bk r hk hr
      cases h
      simp only [List.mem_cons, Prod.mk.injEq] at hm
      rcases hm with ⟨rfl, rfl⟩ | hm
      · exact ⟨by simp, alookup_mem hk⟩
      · have := restrict_spec hr q b hm
        exact ⟨List.mem_cons_of_mem _ this.1, this.2⟩
    · cases h

theorem candidates_spec {qd : QField} {lv : LimVal} {ql : List String} {qdict : QField}
    (h : candidates qd lv = .ok (ql, qdict)) :
    ∀ q b, (q, b) ∈ qdict → (q, b) ∈ qd ∧ LimOK lv q b := by
  intro q b hm
  unfold candidates at h
  cases lv with
  | num L =>
    simp only [Except.ok.injEq, Prod.mk.injEq] at h
    obtain ⟨_, rfl⟩ := h
    rw [List.mem_filter] at hm
    exact ⟨hm.1, by simpa [LimOK] using hm.2⟩
  | lst qs =>
    simp only at h
    split at h
    · rename_i d hd
      simp only [Except.ok.injEq, Prod.mk.injEq] at h
      obtain ⟨_, rfl⟩ := h
      have := restrict_spec hd q b hm
      exact ⟨this.2, this.1⟩
    · cases h

/-- the names offered to the tuner are exactly the keys of the filtered dictionary -/
theorem candidates_keys {qd : QField} {lv : LimVal} {ql : List String} {qdict : QField}
    (h : candidates qd lv = .ok (ql, qdict)) : qdict.map Prod.fst = ql := by
  unfold candidates at h
  cases lv with
  | num L =>
    simp only [Except.ok.injEq, Prod.mk.injEq] at h
    obtain ⟨rfl, rfl⟩ := h; rfl
  | lst qs =>
    simp only at h
    split at h
    · rename_i d hd
      simp only [Except.ok.injEq, Prod.mk.injEq] at h
      obtain ⟨rfl, rfl⟩ := h
      induction qs generalizing d with
      | nil => simp [restrict] at hd; subst hd; rfl
      | cons k t ih =>
        unfold restrict at hd
        split at hd
        · rename_i bk r hk hr
          cases hd
          simp [ih _ hr]
        · cases hd
    · cases h

theorem hpPick_mem {env : Env} {nm : String} {ql : List String} {log : List HpCall}
    {q : String} {log' : List HpCall} (hv : ValidOracle env.choose)
    (h : hpPick env nm ql log = .ok (q, log')) : q ∈ ql := by
  unfold hpPick at h
  split at h
  · cases h
  · simp only [Except.ok.injEq, Prod.mk.injEq] at h; simp [h.1]
  · rename_i hne1 hne2
    simp only [Except.ok.injEq, Prod.mk.injEq] at h
    rw [← h.1]
    exact hv nm ql (by intro h0; exact hne1 h0)

/-! ## `_get_quantizer` -/

/-- everything the property needs to know about one successful call -/
theorem getQuantizer_spec {env : Env} {st st' : St} {head lname cls : String} {isLinear : Bool}
    {r : Option (String × Int)}
    (hG : GroupsOK env st.groups)
    (h : getQuantizer env st head lname cls isLinear = .ok (r, st')) :
    GroupsOK env st'.groups ∧
    (∀ k v, alookup k st.groups = some v → alookup k st'.groups = some v) ∧
    (r = none → st' = st ∧ resolveKey env lname cls = none) ∧
    (∀ q b, r = some (q, b) →
        ∃ key, resolveKey env lname cls = some key ∧
          AllowedAt env key (headField isLinear head lname).2 q b ∧
          (patternOf env lname = some key →
             alookup (key, (headField isLinear head lname).2) st'.groups = some (q, b)) ∧
          (alookup (key, (headField isLinear head lname).2) st.groups = none ∨ patternOf env lname = none →
             AllowedField env key (headField isLinear head lname).1 (headField isLinear head lname).2 q b)) := by
  unfold getQuantizer at h
  simp only at h
  split at h
  · cases h
  · rename_i qd hqd
    generalize hpat : firstMatch (fun p => env.matches p lname) (limKeys env.limit) = pat at h
    split at h
    · -- (None, -1)
      rename_i hnone
      injection h with h
      injection h with hr hst
      subst hr; subst hst
      refine ⟨hG, fun _ _ hk => hk, fun _ => ⟨rfl, ?_⟩, fun q b hqb => by cases hqb⟩
      unfold resolveKey
      rw [hpat]
      cases pat with
      | some p =>
        exfalso
        simp only [Option.getD_some] at hnone
        have hp := (firstMatch_mem hpat).1
        have := alookup_isSome_of_mem_keys (l := env.limit) hp
        rw [Option.isNone_iff_eq_none] at hnone
        rw [hnone.2] at this
        simp at this
      | none =>
        simp only [Option.getD_none, true_and] at hnone
        rw [Option.isNone_iff_eq_none] at hnone
        simp [hnone]
    · rename_i hsome
      -- the key actually used
      have hkey : resolveKey env lname cls = some (pat.getD cls) := by
        unfold resolveKey
        rw [hpat]
        cases pat with
        | some p => rfl
        | none =>
          simp only [Option.getD_none, true_and] at hsome ⊢
          rw [Option.isNone_iff_eq_none] at hsome
          cases hl : alookup cls env.limit with
          | none => exact absurd hl hsome
          | some _ => simp
      split at h
      · -- cache hit
        rename_i rr hc
        simp only [Except.ok.injEq, Prod.mk.injEq] at h
        obtain ⟨rfl, rfl⟩ := h
        have hps : pat.isSome = true := by
          by_contra hn
          simp [hn] at hc
        simp only [hps, if_true] at hc
        refine ⟨hG, fun _ _ hk => hk, (fun hn => by cases hn), ?_⟩
        intro q b hqb
        cases hqb
        refine ⟨pat.getD cls, hkey, hG _ _ _ _ hc, fun _ => hc, ?_⟩
        intro hor
        rcases hor with hn | hn
        · rw [hn] at hc; cases hc
        · unfold patternOf at hn; rw [hpat] at hn; rw [hn] at hps; cases hps
      · rename_i hc
        split at h
        · cases h
        · cases h
        · rename_i l hl
          split at h
          · cases h
          · rename_i lv hlv
            split at h
            · cases h
            · rename_i ql qdict hcand
              split at h
              · cases h
              · rename_i q log' hpick
                split at h
                · cases h
                · rename_i b hb
                  simp only [Except.ok.injEq, Prod.mk.injEq] at h
                  obtain ⟨rfl, rfl⟩ := h
                  have hmem := alookup_mem hb
                  have hcs := candidates_spec hcand q b hmem
                  have hAF : AllowedField env (pat.getD cls) (headField isLinear head lname).1
                      (headField isLinear head lname).2 q b :=
                    ⟨l, lv, qd, hl, hlv, hqd, hcs.1, hcs.2⟩
                  have hA : AllowedAt env (pat.getD cls) (headField isLinear head lname).2 q b :=
                    ⟨l, lv, (headField isLinear head lname).1, qd, hl, hlv, headField_mem _ _ _, hqd, hcs.1, hcs.2⟩
                  refine ⟨?_, ?_, (fun hn => by cases hn), ?_⟩
                  rotate_left 2
                  · intro q0 b0 hqb
                    cases hqb
                    refine ⟨pat.getD cls, hkey, hA, ?_, fun _ => hAF⟩
                    intro hp
                    unfold patternOf at hp
                    rw [hpat] at hp
                    have hps : pat.isSome = true := by rw [hp]; rfl
                    simp only [hps, if_true] at hc ⊢
                    have hnone : alookup (pat.getD cls, (headField isLinear head lname).2) st.groups = none := hc
                    rw [hp] at hnone ⊢
                    simp only [Option.getD_some] at hnone ⊢
                    rw [alookup_append_of_none _ hnone]
                    simp [alookup]
                  · -- GroupsOK preserved
                    intro key idx q' b' hk
                    simp only at hk
                    split at hk
                    · rename_i hps
                      cases hold : alookup (key, idx) st.groups with
                      | some v =>
                        rw [alookup_append_of_some _ hold] at hk
                        cases hk
                        exact hG _ _ _ _ hold
                      | none =>
                        rw [alookup_append_of_none _ hold] at hk
                        simp only [alookup] at hk
                        split at hk
                        · rename_i heq
                          simp only [Prod.mk.injEq] at heq
                          cases hk
                          rw [← heq.1, ← heq.2]
                          exact hA
                        · cases hk
                    · exact hG _ _ _ _ hk
                  · intro k v hk
                    simp only
                    split
                    · exact alookup_append_of_some _ hk
                    · exact hk

theorem resolveKey_of_pattern {env : Env} {lname cls p : String} (h : patternOf env lname = some p) :
    resolveKey env lname cls = some p := by
  unfold patternOf at h; unfold resolveKey; rw [h]

/-- a layer grouped by pattern `p` whose slot `(p, idx)` is filled gets exactly the cached pair -/
theorem getQuantizer_cached {env : Env} {st st' : St} {head lname cls : String} {isLinear : Bool}
    {r : Option (String × Int)} {p : String} {v : String × Int}
    (hG : GroupsOK env st.groups)
    (hp : patternOf env lname = some p)
    (hc : alookup (p, (headField isLinear head lname).2) st.groups = some v)
    (h : getQuantizer env st head lname cls isLinear = .ok (r, st')) : r = some v := by
  obtain ⟨_, hmono, hnone, hsome⟩ := getQuantizer_spec hG h
  cases r with
  | none =>
    have := (hnone rfl).2
    rw [resolveKey_of_pattern hp] at this
    cases this
  | some qb =>
    obtain ⟨q, b⟩ := qb
    obtain ⟨key, hkey, _, hst, _⟩ := hsome q b rfl
    rw [resolveKey_of_pattern hp] at hkey
    cases hkey
    have h1 := hst hp
    have h2 := hmono _ _ hc
    rw [h1] at h2
    exact h2

/-! ## any sequence of `_get_quantizer` calls on one hyper-model (shared `self.groups`) -/

structure Call where
  head : String
  lname : String
  cls : String
  isLinear : Bool := false

def runCalls (env : Env) : St → List Call → Except Err (List (Option (String × Int)) × St)
  | st, [] => .ok ([], st)
  | st, c :: t =>
    match getQuantizer env st c.head c.lname c.cls c.isLinear with
    | .error e => .error e
    | .ok (r, st1) =>
      match runCalls env st1 t with
      | .error e => .error e
      | .ok (rs, st2) => .ok (r :: rs, st2)

/-- the cache slot a call belongs to, if its layer is grouped by a pattern -/
def groupOf (env : Env) (c : Call) : Option (String × Int) :=
  (patternOf env c.lname).map fun p => (p, (headField c.isLinear c.head c.lname).2)

theorem runCalls_cached {env : Env} {p : String} {idx : Int} {v : String × Int} :
    ∀ {calls : List Call} {st st' : St} {rs : List (Option (String × Int))},
      GroupsOK env st.groups → alookup (p, idx) st.groups = some v →
      runCalls env st calls = .ok (rs, st') →
      ∀ x ∈ calls.zip rs, groupOf env x.1 = some (p, idx) → x.2 = some v
  | [], st, st', rs, _, _, h, x, hx, _ => by simp at hx
  | c :: t, st, st', rs, hG, hc, h, x, hx, hg => by
    unfold runCalls at h
    split at h
    · cases h
    · rename_i r st1 h1
      split at h
      · cases h
      · rename_i rs' st2 h2
        simp only [Except.ok.injEq, Prod.mk.injEq] at h
        obtain ⟨rfl, rfl⟩ := h
        obtain ⟨hG1, hmono, _, _⟩ := getQuantizer_spec hG h1
        simp only [List.zip_cons_cons, List.mem_cons] at hx
        rcases hx with rfl | hx
        · unfold groupOf at hg
          cases hp : patternOf env c.lname with
          | none => rw [hp] at hg; cases hg
          | some p' =>
            rw [hp] at hg
            simp only [Option.map_some, Option.some.injEq, Prod.mk.injEq] at hg
            obtain ⟨rfl, rfl⟩ := hg
            exact getQuantizer_cached hG hp hc h1
        · exact runCalls_cached hG1 (hmono _ _ hc) h2 x hx hg

theorem runCalls_shared {env : Env} :
    ∀ {calls : List Call} {st st' : St} {rs : List (Option (String × Int))},
      GroupsOK env st.groups → runCalls env st calls = .ok (rs, st') →
      (calls.zip rs).Pairwise fun x y =>
        (groupOf env x.1).isSome → groupOf env x.1 = groupOf env y.1 → x.2 = y.2
  | [], st, st', rs, _, _ => by simp
  | c :: t, st, st', rs, hG, h => by
    unfold runCalls at h
    split at h
    · cases h
    · rename_i r st1 h1
      split at h
      · cases h
      · rename_i rs' st2 h2
        simp only [Except.ok.injEq, Prod.mk.injEq] at h
        obtain ⟨rfl, rfl⟩ := h
        obtain ⟨hG1, hmono, hnone, hsome⟩ := getQuantizer_spec hG h1
        simp only [List.zip_cons_cons, List.pairwise_cons]
        refine ⟨?_, runCalls_shared hG1 h2⟩
        intro y hy hs heq
        unfold groupOf at hs heq
        cases hp : patternOf env c.lname with
        | none => rw [hp] at hs; cases hs
        | some p =>
          rw [hp] at heq
          simp only [Option.map_some] at heq
          cases r with
          | none =>
            have := (hnone rfl).2
            rw [resolveKey_of_pattern hp] at this
            cases this
          | some qb =>
            obtain ⟨q, b⟩ := qb
            obtain ⟨key, hkey, _, hst, _⟩ := hsome q b rfl
            rw [resolveKey_of_pattern hp] at hkey
            cases hkey
            have hstored := hst hp
            exact (runCalls_cached hG1 hstored h2 y hy (by unfold groupOf; exact heq.symm)).symm

/-! ## `quantize_model`: architecture and selection -/

/-- layer `i` is selected by `layer_indexes` -/
def Included (tn : Tune) (i : Nat) : Prop :=
  match tn.layerIndexes with
  | some ix => i ∈ ix
  | none => True

/-- `L'` is `L` with `units` / `filters` possibly rewritten to `max(int(size * f), 1)` -/
def SameUpToSize (tn : Tune) (nf : Rat) (L L' : Layer) : Prop :=
  L'.name = L.name ∧ L'.cls = L.cls ∧ L'.useBias = L.useBias ∧ L'.act = L.act ∧
  (L'.size = L.size ∨
    (tunes tn = true ∧ L.cls ∈ TUNABLE2 ∧
      ∃ f, (f = nf ∨ f = tn.chooseF ("network_filters_" ++ L.name) filterRange) ∧
        L'.size = scaled L.size f))

theorem SameUpToSize.refl (tn : Tune) (nf : Rat) (L : Layer) : SameUpToSize tn nf L L :=
  ⟨rfl, rfl, rfl, rfl, Or.inl rfl⟩

theorem loop2Step_shape {env : Env} {tn : Tune} {nf : Rat} {s1 : S1} {i : Nat} {s s' : S2} {L : Layer}
    (h : loop2Step env tn nf s1 i s L = .ok s') :
    (∃ L', s'.arch = s.arch ++ [L'] ∧ SameUpToSize tn nf L L') ∧
    (s'.qdict = s.qdict ∨ (Included tn i ∧ ∃ e, s'.qdict = s.qdict ++ [(L.name, e)])) := by
  unfold loop2Step at h
  simp only at h
  by_cases hex : excludedB tn i = true
  · rw [if_pos hex] at h
    cases h; exact ⟨⟨L, rfl, SameUpToSize.refl _ _ _⟩, Or.inl rfl⟩
  rw [if_neg hex] at h
  have hI : Included tn i := by
    unfold Included
    unfold excludedB at hex
    cases hli : tn.layerIndexes with
    | none => trivial
    | some ix =>
      rw [hli] at hex
      simpa using hex
  by_cases hreg : L.cls ∈ REGISTERED
  · rw [if_pos hreg] at h
    cases hk : alookup L.name s1.kdict with
    | none => rw [hk] at h; cases h
    | some kb =>
      obtain ⟨kq, b⟩ := kb
      rw [hk] at h
      dsimp only at h
      by_cases htr : (!truthy kq) = true
      · rw [if_pos htr] at h
        cases h; exact ⟨⟨L, rfl, SameUpToSize.refl _ _ _⟩, Or.inl rfl⟩
      · rw [if_neg htr] at h
        cases hex : extraRoles s1 L with
        | none => rw [hex] at h; cases h
        | some extra =>
        rw [hex] at h
        dsimp only at h
        generalize requestAll env L _ (rolesFor L) = res at h
        cases res with
        | error e => cases h
        | ok v =>
          obtain ⟨rs, st2⟩ := v
          dsimp only at h
          cases h
          refine ⟨⟨_, rfl, ?_⟩, Or.inr ⟨hI, _, rfl⟩⟩
          by_cases htun : (tunes tn && !tn.exc L.name && decide (L.cls ∈ TUNABLE2)) = true
          · rw [if_pos htun]
            refine ⟨rfl, rfl, rfl, rfl, Or.inr ?_⟩
            have htun' := htun
            simp only [Bool.and_eq_true, decide_eq_true_eq] at htun'
            refine ⟨htun'.1.1, htun'.2, ?_⟩
            by_cases hl : tn.tuneFilters = "layer"
            · exact ⟨_, Or.inr rfl, by simp [htun, hl]⟩
            · exact ⟨nf, Or.inl rfl, by simp [htun, hl]⟩
          · rw [if_neg htun]
            exact SameUpToSize.refl _ _ _
  rw [if_neg hreg] at h
  by_cases hres : L.cls = "Reshape"
  · rw [if_pos hres] at h
    by_cases h1 : tn.tuneFilters = "layer"
    · rw [if_pos h1] at h; cases h
    · rw [if_neg h1] at h
      split at h
      · cases h; exact ⟨⟨L, rfl, SameUpToSize.refl _ _ _⟩, Or.inl rfl⟩
      · cases h
  rw [if_neg hres] at h
  by_cases hact : L.cls = "Activation"
  · rw [if_pos hact] at h
    by_cases hsm : L.act = "softmax"
    · rw [if_pos hsm] at h
      cases h; exact ⟨⟨L, rfl, SameUpToSize.refl _ _ _⟩, Or.inl rfl⟩
    · rw [if_neg hsm] at h
      generalize getQuantizer env s.st _ L.name L.cls _ = res at h
      cases res with
      | error e => cases h
      | ok v =>
        obtain ⟨r, st1⟩ := v
        dsimp only at h
        cases hu : (unpack r).1 with
        | none =>
          rw [hu] at h; cases h
          exact ⟨⟨L, rfl, SameUpToSize.refl _ _ _⟩, Or.inl rfl⟩
        | some q =>
          rw [hu] at h
          dsimp only at h
          by_cases hq : q = ""
          · rw [if_pos hq] at h; cases h
            exact ⟨⟨L, rfl, SameUpToSize.refl _ _ _⟩, Or.inl rfl⟩
          · rw [if_neg hq] at h; cases h
            exact ⟨⟨L, rfl, SameUpToSize.refl _ _ _⟩, Or.inr ⟨hI, _, rfl⟩⟩
  rw [if_neg hact] at h
  split at h
  · cases h; exact ⟨⟨L, rfl, SameUpToSize.refl _ _ _⟩, Or.inr ⟨hI, _, rfl⟩⟩
  · split at h
    · cases h; exact ⟨⟨L, rfl, SameUpToSize.refl _ _ _⟩, Or.inr ⟨hI, _, rfl⟩⟩
    · cases h; exact ⟨⟨L, rfl, SameUpToSize.refl _ _ _⟩, Or.inl rfl⟩

theorem loop2_shape {env : Env} {tn : Tune} {nf : Rat} {s1 : S1} :
    ∀ {layers : List Layer} {i : Nat} {s s' : S2}, loop2 env tn nf s1 i s layers = .ok s' →
      (∃ ls', s'.arch = s.arch ++ ls' ∧ List.Forall₂ (SameUpToSize tn nf) layers ls') ∧
      (∀ x ∈ s'.qdict, x ∈ s.qdict ∨
         ∃ j L, layers[j]? = some L ∧ L.name = x.1 ∧ Included tn (i + j))
  | [], i, s, s', h => by
    simp only [loop2, Except.ok.injEq] at h
    subst h
    exact ⟨⟨[], by simp, List.Forall₂.nil⟩, fun x hx => Or.inl hx⟩
  | L :: t, i, s, s', h => by
    unfold loop2 at h
    split at h
    · cases h
    · rename_i sm hstep
      obtain ⟨⟨L', harch, hsame⟩, hq⟩ := loop2Step_shape hstep
      obtain ⟨⟨ls', harch', hall⟩, hq'⟩ := loop2_shape h
      refine ⟨⟨L' :: ls', by rw [harch', harch]; simp, List.Forall₂.cons hsame hall⟩, ?_⟩
      intro x hx
      rcases hq' x hx with hx | ⟨j, Lj, hj, hn, hinc⟩
      · rcases hq with hq | ⟨hI, e, hq⟩
        · rw [hq] at hx; exact Or.inl hx
        · rw [hq] at hx
          simp only [List.mem_append, List.mem_singleton] at hx
          rcases hx with hx | rfl
          · exact Or.inl hx
          · exact Or.inr ⟨0, L, by simp, rfl, by simpa using hI⟩
      · refine Or.inr ⟨j + 1, Lj, by simpa using hj, hn, ?_⟩
        have : i + (j + 1) = i + 1 + j := by omega
        rw [this]; exact hinc

/-- the tuner returns one of the offered scaling factors -/
def ValidOracleF (chooseF : String → List Rat → Rat) : Prop :=
  ∀ nm, chooseF nm filterRange ∈ filterRange

theorem quantizeModel_shape {env : Env} {tn : Tune} {layers : List Layer} {o : QmOut}
    (h : quantizeModel env tn layers = .ok o) :
    (∃ nf, (nf = 1 ∨ nf = tn.chooseF "network_filters" filterRange) ∧
        List.Forall₂ (SameUpToSize tn nf) layers o.arch) ∧
    (∀ x ∈ o.qdict, ∃ j L, layers[j]? = some L ∧ L.name = x.1 ∧ Included tn j) := by
  unfold quantizeModel at h
  split at h
  · cases h
  · rename_i s1 h1
    simp only at h
    split at h
    · cases h
    · rename_i s2 h2
      cases h
      obtain ⟨⟨ls', harch, hall⟩, hq⟩ := loop2_shape h2
      simp only [List.nil_append] at harch
      refine ⟨⟨_, ?_, by rw [harch]; exact hall⟩, ?_⟩
      · by_cases hb : (decide (tn.tuneFilters = "block") && s1.sweep) = true
        · right; simp [hb]
        · left; simp only [Bool.not_eq_true] at hb; simp [hb]
      · intro x hx
        rcases hq x hx with hx | ⟨j, L, hj, hn, hinc⟩
        · simp at hx
        · exact ⟨j, L, hj, hn, by simpa using hinc⟩

/-! ## `layer_indexes`: a layer outside the selection is handed over untouched -/

theorem excludedB_of_not_included {tn : Tune} {i : Nat} (hex : ¬ Included tn i) : excludedB tn i = true := by
  unfold Included at hex
  unfold excludedB
  cases hli : tn.layerIndexes with
  | none => rw [hli] at hex; exact absurd trivial hex
  | some ix => rw [hli] at hex; simpa using hex

theorem loop2Step_excluded {env : Env} {tn : Tune} {nf : Rat} {s1 : S1} {i : Nat} {s : S2} {L : Layer}
    (hex : ¬ Included tn i) :
    loop2Step env tn nf s1 i s L = .ok { s with arch := s.arch ++ [L] } := by
  unfold loop2Step
  simp only
  rw [if_pos (excludedB_of_not_included hex)]

/-- a layer whose index is not selected appears in the handed-over list exactly as it was (no
    `units` / `filters` rescaling either), at its own position -/
theorem loop2_excluded {env : Env} {tn : Tune} {nf : Rat} {s1 : S1} :
    ∀ {layers : List Layer} {i : Nat} {s s' : S2}, loop2 env tn nf s1 i s layers = .ok s' →
      ∀ j L, layers[j]? = some L → ¬ Included tn (i + j) → s'.arch[s.arch.length + j]? = some L
  | [], i, s, s', _ => by
    intro j L hj; simp at hj
  | L0 :: t, i, s, s', h => by
    unfold loop2 at h
    split at h
    · cases h
    · rename_i sm hstep
      intro j L hj hex
      obtain ⟨⟨L', harch, _⟩, _⟩ := loop2Step_shape hstep
      obtain ⟨⟨ls', harch', _⟩, _⟩ := loop2_shape h
      cases j with
      | zero =>
        simp only [List.getElem?_cons_zero, Option.some.injEq] at hj
        subst hj
        have hs := loop2Step_excluded (env := env) (nf := nf) (s1 := s1) (s := s) (L := L0)
          (by simpa using hex)
        rw [hs] at hstep
        cases hstep
        rw [harch']
        simp
      | succ j =>
        have hex' : ¬ Included tn (i + 1 + j) := by
          have : i + 1 + j = i + (j + 1) := by omega
          rw [this]; exact hex
        have := loop2_excluded h j L (by simpa using hj) hex'
        rw [harch] at this
        simpa [Nat.add_assoc, Nat.add_comm 1 j] using this

theorem quantizeModel_excluded {env : Env} {tn : Tune} {layers : List Layer} {o : QmOut}
    (h : quantizeModel env tn layers = .ok o) (j : Nat) (L : Layer) (hj : layers[j]? = some L)
    (hex : ¬ Included tn j) : o.arch[j]? = some L := by
  unfold quantizeModel at h
  split at h
  · cases h
  · rename_i s1 h1
    simp only at h
    split at h
    · cases h
    · rename_i s2 h2
      cases h
      have := loop2_excluded h2 j L hj (by simpa using hex)
      simpa using this

/-! ## `layer_indexes` is read through membership only (list / tuple / range / set / array, any order,
      duplicates): two selections with the same members give the same run -/

theorem loop1_sel (env : Env) (tn : Tune) (li : Option (List Nat)) :
    ∀ (layers : List Layer) (s : S1),
      loop1 env { tn with layerIndexes := li } s layers = loop1 env tn s layers
  | [], s => rfl
  | L :: t, s => by
    unfold loop1
    have h1 : loop1Step env { tn with layerIndexes := li } s L = loop1Step env tn s L := rfl
    rw [h1]
    cases loop1Step env tn s L with
    | error e => rfl
    | ok s' => exact loop1_sel env tn li t s'

theorem loop2Step_sel (env : Env) (tn : Tune) (li : Option (List Nat)) (nf : Rat) (s1 : S1) (i : Nat)
    (s : S2) (L : Layer) (h : excludedB { tn with layerIndexes := li } i = excludedB tn i) :
    loop2Step env { tn with layerIndexes := li } nf s1 i s L = loop2Step env tn nf s1 i s L := by
  unfold loop2Step
  rw [h]
  rfl

theorem loop2_sel (env : Env) (tn : Tune) (li : Option (List Nat)) (nf : Rat) (s1 : S1)
    (h : ∀ i, excludedB { tn with layerIndexes := li } i = excludedB tn i) :
    ∀ (layers : List Layer) (i : Nat) (s : S2),
      loop2 env { tn with layerIndexes := li } nf s1 i s layers = loop2 env tn nf s1 i s layers
  | [], i, s => rfl
  | L :: t, i, s => by
    unfold loop2
    rw [loop2Step_sel env tn li nf s1 i s L (h i)]
    cases loop2Step env tn nf s1 i s L with
    | error e => rfl
    | ok s' => exact loop2_sel env tn li nf s1 h t (i + 1) s'

theorem quantizeModel_sel (env : Env) (tn : Tune) (ix ix' : List Nat) (layers : List Layer)
    (hsel : tn.layerIndexes = some ix) (hmem : ∀ i, i ∈ ix ↔ i ∈ ix') :
    quantizeModel env { tn with layerIndexes := some ix' } layers = quantizeModel env tn layers := by
  have h : ∀ i, excludedB { tn with layerIndexes := some ix' } i = excludedB tn i := by
    intro i
    unfold excludedB
    rw [hsel]
    simp only [hmem i]
  unfold quantizeModel
  rw [loop1_sel]
  cases loop1 env tn {} layers with
  | error e => rfl
  | ok s1 =>
    simp only
    rw [loop2_sel env tn (some ix') _ s1 h]

/-! ## `quantize_model`: every dictionary value is within the limit of its own layer and role -/

theorem isPrefixB_append (a b : List Char) : isPrefixB a (a ++ b) = true := by
  induction a with
  | nil => cases b <;> rfl
  | cons c t ih => simp [isPrefixB, ih]

theorem roleOf_append (n suf : String) : roleOf (n ++ suf) n = suf.toList := by
  unfold roleOf
  rw [String.toList_append]
  simp [isPrefixB_append]

/-- the dispatch sees only the suffix the caller appended, whatever the layer is called -/
theorem headField_suffix (isLinear : Bool) (n suf : String) :
    headField isLinear (n ++ suf) n = roleField isLinear suf.toList := by
  unfold headField; rw [roleOf_append]

/-- `q` is admissible for layer `L` in the role whose head suffix is `suf`: the layer's pattern or
    class has a limit entry that admits it at the position of that role -/
def QOK (env : Env) (L : Layer) (isLinear : Bool) (suf : String) (q : String) : Prop :=
  ∃ key b, resolveKey env L.name L.cls = some key ∧
    AllowedAt env key (roleField isLinear suf.toList).2 q b

/-- dictionary key → head suffix of the `_get_quantizer` call that must have produced the value -/
def roleSuffix (key : String) : Option String :=
  if key = "kernel_quantizer" ∨ key = "depthwise_quantizer" then some "_kernel"
  else if key = "recurrent_quantizer" then some "_recurrent_kernel"
  else if key = "pointwise_quantizer" then some "_pointwise_kernel"
  else if key = "bias_quantizer" then some "_bias"
  else if key = "activation_quantizer" then some "_activation"
  else if key = "recurrent_activation_quantizer" then some "_recurrent_activation"
  else none

def EntryOK (env : Env) (all : List Layer) (name : String) : QEntry → Prop
  | .dict d => ∀ key q, (key, some q) ∈ d →
      ∃ L ∈ all, L.name = name ∧ ∃ suf, roleSuffix key = some suf ∧ QOK env L false suf q
  | .str q => ∃ L ∈ all, L.name = name ∧ L.cls = "Activation" ∧
      QOK env L (decide (L.act = "linear")) "_activation" q

theorem getQuantizer_QOK {env : Env} {st st' : St} {L : Layer} {suf : String} {isLinear : Bool}
    {r : Option (String × Int)} (hG : GroupsOK env st.groups)
    (h : getQuantizer env st (L.name ++ suf) L.name L.cls isLinear = .ok (r, st')) :
    GroupsOK env st'.groups ∧ st'.groups = st'.groups ∧
      ∀ q, (unpack r).1 = some q → QOK env L isLinear suf q := by
  obtain ⟨hG', _, _, hs⟩ := getQuantizer_spec hG h
  refine ⟨hG', rfl, ?_⟩
  intro q hq
  cases r with
  | none => simp [unpack] at hq
  | some qb =>
    obtain ⟨q', b⟩ := qb
    simp only [unpack, Option.some.injEq] at hq
    subst hq
    obtain ⟨key, hk, hA, _⟩ := hs q' b rfl
    rw [headField_suffix] at hA
    exact ⟨key, b, hk, hA⟩

theorem requestAll_spec {env : Env} {L : Layer} :
    ∀ {roles : List (String × String)} {st st' : St} {rs : List (String × Option String)},
      GroupsOK env st.groups → requestAll env L st roles = .ok (rs, st') →
      GroupsOK env st'.groups ∧
      ∀ key q, (key, some q) ∈ rs → ∃ suf, (key, suf) ∈ roles ∧ QOK env L false suf q
  | [], st, st', rs, hG, h => by
    simp only [requestAll, Except.ok.injEq, Prod.mk.injEq] at h
    obtain ⟨rfl, rfl⟩ := h
    exact ⟨hG, fun _ _ hm => by simp at hm⟩
  | (k, suf) :: t, st, st', rs, hG, h => by
    unfold requestAll at h
    unfold request at h
    generalize hres : getQuantizer env st (L.name ++ suf) L.name L.cls false = res at h
    cases res with
    | error e => cases h
    | ok v =>
      obtain ⟨r, st1⟩ := v
      dsimp only at h
      obtain ⟨hG1, _, hq⟩ := getQuantizer_QOK hG hres
      generalize hres2 : requestAll env L st1 t = res2 at h
      cases res2 with
      | error e => cases h
      | ok v2 =>
        obtain ⟨rs', st2⟩ := v2
        dsimp only at h
        simp only [Except.ok.injEq, Prod.mk.injEq] at h
        obtain ⟨rfl, rfl⟩ := h
        obtain ⟨hG2, hrest⟩ := requestAll_spec hG1 hres2
        refine ⟨hG2, ?_⟩
        intro key q hm
        simp only [List.mem_cons, Prod.mk.injEq] at hm
        rcases hm with ⟨rfl, hv⟩ | hm
        · exact ⟨suf, by simp, hq q hv.symm⟩
        · obtain ⟨suf', hmem, hok⟩ := hrest key q hm
          exact ⟨suf', List.mem_cons_of_mem _ hmem, hok⟩

theorem alookup_cons {α β : Type} [DecidableEq α] {k n : α} {v x : β} {t : List (α × β)}
    (h : alookup k ((n, v) :: t) = some x) : (n = k ∧ v = x) ∨ alookup k t = some x := by
  unfold alookup at h
  split at h
  · rename_i hk; cases h; exact Or.inl ⟨hk, rfl⟩
  · exact Or.inr h

/-- what the first loop leaves behind -/
structure K1 (env : Env) (all : List Layer) (s : S1) : Prop where
  groups : GroupsOK env s.st.groups
  kernel : ∀ name q b, alookup name s.kdict = some (some q, b) →
    ∃ L ∈ all, L.name = name ∧ QOK env L false "_kernel" q
  recur : ∀ name q, alookup name s.recDict = some (some q) →
    ∃ L ∈ all, L.name = name ∧ QOK env L false "_recurrent_kernel" q
  pw : ∀ name q, alookup name s.pwDict = some (some q) →
    ∃ L ∈ all, L.name = name ∧ QOK env L false "_pointwise_kernel" q

theorem loop1Step_inv {env : Env} {tn : Tune} {all : List Layer} {s s' : S1} {L : Layer}
    (hL : L ∈ all) (hK : K1 env all s) (h : loop1Step env tn s L = .ok s') : K1 env all s' := by
  unfold loop1Step at h
  by_cases hreg : L.cls ∈ REGISTERED
  · rw [if_pos hreg] at h
    unfold request at h
    generalize hres : getQuantizer env s.st (L.name ++ "_kernel") L.name L.cls false = res at h
    cases res with
    | error e => cases h
    | ok v =>
      obtain ⟨r, st1⟩ := v
      dsimp only at h
      obtain ⟨hG1, _, hq1⟩ := getQuantizer_QOK hK.groups hres
      -- state after the kernel request
      have hkern : ∀ name q b, alookup name ((L.name, unpack r) :: s.kdict) = some (some q, b) →
          ∃ L' ∈ all, L'.name = name ∧ QOK env L' false "_kernel" q := by
        intro name q b hk
        rcases alookup_cons hk with ⟨hn, hv⟩ | hold
        · exact ⟨L, hL, hn, hq1 q (by rw [hv])⟩
        · exact hK.kernel name q b hold
      by_cases hseq : L.cls ∈ SEQUENCE
      · rw [if_pos hseq] at h
        generalize hres2 : getQuantizer env st1 (L.name ++ "_recurrent_kernel") L.name L.cls false = res2 at h
        cases res2 with
        | error e => cases h
        | ok v2 =>
          obtain ⟨r2, st2⟩ := v2
          dsimp only at h
          obtain ⟨hG2, _, hq2⟩ := getQuantizer_QOK hG1 hres2
          have hrec : ∀ name q, alookup name ((L.name, (unpack r2).1) :: s.recDict) = some (some q) →
              ∃ L' ∈ all, L'.name = name ∧ QOK env L' false "_recurrent_kernel" q := by
            intro name q hk
            rcases alookup_cons hk with ⟨hn, hv⟩ | hold
            · exact ⟨L, hL, hn, hq2 q hv⟩
            · exact hK.recur name q hold
          by_cases hsep : L.cls ∈ SEPARABLE
          · rw [if_pos hsep] at h
            generalize hres3 : getQuantizer env st2 (L.name ++ "_pointwise_kernel") L.name L.cls false = res3 at h
            cases res3 with
            | error e => cases h
            | ok v3 =>
              obtain ⟨r3, st3⟩ := v3
              dsimp only at h
              obtain ⟨hG3, _, hq3⟩ := getQuantizer_QOK hG2 hres3
              cases h
              refine ⟨hG3, hkern, hrec, ?_⟩
              intro name q hk
              rcases alookup_cons hk with ⟨hn, hv⟩ | hold
              · exact ⟨L, hL, hn, hq3 q hv⟩
              · exact hK.pw name q hold
          · rw [if_neg hsep] at h
            cases h
            exact ⟨hG2, hkern, hrec, hK.pw⟩
      · rw [if_neg hseq] at h
        dsimp only at h
        by_cases hsep : L.cls ∈ SEPARABLE
        · rw [if_pos hsep] at h
          generalize hres3 : getQuantizer env st1 (L.name ++ "_pointwise_kernel") L.name L.cls false = res3 at h
          cases res3 with
          | error e => cases h
          | ok v3 =>
            obtain ⟨r3, st3⟩ := v3
            dsimp only at h
            obtain ⟨hG3, _, hq3⟩ := getQuantizer_QOK hG1 hres3
            cases h
            refine ⟨hG3, hkern, hK.recur, ?_⟩
            intro name q hk
            rcases alookup_cons hk with ⟨hn, hv⟩ | hold
            · exact ⟨L, hL, hn, hq3 q hv⟩
            · exact hK.pw name q hold
        · rw [if_neg hsep] at h
          cases h
          exact ⟨hG1, hkern, hK.recur, hK.pw⟩
  · rw [if_neg hreg] at h
    cases h
    exact hK

theorem loop1_inv {env : Env} {tn : Tune} {all : List Layer} :
    ∀ {layers : List Layer} {s s' : S1}, (∀ L ∈ layers, L ∈ all) → K1 env all s →
      loop1 env tn s layers = .ok s' → K1 env all s'
  | [], s, s', _, hK, h => by
    simp only [loop1, Except.ok.injEq] at h; subst h; exact hK
  | L :: t, s, s', hsub, hK, h => by
    unfold loop1 at h
    generalize hres : loop1Step env tn s L = res at h
    cases res with
    | error e => cases h
    | ok sm =>
      dsimp only at h
      exact loop1_inv (fun L' hL' => hsub L' (List.mem_cons_of_mem _ hL'))
        (loop1Step_inv (hsub L (by simp)) hK hres) h

theorem rolesFor_suffix {L : Layer} {key suf : String} (h : (key, suf) ∈ rolesFor L) :
    roleSuffix key = some suf := by
  unfold rolesFor at h
  simp only [List.mem_append] at h
  rcases h with h | h
  · split at h
    · simp only [List.mem_singleton, Prod.mk.injEq] at h
      obtain ⟨rfl, rfl⟩ := h; decide
    · simp at h
  · split at h
    · simp only [List.mem_cons, Prod.mk.injEq, List.mem_nil_iff, or_false] at h
      rcases h with ⟨rfl, rfl⟩ | ⟨rfl, rfl⟩ <;> decide
    · simp only [List.mem_append] at h
      rcases h with h | h
      · split at h
        · simp only [List.mem_singleton, Prod.mk.injEq] at h
          obtain ⟨rfl, rfl⟩ := h; decide
        · simp at h
      · split at h
        · simp only [List.mem_singleton, Prod.mk.injEq] at h
          obtain ⟨rfl, rfl⟩ := h; decide
        · simp at h

theorem roleSuffix_kernelName (cls : String) : roleSuffix (kernelName cls) = some "_kernel" := by
  unfold kernelName
  split <;> decide

theorem extraPart_spec (c : Prop) [Decidable c] (d : List (String × Option String)) (nm k : String)
    (a : List (String × Option String))
    (h : (if c then (alookup nm d).map (fun q => [(k, q)]) else some []) = some a) :
    ∀ key q, (key, some q) ∈ a → key = k ∧ alookup nm d = some (some q) := by
  intro key q hm
  split at h
  · cases hl : alookup nm d with
    | none => rw [hl] at h; cases h
    | some v =>
      rw [hl] at h
      simp only [Option.map_some, Option.some.injEq] at h
      subst h
      simp only [List.mem_singleton, Prod.mk.injEq] at hm
      exact ⟨hm.1, by rw [hm.2]⟩
  · cases h; simp at hm

theorem extraRoles_spec {env : Env} {all : List Layer} {s1 : S1} {L : Layer}
    {extra : List (String × Option String)} (hK : K1 env all s1) (h : extraRoles s1 L = some extra) :
    ∀ key q, (key, some q) ∈ extra →
      ∃ L' ∈ all, L'.name = L.name ∧ ∃ suf, roleSuffix key = some suf ∧ QOK env L' false suf q := by
  unfold extraRoles at h
  generalize ha : (if L.cls ∈ SEQUENCE then
      (alookup L.name s1.recDict).map (fun q => [("recurrent_quantizer", q)]) else some []) = oa at h
  generalize hb : (if L.cls ∈ SEPARABLE then
      (alookup L.name s1.pwDict).map (fun q => [("pointwise_quantizer", q)]) else some []) = ob at h
  cases oa with
  | none => cases h
  | some a =>
    cases ob with
    | none => cases h
    | some b =>
      dsimp only at h
      cases h
      intro key q hm
      rw [List.mem_append] at hm
      rcases hm with hm | hm
      · obtain ⟨rfl, hl⟩ := extraPart_spec _ _ _ _ _ ha key q hm
        obtain ⟨L', hL', hn, hq⟩ := hK.recur _ _ hl
        exact ⟨L', hL', hn, "_recurrent_kernel", by decide, hq⟩
      · obtain ⟨rfl, hl⟩ := extraPart_spec _ _ _ _ _ hb key q hm
        obtain ⟨L', hL', hn, hq⟩ := hK.pw _ _ hl
        exact ⟨L', hL', hn, "_pointwise_kernel", by decide, hq⟩

/-- invariant of the second loop -/
def K2 (env : Env) (all : List Layer) (s : S2) : Prop :=
  GroupsOK env s.st.groups ∧ ∀ x ∈ s.qdict, EntryOK env all x.1 x.2

theorem K2_append {env : Env} {all : List Layer} {s : S2} {st : St} {name : String} {e : QEntry}
    {arch : List Layer} (hK : K2 env all s) (hG : GroupsOK env st.groups) (he : EntryOK env all name e) :
    K2 env all { st := st, qdict := s.qdict ++ [(name, e)], arch := arch } := by
  refine ⟨hG, ?_⟩
  intro x hx
  simp only [List.mem_append, List.mem_singleton] at hx
  rcases hx with hx | rfl
  · exact hK.2 x hx
  · exact he

theorem loop2Step_inv {env : Env} {tn : Tune} {nf : Rat} {all : List Layer} {s1 : S1} {i : Nat}
    {s s' : S2} {L : Layer} (hL : L ∈ all) (hK1 : K1 env all s1) (hK : K2 env all s)
    (h : loop2Step env tn nf s1 i s L = .ok s') : K2 env all s' := by
  unfold loop2Step at h
  simp only at h
  by_cases hex : excludedB tn i = true
  · rw [if_pos hex] at h; cases h; exact hK
  rw [if_neg hex] at h
  by_cases hreg : L.cls ∈ REGISTERED
  · rw [if_pos hreg] at h
    cases hk : alookup L.name s1.kdict with
    | none => rw [hk] at h; cases h
    | some kb =>
      obtain ⟨kq, b⟩ := kb
      rw [hk] at h
      dsimp only at h
      by_cases htr : (!truthy kq) = true
      · rw [if_pos htr] at h; cases h; exact hK
      · rw [if_neg htr] at h
        cases hex : extraRoles s1 L with
        | none => rw [hex] at h; cases h
        | some extra =>
        rw [hex] at h
        dsimp only at h
        generalize hst0 : ({ groups := s.st.groups, log := _ } : St) = st0 at h
        have hG0 : GroupsOK env st0.groups := by rw [← hst0]; exact hK.1
        generalize hres : requestAll env L st0 (rolesFor L) = res at h
        cases res with
        | error e => cases h
        | ok v =>
          obtain ⟨rs, st2⟩ := v
          dsimp only at h
          cases h
          obtain ⟨hG2, hrs⟩ := requestAll_spec hG0 hres
          refine K2_append hK hG2 ?_
          intro key q hm
          rw [List.mem_append, List.mem_cons] at hm
          rcases hm with (heq | hm) | hm
          · simp only [Prod.mk.injEq] at heq
            obtain ⟨rfl, hkq⟩ := heq
            subst hkq
            obtain ⟨L', hL', hn, hq⟩ := hK1.kernel _ _ _ hk
            exact ⟨L', hL', hn, "_kernel", roleSuffix_kernelName _, hq⟩
          · exact extraRoles_spec hK1 hex key q hm
          · obtain ⟨suf, hmem, hq⟩ := hrs key q hm
            exact ⟨L, hL, rfl, suf, rolesFor_suffix hmem, hq⟩
  rw [if_neg hreg] at h
  by_cases hres : L.cls = "Reshape"
  · rw [if_pos hres] at h
    by_cases h1 : tn.tuneFilters = "layer"
    · rw [if_pos h1] at h; cases h
    · rw [if_neg h1] at h
      split at h
      · cases h; exact hK
      · cases h
  rw [if_neg hres] at h
  by_cases hact : L.cls = "Activation"
  · rw [if_pos hact] at h
    by_cases hsm : L.act = "softmax"
    · rw [if_pos hsm] at h; cases h; exact hK
    · rw [if_neg hsm] at h
      generalize hres2 : getQuantizer env s.st (L.name ++ "_activation") L.name L.cls
        (decide (L.act = "linear")) = res at h
      cases res with
      | error e => cases h
      | ok v =>
        obtain ⟨r, st1⟩ := v
        dsimp only at h
        obtain ⟨hG1, _, hq1⟩ := getQuantizer_QOK hK.1 hres2
        cases hu : (unpack r).1 with
        | none => rw [hu] at h; cases h; exact ⟨hG1, hK.2⟩
        | some q =>
          rw [hu] at h
          dsimp only at h
          by_cases hq : q = ""
          · rw [if_pos hq] at h; cases h; exact ⟨hG1, hK.2⟩
          · rw [if_neg hq] at h; cases h
            exact K2_append hK hG1 ⟨L, hL, rfl, hact, hq1 q hu⟩
  rw [if_neg hact] at h
  split at h
  · cases h; exact K2_append hK hK.1 (by intro key q hm; simp at hm)
  · split at h
    · cases h; exact K2_append hK hK.1 (by intro key q hm; simp at hm)
    · cases h; exact hK

theorem loop2_inv {env : Env} {tn : Tune} {nf : Rat} {all : List Layer} {s1 : S1}
    (hK1 : K1 env all s1) :
    ∀ {layers : List Layer} {i : Nat} {s s' : S2}, (∀ L ∈ layers, L ∈ all) → K2 env all s →
      loop2 env tn nf s1 i s layers = .ok s' → K2 env all s'
  | [], i, s, s', _, hK, h => by
    simp only [loop2, Except.ok.injEq] at h; subst h; exact hK
  | L :: t, i, s, s', hsub, hK, h => by
    unfold loop2 at h
    generalize hres : loop2Step env tn nf s1 i s L = res at h
    cases res with
    | error e => cases h
    | ok sm =>
      dsimp only at h
      exact loop2_inv hK1 (fun L' hL' => hsub L' (List.mem_cons_of_mem _ hL'))
        (loop2Step_inv (hsub L (by simp)) hK1 hK hres) h

/-- every value of the dictionary handed to `model_quantize` is within the limit of a layer of
    that name, in the role of its key -/
theorem quantizeModel_within {env : Env} {tn : Tune} {layers : List Layer} {o : QmOut}
    (h : quantizeModel env tn layers = .ok o) : ∀ x ∈ o.qdict, EntryOK env layers x.1 x.2 := by
  unfold quantizeModel at h
  generalize hres : loop1 env tn {} layers = res at h
  cases res with
  | error e => cases h
  | ok s1 =>
    dsimp only at h
    have hK0 : K1 env layers ({} : S1) :=
      ⟨by intro k i q b hk; simp [alookup] at hk, by intro n q b hk; simp [alookup] at hk,
       by intro n q hk; simp [alookup] at hk, by intro n q hk; simp [alookup] at hk⟩
    have hK1 := loop1_inv (fun L hL => hL) hK0 hres
    generalize hst : (if (decide (tn.tuneFilters = "block") && s1.sweep) = true then
        ({ groups := s1.st.groups, log := s1.st.log ++ [HpCall.choiceF "network_filters" filterRange] } : St)
        else s1.st) = st0 at h
    have hG0 : GroupsOK env st0.groups := by
      rw [← hst]; split <;> exact hK1.groups
    generalize hres2 : loop2 env tn _ s1 0 { st := st0 } layers = res2 at h
    cases res2 with
    | error e => cases h
    | ok s2 =>
      dsimp only at h
      cases h
      exact (loop2_inv hK1 (fun L hL => hL) ⟨hG0, by intro x hx; simp at hx⟩ hres2).2

/-! ## `_adjust_limit` against the documented completion -/

theorem alookup_areplace {k n : String} {v : LimEntry} :
    ∀ {lim : Limit}, alookup k (areplace n v lim) =
      if k = n then (if (alookup n lim).isSome then some v else none) else alookup k lim
  | [] => by simp [areplace, alookup]
  | (k', v') :: t => by
    unfold areplace
    by_cases h1 : k' = n
    · subst h1
      by_cases h2 : k = k'
      · subst h2; simp [alookup]
      · have h3 : ¬ k' = k := fun h => h2 h.symm
        simp [alookup, h2, h3]
    · have ih := alookup_areplace (k := k) (n := n) (v := v) (lim := t)
      by_cases h2 : k = n
      · subst h2
        have h3 : ¬ k' = k := h1
        simp only [alookup, h1, if_false, h3] at ih ⊢
        simpa using ih
      · simp only [if_neg h1, alookup, if_neg h2] at ih ⊢
        by_cases h3 : k' = k
        · simp [h3]
        · simp [h3, ih]

theorem limKeys_areplace {n : String} {v : LimEntry} :
    ∀ {lim : Limit}, limKeys (areplace n v lim) = limKeys lim
  | [] => rfl
  | (k', v') :: t => by
    unfold areplace
    split
    · simp [limKeys]
    · have := limKeys_areplace (n := n) (v := v) (lim := t)
      simp only [limKeys, List.map_cons] at this ⊢
      rw [this]

/-- the loop over class names: keys and their order are untouched; a name of the list that is a key
    carries the adjusted entry, every other key its old value -/
theorem adjustLoop_spec {d : List LimVal} :
    ∀ {names : List String} {lim L : Limit}, names.Nodup → adjustLoop d names lim = .ok L →
      limKeys L = limKeys lim ∧
      (∀ k, k ∉ names → alookup k L = alookup k lim) ∧
      (∀ k e, k ∈ names → alookup k lim = some e →
          ∃ e', adjustEntry d k e = .ok e' ∧ alookup k L = some e') ∧
      (∀ k, k ∈ names → alookup k lim = none → alookup k L = none)
  | [], lim, L, _, h => by
    simp only [adjustLoop, Except.ok.injEq] at h
    subst h
    exact ⟨rfl, fun _ _ => rfl, fun k e hk => by simp at hk, fun k hk => by simp at hk⟩
  | name :: rest, lim, L, hnd, h => by
    have hnr : name ∉ rest := (List.nodup_cons.mp hnd).1
    have hndr : rest.Nodup := (List.nodup_cons.mp hnd).2
    unfold adjustLoop at h
    cases hl : alookup name lim with
    | none =>
      rw [hl] at h
      obtain ⟨h1, h2, h3, h4⟩ := adjustLoop_spec hndr h
      refine ⟨h1, fun k hk => h2 k (fun hh => hk (List.mem_cons_of_mem _ hh)), ?_, ?_⟩
      · intro k e hk he
        rcases List.mem_cons.mp hk with rfl | hk
        · rw [hl] at he; cases he
        · exact h3 k e hk he
      · intro k hk hn
        rcases List.mem_cons.mp hk with rfl | hk
        · rw [h2 k hnr]; exact hl
        · exact h4 k hk hn
    | some e0 =>
      rw [hl] at h
      dsimp only at h
      cases ha : adjustEntry d name e0 with
      | error err => rw [ha] at h; cases h
      | ok e' =>
        rw [ha] at h
        dsimp only at h
        obtain ⟨h1, h2, h3, h4⟩ := adjustLoop_spec hndr h
        have hlook : ∀ k, alookup k (areplace name e' lim) =
            if k = name then some e' else alookup k lim := by
          intro k
          rw [alookup_areplace, hl]
          simp
        refine ⟨by rw [h1, limKeys_areplace], ?_, ?_, ?_⟩
        · intro k hk
          have hk1 : k ≠ name := fun hh => hk (hh ▸ List.mem_cons_self)
          have hk2 : k ∉ rest := fun hh => hk (List.mem_cons_of_mem _ hh)
          rw [h2 k hk2, hlook k, if_neg hk1]
        · intro k e hk he
          rcases List.mem_cons.mp hk with rfl | hk
          · rw [hl] at he; cases he
            refine ⟨e', ha, ?_⟩
            rw [h2 k hnr, hlook k, if_pos rfl]
          · have hk1 : k ≠ name := fun hh => hnr (hh ▸ hk)
            have : alookup k (areplace name e' lim) = some e := by rw [hlook k, if_neg hk1]; exact he
            exact h3 k e hk this
        · intro k hk hn
          rcases List.mem_cons.mp hk with rfl | hk
          · rw [hl] at hn; cases hn
          · have hk1 : k ≠ name := fun hh => hnr (hh ▸ hk)
            have : alookup k (areplace name e' lim) = none := by rw [hlook k, if_neg hk1]; exact hn
            exact h4 k hk this

theorem normDefault_length {o : Option LimEntry} {d : List LimVal} (h : normDefault o = .ok d) :
    d.length = 3 ∨ d.length = 4 := by
  unfold normDefault at h
  split at h
  · cases h; exact Or.inl rfl
  · cases h; exact Or.inl rfl
  · split at h
    · cases h; omega
    · cases h

/-- the slices of `_adjust_limit` are the role-wise documented completion -/
theorem adjustEntry_doc {d : List LimVal} (hd : d.length = 3 ∨ d.length = 4) {name : String}
    {l : List LimVal} {e : LimEntry} (h : adjustEntry d name (.vals l) = .ok e) :
    e = .vals (docEntry d name l) := by
  unfold adjustEntry at h
  unfold docEntry
  by_cases hs : name ∈ SEQUENCE
  · simp only [hs, and_true, if_true] at h ⊢
    by_cases hl : l.length < 4
    · simp only [hl, if_true] at h ⊢
      split at h
      · rename_i h4
        cases h
        rcases d with _ | ⟨a, _ | ⟨b, _ | ⟨c, _ | ⟨e4, _ | ⟨f, t⟩⟩⟩⟩⟩ <;> simp at h4
        rcases l with _ | ⟨x, _ | ⟨y, _ | ⟨z, _ | ⟨u, t'⟩⟩⟩⟩ <;>
          first
          | (exfalso; simp only [List.length_cons] at hl; omega)
          | simp [slotOr, defWeight, defBias, defRecurrent, defActivation]
      · cases h
    · simp only [hl, if_false] at h ⊢
      split at h
      · rename_i h3; omega
      · cases h; rfl
  · simp only [hs, and_false, if_false] at h ⊢
    by_cases hl : l.length < 3
    · simp only [hl, if_true] at h ⊢
      cases h
      rcases hd with hd | hd
      · rcases d with _ | ⟨a, _ | ⟨b, _ | ⟨c, _ | ⟨e4, t⟩⟩⟩⟩ <;> simp at hd
        rcases l with _ | ⟨x, _ | ⟨y, _ | ⟨z, t'⟩⟩⟩ <;>
          first
          | (exfalso; simp only [List.length_cons] at hl; omega)
          | simp [slotOr, defWeight, defBias, defActivation]
      · rcases d with _ | ⟨a, _ | ⟨b, _ | ⟨c, _ | ⟨e4, _ | ⟨f, t⟩⟩⟩⟩⟩ <;> simp at hd
        rcases l with _ | ⟨x, _ | ⟨y, _ | ⟨z, t'⟩⟩⟩ <;>
          first
          | (exfalso; simp only [List.length_cons] at hl; omega)
          | simp [slotOr, defWeight, defBias, defActivation]
    · simp only [hl, if_false] at h ⊢
      cases h; rfl

end QKV.AutoQ
