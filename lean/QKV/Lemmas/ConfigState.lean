/-
  QKV.Lemmas.ConfigState — facts about the hidden per-instance state, the canonical-instance
  invariant and its preservation by the history steps (used by Props/C09).
-/
import Mathlib.Tactic
import QKV.Lemmas.Config
import QKV.Model.ConfigState
namespace QKV.Py

/-! ### hidden state depends on serialised options only -/

theorem hiddenInit_congr (c : Cls) {e e' : Env}
    (h : ∀ k ∈ hiddenReads c, e.get k = e'.get k) : hiddenInit c e = hiddenInit c e' := by
  cases c <;> simp only [hiddenInit] <;>
    first
      | rfl
      | (simp only [hiddenReads, List.mem_cons, List.mem_nil_iff, or_false, forall_eq_or_imp,
          forall_eq] at h
         simp only [h])

theorem hiddenReads_serialised (c : Cls) : ∀ k ∈ hiddenReads c, k ∈ serialised c := by
  cases c <;> decide

theorem hiddenReads_not_symmetric (c : Cls) : "symmetric" ∉ hiddenReads c := by
  cases c <;> decide

theorem norm_get_ne (c : Cls) (e : Env) {k : String} (hk : k ≠ "symmetric") :
    (normInit c e).get k = e.get k := by
  cases c <;> simp only [normInit] <;>
    first
      | rfl
      | (split
         · exact Env.get_set_ne hk _ _
         · rfl)

theorem hidden_norm (c : Cls) (e : Env) : hiddenInit c (normInit c e) = hiddenInit c e := by
  apply hiddenInit_congr
  intro k hk
  exact norm_get_ne c e (fun h => hiddenReads_not_symmetric c (h ▸ hk))

theorem hidden_forget (c : Cls) (e : Env) : hiddenInit c (forget c e) = hiddenInit c e := by
  apply hiddenInit_congr
  intro k hk
  have hs := hiddenReads_serialised c k hk
  exact forget_get_serialised e (serialised_sub hs) hs

/-! ### `initI` vs `init` -/

theorem initI_ok_inv {c : Cls} {e : Env} {i : Inst} (h : initI c e = .ok i) :
    check c e = none ∧ i = ⟨⟨c, normInit c e⟩, hiddenInit c e⟩ := by
  unfold initI at h
  split at h
  · cases h
  · rename_i hc; cases h; exact ⟨hc, rfl⟩

theorem initI_of_check {c : Cls} {e : Env} (h : check c e = none) :
    initI c e = .ok ⟨⟨c, normInit c e⟩, hiddenInit c e⟩ := by
  unfold initI; rw [h]

/-- the instance part of `initI` is `init` -/
theorem initI_q (c : Cls) (e : Env) : (initI c e).map Inst.q = init c e := by
  unfold initI init
  cases check c e <;> rfl

theorem constructI_q (w : World) (c : Cls) (args : List PyVal) (kw : Env) :
    (constructI w c args kw).map Inst.q = construct c args kw := by
  unfold constructI construct
  cases bind (params c) args kw with
  | error _ => rfl
  | ok e => exact initI_q c e

/-- nothing of the process-level state is captured by a constructor -/
theorem constructI_world (w w' : World) (c : Cls) (args : List PyVal) (kw : Env) :
    constructI w c args kw = constructI w' c args kw := rfl

/-! ### canonical instances -/

/-- the instance is what its own constructor body makes of its own stored fields: exactly the
    signature's keys, argument checks pass, normalisations already applied, hidden attributes
    consistent with the stored fields.  True of every freshly constructed instance and
    preserved by every history step. -/
def Canon (i : Inst) : Prop :=
  i.q.env.keys = paramNames i.q.cls ∧ initI i.q.cls i.q.env = .ok i

theorem canon_of_constructI {w : World} {c : Cls} {args : List PyVal} {kw : Env} {i : Inst}
    (h : constructI w c args kw = .ok i) : i.q.cls = c ∧ Canon i := by
  unfold constructI at h
  split at h
  · cases h
  · rename_i e hb
    obtain ⟨hc, rfl⟩ := initI_ok_inv h
    refine ⟨rfl, ?_, ?_⟩
    · show (normInit c e).keys = _
      rw [norm_keys]; exact bind_ok_keys hb
    · show initI c (normInit c e) = _
      unfold initI
      rw [check_norm, hc, norm_norm, hidden_norm]

theorem Canon.check {i : Inst} (h : Canon i) : check i.q.cls i.q.env = none :=
  (initI_ok_inv h.2).1

theorem Canon.init_fixed {i : Inst} (h : Canon i) : init i.q.cls i.q.env = .ok i.q := by
  have := initI_q i.q.cls i.q.env
  rw [h.2] at this
  exact this.symm

theorem Canon.hid_eq {i : Inst} (h : Canon i) : i.hid = hiddenInit i.q.cls i.q.env := by
  have := (initI_ok_inv h.2).2
  exact congrArg Inst.hid this

theorem Canon.norm_fixed {i : Inst} (h : Canon i) : normInit i.q.cls i.q.env = i.q.env := by
  have := (initI_ok_inv h.2).2
  exact (congrArg (fun j : Inst => j.q.env) this).symm

theorem fromConfigI_getConfig (w : World) (q : Q) :
    fromConfigI w q.cls (getConfig q) = initI q.cls (forget q.cls q.env) := by
  unfold fromConfigI constructI
  rw [bind_getConfig, cfgClosed_all, if_pos rfl]

/-- closed form of the rebuild of a canonical instance, in any world: same hidden state -/
theorem canon_rebuild (w : World) {i : Inst} (h : Canon i) :
    fromConfigI w i.q.cls (getConfig i.q) =
      .ok ⟨⟨i.q.cls, normInit i.q.cls (forget i.q.cls i.q.env)⟩, i.hid⟩ := by
  rw [fromConfigI_getConfig, initI_of_check (by rw [check_forget]; exact h.check),
    hidden_forget, ← h.hid_eq]

/-- every serialised field of a fixed point of the constructor body survives the round trip
    (the proof of `C09_roundtrip_fields`, for any instance satisfying the invariant) -/
theorem roundtrip_get_serialised {q : Q} (hkeys : q.env.keys = paramNames q.cls)
    (hfix : init q.cls q.env = .ok q) {k : String} (hk : k ∈ serialised q.cls) :
    (normInit q.cls (forget q.cls q.env)).get k = q.env.get k := by
  have hkp := serialised_sub hk
  have hsym : ∀ c : Cls, q.cls = c → (c = .quantized_bits ∨ c = .quantized_hswish) →
      (normInit c (forget c q.env)).get k = q.env.get k := by
    intro c hc hcase
    subst hc
    have hal : "alpha" ∈ paramNames q.cls ∧ "alpha" ∈ serialised q.cls ∧
        "symmetric" ∈ paramNames q.cls := by
      rcases hcase with h | h <;> rw [h] <;> decide
    have halpha : (forget q.cls q.env).get "alpha" = q.env.get "alpha" :=
      forget_get_serialised _ hal.1 hal.2.1
    have hnq : q.env = normInit q.cls q.env := congrArg Q.env (init_ok_inv hfix).2
    have hnorm : ∀ e : Env, normInit q.cls e =
        if (e.get "alpha").isStr then e.set "symmetric" (.bool true) else e := by
      intro e; rcases hcase with h | h <;> rw [h] <;> rfl
    rw [hnorm] at hnq ⊢
    rw [halpha]
    by_cases hs : (q.env.get "alpha").isStr = true
    · simp only [hs, if_true] at hnq ⊢
      by_cases hksym : k = "symmetric"
      · subst hksym
        rw [Env.get_set_self (by rw [forget_keys]; exact hal.2.2)]
        rw [hnq, Env.get_set_self (by rw [hkeys]; exact hal.2.2)]
      · rw [Env.get_set_ne hksym]
        exact forget_get_serialised _ hkp hk
    · simp only [hs]
      exact forget_get_serialised _ hkp hk
  by_cases hb : q.cls = .quantized_bits
  · exact hsym _ rfl (Or.inl hb)
  · by_cases hh : q.cls = .quantized_hswish
    · exact hsym _ rfl (Or.inr hh)
    · have : normInit q.cls (forget q.cls q.env) = forget q.cls q.env := by
        cases hc : q.cls <;> first | rfl | exact absurd hc hb | exact absurd hc hh
      rw [this]
      exact forget_get_serialised _ hkp hk

/-- `get_config` reads serialised keys only -/
theorem getConfig_congr {q q' : Q} (hc : q'.cls = q.cls)
    (h : ∀ k ∈ serialised q.cls, q'.get k = q.get k) : getConfig q' = getConfig q := by
  unfold getConfig
  rw [hc]
  apply List.map_congr_left
  intro p hp
  have hattr := cfg_all_attr q.cls p hp
  have hk : p.1 ∈ serialised q.cls := List.mem_map_of_mem hp
  obtain ⟨k, src⟩ := p
  simp only at hattr
  subst hattr
  simp only
  exact congrArg _ (h k hk)

/-! ### history steps preserve the invariant -/

theorem mem_keys_of_param {i : Inst} (h : Canon i) {k : String} (hk : k ∈ paramNames i.q.cls) :
    k ∈ i.q.env.keys := by rw [h.1]; exact hk

private theorem canon_mk {c : Cls} {e hid : Env} (hkeys : e.keys = paramNames c)
    (hcheck : check c e = none) (hnorm : normInit c e = e) (hhid : hiddenInit c e = hid) :
    Canon ⟨⟨c, e⟩, hid⟩ := by
  refine ⟨hkeys, ?_⟩
  show initI c e = _
  rw [initI_of_check hcheck, hnorm, hhid]

/-- setting `alpha` to the string "auto_po2" in the five classes whose `__init__` neither
    normalises nor derives anything from `alpha` -/
private theorem canon_set_alpha_plain {i : Inst} (h : Canon i)
    (hc : i.q.cls ∈ [Cls.bernoulli, .ternary, .stochastic_ternary, .binary, .stochastic_binary]) :
    Canon ⟨⟨i.q.cls, i.q.env.set "alpha" (.str "auto_po2")⟩, i.hid⟩ := by
  have hchk := h.check
  have hhid := h.hid_eq
  have hkeys : (i.q.env.set "alpha" (.str "auto_po2")).keys = paramNames i.q.cls := by
    rw [Env.keys_set]; exact h.1
  obtain ⟨⟨c, e⟩, hid⟩ := i
  simp only at hc hchk hhid hkeys ⊢
  simp only [List.mem_cons, List.mem_nil_iff, or_false] at hc
  rcases hc with rfl | rfl | rfl | rfl | rfl
  all_goals
    refine canon_mk hkeys ?_ rfl (by rw [hhid]; rfl)
    first
      | rfl
      | (simp only [check, Env.get_set_ne (show "threshold" ≠ "alpha" by decide)] at hchk ⊢
         exact hchk)

theorem canon_setTrainable {i : Inst} (h : Canon i) : Canon (setTrainable i) := by
  unfold setTrainable
  split
  · rename_i hnone
    have hchk := h.check
    have hhid := h.hid_eq
    have hnorm := h.norm_fixed
    have hk := h.1
    obtain ⟨⟨c, e⟩, hid⟩ := i
    simp only [Q.get] at hnone hchk hhid hnorm hk ⊢
    have halphaN : e.get "alpha" = .none := by
      cases ha : e.get "alpha" <;> simp [ha, PyVal.isNone] at hnone
      rfl
    have hkeys2 : ((e.set "alpha" (.str "auto_po2")).set "symmetric" (.bool true)).keys
        = paramNames c := by rw [Env.keys_set, Env.keys_set]; exact hk
    have hget_alpha : ∀ (hin : "alpha" ∈ paramNames c),
        ((e.set "alpha" (.str "auto_po2")).set "symmetric" (.bool true)).get "alpha"
          = .str "auto_po2" := by
      intro hin
      rw [Env.get_set_ne (by decide)]
      exact Env.get_set_self (by rw [hk]; exact hin) _
    cases c
    case quantized_linear =>
      refine canon_mk hkeys2 ?_ rfl (by rw [hhid]; rfl)
      simp only [check, hget_alpha (by decide),
        Env.get_set_ne (show "bits" ≠ "symmetric" by decide),
        Env.get_set_ne (show "bits" ≠ "alpha" by decide)] at hchk ⊢
      simp only [halphaN] at hchk
      cases hb : (e.get "bits").numVal with
      | none => simp [hb, orElse] at hchk
      | some b =>
        simp only [hb, orElse] at hchk ⊢
        split at hchk
        · cases hchk
        · rename_i hle; simp
    case quantized_bits =>
      have hpts : (e.get "post_training_scale").isNone = true := by
        simp only [check, halphaN, PyVal.isStr] at hchk
        by_contra hcon
        simp [hcon] at hchk
      refine canon_mk hkeys2 ?_ ?_ ?_
      · simp only [check, hget_alpha (by decide), PyVal.isStr]; rfl
      · simp only [normInit, hget_alpha (by decide), PyVal.isStr, if_true]
        exact Env.set_set _ _ _
      · simp only [hiddenInit, hget_alpha (by decide), PyVal.isStr, if_true,
          Env.get_set_ne (show "post_training_scale" ≠ "symmetric" by decide),
          Env.get_set_ne (show "post_training_scale" ≠ "alpha" by decide), hpts]
        rw [hhid]
        simp [hiddenInit, Env.set, halphaN, PyVal.isStr]
    case quantized_hswish =>
      refine canon_mk hkeys2 ?_ ?_ ?_
      · rfl
      · simp only [normInit, hget_alpha (by decide), PyVal.isStr, if_true]
        exact Env.set_set _ _ _
      · simp only [hiddenInit, hget_alpha (by decide), PyVal.isStr]
        rw [hhid]
        simp [hiddenInit, Env.set, halphaN, PyVal.isStr]
    case bernoulli =>
      exact canon_set_alpha_plain (i := ⟨⟨.bernoulli, e⟩, hid⟩) h (by simp)
    case ternary =>
      exact canon_set_alpha_plain (i := ⟨⟨.ternary, e⟩, hid⟩) h (by simp)
    case stochastic_ternary =>
      exact canon_set_alpha_plain (i := ⟨⟨.stochastic_ternary, e⟩, hid⟩) h (by simp)
    case binary =>
      exact canon_set_alpha_plain (i := ⟨⟨.binary, e⟩, hid⟩) h (by simp)
    case stochastic_binary =>
      exact canon_set_alpha_plain (i := ⟨⟨.stochastic_binary, e⟩, hid⟩) h (by simp)
    all_goals exact h
  · exact h

/-- no `__init__` checks, normalises or derives anything from `qnoise_factor` -/
theorem canon_updateQnoise (v : PyVal) {i : Inst} (h : Canon i) : Canon (updateQnoise v i) := by
  unfold updateQnoise
  split
  · have hchk := h.check
    have hhid := h.hid_eq
    have hnorm := h.norm_fixed
    have hkeys : (i.q.env.set "qnoise_factor" v).keys = paramNames i.q.cls := by
      rw [Env.keys_set]; exact h.1
    obtain ⟨⟨c, e⟩, hid⟩ := i
    simp only at hchk hhid hnorm hkeys ⊢
    have hget : ∀ k, k ≠ "qnoise_factor" → (e.set "qnoise_factor" v).get k = e.get k :=
      fun k hk => Env.get_set_ne hk _ _
    refine canon_mk hkeys ?_ ?_ ?_
    · rw [← hchk]
      cases c <;> simp only [check, hget _ (show "bits" ≠ "qnoise_factor" by decide),
        hget _ (show "alpha" ≠ "qnoise_factor" by decide),
        hget _ (show "post_training_scale" ≠ "qnoise_factor" by decide),
        hget _ (show "threshold" ≠ "qnoise_factor" by decide),
        hget _ (show "negative_slope" ≠ "qnoise_factor" by decide),
        hget _ (show "max_value" ≠ "qnoise_factor" by decide)]
    · have hn : ∀ e' : Env, (e'.get "alpha").isStr = true →
          e'.set "symmetric" (.bool true) = e' →
          ((e'.set "qnoise_factor" v).set "symmetric" (.bool true)) = e'.set "qnoise_factor" v := by
        intro e' _ hfix
        conv_rhs => rw [← hfix]
        simp only [Env.set, List.map_map]
        apply List.map_congr_left
        intro p _
        by_cases h1 : (p.1 == "qnoise_factor") = true <;> by_cases h2 : (p.1 == "symmetric") = true <;>
          simp_all
      cases c <;> simp only [normInit] at hnorm ⊢ <;>
        first
          | rfl
          | (simp only [hget _ (show "alpha" ≠ "qnoise_factor" by decide)]
             split
             · rename_i hs
               simp only [hs, if_true] at hnorm
               exact hn e hs hnorm
             · rfl)
    · rw [hhid]
      apply hiddenInit_congr
      intro k hk
      apply hget
      rintro rfl
      revert hk
      cases c <;> decide
  · exact h

theorem canon_step {s : World × Inst} (h : Canon s.2) (st : Step) : Canon (step s st).2 := by
  obtain ⟨w, i⟩ := s
  cases st with
  | call => exact h
  | setTrainable => exact canon_setTrainable h
  | updateQnoise v => exact canon_updateQnoise v h
  | world w' => exact h

theorem canon_runHistory {s : World × Inst} (h : Canon s.2) (steps : List Step) :
    Canon (runHistory s steps).2 := by
  unfold runHistory
  induction steps generalizing s with
  | nil => exact h
  | cons st t ih => exact ih (canon_step h st)

theorem step_cls (s : World × Inst) (st : Step) : (step s st).2.q.cls = s.2.q.cls := by
  obtain ⟨w, i⟩ := s
  cases st with
  | call => rfl
  | world w' => rfl
  | updateQnoise v => simp only [step, updateQnoise]; split <;> rfl
  | setTrainable =>
    simp only [step, setTrainable]
    split
    · split <;> rfl
    · rfl

theorem runHistory_cls (s : World × Inst) (steps : List Step) :
    (runHistory s steps).2.q.cls = s.2.q.cls := by
  unfold runHistory
  induction steps generalizing s with
  | nil => rfl
  | cons st t ih => exact (ih (step s st)).trans (step_cls s st)

/-! ### the Keras pair and value forms -/

def Form.plain (f : Form) : Bool := f == .literal || f == .npScalar || f == .ndarray

/-- a value held in a plain form is emitted in a plain form -/
theorem exportForm_plain (c : Cls) (k : String) (f : Form) (h : f.plain = true) :
    (exportForm c k f).plain = true := by
  unfold exportForm
  split
  · rfl
  · split
    · rfl
    · exact h

/-- `qnoise_factor` is never emitted as a `tf.Variable` (`.numpy()` in every `get_config`) -/
theorem exportForm_qnoise_ne_variable (c : Cls) (f : Form) :
    exportForm c "qnoise_factor" f ≠ .variable := by
  unfold exportForm
  cases f <;> decide

theorem exportForm_qnoise_variable (c : Cls) : exportForm c "qnoise_factor" .variable = .npScalar := rfl

theorem plain_ne (f : Form) (h : f.plain = true) : f ≠ .variable ∧ f.tagged = false := by
  cases f <;> simp [Form.plain, Form.tagged] at h ⊢

theorem kerasOutcome_ok_iff (forms : List (String × Form)) :
    kerasOutcome forms = .ok ↔ ∀ p ∈ forms, p.2 ≠ .variable ∧ p.2.tagged = false := by
  unfold kerasOutcome
  constructor
  · intro h
    split at h
    · cases h
    · rename_i hv
      split at h
      · rename_i hnil
        intro p hp
        refine ⟨?_, ?_⟩
        · intro hpv
          apply hv
          exact List.any_eq_true.2 ⟨p, hp, by simp [hpv]⟩
        · cases hpt : p.2.tagged with
          | false => rfl
          | true =>
            have : p.1 ∈ (forms.filter fun p => p.2.tagged).map Prod.fst :=
              List.mem_map_of_mem (List.mem_filter.2 ⟨hp, hpt⟩)
            rw [hnil] at this
            cases this
      · cases h
  · intro h
    have hv : ¬ (forms.any fun p => p.2 == Form.variable) = true := by
      intro hany
      obtain ⟨p, hp, hpv⟩ := List.any_eq_true.1 hany
      exact (h p hp).1 (by simpa using hpv)
    have hf : (forms.filter fun p => p.2.tagged) = [] := by
      rw [List.filter_eq_nil_iff]
      intro p hp hpt
      rw [(h p hp).2] at hpt
      cases hpt
    simp [hv, hf]

/-! ### value forms through the dictionary routes -/

/-- the forms a dictionary route hands back unchanged: everything except a `tf.Variable` under
    `qnoise_factor` (exported as its value) and `post_training_scale` (list on the way out,
    ndarray on the way in: restored iff it was None or an ndarray) -/
def FormKept (k : String) (f : Form) (isNone : Bool) : Prop :=
  (k = "qnoise_factor" → f ≠ .variable) ∧
  (k = "post_training_scale" → (isNone = true ∧ f = .literal) ∨ (isNone = false ∧ f = .array))

theorem rebuiltForm_kept (c : Cls) (k : String) (f : Form) (isNone : Bool)
    (h : FormKept k f isNone) : rebuiltForm c k f isNone = f := by
  unfold rebuiltForm importForm exportForm
  by_cases hp : k = "post_training_scale"
  · subst hp
    rcases h.2 rfl with ⟨hn, hf⟩ | ⟨hn, hf⟩
    · subst hn; subst hf; decide
    · subst hn; subst hf; decide
  · by_cases hq : k = "qnoise_factor"
    · subst hq
      have := h.1 rfl
      cases f <;> simp_all
    · have h1 : (k == "qnoise_factor") = false := by simpa using hq
      have h2 : (k == "post_training_scale") = false := by simpa using hp
      simp [h1, h2]

end QKV.Py
