/-
  QKV.Lemmas.Energy — facts about QKV.Model.Energy used by the C19 theorems.
-/
import Mathlib.Tactic
import QKV.Model.Energy
namespace QKV.C19

theorem rat_floor_eq (x : ℚ) : Rat.floor x = ⌊x⌋ := rfl

theorem rceil_eq (x : ℚ) : rceil x = ⌈x⌉ := by
  simp [rceil, rat_floor_eq, Int.floor_neg]

theorem rceil_nonneg {x : ℚ} (h : 0 ≤ x) : 0 ≤ rceil x := by
  rw [rceil_eq]; exact Int.ceil_nonneg h

theorem truncInt_of_nonneg {x : ℚ} (h : 0 ≤ x) : truncInt x = ⌊x⌋ := by
  simp [truncInt, h, rat_floor_eq]

theorem roundHalfEven_err (x : ℚ) : |(roundHalfEven x : ℚ) - x| ≤ 1 / 2 := by
  have h1 : ((Rat.floor x : ℤ) : ℚ) ≤ x := Int.floor_le x
  have h2 : x < ((Rat.floor x : ℤ) : ℚ) + 1 := Int.lt_floor_add_one x
  unfold roundHalfEven
  generalize Rat.floor x = f at *
  simp only []
  by_cases a : x - (f : ℚ) < 1 / 2
  · rw [if_pos a, abs_le]; constructor <;> linarith
  · rw [if_neg a]
    by_cases b : 1 / 2 < x - (f : ℚ)
    · rw [if_pos b, abs_le]; push_cast; constructor <;> linarith
    · rw [if_neg b]
      have e : x - (f : ℚ) = 1 / 2 := le_antisymm (not_lt.mp b) (not_lt.mp a)
      by_cases c : f % 2 = 0
      · rw [if_pos c, abs_le]; constructor <;> linarith
      · rw [if_neg c, abs_le]; push_cast; constructor <;> linarith

theorem roundHalfEven_nonneg {x : ℚ} (h : 0 ≤ x) : 0 ≤ roundHalfEven x := by
  have : 0 ≤ Rat.floor x := Int.floor_nonneg.mpr h
  unfold roundHalfEven
  generalize Rat.floor x = f at *
  simp only []
  split_ifs <;> omega

theorem round2_err (x : ℚ) : |round2 x - x| ≤ 1 / 200 := by
  have h := roundHalfEven_err (x * 100)
  unfold round2
  rw [abs_le] at h ⊢
  constructor <;> linarith [h.1, h.2]

theorem round2_nonneg {x : ℚ} (h : 0 ≤ x) : 0 ≤ round2 x := by
  unfold round2
  have : (0 : ℚ) ≤ (roundHalfEven (x * 100) : ℚ) := by
    exact_mod_cast roundHalfEven_nonneg (by positivity)
  positivity

/-! ## non-negativity -/

theorem sramCost_nonneg (c : Costs) (x : ℚ) : 0 ≤ sramCost c x := le_max_right _ _
theorem dramCost_nonneg (c : Costs) (x : ℚ) : 0 ≤ dramCost c x := le_max_right _ _

theorem sramAccess_nonneg (c : Costs) (tb ms : ℚ) (hm : 0 ≤ c.sramMulFactor) (ht : 0 ≤ tb) :
    0 ≤ sramAccess c tb ms := by
  unfold sramAccess
  have : (0 : ℚ) ≤ (rceil (tb * c.sramMulFactor) : ℚ) := by
    exact_mod_cast rceil_nonneg (mul_nonneg ht hm)
  exact mul_nonneg this (sramCost_nonneg _ _)

theorem memoryReadEnergy_nonneg (c : Costs) (isIn : Bool) (elems : ℕ) (mode : Mem) (ms : ℚ)
    (rw : Bool) (bits : ℚ) (hm : 0 ≤ c.sramMulFactor) (hb : 0 ≤ bits) :
    0 ≤ memoryReadEnergy c isIn elems mode ms rw bits := by
  have ht : (0 : ℚ) ≤ (elems : ℚ) * bits := by positivity
  have hs := sramAccess_nonneg c _ ms hm ht
  have hd := dramCost_nonneg c ((elems : ℚ) * bits)
  unfold memoryReadEnergy
  cases isIn <;> cases rw <;> cases mode <;> simp <;> linarith

theorem memoryWriteEnergy_nonneg (c : Costs) (isOut : Bool) (elems : ℕ) (mode : Mem) (ms : ℚ)
    (rw : Bool) (bits : ℚ) (hm : 0 ≤ c.sramMulFactor) (hb : 0 ≤ bits) :
    0 ≤ memoryWriteEnergy c isOut elems mode ms rw bits := by
  have ht : (0 : ℚ) ≤ (elems : ℚ) * bits := by positivity
  have hs := sramAccess_nonneg c _ ms hm ht
  have hd := dramCost_nonneg c ((elems : ℚ) * bits)
  unfold memoryWriteEnergy
  cases isOut <;> cases rw <;> cases mode <;> simp <;> linarith

/-- writing costs exactly what reading costs: `OP[..]["wr"]` are the `rd` polynomials -/
theorem memoryWriteEnergy_eq_read (c : Costs) (b : Bool) (elems : ℕ) (mode : Mem) (ms : ℚ)
    (rw : Bool) (bits : ℚ) :
    memoryWriteEnergy c b elems mode ms rw bits = memoryReadEnergy c b elems mode ms rw bits := by
  unfold memoryWriteEnergy memoryReadEnergy
  cases b <;> cases rw <;> cases mode <;> simp <;> ring

theorem opCost_nonneg (c : Costs) (t : OpType) (m : OpMode) (x e : ℚ)
    (h : opCost c t m x = some e) : 0 ≤ e := by
  cases t <;> cases m <;> simp [opCost] at h <;> (subst h; exact le_max_right _ _)

theorem unitCost_nonneg (c : Costs) (u : OpUnit) (v : ℚ) (hg : 0 ≤ u.gateFactor)
    (h : unitCost c u = some v) : 0 ≤ v := by
  unfold unitCost at h
  cases ht : opType? u.out with
  | none => simp [ht] at h
  | some t =>
    cases he : opCost c t u.mode u.gateBits with
    | none => simp [ht, he] at h
    | some e =>
      simp [ht, he] at h
      subst h
      exact mul_nonneg hg (opCost_nonneg _ _ _ _ _ he)

theorem optUnitCost_nonneg (c : Costs) (o : Option OpUnit) (v : ℚ)
    (hg : ∀ u, o = some u → 0 ≤ u.gateFactor) (h : optUnitCost c o = some v) : 0 ≤ v := by
  cases o with
  | none => simp [optUnitCost] at h; subst h; exact le_rfl
  | some u => exact unitCost_nonneg c u v (hg u rfl) h

/-! ## the accumulation loop of `energy_estimate` -/

theorem energyLoop_spec (c : Costs) (pl : Placement) :
    ∀ (ls : List ELayer) (res : List (String × Entry)) (tot : ℚ)
      (out : List (String × Entry) × ℚ), energyLoop c pl ls (res, tot) = some out →
      ∃ es : List Entry, List.Forall₂ (fun l e => layerEntry c pl l = some e) ls es ∧
        out.1 = res ++ List.zipWith (fun l e => (l.className, e.round)) ls es ∧
        out.2 = tot + (es.map Entry.sum).sum := by
  intro ls
  induction ls with
  | nil =>
    intro res tot out h
    simp [energyLoop] at h
    subst h
    exact ⟨[], List.Forall₂.nil, by simp, by simp⟩
  | cons l ls ih =>
    intro res tot out h
    cases he : layerEntry c pl l with
    | none => simp [energyLoop, he] at h
    | some e =>
      simp only [energyLoop, he] at h
      obtain ⟨es, hf, h1, h2⟩ := ih _ _ _ h
      refine ⟨e :: es, List.Forall₂.cons he hf, ?_, ?_⟩
      · rw [h1]; simp
      · rw [h2]; simp; ring

/-! ## op energy is non-negative -/

theorem opEnergy_nonneg (c : Costs) (l : ELayer) (v : ℚ)
    (hmul : ∀ u, l.multiplier = some u → 0 ≤ u.gateFactor)
    (hdiv : ∀ u, l.bnDivider = some u → 0 ≤ u.gateFactor)
    (hbm : ∀ u, l.bnMultiplier = some u → 0 ≤ u.gateFactor)
    (hn : 1 ≤ l.nInputs) (h : opEnergy c l = some v) : 0 ≤ v := by
  have hcnt : (0 : ℚ) ≤ (l.opCount : ℚ) := by positivity
  unfold opEnergy at h
  cases hk : eKind l.className <;> simp only [hk] at h
  · simp at h; subst h; exact le_rfl
  · -- batchNorm
    cases hd : optUnitCost c l.bnDivider with
    | none => simp [hd] at h
    | some d =>
      cases hm : optUnitCost c l.bnMultiplier with
      | none => simp [hd, hm] at h
      | some m =>
        simp [hd, hm] at h
        subst h
        have := optUnitCost_nonneg c _ d hdiv hd
        have := optUnitCost_nonneg c _ m hbm hm
        positivity
  · -- merge
    cases hu : l.multiplier with
    | none => simp [hu] at h
    | some u =>
      cases ht : opType? u.out with
      | none => simp [hu, ht] at h
      | some t =>
        cases he : opCost c t u.mode u.gateBits with
        | none => simp [hu, ht, he] at h
        | some e =>
          simp [hu, ht, he] at h
          subst h
          have h1 : (0 : ℚ) ≤ (l.nInputs : ℚ) - 1 := by
            have : (1 : ℚ) ≤ (l.nInputs : ℚ) := by exact_mod_cast hn
            linarith
          have h2 := hmul u hu
          have h3 := opCost_nonneg _ _ _ _ _ he
          positivity
  · -- avgPool
    cases ha : l.poolAccumulator with
    | none => simp [ha] at h
    | some a =>
      cases ht : opType? a with
      | none => simp [ha, ht] at h
      | some t =>
        cases he : opCost c t .add a.bits with
        | none => simp [ha, ht, he] at h
        | some e =>
          simp [ha, ht, he] at h
          subst h
          have h3 := opCost_nonneg _ _ _ _ _ he
          positivity
  · -- mac
    cases hu : l.multiplier with
    | none => simp [hu] at h
    | some u =>
      cases ha : l.accumulator with
      | none => simp [hu, ha] at h
      | some a =>
        cases hc1 : unitCost c u with
        | none => simp [hu, ha, hc1] at h
        | some c1 =>
          cases ht : opType? a with
          | none => simp [hu, ha, ht] at h
          | some t =>
            cases he : opCost c t .add a.bits with
            | none => simp [hu, ha, ht, he] at h
            | some c2 =>
              simp [hu, ha, hc1, ht, he] at h
              subst h
              have h1 := unitCost_nonneg c u c1 (hmul u hu) hc1
              have h2 := opCost_nonneg _ _ _ _ _ he
              positivity
  · simp at h; subst h; exact le_rfl

/-- the merge branch prices its operator through the same `unitCost` as the MAC and BN branches -/
theorem opEnergy_merge_unit (c : Costs) (l : ELayer) (u : OpUnit)
    (hk : eKind l.className = .merge) (hu : l.multiplier = some u) :
    opEnergy c l = (unitCost c u).map fun e => ((l.nInputs : ℚ) - 1) * (l.opCount : ℚ) * e := by
  unfold opEnergy unitCost
  simp only [hk, hu]
  cases ht : opType? u.out with
  | none => simp [ht]
  | some t =>
    cases he : opCost c t u.mode u.gateBits with
    | none => simp [ht, he]
    | some e => simp [ht, he]; ring

theorem list_sum_map_nonneg {α : Type} (l : List α) (f : α → ℚ) (h : ∀ a ∈ l, 0 ≤ f a) :
    0 ≤ (l.map f).sum := by
  apply List.sum_nonneg
  intro x hx
  obtain ⟨a, ha, rfl⟩ := List.mem_map.mp hx
  exact h a ha

end QKV.C19
