/-
  QKV.Lemmas.FixedRange — a fixed-point type as "multiples of the lsb inside [−s·2^int, 2^int)".
-/
import QKV.Lemmas.Fixed
namespace QKV

/-- `v` is an integer multiple of `2^l` -/
def IsMul (l : ℤ) (v : ℚ) : Prop := ∃ k : ℤ, v = (k : ℚ) * pow2 l

theorem isMul_zero (l : ℤ) : IsMul l 0 := ⟨0, by simp⟩

theorem isMul_add {l : ℤ} {u v : ℚ} (hu : IsMul l u) (hv : IsMul l v) : IsMul l (u + v) := by
  obtain ⟨a, rfl⟩ := hu; obtain ⟨b, rfl⟩ := hv
  exact ⟨a + b, by push_cast; ring⟩

theorem isMul_neg {l : ℤ} {u : ℚ} (hu : IsMul l u) : IsMul l (-u) := by
  obtain ⟨a, rfl⟩ := hu; exact ⟨-a, by push_cast; ring⟩

/-- a multiple of a coarser step is a multiple of every finer one -/
theorem isMul_of_le {l l' : ℤ} {u : ℚ} (h : l' ≤ l) (hu : IsMul l u) : IsMul l' u := by
  obtain ⟨a, rfl⟩ := hu
  refine ⟨a * tp (l - l'), ?_⟩
  have : pow2 l = pow2 (l - l') * pow2 l' := by rw [← pow2_add]; congr 1; ring
  rw [this]; push_cast; rw [tp_cast (by omega)]; ring

theorem isMul_pow2 {l e : ℤ} (h : l ≤ e) : IsMul l (pow2 e) :=
  isMul_of_le h ⟨1, by simp⟩

theorem isMul_list_sum {l : ℤ} {vs : List ℚ} (h : ∀ v ∈ vs, IsMul l v) : IsMul l vs.sum := by
  induction vs with
  | nil => exact isMul_zero l
  | cons a t ih =>
    rw [List.sum_cons]
    exact isMul_add (h a (by simp)) (ih (fun v hv => h v (by simp [hv])))

/-- lower end of the value range: `−2^int` when signed, else 0 -/
def loVal (i : ℤ) (s : Bool) : ℚ := if s then - pow2 i else 0

theorem loVal_nonpos (i : ℤ) (s : Bool) : loVal i s ≤ 0 := by
  unfold loVal; have := pow2_pos i; split <;> linarith

/-- characterisation of a fixed-point type by step and half-open range -/
theorem valFixed_iff {b i : ℤ} {s : Bool} (hm : 0 ≤ magBits b s) (v : ℚ) :
    ValFixed b i s v ↔ IsMul (fixedLsb b i s) v ∧ loVal i s ≤ v ∧ v < pow2 i := by
  have hi : i = magBits b s + fixedLsb b i s := by simp only [magBits, fixedLsb]; ring
  have hp : pow2 i = (tp (magBits b s) : ℚ) * pow2 (fixedLsb b i s) := by
    have h := pow2_add (magBits b s) (fixedLsb b i s)
    rw [← hi, ← tp_cast hm] at h
    exact h
  have hl := pow2_pos (fixedLsb b i s)
  constructor
  · rintro ⟨k, h1, h2, rfl⟩
    obtain ⟨h1, h2⟩ := code_bounds h1 h2
    refine ⟨⟨k, rfl⟩, ?_, ?_⟩
    · unfold loVal
      cases s
      · simp only [Bool.false_eq_true, if_false] at h1 ⊢
        have : (0 : ℚ) ≤ k := by exact_mod_cast h1
        positivity
      · simp only [if_true] at h1 ⊢
        rw [hp]
        have : (-(tp (magBits b true)) : ℚ) ≤ k := by exact_mod_cast h1
        nlinarith
    · rw [hp]
      have : (k : ℚ) ≤ tp (magBits b s) - 1 := by exact_mod_cast h2
      nlinarith
  · rintro ⟨⟨k, rfl⟩, h1, h2⟩
    refine ⟨k, ?_, ?_, rfl⟩
    · rw [fixedLo_eq]
      unfold loVal at h1
      cases s
      · simp only [Bool.false_eq_true, if_false] at h1 ⊢
        have : (0 : ℚ) ≤ k := by
          by_contra hc; push Not at hc; nlinarith
        exact_mod_cast this
      · simp only [if_true] at h1 ⊢
        rw [hp] at h1
        have : (-(tp (magBits b true)) : ℚ) ≤ k := by
          by_contra hc; push Not at hc; nlinarith
        exact_mod_cast this
    · rw [fixedHi_eq]
      rw [hp] at h2
      have : (k : ℚ) < tp (magBits b s) := by
        by_contra hc; push Not at hc; nlinarith
      have : k < tp (magBits b s) := by exact_mod_cast this
      omega

end QKV
