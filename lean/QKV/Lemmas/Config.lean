/-
  QKV.Lemmas.Config — association-list facts and the closed form of
  `from_config(get_config(q))` used by Props/C09 and Props/C10.
-/
import Mathlib.Tactic
import QKV.Model.Config
namespace QKV.Py

/-! ### association lists -/

theorem Env.get_cons_self (k : String) (v : PyVal) (t : Env) : Env.get ((k, v) :: t) k = v := by
  simp [Env.get, List.lookup]

theorem Env.get_cons_ne {k k' : String} (h : k' ≠ k) (v : PyVal) (t : Env) :
    Env.get ((k, v) :: t) k' = Env.get t k' := by
  have : (k' == k) = false := by simpa using h
  simp [Env.get, List.lookup, this]

theorem Env.get_of_mem {e : Env} (hn : e.keys.Nodup) {p : String × PyVal} (hp : p ∈ e) :
    e.get p.1 = p.2 := by
  induction e with
  | nil => cases hp
  | cons a t ih =>
    obtain ⟨k, v⟩ := a
    simp only [Env.keys, List.map_cons, List.nodup_cons] at hn
    rcases List.mem_cons.1 hp with rfl | hp
    · exact Env.get_cons_self _ _ _
    · have hne : p.1 ≠ k := by
        intro h; apply hn.1; rw [← h]; exact List.mem_map_of_mem hp
      rw [Env.get_cons_ne hne]; exact ih hn.2 hp

theorem Env.eta {e : Env} (hn : e.keys.Nodup) : (e.map fun p => (p.1, e.get p.1)) = e := by
  conv_rhs => rw [← List.map_id e]
  apply List.map_congr_left
  intro p hp
  rw [Env.get_of_mem hn hp]; rfl

theorem Env.keys_set (e : Env) (k : String) (v : PyVal) : (e.set k v).keys = e.keys := by
  induction e with
  | nil => rfl
  | cons a t ih =>
    simp only [Env.set, Env.keys, List.map_cons, List.map_map] at ih ⊢
    refine congrArg₂ _ ?_ ih
    split <;> rfl

theorem Env.get_set_ne {k k' : String} (h : k' ≠ k) (e : Env) (v : PyVal) :
    (e.set k v).get k' = e.get k' := by
  induction e with
  | nil => rfl
  | cons a t ih =>
    obtain ⟨ka, va⟩ := a
    by_cases hk : ka = k
    · subst hk
      have : (ka == ka) = true := by simp
      simp only [Env.set, List.map_cons, this, if_true]
      rw [Env.get_cons_ne h, Env.get_cons_ne h]; exact ih
    · have h1 : (ka == k) = false := by simpa using hk
      simp only [Env.set, List.map_cons, h1, Bool.false_eq_true, if_false]
      by_cases hk' : k' = ka
      · subst hk'; simp [Env.get_cons_self]
      · rw [Env.get_cons_ne hk', Env.get_cons_ne hk']; exact ih

theorem Env.get_set_self {k : String} {e : Env} (h : k ∈ e.keys) (v : PyVal) :
    (e.set k v).get k = v := by
  induction e with
  | nil => cases h
  | cons a t ih =>
    obtain ⟨ka, va⟩ := a
    by_cases hk : ka = k
    · subst hk
      have : (ka == ka) = true := by simp
      simp only [Env.set, List.map_cons, this, if_true]
      exact Env.get_cons_self _ _ _
    · have h1 : (ka == k) = false := by simpa using hk
      simp only [Env.set, List.map_cons, h1, Bool.false_eq_true, if_false]
      have hk' : k ≠ ka := fun h => hk h.symm
      rw [Env.get_cons_ne hk']
      apply ih
      simp only [Env.keys, List.map_cons, List.mem_cons] at h
      rcases h with h | h
      · exact absurd h hk'
      · exact h

theorem Env.set_set (e : Env) (k : String) (v : PyVal) : (e.set k v).set k v = e.set k v := by
  induction e with
  | nil => rfl
  | cons a t ih =>
    simp only [Env.set, List.map_cons, List.map_map] at ih ⊢
    refine congrArg₂ _ ?_ ih
    by_cases h : (a.1 == k) = true <;> simp [h]

theorem lookup_map_val {α : Type} (g : String × α → PyVal) (ps : List (String × α)) (k : String) :
    (ps.map fun p => (p.1, g p)).lookup k = (ps.find? fun p => p.1 == k).map g := by
  induction ps with
  | nil => rfl
  | cons a t ih =>
    by_cases h : a.1 = k
    · subst h; simp [List.find?]
    · have h1 : (k == a.1) = false := by simpa using fun h' => h h'.symm
      have h2 : (a.1 == k) = false := by simpa using h
      simp [List.lookup, List.find?, h1, h2, ih]

theorem find_of_mem {α : Type} {ps : List (String × α)} (hn : (ps.map Prod.fst).Nodup)
    {p : String × α} (hp : p ∈ ps) : (ps.find? fun r => r.1 == p.1) = some p := by
  induction ps with
  | nil => cases hp
  | cons a t ih =>
    simp only [List.map_cons, List.nodup_cons] at hn
    rcases List.mem_cons.1 hp with rfl | hp
    · simp [List.find?]
    · have hne : a.1 ≠ p.1 := by
        intro h; apply hn.1; rw [h]; exact List.mem_map_of_mem hp
      have : (a.1 == p.1) = false := by simpa using hne
      simp only [List.find?, this]; exact ih hn.2 hp

theorem find_none_of_not_mem {α : Type} {ps : List (String × α)} {k : String}
    (h : k ∉ ps.map Prod.fst) : (ps.find? fun r => r.1 == k) = none := by
  rw [List.find?_eq_none]
  intro p hp hk
  apply h
  have : p.1 = k := by simpa using hk
  rw [← this]; exact List.mem_map_of_mem hp

/-- value stored under a parameter name after mapping over the parameter table -/
theorem get_map_params {ps : List (String × PyVal)} (hn : (ps.map Prod.fst).Nodup)
    (g : String × PyVal → PyVal) {p : String × PyVal} (hp : p ∈ ps) :
    Env.get (ps.map fun p => (p.1, g p)) p.1 = g p := by
  simp [Env.get, lookup_map_val, find_of_mem hn hp]

/-! ### static facts about the tables (finite, by evaluation) -/

theorem paramNames_nodup (c : Cls) : (paramNames c).Nodup := by cases c <;> decide

theorem params_keys_nodup (c : Cls) : (Env.keys (params c)).Nodup := paramNames_nodup c

/-- every class emits only constructor parameters of its own (since the fix round also
    `quantized_hswish`, whose inherited config used to carry `keep_negative`) -/
theorem cfgClosed_all (c : Cls) : cfgClosed c = true := by
  cases c <;> decide

theorem serialised_nodup (c : Cls) : (serialised c).Nodup := by cases c <;> decide

/-! ### binding -/

theorem bindPos_nil (ps : List (String × PyVal)) (kw : Env) :
    bindPos ps [] kw = ps.map fun p => (p.1, (kw.lookup p.1).getD p.2) := by
  induction ps with
  | nil => rfl
  | cons a t ih => obtain ⟨k, d⟩ := a; simp [bindPos, ih]

theorem bindPos_keys (ps : List (String × PyVal)) (args : List PyVal) (kw : Env) :
    Env.keys (bindPos ps args kw) = ps.map Prod.fst := by
  induction ps generalizing args with
  | nil => cases args <;> rfl
  | cons a t ih =>
    obtain ⟨k, d⟩ := a
    cases args with
    | nil => simp only [bindPos, Env.keys, List.map_cons]; exact congrArg _ (ih [])
    | cons x xs => simp only [bindPos, Env.keys, List.map_cons]; exact congrArg _ (ih xs)

theorem bind_ok_keys {ps : List (String × PyVal)} {args : List PyVal} {kw e : Env}
    (h : bind ps args kw = .ok e) : e.keys = ps.map Prod.fst := by
  unfold bind at h
  simp only at h
  split at h; · cases h
  split at h; · cases h
  split at h; · cases h
  cases h
  exact bindPos_keys _ _ _

theorem lookup_getConfig (q : Q) (k : String) :
    (getConfig q).lookup k = ((cfgSpec q.cls).lookup k).map fun src =>
      match src with
      | .attr => q.env.get k
      | .const v => v := by
  unfold getConfig
  induction cfgSpec q.cls with
  | nil => rfl
  | cons a t ih =>
    obtain ⟨ka, src⟩ := a
    by_cases h : k = ka
    · subst h; cases src <;> simp [List.lookup]
    · have h1 : (k == ka) = false := by simpa using h
      simp only [List.map_cons, List.lookup, h1]
      exact ih

/-- binding the emitted configuration as keywords -/
theorem bind_getConfig (q : Q) :
    bind (params q.cls) [] (getConfig q) =
      if cfgClosed q.cls then .ok (forget q.cls q.env) else .error .typeError := by
  have hany : ((getConfig q).any fun p => !((params q.cls).map Prod.fst).contains p.1)
      = !cfgClosed q.cls := by
    simp only [getConfig, cfgClosed, serialised, paramNames, List.any_map,
      List.all_eq_not_any_not, Bool.not_not]
    rfl
  have hpos : ((getConfig q).any fun p =>
      ((((params q.cls).map Prod.fst).take ([] : List PyVal).length).contains p.1)) = false := by
    simp
  have hbody : bindPos (params q.cls) [] (getConfig q) = forget q.cls q.env := by
    rw [bindPos_nil]
    unfold forget
    apply List.map_congr_left
    intro p _
    rw [lookup_getConfig]
    cases h : (cfgSpec q.cls).lookup p.1 with
    | none => rfl
    | some src => cases src <;> rfl
  unfold bind
  simp only [List.length_nil, Nat.not_lt_zero, if_false, hany] at hpos ⊢
  cases hc : cfgClosed q.cls
  · simp
  · simp only [Bool.not_true, Bool.false_eq_true, if_false, if_true, hpos, hbody]

/-! ### the constructor body -/

theorem norm_keys (c : Cls) (e : Env) : (normInit c e).keys = e.keys := by
  cases c <;> simp only [normInit] <;> (split <;> [exact Env.keys_set _ _ _; rfl])

theorem norm_norm (c : Cls) (e : Env) : normInit c (normInit c e) = normInit c e := by
  have key : ∀ e : Env, (if (e.get "alpha").isStr then e.set "symmetric" (.bool true) else e) =
      normInit .quantized_bits e := fun _ => rfl
  have hb : normInit .quantized_bits (normInit .quantized_bits e) = normInit .quantized_bits e := by
    simp only [normInit]
    by_cases h : (e.get "alpha").isStr = true
    · have h2 : ((e.set "symmetric" (.bool true)).get "alpha").isStr = true := by
        rw [Env.get_set_ne (by decide)]; exact h
      simp only [h, if_true, h2, Env.set_set]
    · simp [h]
  cases c <;> first | rfl | exact hb

theorem check_norm (c : Cls) (e : Env) : check c (normInit c e) = check c e := by
  cases c <;> try rfl
  · -- quantized_bits: the check reads alpha and post_training_scale only
    simp only [normInit]
    split
    · simp only [check, Env.get_set_ne (show "alpha" ≠ "symmetric" by decide),
        Env.get_set_ne (show "post_training_scale" ≠ "symmetric" by decide)]
    · rfl

theorem init_ok_inv {c : Cls} {e : Env} {q : Q} (h : init c e = .ok q) :
    check c e = none ∧ q = ⟨c, normInit c e⟩ := by
  unfold init at h
  split at h
  · cases h
  · rename_i hc; cases h; exact ⟨hc, rfl⟩

/-- a constructed instance is a fixed point of the constructor body, with exactly the
    signature's keys -/
theorem construct_fixed {c : Cls} {args : List PyVal} {kw : Env} {q : Q}
    (h : construct c args kw = .ok q) :
    q.cls = c ∧ q.env.keys = paramNames c ∧ init c q.env = .ok q := by
  unfold construct at h
  split at h
  · cases h
  · rename_i e hb
    obtain ⟨hc, rfl⟩ := init_ok_inv h
    refine ⟨rfl, ?_, ?_⟩
    · show (normInit c e).keys = _
      rw [norm_keys]; exact bind_ok_keys hb
    · show init c (normInit c e) = _
      unfold init
      rw [check_norm, hc, norm_norm]

theorem fromConfig_getConfig (q : Q) :
    fromConfig q.cls (getConfig q) = init q.cls (forget q.cls q.env) := by
  unfold fromConfig construct
  rw [bind_getConfig, cfgClosed_all, if_pos rfl]

/-! ### what the rebuilt arguments are -/

theorem mem_of_lookup {α : Type} {l : List (String × α)} {k : String} {v : α}
    (h : l.lookup k = some v) : (k, v) ∈ l := by
  induction l with
  | nil => cases h
  | cons a t ih =>
    obtain ⟨ka, va⟩ := a
    by_cases hk : k = ka
    · subst hk; simp [List.lookup] at h; subst h; exact List.mem_cons_self
    · have h1 : (k == ka) = false := by simpa using hk
      simp only [List.lookup, h1] at h
      exact List.mem_cons_of_mem _ (ih h)

theorem lookup_none_of_not_mem {α : Type} {l : List (String × α)} {k : String}
    (h : k ∉ l.map Prod.fst) : l.lookup k = none := by
  induction l with
  | nil => rfl
  | cons a t ih =>
    obtain ⟨ka, va⟩ := a
    simp only [List.map_cons, List.mem_cons, not_or] at h
    have h1 : (k == ka) = false := by simpa using h.1
    simp only [List.lookup, h1]; exact ih h.2

theorem lookup_isSome_of_mem {α : Type} {l : List (String × α)} {k : String}
    (h : k ∈ l.map Prod.fst) : ∃ v, l.lookup k = some v := by
  induction l with
  | nil => cases h
  | cons a t ih =>
    obtain ⟨ka, va⟩ := a
    by_cases hk : k = ka
    · subst hk; exact ⟨va, by simp [List.lookup]⟩
    · have h1 : (k == ka) = false := by simpa using hk
      simp only [List.map_cons, List.mem_cons] at h
      rcases h with h | h
      · exact absurd h hk
      · obtain ⟨v, hv⟩ := ih h; exact ⟨v, by simp only [List.lookup, h1]; exact hv⟩

theorem cfg_all_attr (c : Cls) : ∀ p ∈ cfgSpec c, p.2 = CfgSrc.attr := by
  cases c <;> decide

theorem mem_params_of_name {c : Cls} {k : String} (h : k ∈ paramNames c) :
    (k, defaultOf c k) ∈ params c := by
  obtain ⟨p, hp, rfl⟩ := List.mem_map.1 h
  have : defaultOf c p.1 = p.2 := Env.get_of_mem (params_keys_nodup c) hp
  rw [this]; exact hp

theorem forget_get {c : Cls} (e : Env) {k : String} (h : k ∈ paramNames c) :
    (forget c e).get k = match (cfgSpec c).lookup k with
      | some .attr => e.get k
      | some (.const v) => v
      | none => defaultOf c k := by
  have hp := mem_params_of_name h
  unfold forget
  exact get_map_params (paramNames_nodup c) _ hp

theorem forget_get_serialised {c : Cls} (e : Env) {k : String}
    (h : k ∈ paramNames c) (hs : k ∈ serialised c) : (forget c e).get k = e.get k := by
  rw [forget_get e h]
  obtain ⟨v, hv⟩ := lookup_isSome_of_mem hs
  have := cfg_all_attr c _ (mem_of_lookup hv)
  simp only at this
  subst this
  rw [hv]

theorem mem_dropped {c : Cls} {k : String} :
    k ∈ dropped c ↔ k ∈ paramNames c ∧ k ∉ serialised c := by
  simp [dropped, List.mem_filter]

theorem forget_get_dropped {c : Cls} (e : Env) {k : String} (h : k ∈ dropped c) :
    (forget c e).get k = defaultOf c k := by
  obtain ⟨h1, h2⟩ := mem_dropped.1 h
  rw [forget_get e h1, lookup_none_of_not_mem h2]

theorem forget_eq_self {c : Cls} {e : Env}
    (hk : e.keys = paramNames c) (hd : ∀ k ∈ dropped c, e.get k = defaultOf c k) :
    forget c e = e := by
  have hn : e.keys.Nodup := hk ▸ paramNames_nodup c
  have h1 : forget c e = (params c).map fun p => (p.1, e.get p.1) := by
    unfold forget
    apply List.map_congr_left
    intro p hp
    congr 1
    have hpn : p.1 ∈ paramNames c := List.mem_map_of_mem hp
    cases hl : (cfgSpec c).lookup p.1 with
    | none =>
      have hdr : p.1 ∈ dropped c := by
        refine mem_dropped.2 ⟨hpn, fun hs => ?_⟩
        obtain ⟨v, hv⟩ := lookup_isSome_of_mem hs
        rw [hv] at hl; cases hl
      rw [hd _ hdr]
      exact (Env.get_of_mem (params_keys_nodup c) hp).symm
    | some src =>
      have := cfg_all_attr c _ (mem_of_lookup hl)
      simp only at this
      subst this; rfl
  rw [h1]
  have h2 : ((params c).map fun p => (p.1, e.get p.1)) = (paramNames c).map fun k => (k, e.get k) := by
    simp [paramNames, List.map_map, Function.comp_def]
  rw [h2, ← hk]
  have := Env.eta hn
  simpa [Env.keys, List.map_map, Function.comp_def] using this

/-- every emitted key is a constructor parameter -/
theorem serialised_sub {c : Cls} {k : String} (h : k ∈ serialised c) : k ∈ paramNames c := by
  have := cfgClosed_all c
  simp only [cfgClosed, List.all_eq_true] at this
  simpa using this k h

/-- the argument checks of `__init__` read serialised options only, so they give the same
    verdict on the rebuilt arguments -/
theorem check_forget (c : Cls) (e : Env) : check c (forget c e) = check c e := by
  cases c <;> rfl

theorem forget_keys (c : Cls) (e : Env) : (forget c e).keys = paramNames c := by
  simp [forget, Env.keys, paramNames, List.map_map, Function.comp_def]

end QKV.Py
