/-
  QKV.Lemmas.Print — the repaired `__str__` puts every option in its own slot:
  binding the values the printed flags denote (positional flags in order, keyword flags by name)
  with Python's call binding gives, for every option `__str__` can express, an argument that is
  `==` the option of the printed quantizer.  Used by Props/C10.
-/
import Mathlib.Tactic
import QKV.Lemmas.Parse
namespace QKV.Py

/-! ### Python `==` on literals -/

theorem PyVal.pyEq_refl (v : PyVal) : v.pyEq v = true := by
  unfold PyVal.pyEq
  split
  · rename_i x y hx hy
    rw [hx] at hy
    cases hy
    exact beq_self_eq_true x
  · exact beq_self_eq_true v

/-! ### local correctness of one `__str__` statement -/

/-- for option value `v` with default `d`: the value the printed text denotes is `==` the
    option (for a keyword flag: when it is printed), and an option whose condition does not
    hold is `==` its default.  `pos`: positional flag (printed also as a slot filler). -/
def semOK (d : PyVal) (pos : Bool) (s : FlagSpec) (v : PyVal) : Bool :=
  (match s.conv.apply v with
   | .ok r => !(pos || s.cond.holds v) || r.1.pyEq v
   | .error _ => true) &&
  (s.cond.holds v || d.pyEq v)

/-- an always-printed `str(x)` flag is locally correct for every value -/
theorem semOK_always_str (d : PyVal) (n : String) (v : PyVal) :
    semOK d true ⟨n, .always, .str⟩ v = true := by
  simp [semOK, Conv.apply, Cond.holds, PyVal.pyEq_refl]

/-- every statement of `str(q)` is locally correct for the options `q` holds -/
def Typed (q : Q) : Prop :=
  (∀ s ∈ posSpec q.cls, semOK (defaultOf q.cls s.name) true s (q.get s.name) = true) ∧
  (∀ s ∈ kwSpec q.cls, semOK (defaultOf q.cls s.name) false s (q.get s.name) = true)

instance (q : Q) : Decidable (Typed q) := by unfold Typed; infer_instance

/-! ### an omitted option is at the default of ITS OWN class -/

/-- `v == c` and `c == d` give `d == v` (Python `==` on literals) -/
theorem PyVal.pyEq_chain (v c d : PyVal) (h1 : v.pyEq c = true) (h2 : c.pyEq d = true) :
    d.pyEq v = true := by
  unfold PyVal.pyEq at h1 h2 ⊢
  cases hv : v.numVal <;> cases hc : c.numVal <;> cases hd : d.numVal <;>
    simp only [hv, hc, hd] at h1 h2 ⊢
  · have e1 := eq_of_beq h1; have e2 := eq_of_beq h2; subst e1; subst e2; exact beq_self_eq_true _
  · have e2 := eq_of_beq h2; subst e2; rw [hc] at hd; cases hd
  · have e1 := eq_of_beq h1; subst e1; rw [hv] at hc; cases hc
  · have e1 := eq_of_beq h1; subst e1; rw [hv] at hc; cases hc
  · have e1 := eq_of_beq h1; subst e1; rw [hv] at hc; cases hc
  · have e1 := eq_of_beq h1; subst e1; rw [hv] at hc; cases hc
  · have e2 := eq_of_beq h2; subst e2; rw [hc] at hd; cases hd
  · have e1 := eq_of_beq h1; have e2 := eq_of_beq h2; subst e1; subst e2; exact beq_self_eq_true _

theorem PyVal.eq_none_of_isNone (v : PyVal) (h : v.isNone = true) : v = .none := by
  cases v <;> first | rfl | cases h

/-- a falsy number (False, 0, 0.0) has numeric value 0 -/
theorem PyVal.numVal_of_falsy (v : PyVal) (x : Rat) (h : v.numVal = some x) (hf : v.truthy = false) :
    x = 0 := by
  cases v with
  | none => cases h
  | bool b =>
    simp only [PyVal.truthy] at hf
    subst hf
    simp only [PyVal.numVal, Bool.false_eq_true, if_false, Option.some.injEq] at h
    exact h.symm
  | int i =>
    simp only [PyVal.truthy, bne_eq_false_iff_eq] at hf
    subst hf
    simp only [PyVal.numVal, Option.some.injEq] at h
    rw [← h]; rfl
  | float q =>
    simp only [PyVal.truthy, bne_eq_false_iff_eq] at hf
    subst hf
    simp only [PyVal.numVal, Option.some.injEq] at h
    exact h.symm
  | str s => cases h
  | list l => cases h

/-- **what a statement omits is the default.**  A condition anchored at `d` does not hold for a
    value `v` (of a kind the truthiness tests can judge) only if `d == v`. -/
theorem omitted_eq_default (d v : PyVal) (c : Cond) (ha : c.anchored d = true)
    (hk : c.kindOK d v = true) (hc : c.holds v = false) : d.pyEq v = true := by
  cases c with
  | always => cases hc
  | truthy =>
    simp only [Cond.holds] at hc
    simp only [Cond.anchored, Bool.not_eq_true'] at ha
    simp only [Cond.kindOK, hc, Bool.false_or] at hk
    by_cases hd : d.isNone = true
    · rw [if_pos hd] at hk
      rw [PyVal.eq_none_of_isNone d hd, PyVal.eq_none_of_isNone v hk]
      rfl
    · rw [if_neg hd, Bool.and_eq_true] at hk
      obtain ⟨h1, h2⟩ := hk
      obtain ⟨x, hx⟩ := Option.isSome_iff_exists.1 h1
      obtain ⟨y, hy⟩ := Option.isSome_iff_exists.1 h2
      have ex := PyVal.numVal_of_falsy d x hx ha
      have ey := PyVal.numVal_of_falsy v y hy hc
      unfold PyVal.pyEq
      simp only [hx, hy, ex, ey]
      rfl
  | falsy =>
    simp only [Cond.holds, Bool.not_eq_false'] at hc
    simp only [Cond.anchored, beq_iff_eq] at ha
    simp only [Cond.kindOK, hc, Bool.not_true, Bool.false_or, beq_iff_eq] at hk
    unfold PyVal.pyEq
    simp only [ha, hk]
    rfl
  | notNone =>
    simp only [Cond.holds, Bool.not_eq_false'] at hc
    simp only [Cond.anchored] at ha
    rw [PyVal.eq_none_of_isNone d ha, PyVal.eq_none_of_isNone v hc]
    rfl
  | ne c =>
    simp only [Cond.holds, Bool.not_eq_false'] at hc
    simp only [Cond.anchored] at ha
    exact PyVal.pyEq_chain v c d hc ha

/-- every statement of every `__str__` is anchored at the constructor default of its own class
    (finite table check against the signatures of `Model/Config.lean`, which the tie compares with
    `inspect.signature` of the live classes on every run) -/
theorem anchored_all (c : Cls) :
    ∀ s ∈ posSpec c ++ kwSpec c, s.cond.anchored (defaultOf c s.name) = true := by
  have h : ((posSpec c ++ kwSpec c).all fun s => s.cond.anchored (defaultOf c s.name)) = true := by
    cases c <;> decide +kernel
  exact fun s hs => List.all_eq_true.1 h s hs

/-- the printed text denotes the value (first half of `semOK`) -/
def denotesOK (pos : Bool) (s : FlagSpec) (v : PyVal) : Bool :=
  match s.conv.apply v with
  | .ok r => !(pos || s.cond.holds v) || r.1.pyEq v
  | .error _ => true

theorem semOK_split (d : PyVal) (pos : Bool) (s : FlagSpec) (v : PyVal) :
    semOK d pos s v = (denotesOK pos s v && (s.cond.holds v || d.pyEq v)) := rfl

/-- the conversions that denote the value itself (`str(x)`, quoted, list text) are always right -/
theorem denotesOK_id (pos : Bool) (s : FlagSpec) (v : PyVal)
    (h : s.conv = .str ∨ s.conv = .alpha ∨ s.conv = .quoted ∨ s.conv = .intOrList) :
    denotesOK pos s v = true := by
  unfold denotesOK
  rcases h with h | h | h | h <;> simp [h, Conv.apply, PyVal.pyEq_refl]

/-- every printed text of `str(q)` denotes a value `==` the option it prints -/
def Denotes (q : Q) : Prop :=
  (∀ s ∈ posSpec q.cls, denotesOK true s (q.get s.name) = true) ∧
  (∀ s ∈ kwSpec q.cls, denotesOK false s (q.get s.name) = true)

/-- every option tested for truthiness holds a value of a kind that test can judge -/
def Kinded (q : Q) : Prop :=
  ∀ s ∈ posSpec q.cls ++ kwSpec q.cls, s.cond.kindOK (defaultOf q.cls s.name) (q.get s.name) = true

instance (q : Q) : Decidable (Denotes q) := by unfold Denotes; infer_instance
instance (q : Q) : Decidable (Kinded q) := by unfold Kinded; infer_instance

/-- `Typed` no longer needs "omitted ⇒ default" as a hypothesis: it follows from the tables -/
theorem typed_of_denotes (q : Q) (hd : Denotes q) (hk : Kinded q) : Typed q := by
  refine ⟨fun s hs => ?_, fun s hs => ?_⟩
  · rw [semOK_split, hd.1 s hs, Bool.true_and]
    have hm : s ∈ posSpec q.cls ++ kwSpec q.cls := List.mem_append_left _ hs
    cases hc : s.cond.holds (q.get s.name) with
    | true => rfl
    | false => exact omitted_eq_default _ _ _ (anchored_all q.cls s hm) (hk s hm) hc
  · rw [semOK_split, hd.2 s hs, Bool.true_and]
    have hm : s ∈ posSpec q.cls ++ kwSpec q.cls := List.mem_append_right _ hs
    cases hc : s.cond.holds (q.get s.name) with
    | true => rfl
    | false => exact omitted_eq_default _ _ _ (anchored_all q.cls s hm) (hk s hm) hc

/-! ### the tables agree with the constructor signatures -/

/-- positional flags are the first constructor parameters in order; keyword flags are distinct
    later parameters -/
def tablesOK (c : Cls) : Bool :=
  let n := (posSpec c).length
  ((posSpec c).map (·.name) == (paramNames c).take n) &&
  ((kwSpec c).all fun s => ((paramNames c).drop n).contains s.name) &&
  ((kwSpec c).all fun s => !((paramNames c).take n).contains s.name) &&
  decide ((kwSpec c).map (·.name)).Nodup && decide (paramNames c).Nodup

theorem tablesOK_all (c : Cls) : tablesOK c = true := by
  cases c <;> decide +kernel

/-! ### positional flags -/

theorem posFlags_cons_inv (g : String → PyVal) (s : FlagSpec) (rest : List FlagSpec)
    (fl : List Flag) (h : posFlags g (s :: rest) = .ok fl) :
    ∃ tl, posFlags g rest = .ok tl ∧
      ((fl = [] ∧ tl = [] ∧ s.cond.holds (g s.name) = false) ∨
       ∃ r, s.conv.apply (g s.name) = .ok r ∧ fl = ⟨none, r.1, r.2⟩ :: tl) := by
  unfold posFlags at h
  cases htl : posFlags g rest with
  | error e => rw [htl] at h; cases h
  | ok tl =>
    rw [htl] at h
    refine ⟨tl, rfl, ?_⟩
    simp only at h
    by_cases hc : (s.cond.holds (g s.name) || !tl.isEmpty) = true
    · rw [if_pos hc] at h
      unfold mkFlag at h
      cases hr : s.conv.apply (g s.name) with
      | error e => rw [hr] at h; cases h
      | ok r =>
        rw [hr] at h
        simp only [Except.ok.injEq] at h
        exact Or.inr ⟨r, rfl, h.symm⟩
    · rw [if_neg hc] at h
      simp only [Except.ok.injEq] at h
      have hc' : (s.cond.holds (g s.name) || !tl.isEmpty) = false := by simpa using hc
      rw [Bool.or_eq_false_iff] at hc'
      have h3 : tl = [] := by
        cases tl with
        | nil => rfl
        | cons _ _ => have := hc'.2; simp at this
      exact Or.inl ⟨h.symm, h3, hc'.1⟩

theorem bindPos_nil (ps : List (String × PyVal)) (kw : Env) :
    bindPos ps [] kw = ps.map fun p => (p.1, (kw.lookup p.1).getD p.2) := by
  induction ps with
  | nil => rfl
  | cons p t ih =>
    obtain ⟨k, d⟩ := p
    simp only [bindPos, List.map_cons, ih]

theorem lookup_none_of_not_mem_keys (kw : Env) (k : String) (h : k ∉ kw.keys) :
    kw.lookup k = Option.none := by
  induction kw with
  | nil => rfl
  | cons p t ih =>
    obtain ⟨k', v⟩ := p
    simp only [Env.keys, List.map_cons, List.mem_cons, not_or] at h
    have hne : (k == k') = false := by simpa using h.1
    simp only [List.lookup, hne]
    exact ih (by simpa [Env.keys] using h.2)

/-- **positional slots.**  `specs` aligned with the parameter prefix `pp` (same names, local
    correctness w.r.t. the parameter's default): binding the printed positional values gives,
    for every positional parameter, an argument `==` the option — whether the flag was printed
    (possibly as a slot filler) or left to its default -/
theorem posFlags_bind (g : String → PyVal) (kw : Env) (ps' : List (String × PyVal)) :
    ∀ (specs : List FlagSpec) (pp : List (String × PyVal)) (fl : List Flag),
      List.Forall₂ (fun s p => p.1 = s.name ∧ semOK p.2 true s (g s.name) = true) specs pp →
      posFlags g specs = .ok fl → (∀ s ∈ specs, s.name ∉ kw.keys) →
      ∃ pre, bindPos (pp ++ ps') (fl.map (·.val)) kw = pre ++ bindPos ps' [] kw ∧
        List.Forall₂ (fun s p => p.1 = s.name ∧ p.2.pyEq (g s.name) = true) specs pre ∧
        fl.length ≤ specs.length ∧ (∀ f ∈ fl, f.key = none) := by
  intro specs
  induction specs with
  | nil =>
    intro pp fl hR hfl _
    cases hR
    simp only [posFlags, Except.ok.injEq] at hfl
    subst hfl
    exact ⟨[], by simp, List.Forall₂.nil, by simp, by simp⟩
  | cons s ss ih =>
    intro pp fl hR hfl hkw
    cases hR with
    | cons hsp hrest =>
      rename_i p pt
      obtain ⟨k, d⟩ := p
      obtain ⟨hk, hsem⟩ := hsp
      simp only at hk hsem
      subst hk
      obtain ⟨tl, htl, hcase⟩ := posFlags_cons_inv g s ss fl hfl
      have hkw' : ∀ s' ∈ ss, s'.name ∉ kw.keys := fun s' hs' => hkw s' (List.mem_cons_of_mem _ hs')
      unfold semOK at hsem
      simp only [Bool.and_eq_true] at hsem
      rcases hcase with ⟨rfl, rfl, hc⟩ | ⟨r, hr, rfl⟩
      · -- nothing printed from here on: every remaining positional option is at its default
        obtain ⟨pre, hb, hpre, _, _⟩ := ih pt [] hrest htl hkw'
        refine ⟨(s.name, d) :: pre, ?_, ?_, by simp, by simp⟩
        · have hl : kw.lookup s.name = Option.none :=
            lookup_none_of_not_mem_keys kw s.name (hkw s List.mem_cons_self)
          simp only [List.map_nil, List.cons_append, bindPos, hl, Option.getD_none] at hb ⊢
          rw [hb]
        · refine List.Forall₂.cons ⟨rfl, ?_⟩ hpre
          have := hsem.2
          simpa [hc] using this
      · obtain ⟨pre, hb, hpre, hlen, hkeys⟩ := ih pt tl hrest htl hkw'
        refine ⟨(s.name, r.1) :: pre, ?_, ?_, by simpa using hlen, ?_⟩
        · simp only [List.map_cons, List.cons_append, bindPos, hb]
        · refine List.Forall₂.cons ⟨rfl, ?_⟩ hpre
          have := hsem.1
          rw [hr] at this
          simpa using this
        · intro f hf
          rcases List.mem_cons.1 hf with rfl | hf
          · rfl
          · exact hkeys f hf

/-! ### keyword flags -/

theorem kwFlags_cons_inv (g : String → PyVal) (s : FlagSpec) (rest : List FlagSpec)
    (fl : List Flag) (h : kwFlags g (s :: rest) = .ok fl) :
    ∃ tl, kwFlags g rest = .ok tl ∧
      ((fl = tl ∧ s.cond.holds (g s.name) = false) ∨
       (s.cond.holds (g s.name) = true ∧
        ∃ r, s.conv.apply (g s.name) = .ok r ∧ fl = ⟨some s.name, r.1, r.2⟩ :: tl)) := by
  unfold kwFlags at h
  cases htl : kwFlags g rest with
  | error e => rw [htl] at h; cases h
  | ok tl =>
    rw [htl] at h
    refine ⟨tl, rfl, ?_⟩
    simp only at h
    by_cases hc : s.cond.holds (g s.name) = true
    · rw [if_pos hc] at h
      unfold mkFlag at h
      cases hr : s.conv.apply (g s.name) with
      | error e => rw [hr] at h; cases h
      | ok r =>
        rw [hr] at h
        simp only [Except.ok.injEq] at h
        exact Or.inr ⟨hc, r, rfl, h.symm⟩
    · rw [if_neg hc] at h
      simp only [Except.ok.injEq] at h
      exact Or.inl ⟨h.symm, by simpa using hc⟩

/-- the keyword flags printed for `specs`: keys among the spec names, all of them keyword flags,
    and for every spec the looked-up value is the printed one (condition holds) or absent -/
theorem kwFlags_lookup (g : String → PyVal) :
    ∀ (specs : List FlagSpec) (fl : List Flag), kwFlags g specs = .ok fl →
      (specs.map (·.name)).Nodup →
      (∀ f ∈ fl, ∃ s ∈ specs, f.key = some s.name) ∧
      (∀ s ∈ specs,
        (s.cond.holds (g s.name) = false ∧ (kwVals fl).lookup s.name = Option.none) ∨
        (s.cond.holds (g s.name) = true ∧
          ∃ r, s.conv.apply (g s.name) = .ok r ∧ (kwVals fl).lookup s.name = some r.1)) := by
  intro specs
  induction specs with
  | nil =>
    intro fl h _
    simp only [kwFlags, Except.ok.injEq] at h
    subst h
    exact ⟨by simp, by simp⟩
  | cons s ss ih =>
    intro fl h hnd
    obtain ⟨tl, htl, hcase⟩ := kwFlags_cons_inv g s ss fl h
    have hnd' : (ss.map (·.name)).Nodup := (List.nodup_cons.1 (by simpa using hnd)).2
    have hnot : s.name ∉ ss.map (·.name) := (List.nodup_cons.1 (by simpa using hnd)).1
    obtain ⟨hkeys, hlook⟩ := ih tl htl hnd'
    -- the head name is not a key of the tail
    have hskip : (kwVals tl).lookup s.name = Option.none := by
      apply lookup_none_of_not_mem_keys
      intro hm
      simp only [Env.keys, kwVals, List.mem_map, List.mem_filterMap] at hm
      obtain ⟨p, ⟨f, hf, hfp⟩, hp⟩ := hm
      obtain ⟨s', hs', hk⟩ := hkeys f hf
      rw [hk] at hfp
      simp only [Option.some.injEq] at hfp
      subst hfp
      simp only at hp
      exact hnot (List.mem_map.2 ⟨s', hs', hp⟩)
    rcases hcase with ⟨rfl, hc⟩ | ⟨hc, r, hr, rfl⟩
    · refine ⟨fun f hf => ?_, fun s' hs' => ?_⟩
      · obtain ⟨s'', hs'', hk⟩ := hkeys f hf
        exact ⟨s'', List.mem_cons_of_mem _ hs'', hk⟩
      · rcases List.mem_cons.1 hs' with rfl | hs'
        · exact Or.inl ⟨hc, hskip⟩
        · exact hlook s' hs'
    · refine ⟨fun f hf => ?_, fun s' hs' => ?_⟩
      · rcases List.mem_cons.1 hf with rfl | hf
        · exact ⟨s, List.mem_cons_self, rfl⟩
        · obtain ⟨s'', hs'', hk⟩ := hkeys f hf
          exact ⟨s'', List.mem_cons_of_mem _ hs'', hk⟩
      · rcases List.mem_cons.1 hs' with rfl | hs'
        · refine Or.inr ⟨hc, r, hr, ?_⟩
          simp only [kwVals, List.filterMap_cons, List.lookup, beq_self_eq_true]
        · have hne : (s'.name == s.name) = false := by
            have : s'.name ≠ s.name := fun e => hnot (e ▸ List.mem_map.2 ⟨s', hs', rfl⟩)
            simpa using this
          have hcons : (kwVals (⟨some s.name, r.1, r.2⟩ :: tl)).lookup s'.name =
              (kwVals tl).lookup s'.name := by
            simp only [kwVals, List.filterMap_cons, List.lookup, hne]
          rw [hcons]
          exact hlook s' hs'

theorem posVals_of_pos (fl : List Flag) (h : ∀ f ∈ fl, f.key = none) :
    posVals fl = fl.map (·.val) ∧ kwVals fl = [] := by
  induction fl with
  | nil => exact ⟨rfl, rfl⟩
  | cons f t ih =>
    have hf := h f List.mem_cons_self
    obtain ⟨i1, i2⟩ := ih fun f' hf' => h f' (List.mem_cons_of_mem _ hf')
    simp only [posVals, kwVals, List.filterMap_cons, hf, List.map_cons] at i1 i2 ⊢
    exact ⟨by rw [i1], i2⟩

theorem posVals_of_kw (fl : List Flag) (h : ∀ f ∈ fl, ∃ k, f.key = some k) : posVals fl = [] := by
  induction fl with
  | nil => rfl
  | cons f t ih =>
    obtain ⟨k, hk⟩ := h f List.mem_cons_self
    have := ih fun f' hf' => h f' (List.mem_cons_of_mem _ hf')
    simp only [posVals, List.filterMap_cons, hk] at this ⊢
    exact this

theorem posVals_append (a b : List Flag) : posVals (a ++ b) = posVals a ++ posVals b := by
  simp [posVals, List.filterMap_append]

theorem kwVals_append (a b : List Flag) : kwVals (a ++ b) = kwVals a ++ kwVals b := by
  simp [kwVals, List.filterMap_append]

/-! ### assembling the binding -/

theorem lookup_map_snd (ps : List (String × PyVal)) (F : String → PyVal → PyVal) (k : String) :
    (ps.map fun p => (p.1, F p.1 p.2)).lookup k = (ps.lookup k).map (F k) := by
  induction ps with
  | nil => rfl
  | cons p t ih =>
    obtain ⟨k', d⟩ := p
    simp only [List.map_cons, List.lookup]
    cases hk : k == k' with
    | true =>
      have : k = k' := by simpa using hk
      subst this; rfl
    | false => exact ih

theorem lookup_append_of_not_mem (a b : Env) (k : String) (h : k ∉ a.keys) :
    (a ++ b).lookup k = b.lookup k := by
  induction a with
  | nil => rfl
  | cons p t ih =>
    obtain ⟨k', v⟩ := p
    simp only [Env.keys, List.map_cons, List.mem_cons, not_or] at h
    have hne : (k == k') = false := by simpa using h.1
    simp only [List.cons_append, List.lookup, hne]
    exact ih (by simpa [Env.keys] using h.2)

/-- first match in an aligned prefix: whichever entry the lookup finds carries the name it was
    asked for, hence a value `==` the option of that name -/
theorem lookup_aligned (g : String → PyVal) (b : Env) :
    ∀ (specs : List FlagSpec) (pre : Env),
      List.Forall₂ (fun s p => p.1 = s.name ∧ p.2.pyEq (g s.name) = true) specs pre →
      ∀ s ∈ specs, ∃ v, (pre ++ b).lookup s.name = some v ∧ v.pyEq (g s.name) = true := by
  intro specs
  induction specs with
  | nil => intro pre _ s hs; cases hs
  | cons s0 ss ih =>
    intro pre h s hs
    cases h with
    | cons hsp hrest =>
      rename_i p0 pt
      obtain ⟨k, v⟩ := p0
      obtain ⟨hk, hv⟩ := hsp
      simp only at hk hv
      subst hk
      by_cases he : s.name = s0.name
      · refine ⟨v, ?_, by rw [he]; exact hv⟩
        simp [he]
      · rcases List.mem_cons.1 hs with rfl | hs
        · exact absurd rfl he
        · have hne : (s.name == s0.name) = false := by simpa using he
          obtain ⟨v', hl, hv'⟩ := ih pt hrest s hs
          exact ⟨v', by simp only [List.cons_append, List.lookup, hne]; exact hl, hv'⟩

theorem keys_aligned (g : String → PyVal) :
    ∀ (specs : List FlagSpec) (pre : Env),
      List.Forall₂ (fun s p => p.1 = s.name ∧ p.2.pyEq (g s.name) = true) specs pre →
      Env.keys pre = specs.map (·.name) := by
  intro specs pre h
  induction h with
  | nil => rfl
  | cons h1 _ ih =>
    simp only [Env.keys, List.map_cons, h1.1] at ih ⊢
    rw [ih]

theorem get_of_nodup (ps : List (String × PyVal)) (h : (ps.map Prod.fst).Nodup) :
    ∀ p ∈ ps, ps.lookup p.1 = some p.2 := by
  induction ps with
  | nil => intro p hp; cases hp
  | cons q t ih =>
    obtain ⟨k, d⟩ := q
    simp only [List.map_cons, List.nodup_cons] at h
    intro p hp
    rcases List.mem_cons.1 hp with rfl | hp
    · simp [List.lookup]
    · have hne : (p.1 == k) = false := by
        have : p.1 ≠ k := fun e => h.1 (e ▸ List.mem_map.2 ⟨p, hp, rfl⟩)
        simpa using this
      simp only [List.lookup, hne]
      exact ih h.2 p hp

theorem forall2_aligned {α β : Type} (R : α → β → Prop) (f : α → String) (gk : β → String) :
    ∀ (as : List α) (bs : List β), as.map f = bs.map gk →
      (∀ a ∈ as, ∀ b ∈ bs, f a = gk b → R a b) → List.Forall₂ R as bs := by
  intro as
  induction as with
  | nil => intro bs h _; cases bs with
    | nil => exact List.Forall₂.nil
    | cons _ _ => cases h
  | cons a t ih =>
    intro bs h hR
    cases bs with
    | nil => cases h
    | cons b u =>
      simp only [List.map_cons, List.cons.injEq] at h
      exact List.Forall₂.cons (hR a List.mem_cons_self b List.mem_cons_self h.1)
        (ih u h.2 fun a' ha' b' hb' => hR a' (List.mem_cons_of_mem _ ha') b' (List.mem_cons_of_mem _ hb'))

/-- **slot correctness of the repaired `__str__`, all 14 classes.**  For a quantizer whose
    statements are locally correct (`Typed`), Python's call binding of the values the printed
    flags denote succeeds, and the bound argument of every option `__str__` can express is `==`
    the option the quantizer holds. -/
theorem flags_bind_full (q : Q) (fl : List Flag) (hf : flagsF q = .ok fl) (ht : Typed q) :
    ∃ e', bind (params q.cls) (posVals fl) (kwVals fl) = .ok e' ∧
      (∀ k ∈ printedNames q.cls, (e'.get k).pyEq (q.get k) = true) ∧
      (∀ k ∈ unprinted q.cls, e'.get k = defaultOf q.cls k) := by
  -- the two groups of flags
  unfold flagsF at hf
  cases hp : posFlags q.get (posSpec q.cls) with
  | error e => rw [hp] at hf; cases hf
  | ok pfl =>
    cases hk : kwFlags q.get (kwSpec q.cls) with
    | error e => rw [hp, hk] at hf; cases hf
    | ok kfl =>
      rw [hp, hk] at hf
      simp only [Except.ok.injEq] at hf
      subst hf
      -- the tables
      have htab := tablesOK_all q.cls
      unfold tablesOK at htab
      simp only [Bool.and_eq_true, beq_iff_eq, List.all_eq_true, decide_eq_true_eq,
        Bool.not_eq_true', List.contains_eq_mem] at htab
      obtain ⟨⟨⟨⟨hT1, hT2⟩, hT3'⟩, hT4⟩, hT5⟩ := htab
      have hT3 : ∀ x ∈ kwSpec q.cls, x.name ∉ (paramNames q.cls).take (posSpec q.cls).length :=
        fun x hx => by simpa using hT3' x hx
      set n := (posSpec q.cls).length with hn
      set ps := params q.cls with hps
      have hnames : paramNames q.cls = ps.map Prod.fst := rfl
      have hsplit : ps = ps.take n ++ ps.drop n := (List.take_append_drop n ps).symm
      -- keyword flags
      obtain ⟨hkkeys, hklook⟩ := kwFlags_lookup q.get (kwSpec q.cls) kfl hk hT4
      have hkfl_kw : ∀ f ∈ kfl, ∃ k, f.key = some k := fun f hf' => by
        obtain ⟨s, _, h'⟩ := hkkeys f hf'; exact ⟨_, h'⟩
      have hkwkeys : ∀ k ∈ (kwVals kfl).keys, ∃ s ∈ kwSpec q.cls, k = s.name := by
        intro k hk'
        simp only [Env.keys, kwVals, List.mem_map, List.mem_filterMap] at hk'
        obtain ⟨p, ⟨f, hf', hfp⟩, hpk⟩ := hk'
        obtain ⟨s, hs, hks⟩ := hkkeys f hf'
        rw [hks] at hfp
        simp only [Option.some.injEq] at hfp
        subst hfp
        exact ⟨s, hs, hpk.symm⟩
      -- positional flags, aligned with the parameter prefix
      have hdef : ∀ p ∈ ps, defaultOf q.cls p.1 = p.2 := fun p hp' => by
        unfold defaultOf Env.get
        rw [← hps, get_of_nodup ps (by rw [← hnames]; exact hT5) p hp']
        rfl
      have hT1' : (posSpec q.cls).map (·.name) = (ps.take n).map Prod.fst := by
        rw [hT1, hnames, List.map_take]
      have hR : List.Forall₂ (fun s p => p.1 = s.name ∧ semOK p.2 true s (q.get s.name) = true)
          (posSpec q.cls) (ps.take n) := by
        refine forall2_aligned _ (·.name) Prod.fst _ _ hT1' ?_
        intro s hs p hp' hsp
        refine ⟨hsp.symm, ?_⟩
        have := ht.1 s hs
        have hd := hdef p (List.mem_of_mem_take hp')
        rw [← hsp] at hd
        rw [hd] at this
        exact this
      have hposnot : ∀ s ∈ posSpec q.cls, s.name ∉ (kwVals kfl).keys := by
        intro s hs hm
        obtain ⟨s', hs', he⟩ := hkwkeys _ hm
        have h1 : s.name ∈ (paramNames q.cls).take n := by
          rw [← hT1]; exact List.mem_map.2 ⟨s, hs, rfl⟩
        exact hT3 s' hs' (he ▸ h1)
      obtain ⟨pre, hb, hpre, hlen, hpkeys⟩ :=
        posFlags_bind q.get (kwVals kfl) (ps.drop n) (posSpec q.cls) (ps.take n) pfl hR hp hposnot
      rw [← hsplit] at hb
      obtain ⟨hpv, hpk⟩ := posVals_of_pos pfl hpkeys
      have hargs : posVals (pfl ++ kfl) = pfl.map (·.val) := by
        rw [posVals_append, hpv, posVals_of_kw kfl hkfl_kw, List.append_nil]
      have hkws : kwVals (pfl ++ kfl) = kwVals kfl := by
        rw [kwVals_append, hpk, List.nil_append]
      rw [hargs, hkws]
      -- Python's call binding accepts the arguments
      have hnlen : n ≤ ps.length := by
        have := congrArg List.length hT1'
        simp only [List.length_map, List.length_take] at this
        omega
      have hbind : bind ps (pfl.map (·.val)) (kwVals kfl) =
          .ok (pre ++ bindPos (ps.drop n) [] (kwVals kfl)) := by
        unfold bind
        have c1 : ¬ ps.length < (pfl.map (·.val)).length := by
          simp only [List.length_map]; omega
        have c2 : (kwVals kfl).any (fun p => !(ps.map Prod.fst).contains p.1) = false := by
          rw [List.any_eq_false]
          intro p hp'
          obtain ⟨s, hs, he⟩ := hkwkeys p.1 (List.mem_map.2 ⟨p, hp', rfl⟩)
          have := List.mem_of_mem_drop (hT2 s hs)
          simp [← hnames, he, this]
        have c3 : (kwVals kfl).any
            (fun p => ((ps.map Prod.fst).take (pfl.map (·.val)).length).contains p.1) = false := by
          rw [List.any_eq_false]
          intro p hp'
          obtain ⟨s, hs, he⟩ := hkwkeys p.1 (List.mem_map.2 ⟨p, hp', rfl⟩)
          have hnot := hT3 s hs
          simp only [List.length_map, List.contains_eq_mem, decide_eq_true_eq]
          intro hm
          apply hnot
          rw [he] at hm
          rw [hnames]
          exact (List.take_subset_take_left _ hlen) hm
        simp only [c1, c2, c3, if_false, Bool.false_eq_true, hb]
      refine ⟨_, hbind, ?_, ?_⟩
      rotate_left
      · -- an option no statement mentions: outside the positional prefix, never a printed keyword
        intro k hk'
        unfold unprinted at hk'
        obtain ⟨hkp, hknot⟩ := List.mem_filter.1 hk'
        have hknot' : k ∉ printedNames q.cls := by simpa using hknot
        have hk1 : k ∉ (posSpec q.cls).map (·.name) := fun h => hknot' (List.mem_append_left _ h)
        have hk2 : k ∉ (kwSpec q.cls).map (·.name) := fun h => hknot' (List.mem_append_right _ h)
        have hprekeys : k ∉ Env.keys pre := by
          rw [keys_aligned _ _ _ hpre]; exact hk1
        have hkwnone : (kwVals kfl).lookup k = Option.none := by
          apply lookup_none_of_not_mem_keys
          intro hm
          obtain ⟨s, hs, he⟩ := hkwkeys k hm
          exact hk2 (he ▸ List.mem_map.2 ⟨s, hs, rfl⟩)
        have hmem : k ∈ (ps.drop n).map Prod.fst := by
          rw [List.map_drop, ← hnames]
          have hsp : k ∈ (paramNames q.cls).take n ++ (paramNames q.cls).drop n := by
            rw [List.take_append_drop]; exact hkp
          rcases List.mem_append.1 hsp with h | h
          · exact absurd (by rw [hT1]; exact h) hk1
          · exact h
        obtain ⟨p, hp', hpn⟩ := List.mem_map.1 hmem
        have hnd : ((ps.drop n).map Prod.fst).Nodup := by
          rw [List.map_drop, ← hnames]; exact (List.drop_sublist _ _).nodup hT5
        have hl := get_of_nodup _ hnd p hp'
        rw [hpn] at hl
        have hd : defaultOf q.cls k = p.2 := by
          rw [← hpn]; exact hdef p (List.mem_of_mem_drop hp')
        rw [hd]
        unfold Env.get
        rw [lookup_append_of_not_mem _ _ _ hprekeys, bindPos_nil,
          lookup_map_snd (ps.drop n) (fun k d => ((kwVals kfl).lookup k).getD d), hl]
        simp only [Option.map_some, hkwnone, Option.getD_none, Option.getD_some]
      intro k hk'
      unfold printedNames at hk'
      rcases List.mem_append.1 hk' with hk' | hk'
      · -- a positional option
        obtain ⟨s, hs, rfl⟩ := List.mem_map.1 hk'
        obtain ⟨v, hl, hv⟩ := lookup_aligned q.get _ _ _ hpre s hs
        unfold Env.get
        rw [hl]
        exact hv
      · -- a keyword option
        obtain ⟨s, hs, rfl⟩ := List.mem_map.1 hk'
        have hprekeys : s.name ∉ Env.keys pre := by
          intro hm
          have hpk' : Env.keys pre = (posSpec q.cls).map (·.name) := keys_aligned _ _ _ hpre
          rw [hpk', hT1] at hm
          exact hT3 s hs hm
        unfold Env.get
        rw [lookup_append_of_not_mem _ _ _ hprekeys, bindPos_nil,
          lookup_map_snd (ps.drop n) (fun k d => ((kwVals kfl).lookup k).getD d)]
        -- the default of the option
        have hmem : s.name ∈ (ps.drop n).map Prod.fst := by
          rw [List.map_drop, ← hnames]; exact hT2 s hs
        obtain ⟨p, hp', hpn⟩ := List.mem_map.1 hmem
        have hnd : ((ps.drop n).map Prod.fst).Nodup := by
          rw [List.map_drop, ← hnames]; exact (List.drop_sublist _ _).nodup hT5
        have hl := get_of_nodup _ hnd p hp'
        rw [hpn] at hl
        rw [hl]
        have hd : defaultOf q.cls s.name = p.2 := by
          rw [← hpn]; exact hdef p (List.mem_of_mem_drop hp')
        have hsem := ht.2 s hs
        rw [hd] at hsem
        unfold semOK at hsem
        simp only [Bool.and_eq_true] at hsem
        rcases hklook s hs with ⟨hc, hnone⟩ | ⟨hc, r, hr, hsome⟩
        · simp only [Option.map_some, hnone, Option.getD_none, Option.getD_some]
          have := hsem.2
          simpa [hc] using this
        · simp only [Option.map_some, hsome, Option.getD_some]
          have := hsem.1
          rw [hr] at this
          simpa [hc] using this

theorem flags_bind (q : Q) (fl : List Flag) (hf : flagsF q = .ok fl) (ht : Typed q) :
    ∃ e', bind (params q.cls) (posVals fl) (kwVals fl) = .ok e' ∧
      ∀ k ∈ printedNames q.cls, (e'.get k).pyEq (q.get k) = true := by
  obtain ⟨e', h1, h2, _⟩ := flags_bind_full q fl hf ht
  exact ⟨e', h1, h2⟩

/-- every constructor parameter is either expressible by `__str__` or listed as unprinted -/
theorem param_printed_or_unprinted (c : Cls) (k : String) (hk : k ∈ paramNames c) :
    k ∈ printedNames c ∨ k ∈ unprinted c := by
  by_cases h : k ∈ printedNames c
  · exact Or.inl h
  · exact Or.inr (List.mem_filter.2 ⟨hk, by simpa using h⟩)

/-! ### the shape of the flag list: positional flags first, keyword flags distinct -/

/-- a positional entry after a keyword entry (on the keys of a flag list) -/
def keyPosAfterKw : List (Option String) → Bool
  | [] => false
  | Option.none :: t => keyPosAfterKw t
  | some _ :: t => t.any Option.isNone || keyPosAfterKw t

theorem kwFlags_keys_sublist (g : String → PyVal) :
    ∀ (specs : List FlagSpec) (fl : List Flag), kwFlags g specs = .ok fl →
      List.Sublist ((kwVals fl).keys) (specs.map (·.name)) ∧ posVals fl = [] ∧
      fl.map (·.key) = (kwVals fl).keys.map some := by
  intro specs
  induction specs with
  | nil =>
    intro fl h
    simp only [kwFlags, Except.ok.injEq] at h
    subst h
    exact ⟨List.Sublist.slnil, rfl, rfl⟩
  | cons s ss ih =>
    intro fl h
    obtain ⟨tl, htl, hcase⟩ := kwFlags_cons_inv g s ss fl h
    obtain ⟨h1, h2, h3⟩ := ih tl htl
    rcases hcase with ⟨rfl, _⟩ | ⟨_, r, _, rfl⟩
    · exact ⟨List.Sublist.cons _ h1, h2, h3⟩
    · refine ⟨?_, ?_, ?_⟩
      · simp only [kwVals, Env.keys, List.filterMap_cons, List.map_cons] at h1 ⊢
        exact List.Sublist.cons_cons _ h1
      · simp only [posVals, List.filterMap_cons] at h2 ⊢
        exact h2
      · simp only [kwVals, Env.keys, List.filterMap_cons, List.map_cons] at h3 ⊢
        rw [h3]

theorem keyPosAfterKw_pos_kw (a : List (Option String)) (b : List String)
    (ha : ∀ k ∈ a, k = Option.none) : keyPosAfterKw (a ++ b.map some) = false := by
  induction a with
  | nil =>
    induction b with
    | nil => rfl
    | cons k t ih =>
      simp only [List.nil_append, List.map_cons, keyPosAfterKw, Bool.or_eq_false_iff] at ih ⊢
      refine ⟨?_, ih⟩
      rw [List.any_eq_false]
      intro x hx
      obtain ⟨y, _, rfl⟩ := List.mem_map.1 hx
      simp
  | cons k t ih =>
    have hk := ha k List.mem_cons_self
    subst hk
    simp only [List.cons_append, keyPosAfterKw]
    exact ih fun k' hk' => ha k' (List.mem_cons_of_mem _ hk')

/-- `str(q)` prints the positional flags first and every keyword at most once -/
theorem flagsF_shape (q : Q) (fl : List Flag) (hf : flagsF q = .ok fl) :
    keyPosAfterKw (fl.map (·.key)) = false ∧ ((kwVals fl).keys).Nodup := by
  unfold flagsF at hf
  cases hp : posFlags q.get (posSpec q.cls) with
  | error e => rw [hp] at hf; cases hf
  | ok pfl =>
    cases hk : kwFlags q.get (kwSpec q.cls) with
    | error e => rw [hp, hk] at hf; cases hf
    | ok kfl =>
      rw [hp, hk] at hf
      simp only [Except.ok.injEq] at hf
      subst hf
      have htab := tablesOK_all q.cls
      unfold tablesOK at htab
      simp only [Bool.and_eq_true, decide_eq_true_eq] at htab
      have hT4 := htab.1.2
      obtain ⟨hsub, _, hkeys⟩ := kwFlags_keys_sublist q.get (kwSpec q.cls) kfl hk
      -- positional flags carry no key
      have hR : List.Forall₂ (fun s p => p.1 = s.name ∧ semOK p.2 true s (q.get s.name) = true)
          (posSpec q.cls) ((posSpec q.cls).map fun s => (s.name, PyVal.none)) ∨ True := Or.inr trivial
      have hpkeys : ∀ f ∈ pfl, f.key = none := by
        clear hR
        have : ∀ (specs : List FlagSpec) (fl : List Flag), posFlags q.get specs = .ok fl →
            ∀ f ∈ fl, f.key = none := by
          intro specs
          induction specs with
          | nil => intro fl h f hf; simp only [posFlags, Except.ok.injEq] at h; subst h; cases hf
          | cons s ss ih =>
            intro fl h f hf
            obtain ⟨tl, htl, hcase⟩ := posFlags_cons_inv q.get s ss fl h
            rcases hcase with ⟨rfl, _, _⟩ | ⟨r, _, rfl⟩
            · cases hf
            · rcases List.mem_cons.1 hf with rfl | hf
              · rfl
              · exact ih tl htl f hf
        exact this _ _ hp
      obtain ⟨_, hpk⟩ := posVals_of_pos pfl hpkeys
      refine ⟨?_, ?_⟩
      · rw [List.map_append, hkeys]
        exact keyPosAfterKw_pos_kw _ _ fun k hk' => by
          obtain ⟨f, hf, rfl⟩ := List.mem_map.1 hk'
          exact hpkeys f hf
      · rw [kwVals_append, hpk, List.nil_append]
        exact hsub.nodup hT4

/-! ### readable flags: the printed text is a literal of the grammar denoting the flag's value -/

/-- flag `f` is the text of grammar argument `a` (same keyword, same denoted value) -/
def FlagLit (f : Flag) (a : Arg) : Prop :=
  a.rd = true ∧ a.text = f.chars ∧
    (match a with
     | .pos l => f.key = none ∧ l.val = f.val
     | .kw k l => f.key = some k ∧ l.val = f.val)

instance (f : Flag) (a : Arg) : Decidable (FlagLit f a) := by
  unfold FlagLit; cases a <;> infer_instance

theorem flagLit_any (fl : List Flag) (as : List Arg) (h : List.Forall₂ FlagLit fl as) :
    as.any Arg.isPos = (fl.map (·.key)).any Option.isNone := by
  induction fl generalizing as with
  | nil => cases h; rfl
  | cons f ft ih =>
    cases h with
    | cons hfa hrest =>
      rename_i a at_
      obtain ⟨_, _, hm⟩ := hfa
      cases a with
      | pos l => simp only [List.any_cons, List.map_cons, hm.1, Option.isNone_none, Arg.isPos, ih at_ hrest]
      | kw k l => simp only [List.any_cons, List.map_cons, hm.1, Option.isNone_some, Arg.isPos, ih at_ hrest]

theorem flagLit_facts (fl : List Flag) (as : List Arg) (h : List.Forall₂ FlagLit fl as) :
    (∀ a ∈ as, a.rd = true) ∧ as.map Arg.text = fl.map Flag.chars ∧ argVals as = posVals fl ∧
      argKwargs as = kwVals fl ∧ argPosAfterKw as = keyPosAfterKw (fl.map (·.key)) := by
  induction h with
  | nil => exact ⟨by simp, rfl, rfl, rfl, rfl⟩
  | cons hfa hrest ih =>
    rename_i f a ft at_
    obtain ⟨i1, i2, i3, i4, i5⟩ := ih
    obtain ⟨hrd, htext, hmatch⟩ := hfa
    have hany := flagLit_any ft at_ hrest
    refine ⟨?_, ?_, ?_, ?_, ?_⟩
    · intro b hb
      rcases List.mem_cons.1 hb with rfl | hb
      · exact hrd
      · exact i1 b hb
    · simp only [List.map_cons, htext, i2]
    · cases a with
      | pos l =>
        simp only [argVals, posVals, List.filterMap_cons, hmatch.1, hmatch.2] at i3 ⊢
        rw [i3]
      | kw k l =>
        simp only [argVals, posVals, List.filterMap_cons, hmatch.1] at i3 ⊢
        exact i3
    · cases a with
      | pos l =>
        simp only [argKwargs, kwVals, List.filterMap_cons, hmatch.1] at i4 ⊢
        exact i4
      | kw k l =>
        simp only [argKwargs, kwVals, List.filterMap_cons, hmatch.1, hmatch.2] at i4 ⊢
        rw [i4]
    · cases a with
      | pos l => simp only [argPosAfterKw, List.map_cons, hmatch.1, keyPosAfterKw, i5]
      | kw k l =>
        simp only [argPosAfterKw, List.map_cons, hmatch.1, keyPosAfterKw]
        rw [hany, i5]

/-! ### finding the literal of a printed text (a witness finder; every result is checked) -/

/-- `[-]digits` or `[-]digits.digits` as a number literal tree -/
def readNum (t : List Char) : Option NumLit :=
  let p : Bool × List Char := match t with
    | '-' :: r => (true, r)
    | r => (false, r)
  let ip := p.2.takeWhile isDig
  match p.2.dropWhile isDig with
  | [] => some (.int p.1 ip)
  | '.' :: fp => some (.float p.1 ip fp Option.none)
  | _ => Option.none

def splitCommas : List Char → List (List Char) := splitOnChar ','

/-- the items of a blank-separated (numpy-style) list with the number of blanks after each -/
def readBItems : Nat → List Char → Option (List (NumLit × Nat))
  | 0, _ => Option.none
  | _ + 1, [] => some []
  | fuel + 1, cs =>
    let tok := cs.takeWhile (· != ' ')
    let rest := cs.dropWhile (· != ' ')
    let g := (rest.takeWhile (· == ' ')).length
    match readNum tok, readBItems fuel (rest.dropWhile (· == ' ')) with
    | some n, some t => some ((n, g) :: t)
    | _, _ => Option.none

/-- `[ a  b c ]` without commas: the form `str(numpy.ndarray)` prints -/
def readBList (r : List Char) : Option Lit :=
  let inner := r.dropLast
  let pre := (inner.takeWhile (· == ' ')).length
  (readBItems (inner.length + 1) (inner.dropWhile (· == ' '))).map (Lit.blist pre)

/-- the literal tree a printed flag text would be the rendering of -/
def readLit (t : List Char) : Option Lit :=
  if t = "None".toList then some .none
  else if t = "True".toList then some (.bool true)
  else if t = "False".toList then some (.bool false)
  else match t with
    | '\'' :: r => some (.str false r.dropLast)
    | '[' :: r =>
      if r = [']'] then some (.list [])
      else if r.contains ',' then ((splitCommas r.dropLast).mapM readNum).map Lit.list
      else if r.contains ' ' then readBList r
      else ((splitCommas r.dropLast).mapM readNum).map Lit.list
    | _ => (readNum t).map NumLit.toLit

/-- positional or keyword argument, as the flag is -/
def argOfFlag (f : Flag) (l : Lit) : Arg :=
  match f.key with
  | Option.none => .pos l
  | some k => .kw k l

/-- the grammar argument of one printed flag, if its text is a literal denoting its value -/
def readFlag (f : Flag) : Option Arg :=
  (readLit f.text.toList).bind fun l =>
    if FlagLit f (argOfFlag f l) then some (argOfFlag f l) else Option.none

theorem readFlag_sound (f : Flag) (a : Arg) (h : readFlag f = some a) : FlagLit f a := by
  unfold readFlag at h
  cases hl : readLit f.text.toList with
  | none => rw [hl] at h; cases h
  | some l =>
    rw [hl] at h
    simp only [Option.bind_some] at h
    by_cases hf : FlagLit f (argOfFlag f l)
    · rw [if_pos hf] at h
      simp only [Option.some.injEq] at h
      subst h
      exact hf
    · rw [if_neg hf] at h
      cases h

/-- every flag of the list is readable: the arguments -/
def readFlags : List Flag → Option (List Arg)
  | [] => some []
  | f :: t => match readFlag f, readFlags t with
    | some a, some as => some (a :: as)
    | _, _ => Option.none

theorem readFlags_sound (fl : List Flag) (as : List Arg) (h : readFlags fl = some as) :
    List.Forall₂ FlagLit fl as := by
  induction fl generalizing as with
  | nil => simp only [readFlags, Option.some.injEq] at h; subst h; exact List.Forall₂.nil
  | cons f t ih =>
    unfold readFlags at h
    split at h
    · rename_i a as' ha has
      simp only [Option.some.injEq] at h
      subst h
      exact List.Forall₂.cons (readFlag_sound f a ha) (ih as' has)
    · cases h

/-- the hypotheses of the round-trip theorem, decided for the instance `cls(*args, **kw)`:
    it is constructible, `str()` does not raise, every printed flag is a readable literal
    denoting its value, and every `__str__` statement is locally correct -/
def roundTripHyps (c : Cls) (args : List PyVal) (kw : Env) : Bool :=
  match construct c args kw with
  | .error _ => false
  | .ok q =>
    (match flagsF q with
     | .ok fl => (readFlags fl).isSome
     | .error _ => false) && decide (Typed q)

/-- the hypotheses of the complete-option-set round trip, decided for `cls(*args, **kw)`:
    constructible, `str()` does not raise, flags readable, texts denote their values, truthiness
    tests see flags / numbers / None, and the unprintable options are at their defaults -/
def completeHyps (c : Cls) (args : List PyVal) (kw : Env) : Bool :=
  match construct c args kw with
  | .error _ => false
  | .ok q =>
    (match flagsF q with
     | .ok fl => (readFlags fl).isSome
     | .error _ => false) && decide (Denotes q) && decide (Kinded q) &&
    decide (∀ k ∈ unprinted q.cls, (defaultOf q.cls k).pyEq (q.get k) = true)

/-! ### integers print and read back -/

theorem allDigits_toDigits (n : Nat) : allDigits (Nat.toDigits 10 n) = true := by
  rw [allDigits_iff]
  refine ⟨Nat.toDigits_ne_nil, fun c hc => ?_⟩
  have := Nat.isDigit_of_mem_toDigits (by decide) (by decide) hc
  simp only [Char.isDigit, Bool.and_eq_true, decide_eq_true_eq] at this
  simp only [isDig, Bool.and_eq_true, decide_eq_true_eq]
  have h1 : (48 : UInt32).toNat ≤ c.val.toNat := UInt32.le_iff_toNat_le.1 this.1
  have h2 : c.val.toNat ≤ (57 : UInt32).toNat := UInt32.le_iff_toNat_le.1 this.2
  exact ⟨h1, h2⟩

theorem digitsVal_toDigits (n : Nat) : digitsVal (Nat.toDigits 10 n) = n := by
  have := Nat.ofDigitChars_ten_toDigits (n := n)
  simpa [Nat.ofDigitChars, digitsVal, digitVal] using this

/-- the literal tree of `str(i)` -/
def intLit (i : Int) : Lit := .int (decide (i < 0)) (Nat.toDigits 10 i.natAbs)

theorem intLit_rd (i : Int) : (intLit i).rd = true := allDigits_toDigits _

theorem intLit_text (i : Int) : (intLit i).text = (toString i).toList := by
  cases i with
  | ofNat m =>
    have h : ¬ (Int.ofNat m < 0) := by simp
    simp [intLit, Lit.text, signText, Int.repr]
  | negSucc m =>
    have h : Int.negSucc m < 0 := Int.negSucc_lt_zero m
    simp [intLit, Lit.text, signText, h, Int.repr]

theorem intLit_val (i : Int) : (intLit i).val = .int i := by
  unfold intLit
  simp only [Lit.val, digitsVal_toDigits, signed]
  congr 1
  by_cases h : i < 0
  · simp only [h, decide_true, if_true]; omega
  · simp only [h, decide_false, Bool.false_eq_true, if_false]; omega

/-- a flag whose value is an integer printed by `str()` is readable, for every integer -/
theorem flagLit_int (key : Option String) (hk : ∀ k, key = some k → isIdent k = true) (i : Int) :
    FlagLit ⟨key, .int i, toString i⟩ (argOfFlag ⟨key, .int i, toString i⟩ (intLit i)) := by
  cases key with
  | none => exact ⟨intLit_rd i, by simp [Arg.text, Flag.chars, argOfFlag, intLit_text], rfl, intLit_val i⟩
  | some k =>
    refine ⟨?_, by simp [Arg.text, Flag.chars, argOfFlag, intLit_text], rfl, intLit_val i⟩
    simp [argOfFlag, Arg.rd, hk k rfl, intLit_rd]

/-! ### closed forms for the stochastic classes: the flags of `str(q)` for every integer option -/

/-- the scale option of the stochastic classes: `None`, `"auto"`, `"auto_po2"` -/
inductive AutoAlpha | none | auto | autoPo2 deriving DecidableEq
def AutoAlpha.val : AutoAlpha → PyVal
  | .none => .none | .auto => .str "auto" | .autoPo2 => .str "auto_po2"
def AutoAlpha.flags : AutoAlpha → List Flag
  | .none => []
  | .auto => [⟨some "alpha", .str "auto", "'auto'"⟩]
  | .autoPo2 => [⟨some "alpha", .str "auto_po2", "'auto_po2'"⟩]
def AutoAlpha.args : AutoAlpha → List Arg
  | .none => []
  | .auto => [.kw "alpha" (.str false "auto".toList)]
  | .autoPo2 => [.kw "alpha" (.str false "auto_po2".toList)]

theorem AutoAlpha.readable (a : AutoAlpha) : List.Forall₂ FlagLit a.flags a.args := by
  cases a
  · exact List.Forall₂.nil
  · exact List.Forall₂.cons (by decide +kernel) List.Forall₂.nil
  · exact List.Forall₂.cons (by decide +kernel) List.Forall₂.nil

theorem readable_append {a b : List Flag} {as bs : List Arg} (h1 : List.Forall₂ FlagLit a as)
    (h2 : List.Forall₂ FlagLit b bs) : List.Forall₂ FlagLit (a ++ b) (as ++ bs) := by
  induction h1 with
  | nil => simpa using h2
  | cons h _ ih => exact List.Forall₂.cons h ih

theorem readable_if (p : Prop) [Decidable p] (f : Flag) (x : Arg) (h : FlagLit f x) :
    List.Forall₂ FlagLit (if p then [] else [f]) (if p then [] else [x]) := by
  by_cases hp : p
  · simp only [hp, if_true]; exact List.Forall₂.nil
  · simp only [hp, if_false]; exact List.Forall₂.cons h List.Forall₂.nil

theorem cast_ne (t n : Int) (h : t ≠ n) : ((t : Rat) == (n : Rat)) = false := by
  simp only [beq_eq_false_iff_ne, ne_eq]
  exact_mod_cast h

theorem flags_bernoulli (sb : Bool) (a : AutoAlpha) (t : Int) (b : Bool) :
    flagsF ⟨if sb then .stochastic_binary else .bernoulli,
        [("alpha", a.val), ("temperature", .int t), ("use_real_sigmoid", .bool b)]⟩
      = .ok (a.flags ++ (if t = 6 then [] else [⟨some "temperature", .int t, toString t⟩]) ++
          (if b = true then [] else [⟨some "use_real_sigmoid", .int 0, "0"⟩])) := by
  by_cases ht : t = 6
  · subst ht
    cases sb <;> cases a <;> cases b <;> rfl
  · have hne : ¬ ((t : Rat) = 6) := by exact_mod_cast ht
    have h0 : Int.repr 0 = "0" := by decide
    cases sb <;> cases a <;> cases b <;>
      simp [flagsF, posFlags, kwFlags, posSpec, kwSpec, Q.get, Env.get, List.lookup, Cond.holds, mkFlag,
        Conv.apply, PyVal.pyEq, PyVal.numVal, PyVal.truthy, PyVal.isNone, alphaText, PyVal.isStr,
        PyVal.pyStr, PyVal.pyInt, ht, AutoAlpha.val, AutoAlpha.flags, hne, h0]

theorem zeroFlagLit (k : String) (hk : isIdent k = true) :
    FlagLit ⟨some k, .int 0, "0"⟩ (.kw k (intLit 0)) :=
  flagLit_int (some k) (fun k' hk' => by cases hk'; exact hk) 0

theorem eq_none_of_pyEq_none (v : PyVal) (h : v.pyEq .none = true) : v = .none := by
  cases v <;> simp [PyVal.pyEq, PyVal.numVal] at h ⊢

theorem flags_sternary (a : AutoAlpha) (t n : Int) (b : Bool) :
    flagsF ⟨.stochastic_ternary,
        [("alpha", a.val), ("threshold", .none), ("temperature", .int t), ("use_real_sigmoid", .bool b),
         ("number_of_unrolls", .int n)]⟩
      = .ok (a.flags ++ (if t = 8 then [] else [⟨some "temperature", .int t, toString t⟩]) ++
          (if b = true then [] else [⟨some "use_real_sigmoid", .int 0, "0"⟩]) ++
          (if n = 5 then [] else [⟨some "number_of_unrolls", .int n, toString n⟩])) := by
  have ht : ((t : Rat) = 8) ↔ t = 8 := by exact_mod_cast Iff.rfl
  have hn : ((n : Rat) = 5) ↔ n = 5 := by exact_mod_cast Iff.rfl
  by_cases h8 : t = 8 <;> by_cases h5 : n = 5 <;> cases a <;> cases b <;>
    simp [flagsF, posFlags, kwFlags, posSpec, kwSpec, Q.get, Env.get, List.lookup, Cond.holds, mkFlag,
      Conv.apply, PyVal.pyEq, PyVal.numVal, PyVal.truthy, PyVal.isNone, alphaText, PyVal.isStr,
      PyVal.pyStr, AutoAlpha.val, AutoAlpha.flags, ht, hn, h8, h5]

/-! ### second fix round: lists of integers print item by item and read back; closed forms for
    `quantized_bits` -/

/-- the number-literal tree of `str(i)` (element of a list literal) -/
def intNumLit (i : Int) : NumLit := .int (decide (i < 0)) (Nat.toDigits 10 i.natAbs)

theorem intNumLit_rd (i : Int) : (intNumLit i).rd = true := allDigits_toDigits _
theorem intNumLit_text (i : Int) : (intNumLit i).text = (toString i).toList := intLit_text i
theorem intNumLit_num (i : Int) : (intNumLit i).num = .int i := by
  have h := intLit_val i
  simp only [intLit, Lit.val, PyVal.int.injEq] at h
  simp only [intNumLit, NumLit.num, h]

theorem toList_intercalate_comma (l : List String) :
    (",".intercalate l).toList = joinComma (l.map String.toList) := by
  induction l with
  | nil => rfl
  | cons a t ih =>
    cases t with
    | nil => simp [joinComma]
    | cons b t =>
      rw [String.intercalate_cons_cons]
      simp only [String.toList_append, ih, List.map_cons, joinComma]
      simp

theorem listOrScalar_ints (l : List Int) :
    (listOrScalar (.list (l.map Num.int))).toList = (Lit.list (l.map intNumLit)).text := by
  simp only [listOrScalar, Lit.text, String.toList_append, toList_intercalate_comma, List.map_map]
  have : (String.toList ∘ Num.pyStr ∘ Num.int) = (NumLit.text ∘ intNumLit) := by
    funext i; simp [Num.pyStr, intNumLit_text]
  rw [this]; rfl

theorem flagLit_intList (key : Option String) (hk : ∀ k, key = some k → isIdent k = true) (l : List Int) :
    FlagLit ⟨key, .list (l.map Num.int), listOrScalar (.list (l.map Num.int))⟩
      (argOfFlag ⟨key, .list (l.map Num.int), listOrScalar (.list (l.map Num.int))⟩
        (Lit.list (l.map intNumLit))) := by
  have hrd : (Lit.list (l.map intNumLit)).rd = true := by
    simp [Lit.rd, intNumLit_rd]
  have hval : (Lit.list (l.map intNumLit)).val = .list (l.map Num.int) := by
    simp [Lit.val, List.map_map, Function.comp_def, intNumLit_num]
  cases key with
  | none => exact ⟨hrd, by simp [Arg.text, Flag.chars, argOfFlag, listOrScalar_ints], rfl, hval⟩
  | some k =>
    refine ⟨?_, by simp [Arg.text, Flag.chars, argOfFlag, listOrScalar_ints], rfl, hval⟩
    simp [argOfFlag, Arg.rd, hk k rfl, hrd]

/-- the options of `quantized_bits(b, alpha=a, scale_axis=ax, elements_per_scale=es)` as stored -/
def bitsEnv (b : Nat) (sym a ax es : PyVal) : Env :=
  [("bits", .int b), ("integer", .int 0), ("symmetric", sym), ("keep_negative", .bool true),
   ("alpha", a), ("use_stochastic_rounding", .bool false), ("scale_axis", ax),
   ("qnoise_factor", .float 1), ("var_name", .none), ("use_ste", .bool true),
   ("use_variables", .bool false), ("elements_per_scale", es), ("min_po2_exponent", .none),
   ("max_po2_exponent", .none), ("post_training_scale", .none)]

theorem flags_bits_alpha (b : Nat) (n : Int) :
    flagsF ⟨.quantized_bits, bitsEnv b (.int 0) (.int n) .none .none⟩
      = .ok [⟨none, .int b, toString (b : Int)⟩, ⟨none, .int 0, "0"⟩, ⟨none, .int 0, "0"⟩,
             ⟨some "alpha", .int n, toString n⟩] := by
  have h0 : Int.repr 0 = "0" := by decide
  simp [flagsF, posFlags, kwFlags, posSpec, kwSpec, bitsEnv, Q.get, Env.get, List.lookup, Cond.holds, mkFlag,
    Conv.apply, PyVal.truthy, PyVal.isNone, alphaText, PyVal.isStr,
    PyVal.pyStr, PyVal.pyInt, h0]

theorem flags_bits_axes (b : Nat) (l m : List Int) :
    flagsF ⟨.quantized_bits, bitsEnv b (.bool true) (.str "auto") (.list (l.map Num.int)) (.list (m.map Num.int))⟩
      = .ok [⟨none, .int b, toString (b : Int)⟩, ⟨none, .int 0, "0"⟩, ⟨none, .int 1, "1"⟩,
             ⟨some "alpha", .str "auto", "'auto'"⟩,
             ⟨some "scale_axis", .list (l.map Num.int), listOrScalar (.list (l.map Num.int))⟩,
             ⟨some "elements_per_scale", .list (m.map Num.int), listOrScalar (.list (m.map Num.int))⟩] := by
  have h0 : Int.repr 0 = "0" := by decide
  have h1 : Int.repr 1 = "1" := by decide
  simp [flagsF, posFlags, kwFlags, posSpec, kwSpec, bitsEnv, Q.get, Env.get, List.lookup, Cond.holds, mkFlag,
    Conv.apply, PyVal.truthy, PyVal.isNone, alphaText, PyVal.isStr,
    PyVal.pyStr, PyVal.pyInt, h0, h1]

end QKV.Py
