/- QKV.Lemmas.Layers — helper lemmas for C11 -/
import Mathlib.Tactic
import QKV.Model.Layers
set_option linter.unusedSimpArgs false
namespace QKV.Layers

/-! ### which quantizer slots a layer term applies (one lemma per class: plain case analysis on the
    booleans `call` branches on) -/

theorem applied_dense (c : LCfg) :
    appliedSlots (slotCount .dense) [qlayer .dense c] = reportedLive .dense c := by
  simp only [qlayer, qDense, qw, withAct, reportedLive]
  cases _ha : c.hasAct <;> cases _hb : c.useBias <;> cases _h0 : c.hasQ 0 <;> cases _h1 : c.hasQ 1 <;>
  simp [quantSites, appliedSlots, getQuantizers, slotCount, slotLive, List.range_succ, recip, recipIn, spatialStart, *]

theorem own_dense (c : LCfg) : (quantSites (qlayer .dense c)).all (ownTarget c) = true := by
  simp only [qlayer, qDense, qw, withAct]
  cases _ha : c.hasAct <;> cases _hb : c.useBias <;> cases _h0 : c.hasQ 0 <;> cases _h1 : c.hasQ 1 <;>
  simp [quantSites, ownTarget, recip, recipIn, spatialStart, *]

theorem applied_activation (c : LCfg) :
    appliedSlots (slotCount .activation) [qlayer .activation c] = reportedLive .activation c := by
  simp only [qlayer, qActivation, qw, withAct, reportedLive]
  cases _ha : c.hasAct <;>
  simp [quantSites, appliedSlots, getQuantizers, slotCount, slotLive, List.range_succ, recip, recipIn, spatialStart, *]

theorem own_activation (c : LCfg) : (quantSites (qlayer .activation c)).all (ownTarget c) = true := by
  simp only [qlayer, qActivation, qw, withAct]
  cases _ha : c.hasAct <;>
  simp [quantSites, ownTarget, recip, recipIn, spatialStart, *]

theorem applied_conv1d (c : LCfg) :
    appliedSlots (slotCount .conv1d) [qlayer .conv1d c] = reportedLive .conv1d c := by
  simp only [qlayer, qConv1d, kConv1dOp, qw, withAct, reportedLive]
  by_cases hp : c.conv.padding = .causal <;> cases _ha : c.hasAct <;> cases _hb : c.useBias <;> cases _h0 : c.hasQ 0 <;> cases _h1 : c.hasQ 1 <;>
  simp [quantSites, appliedSlots, getQuantizers, slotCount, slotLive, List.range_succ, recip, recipIn, spatialStart, *]

theorem own_conv1d (c : LCfg) : (quantSites (qlayer .conv1d c)).all (ownTarget c) = true := by
  simp only [qlayer, qConv1d, kConv1dOp, qw, withAct]
  by_cases hp : c.conv.padding = .causal <;> cases _ha : c.hasAct <;> cases _hb : c.useBias <;> cases _h0 : c.hasQ 0 <;> cases _h1 : c.hasQ 1 <;>
  simp [quantSites, ownTarget, recip, recipIn, spatialStart, *]

theorem applied_conv2d (c : LCfg) :
    appliedSlots (slotCount .conv2d) [qlayer .conv2d c] = reportedLive .conv2d c := by
  simp only [qlayer, qConv2d, qw, withAct, reportedLive]
  cases _hm : c.hasMask <;> cases _ha : c.hasAct <;> cases _hb : c.useBias <;> cases _h0 : c.hasQ 0 <;> cases _h1 : c.hasQ 1 <;>
  simp [quantSites, appliedSlots, getQuantizers, slotCount, slotLive, List.range_succ, recip, recipIn, spatialStart, *]

theorem own_conv2d (c : LCfg) : (quantSites (qlayer .conv2d c)).all (ownTarget c) = true := by
  simp only [qlayer, qConv2d, qw, withAct]
  cases _hm : c.hasMask <;> cases _ha : c.hasAct <;> cases _hb : c.useBias <;> cases _h0 : c.hasQ 0 <;> cases _h1 : c.hasQ 1 <;>
  simp [quantSites, ownTarget, recip, recipIn, spatialStart, *]

theorem applied_sepConv1d (c : LCfg) :
    appliedSlots (slotCount .sepConv1d) [qlayer .sepConv1d c] = reportedLive .sepConv1d c := by
  simp only [qlayer, qSepConv1d, qw, withAct, reportedLive]
  by_cases hp : c.conv.padding = .causal <;> cases _ha : c.hasAct <;> cases _hb : c.useBias <;> cases _h0 : c.hasQ 0 <;> cases _h1 : c.hasQ 1 <;> cases _h2 : c.hasQ 2 <;>
  simp [quantSites, appliedSlots, getQuantizers, slotCount, slotLive, List.range_succ, recip, recipIn, spatialStart, *]

theorem own_sepConv1d (c : LCfg) : (quantSites (qlayer .sepConv1d c)).all (ownTarget c) = true := by
  simp only [qlayer, qSepConv1d, qw, withAct]
  by_cases hp : c.conv.padding = .causal <;> cases _ha : c.hasAct <;> cases _hb : c.useBias <;> cases _h0 : c.hasQ 0 <;> cases _h1 : c.hasQ 1 <;> cases _h2 : c.hasQ 2 <;>
  simp [quantSites, ownTarget, recip, recipIn, spatialStart, *]

theorem applied_sepConv2d (c : LCfg) :
    appliedSlots (slotCount .sepConv2d) [qlayer .sepConv2d c] = reportedLive .sepConv2d c := by
  simp only [qlayer, qSepConv2d, qw, withAct, reportedLive]
  cases _ha : c.hasAct <;> cases _hb : c.useBias <;> cases _h0 : c.hasQ 0 <;> cases _h1 : c.hasQ 1 <;> cases _h2 : c.hasQ 2 <;>
  simp [quantSites, appliedSlots, getQuantizers, slotCount, slotLive, List.range_succ, recip, recipIn, spatialStart, *]

theorem own_sepConv2d (c : LCfg) : (quantSites (qlayer .sepConv2d c)).all (ownTarget c) = true := by
  simp only [qlayer, qSepConv2d, qw, withAct]
  cases _ha : c.hasAct <;> cases _hb : c.useBias <;> cases _h0 : c.hasQ 0 <;> cases _h1 : c.hasQ 1 <;> cases _h2 : c.hasQ 2 <;>
  simp [quantSites, ownTarget, recip, recipIn, spatialStart, *]

theorem applied_dwConv2d (c : LCfg) :
    appliedSlots (slotCount .dwConv2d) [qlayer .dwConv2d c] = reportedLive .dwConv2d c := by
  simp only [qlayer, qDwConv2d, qw, withAct, reportedLive]
  cases _ha : c.hasAct <;> cases _hb : c.useBias <;> cases _h0 : c.hasQ 0 <;> cases _h1 : c.hasQ 1 <;>
  simp [quantSites, appliedSlots, getQuantizers, slotCount, slotLive, List.range_succ, recip, recipIn, spatialStart, *]

theorem own_dwConv2d (c : LCfg) : (quantSites (qlayer .dwConv2d c)).all (ownTarget c) = true := by
  simp only [qlayer, qDwConv2d, qw, withAct]
  cases _ha : c.hasAct <;> cases _hb : c.useBias <;> cases _h0 : c.hasQ 0 <;> cases _h1 : c.hasQ 1 <;>
  simp [quantSites, ownTarget, recip, recipIn, spatialStart, *]

theorem applied_avgPool2d (c : LCfg) :
    appliedSlots (slotCount .avgPool2d) [qlayer .avgPool2d c] = reportedLive .avgPool2d c := by
  simp only [qlayer, qAvgPool2d, qw, withAct, reportedLive]
  cases _ha : c.hasAct <;> cases _h0 : c.hasQ 0 <;>
  simp [quantSites, appliedSlots, getQuantizers, slotCount, slotLive, List.range_succ, recip, recipIn, spatialStart, *]

theorem own_avgPool2d (c : LCfg) : (quantSites (qlayer .avgPool2d c)).all (ownTarget c) = true := by
  simp only [qlayer, qAvgPool2d, qw, withAct]
  cases _ha : c.hasAct <;> cases _h0 : c.hasQ 0 <;>
  simp [quantSites, ownTarget, recip, recipIn, spatialStart, *]

theorem applied_globalAvgPool2d (c : LCfg) :
    appliedSlots (slotCount .globalAvgPool2d) [qlayer .globalAvgPool2d c] = reportedLive .globalAvgPool2d c := by
  simp only [qlayer, qGlobalAvgPool2d, qw, withAct, reportedLive]
  cases _ha : c.hasAct <;> cases _h0 : c.hasQ 0 <;>
  simp [quantSites, appliedSlots, getQuantizers, slotCount, slotLive, List.range_succ, recip, recipIn, spatialStart, *]

theorem own_globalAvgPool2d (c : LCfg) : (quantSites (qlayer .globalAvgPool2d c)).all (ownTarget c) = true := by
  simp only [qlayer, qGlobalAvgPool2d, qw, withAct]
  cases _ha : c.hasAct <;> cases _h0 : c.hasQ 0 <;>
  simp [quantSites, ownTarget, recip, recipIn, spatialStart, *]

theorem applied_scaleShift (c : LCfg) :
    appliedSlots (slotCount .scaleShift) [qlayer .scaleShift c] = reportedLive .scaleShift c := by
  simp only [qlayer, qScaleShift, qw, withAct, reportedLive]
  cases _ha : c.hasAct <;> cases _hb : c.useBias <;> cases _h0 : c.hasQ 0 <;> cases _h1 : c.hasQ 1 <;>
  simp [quantSites, appliedSlots, getQuantizers, slotCount, slotLive, List.range_succ, recip, recipIn, spatialStart, *]

theorem own_scaleShift (c : LCfg) : (quantSites (qlayer .scaleShift c)).all (ownTarget c) = true := by
  simp only [qlayer, qScaleShift, qw, withAct]
  cases _ha : c.hasAct <;> cases _hb : c.useBias <;> cases _h0 : c.hasQ 0 <;> cases _h1 : c.hasQ 1 <;>
  simp [quantSites, ownTarget, recip, recipIn, spatialStart, *]

theorem rep_simpleRNN (c : LCfg) :
    appliedSlots 4 (qcell .simpleRNN c) = reportedLiveCell .simpleRNN c ∧
    (qcell .simpleRNN c).all (fun t => (quantSites t).all ownTargetCell) = true := by
  simp only [qcell, qSimpleRNNCell, qw, tAdd, tDot, bAdd, tMul, reportedLiveCell]
  cases _hb : c.useBias <;> cases _h0 : c.hasQ 0 <;> cases _h1 : c.hasQ 1 <;>
    cases _h2 : c.hasQ 2 <;> cases _h3 : c.hasQ 3 <;>
  simp [quantSites, appliedSlots, getQuantizersCell, ownTargetCell, List.range_succ, *]

theorem rep_lstm (c : LCfg) :
    appliedSlots 4 (qcell .lstm c) = reportedLiveCell .lstm c ∧
    (qcell .lstm c).all (fun t => (quantSites t).all ownTargetCell) = true := by
  simp only [qcell, qLSTMCell, qw, tAdd, tDot, bAdd, tMul, reportedLiveCell]
  by_cases hi : c.impl = 1 <;> cases _hb : c.useBias <;> cases _h0 : c.hasQ 0 <;> cases _h1 : c.hasQ 1 <;>
    cases _h2 : c.hasQ 2 <;> cases _h3 : c.hasQ 3 <;>
  simp [quantSites, appliedSlots, getQuantizersCell, ownTargetCell, List.range_succ, *]

theorem rep_gru (c : LCfg) :
    appliedSlots 4 (qcell .gru c) = reportedLiveCell .gru c ∧
    (qcell .gru c).all (fun t => (quantSites t).all ownTargetCell) = true := by
  simp only [qcell, qGRUCell, qw, tAdd, tDot, bAdd, tMul, reportedLiveCell]
  by_cases hi : c.impl = 1 <;> cases _hr : c.resetAfter <;> cases _hb : c.useBias <;> cases _h0 : c.hasQ 0 <;> cases _h1 : c.hasQ 1 <;>
    cases _h2 : c.hasQ 2 <;> cases _h3 : c.hasQ 3 <;>
  simp [quantSites, appliedSlots, getQuantizersCell, ownTargetCell, List.range_succ, *]

end QKV.Layers
