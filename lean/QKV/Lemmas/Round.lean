/-
  QKV.Lemmas.Round — round-to-nearest (any tie rule), clip, and the scaled quantizer `sq`.
-/
import Mathlib.Tactic
import QKV.Lemmas.Pow2
import QKV.Model.FixedQ
namespace QKV

theorem floor_spec (q : ℚ) : ((q.floor : ℤ) : ℚ) ≤ q ∧ q < (q.floor : ℚ) + 1 :=
  ⟨Int.floor_le q, Int.lt_floor_add_one q⟩

theorem floor_intCast (k : ℤ) : (k : ℚ).floor = k := by
  change ⌊(k : ℚ)⌋ = k; simp

theorem floor_mono' {a b : ℚ} (h : a ≤ b) : a.floor ≤ b.floor := Int.floor_mono h

/-- the rounded value is the floor or the floor plus one -/
theorem roundTie_cases (t : Tie) (q : ℚ) : roundTie t q = q.floor ∨ roundTie t q = q.floor + 1 := by
  unfold roundTie
  simp only
  split
  · left; rfl
  · split
    · right; rfl
    · cases t <;> simp only <;> first | (split <;> simp) | simp

theorem roundTie_lo (t : Tie) (q : ℚ) (h : q - (q.floor : ℚ) < 1 / 2) : roundTie t q = q.floor := by
  unfold roundTie; simp only; rw [if_pos h]

theorem roundTie_hi (t : Tie) (q : ℚ) (h : 1 / 2 < q - (q.floor : ℚ)) :
    roundTie t q = q.floor + 1 := by
  unfold roundTie; simp only
  rw [if_neg (by linarith), if_pos h]

/-- (R1) rounding error at most one half, for every tie rule -/
theorem roundTie_err (t : Tie) (q : ℚ) : |((roundTie t q : ℤ) : ℚ) - q| ≤ 1 / 2 := by
  obtain ⟨h1, h2⟩ := floor_spec q
  rw [abs_le]
  rcases lt_trichotomy (q - (q.floor : ℚ)) (1 / 2) with h | h | h
  · rw [roundTie_lo t q h]; constructor <;> linarith
  · rcases roundTie_cases t q with e | e <;> rw [e] <;> push_cast <;> constructor <;> linarith
  · rw [roundTie_hi t q h]; push_cast; constructor <;> linarith

/-- (R3) integers are fixed points -/
theorem roundTie_int (t : Tie) (k : ℤ) : roundTie t (k : ℚ) = k := by
  have := roundTie_lo t (k : ℚ) (by rw [floor_intCast]; norm_num)
  rw [this, floor_intCast]

/-- (R2) monotone, for every tie rule -/
theorem roundTie_mono (t : Tie) {a b : ℚ} (h : a ≤ b) : roundTie t a ≤ roundTie t b := by
  have hf := floor_mono' h
  rcases lt_or_eq_of_le hf with hlt | heq
  · rcases roundTie_cases t a with ea | ea <;> rcases roundTie_cases t b with eb | eb <;>
      rw [ea, eb] <;> omega
  · rcases lt_trichotomy (a - (a.floor : ℚ)) (1 / 2) with ha | ha | ha
    · rw [roundTie_lo t a ha]
      rcases roundTie_cases t b with eb | eb <;> rw [eb] <;> omega
    · rcases lt_trichotomy (b - (b.floor : ℚ)) (1 / 2) with hb | hb | hb
      · exfalso
        have : ((a.floor : ℤ) : ℚ) = ((b.floor : ℤ) : ℚ) := by rw [heq]
        linarith
      · have : a = b := by
          have : ((a.floor : ℤ) : ℚ) = ((b.floor : ℤ) : ℚ) := by rw [heq]
          linarith
        rw [this]
      · rw [roundTie_hi t b hb]
        rcases roundTie_cases t a with ea | ea <;> rw [ea] <;> omega
    · have hb : 1 / 2 < b - (b.floor : ℚ) := by
        have : ((a.floor : ℤ) : ℚ) = ((b.floor : ℤ) : ℚ) := by rw [heq]
        linarith
      rw [roundTie_hi t a ha, roundTie_hi t b hb]; omega

/-! ### clip -/

theorem iclip_eq (k lo hi : ℤ) : iclip k lo hi = min (max k lo) hi := by
  unfold iclip; rw [imin_eq_min, imax_eq_max]

theorem iclip_bounds {k lo hi : ℤ} (h : lo ≤ hi) : lo ≤ iclip k lo hi ∧ iclip k lo hi ≤ hi := by
  rw [iclip_eq]; constructor
  · exact le_min (le_max_right _ _) h
  · exact min_le_right _ _

theorem iclip_id {k lo hi : ℤ} (h1 : lo ≤ k) (h2 : k ≤ hi) : iclip k lo hi = k := by
  rw [iclip_eq, max_eq_left h1, min_eq_left h2]

theorem iclip_mono {k k' lo hi : ℤ} (h : k ≤ k') : iclip k lo hi ≤ iclip k' lo hi := by
  rw [iclip_eq, iclip_eq]; exact min_le_min (max_le_max h le_rfl) le_rfl

/-! ### round-then-clip -/

theorem rc_bounds (t : Tie) (p : ℚ) {lo hi : ℤ} (h : lo ≤ hi) :
    lo ≤ rc t p lo hi ∧ rc t p lo hi ≤ hi := iclip_bounds h

theorem rc_mono (t : Tie) {p p' : ℚ} (lo hi : ℤ) (h : p ≤ p') : rc t p lo hi ≤ rc t p' lo hi :=
  iclip_mono (roundTie_mono t h)

theorem rc_int (t : Tie) {k lo hi : ℤ} (h1 : lo ≤ k) (h2 : k ≤ hi) : rc t (k : ℚ) lo hi = k := by
  unfold rc; rw [roundTie_int]; exact iclip_id h1 h2

theorem rc_inrange (t : Tie) {p : ℚ} {lo hi : ℤ} (h1 : (lo : ℚ) ≤ p) (h2 : p ≤ (hi : ℚ)) :
    rc t p lo hi = roundTie t p := by
  unfold rc
  apply iclip_id
  · have := roundTie_mono t h1; rwa [roundTie_int] at this
  · have := roundTie_mono t h2; rwa [roundTie_int] at this

theorem rc_err (t : Tie) {p : ℚ} {lo hi : ℤ} (h1 : (lo : ℚ) ≤ p) (h2 : p ≤ (hi : ℚ)) :
    |((rc t p lo hi : ℤ) : ℚ) - p| ≤ 1 / 2 := by
  rw [rc_inrange t h1 h2]; exact roundTie_err t p

theorem rc_sat_hi (t : Tie) {p : ℚ} {lo hi : ℤ} (h : lo ≤ hi) (h2 : (hi : ℚ) ≤ p) :
    rc t p lo hi = hi := by
  have hm := roundTie_mono t h2
  rw [roundTie_int] at hm
  unfold rc; rw [iclip_eq]
  rw [min_eq_right (le_trans hm (le_max_left _ _))]

theorem rc_sat_lo (t : Tie) {p : ℚ} {lo hi : ℤ} (h : lo ≤ hi) (h1 : p ≤ (lo : ℚ)) :
    rc t p lo hi = lo := by
  have hm := roundTie_mono t h1
  rw [roundTie_int] at hm
  unfold rc; rw [iclip_eq, max_eq_right hm, min_eq_left h]

/-- no code of the range is strictly closer to `p` than the chosen one (for `p` in range) -/
theorem rc_nearest (t : Tie) {p : ℚ} {lo hi : ℤ} (h1 : (lo : ℚ) ≤ p) (h2 : p ≤ (hi : ℚ)) (k : ℤ) :
    |((rc t p lo hi : ℤ) : ℚ) - p| ≤ |(k : ℚ) - p| := by
  have he := rc_err t h1 h2
  by_contra hc
  push Not at hc
  -- |k - p| < 1/2 and |rc - p| ≤ 1/2 force k = rc, contradiction with strictness
  set r := rc t p lo hi with hr
  have h3 : |(k : ℚ) - p| < 1 / 2 := lt_of_lt_of_le hc he
  have h4 : |((k - r : ℤ) : ℚ)| < 1 := by
    have : ((k - r : ℤ) : ℚ) = ((k : ℚ) - p) - ((r : ℚ) - p) := by push_cast; ring
    rw [this]
    calc |((k : ℚ) - p) - ((r : ℚ) - p)| ≤ |(k : ℚ) - p| + |(r : ℚ) - p| := abs_sub _ _
      _ < 1 / 2 + 1 / 2 := by linarith
      _ = 1 := by norm_num
  have h5 : k - r = 0 := by
    have : |k - r| < 1 := by exact_mod_cast h4
    rw [abs_lt] at this; omega
  have : k = r := by omega
  rw [this] at hc
  exact lt_irrefl _ hc

/-! ### the scaled quantizer  `g * rc(x / s) * s` -/

/-- generic fixed-point quantization: scale by `1/s`, round, clip to `[lo,hi]`, rescale, gain -/
def sq (t : Tie) (s : ℚ) (lo hi : ℤ) (g : ℚ) (x : ℚ) : ℚ := g * ((rc t (x / s) lo hi : ℤ) : ℚ) * s

theorem sq_lattice (t : Tie) (s : ℚ) {lo hi : ℤ} (g x : ℚ) (h : lo ≤ hi) :
    ∃ k : ℤ, lo ≤ k ∧ k ≤ hi ∧ sq t s lo hi g x = g * (k : ℚ) * s :=
  ⟨rc t (x / s) lo hi, (rc_bounds t _ h).1, (rc_bounds t _ h).2, rfl⟩

theorem sq_nearest (t : Tie) {s : ℚ} (hs : 0 < s) {lo hi : ℤ} {x : ℚ}
    (h1 : (lo : ℚ) * s ≤ x) (h2 : x ≤ (hi : ℚ) * s) : |sq t s lo hi 1 x - x| ≤ s / 2 := by
  have e := rc_err t (p := x / s) (lo := lo) (hi := hi) (by rw [le_div_iff₀ hs]; exact h1)
    (by rw [div_le_iff₀ hs]; exact h2)
  unfold sq
  have : (1 : ℚ) * ((rc t (x / s) lo hi : ℤ) : ℚ) * s - x = (((rc t (x / s) lo hi : ℤ) : ℚ) - x / s) * s := by
    field_simp
  rw [this, abs_mul, abs_of_pos hs]
  nlinarith [abs_nonneg (((rc t (x / s) lo hi : ℤ) : ℚ) - x / s)]

theorem sq_code_nearest (t : Tie) {s : ℚ} (hs : 0 < s) {lo hi : ℤ} {x : ℚ}
    (h1 : (lo : ℚ) * s ≤ x) (h2 : x ≤ (hi : ℚ) * s) (k : ℤ) :
    |sq t s lo hi 1 x - x| ≤ |(k : ℚ) * s - x| := by
  have e := rc_nearest t (p := x / s) (lo := lo) (hi := hi) (by rw [le_div_iff₀ hs]; exact h1)
    (by rw [div_le_iff₀ hs]; exact h2) k
  unfold sq
  have a1 : (1 : ℚ) * ((rc t (x / s) lo hi : ℤ) : ℚ) * s - x = (((rc t (x / s) lo hi : ℤ) : ℚ) - x / s) * s := by
    field_simp
  have a2 : (k : ℚ) * s - x = ((k : ℚ) - x / s) * s := by field_simp
  rw [a1, a2, abs_mul, abs_mul, abs_of_pos hs]
  exact mul_le_mul_of_nonneg_right e hs.le

theorem sq_sat_hi (t : Tie) {s : ℚ} (hs : 0 < s) {lo hi : ℤ} (g : ℚ) {x : ℚ} (h : lo ≤ hi)
    (h2 : (hi : ℚ) * s ≤ x) : sq t s lo hi g x = g * (hi : ℚ) * s := by
  unfold sq; rw [rc_sat_hi t h (by rw [le_div_iff₀ hs]; exact h2)]

theorem sq_sat_lo (t : Tie) {s : ℚ} (hs : 0 < s) {lo hi : ℤ} (g : ℚ) {x : ℚ} (h : lo ≤ hi)
    (h1 : x ≤ (lo : ℚ) * s) : sq t s lo hi g x = g * (lo : ℚ) * s := by
  unfold sq; rw [rc_sat_lo t h (by rw [div_le_iff₀ hs]; exact h1)]

theorem sq_mono (t : Tie) {s : ℚ} (hs : 0 < s) (lo hi : ℤ) {g : ℚ} (hg : 0 ≤ g) {x y : ℚ}
    (h : x ≤ y) : sq t s lo hi g x ≤ sq t s lo hi g y := by
  unfold sq
  have : ((rc t (x / s) lo hi : ℤ) : ℚ) ≤ ((rc t (y / s) lo hi : ℤ) : ℚ) := by
    exact_mod_cast rc_mono t lo hi (div_le_div_of_nonneg_right h hs.le)
  have := mul_le_mul_of_nonneg_left this hg
  nlinarith

theorem sq_idem (t : Tie) {s : ℚ} (hs : 0 < s) {lo hi : ℤ} (h : lo ≤ hi) (x : ℚ) :
    sq t s lo hi 1 (sq t s lo hi 1 x) = sq t s lo hi 1 x := by
  obtain ⟨k, h1, h2, hk⟩ := sq_lattice t s 1 x h
  rw [hk]
  unfold sq
  have : (1 : ℚ) * (k : ℚ) * s / s = (k : ℚ) := by field_simp
  rw [this, rc_int t h1 h2]

/-- every code is a fixed point -/
theorem sq_code (t : Tie) {s : ℚ} (hs : 0 < s) {lo hi k : ℤ} (h1 : lo ≤ k) (h2 : k ≤ hi) :
    sq t s lo hi 1 ((k : ℚ) * s) = (k : ℚ) * s := by
  unfold sq
  have : (k : ℚ) * s / s = (k : ℚ) := by field_simp
  rw [this, rc_int t h1 h2]; ring

end QKV
