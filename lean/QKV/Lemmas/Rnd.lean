/- facts about the executable IEEE rounding `rndP` of QKV.Model.QNoise (C07) -/
import Mathlib.Tactic
import QKV.Lemmas.Pow2
import QKV.Model.QNoise
namespace QKV.QNoise
open QKV

theorem rfloor_eq (r : ℚ) : r.floor = ⌊r⌋ := rfl

theorem rhe_bounds (x : ℚ) : x - 1 / 2 ≤ (roundHalfEven x : ℚ) ∧ (roundHalfEven x : ℚ) ≤ x + 1 / 2 := by
  have h1 : (x.floor : ℚ) ≤ x := Int.floor_le x
  have h2 : x < (x.floor : ℚ) + 1 := Int.lt_floor_add_one x
  unfold roundHalfEven
  by_cases a : x - (x.floor : ℚ) < 1 / 2
  · simp only [if_pos a]; constructor <;> linarith
  · simp only [if_neg a]
    by_cases b : 1 / 2 < x - (x.floor : ℚ)
    · simp only [if_pos b]; push_cast; constructor <;> linarith
    · simp only [if_neg b]
      by_cases c : x.floor % 2 = 0
      · simp only [if_pos c]; constructor <;> linarith
      · simp only [if_neg c]; push_cast; constructor <;> linarith

theorem rhe_int (n : ℤ) : roundHalfEven (n : ℚ) = n := by
  have hf : (n : ℚ).floor = n := by
    show ⌊(n : ℚ)⌋ = n
    exact Int.floor_intCast n
  unfold roundHalfEven
  simp only [hf, sub_self]
  norm_num

theorem rhe_mono {x y : ℚ} (h : x ≤ y) : roundHalfEven x ≤ roundHalfEven y := by
  by_contra hc
  rw [not_le] at hc
  have hx := rhe_bounds x
  have hy := rhe_bounds y
  have h1 : (roundHalfEven y : ℚ) + 1 ≤ roundHalfEven x := by exact_mod_cast hc
  -- forces x = y, contradiction with hc
  have hxy : x = y := by linarith [hx.2, hy.1]
  subst hxy
  exact lt_irrefl _ hc

theorem rndP_zero (p : ℕ) (emin : ℤ) : rndP p emin 0 = 0 := by simp [rndP]

theorem floorLog2Rat_one : floorLog2Rat 1 = 0 := by
  simp [floorLog2Rat, Nat.log2]

theorem rndP_one (p : ℕ) (emin : ℤ) (hp : 1 ≤ p) (he : emin ≤ 0) : rndP p emin 1 = 1 := by
  have h1 : rabs 1 = 1 := by simp [rabs]
  unfold rndP
  simp only [h1, floorLog2Rat_one, one_ne_zero, if_false]
  have hm : imax 0 emin = 0 := by simp [imax_eq_max, he]
  rw [hm]
  have hu : (1 : ℚ) / pow2 (0 - ((p : ℤ) - 1)) = (((2 : ℤ) ^ (p - 1) : ℤ) : ℚ) := by
    rw [pow2_eq_zpow]
    have : (0 : ℤ) - ((p : ℤ) - 1) = -(((p - 1 : ℕ)) : ℤ) := by
      rw [Nat.cast_sub hp]; ring
    rw [this, zpow_neg, one_div, inv_inv, zpow_natCast]
    push_cast; rfl
  rw [hu, rhe_int, ← hu]
  field_simp [pow2_ne_zero]

theorem rnd64_zero : rnd64 0 = 0 := rndP_zero _ _
theorem rnd64_one : rnd64 1 = 1 := rndP_one 53 (-1022) (by norm_num) (by norm_num)
theorem rnd32_zero : rnd32 0 = 0 := rndP_zero _ _
theorem rnd32_one : rnd32 1 = 1 := rndP_one 24 (-126) (by norm_num) (by norm_num)


/-! ## `floorLog2Rat` really is ⌊log2⌋, and `rndP` is monotone on the non-negatives -/

theorem clog2_lower {n : ℕ} (h : 2 ≤ n) : 2 ^ (clog2 n - 1) < n := by
  unfold clog2
  have h1 : ¬ n ≤ 1 := by omega
  simp only [h1, if_false, Nat.add_sub_cancel]
  have := Nat.log2_self_le (n := n - 1) (by omega)
  omega

theorem clog2_pos {n : ℕ} (h : 2 ≤ n) : 1 ≤ clog2 n := by
  unfold clog2
  have h1 : ¬ n ≤ 1 := by omega
  simp only [h1, if_false]
  omega

theorem pow2_neg_nat (k : ℕ) : pow2 (-(k : ℤ)) = 1 / ((2 : ℚ) ^ k) := by
  rw [pow2_eq_zpow, zpow_neg, zpow_natCast, one_div]

theorem pow2_nat' (k : ℕ) : pow2 (k : ℤ) = (2 : ℚ) ^ k := by
  rw [pow2_eq_zpow, zpow_natCast]

theorem floorLog2Rat_spec (q : ℚ) (hq : 0 < q) :
    pow2 (floorLog2Rat q) ≤ q ∧ q < pow2 (floorLog2Rat q + 1) := by
  have hnum : 0 < q.num := Rat.num_pos.mpr hq
  obtain ⟨n, hn⟩ : ∃ n : ℕ, q.num = (n : ℤ) := ⟨q.num.toNat, (Int.toNat_of_nonneg hnum.le).symm⟩
  have hn0 : 0 < n := by
    have : (0 : ℤ) < (n : ℤ) := hn ▸ hnum
    exact_mod_cast this
  have hd : 0 < q.den := q.den_pos
  have hdq : (0 : ℚ) < (q.den : ℚ) := by exact_mod_cast hd
  have hnq : (0 : ℚ) < (n : ℚ) := by exact_mod_cast hn0
  have hq' : q = (n : ℚ) / (q.den : ℚ) := by
    have := Rat.num_div_den q
    rw [hn] at this
    rw [Int.cast_natCast] at this
    exact this.symm
  have htn : q.num.toNat = n := by rw [hn]; simp
  unfold floorLog2Rat
  simp only [htn]
  set d := q.den with hd_def
  by_cases hdn : d ≤ n
  · rw [if_pos hdn]
    set m := n / d with hm
    have hm0 : m ≠ 0 := by
      have : 0 < n / d := Nat.div_pos hdn hd
      omega
    have e1 : 2 ^ m.log2 ≤ m := Nat.log2_self_le hm0
    have e2 : m < 2 ^ (m.log2 + 1) := Nat.lt_log2_self
    have e3 : m * d ≤ n := Nat.div_mul_le_self n d
    have e4 : n < d * (m + 1) := Nat.lt_mul_div_succ n hd
    have c1 : ((2 : ℚ) ^ m.log2) ≤ (m : ℚ) := by exact_mod_cast e1
    have c2 : (m : ℚ) + 1 ≤ (2 : ℚ) ^ (m.log2 + 1) := by exact_mod_cast e2
    have c3 : (m : ℚ) * (d : ℚ) ≤ (n : ℚ) := by exact_mod_cast e3
    have c4 : (n : ℚ) < (d : ℚ) * ((m : ℚ) + 1) := by exact_mod_cast e4
    constructor
    · rw [pow2_nat', hq', le_div_iff₀ hdq]
      nlinarith
    · have : ((m.log2 : ℕ) : ℤ) + 1 = ((m.log2 + 1 : ℕ) : ℤ) := by push_cast; rfl
      rw [this, pow2_nat', hq', div_lt_iff₀ hdq]
      nlinarith
  · rw [if_neg hdn]
    have hnd : n < d := by omega
    set c := (d + n - 1) / n with hc
    have f1 : c * n ≤ d + n - 1 := Nat.div_mul_le_self _ _
    have f2 : d + n - 1 < n * (c + 1) := Nat.lt_mul_div_succ _ hn0
    have f2' : n * (c + 1) = c * n + n := by ring
    have f3 : d ≤ c * n := by omega
    have f4 : c * n < d + n := by omega
    have hc2 : 2 ≤ c := by
      by_contra hh
      have : c ≤ 1 := by omega
      have : c * n ≤ 1 * n := Nat.mul_le_mul_right n this
      omega
    set k := clog2 c with hk
    have g1 : c ≤ 2 ^ k := le_two_pow_clog2 c
    have g2 : 2 ^ (k - 1) < c := clog2_lower hc2
    have g3 : 1 ≤ k := clog2_pos hc2
    have cd : (d : ℚ) ≤ (c : ℚ) * (n : ℚ) := by exact_mod_cast f3
    have cd2 : (c : ℚ) * (n : ℚ) < (d : ℚ) + (n : ℚ) := by exact_mod_cast f4
    have cg1 : (c : ℚ) ≤ (2 : ℚ) ^ k := by exact_mod_cast g1
    have cg2 : (2 : ℚ) ^ (k - 1) + 1 ≤ (c : ℚ) := by exact_mod_cast g2
    have p2k : (0 : ℚ) < (2 : ℚ) ^ k := by positivity
    have p2k1 : (0 : ℚ) < (2 : ℚ) ^ (k - 1) := by positivity
    constructor
    · rw [pow2_neg_nat, hq', div_le_div_iff₀ p2k hdq]
      nlinarith
    · have : -((k : ℕ) : ℤ) + 1 = -(((k - 1 : ℕ)) : ℤ) := by
        rw [Nat.cast_sub g3]; ring
      rw [this, pow2_neg_nat, hq', div_lt_div_iff₀ hdq p2k1]
      nlinarith

theorem floorLog2Rat_mono {a b : ℚ} (ha : 0 < a) (hab : a ≤ b) : floorLog2Rat a ≤ floorLog2Rat b := by
  have sa := floorLog2Rat_spec a ha
  have sb := floorLog2Rat_spec b (lt_of_lt_of_le ha hab)
  by_contra h
  rw [not_le] at h
  have := pow2_le_pow2 (show floorLog2Rat b + 1 ≤ floorLog2Rat a by omega)
  linarith [sa.1, sb.2]

theorem rabs_pos {r : ℚ} (h : 0 < r) : rabs r = r := by
  simp [rabs, not_lt.mpr h.le]

theorem rndP_pos_form (p : ℕ) (emin : ℤ) {r : ℚ} (hr : 0 < r) :
    rndP p emin r =
      ((roundHalfEven (r / pow2 (imax (floorLog2Rat r) emin - ((p : ℤ) - 1))) : ℤ) : ℚ) *
        pow2 (imax (floorLog2Rat r) emin - ((p : ℤ) - 1)) := by
  unfold rndP
  rw [if_neg hr.ne', rabs_pos hr]

theorem rndP_nonneg (p : ℕ) (emin : ℤ) {r : ℚ} (hr : 0 ≤ r) : 0 ≤ rndP p emin r := by
  rcases hr.eq_or_lt with h | h
  · rw [← h, rndP_zero]
  · rw [rndP_pos_form p emin h]
    apply mul_nonneg _ (pow2_pos _).le
    have : roundHalfEven ((0 : ℤ) : ℚ) ≤ roundHalfEven (r / pow2 (imax (floorLog2Rat r) emin - ((p : ℤ) - 1))) :=
      rhe_mono (by push_cast; exact div_nonneg h.le (pow2_pos _).le)
    rw [rhe_int] at this
    exact_mod_cast this

theorem rndP_mono_nonneg (p : ℕ) (emin : ℤ) (hp : 1 ≤ p) {a b : ℚ} (ha : 0 ≤ a) (hab : a ≤ b) :
    rndP p emin a ≤ rndP p emin b := by
  rcases ha.eq_or_lt with h | ha'
  · rw [← h, rndP_zero]; exact rndP_nonneg p emin (h ▸ hab)
  have hb' : 0 < b := lt_of_lt_of_le ha' hab
  rw [rndP_pos_form p emin ha', rndP_pos_form p emin hb']
  simp only [imax_eq_max]
  set Ea := max (floorLog2Rat a) emin with hEa
  set Eb := max (floorLog2Rat b) emin with hEb
  have hE : Ea ≤ Eb := max_le_max (floorLog2Rat_mono ha' hab) le_rfl
  have hua := pow2_pos (Ea - ((p : ℤ) - 1))
  have hub := pow2_pos (Eb - ((p : ℤ) - 1))
  rcases hE.eq_or_lt with he | hlt
  · rw [← he]
    apply mul_le_mul_of_nonneg_right _ hua.le
    have : roundHalfEven (a / pow2 (Ea - ((p : ℤ) - 1))) ≤ roundHalfEven (b / pow2 (Ea - ((p : ℤ) - 1))) :=
      rhe_mono (div_le_div_of_nonneg_right hab hua.le)
    exact_mod_cast this
  · -- different binades: rnd a ≤ 2^(Ea+1) ≤ 2^Eb ≤ rnd b
    have sa := floorLog2Rat_spec a ha'
    have sb := floorLog2Rat_spec b hb'
    have hEbn : Eb = floorLog2Rat b := by
      by_contra hne
      have : Eb = emin := by
        rcases max_choice (floorLog2Rat b) emin with h | h
        · exact absurd (hEb.trans h) hne
        · exact hEb.trans h
      have : emin ≤ Ea := le_max_right _ _
      omega
    -- upper bound for a
    have up : ((roundHalfEven (a / pow2 (Ea - ((p : ℤ) - 1))) : ℤ) : ℚ) * pow2 (Ea - ((p : ℤ) - 1)) ≤ pow2 (Ea + 1) := by
      have hsplit : pow2 (Ea + 1) = (((2 : ℤ) ^ p : ℤ) : ℚ) * pow2 (Ea - ((p : ℤ) - 1)) := by
        have : Ea + 1 = (p : ℤ) + (Ea - ((p : ℤ) - 1)) := by ring
        rw [this, pow2_add, pow2_nat']; push_cast; rfl
      rw [hsplit]
      apply mul_le_mul_of_nonneg_right _ hua.le
      have hle : a / pow2 (Ea - ((p : ℤ) - 1)) ≤ (((2 : ℤ) ^ p : ℤ) : ℚ) := by
        rw [div_le_iff₀ hua, ← hsplit]
        have : pow2 (floorLog2Rat a + 1) ≤ pow2 (Ea + 1) := pow2_le_pow2 (by have := le_max_left (floorLog2Rat a) emin; omega)
        linarith [sa.2]
      have := rhe_mono hle
      rw [rhe_int] at this
      exact_mod_cast this
    have lo : pow2 Eb ≤ ((roundHalfEven (b / pow2 (Eb - ((p : ℤ) - 1))) : ℤ) : ℚ) * pow2 (Eb - ((p : ℤ) - 1)) := by
      have hsplit : pow2 Eb = (((2 : ℤ) ^ (p - 1) : ℤ) : ℚ) * pow2 (Eb - ((p : ℤ) - 1)) := by
        have : Eb = ((p - 1 : ℕ) : ℤ) + (Eb - ((p : ℤ) - 1)) := by rw [Nat.cast_sub hp]; ring
        conv_lhs => rw [this]
        rw [pow2_add, pow2_nat']; push_cast; rfl
      rw [hsplit]
      apply mul_le_mul_of_nonneg_right _ hub.le
      have hle : (((2 : ℤ) ^ (p - 1) : ℤ) : ℚ) ≤ b / pow2 (Eb - ((p : ℤ) - 1)) := by
        rw [le_div_iff₀ hub, ← hsplit, hEbn]
        exact sb.1
      have := rhe_mono hle
      rw [rhe_int] at this
      exact_mod_cast this
    have mid : pow2 (Ea + 1) ≤ pow2 Eb := pow2_le_pow2 (by omega)
    linarith

theorem rnd64_mono_nonneg {a b : ℚ} (ha : 0 ≤ a) (hab : a ≤ b) : rnd64 a ≤ rnd64 b :=
  rndP_mono_nonneg 53 (-1022) (by norm_num) ha hab

theorem rnd32_mono_nonneg {a b : ℚ} (ha : 0 ≤ a) (hab : a ≤ b) : rnd32 a ≤ rnd32 b :=
  rndP_mono_nonneg 24 (-126) (by norm_num) ha hab

end QKV.QNoise
