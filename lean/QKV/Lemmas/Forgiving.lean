/-
  QKV.Lemmas.Forgiving — `ForgivingFactor.delta` over the reals (Mathlib `Real.log`) and the
  bit-size model as a sum over tensors.
-/
import Mathlib.Analysis.SpecialFunctions.Log.Basic
import Mathlib.Tactic
import QKV.Model.Forgiving
namespace QKV.Forgiving
open Real

/-- `ForgivingFactor.delta()` exactly as written in forgiving_factor.py, over ℝ:
    `np.where(trial < ref, δp * (log(ref/trial) / log(rate)), δn * (log(ref/trial) / log(rate)))`.
    It is the model's `deltaWith` instantiated with real multiplication, division and `Real.log`. -/
noncomputable def delta (δp δn rate ref trial : ℝ) : ℝ :=
  deltaWith (· * ·) (· / ·) (decide (trial < ref)) δp δn (Real.log (ref / trial)) (Real.log rate)

theorem delta_eq (δp δn rate ref trial : ℝ) :
    delta δp δn rate ref trial =
      if trial < ref then δp * (Real.log (ref / trial) / Real.log rate)
      else δn * (Real.log (ref / trial) / Real.log rate) := by
  unfold delta deltaWith
  by_cases h : trial < ref <;> simp [h]

theorem delta_self (δp δn rate ref : ℝ) : delta δp δn rate ref ref = 0 := by
  rw [delta_eq]
  simp only [lt_irrefl, if_false]
  by_cases h : ref = 0
  · simp [h]
  · simp [div_self h]

theorem delta_pos_of_lt {δp δn rate ref trial : ℝ} (hp : 0 < δp) (hr : 1 < rate) (ht : 0 < trial)
    (h : trial < ref) : 0 < delta δp δn rate ref trial := by
  rw [delta_eq]
  simp only [h, if_true]
  have h1 : 1 < ref / trial := by rw [lt_div_iff₀ ht]; linarith
  have : 0 < Real.log (ref / trial) := Real.log_pos h1
  have : 0 < Real.log rate := Real.log_pos hr
  positivity

theorem delta_neg_of_gt {δp δn rate ref trial : ℝ} (hn : 0 < δn) (hr : 1 < rate) (h0 : 0 < ref)
    (h : ref < trial) : delta δp δn rate ref trial < 0 := by
  rw [delta_eq]
  have hnl : ¬ trial < ref := not_lt.mpr h.le
  simp only [hnl, if_false]
  have ht : 0 < trial := lt_trans h0 h
  have h1 : ref / trial < 1 := by rw [div_lt_one ht]; exact h
  have h2 : 0 < ref / trial := div_pos h0 ht
  have hl : Real.log (ref / trial) < 0 := Real.log_neg h2 h1
  have hlr : 0 < Real.log rate := Real.log_pos hr
  have : Real.log (ref / trial) / Real.log rate < 0 := div_neg_of_neg_of_pos hl hlr
  exact mul_neg_of_pos_of_neg hn this

/-- the common factor `log(ref/t) / log(rate)` is strictly decreasing in `t` on `(0, ∞)` -/
theorem logRatio_strictAnti {rate ref : ℝ} (hr : 1 < rate) (h0 : 0 < ref) {t1 t2 : ℝ}
    (h1 : 0 < t1) (h12 : t1 < t2) :
    Real.log (ref / t2) / Real.log rate < Real.log (ref / t1) / Real.log rate := by
  have hlr : 0 < Real.log rate := Real.log_pos hr
  have h2 : 0 < t2 := lt_trans h1 h12
  have : ref / t2 < ref / t1 := div_lt_div_of_pos_left h0 h1 h12
  have : Real.log (ref / t2) < Real.log (ref / t1) := Real.log_lt_log (div_pos h0 h2) this
  exact div_lt_div_of_pos_right this hlr

theorem delta_strictAntiOn {δp δn rate ref : ℝ} (hp : 0 < δp) (hn : 0 < δn) (hr : 1 < rate)
    (h0 : 0 < ref) : StrictAntiOn (delta δp δn rate ref) (Set.Ioi 0) := by
  intro t1 ht1 t2 ht2 h12
  simp only [Set.mem_Ioi] at ht1 ht2
  by_cases hb : t2 < ref
  · -- both below the reference
    have ha : t1 < ref := lt_trans h12 hb
    rw [delta_eq, delta_eq]
    simp only [ha, hb, if_true]
    exact mul_lt_mul_of_pos_left (logRatio_strictAnti hr h0 ht1 h12) hp
  · by_cases ha : t1 < ref
    · -- t1 below, t2 at or above
      have hpos := delta_pos_of_lt (δn := δn) hp hr ht1 ha
      have hle : delta δp δn rate ref t2 ≤ 0 := by
        rcases (not_lt.mp hb).eq_or_lt with heq | hlt
        · rw [← heq, delta_self]
        · exact (delta_neg_of_gt (δp := δp) hn hr h0 hlt).le
      linarith
    · rw [delta_eq, delta_eq]
      simp only [ha, hb, if_false]
      exact mul_lt_mul_of_pos_left (logRatio_strictAnti hr h0 ht1 h12) hn

/-! ## the object protocol (`get_reference` → `get_trial`* → `delta`) -/

/-- the attribute `delta()` reads after `get_reference` is the value `get_reference` returned:
    fresh or cached object, any stress, any number type -/
theorem getReference_attr {α : Type} (mul : α → α → α) (o : FFB α) (size : α) :
    (getReference mul o size).2.referenceSize = some (getReference mul o size).1 := by
  unfold getReference
  cases h : o.referenceSize with
  | none => rfl
  | some r => simp [h]

theorem getReference_fresh {α : Type} (mul : α → α → α) (o : FFB α) (size : α)
    (h : o.referenceSize = none) : (getReference mul o size).1 = mul size o.stress := by
  unfold getReference; rw [h]

/-- the cache: a second `get_reference` (any model, stress changed in between or not) returns the first
    value and leaves the object alone -/
theorem getReference_cached {α : Type} (mul : α → α → α) (o : FFB α) (s1 s2 σ : α) :
    getReference mul { (getReference mul o s1).2 with stress := σ } s2 =
      ((getReference mul o s1).1, { (getReference mul o s1).2 with stress := σ }) := by
  have h := getReference_attr mul o s1
  unfold getReference at h ⊢
  cases h0 : o.referenceSize with
  | none => simp
  | some r => simp [h0]

/-- `get_trial` on a list of models, one after the other -/
def trials {α : Type} (o : FFB α) (ts : List α) : FFB α := ts.foldl (fun o t => (getTrial o t).2) o

theorem trials_reference {α : Type} (ts : List α) : ∀ o : FFB α, (trials o ts).referenceSize = o.referenceSize := by
  induction ts with
  | nil => intro o; rfl
  | cons t ts ih => intro o; unfold trials; simp only [List.foldl_cons]; exact (ih _).trans rfl

theorem trials_last {α : Type} (o : FFB α) (ts : List α) (t : α) :
    (trials o (ts ++ [t])).trialSize = some t := by
  unfold trials
  rw [List.foldl_append]
  rfl

/-- scoring through the API on ONE object: whatever trials were sized before, `delta()` after
    `get_trial(model)` is the formula at (the value `get_reference` RETURNED, the size of that trial) -/
theorem deltaObj_api {α : Type} (mul : α → α → α) (dl : α → α → α) (o : FFB α) (refSize : α)
    (ts : List α) (t : α) :
    deltaObj dl (trials (getReference mul o refSize).2 (ts ++ [t])) =
      some (dl (getReference mul o refSize).1 t) := by
  unfold deltaObj
  rw [trials_reference, trials_last, getReference_attr]

/-! ## size model -/

/-- the tensors the property talks about: (elements, bits of the applied quantizer if any) -/
def weightTensorBits (ref : Int) (w : Nat × Option Int) : Int := (w.2.getD ref) * (w.1 : Int)

theorem paramSize_plain (c : SzCfg) (L : SzLayer) (h : L.cls ∈ PLAIN) :
    paramSize c L = (L.weights.map fun w => c.refBits * (w.1 : Int)).sum := by
  unfold paramSize; simp [h]

theorem paramSize_q (c : SzCfg) (L : SzLayer) (h : L.cls ∈ QPLAIN) :
    paramSize c L = (L.weights.map (weightTensorBits c.refBits)).sum := by
  unfold paramSize
  have hn : L.cls ∉ PLAIN := by
    intro hp
    simp only [PLAIN, QPLAIN, List.mem_cons, List.mem_nil_iff, or_false] at hp h
    rcases hp with hp | hp | hp | hp <;> rw [hp] at h <;> simp at h
  simp only [hn, h, if_false, if_true]
  rfl

/-- bits per element of a weight tensor: the applied quantizer's width on a Q layer, the
    reference width where none is applied -/
def weightBits (c : SzCfg) (L : SzLayer) (w : Nat × Option Int) : Int :=
  if L.cls ∈ QPLAIN then w.2.getD c.refBits else c.refBits

/-- bits per element of the output (activation) tensor: nothing for a linear activation,
    `output_bits` for softmax (and sigmoid on (Q)Activation layers), the activation quantizer's
    width, else the reference width -/
def actBitsSpec (c : SzCfg) (L : SzLayer) : Int :=
  if L.actNone then 0
  else if L.actName = some "linear" then 0
  else if L.cls ∈ PLAIN then c.refBits
  else if L.actName = some "softmax" then c.outputBits
  else if L.cls ∉ QPLAIN ∧ L.actName = some "sigmoid" then c.outputBits
  else L.actBits.getD c.refBits

/-- elements × bits summed over the tensors of one layer -/
def layerBits (c : SzCfg) (L : SzLayer) : Int :=
  (L.weights.map fun w => weightBits c L w * (w.1 : Int)).sum + actBitsSpec c L * (L.outElems : Int)

/-- dense / convolution / activation layers in the states the size model accepts -/
def InScope (L : SzLayer) : Prop :=
  (L.cls ∈ PLAIN ∨ L.cls ∈ QPLAIN ∨ ((L.cls = "Activation" ∨ L.cls = "QActivation") ∧ L.weights = [] ∧
      L.actNone = false)) ∧
  ¬ (L.cls ∈ QPLAIN ∧ L.actIsStr = true ∧ L.actNone = false ∧ L.actName ≠ some "softmax" ∧
      L.actName ≠ some "linear")

theorem plain_not_q {s : String} (h : s ∈ PLAIN) : s ∉ QPLAIN := by
  intro hq
  simp only [PLAIN, QPLAIN, List.mem_cons, List.mem_nil_iff, or_false] at h hq
  rcases h with h | h | h | h <;> rw [h] at hq <;> simp at hq

theorem layer_total (c : SzCfg) (L : SzLayer) (h : InScope L) :
    actSize c L = some (actBitsSpec c L * (L.outElems : Int)) ∧
    paramSize c L = (L.weights.map fun w => weightBits c L w * (w.1 : Int)).sum := by
  obtain ⟨hcls, hassert⟩ := h
  rcases hcls with hp | hq | ⟨ha, hw, hnn⟩
  · -- plain layer
    have hnq := plain_not_q hp
    have hni : L.cls ≠ "InputLayer" := by
      intro he; rw [he] at hp; simp [PLAIN] at hp
    constructor
    · unfold actSize actBitsSpec
      simp only [hni, hp, if_true, if_false]
      by_cases h1 : L.actNone = true
      · simp [h1]
      · by_cases h2 : L.actName = some "linear"
        · simp [h2]
        · simp [h1, h2]
    · rw [paramSize_plain c L hp]
      congr 1
      apply List.map_congr_left
      intro w _
      simp [weightBits, hnq]
  · have hnp : L.cls ∉ PLAIN := fun hp => plain_not_q hp hq
    have hni : L.cls ≠ "InputLayer" := by
      intro he; rw [he] at hq; simp [QPLAIN] at hq
    constructor
    · unfold actSize actBitsSpec
      simp only [hni, hnp, hq, if_true, if_false]
      by_cases h1 : L.actNone = true
      · simp [h1]
      · simp only [h1]
        by_cases h2 : L.actName = some "softmax"
        · simp [h2]
        · by_cases h3 : L.actName = some "linear"
          · simp [h3]
          · have h4 : L.actIsStr = false := by
              by_contra h4
              exact hassert ⟨hq, by simpa using h4, by simpa using h1, h2, h3⟩
            simp [h2, h3, h4]
    · rw [paramSize_q c L hq]
      congr 1
      apply List.map_congr_left
      intro w _
      simp [weightBits, weightTensorBits, hq]
  · have hnp : L.cls ∉ PLAIN := by
      rcases ha with ha | ha <;> rw [ha] <;> simp [PLAIN]
    have hnq : L.cls ∉ QPLAIN := by
      rcases ha with ha | ha <;> rw [ha] <;> simp [QPLAIN]
    have hni : L.cls ≠ "InputLayer" := by
      rcases ha with ha | ha <;> rw [ha] <;> simp
    have hnb : L.cls ≠ "BatchNormalization" ∧ L.cls ≠ "QBatchNormalization" := by
      rcases ha with ha | ha <;> rw [ha] <;> simp
    have hor : L.cls = "QActivation" ∨ L.cls = "Activation" := ha.symm
    constructor
    · unfold actSize actBitsSpec
      simp only [hni, hnp, hnq, hor, hnn, if_true, if_false]
      by_cases h2 : L.actName = some "linear"
      · simp [h2]
      · by_cases h3 : L.actName = some "softmax"
        · simp [h3]
        · by_cases h4 : L.actName = some "sigmoid"
          · simp [h4]
          · simp [h2, h3, h4]
    · unfold paramSize
      simp [hnp, hnq, hnb.1, hnb.2, hw]

/-- with every class counted for parameters and activations, `compute_model_size` is the sum over
    layers of the sum over their tensors of elements × bits -/
theorem computeModelSize_sum (c : SzCfg)
    (hc : c.config = [("default", ["parameters", "activations"])]) :
    ∀ (layers : List SzLayer), (∀ L ∈ layers, InScope L) →
      ∃ r, computeModelSize c layers = some r ∧ r.total = (layers.map (layerBits c)).sum ∧
        r.total = r.pSize + r.aSize
  | [], _ => ⟨{}, rfl, rfl, rfl⟩
  | L :: t, h => by
    obtain ⟨r, hr, htot, hpa⟩ := computeModelSize_sum c hc t (fun L' hL' => h L' (List.mem_cons_of_mem _ hL'))
    obtain ⟨ha, hp⟩ := layer_total c L (h L (by simp))
    have hlc : layerConfig c L.cls = some ["parameters", "activations"] := by
      unfold layerConfig
      rw [hc]
      by_cases hd : L.cls = "default"
      · simp [List.lookup, hd]
      · have : ("default" == L.cls) = false := by
          simp only [beq_eq_false_iff_ne, ne_eq]; exact fun e => hd e.symm
        simp [List.lookup]
        cases hx : (L.cls == "default") with
        | true => simp at hx; exact absurd hx hd
        | false => simp
    have hcm : computeModelSize c (L :: t) = some
        { total := r.total + (1 * paramSize c L + 1 * (actBitsSpec c L * (L.outElems : Int))),
          pSize := r.pSize + 1 * paramSize c L,
          aSize := r.aSize + 1 * (actBitsSpec c L * (L.outElems : Int)),
          rows := { name := L.name, parameters := paramSize c L,
                    activations := actBitsSpec c L * (L.outElems : Int),
                    total := 1 * paramSize c L + 1 * (actBitsSpec c L * (L.outElems : Int)) } :: r.rows } := by
      unfold computeModelSize
      rw [hr]
      simp only [hlc, ha]
      rfl
    refine ⟨_, hcm, ?_, ?_⟩
    · simp only [List.map_cons, List.sum_cons, layerBits, ← htot, hp]
      ring
    · simp only
      rw [hpa]
      ring

/-! ## V20 — the size of a trial is a function of the TRIAL model only (object histories) -/

theorem layerConfig_default (c : SzCfg) (hc : c.config = [("default", ["parameters", "activations"])])
    (cls : String) : layerConfig c cls = some ["parameters", "activations"] := by
  unfold layerConfig
  rw [hc]
  by_cases hd : cls = "default"
  · simp [List.lookup, hd]
  · simp [List.lookup]
    cases hx : (cls == "default") with
    | true => simp at hx; exact absurd hx hd
    | false => simp

/-- the row the property prescribes for one layer: Σ weight tensors elements × bits, output elements ×
    bits, and their sum -/
def rowSpec (c : SzCfg) (L : SzLayer) : SizeRow :=
  { name := L.name,
    parameters := (L.weights.map fun w => weightBits c L w * (w.1 : Int)).sum,
    activations := actBitsSpec c L * (L.outElems : Int),
    total := (L.weights.map fun w => weightBits c L w * (w.1 : Int)).sum + actBitsSpec c L * (L.outElems : Int) }

/-- row by row: with every class counted, `model_size_dict` holds for every layer of the measured
    model exactly its own tensors' elements × bits -/
theorem computeModelSize_rows (c : SzCfg)
    (hc : c.config = [("default", ["parameters", "activations"])]) :
    ∀ (layers : List SzLayer), (∀ L ∈ layers, InScope L) →
      ∃ r, computeModelSize c layers = some r ∧ r.rows = layers.map (rowSpec c) ∧
        r.total = (layers.map (layerBits c)).sum ∧ r.total = r.pSize + r.aSize
  | [], _ => ⟨{}, rfl, rfl, rfl, rfl⟩
  | L :: t, h => by
    obtain ⟨r, hr, hrows, htot, hpa⟩ :=
      computeModelSize_rows c hc t (fun L' hL' => h L' (List.mem_cons_of_mem _ hL'))
    obtain ⟨ha, hp⟩ := layer_total c L (h L (by simp))
    have hlc := layerConfig_default c hc L.cls
    have hcm : computeModelSize c (L :: t) = some
        { total := r.total + (1 * paramSize c L + 1 * (actBitsSpec c L * (L.outElems : Int))),
          pSize := r.pSize + 1 * paramSize c L,
          aSize := r.aSize + 1 * (actBitsSpec c L * (L.outElems : Int)),
          rows := { name := L.name, parameters := paramSize c L,
                    activations := actBitsSpec c L * (L.outElems : Int),
                    total := 1 * paramSize c L + 1 * (actBitsSpec c L * (L.outElems : Int)) } :: r.rows } := by
      unfold computeModelSize
      rw [hr]
      simp only [hlc, ha]
      rfl
    refine ⟨_, hcm, ?_, ?_, ?_⟩
    · simp only [List.map_cons, hrows, rowSpec, hp, one_mul]
    · simp only [List.map_cons, List.sum_cons, layerBits, ← htot, hp]
      ring
    · simp only
      rw [hpa]
      ring

theorem getTrialM_eq {α : Type} (ofInt : Int → α) (o : FFBM α) (layers : List SzLayer) :
    getTrialM ofInt o layers = (computeModelSize o.cfg layers).map fun s =>
      (ofInt s.total, { o with base := { o.base with trialSize := some (ofInt s.total) }, trialStats := some s }) := by
  unfold getTrialM getTrial
  cases computeModelSize o.cfg layers <;> rfl

theorem stepM_cfg {α : Type} (ofInt : Int → α) (mul : α → α → α) (o : FFBM α) (e : MEv α) :
    (stepM ofInt mul o e).2.cfg = o.cfg := by
  cases e with
  | ref ls =>
    unfold stepM getReferenceM
    cases h0 : o.base.referenceSize with
    | some r => simp
    | none =>
      cases h1 : computeModelSize o.cfg ls with
      | none => simp [h1]
      | some s => simp [h1]
  | trial ls =>
    unfold stepM getTrialM
    cases h1 : computeModelSize o.cfg ls with
    | none => simp [h1]
    | some s => simp [h1]
  | setStress s => rfl

theorem stateM_cfg {α : Type} (ofInt : Int → α) (mul : α → α → α) (evs : List (MEv α)) :
    ∀ o : FFBM α, (stateM ofInt mul o evs).cfg = o.cfg := by
  induction evs with
  | nil => intro o; rfl
  | cons e t ih =>
    intro o
    unfold stateM
    simp only [List.foldl_cons]
    exact (ih _).trans (stepM_cfg ofInt mul o e)

/-! ### Dense chains -/

theorem denseLayer_plain_cls (n : Nat) (d : DenseSpec) (hq : d.q = none) : (denseLayer n d).cls = "Dense" := by
  simp [denseLayer, hq]

/-- an UNQUANTIZED Dense layer fed by `n` features: `ref_bits × (n × units [+ units])` -/
theorem paramSize_denseLayer_plain (c : SzCfg) (n : Nat) (d : DenseSpec) (hq : d.q = none) :
    paramSize c (denseLayer n d) =
      c.refBits * ((n * d.units : Nat) : Int) + (if d.useBias then c.refBits * (d.units : Int) else 0) := by
  have hp : (denseLayer n d).cls ∈ PLAIN := by rw [denseLayer_plain_cls n d hq]; simp [PLAIN]
  rw [paramSize_plain c _ hp]
  cases hb : d.useBias <;> simp [denseLayer, hb]

/-- `units` outputs, `ref_bits` each, unless the activation is linear -/
theorem actSize_denseLayer_plain (c : SzCfg) (n : Nat) (d : DenseSpec) (hq : d.q = none) (ha : d.actBits = none) :
    actSize c (denseLayer n d) = some (if d.actName = "linear" then 0 else c.refBits * (d.units : Int)) := by
  have hcls := denseLayer_plain_cls n d hq
  unfold actSize
  rw [hcls]
  by_cases hl : d.actName = "linear" <;> simp [denseLayer, ha, hl, PLAIN]

end QKV.Forgiving
