/-
  QKV.Lemmas.FixedQObj — helper lemmas about the object machines of QKV.Model.FixedQObj
-/
import Mathlib.Tactic
import QKV.Model.FixedQObj
import QKV.Lemmas.FixedQ
namespace QKV

namespace ObjSpec
variable {S E Q A : Type} (M : ObjSpec S E Q A)

theorem final_eq_foldl (s : S) (h : List (HStep E Q)) : M.final s h = (events h).foldl M.apply s := by
  induction h generalizing s with
  | nil => rfl
  | cons st r ih => cases st <;> simp [final, events, ih]

theorem final_append (s : S) (h1 h2 : List (HStep E Q)) :
    M.final s (h1 ++ h2) = M.final (M.final s h1) h2 := by
  induction h1 generalizing s with
  | nil => rfl
  | cons st r ih => cases st <;> simp [final, ih]

theorem run_append (s : S) (h1 h2 : List (HStep E Q)) :
    M.run s (h1 ++ h2) = M.run s h1 ++ M.run (M.final s h1) h2 := by
  induction h1 generalizing s with
  | nil => rfl
  | cons st r ih => cases st <;> simp [run, final, ih]

theorem run_snoc_ask (s : S) (h : List (HStep E Q)) (q : Q) :
    M.run s (h ++ [.ask q]) = M.run s h ++ [M.answer (M.final s h) q] := by
  rw [run_append]; rfl

theorem events_append (h1 h2 : List (HStep E Q)) : events (h1 ++ h2) = events h1 ++ events h2 := by
  induction h1 with
  | nil => rfl
  | cons st r ih => cases st <;> simp [events, ih]

theorem final_of_events_eq (s : S) {h h' : List (HStep E Q)} (e : events h = events h') :
    M.final s h = M.final s h' := by
  rw [final_eq_foldl, final_eq_foldl, e]

/-- an invariant of the events is an invariant of every history -/
theorem final_invariant (P : S → Prop) (hP : ∀ s e, P s → P (M.apply s e)) (s : S) (hs : P s)
    (h : List (HStep E Q)) : P (M.final s h) := by
  induction h generalizing s with
  | nil => exact hs
  | cons st r ih =>
    cases st with
    | ev e => exact ih _ (hP s e hs)
    | ask q => exact ih _ hs

/-- an invariant of the events that occur in the history -/
theorem final_invariant_on (P : S → Prop) (G : E → Prop) (hP : ∀ s e, G e → P s → P (M.apply s e)) (s : S)
    (hs : P s) (h : List (HStep E Q)) (hG : ∀ e ∈ events h, G e) : P (M.final s h) := by
  induction h generalizing s with
  | nil => exact hs
  | cons st r ih =>
    cases st with
    | ev e =>
      have h1 : G e := hG e (by simp [events])
      exact ih _ (hP s e h1 hs) (fun e' he' => hG e' (by simp [events, he']))
    | ask q => exact ih _ hs (fun e' he' => hG e' (by simpa [events] using he'))

end ObjSpec

/-! ### quantized_linear -/

theorem LinSt.effective_lo (s : LinSt) : s.effective.lo = s.cfg.lo := rfl
theorem LinSt.effective_hi (s : LinSt) : s.effective.hi = s.cfg.hi := rfl
theorem LinSt.effective_signFn (s : LinSt) : s.effective.signFn = s.cfg.signFn := rfl
theorem LinSt.effective_qs (s : LinSt) : s.effective.qs = s.stored.getD 1 * pow2 (s.cfg.integer - s.cfg.ub) := rfl

/-- no event touches `bits`, `integer`, `keep_negative` (read-only properties of the class) -/
theorem LinSt.apply_readonly (s : LinSt) (e : LinEv) :
    (s.apply e).cfg.bits = s.cfg.bits ∧ (s.apply e).cfg.integer = s.cfg.integer ∧
    (s.apply e).cfg.keepNeg = s.cfg.keepNeg := by
  cases e <;> simp only [LinSt.apply] <;> (try split) <;> simp

/-- the stored scale is the one of the declared constant alpha -/
def LinSt.Consistent (s : LinSt) : Prop := s.auto = false → s.stored = s.cfg.alpha

/-- events that are not an assignment of a constant / `None` to `alpha` -/
def LinEv.keepsScale : LinEv → Prop
  | .setAlpha _ => False
  | _ => True

theorem LinSt.consistent_construct (c : LinCfg) (auto : Bool) : (LinSt.construct c auto).Consistent := by
  intro h
  simp only [LinSt.construct] at h ⊢
  simp [h]

theorem LinSt.consistent_apply (s : LinSt) (e : LinEv) (he : e.keepsScale) (hs : s.Consistent) :
    (s.apply e).Consistent := by
  cases e with
  | setAlpha a => exact absurd he (by simp [LinEv.keepsScale])
  | setSymmetric b => intro h; exact hs h
  | setAlphaAuto => intro h; simp [LinSt.apply] at h
  | trainable =>
    intro h
    by_cases hc : (!s.auto && s.cfg.alpha.isNone) = true
    · simp [LinSt.apply, hc] at h
    · have e : s.apply .trainable = s := by simp only [LinSt.apply, hc, Bool.false_eq_true, if_false]
      rw [e] at h ⊢; exact hs h
  | rescale a =>
    intro h
    by_cases hc : s.auto = true
    · simp [LinSt.apply, hc] at h
    · have e : s.apply (.rescale a) = s := by simp only [LinSt.apply, hc, Bool.false_eq_true, if_false]
      rw [e] at h ⊢; exact hs h
  | noop => intro h; exact hs h

/-! ### quantized_bits under a data-dependent scale -/

theorem qbitsAuto_code (c : BitsCfg) (s x : ℚ) (hs : 0 < s) :
    ∃ k : ℤ, -(tp (c.bits - 1) - 1) ≤ k ∧ k ≤ tp (c.bits - 1) - 1 ∧
      qbitsAuto c s x = (k : ℚ) * (s * pow2 c.integer) := by
  unfold qbitsAuto
  simp only []
  generalize hxs : x / pow2 c.integer = xs
  have habs : (0 : ℚ) ≤ (if xs < 0 then -xs else xs) := by split <;> linarith
  have hq : (0 : ℚ) ≤ (if xs < 0 then -xs else xs) / s + 1 / 2 := by
    have : 0 ≤ (if xs < 0 then -xs else xs) / s := div_nonneg habs hs.le
    linarith
  generalize hv : ((if xs < 0 then -xs else xs) / s + 1 / 2).floor = v
  have hv0 : 0 ≤ v := by
    have := floor_mono' (show ((0 : ℤ) : ℚ) ≤ _ from by push_cast; exact hq)
    rw [floor_intCast, hv] at this; exact this
  have htp : twoPow (c.bits - 1) = tp (c.bits - 1) := rfl
  have hhalf : (0 : ℤ) ≤ tp (c.bits - 1) - 1 := by have := tp_ge_one (c.bits - 1); omega
  by_cases hvh : v < twoPow (c.bits - 1) - 1
  · rw [if_pos hvh]
    refine ⟨(if x < 0 then -1 else if 0 < x then 1 else 0) * v, ?_, ?_, ?_⟩
    · split
      · omega
      · split <;> omega
    · split
      · omega
      · split <;> omega
    · ring
  · rw [if_neg hvh]
    refine ⟨(if x < 0 then -1 else if 0 < x then 1 else 0) * (twoPow (c.bits - 1) - 1), ?_, ?_, ?_⟩
    · split
      · omega
      · split <;> omega
    · split
      · omega
      · split <;> omega
    · ring

end QKV
