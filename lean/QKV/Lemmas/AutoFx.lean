/-
  QKV.Lemmas.AutoFx — helper lemmas for C05: the integer code `zCode`, the zero-scale float path, maxima,
  positivity of every scale the refinement can produce.
-/
import QKV.Lemmas.BinTer
namespace QKV
open QKV.Tn QKV.BT QKV.AF

/-! ### maxima -/

private theorem foldl_max_ge (l : List ℚ) (a : ℚ) :
    a ≤ l.foldl (fun m v => if m < v then v else m) a ∧
    ∀ v ∈ l, v ≤ l.foldl (fun m v => if m < v then v else m) a := by
  induction l generalizing a with
  | nil => simp
  | cons b t ih =>
    simp only [List.foldl_cons, List.mem_cons]
    obtain ⟨h1, h2⟩ := ih (if a < b then b else a)
    refine ⟨le_trans (by split_ifs with h <;> [exact h.le; exact le_refl a]) h1, ?_⟩
    intro v hv
    rcases hv with rfl | hv
    · exact le_trans (by split_ifs with h <;> [exact le_refl v; exact not_lt.mp h]) h1
    · exact h2 v hv

theorem maxL_nonneg (l : List ℚ) : 0 ≤ maxL l := (foldl_max_ge l 0).1
theorem le_maxL {l : List ℚ} {v : ℚ} (h : v ∈ l) : v ≤ maxL l := (foldl_max_ge l 0).2 v h

private theorem foldl_max_zero (l : List ℚ) (h : ∀ v ∈ l, v = 0) :
    l.foldl (fun m v => if m < v then v else m) 0 = 0 := by
  induction l with
  | nil => rfl
  | cons b t ih =>
    have hb : b = 0 := h b (by simp)
    simp only [List.foldl_cons, hb, lt_irrefl, if_false]
    exact ih (fun v hv => h v (by simp [hv]))

theorem maxL_zero {l : List ℚ} (h : ∀ v ∈ l, v = 0) : maxL l = 0 := foldl_max_zero l h

private theorem foldl_max_mul (l : List ℚ) (a m : ℚ) (ha : 0 < a) :
    (l.map (a * ·)).foldl (fun m v => if m < v then v else m) (a * m)
      = a * l.foldl (fun m v => if m < v then v else m) m := by
  induction l generalizing m with
  | nil => rfl
  | cons b t ih =>
    simp only [List.map_cons, List.foldl_cons]
    have : (if a * m < a * b then a * b else a * m) = a * (if m < b then b else m) := by
      by_cases h : m < b
      · rw [if_pos h, if_pos (by nlinarith)]
      · rw [if_neg h, if_neg (by nlinarith [not_lt.mp h])]
    rw [this, ih]

theorem maxL_mul (l : List ℚ) (a : ℚ) (ha : 0 < a) : maxL (l.map (a * ·)) = a * maxL l := by
  unfold maxL
  have := foldl_max_mul l a 0 ha
  simpa using this

/-! ### the integer code -/

/-- the zero-scale float path, made explicit: the `FV` computation (IEEE NaN / inf semantics of
    `/`, `+`, `floor`, `<`, `where`, `sign·`) always ends in a FINITE value, the one `zCode` names -/
theorem zCodeFV_eq (c : Fl) (l2 s x : ℚ) : zCodeFV c l2 s x = .fin (zCode c l2 s x) := by
  unfold zCodeFV zCode FV.divAbs
  by_cases hs : s = 0
  · simp only [hs, if_true]
    by_cases hx : rabs x = 0
    · simp [hx, FV.addHalf, FV.floor, FV.zOf, FV.lt]
    · have : ¬ rabs x < 0 := not_lt.mpr (rabs_nonneg x)
      simp [hx, this, FV.addHalf, FV.floor, FV.zOf, FV.lt]
  · simp only [hs, if_false, FV.addHalf, FV.floor, FV.zOf, FV.lt]
    simp only [decide_eq_true_eq]
    split_ifs <;> rfl

theorem sgn_mul_int_bound (x : ℚ) (v L : ℤ) (h0 : 0 ≤ v) (hL : v ≤ L) :
    ∃ k : ℤ, sgn x * (v : ℚ) = (k : ℚ) ∧ |k| ≤ L := by
  rcases sgn_cases x with h | h | h <;> rw [h]
  · exact ⟨-v, by push_cast; ring, by rw [abs_neg, abs_of_nonneg h0]; exact hL⟩
  · exact ⟨0, by simp, by simp; omega⟩
  · exact ⟨v, by simp, by rw [abs_of_nonneg h0]; exact hL⟩

/-- with a non-negative scale and a sign-preserving rounding the code is an integer of magnitude ≤ L -/
theorem zCode_int_bound (c : Fl) (hc : c.SignPres) (L : ℤ) (hL : 0 ≤ L) {s : ℚ} (hs : 0 ≤ s) (x : ℚ) :
    ∃ k : ℤ, zCode c (L : ℚ) s x = (k : ℚ) ∧ |k| ≤ L := by
  unfold zCode
  by_cases h0 : s = 0
  · simp only [h0, if_true]
    exact sgn_mul_int_bound x L L hL le_rfl
  · simp only [h0, if_false]
    have hpos : 0 < s := lt_of_le_of_ne hs (Ne.symm h0)
    have hv : 0 ≤ (c.r (c.r (rabs x / s) + 1 / 2)).floor := by
      have : 0 ≤ c.r (c.r (rabs x / s) + 1 / 2) :=
        hc _ (add_nonneg (hc _ (div_nonneg (rabs_nonneg x) hpos.le)) (by norm_num))
      exact Int.floor_nonneg.2 this
    split_ifs with hlt
    · have : (c.r (c.r (rabs x / s) + 1 / 2)).floor ≤ L := by
        have : (c.r (c.r (rabs x / s) + 1 / 2)).floor < L := by exact_mod_cast hlt
        omega
      exact sgn_mul_int_bound x _ L hv this
    · exact sgn_mul_int_bound x L L hL le_rfl

/-- `levels/2` is the integer `2^(bits-1) - 1` -/
theorem l2_eq (cfg : QBCfg) (hb : 1 ≤ cfg.bits) : cfg.l2 = ((twoPow (cfg.bits - 1) - 1 : ℤ) : ℚ) := by
  unfold QBCfg.l2 pow2 twoPow
  rw [if_pos (by omega)]
  push_cast; ring

theorem twoPow_pos' (n : ℤ) : 0 < twoPow n := by unfold twoPow; positivity

/-! ### every scale the procedure can hand to the final quantisation is non-negative -/

theorem iter_succ {α : Type} (f : α → α) (n : ℕ) (a : α) : iter f (n + 1) a = f (iter f n a) := by
  induction n generalizing a with
  | zero => rfl
  | succ n ih => rw [iter, ih (f a)]; rfl

theorem lsScales_po2_pos (c : Fl) (minE maxE : Option ℤ) (rank : ℕ) (pk ck : List (List ℕ)) (x q : List ℚ) :
    ∀ s ∈ lsScales c true minE maxE rank pk ck x q, 0 < s := by
  intro s hs
  unfold lsScales at hs
  split_ifs at hs
  · obtain ⟨p, _, rfl⟩ := List.mem_map.1 hs; exact lsFinish_po2_pos c minE maxE _
  · obtain ⟨k, _, rfl⟩ := List.mem_map.1 hs; exact lsFinish_po2_pos c minE maxE _

theorem lsScales_po2_spec (c : Fl) (minE maxE : Option ℤ) (rank : ℕ) (pk ck : List (List ℕ)) (x q : List ℚ) :
    ∀ s ∈ lsScales c true minE maxE rank pk ck x q, ∃ e : ℤ, s = pow2 e ∧
      (∀ a, minE = some a → a ≤ e) ∧ (∀ b, effMax minE maxE = some b → e ≤ b) := by
  intro s hs
  unfold lsScales at hs
  split_ifs at hs
  · obtain ⟨p, _, rfl⟩ := List.mem_map.1 hs; exact lsFinish_po2 c minE maxE _
  · obtain ⟨k, _, rfl⟩ := List.mem_map.1 hs; exact lsFinish_po2 c minE maxE _

theorem qbInitScale_nonneg (c : Fl) (hc : c.SignPres) (cfg : QBCfg) (hb : 1 ≤ cfg.bits) (mk : List (List ℕ))
    (xs : List ℚ) : ∀ s ∈ qbInitScale c cfg mk xs, 0 ≤ s := by
  intro s hs
  unfold qbInitScale at hs
  obtain ⟨k, _, rfl⟩ := List.mem_map.1 hs
  dsimp only
  split_ifs
  · exact (pow2_pos _).le
  · apply hc
    have hl : 0 ≤ cfg.l2 := by
      rw [l2_eq cfg hb]
      have := twoPow_pos' (cfg.bits - 1)
      have : (0 : ℤ) ≤ twoPow (cfg.bits - 1) - 1 := by omega
      exact_mod_cast this
    exact div_nonneg (mul_nonneg (maxL_nonneg _) (by norm_num)) (mul_nonneg (by norm_num) hl)

end QKV
