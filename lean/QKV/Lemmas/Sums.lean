/-
  QKV.Lemmas.Sums — bounds of list sums, and the accumulator growth rule.
-/
import QKV.Lemmas.FixedRange
import QKV.Model.Accum
namespace QKV

theorem list_sum_bounds {L H : ℚ} (vs : List ℚ) (h : ∀ v ∈ vs, L ≤ v ∧ v ≤ H) :
    (vs.length : ℚ) * L ≤ vs.sum ∧ vs.sum ≤ (vs.length : ℚ) * H := by
  induction vs with
  | nil => simp
  | cons a t ih =>
    have ha := h a (by simp)
    have ih' := ih (fun v hv => h v (by simp [hv]))
    simp only [List.sum_cons, List.length_cons]
    push_cast
    constructor <;> nlinarith [ih'.1, ih'.2, ha.1, ha.2]

theorem list_sum_lt {L H : ℚ} (vs : List ℚ) (h : ∀ v ∈ vs, L ≤ v ∧ v < H) (hne : vs ≠ []) :
    vs.sum < (vs.length : ℚ) * H := by
  induction vs with
  | nil => exact absurd rfl hne
  | cons a t ih =>
    have ha := h a (by simp)
    simp only [List.sum_cons, List.length_cons]
    push_cast
    by_cases ht : t = []
    · subst ht; simp; exact ha.2
    · have := ih (fun v hv => h v (by simp [hv])) ht
      nlinarith

/-- the number of summed terms is at most `2^log_add_ops` -/
theorem terms_le_pow (shape : List ℕ) (useBias : Bool) :
    ((kernelTerms shape + (if useBias then 1 else 0) : ℕ) : ℤ) ≤ tp (logAddOps shape useBias) := by
  unfold logAddOps kernelTerms tp
  simp only [Int.toNat_natCast]
  exact_mod_cast le_two_pow_clog2 _

theorem logAddOps_nonneg (shape : List ℕ) (useBias : Bool) : 0 ≤ logAddOps shape useBias := by
  unfold logAddOps; exact Int.natCast_nonneg _

/-- sums of at most `2^l` values of `[loVal i s, 2^i)` stay in `[loVal (l+i) s, 2^(l+i))` -/
theorem sum_in_grown_range {i l : ℤ} {s : Bool} (hl : 0 ≤ l) (vs : List ℚ)
    (h : ∀ v ∈ vs, loVal i s ≤ v ∧ v < pow2 i) (hn : (vs.length : ℤ) ≤ tp l) :
    loVal (l + i) s ≤ vs.sum ∧ vs.sum < pow2 (l + i) := by
  have hT : pow2 (l + i) = (tp l : ℚ) * pow2 i := by rw [pow2_add, tp_cast hl]
  have hp := pow2_pos i
  have hnq : (vs.length : ℚ) ≤ (tp l : ℚ) := by exact_mod_cast hn
  have hT1 : (1 : ℚ) ≤ (tp l : ℚ) := by exact_mod_cast tp_ge_one l
  have hb := list_sum_bounds vs (fun v hv => ⟨(h v hv).1, (h v hv).2.le⟩)
  constructor
  · have hlo : loVal (l + i) s = (tp l : ℚ) * loVal i s := by
      unfold loVal; split <;> simp [hT]
    rw [hlo]
    have := loVal_nonpos i s
    nlinarith [hb.1]
  · rw [hT]
    by_cases hne : vs = []
    · subst hne; simp; positivity
    · have := list_sum_lt vs h hne
      nlinarith

end QKV
