/-
  QKV.Lemmas.OpCount — cardinalities of the sliding-window index sets and loop nests of
  QKV.Model.OpCount.
-/
import Mathlib.Tactic
import QKV.Model.OpCount
namespace QKV.C19

theorem length_filter_range_lt (n m : ℕ) :
    ((List.range n).filter (fun o => decide (o < m))).length = min n m := by
  induction n with
  | zero => simp
  | succ n ih =>
    rw [List.range_succ, List.filter_append, List.length_append, ih]
    by_cases h : n < m
    · simp [h]; omega
    · simp [h]; omega

/-- `o < ⌈a / s⌉ ↔ o * s < a` -/
theorem lt_ceilDiv_iff (o a s : ℕ) (hs : 1 ≤ s) : o < (a + s - 1) / s ↔ o * s < a := by
  rw [Nat.lt_iff_add_one_le, Nat.le_div_iff_mul_le (by omega), Nat.add_mul, Nat.one_mul]
  omega

theorem ceilDiv_le (a s : ℕ) (hs : 1 ≤ s) : (a + s - 1) / s ≤ a := by
  rcases Nat.eq_zero_or_pos a with rfl | ha
  · simp; omega
  · calc (a + s - 1) / s ≤ (a * s) / s := by
          apply Nat.div_le_div_right
          have : a + s ≤ a * s + 1 := by nlinarith
          omega
      _ = a := Nat.mul_div_cancel a (by omega)

/-- dilated kernel extent: `k + (k-1)(d-1) = (k-1) d + 1` -/
theorem dilated_kernel (k d : ℕ) (hk : 1 ≤ k) (hd : 1 ≤ d) :
    k + (k - 1) * (d - 1) = (k - 1) * d + 1 := by
  obtain ⟨k, rfl⟩ : ∃ k', k = k' + 1 := ⟨k - 1, by omega⟩
  obtain ⟨d, rfl⟩ : ∃ d', d = d' + 1 := ⟨d - 1, by omega⟩
  simp; ring

/-- the number of output positions of the index model is Keras' `conv_output_length` -/
theorem positions_length (p : Padding) (n k s d : ℕ) (hs : 1 ≤ s) (hk : 1 ≤ k) (hd : 1 ≤ d) :
    (positions p n k s d).length = convOutLen p n k s d := by
  have same : ((List.range n).filter (fun o => decide (o * s < n))).length = (n + s - 1) / s := by
    have : (fun o => decide (o * s < n)) = (fun o => decide (o < (n + s - 1) / s)) := by
      funext o; simp [lt_ceilDiv_iff o n s hs]
    rw [this, length_filter_range_lt]
    exact min_eq_right (ceilDiv_le n s hs)
  cases p with
  | valid =>
    simp only [positions, convOutLen]
    rw [dilated_kernel k d hk hd]
    have e : n + 1 - ((k - 1) * d + 1) = n - (k - 1) * d := by omega
    rw [e]
    have : (fun o => decide (o * s + (k - 1) * d < n))
        = (fun o => decide (o < (n - (k - 1) * d + s - 1) / s)) := by
      funext o
      have := lt_ceilDiv_iff o (n - (k - 1) * d) s hs
      simp only [this]
      congr 1
      apply propext
      omega
    rw [this, length_filter_range_lt]
    exact min_eq_right (le_trans (ceilDiv_le _ s hs) (Nat.sub_le _ _))
  | same => simpa [positions, convOutLen] using same
  | causal => simpa [positions, convOutLen] using same

/-! ## loop-nest cardinalities -/

theorem length_flatMap_const {α β : Type} (l : List α) (f : α → List β) (c : ℕ)
    (h : ∀ a, (f a).length = c) : (l.flatMap f).length = l.length * c := by
  induction l with
  | nil => simp
  | cons a l ih => simp [List.flatMap_cons, h, ih]; ring

theorem conv2dNest_length (posH posW : List ℕ) (co kh kw cig : ℕ) :
    (conv2dNest posH posW co kh kw cig).length
      = posH.length * posW.length * co * kh * kw * cig := by
  unfold conv2dNest
  rw [length_flatMap_const posH _ (posW.length * (co * (kh * (kw * cig))))]
  · ring
  intro _
  rw [length_flatMap_const posW _ (co * (kh * (kw * cig)))]
  intro _
  rw [length_flatMap_const _ _ (kh * (kw * cig)), List.length_range]
  intro _
  rw [length_flatMap_const _ _ (kw * cig), List.length_range]
  intro _
  rw [length_flatMap_const _ _ cig, List.length_range]
  intro _
  simp

theorem conv1dNest_length (pos : List ℕ) (co k cig : ℕ) :
    (conv1dNest pos co k cig).length = pos.length * co * k * cig := by
  unfold conv1dNest
  rw [length_flatMap_const pos _ (co * (k * cig))]
  · ring
  intro _
  rw [length_flatMap_const _ _ (k * cig), List.length_range]
  intro _
  rw [length_flatMap_const _ _ cig, List.length_range]
  intro _
  simp

theorem depthwiseNest_length (posH posW : List ℕ) (ci dm kh kw : ℕ) :
    (depthwiseNest posH posW ci dm kh kw).length
      = posH.length * posW.length * ci * dm * kh * kw := by
  unfold depthwiseNest
  rw [length_flatMap_const posH _ (posW.length * (ci * (dm * (kh * kw))))]
  · ring
  intro _
  rw [length_flatMap_const posW _ (ci * (dm * (kh * kw)))]
  intro _
  rw [length_flatMap_const _ _ (dm * (kh * kw)), List.length_range]
  intro _
  rw [length_flatMap_const _ _ (kh * kw), List.length_range]
  intro _
  rw [length_flatMap_const _ _ kw, List.length_range]
  intro _
  simp

theorem denseNest_length (nIn units : ℕ) : (denseNest nIn units).length = units * nIn := by
  unfold denseNest
  rw [length_flatMap_const _ _ nIn, List.length_range]
  intro _; simp

theorem poolNest_length (posH posW : List ℕ) (c ph pw : ℕ) :
    (poolNest posH posW c ph pw).length = posH.length * posW.length * c * ph * pw := by
  unfold poolNest
  rw [length_flatMap_const posH _ (posW.length * (c * (ph * pw)))]
  · ring
  intro _
  rw [length_flatMap_const posW _ (c * (ph * pw))]
  intro _
  rw [length_flatMap_const _ _ (ph * pw), List.length_range]
  intro _
  rw [length_flatMap_const _ _ pw, List.length_range]
  intro _
  simp

theorem mergeNaryNest_length (n : ℕ) (shape : List ℕ) :
    (mergeNaryNest n shape).length = (n - 1) * (mergeNest shape).length := by
  unfold mergeNaryNest
  rw [length_flatMap_const _ _ (mergeNest shape).length, List.length_range]
  intro _
  simp

theorem denseNestAt_length (npos nIn units : ℕ) :
    (denseNestAt npos nIn units).length = npos * (units * nIn) := by
  unfold denseNestAt
  rw [length_flatMap_const _ _ (units * nIn), List.length_range]
  intro _; simp [denseNest_length]

/-! ## the dense formula on `lead ++ [n]` shapes -/

theorem denseCount_append (lead : List ℕ) (nIn units : ℕ) :
    denseCount (lead ++ [nIn]) (lead ++ [units]) = some (prodL lead * nIn * units) := by
  simp [denseCount, List.getLast?_append]

theorem prodL_replicate_one (k : ℕ) : prodL (List.replicate k 1) = 1 := by
  induction k with
  | zero => rfl
  | succ k ih => simpa [prodL, List.replicate_succ] using ih

/-! ## `np.max` / the `sum(shape > 1) <= 1` assertion on `(1, …, 1, n)` -/

theorem maxL_ones_append (lead n : ℕ) (hn : 1 ≤ n) : maxL (List.replicate lead 1 ++ [n]) = n := by
  induction lead with
  | zero => simp [maxL]
  | succ l ih =>
    simp only [List.replicate_succ, List.cons_append, maxL, List.foldr_cons] at ih ⊢
    rw [ih]; omega

theorem filter_big_ones_append (lead n : ℕ) :
    ((List.replicate lead 1 ++ [n]).filter (fun d => decide (1 < d))).length
      = if 1 < n then 1 else 0 := by
  induction lead with
  | zero => by_cases h : 1 < n <;> simp [h]
  | succ l ih => simpa [List.replicate_succ] using ih

theorem atMostOneBig_ones_append (lead n : ℕ) :
    atMostOneBig (List.replicate lead 1 ++ [n]) = true := by
  unfold atMostOneBig
  rw [filter_big_ones_append]
  split <;> simp

theorem exactlyOneBig_ones_append (lead n : ℕ) (hn : 2 ≤ n) :
    exactlyOneBig (List.replicate lead 1 ++ [n]) = true := by
  unfold exactlyOneBig
  rw [filter_big_ones_append]
  have : 1 < n := hn
  simp [this]

/-! ## operand selection of merge layers, broadcasting (round 4) -/

theorem pickLargestByAux_spec (key : List Nat → Nat) (rest : List (List Nat)) : ∀ best : List Nat,
    (pickLargestByAux key best rest = best ∨ pickLargestByAux key best rest ∈ rest) ∧
    key best ≤ key (pickLargestByAux key best rest) ∧
    ∀ s ∈ rest, key s ≤ key (pickLargestByAux key best rest) := by
  induction rest with
  | nil => intro best; simp [pickLargestByAux]
  | cons t rest ih =>
    intro best
    unfold pickLargestByAux
    by_cases h : key t > key best
    · simp only [h, if_true]
      obtain ⟨h1, h2, h3⟩ := ih t
      refine ⟨?_, by omega, ?_⟩
      · rcases h1 with h1 | h1
        · right; rw [h1]; simp
        · right; simp [h1]
      · intro s hs
        rcases List.mem_cons.mp hs with rfl | hs
        · exact h2
        · exact h3 s hs
    · simp only [h, if_false]
      obtain ⟨h1, h2, h3⟩ := ih best
      refine ⟨?_, h2, ?_⟩
      · rcases h1 with h1 | h1
        · left; exact h1
        · right; simp [h1]
      · intro s hs
        rcases List.mem_cons.mp hs with rfl | hs
        · omega
        · exact h3 s hs

theorem pickLargestBy_spec (key : List Nat → Nat) (s0 : List Nat) (rest : List (List Nat)) :
    pickLargestBy key (s0 :: rest) ∈ s0 :: rest ∧
    ∀ s ∈ s0 :: rest, key s ≤ key (pickLargestBy key (s0 :: rest)) := by
  obtain ⟨h1, h2, h3⟩ := pickLargestByAux_spec key rest s0
  refine ⟨?_, ?_⟩
  · simp only [pickLargestBy]
    rcases h1 with h1 | h1
    · rw [h1]; simp
    · simp [h1]
  · intro s hs
    simp only [pickLargestBy]
    rcases List.mem_cons.mp hs with rfl | hs
    · exact h2
    · exact h3 s hs

theorem bcastTo_prod_le (s : List Nat) : ∀ full : List Nat, bcastTo s full → (∀ b ∈ full, 1 ≤ b) →
    prodL s ≤ prodL full := by
  induction s with
  | nil =>
    intro full h _
    cases full with
    | nil => simp [prodL]
    | cons b f => simp [bcastTo] at h
  | cons a s' ih =>
    intro full h hpos
    cases full with
    | nil => simp [bcastTo] at h
    | cons b f' =>
      simp only [bcastTo] at h
      obtain ⟨hab, hrest⟩ := h
      have hb : 1 ≤ b := hpos b (by simp)
      have ih' := ih f' hrest (fun x hx => hpos x (by simp [hx]))
      have e1 : prodL (a :: s') = a * prodL s' := by simp [prodL]
      have e2 : prodL (b :: f') = b * prodL f' := by simp [prodL]
      rw [e1, e2]
      rcases hab with rfl | rfl
      · exact Nat.mul_le_mul_left _ ih'
      · calc 1 * prodL s' ≤ 1 * prodL f' := Nat.mul_le_mul_left _ ih'
          _ ≤ b * prodL f' := Nat.mul_le_mul_right _ hb

theorem macMerge_eq_prodL (shape : List Nat) : macMerge shape = prodL shape := by
  simp [macMerge, mergeNest]


end QKV.C19
