/-
  QKV.Lemmas.BinTer — helper lemmas for C04 / C05: codes, least-squares scale, po2 clipping,
  grouping keys, maxima.
-/
import Mathlib.Tactic
import QKV.Lemmas.Round
import QKV.Model.AutoFx
namespace QKV
open QKV.Tn QKV.BT

/-! ### float contexts -/

/-- the rounding keeps the sign of non-negative values (true of `id` and of `rnd32`) -/
def Fl.SignPres (c : Fl) : Prop := ∀ a : ℚ, 0 ≤ a → 0 ≤ c.r a

theorem Fl.exact_signPres (eps : ℚ) : (Fl.exact eps).SignPres := fun _ h => h

theorem rnd32_nonneg {a : ℚ} (h : 0 ≤ a) : 0 ≤ rnd32 a := by
  unfold rnd32
  split
  · exact le_refl _
  · simp only
    apply mul_nonneg
    · have hp : 0 < pow2 ((if floorLog2Rat (if a < 0 then -a else a) < -126 then -126
          else floorLog2Rat (if a < 0 then -a else a)) - 23) := pow2_pos _
      have : 0 ≤ a / pow2 ((if floorLog2Rat (if a < 0 then -a else a) < -126 then -126
          else floorLog2Rat (if a < 0 then -a else a)) - 23) := div_nonneg h hp.le
      have h0 := roundTie_mono Tie.even this
      rw [show ((0 : ℚ)) = ((0 : ℤ) : ℚ) by simp, roundTie_int] at h0
      exact_mod_cast h0
    · exact (pow2_pos _).le

theorem Fl.f32_signPres (eps : ℚ) : (Fl.f32 eps).SignPres := fun _ h => rnd32_nonneg h

/-! ### sign, abs -/

theorem sgn_cases (x : ℚ) : sgn x = -1 ∨ sgn x = 0 ∨ sgn x = 1 := by
  unfold sgn; split_ifs <;> simp

theorem sgn_mul_self_nonneg (x : ℚ) : 0 ≤ x * sgn x := by
  unfold sgn; split_ifs with h1 h2
  · linarith
  · linarith
  · simp

theorem rabs_eq_abs (x : ℚ) : rabs x = |x| := by
  unfold rabs; split_ifs with h
  · rw [abs_of_neg h]
  · rw [abs_of_nonneg (not_lt.mp h)]

theorem rabs_nonneg (x : ℚ) : 0 ≤ rabs x := by rw [rabs_eq_abs]; exact abs_nonneg x

/-! ### binary / ternary codes -/

theorem binCode_pm (x : ℚ) : binCode false x = -1 ∨ binCode false x = 1 := by
  unfold binCode; simp only [Bool.false_eq_true, if_false]; split_ifs <;> simp

theorem binCode_01 (x : ℚ) : binCode true x = 0 ∨ binCode true x = 1 := by
  unfold binCode; simp only [if_true]; split_ifs <;> norm_num

theorem binCode_eq_one_iff (u : Bool) (x : ℚ) : binCode u x = 1 ↔ 0 ≤ x := by
  unfold binCode
  cases u <;> simp only [Bool.false_eq_true, if_false, if_true] <;> split_ifs with h <;>
    constructor <;> intro h' <;> first | linarith | norm_num at h' | (norm_num)

theorem binCode_mul_nonneg (u : Bool) (x : ℚ) : 0 ≤ x * binCode u x := by
  unfold binCode
  cases u <;> simp only [Bool.false_eq_true, if_false, if_true] <;> split_ifs with h <;> norm_num <;> linarith

theorem sgnPos_cases (x : ℚ) : sgnPos x = -1 ∨ sgnPos x = 1 := by
  unfold sgnPos; split_ifs <;> simp

theorem sgnPos_ne_zero (x : ℚ) : sgnPos x ≠ 0 := by
  unfold sgnPos; split_ifs <;> norm_num

/-- away from zero the sign with "zero counts as positive" IS the sign -/
theorem sgnPos_eq_sgn {x : ℚ} (hx : x ≠ 0) : sgnPos x = sgn x := by
  unfold sgnPos sgn
  split_ifs with h1 h2
  · rfl
  · rfl
  · exact absurd (le_antisymm (not_lt.mp h2) (not_lt.mp h1)) hx

theorem sgnPos_eq_one_iff (x : ℚ) : sgnPos x = 1 ↔ 0 ≤ x := by
  unfold sgnPos; split_ifs with h
  · constructor
    · intro h'; norm_num at h'
    · intro h'; linarith
  · exact ⟨fun _ => not_lt.mp h, fun _ => rfl⟩

theorem terCodeFixed_cases (t x : ℚ) :
    terCodeFixed t x = -1 ∨ terCodeFixed t x = 0 ∨ terCodeFixed t x = 1 := by
  unfold terCodeFixed; split_ifs
  · rcases sgnPos_cases x with h | h
    · exact Or.inl h
    · exact Or.inr (Or.inr h)
  · simp

/-- zero exactly below the threshold — EVERY threshold (0 and negative ones included) -/
theorem terCodeFixed_eq_zero_iff (t x : ℚ) : terCodeFixed t x = 0 ↔ |x| < t := by
  unfold terCodeFixed
  rw [rabs_eq_abs]
  split_ifs with h
  · constructor
    · intro hs; exact absurd hs (sgnPos_ne_zero x)
    · intro hlt; linarith
  · simp; exact not_le.mp h

/-- a non-zero code is the sign of the input, zero counting as positive … -/
theorem terCodeFixed_sign (t x : ℚ) (h : terCodeFixed t x ≠ 0) : terCodeFixed t x = sgnPos x := by
  unfold terCodeFixed at *; split_ifs at * with h1
  · rfl
  · exact absurd rfl h

/-- … hence the sign proper whenever the input is not zero (always the case for a positive threshold) -/
theorem terCodeFixed_sign_ne (t x : ℚ) (hx : x ≠ 0) (h : terCodeFixed t x ≠ 0) : terCodeFixed t x = sgn x := by
  rw [terCodeFixed_sign t x h, sgnPos_eq_sgn hx]

theorem terCodeFixed_ne_zero_of_pos {t x : ℚ} (ht : 0 < t) (h : terCodeFixed t x ≠ 0) : x ≠ 0 := by
  intro hx
  apply h
  rw [terCodeFixed_eq_zero_iff, hx]
  simpa using ht

/-- `round-half-even(z) = 0` exactly on `[-1/2, 1/2]` -/
theorem roundTie_even_eq_zero_iff (z : ℚ) : roundTie Tie.even z = 0 ↔ |z| ≤ 1 / 2 := by
  constructor
  · intro h
    have := roundTie_err Tie.even z
    rw [h] at this
    simpa [abs_sub_comm] using this
  · intro h
    rw [abs_le] at h
    obtain ⟨h1, h2⟩ := h
    obtain ⟨f1, f2⟩ := floor_spec z
    -- the floor is −1 or 0
    have hf : z.floor = -1 ∨ z.floor = 0 := by
      have a : (-1 : ℚ) < (z.floor : ℚ) + 1 := by linarith
      have b : (z.floor : ℚ) ≤ 1 / 2 := by linarith
      have a' : (-2 : ℤ) < z.floor := by
        have : ((-2 : ℤ) : ℚ) < (z.floor : ℚ) := by push_cast; linarith
        exact_mod_cast this
      have b' : z.floor < 1 := by
        have : (z.floor : ℚ) < ((1 : ℤ) : ℚ) := by push_cast; linarith
        exact_mod_cast this
      omega
    rcases hf with hf | hf
    · -- z ∈ [−1/2, 0): fraction ≥ 1/2
      rcases lt_or_eq_of_le h1 with hlt | heq
      · have := roundTie_hi Tie.even z (by rw [hf]; push_cast; linarith)
        rw [this, hf]; norm_num
      · unfold roundTie
        simp only
        rw [hf]
        have e : z - ((-1 : ℤ) : ℚ) = 1 / 2 := by rw [← heq]; norm_num
        rw [e]; norm_num
    · rcases lt_or_eq_of_le h2 with hlt | heq
      · have := roundTie_lo Tie.even z (by rw [hf]; push_cast; linarith)
        rw [this, hf]
      · unfold roundTie
        simp only
        rw [hf]
        have e : z - ((0 : ℤ) : ℚ) = 1 / 2 := by rw [heq]; norm_num
        rw [e]; norm_num

theorem terCodeAuto_cases (c : Fl) (s x : ℚ) :
    terCodeAuto c s x = -1 ∨ terCodeAuto c s x = 0 ∨ terCodeAuto c s x = 1 := by
  unfold terCodeAuto; dsimp only; split_ifs
  · simp
  · exact sgn_cases x
  · simp

theorem terCodeAuto_sign (c : Fl) (s x : ℚ) (h : terCodeAuto c s x ≠ 0) : terCodeAuto c s x = sgn x := by
  unfold terCodeAuto at *; dsimp only at *; split_ifs at * with h1 h2
  · exact absurd rfl h
  · rfl
  · exact absurd rfl h

/-- a non-zero pass code is also the sign with zero counted as positive (a zero input has code 0) -/
theorem terCodeAuto_sign_pos (c : Fl) (s x : ℚ) (h : terCodeAuto c s x ≠ 0) : terCodeAuto c s x = sgnPos x := by
  have hs := terCodeAuto_sign c s x h
  have hx : x ≠ 0 := by
    intro hx
    apply h
    rw [hs, hx]
    simp [sgn]
  rw [hs, sgnPos_eq_sgn hx]

/-- exact arithmetic: with a positive scale the code is zero exactly when `|x| ≤ scale / 2`
    (the threshold of the pass; the tie `|x| = scale/2` goes to zero because `tf.round` is half-to-even) -/
theorem terCodeAuto_exact_eq_zero_iff (eps : ℚ) {s : ℚ} (hs : 0 < s) (x : ℚ) :
    terCodeAuto (Fl.exact eps) s x = 0 ↔ |x| ≤ s / 2 := by
  unfold terCodeAuto Fl.exact
  simp only [if_neg hs.ne']
  have key : (s / 2 ≤ rabs (s * ((roundTie Tie.even (x / s) : ℤ) : ℚ))) ↔ roundTie Tie.even (x / s) ≠ 0 := by
    rw [rabs_eq_abs, abs_mul, abs_of_pos hs]
    constructor
    · intro h hz; rw [hz] at h; simp at h; linarith
    · intro h
      have : (1 : ℚ) ≤ |((roundTie Tie.even (x / s) : ℤ) : ℚ)| := by
        have : (1 : ℤ) ≤ |roundTie Tie.even (x / s)| := Int.one_le_abs h
        exact_mod_cast this
      nlinarith
  have hz : roundTie Tie.even (x / s) = 0 ↔ |x| ≤ s / 2 := by
    rw [roundTie_even_eq_zero_iff, abs_div, abs_of_pos hs, div_le_iff₀ hs]
    constructor <;> intro h <;> linarith
  split_ifs with h
  · have hne := key.1 h
    constructor
    · intro hs0
      exfalso
      apply hne
      -- sgn x = 0 → x = 0 → round 0 = 0
      unfold sgn at hs0
      split_ifs at hs0 with h1 h2
      · norm_num at hs0
      · norm_num at hs0
      · have : x = 0 := le_antisymm (not_lt.mp h2) (not_lt.mp h1)
        rw [this]; simp
        have := roundTie_int Tie.even 0
        simpa using this
    · intro hle; exact absurd (hz.2 hle) hne
  · have : roundTie Tie.even (x / s) = 0 := by
      by_contra hne; exact h (key.2 hne)
    simp [hz.1 this]


/-! ### least-squares scale -/

theorem sum_nonneg_of_forall {l : List ℚ} (h : ∀ v ∈ l, 0 ≤ v) : 0 ≤ l.sum := List.sum_nonneg h

theorem meanR_nonneg {c : Fl} (hc : c.SignPres) {l : List ℚ} (h : ∀ v ∈ l, 0 ≤ v) : 0 ≤ meanR c l := by
  unfold meanR
  apply hc
  apply div_nonneg (hc _ (sum_nonneg_of_forall h))
  exact Nat.cast_nonneg _

/-- the raw scale of a group is non-negative as soon as every `x·q` of the group is -/
theorem lsRaw_nonneg {c : Fl} (hc : c.SignPres) (he : 0 ≤ c.eps) {g : List (ℚ × ℚ)}
    (h : ∀ p ∈ g, 0 ≤ p.1 * p.2) : 0 ≤ lsRaw c g := by
  unfold lsRaw
  apply hc
  apply div_nonneg
  · apply meanR_nonneg hc
    intro v hv
    obtain ⟨p, hp, rfl⟩ := List.mem_map.1 hv
    exact hc _ (h p hp)
  · apply hc
    apply add_nonneg _ he
    apply meanR_nonneg hc
    intro v hv
    obtain ⟨p, _, rfl⟩ := List.mem_map.1 hv
    exact hc _ (mul_self_nonneg _)

theorem lsRaw1_nonneg {c : Fl} (hc : c.SignPres) (he : 0 ≤ c.eps) {x q : ℚ} (h : 0 ≤ x * q) :
    0 ≤ lsRaw1 c x q := by
  unfold lsRaw1
  apply hc
  exact div_nonneg (hc _ h) (hc _ (add_nonneg (hc _ (mul_self_nonneg _)) he))

/-- the coded formula in exact arithmetic: `s · (Σ q² + n·ε) = Σ x·q` -/
theorem lsRaw_exact_identity (eps : ℚ) (he : 0 < eps) (g : List (ℚ × ℚ)) (hg : g ≠ []) :
    lsRaw (Fl.exact eps) g * ((g.map fun p => p.2 * p.2).sum + (g.length : ℚ) * eps)
      = (g.map fun p => p.1 * p.2).sum := by
  unfold lsRaw meanR Fl.exact
  simp only [List.length_map]
  have hn : (0 : ℚ) < (g.length : ℚ) := by
    have : 0 < g.length := List.length_pos_of_ne_nil hg
    exact_mod_cast this
  have hq : 0 ≤ (g.map fun p => p.2 * p.2).sum := by
    apply List.sum_nonneg; intro v hv
    obtain ⟨p, _, rfl⟩ := List.mem_map.1 hv
    exact mul_self_nonneg _
  generalize (g.map fun p => p.2 * p.2).sum = B at *
  generalize (g.map fun p => p.1 * p.2).sum = A at *
  generalize (g.length : ℚ) = n at *
  have hd : B / n + eps ≠ 0 := by
    have : 0 ≤ B / n := div_nonneg hq hn.le
    linarith
  have hd2 : B + n * eps ≠ 0 := by
    have : 0 < n * eps := mul_pos hn he
    linarith
  have e1 : B / n + eps = (B + n * eps) / n := by field_simp
  rw [e1]
  field_simp

/-- distance to the textbook optimum `LS = Σxq / Σq²`:  `s = LS · Σq² / (Σq² + nε)` -/
theorem lsRaw_exact_vs_optimum (eps : ℚ) (he : 0 < eps) (g : List (ℚ × ℚ)) (hg : g ≠ [])
    (hq : 0 < (g.map fun p => p.2 * p.2).sum) :
    lsRaw (Fl.exact eps) g
      = ((g.map fun p => p.1 * p.2).sum / (g.map fun p => p.2 * p.2).sum)
        * ((g.map fun p => p.2 * p.2).sum / ((g.map fun p => p.2 * p.2).sum + (g.length : ℚ) * eps)) := by
  have h := lsRaw_exact_identity eps he g hg
  have hn : (0 : ℚ) ≤ (g.length : ℚ) := Nat.cast_nonneg _
  have hd : (g.map fun p => p.2 * p.2).sum + (g.length : ℚ) * eps ≠ 0 := by
    have : 0 ≤ (g.length : ℚ) * eps := mul_nonneg hn he.le
    linarith
  generalize (g.map fun p => p.2 * p.2).sum = B at *
  generalize (g.map fun p => p.1 * p.2).sum = A at *
  generalize (g.length : ℚ) = n at *
  rw [← h]
  field_simp

/-! ### power-of-two scale and its clipping -/

/-- effective upper exponent of `_clip_po2_scale` (Keras' clip lifts `max` to `min` when `max < min`) -/
def effMax (minE maxE : Option ℤ) : Option ℤ :=
  match minE, maxE with
  | some a, some b => some (if b < a then a else b)
  | _, b => b

theorem clipPo2_pow2 (minE maxE : Option ℤ) (e : ℤ) :
    ∃ e' : ℤ, clipPo2 minE maxE (pow2 e) = pow2 e' ∧
      (∀ a, minE = some a → a ≤ e') ∧ (∀ b, effMax minE maxE = some b → e' ≤ b) := by
  have lt_iff : ∀ a b : ℤ, pow2 a < pow2 b ↔ a < b := fun a b =>
    ⟨fun h => by by_contra hh; exact absurd (pow2_le_pow2 (not_lt.mp hh)) (not_le.mpr h), pow2_lt_pow2⟩
  cases minE with
  | none =>
    cases maxE with
    | none => exact ⟨e, by simp [clipPo2], by simp, by simp [effMax]⟩
    | some b =>
      by_cases h : b < e
      · refine ⟨b, ?_, by simp, ?_⟩
        · simp [clipPo2, (lt_iff b e).2 h]
        · intro b' hb'; simp [effMax] at hb'; omega
      · refine ⟨e, ?_, by simp, ?_⟩
        · have : ¬ pow2 b < pow2 e := fun hh => h ((lt_iff b e).1 hh)
          simp [clipPo2, this]
        · intro b' hb'; simp [effMax] at hb'; omega
  | some a =>
    cases maxE with
    | none =>
      by_cases h : e < a
      · exact ⟨a, by simp [clipPo2, (lt_iff e a).2 h], by simp, by simp [effMax]⟩
      · have : ¬ pow2 e < pow2 a := fun hh => h ((lt_iff e a).1 hh)
        exact ⟨e, by simp [clipPo2, this], by intro a' ha'; simp at ha'; omega, by simp [effMax]⟩
    | some b =>
      -- hi = max a b
      by_cases hba : b < a
      · -- hi = a: everything is forced to a
        refine ⟨a, ?_, by simp, ?_⟩
        · have h1 : pow2 b < pow2 a := (lt_iff b a).2 hba
          simp only [clipPo2, Option.map_some, h1, if_true]
          by_cases h : a < e
          · simp [(lt_iff a e).2 h]
          · have h2 : ¬ pow2 a < pow2 e := fun hh => h ((lt_iff a e).1 hh)
            simp only [h2, if_false]
            by_cases h3 : e < a
            · simp [(lt_iff e a).2 h3]
            · have : e = a := by omega
              subst this; simp
        · intro b' hb'; simp [effMax, hba] at hb'; omega
      · have h1 : ¬ pow2 b < pow2 a := fun hh => hba ((lt_iff b a).1 hh)
        by_cases h : b < e
        · refine ⟨b, ?_, ?_, ?_⟩
          · simp only [clipPo2, Option.map_some, h1, if_false, (lt_iff b e).2 h, if_true]
          · intro a' ha'; simp at ha'; omega
          · intro b' hb'; simp [effMax, hba] at hb'; omega
        · have h2 : ¬ pow2 b < pow2 e := fun hh => h ((lt_iff b e).1 hh)
          by_cases h3 : e < a
          · refine ⟨a, ?_, by simp, ?_⟩
            · simp [clipPo2, h1, h2, (lt_iff e a).2 h3]
            · intro b' hb'; simp [effMax, hba] at hb'; omega
          · have h4 : ¬ pow2 e < pow2 a := fun hh => h3 ((lt_iff e a).1 hh)
            refine ⟨e, ?_, ?_, ?_⟩
            · simp [clipPo2, h1, h2, h4]
            · intro a' ha'; simp at ha'; omega
            · intro b' hb'; simp [effMax, hba] at hb'; omega

/-- for every float context (rounding, logarithm oracle) the po2 scale is an exact power of two inside
    the configured exponent interval -/
theorem lsFinish_po2 (c : Fl) (minE maxE : Option ℤ) (raw : ℚ) :
    ∃ e : ℤ, lsFinish c true minE maxE raw = pow2 e ∧
      (∀ a, minE = some a → a ≤ e) ∧ (∀ b, effMax minE maxE = some b → e ≤ b) := by
  unfold lsFinish po2Of
  simp only [if_true]
  exact clipPo2_pow2 minE maxE _

theorem lsFinish_po2_pos (c : Fl) (minE maxE : Option ℤ) (raw : ℚ) : 0 < lsFinish c true minE maxE raw := by
  obtain ⟨e, h, _⟩ := lsFinish_po2 c minE maxE raw
  rw [h]; exact pow2_pos e

theorem lsFinish_nonneg (c : Fl) (po2 : Bool) (minE maxE : Option ℤ) {raw : ℚ} (h : 0 ≤ raw) :
    0 ≤ lsFinish c po2 minE maxE raw := by
  cases po2
  · simpa [lsFinish] using h
  · exact (lsFinish_po2_pos c minE maxE raw).le

end QKV
