/-
  QKV.Lemmas.Pow2 — facts about `pow2`, `clog2`, `ceilLog2Rat` used by the property proofs.
-/
import Mathlib.Tactic
import QKV.Model.Basic
namespace QKV

theorem pow2_eq_zpow (e : ℤ) : pow2 e = (2 : ℚ) ^ e := by
  unfold pow2
  split
  · rename_i h
    obtain ⟨n, rfl⟩ := Int.eq_ofNat_of_zero_le h
    simp
  · rename_i h
    push Not at h
    obtain ⟨n, hn⟩ : ∃ n : ℕ, -e = (n : ℤ) := Int.eq_ofNat_of_zero_le (by omega)
    have he : e = -(n : ℤ) := by omega
    subst he
    simp [zpow_neg]

theorem pow2_pos (e : ℤ) : 0 < pow2 e := by
  rw [pow2_eq_zpow]; positivity

theorem pow2_ne_zero (e : ℤ) : pow2 e ≠ 0 := (pow2_pos e).ne'

theorem pow2_add (a b : ℤ) : pow2 (a + b) = pow2 a * pow2 b := by
  simp only [pow2_eq_zpow]; exact zpow_add₀ (by norm_num) a b

theorem pow2_zero : pow2 0 = 1 := by simp [pow2_eq_zpow]

theorem pow2_natCast (n : ℕ) : pow2 (n : ℤ) = ((2 ^ n : ℕ) : ℚ) := by
  simp [pow2_eq_zpow]

theorem pow2_le_pow2 {a b : ℤ} (h : a ≤ b) : pow2 a ≤ pow2 b := by
  simp only [pow2_eq_zpow]; exact zpow_le_zpow_right₀ (by norm_num) h

theorem pow2_lt_pow2 {a b : ℤ} (h : a < b) : pow2 a < pow2 b := by
  simp only [pow2_eq_zpow]; exact zpow_lt_zpow_right₀ (by norm_num) h

theorem pow2_injective {a b : ℤ} (h : pow2 a = pow2 b) : a = b := by
  rcases lt_trichotomy a b with h1 | h1 | h1
  · exact absurd h (pow2_lt_pow2 h1).ne
  · exact h1
  · exact absurd h (pow2_lt_pow2 h1).ne'

/-- `clog2` is the ceiling of the binary logarithm. -/
theorem le_two_pow_clog2 (n : ℕ) : n ≤ 2 ^ clog2 n := by
  unfold clog2
  split
  · simpa using ‹n ≤ 1›
  · have := @Nat.lt_log2_self (n - 1)
    omega

theorem clog2_le_of_le_two_pow {n e : ℕ} (h : n ≤ 2 ^ e) : clog2 n ≤ e := by
  unfold clog2
  split
  · omega
  · rename_i h1
    have hne : n - 1 ≠ 0 := by omega
    have : (n - 1).log2 < e := (Nat.log2_lt hne).2 (by omega)
    omega

theorem clog2_two_pow (k : ℕ) : clog2 (2 ^ k) = k := by
  apply le_antisymm
  · exact clog2_le_of_le_two_pow le_rfl
  · by_contra h
    push Not at h
    have h1 := le_two_pow_clog2 (2 ^ k)
    have h2 : 2 ^ clog2 (2 ^ k) < 2 ^ k := Nat.pow_lt_pow_right (by norm_num) h
    omega

end QKV

namespace QKV

theorem imax_eq_max (a b : ℤ) : imax a b = max a b := by
  unfold imax; split <;> omega
theorem imin_eq_min (a b : ℤ) : imin a b = min a b := by
  unfold imin; split <;> omega

theorem ceilLog2Rat_of (q : ℚ) (n d : ℕ) (hn : q.num = (n : ℤ)) (hd : q.den = d) :
    ceilLog2Rat q = if d ≤ n then (clog2 ((n + d - 1) / d) : ℤ) else - ((d / n).log2 : ℤ) := by
  unfold ceilLog2Rat
  simp only [hn, hd, Int.toNat_natCast]

theorem ceilLog2Rat_pow2 (k : ℤ) : ceilLog2Rat (pow2 k) = k := by
  rcases le_or_gt 0 k with h | h
  · obtain ⟨n, rfl⟩ := Int.eq_ofNat_of_zero_le h
    rw [pow2_natCast, ceilLog2Rat_of _ (2 ^ n) 1 (by simp) (by simp)]
    have hpos : 1 ≤ 2 ^ n := Nat.one_le_two_pow
    rw [if_pos hpos]
    simp [clog2_two_pow]
  · obtain ⟨n, hn⟩ : ∃ n : ℕ, -k = ((n + 1 : ℕ) : ℤ) := ⟨(-k - 1).toNat, by omega⟩
    have hk : k = -((n + 1 : ℕ) : ℤ) := by omega
    subst hk
    have hval : pow2 (-((n + 1 : ℕ) : ℤ)) = ((2 ^ (n + 1) : ℕ) : ℚ)⁻¹ := by
      rw [pow2_eq_zpow, zpow_neg, zpow_natCast]; push_cast; rfl
    have hpos : 0 < 2 ^ (n + 1) := by positivity
    rw [hval, ceilLog2Rat_of _ 1 (2 ^ (n + 1)) (Rat.inv_natCast_num_of_pos hpos)
      (Rat.inv_natCast_den_of_pos hpos)]
    have : ¬ (2 ^ (n + 1) ≤ 1) := by
      have : 2 ≤ 2 ^ (n + 1) := by
        calc 2 = 2 ^ 1 := rfl
          _ ≤ 2 ^ (n + 1) := Nat.pow_le_pow_right (by norm_num) (by omega)
      omega
    rw [if_neg this]
    simp [Nat.log2_two_pow]

end QKV
