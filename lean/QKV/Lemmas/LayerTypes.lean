/-
  QKV.Lemmas.LayerTypes — helper lemmas for C18: well-formedness of the multiplier output
  records that have a fixed-point type, the power-of-two shift of a fixed-point type
  (auto_po2 adjustment), dot products as list sums.
-/
import QKV.Props.C16
import QKV.Props.C17
import QKV.Model.LayerTypes
import QKV.Model.Estimator
import QKV.Lemmas.Estimator
namespace QKV
open QKV.Props.C16 QKV.Props.C17

/-! ### dot products -/

theorem dot_eq_sum (ws xs : List ℚ) : dot ws xs = (List.zipWith (· * ·) ws xs).sum := by
  induction ws generalizing xs with
  | nil => simp [dot]
  | cons w ws ih =>
    cases xs with
    | nil => simp [dot]
    | cons x xs => simp [dot, ih]

theorem dot_smul (c : ℚ) (ws xs : List ℚ) : dot (ws.map (c * ·)) xs = c * dot ws xs := by
  induction ws generalizing xs with
  | nil => simp [dot]
  | cons w ws ih =>
    cases xs with
    | nil => simp [dot]
    | cons x xs => simp [dot, ih]; ring

theorem mem_zipWith_mul {ws xs : List ℚ} {p : ℚ} (h : p ∈ List.zipWith (· * ·) ws xs) :
    ∃ a b, (a, b) ∈ ws.zip xs ∧ p = a * b := by
  induction ws generalizing xs with
  | nil => simp at h
  | cons w ws ih =>
    cases xs with
    | nil => simp at h
    | cons x xs =>
      simp only [List.zipWith_cons_cons, List.mem_cons] at h
      rcases h with rfl | h
      · exact ⟨w, x, by simp, rfl⟩
      · obtain ⟨a, b, hab, rfl⟩ := ih h
        exact ⟨a, b, by simp [hab], rfl⟩

/-! ### shift of a fixed-point type by a power of two in `[mn, mx]` -/

theorem valFixed_shift {b i : ℤ} {sg : Bool} {v : ℚ} {s mn mx : ℤ} (hm : 0 ≤ magBits b sg)
    (h1 : mn ≤ s) (h2 : s ≤ mx) (hv : ValFixed b i sg v) :
    ValFixed (b + mx - mn) (i + mx) sg (pow2 s * v) := by
  have hm' : 0 ≤ magBits (b + mx - mn) sg := by simp only [magBits] at hm ⊢; omega
  rw [valFixed_iff hm']
  obtain ⟨⟨k, hk⟩, hlo, hhi⟩ := (valFixed_iff hm v).1 hv
  have hlsb : fixedLsb (b + mx - mn) (i + mx) sg = fixedLsb b i sg + mn := by
    simp only [fixedLsb]; ring
  have hps := pow2_pos s
  have hle : pow2 (s + i) ≤ pow2 (i + mx) := pow2_le_pow2 (by omega)
  refine ⟨?_, ?_, ?_⟩
  · rw [hlsb]
    refine isMul_of_le (l := fixedLsb b i sg + s) (by omega) ⟨k, ?_⟩
    rw [hk, pow2_add]; ring
  · unfold loVal at hlo ⊢
    cases sg
    · simp only [Bool.false_eq_true, if_false] at hlo ⊢; positivity
    · simp only [if_true] at hlo ⊢
      have : pow2 s * v ≥ pow2 s * (- pow2 i) := by nlinarith
      have e : pow2 s * pow2 i = pow2 (s + i) := (pow2_add s i).symm
      nlinarith
  · have : pow2 s * v < pow2 s * pow2 i := by nlinarith
    have e : pow2 s * pow2 i = pow2 (s + i) := (pow2_add s i).symm
    linarith

/-! ### the fixed-point multiplier outputs are well-formed fixed-point records -/

theorem wffx_mkFixedMul {w x : QRec} (hw : WFfixed w) (hx : WFfixed x) :
    WFfx (mkFixedMul w x tQuantizedBits) := by
  have := hw.bits; have := hx.bits
  refine ⟨rfl, rfl, ?_⟩
  simp only [mkFixedMul, tQuantizedBits, magBits]
  cases w.signed <;> cases x.signed <;> simp [b2i] <;> omega

theorem wffx_mkShifter {p q w x : QRec} (hq : WFfixed q) (hp : WFpo2 p)
    (hpq : (if w.mode = 1 then (w, x) else (x, w)) = (p, q)) :
    WFfx (mkShifter w x tQuantizedBits) := by
  have hqb := hq.bits
  have hmn := po2Half_pos p
  have hmx0 : 0 ≤ (getExp p).2 := by simp only [getExp, imax_eq_max]; exact le_max_left _ _
  have hmn' : (getExp p).1 = po2Half p := rfl
  refine ⟨rfl, rfl, ?_⟩
  simp only [mkShifter, hpq, tQuantizedBits, magBits]
  cases q.signed <;> cases p.signed <;> simp [b2i] <;> omega

theorem wffx_mkMux_wunit {w x : QRec} (hx : WFfixed x)
    (hwn : (w.name.hasBinary || w.name.hasTernary) = true) (hws : w.signed = true) :
    WFfx (mkMux w x tQuantizedBits) := by
  have := hx.bits
  rw [mkMux_qbits_wunit w x hwn]
  refine ⟨rfl, rfl, ?_⟩
  simp only [magBits, hws]
  cases x.signed <;> simp [b2i] <;> omega

theorem wffx_mkMux_wother {w x : QRec} (hw : WFfixed w)
    (hwn : (w.name.hasBinary || w.name.hasTernary) = false) (hxs : x.signed = true) :
    WFfx (mkMux w x tQuantizedBits) := by
  have := hw.bits
  rw [mkMux_qbits_wother w x hwn]
  refine ⟨rfl, rfl, ?_⟩
  simp only [magBits, hxs]
  cases w.signed <;> simp [b2i] <;> omega

theorem wffx_mkAnd_fixed_bin01 {w x : QRec} (hw : WFfixed w) (hx : WFbin01 x) :
    WFfx (mkAnd w x tQuantizedBits) := by
  have := hw.bits
  rw [mkAnd_qbits]
  refine ⟨by simp [hw.nf, hx.nf], rfl, ?_⟩
  simp only [magBits, hx.bits, hx.signed, imax_eq_max]
  cases w.signed <;> simp [b2i] <;> omega

theorem wffx_mkAnd_bin01_fixed {w x : QRec} (hw : WFbin01 w) (hx : WFfixed x) :
    WFfx (mkAnd w x tQuantizedBits) := by
  have := hx.bits
  rw [mkAnd_qbits]
  refine ⟨by simp [hw.nf, hx.nf], rfl, ?_⟩
  simp only [magBits, hw.bits, hw.signed, imax_eq_max]
  cases x.signed <;> simp [b2i] <;> omega

/-! ### accumulators keep fixed-point well-formedness -/

theorem makeAccumulator_fixed (shape : List ℕ) (m : QRec) (hm : WFfx m) (ub : Bool) :
    makeAccumulator shape m ub = { tQuantizedBits with
      bits := logAddOps shape ub + m.bits
      intBits := logAddOps shape ub + m.intBits
      signed := m.signed } := by
  simp [makeAccumulator, hm.nf, hm.np]

theorem wffx_makeAccumulator (shape : List ℕ) (m : QRec) (hm : WFfx m) (ub : Bool) :
    WFfx (makeAccumulator shape m ub) ∧ (makeAccumulator shape m ub).mode = 0 := by
  rw [makeAccumulator_fixed shape m hm ub]
  have := logAddOps_nonneg shape ub
  have := hm.mag
  refine ⟨⟨rfl, rfl, ?_⟩, rfl⟩
  simp only [magBits] at *; omega

theorem adjustMultiplier_wffx {m : QRec} (hm : WFfx m) {mx mn : ℤ} (h : mn ≤ mx) :
    WFfx (adjustMultiplier m mx mn) ∧
    (adjustMultiplier m mx mn).bits = m.bits + mx - mn ∧
    (adjustMultiplier m mx mn).intBits = m.intBits + mx ∧
    (adjustMultiplier m mx mn).signed = m.signed := by
  have := hm.mag
  refine ⟨⟨hm.nf, hm.np, ?_⟩, ?_, rfl, rfl⟩
  · simp only [adjustMultiplier, magBits] at *; omega
  · simp only [adjustMultiplier]; ring

/-! ### alias class names: the type rules read a weight record's NAME only through the three
    substring tests `"binary" in name`, `"ternary" in name`, `"po2" in name` -/

theorem makeMultiplier_rename (w x : QRec) (n : QName)
    (hb : n.hasBinary = w.name.hasBinary) (ht : n.hasTernary = w.name.hasTernary)
    (hp : n.hasPo2 = w.name.hasPo2) :
    makeMultiplier { w with name := n } x = makeMultiplier w x := by
  unfold makeMultiplier
  show (match mulTable w.mode x.mode with
    | some (impl, t) => some (impl, mkImpl impl { w with name := n } x t.toRec)
    | none => none) = _
  cases hm : mulTable w.mode x.mode with
  | none => rfl
  | some p =>
    obtain ⟨impl, t⟩ := p
    cases impl
    case shifter =>
      by_cases h1 : w.mode = 1 <;> simp [mkImpl, mkShifter, h1, getExp, po2Half, po2MaxExpRaw]
    all_goals
      simp only [mkImpl, mkFixedMul, mkMux, mkAnd, mkXor, mkAdder, mkFloatMul, hb, ht, hp]

/-- a 0/1 weight record (`binary(use_01=True)`, `bernoulli`) only ever meets the AndGate or the
    floating-point multiplier, which read the weight's name through `"po2" in name` alone -/
theorem mulTable_mode4 (m : ℕ) (impl : MulImpl) (t : OutTemplate)
    (h : mulTable 4 m = some (impl, t)) : impl = .andGate ∨ impl = .floatMul := by
  match m, h with
  | 0, h | 1, h | 2, h | 3, h | 4, h => simp [mulTable] at h; exact Or.inl h.1.symm
  | 5, h => simp [mulTable] at h; exact Or.inr h.1.symm
  | (k + 6), h => simp [mulTable] at h

theorem makeMultiplier_rename_mode4 (w x : QRec) (n : QName) (hm : w.mode = 4)
    (hp : n.hasPo2 = w.name.hasPo2) :
    makeMultiplier { w with name := n } x = makeMultiplier w x := by
  unfold makeMultiplier
  show (match mulTable w.mode x.mode with
    | some (impl, t) => some (impl, mkImpl impl { w with name := n } x t.toRec)
    | none => none) = _
  cases hmt : mulTable w.mode x.mode with
  | none => rfl
  | some p =>
    obtain ⟨impl, t⟩ := p
    rw [hm] at hmt
    rcases mulTable_mode4 _ _ _ hmt with rfl | rfl <;>
      simp only [mkImpl, mkAnd, mkFloatMul, hp]

/-- the records of one layer depend on the weight record through `makeMultiplier` only -/
theorem layerTypes_congr_weight (kind : LayerKind) (x w w' : QRec) (b : Option QRec)
    (shape : List ℕ) (ap : Option (ℤ × ℤ)) (h : makeMultiplier w' x = makeMultiplier w x) :
    layerTypes kind x w' b shape ap =
      (layerTypes kind x w b shape ap).map fun lt => { lt with weight := w' } := by
  unfold layerTypes
  rw [h]
  cases makeMultiplier w x with
  | none => rfl
  | some p =>
    obtain ⟨impl, m⟩ := p
    simp only
    cases accFor kind m b shape with
    | none => rfl
    | some q =>
      obtain ⟨kacc, acc⟩ := q
      simp only
      cases ap with
      | none => rfl
      | some s =>
        obtain ⟨mx, mn⟩ := s
        simp only
        cases (accFor kind (adjustMultiplier m mx mn) b shape) <;> rfl

/-! ### the distinct constants counted by `update_inference_values` -/

theorem mem_distinctVals (l : List ℚ) (v : ℚ) : v ∈ distinctVals l ↔ v ∈ l := by
  induction l with
  | nil => simp [distinctVals]
  | cons a l ih =>
    simp only [distinctVals]
    split
    · rename_i hc
      have ha : a ∈ distinctVals l := by simpa using hc
      constructor
      · intro h; exact List.mem_cons_of_mem _ (ih.1 h)
      · intro h
        rcases List.mem_cons.1 h with rfl | h
        · exact ha
        · exact ih.2 h
    · simp only [List.mem_cons, ih]

theorem nodup_distinctVals (l : List ℚ) : (distinctVals l).Nodup := by
  induction l with
  | nil => simp [distinctVals]
  | cons a l ih =>
    simp only [distinctVals]
    split
    · exact ih
    · rename_i hc
      have ha : a ∉ distinctVals l := by simpa using hc
      exact List.nodup_cons.2 ⟨ha, ih⟩

theorem length_distinctVals_le (l : List ℚ) : (distinctVals l).length ≤ l.length := by
  induction l with
  | nil => simp [distinctVals]
  | cons a l ih =>
    simp only [distinctVals]
    split <;> simp only [List.length_cons] <;> omega

theorem distinctVals_pos {l : List ℚ} (h : l ≠ []) : 0 < (distinctVals l).length := by
  cases l with
  | nil => exact absurd rfl h
  | cons a l =>
    have : a ∈ distinctVals (a :: l) := (mem_distinctVals _ _).2 (List.mem_cons_self ..)
    exact List.length_pos_of_mem this

/-! ### capping the exponents of a po2 record -/

theorem le_ceilLog2Rat_of_pow2_le {e : ℤ} {m : ℚ} (hm : 0 < m) (h : pow2 e ≤ m) :
    e ≤ ceilLog2Rat m := by
  by_contra hc
  have hlt : ceilLog2Rat m < e := not_le.1 hc
  have := pow2_lt_pow2 hlt
  have := le_pow2_ceilLog2Rat hm
  linarith

end QKV
