/-
  C12 — model_quantize converts exactly what the configuration names and nothing else.

  Property (verbatim, properties.jsonl): Converting a Keras model with a quantization dictionary
  yields a model with the same topology, layer names, output shapes and non-quantization
  hyper-parameters, in which each layer selected by name or by class entry becomes its quantized
  counterpart carrying the kernel, bias, recurrent and activation quantizers that this quantized
  layer class builds from the configured strings (name entries taking precedence over class
  entries, biasless layers getting no bias quantizer), and every layer not selected is left as it
  was.  The source model and the caller's dictionaries are not modified, and with weight transfer
  requested the new model starts from the source weights.

  This file holds ONLY property theorems (and non-vacuity examples).  Model:
  QKV.Model.Rewrite (`rewrite : Flags → Dict → List PyVal → Except Err (List PyVal)`, the loop of
  utils.py:728-1012 over the JSON layer list).  Layer lists are arbitrary (unbounded length,
  arbitrary JSON values); every theorem is about every position of the list.

  What is a theorem here and what is runtime:
   * theorems: length / names / order / every untouched top-level key (inbound_nodes = topology) /
     every config key outside the quantizer keys; untouched layers; selected layers' class and
     quantizer keys; precedence; bias-less; the recorded defects as `_counterexample`s.
   * runtime (checked on the real code by the harness, not provable about a pure function):
     "source model and dictionaries not modified", output shapes, weight transfer, and what the
     Q-layer classes build from the strings.  `rewrite` is a pure function of its arguments, which
     is the model-side content of the non-modification clause.
-/
import QKV.Lemmas.Rewrite
namespace QKV.Props.C12
open QKV.Rewrite

/-! ## from one iteration to the whole (unbounded) layer list -/

/-- corresponding layers of input and output are related by one loop iteration -/
theorem rewriteFrom_zip (F : Flags) (qc : Dict) :
    ∀ (ls : List PyVal) (st : Option String) (ls' : List PyVal), rewriteFrom F qc st ls = .ok ls' →
      ls'.length = ls.length ∧
      ∀ l l', (l, l') ∈ ls.zip ls' → ∃ st₁ st₂, step F qc st₁ l = .ok (l', st₂) := by
  intro ls
  induction ls with
  | nil =>
    intro st ls' h
    simp only [rewriteFrom] at h
    cases h
    simp
  | cons a r ih =>
    intro st ls' h
    simp only [rewriteFrom] at h
    obtain ⟨p, hp, h⟩ := bind_ok h
    obtain ⟨a', st'⟩ := p
    obtain ⟨r', hr', h⟩ := bind_ok h
    cases h
    obtain ⟨hlen, hz⟩ := ih st' r' hr'
    refine ⟨by simp [hlen], ?_⟩
    intro l l' hm
    simp only [List.zip_cons_cons, List.mem_cons] at hm
    rcases hm with hm | hm
    · cases hm
      exact ⟨st, st', hp⟩
    · exact hz l l' hm

/-- any per-layer observable that one iteration preserves is preserved list-wide, in order -/
theorem rewriteFrom_map {β : Type} (F : Flags) (qc : Dict) (f : PyVal → β)
    (hf : ∀ st l l' st', step F qc st l = .ok (l', st') → f l' = f l) :
    ∀ (ls : List PyVal) (st : Option String) (ls' : List PyVal), rewriteFrom F qc st ls = .ok ls' →
      ls'.map f = ls.map f := by
  intro ls
  induction ls with
  | nil =>
    intro st ls' h
    simp only [rewriteFrom] at h
    cases h
    rfl
  | cons a r ih =>
    intro st ls' h
    simp only [rewriteFrom] at h
    obtain ⟨p, hp, h⟩ := bind_ok h
    obtain ⟨a', st'⟩ := p
    obtain ⟨r', hr', h⟩ := bind_ok h
    cases h
    simp [hf st a a' st' hp, ih st' r' hr']

theorem step_eff {F : Flags} {qc : Dict} {st st' : Option String} {l l' : PyVal}
    (h : step F qc st l = .ok (l', st')) : Eff allKeys topKeys l l' :=
  Ok_stepCore (l', st') h

/-! ## shape: length, names, order, topology keys, hyper-parameters -/

/-- The converted layer list has the same length, and the same layer names in the same order. -/
theorem C12_shape (F : Flags) (qc : Dict) (ls ls' : List PyVal) (h : rewrite F qc ls = .ok ls') :
    ls'.length = ls.length ∧ ls'.map nameOf = ls.map nameOf := by
  refine ⟨(rewriteFrom_zip F qc ls none ls' h).1, ?_⟩
  refine rewriteFrom_map F qc nameOf ?_ ls none ls' h
  intro st l l' st' hs
  exact (step_eff hs).cfg "name" (by decide)

/-- Every top-level entry of every layer other than `class_name`, `config`, `registered_name`
    (in particular `inbound_nodes`, i.e. the topology, `name`, `module`, `build_config`) is
    carried over unchanged, position by position. -/
theorem C12_topology (F : Flags) (qc : Dict) (ls ls' : List PyVal) (h : rewrite F qc ls = .ok ls')
    (k : String) (h1 : k ≠ "class_name") (h2 : k ≠ "config") (h3 : k ≠ "registered_name") :
    ls'.map (pget · k) = ls.map (pget · k) := by
  refine rewriteFrom_map F qc (pget · k) ?_ ls none ls' h
  intro st l l' st' hs
  exact (step_eff hs).top k (by simp [topKeys, h1, h3]) h2

/-- Every hyper-parameter (config key) outside the quantizer keys — and outside the documented
    exceptions that are in `allKeys`: the ReLU-specific keys that are deleted, `use_bias`
    / `folding_mode` / `ema_freeze_delay` written when folding, `total_bits` — keeps its value in
    every layer. -/
theorem C12_hyperparams (F : Flags) (qc : Dict) (ls ls' : List PyVal) (h : rewrite F qc ls = .ok ls')
    (k : String) (hk : k ∉ allKeys) : ls'.map (cfgGet · k) = ls.map (cfgGet · k) := by
  refine rewriteFrom_map F qc (cfgGet · k) ?_ ls none ls' h
  intro st l l' st' hs
  exact (step_eff hs).cfg k hk

/-- non-vacuity: ordinary hyper-parameters are outside the write set -/
example : "units" ∉ allKeys ∧ "filters" ∉ allKeys ∧ "kernel_size" ∉ allKeys ∧ "strides" ∉ allKeys ∧
    "padding" ∉ allKeys ∧ "name" ∉ allKeys ∧ "trainable" ∉ allKeys ∧ "kernel_initializer" ∉ allKeys := by
  decide

/-! ## precedence: a name entry hides every class entry -/

theorem getConfig_name_entry {qc₁ qc₂ : Dict} {l : PyVal} {n : String} {e : PyVal}
    (hn : nameOf l = some (.str n)) (h1 : dget qc₁ n = some e) (h2 : dget qc₂ n = some e) :
    getConfig qc₁ l = getConfig qc₂ l := by
  funext cls p
  unfold getConfig
  cases hc : sub l "config" with
  | error e => rfl
  | ok cfg =>
    have hcfg := sub_ok hc
    simp only [bind, Except.bind]
    cases hnm : sub cfg "name" with
    | error e => rfl
    | ok nm =>
      have hnm' := sub_ok hnm
      have : nm = .str n := by
        simp [nameOf, cfgGet, hcfg, hnm'] at hn
        exact hn
      subst this
      simp [getV, h1, h2]

theorem bnPresent_name_entry {qc₁ qc₂ : Dict} {l : PyVal} {n : String} {e₁ e₂ : PyVal}
    (hn : nameOf l = some (.str n)) (h1 : dget qc₁ n = some e₁) (h2 : dget qc₂ n = some e₂) :
    bnPresent qc₁ l = bnPresent qc₂ l := by
  unfold bnPresent
  cases hc : sub l "config" with
  | error e => rfl
  | ok cfg =>
    have hcfg := sub_ok hc
    simp only [bind, Except.bind]
    cases hnm : sub cfg "name" with
    | error e => rfl
    | ok nm =>
      have hnm' := sub_ok hnm
      have : nm = .str n := by
        simp [nameOf, cfgGet, hcfg, hnm'] at hn
        exact hn
      subst this
      simp [h1, h2]

/-- If the dictionary has an entry under the layer's name, the conversion of that layer does not
    depend on anything else in the dictionary — in particular not on any class entry. -/
theorem C12_precedence (F : Flags) (qc₁ qc₂ : Dict) (st : Option String) (l : PyVal) (n : String) (e : PyVal)
    (hn : nameOf l = some (.str n)) (h1 : dget qc₁ n = some e) (h2 : dget qc₂ n = some e) :
    step F qc₁ st l = step F qc₂ st l := by
  unfold step
  rw [getConfig_name_entry hn h1 h2, bnPresent_name_entry hn h1 h2]

/-- list form: two dictionaries that agree on an entry for every layer name convert every model
    identically, whatever their class entries say. -/
theorem C12_precedence_list (F : Flags) (qc₁ qc₂ : Dict) :
    ∀ (ls : List PyVal) (st : Option String),
      (∀ l ∈ ls, ∃ n e, nameOf l = some (.str n) ∧ dget qc₁ n = some e ∧ dget qc₂ n = some e) →
      rewriteFrom F qc₁ st ls = rewriteFrom F qc₂ st ls := by
  intro ls
  induction ls with
  | nil => intro st _; rfl
  | cons a r ih =>
    intro st h
    obtain ⟨n, e, hn, h1, h2⟩ := h a (by simp)
    simp only [rewriteFrom]
    rw [C12_precedence F qc₁ qc₂ st a n e hn h1 h2]
    cases step F qc₂ st a with
    | error e => rfl
    | ok p =>
      obtain ⟨a', st'⟩ := p
      simp only [bind, Except.bind]
      rw [ih st' (fun l hl => h l (by simp [hl]))]

/-- non-vacuity + the precedence read on a concrete layer: the name entry `ternary()` wins over
    the class entry `quantized_bits(4,0,1)` -/
def dense0 : PyVal := .dict [("class_name", .str "Dense"),
  ("config", .dict [("name", .str "d1"), ("units", .num 3 0), ("activation", .str "relu"),
                    ("use_bias", .bool false)]), ("registered_name", .none), ("inbound_nodes", .list [])]
def F0 : Flags := { actBits := "4", preferAdaptive := false, folding := false, toFold := [] }
def qcBoth : Dict := [("QDense", .dict [("kernel_quantizer", .str "quantized_bits(4,0,1)"),
                                         ("bias_quantizer", .str "quantized_bits(4)")]),
                      ("d1", .dict [("kernel_quantizer", .str "ternary()"),
                                    ("bias_quantizer", .str "quantized_bits(8)")])]

example : (rewrite F0 qcBoth [dense0]).toOption.map (fun ls => ls.map fun l =>
      (clsOf l, cfgGet l "kernel_quantizer", cfgGet l "bias_quantizer", cfgGet l "activation", cfgGet l "units"))
    = some [(some (.str "QDense"), some (.str "ternary()"), some .none, some (.str "quantized_relu(4)"),
             some (.num 3 0))] := by rfl

/-! ## selected weight layers (Dense / Conv* / Separable*, no folding): class and quantizer keys -/

theorem actStep_spec {look : Look} {qn bits : String} {l l' : PyVal} (h : actStep look qn bits l = .ok l') :
    Eff ["activation"] [] l l' ∧
    ∃ aq, look qn (some "activation_quantizer") = .ok aq ∧
      (truthy aq = true → cfgGet l' "activation" = some aq) ∧
      (truthy aq = false → quantActIn l bits = .ok l') := by
  refine ⟨Ok_actStep (Eff.refl _ _ l) (by simp) l' h, ?_⟩
  unfold actStep at h
  obtain ⟨aq, haq, h⟩ := bind_ok h
  refine ⟨aq, haq, ?_, ?_⟩
  · intro ht
    simp only [ht, if_true] at h
    exact (setCfg_spec h).1
  · intro ht
    simp only [ht] at h
    exact h

theorem convApply_spec {look : Look} {bits kk qn : String} {kq bq l l' : PyVal}
    (hk1 : kk ≠ "bias_quantizer") (hk2 : kk ≠ "activation")
    (h : convApply look bits kk qn kq bq l = .ok l') :
    clsOf l' = some (.str qn) ∧ cfgGet l' kk = some kq ∧ cfgGet l' "bias_quantizer" = some bq ∧
    ∃ aq, look qn (some "activation_quantizer") = .ok aq ∧
      (truthy aq = true → cfgGet l' "activation" = some aq) := by
  unfold convApply at h
  obtain ⟨l1, h1, h⟩ := bind_ok h
  obtain ⟨l2, h2, h⟩ := bind_ok h
  obtain ⟨l3, h3, h⟩ := bind_ok h
  obtain ⟨e4, aq, haq, hact, _⟩ := actStep_spec h
  have s1 := setCls_spec h1
  have s2 := setCfg_spec h2
  have s3 := setCfg_spec h3
  refine ⟨?_, ?_, ?_, aq, haq, hact⟩
  · have := e4.top "class_name" (by simp) (by decide)
    rw [clsOf, this, s3.2.2 _ (by decide), s2.2.2 _ (by decide)]
    exact s1.1
  · rw [e4.cfg kk (by simp [hk2]), s3.2.1 kk hk1]
    exact s2.1
  · rw [e4.cfg "bias_quantizer" (by decide)]
    exact s3.1

theorem fixRegistered_spec {l l' : PyVal} {st : Option String} (h : fixRegistered l st = .ok l') :
    Eff [] ["registered_name"] l l' :=
  Ok_fixRegistered (Eff.refl _ _ l) (by simp) l' h

/-- A Dense / Conv1D / Conv2D / Conv2DTranspose / SeparableConv* layer whose kernel-quantizer
    lookup (name entry first, then the class entry `"Q" + class`) is not None becomes
    `"Q" + class`; its `kernel_quantizer` is that lookup result; its `bias_quantizer` is the
    bias lookup when `use_bias` is truthy and None otherwise; its `activation` is the
    `activation_quantizer` lookup when that is truthy.  (No folding.) -/
theorem C12_selected_dense (F : Flags) (hF : F.folding = false) (qc : Dict) (st st' : Option String)
    (l l' : PyVal) (cn : String) (hcn : cn ∈ denseLike) (hcls : clsOf l = some (.str cn))
    (kq : PyVal) (hkq : getConfig qc l ("Q" ++ cn) (some "kernel_quantizer") = .ok kq) (hne : kq ≠ .none)
    (h : step F qc st l = .ok (l', st')) :
    clsOf l' = some (.str ("Q" ++ cn)) ∧ cfgGet l' "kernel_quantizer" = some kq ∧
    (∃ ub, cfgGet l "use_bias" = some ub ∧
      (truthy ub = false → cfgGet l' "bias_quantizer" = some .none) ∧
      (truthy ub = true → ∃ bq, getConfig qc l ("Q" ++ cn) (some "bias_quantizer") = .ok bq ∧
          cfgGet l' "bias_quantizer" = some bq)) ∧
    (∃ aq, getConfig qc l ("Q" ++ cn) (some "activation_quantizer") = .ok aq ∧
      (truthy aq = true → cfgGet l' "activation" = some aq)) := by
  unfold step stepCore at h
  obtain ⟨r, hb, h⟩ := bind_ok h
  obtain ⟨l1, st1, fin⟩ := r
  -- the dispatch
  unfold branch at hb
  obtain ⟨c0, hc0, hb⟩ := bind_ok hb
  obtain ⟨cls, hcls', hb⟩ := bind_ok hb
  have : cls = .str cn := by
    have := sub_ok hcls'
    rw [clsOf] at hcls
    rw [hcls] at this
    exact (Option.some.inj this).symm
  subst this
  simp only [hcn, if_true] at hb
  -- the conv branch without folding
  unfold convBranch at hb
  obtain ⟨fh, hfh, hb⟩ := bind_ok hb
  have : fh = false := by
    unfold foldCond at hfh
    simp [hF] at hfh
    cases hfh
    rfl
  subst this
  obtain ⟨lq, hlq, hb⟩ := bind_ok hb
  have : lq = (l, "Q" ++ cn) := by
    unfold foldStep at hlq
    simp at hlq
    cases hlq
    rfl
  subst this
  obtain ⟨kq', hkq', hb⟩ := bind_ok hb
  dsimp only at hkq'
  rw [hkq] at hkq'
  cases hkq'
  obtain ⟨c1, hc1, hb⟩ := bind_ok hb
  obtain ⟨ub, hub, hb⟩ := bind_ok hb
  obtain ⟨bq, hbq, hb⟩ := bind_ok hb
  obtain ⟨kb, hkb, hb⟩ := bind_ok hb
  have hkb' : kb = (kq, bq) := by
    unfold backupLook at hkb
    have : (match kq with | .none => true | _ => false) = false := by
      cases kq <;> simp at hne ⊢
    simp at hkb
    cases hkb
    rfl
  subst hkb'
  dsimp only at hb hc1 hbq
  have hubv : cfgGet l "use_bias" = some ub := by
    simp [cfgGet, sub_ok hc1, sub_ok hub]
  cases kq with
  | none => exact absurd rfl hne
  | bool _ | num _ _ | str _ | list _ | dict _ =>
    all_goals
      simp only at hb
      obtain ⟨l2, hl2, hb⟩ := bind_ok hb
      cases hb
      obtain ⟨s1, s2, s3, aq, haq, hact⟩ := convApply_spec (by decide) (by decide) hl2
      simp only [if_true] at h
      obtain ⟨l3, hl3, h⟩ := bind_ok h
      cases h
      have e := fixRegistered_spec hl3
      have ecls := e.top "class_name" (by decide) (by decide)
      refine ⟨by rw [clsOf, ecls]; exact s1, by rw [e.cfg _ (by simp)]; exact s2, ⟨ub, hubv, ?_, ?_⟩,
        ⟨aq, haq, fun ht => by rw [e.cfg _ (by simp)]; exact hact ht⟩⟩
      · intro ht
        unfold biasLook at hbq
        simp [ht] at hbq
        cases hbq
        rw [e.cfg _ (by simp)]
        exact s3
      · intro ht
        unfold biasLook at hbq
        simp [ht] at hbq
        exact ⟨bq, hbq, by rw [e.cfg _ (by simp)]; exact s3⟩

/-- bias-less layers get no bias quantizer: `use_bias` falsy ⇒ `bias_quantizer = None`
    (the documented exception is folding, where `use_bias` is forced to True). -/
theorem C12_biasless (F : Flags) (hF : F.folding = false) (qc : Dict) (st st' : Option String)
    (l l' : PyVal) (cn : String) (hcn : cn ∈ denseLike) (hcls : clsOf l = some (.str cn))
    (kq : PyVal) (hkq : getConfig qc l ("Q" ++ cn) (some "kernel_quantizer") = .ok kq) (hne : kq ≠ .none)
    (ub : PyVal) (hub : cfgGet l "use_bias" = some ub) (hf : truthy ub = false)
    (h : step F qc st l = .ok (l', st')) : cfgGet l' "bias_quantizer" = some .none := by
  obtain ⟨_, _, ⟨ub', hub', hno, _⟩, _⟩ := C12_selected_dense F hF qc st st' l l' cn hcn hcls kq hkq hne h
  rw [hub] at hub'
  cases hub'
  exact hno hf

/-- list form of the two theorems above: they hold at every position of every model -/
theorem C12_selected_dense_list (F : Flags) (hF : F.folding = false) (qc : Dict) (ls ls' : List PyVal)
    (h : rewrite F qc ls = .ok ls') (l l' : PyVal) (hm : (l, l') ∈ ls.zip ls')
    (cn : String) (hcn : cn ∈ denseLike) (hcls : clsOf l = some (.str cn))
    (kq : PyVal) (hkq : getConfig qc l ("Q" ++ cn) (some "kernel_quantizer") = .ok kq) (hne : kq ≠ .none) :
    clsOf l' = some (.str ("Q" ++ cn)) ∧ cfgGet l' "kernel_quantizer" = some kq ∧
    (∀ ub, cfgGet l "use_bias" = some ub → truthy ub = false → cfgGet l' "bias_quantizer" = some .none) := by
  obtain ⟨st₁, st₂, hs⟩ := (rewriteFrom_zip F qc ls none ls' h).2 l l' hm
  obtain ⟨h1, h2, _, _⟩ := C12_selected_dense F hF qc st₁ st₂ l l' cn hcn hcls kq hkq hne hs
  exact ⟨h1, h2, fun ub hub hf => C12_biasless F hF qc st₁ st₂ l l' cn hcn hcls kq hkq hne ub hub hf hs⟩

/-! ## `quantize_activation` -/

theorem C12_quantize_activation (d : Dict) (bits : String) :
    (dget d "activation" = some (.str "relu") →
      quantizeActivation (.dict d) bits = .ok (.dict (dset d "activation" (.str ("quantized_relu(" ++ bits ++ ")"))))) ∧
    (dget d "activation" = some (.str "tanh") →
      quantizeActivation (.dict d) bits = .ok (.dict (dset d "activation" (.str ("quantized_tanh(" ++ bits ++ ")"))))) ∧
    (dget d "activation" = some (.str "sigmoid") →
      quantizeActivation (.dict d) bits = .ok (.dict (dset d "activation" (.str ("quantized_sigmoid(" ++ bits ++ ")"))))) ∧
    (dget d "activation" = some (.str "linear") → quantizeActivation (.dict d) bits = .ok (.dict d)) ∧
    (dget d "activation" = none → quantizeActivation (.dict d) bits = .ok (.dict d)) := by
  refine ⟨?_, ?_, ?_, ?_, ?_⟩ <;> intro h <;> simp [quantizeActivation, h] <;> rfl


/-! ## layers that are not selected -/

/-- the class keys under which a layer of class `cn` can be selected -/
def classKeys (cn : String) : List String :=
  if cn ∈ denseLike ∨ cn = "DepthwiseConv2D" then ["Q" ++ cn, "Q" ++ cn ++ "Batchnorm"]
  else if cn = "SimpleRNN" ∨ cn = "LSTM" ∨ cn = "GRU" then ["Q" ++ cn]
  else if cn = "Bidirectional" then ["QBidirectional"]
  else if cn = "Activation" then ["QActivation", "QAdaptiveActivation"]
  else if cn = "ReLU" ∨ cn = "relu" ∨ cn = "LeakyReLU" then ["QActivation"]
  else if cn = "BatchNormalization" then ["QBatchNormalization"]
  else if cn = "AveragePooling2D" ∨ cn = "GlobalAveragePooling2D" then ["Q" ++ cn]
  else []

/-- neither the layer's name nor any of its class keys occurs in the dictionary -/
structure NotSelected (qc : Dict) (l : PyVal) (cn n : String) : Prop where
  cls : clsOf l = some (.str cn)
  name : nameOf l = some (.str n)
  noName : dget qc n = none
  noClass : ∀ q ∈ classKeys cn, dget qc q = none

theorem getConfig_notSelected {qc : Dict} {l : PyVal} {cn n : String} (h : NotSelected qc l cn n)
    (q : String) (hq : q ∈ classKeys cn) (p : Option String) : getConfig qc l q p = .ok .none := by
  have hn := h.name
  simp only [nameOf, cfgGet] at hn
  cases hc : pget l "config" with
  | none => simp [hc] at hn
  | some cfg =>
    simp only [hc, Option.bind_some] at hn
    unfold getConfig
    simp only [sub_of_pget hc, sub_of_pget hn, bind, Except.bind, getV, h.noName, h.noClass q hq, pure,
      Except.pure, Option.getD_none]
    cases p <;> rfl

theorem bnPresent_notSelected {qc : Dict} {l : PyVal} {n : String}
    (h : NotSelected qc l "BatchNormalization" n) : bnPresent qc l = .ok false := by
  have hn := h.name
  simp only [nameOf, cfgGet] at hn
  cases hc : pget l "config" with
  | none => simp [hc] at hn
  | some cfg =>
    simp only [hc, Option.bind_some] at hn
    unfold bnPresent
    have := h.noClass "QBatchNormalization" (by decide)
    simp [sub_of_pget hc, sub_of_pget hn, bind, Except.bind, h.noName, this, pure, Except.pure]

theorem convBranch_unselected {F : Flags} (hF : F.folding = false) {look : Look} {kk fn pn : String} {cf : Bool}
    {l : PyVal} {r : PyVal × Option String × Bool} (hl : ∀ p, look pn p = .ok .none)
    (h : convBranch F look kk cf fn pn l = .ok r) : r.1 = l ∧ r.2.2 = false := by
  unfold convBranch at h
  obtain ⟨fh, hfh, h⟩ := bind_ok h
  have : fh = false := by
    unfold foldCond at hfh
    simp [hF] at hfh
    cases hfh
    rfl
  subst this
  obtain ⟨lq, hlq, h⟩ := bind_ok h
  have : lq = (l, pn) := by
    unfold foldStep at hlq
    simp at hlq
    cases hlq
    rfl
  subst this
  obtain ⟨kq, hkq, h⟩ := bind_ok h
  dsimp only at hkq
  rw [hl] at hkq
  cases hkq
  obtain ⟨c1, hc1, h⟩ := bind_ok h
  obtain ⟨ub, hub, h⟩ := bind_ok h
  obtain ⟨bq, hbq, h⟩ := bind_ok h
  obtain ⟨kb, hkb, h⟩ := bind_ok h
  have : kb.1 = .none := by
    unfold backupLook at hkb
    dsimp only at hkb
    split at hkb
    · obtain ⟨k2, hk2, hkb⟩ := bind_ok hkb
      obtain ⟨b2, hb2, hkb⟩ := bind_ok hkb
      rw [hl] at hk2
      cases hk2
      cases hkb
      rfl
    · cases hkb
      rfl
  rw [this] at h
  cases h
  exact ⟨rfl, rfl⟩

theorem quantizeRnn_unselected {look : Look} {bits : String} {l l' : PyVal}
    (hl : ∀ q p, look q p = .ok .none) (h : quantizeRnn look bits l = .ok l') : l' = l := by
  unfold quantizeRnn at h
  obtain ⟨c0, _, h⟩ := bind_ok h
  obtain ⟨cn, _, h⟩ := bind_ok h
  obtain ⟨kq, hkq, h⟩ := bind_ok h
  rw [hl] at hkq
  cases hkq
  obtain ⟨rq, _, h⟩ := bind_ok h
  obtain ⟨c1, _, h⟩ := bind_ok h
  obtain ⟨ub, _, h⟩ := bind_ok h
  obtain ⟨bq, _, h⟩ := bind_ok h
  obtain ⟨sq, _, h⟩ := bind_ok h
  cases h
  rfl

theorem quantizeRnn_unselected' {look : Look} {bits : String} {l l' : PyVal} {cn : String}
    (hc : clsOf l = some (.str cn)) (hl : ∀ p, look ("Q" ++ cn) p = .ok .none)
    (h : quantizeRnn look bits l = .ok l') : l' = l := by
  unfold quantizeRnn at h
  obtain ⟨c0, hc0, h⟩ := bind_ok h
  have := sub_ok hc0
  rw [clsOf] at hc
  rw [hc] at this
  cases this
  obtain ⟨cn', hcn', h⟩ := bind_ok h
  cases hcn'
  obtain ⟨kq, hkq, h⟩ := bind_ok h
  rw [hl] at hkq
  cases hkq
  obtain ⟨rq, _, h⟩ := bind_ok h
  obtain ⟨c1, _, h⟩ := bind_ok h
  obtain ⟨ub, _, h⟩ := bind_ok h
  obtain ⟨bq, _, h⟩ := bind_ok h
  obtain ⟨sq, _, h⟩ := bind_ok h
  cases h
  rfl

theorem activationBranch_unselected {F : Flags} {look : Look} {st : Option String} {l : PyVal}
    {r : PyVal × Option String × Bool}
    (h1 : look "QActivation" none = .ok .none) (h2 : look "QAdaptiveActivation" none = .ok .none)
    (h : activationBranch F look st l = .ok r) : r.1 = l ∧ r.2.2 = false := by
  unfold activationBranch at h
  obtain ⟨qa, hqa, h⟩ := bind_ok h
  have : qa.1 = .none := by
    unfold actLookup at hqa
    split at hqa
    · simp [h1, h2, bind, Except.bind, pure, Except.pure] at hqa
      cases hqa
      rfl
    · simp [h1, h2, bind, Except.bind, pure, Except.pure] at hqa
      cases hqa
      rfl
  rw [this] at h
  cases h
  exact ⟨rfl, rfl⟩

theorem reluBranch_unselected {F : Flags} {look : Look} {st : Option String} {l : PyVal} {cn : String}
    {r : PyVal × Option String × Bool} (h1 : look "QActivation" none = .ok .none)
    (h : reluBranch F look cn l st = .ok r) : r.1 = l ∧ r.2.2 = false := by
  unfold reluBranch at h
  obtain ⟨q, hq, h⟩ := bind_ok h
  rw [h1] at hq
  cases hq
  cases h
  exact ⟨rfl, rfl⟩

theorem poolBranch_unselected {F : Flags} {look : Look} {l : PyVal} {cn : String}
    {r : PyVal × Option String × Bool} (h1 : ∀ p, look ("Q" ++ cn) p = .ok .none)
    (h : poolBranch F look cn l = .ok r) : r.1 = l ∧ r.2.2 = false := by
  unfold poolBranch at h
  obtain ⟨q, hq, h⟩ := bind_ok h
  rw [h1] at hq
  cases hq
  cases h
  exact ⟨rfl, rfl⟩

theorem bnBranch_unselected {look : Look} {st : Option String} {l : PyVal} {bnIn : R Bool}
    {r : PyVal × Option String × Bool} (h1 : bnIn = .ok false)
    (h : bnBranch look bnIn st l = .ok r) : r.1 = l ∧ r.2.2 = false := by
  unfold bnBranch at h
  obtain ⟨q, hq, h⟩ := bind_ok h
  rw [h1] at hq
  cases hq
  simp at h
  cases h
  exact ⟨rfl, rfl⟩

/-- the value of the layer after the end-of-body `registered_name` pop, for a layer whose
    `registered_name` is absent or falsy (every built-in Keras layer: `null`) -/
def popped (l : PyVal) : PyVal :=
  match l with
  | .dict d => .dict (derase d "registered_name")
  | v => v

theorem fixRegistered_falsy {l l' : PyVal} {st : Option String}
    (hreg : truthy ((pget l "registered_name").getD .none) = false) (h : fixRegistered l st = .ok l') :
    l' = popped l := by
  unfold fixRegistered at h
  obtain ⟨r, hr, h⟩ := bind_ok h
  obtain ⟨l1, reg⟩ := r
  obtain ⟨_, _, hreg'⟩ := popReg_spec hr
  subst hreg'
  dsimp only at h
  rw [hreg] at h
  simp at h
  cases h
  unfold popReg at hr
  split at hr
  · cases hr
    rfl
  · cases hr

/-- A layer that neither its name nor any of its class keys selects is left as it was: the
    result is the layer itself, or the layer with its null `registered_name` entry popped (a key
    Keras reads with `.get`).  Hypotheses: no folding (see `C12_folding_unselected_counterexample`),
    not a Bidirectional wrapper (see `C12_untouched_bidirectional_counterexample`), and a
    `registered_name` that is absent / null (see `C12_registered_counterexample`). -/
theorem C12_untouched_partial (F : Flags) (hF : F.folding = false) (qc : Dict) (st st' : Option String)
    (l l' : PyVal) (cn n : String) (hns : NotSelected qc l cn n) (hnb : cn ≠ "Bidirectional")
    (hreg : truthy ((pget l "registered_name").getD .none) = false)
    (h : step F qc st l = .ok (l', st')) : l' = l ∨ l' = popped l := by
  have hlook : ∀ q ∈ classKeys cn, ∀ p, getConfig qc l q p = .ok .none :=
    fun q hq p => getConfig_notSelected hns q hq p
  unfold step stepCore at h
  obtain ⟨r, hb, h⟩ := bind_ok h
  obtain ⟨l1, st1, fin⟩ := r
  -- it is enough to show that the branch returns the layer itself
  suffices hl1 : l1 = l by
    subst hl1
    cases fin with
    | false => simp at h; cases h; exact Or.inl rfl
    | true =>
      simp only [if_true] at h
      obtain ⟨l3, hl3, h⟩ := bind_ok h
      cases h
      exact Or.inr (fixRegistered_falsy hreg hl3)
  unfold branch at hb
  obtain ⟨c0, hc0, hb⟩ := bind_ok hb
  obtain ⟨cls, hcls', hb⟩ := bind_ok hb
  have : cls = .str cn := by
    have := sub_ok hcls'
    have hc := hns.cls
    rw [clsOf] at hc
    rw [hc] at this
    exact (Option.some.inj this).symm
  subst this
  dsimp only at hb
  by_cases c1 : cn ∈ denseLike
  · simp only [c1, if_true] at hb
    exact (convBranch_unselected hF (fun p => hlook _ (by simp [classKeys, c1]) p) hb).1
  simp only [c1, if_false] at hb
  by_cases c2 : cn = "DepthwiseConv2D"
  · subst c2
    simp only [if_true] at hb
    exact (convBranch_unselected hF (fun p => hlook _ (by decide) p) hb).1
  simp only [c2, if_false] at hb
  by_cases c3 : cn = "SimpleRNN" ∨ cn = "LSTM" ∨ cn = "GRU"
  · simp only [c3, if_true] at hb
    obtain ⟨l2, hl2, hb⟩ := bind_ok hb
    cases hb
    exact quantizeRnn_unselected' hns.cls (fun p => hlook _ (by simp [classKeys, c1, c2, c3]) p) hl2
  simp only [c3, if_false] at hb
  simp only [hnb, if_false] at hb
  by_cases c5 : cn = "Activation"
  · subst c5
    simp only [if_true] at hb
    exact (activationBranch_unselected (hlook _ (by decide) none) (hlook _ (by decide) none) hb).1
  simp only [c5, if_false] at hb
  by_cases c6 : cn = "ReLU" ∨ cn = "relu" ∨ cn = "LeakyReLU"
  · simp only [c6, if_true] at hb
    exact (reluBranch_unselected (hlook _ (by simp [classKeys, c1, c2, c3, hnb, c5, c6]) none) hb).1
  simp only [c6, if_false] at hb
  by_cases c7 : cn = "BatchNormalization"
  · subst c7
    simp only [if_true] at hb
    exact (bnBranch_unselected (bnPresent_notSelected hns) hb).1
  simp only [c7, if_false] at hb
  by_cases c8 : cn = "AveragePooling2D" ∨ cn = "GlobalAveragePooling2D"
  · simp only [c8, if_true] at hb
    exact (poolBranch_unselected (fun p => hlook _ (by simp [classKeys, c1, c2, c3, hnb, c5, c6, c7, c8]) p) hb).1
  simp only [c8, if_false] at hb
  cases hb
  rfl

/-- list form: at every position of every model -/
theorem C12_untouched_partial_list (F : Flags) (hF : F.folding = false) (qc : Dict) (ls ls' : List PyVal)
    (h : rewrite F qc ls = .ok ls') (l l' : PyVal) (hm : (l, l') ∈ ls.zip ls') (cn n : String)
    (hns : NotSelected qc l cn n) (hnb : cn ≠ "Bidirectional")
    (hreg : truthy ((pget l "registered_name").getD .none) = false) : l' = l ∨ l' = popped l := by
  obtain ⟨st₁, st₂, hs⟩ := (rewriteFrom_zip F qc ls none ls' h).2 l l' hm
  exact C12_untouched_partial F hF qc st₁ st₂ l l' cn n hns hnb hreg hs

/-- non-vacuity: `dense0` is not selected by a dictionary that only talks about other things -/
example : NotSelected [("QConv2D", .dict []), ("other", .none)] dense0 "Dense" "d1" :=
  ⟨rfl, rfl, rfl, by decide⟩


/-! ## selected ReLU-family layers (after fix 01d6934: the keys of the ORIGINAL class are removed) -/

/-- the ReLU-specific config keys the branch removes, per original class (utils.py:940-949) -/
def reluKeys (cn : String) : List String :=
  if cn = "LeakyReLU" then ["alpha"]
  else if cn = "relu" then ["max_value", "alpha", "threshold"]
  else ["max_value", "negative_slope", "threshold"]

theorem reluDelete_spec {cn : String} {l l' : PyVal} (h : reluDelete cn l = .ok l') :
    (∀ k ∈ reluKeys cn, cfgGet l' k = none) ∧ (∀ k, k ∉ reluKeys cn → cfgGet l' k = cfgGet l k) ∧
    (∀ k, k ≠ "config" → pget l' k = pget l k) := by
  unfold reluDelete at h
  unfold reluKeys
  by_cases c1 : cn = "LeakyReLU"
  · simp only [c1, if_true] at h ⊢
    have s := delCfg_spec h
    refine ⟨?_, ?_, s.2.2⟩
    · intro k hk
      simp only [List.mem_singleton] at hk
      subst hk
      exact s.1
    · intro k hk
      simp only [List.mem_singleton] at hk
      exact s.2.1 k hk
  · simp only [c1, if_false] at h ⊢
    by_cases c2 : cn = "relu"
    all_goals
      simp only [c2, if_true, if_false] at h ⊢
      obtain ⟨l1, h1, h⟩ := bind_ok h
      obtain ⟨l2, h2, h⟩ := bind_ok h
      have s1 := delCfg_spec h1
      have s2 := delCfg_spec h2
      have s3 := delCfg_spec h
      refine ⟨?_, ?_, fun k hk => by rw [s3.2.2 k hk, s2.2.2 k hk, s1.2.2 k hk]⟩
      · intro k hk
        simp only [List.mem_cons, List.not_mem_nil, or_false] at hk
        rcases hk with hk | hk | hk
        · subst hk
          rw [s3.2.1 _ (by decide), s2.2.1 _ (by decide)]
          exact s1.1
        · subst hk
          rw [s3.2.1 _ (by decide)]
          exact s2.1
        · subst hk
          exact s3.1
      · intro k hk
        simp only [List.mem_cons, List.not_mem_nil, or_false, not_or] at hk
        rw [s3.2.1 k hk.2.2, s2.2.1 k hk.2.1, s1.2.1 k hk.1]

/-- A ReLU / relu / LeakyReLU layer that a non-dict, truthy `QActivation` lookup (name entry
    first, then the class entry) selects becomes a `QActivation` whose `activation` is exactly
    that entry; the ReLU-specific keys of its ORIGINAL class are gone and every other config key
    and every other top-level key except `registered_name` is unchanged.  For a LeakyReLU this
    is the behaviour fix 01d6934 restored (before it the step raised `KeyError 'max_value'`). -/
theorem C12_selected_relu (F : Flags) (qc : Dict) (st st' : Option String) (l l' : PyVal) (cn : String)
    (hcn : cn = "ReLU" ∨ cn = "relu" ∨ cn = "LeakyReLU") (hcls : clsOf l = some (.str cn))
    (q : PyVal) (hq : getConfig qc l "QActivation" none = .ok q) (hnd : ∀ d, q ≠ .dict d)
    (ht : truthy q = true) (h : step F qc st l = .ok (l', st')) :
    clsOf l' = some (.str "QActivation") ∧ cfgGet l' "activation" = some q ∧
    (∀ k ∈ reluKeys cn, cfgGet l' k = none) ∧
    (∀ k, k ∉ reluKeys cn → k ≠ "activation" → cfgGet l' k = cfgGet l k) := by
  have hne : q ≠ .none := by
    intro e
    rw [e] at ht
    cases ht
  unfold step stepCore at h
  obtain ⟨r1, hb, h⟩ := bind_ok h
  obtain ⟨l1, st1, fin⟩ := r1
  unfold branch at hb
  obtain ⟨c0, hc0, hb⟩ := bind_ok hb
  obtain ⟨cls, hcls', hb⟩ := bind_ok hb
  have : cls = .str cn := by
    have := sub_ok hcls'
    rw [clsOf] at hcls
    rw [hcls] at this
    exact (Option.some.inj this).symm
  subst this
  have e1 : (cn ∈ denseLike) = False := by
    rcases hcn with h | h | h <;> subst h <;> decide
  have e2 : (cn = "DepthwiseConv2D") = False := by
    rcases hcn with h | h | h <;> subst h <;> decide
  have e3 : (cn = "SimpleRNN" ∨ cn = "LSTM" ∨ cn = "GRU") = False := by
    rcases hcn with h | h | h <;> subst h <;> decide
  have e4 : (cn = "Bidirectional") = False := by
    rcases hcn with h | h | h <;> subst h <;> decide
  have e5 : (cn = "Activation") = False := by
    rcases hcn with h | h | h <;> subst h <;> decide
  simp only [e1, e2, e3, e4, e5, if_false, hcn, if_true] at hb
  unfold reluBranch at hb
  obtain ⟨q', hq', hb⟩ := bind_ok hb
  rw [hq] at hq'
  cases hq'
  have hc : ∀ qn, reluCond q qn = true := by
    intro qn
    unfold reluCond
    cases q <;> first | rfl | exact absurd rfl (hnd _)
  have hpick : ∀ qn, reluPick q qn = .ok q := by
    intro qn
    unfold reluPick
    cases q <;> first | rfl | exact absurd rfl (hnd _)
  have hfin : ∀ qn, reluFinish F q qn cn l = .ok (l1, st1, fin) →
      fin = true ∧ clsOf l1 = some (.str "QActivation") ∧ cfgGet l1 "activation" = some q ∧
      (∀ k ∈ reluKeys cn, cfgGet l1 k = none) ∧
      (∀ k, k ∉ reluKeys cn → k ≠ "activation" → cfgGet l1 k = cfgGet l k) := by
    intro qn hr
    unfold reluFinish at hr
    simp only [hc, if_true] at hr
    obtain ⟨l2, hl2, hr⟩ := bind_ok hr
    cases hr
    unfold reluApply at hl2
    obtain ⟨l3, hl3, hl2⟩ := bind_ok hl2
    obtain ⟨l4, hl4, hl2⟩ := bind_ok hl2
    obtain ⟨q2, hq2, hl2⟩ := bind_ok hl2
    rw [hpick] at hq2
    cases hq2
    simp only [ht, if_true] at hl2
    have s3 := setCls_spec hl3
    have s4 := reluDelete_spec hl4
    have s5 := setCfg_spec hl2
    have hact : ∀ k ∈ reluKeys cn, k ≠ "activation" := by
      intro k hk e
      subst e
      unfold reluKeys at hk
      split at hk
      · simp at hk
      · split at hk <;> simp at hk
    refine ⟨rfl, ?_, s5.1, ?_, ?_⟩
    · rw [clsOf, s5.2.2 _ (by decide), s4.2.2 _ (by decide)]
      exact s3.1
    · intro k hk
      rw [s5.2.1 k (hact k hk)]
      exact s4.1 k hk
    · intro k hk hka
      rw [s5.2.1 k hka, s4.2.1 k hk]
      exact cfgGet_of_top (s3.2 "config" (by decide)) k
  have hmain : fin = true ∧ clsOf l1 = some (.str "QActivation") ∧ cfgGet l1 "activation" = some q ∧
      (∀ k ∈ reluKeys cn, cfgGet l1 k = none) ∧
      (∀ k, k ∉ reluKeys cn → k ≠ "activation" → cfgGet l1 k = cfgGet l k) := by
    cases q with
    | none => exact absurd rfl hne
    | bool _ | num _ _ | str _ | list _ | dict _ =>
      all_goals
        simp only at hb
        obtain ⟨_, _, hb⟩ := bind_ok hb
        obtain ⟨_, _, hb⟩ := bind_ok hb
        obtain ⟨_, _, hb⟩ := bind_ok hb
        exact hfin _ hb
  obtain ⟨hfin', m1, m2, m3, m4⟩ := hmain
  subst hfin'
  simp only [if_true] at h
  obtain ⟨l5, hl5, h⟩ := bind_ok h
  cases h
  have e := fixRegistered_spec hl5
  refine ⟨?_, ?_, ?_, ?_⟩
  · rw [clsOf, e.top "class_name" (by decide) (by decide)]
    exact m1
  · rw [e.cfg _ (by simp)]
    exact m2
  · intro k hk
    rw [e.cfg _ (by simp)]
    exact m3 k hk
  · intro k hk hka
    rw [e.cfg _ (by simp)]
    exact m4 k hk hka

/-- list form: at every position of every converted model -/
theorem C12_selected_relu_list (F : Flags) (qc : Dict) (ls ls' : List PyVal)
    (h : rewrite F qc ls = .ok ls') (l l' : PyVal) (hm : (l, l') ∈ ls.zip ls') (cn : String)
    (hcn : cn = "ReLU" ∨ cn = "relu" ∨ cn = "LeakyReLU") (hcls : clsOf l = some (.str cn))
    (q : PyVal) (hq : getConfig qc l "QActivation" none = .ok q) (hnd : ∀ d, q ≠ .dict d)
    (ht : truthy q = true) :
    clsOf l' = some (.str "QActivation") ∧ cfgGet l' "activation" = some q ∧
    (∀ k ∈ reluKeys cn, cfgGet l' k = none) := by
  obtain ⟨st₁, st₂, hs⟩ := (rewriteFrom_zip F qc ls none ls' h).2 l l' hm
  obtain ⟨h1, h2, h3, _⟩ := C12_selected_relu F qc st₁ st₂ l l' cn hcn hcls q hq hnd ht hs
  exact ⟨h1, h2, h3⟩

def leaky : PyVal := .dict [("class_name", .str "LeakyReLU"),
  ("config", .dict [("name", .str "lr"), ("alpha", .num 3 1)]), ("registered_name", .none)]

/-- regression witness of the repaired defect (was `KeyError 'max_value'` before 01d6934):
    the LeakyReLU layer is converted, `alpha` is removed, the Dense layer is left alone -/
theorem C12_leakyrelu_fixed_witness :
    (rewrite F0 [("QActivation", .str "quantized_relu(4)")] [dense0, leaky]).toOption.map
      (fun ls => ls.map fun l => (clsOf l, cfgGet l "activation", cfgGet l "alpha")) =
    some [(some (.str "Dense"), some (.str "relu"), none),
          (some (.str "QActivation"), some (.str "quantized_relu(4)"), none)] := by
  rfl

/-- non-vacuity of `C12_selected_relu`: the witness meets its hypotheses -/
example : clsOf leaky = some (.str "LeakyReLU") ∧
    getConfig [("QActivation", .str "quantized_relu(4)")] leaky "QActivation" none
      = .ok (.str "quantized_relu(4)") ∧ truthy (.str "quantized_relu(4)") = true := by
  exact ⟨rfl, rfl, by decide⟩

/-- … while a dict-valued QActivation entry without a matching key leaves the layer alone -/
example : (rewrite F0 [("QActivation", .dict [("tanh", .str "quantized_tanh(4)")])] [leaky]).toOption.map
    (fun ls => ls.map clsOf) = some [some (.str "LeakyReLU")] := by rfl

/-! ## recorded defects of the code as it is (mirrored by the model) -/

def bidir : PyVal := .dict [("class_name", .str "Bidirectional"),
  ("config", .dict [("name", .str "bi"), ("layer", .dict [("class_name", .str "LSTM"),
      ("config", .dict [("name", .str "ls"), ("units", .num 2 0), ("use_bias", .bool true),
                        ("activation", .str "tanh")]), ("registered_name", .none)]),
    ("merge_mode", .str "concat")]), ("registered_name", .none)]

/-- Bidirectional (finding C12-bidirectional-always-renamed): not selected by anything, yet the
    class becomes QBidirectional (the inner layer stays an unquantized LSTM). -/
theorem C12_untouched_bidirectional_counterexample :
    NotSelected [] bidir "Bidirectional" "bi" ∧
    (rewrite F0 [] [bidir]).toOption.map (fun ls => ls.map fun l =>
        (clsOf l, (cfgGet l "layer").bind clsOf)) =
      some [(some (.str "QBidirectional"), some (.str "LSTM"))] := by
  exact ⟨⟨rfl, rfl, rfl, by decide⟩, rfl⟩

def conv0 : PyVal := .dict [("class_name", .str "Conv2D"),
  ("config", .dict [("name", .str "c1"), ("filters", .num 2 0), ("use_bias", .bool false),
                    ("activation", .str "linear")]), ("registered_name", .none), ("name", .str "c1")]
def Ffold : Flags := { actBits := "4", preferAdaptive := false, folding := true, toFold := ["c1"] }

/-- folding (finding C12-folding-unselected-conv): the layer is not selected and keeps its class,
    but its config has been given `use_bias = True`, `folding_mode`, `ema_freeze_delay`. -/
theorem C12_folding_unselected_counterexample :
    NotSelected [] conv0 "Conv2D" "c1" ∧
    (rewrite Ffold [] [conv0]).toOption.map (fun ls => ls.map fun l =>
        (clsOf l, cfgGet l "use_bias", cfgGet l "folding_mode", cfgGet l "ema_freeze_delay")) =
      some [(some (.str "Conv2D"), some (.bool true), some (.str "ema_stats_folding"), some .none)] := by
  exact ⟨⟨rfl, rfl, rfl, by decide⟩, rfl⟩

def custom : PyVal := .dict [("class_name", .str "Twice"), ("config", .dict [("name", .str "tw")]),
  ("registered_name", .str "qkv>Twice")]

/-- registered_name (finding C12-registered-name-stale-qname): an unselected layer of a registered
    custom class is re-labelled with the q_name left over from an earlier layer; with no earlier
    q_name the loop raises UnboundLocalError. -/
theorem C12_registered_counterexample :
    (rewrite F0 qcBoth [dense0, custom]).toOption.map (fun ls => ls.map fun l => pget l "registered_name") =
      some [none, some (.str "QDense")] ∧
    rewrite F0 qcBoth [custom, dense0] = .error .unboundLocal := by
  exact ⟨rfl, rfl⟩

end QKV.Props.C12
