import QKV.Model.Rewrite
namespace QKV.Props.C12
open QKV.Rewrite
theorem C12_placeholder : rewrite default [] [] = .ok [] := rfl
end QKV.Props.C12
