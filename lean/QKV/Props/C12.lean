/-
  C12 — model_quantize converts exactly what the configuration names and nothing else.

  Property (verbatim, properties.jsonl): Converting a Keras model with a quantization dictionary
  yields a model with the same topology, layer names, output shapes and non-quantization
  hyper-parameters, in which each layer selected by name or by class entry becomes its quantized
  counterpart carrying the kernel, bias, recurrent and activation quantizers that this quantized
  layer class builds from the configured strings (name entries taking precedence over class
  entries, biasless layers getting no bias quantizer), and every layer not selected is left as it
  was.  The source model and the caller's dictionaries are not modified, and with weight transfer
  requested the new model starts from the source weights.

  This file holds the property theorems `C12_*`, the `*_spec` lemmas they are assembled from and
  non-vacuity examples.  Model:
  QKV.Model.Rewrite (`rewrite : Flags → Dict → List PyVal → Except Err (List PyVal)`, the loop of
  utils.py:728-1012 over the JSON layer list).  Layer lists are arbitrary (unbounded length,
  arbitrary JSON values); every theorem is about every position of the list.

  What is a theorem here and what is runtime:
   * theorems: length / names / order / every untouched top-level key (inbound_nodes = topology) /
     every config key outside the quantizer keys; untouched layers; selected layers' class and
     quantizer keys (Dense/Conv, SeparableConv, recurrent, BatchNormalization, pooling, Activation,
     ReLU family); precedence; bias-less; the repaired defects as `_fixed_witness`es and the one
     defect that is still recorded (folding) as `_counterexample`.
   * runtime (checked on the real code by the harness, not provable about a pure function):
     "source model and dictionaries not modified", output shapes, weight transfer, and what the
     Q-layer classes build from the strings.  `rewrite` is a pure function of its arguments, which
     is the model-side content of the non-modification clause.
-/
import QKV.Lemmas.Rewrite
namespace QKV.Props.C12
open QKV.Rewrite

/-! ## from one iteration to the whole (unbounded) layer list -/

/-- corresponding layers of input and output are related by one loop iteration -/
theorem rewriteFrom_zip (F : Flags) (qc : Dict) :
    ∀ (ls : List PyVal) (st : Option String) (ls' : List PyVal), rewriteFrom F qc st ls = .ok ls' →
      ls'.length = ls.length ∧
      ∀ l l', (l, l') ∈ ls.zip ls' → ∃ st₁ st₂, step F qc st₁ l = .ok (l', st₂) := by
  intro ls
  induction ls with
  | nil =>
    intro st ls' h
    simp only [rewriteFrom] at h
    cases h
    simp
  | cons a r ih =>
    intro st ls' h
    simp only [rewriteFrom] at h
    obtain ⟨p, hp, h⟩ := bind_ok h
    obtain ⟨a', st'⟩ := p
    obtain ⟨r', hr', h⟩ := bind_ok h
    cases h
    obtain ⟨hlen, hz⟩ := ih st' r' hr'
    refine ⟨by simp [hlen], ?_⟩
    intro l l' hm
    simp only [List.zip_cons_cons, List.mem_cons] at hm
    rcases hm with hm | hm
    · cases hm
      exact ⟨st, st', hp⟩
    · exact hz l l' hm

/-- any per-layer observable that one iteration preserves is preserved list-wide, in order -/
theorem rewriteFrom_map {β : Type} (F : Flags) (qc : Dict) (f : PyVal → β)
    (hf : ∀ st l l' st', step F qc st l = .ok (l', st') → f l' = f l) :
    ∀ (ls : List PyVal) (st : Option String) (ls' : List PyVal), rewriteFrom F qc st ls = .ok ls' →
      ls'.map f = ls.map f := by
  intro ls
  induction ls with
  | nil =>
    intro st ls' h
    simp only [rewriteFrom] at h
    cases h
    rfl
  | cons a r ih =>
    intro st ls' h
    simp only [rewriteFrom] at h
    obtain ⟨p, hp, h⟩ := bind_ok h
    obtain ⟨a', st'⟩ := p
    obtain ⟨r', hr', h⟩ := bind_ok h
    cases h
    simp [hf st a a' st' hp, ih st' r' hr']

theorem step_eff {F : Flags} {qc : Dict} {st st' : Option String} {l l' : PyVal}
    (h : step F qc st l = .ok (l', st')) : Eff allKeys topKeys l l' :=
  Ok_stepCore (l', st') h

/-! ## shape: length, names, order, topology keys, hyper-parameters -/

/-- The converted layer list has the same length, and the same layer names in the same order. -/
theorem C12_shape (F : Flags) (qc : Dict) (ls ls' : List PyVal) (h : rewrite F qc ls = .ok ls') :
    ls'.length = ls.length ∧ ls'.map nameOf = ls.map nameOf := by
  refine ⟨(rewriteFrom_zip F qc ls none ls' h).1, ?_⟩
  refine rewriteFrom_map F qc nameOf ?_ ls none ls' h
  intro st l l' st' hs
  exact (step_eff hs).cfg "name" (by decide)

/-- Every top-level entry of every layer other than `class_name`, `config`, `registered_name`
    (in particular `inbound_nodes`, i.e. the topology, `name`, `module`, `build_config`) is
    carried over unchanged, position by position. -/
theorem C12_topology (F : Flags) (qc : Dict) (ls ls' : List PyVal) (h : rewrite F qc ls = .ok ls')
    (k : String) (h1 : k ≠ "class_name") (h2 : k ≠ "config") (h3 : k ≠ "registered_name") :
    ls'.map (pget · k) = ls.map (pget · k) := by
  refine rewriteFrom_map F qc (pget · k) ?_ ls none ls' h
  intro st l l' st' hs
  exact (step_eff hs).top k (by simp [topKeys, h1, h3]) h2

/-- Every hyper-parameter (config key) outside the quantizer keys — and outside the documented
    exceptions that are in `allKeys`: the ReLU-specific keys that are deleted, `use_bias`
    / `folding_mode` / `ema_freeze_delay` written when folding, `total_bits` — keeps its value in
    every layer. -/
theorem C12_hyperparams (F : Flags) (qc : Dict) (ls ls' : List PyVal) (h : rewrite F qc ls = .ok ls')
    (k : String) (hk : k ∉ allKeys) : ls'.map (cfgGet · k) = ls.map (cfgGet · k) := by
  refine rewriteFrom_map F qc (cfgGet · k) ?_ ls none ls' h
  intro st l l' st' hs
  exact (step_eff hs).cfg k hk

/-- non-vacuity: ordinary hyper-parameters are outside the write set -/
example : "units" ∉ allKeys ∧ "filters" ∉ allKeys ∧ "kernel_size" ∉ allKeys ∧ "strides" ∉ allKeys ∧
    "padding" ∉ allKeys ∧ "name" ∉ allKeys ∧ "trainable" ∉ allKeys ∧ "kernel_initializer" ∉ allKeys := by
  decide

/-! ## precedence: a name entry hides every class entry -/

theorem getConfig_name_entry {qc₁ qc₂ : Dict} {l : PyVal} {n : String} {e : PyVal}
    (hn : nameOf l = some (.str n)) (h1 : dget qc₁ n = some e) (h2 : dget qc₂ n = some e) :
    getConfig qc₁ l = getConfig qc₂ l := by
  funext cls p
  unfold getConfig
  cases hc : sub l "config" with
  | error e => rfl
  | ok cfg =>
    have hcfg := sub_ok hc
    simp only [bind, Except.bind]
    cases hnm : sub cfg "name" with
    | error e => rfl
    | ok nm =>
      have hnm' := sub_ok hnm
      have : nm = .str n := by
        simp [nameOf, cfgGet, hcfg, hnm'] at hn
        exact hn
      subst this
      simp [getV, h1, h2]

theorem bnPresent_name_entry {qc₁ qc₂ : Dict} {l : PyVal} {n : String} {e₁ e₂ : PyVal}
    (hn : nameOf l = some (.str n)) (h1 : dget qc₁ n = some e₁) (h2 : dget qc₂ n = some e₂) :
    bnPresent qc₁ l = bnPresent qc₂ l := by
  unfold bnPresent
  cases hc : sub l "config" with
  | error e => rfl
  | ok cfg =>
    have hcfg := sub_ok hc
    simp only [bind, Except.bind]
    cases hnm : sub cfg "name" with
    | error e => rfl
    | ok nm =>
      have hnm' := sub_ok hnm
      have : nm = .str n := by
        simp [nameOf, cfgGet, hcfg, hnm'] at hn
        exact hn
      subst this
      simp [h1, h2]

/-- If the dictionary has an entry under the layer's name, the conversion of that layer does not
    depend on anything else in the dictionary — in particular not on any class entry. -/
theorem C12_precedence (F : Flags) (qc₁ qc₂ : Dict) (st : Option String) (l : PyVal) (n : String) (e : PyVal)
    (hn : nameOf l = some (.str n)) (h1 : dget qc₁ n = some e) (h2 : dget qc₂ n = some e) :
    step F qc₁ st l = step F qc₂ st l := by
  unfold step
  rw [getConfig_name_entry hn h1 h2, bnPresent_name_entry hn h1 h2]

/-- list form: two dictionaries that agree on an entry for every layer name convert every model
    identically, whatever their class entries say. -/
theorem C12_precedence_list (F : Flags) (qc₁ qc₂ : Dict) :
    ∀ (ls : List PyVal) (st : Option String),
      (∀ l ∈ ls, ∃ n e, nameOf l = some (.str n) ∧ dget qc₁ n = some e ∧ dget qc₂ n = some e) →
      rewriteFrom F qc₁ st ls = rewriteFrom F qc₂ st ls := by
  intro ls
  induction ls with
  | nil => intro st _; rfl
  | cons a r ih =>
    intro st h
    obtain ⟨n, e, hn, h1, h2⟩ := h a (by simp)
    simp only [rewriteFrom]
    rw [C12_precedence F qc₁ qc₂ st a n e hn h1 h2]
    cases step F qc₂ st a with
    | error e => rfl
    | ok p =>
      obtain ⟨a', st'⟩ := p
      simp only [bind, Except.bind]
      rw [ih st' (fun l hl => h l (by simp [hl]))]

/-- non-vacuity + the precedence read on a concrete layer: the name entry `ternary()` wins over
    the class entry `quantized_bits(4,0,1)` -/
def dense0 : PyVal := .dict [("class_name", .str "Dense"),
  ("config", .dict [("name", .str "d1"), ("units", .num 3 0), ("activation", .str "relu"),
                    ("use_bias", .bool false)]), ("registered_name", .none), ("inbound_nodes", .list [])]
def F0 : Flags := { actBits := "4", preferAdaptive := false, folding := false, toFold := [] }
def qcBoth : Dict := [("QDense", .dict [("kernel_quantizer", .str "quantized_bits(4,0,1)"),
                                         ("bias_quantizer", .str "quantized_bits(4)")]),
                      ("d1", .dict [("kernel_quantizer", .str "ternary()"),
                                    ("bias_quantizer", .str "quantized_bits(8)")])]

example : (rewrite F0 qcBoth [dense0]).toOption.map (fun ls => ls.map fun l =>
      (clsOf l, cfgGet l "kernel_quantizer", cfgGet l "bias_quantizer", cfgGet l "activation", cfgGet l "units"))
    = some [(some (.str "QDense"), some (.str "ternary()"), some .none, some (.str "quantized_relu(4)"),
             some (.num 3 0))] := by rfl

/-! ## selected weight layers (Dense / Conv1D / Conv2D / Conv2DTranspose, no folding): class and
    quantizer keys -/

theorem actStep_spec {look : Look} {qn bits : String} {l l' : PyVal} (h : actStep look qn bits l = .ok l') :
    Eff ["activation"] [] l l' ∧
    ∃ aq, look qn (some "activation_quantizer") = .ok aq ∧
      (truthy aq = true → cfgGet l' "activation" = some aq) ∧
      (truthy aq = false → quantActIn l bits = .ok l') := by
  refine ⟨Ok_actStep (Eff.refl _ _ l) (by simp) l' h, ?_⟩
  unfold actStep at h
  obtain ⟨aq, haq, h⟩ := bind_ok h
  refine ⟨aq, haq, ?_, ?_⟩
  · intro ht
    simp only [ht, if_true] at h
    exact (setCfg_spec h).1
  · intro ht
    simp only [ht] at h
    exact h

theorem convApply_spec {look : Look} {bits kk qn : String} {kq bq l l' : PyVal}
    (hk1 : kk ≠ "bias_quantizer") (hk2 : kk ≠ "activation")
    (h : convApply look bits kk qn kq bq l = .ok l') :
    clsOf l' = some (.str qn) ∧ cfgGet l' kk = some kq ∧ cfgGet l' "bias_quantizer" = some bq ∧
    ∃ aq, look qn (some "activation_quantizer") = .ok aq ∧
      (truthy aq = true → cfgGet l' "activation" = some aq) := by
  unfold convApply at h
  obtain ⟨l1, h1, h⟩ := bind_ok h
  obtain ⟨l2, h2, h⟩ := bind_ok h
  obtain ⟨l3, h3, h⟩ := bind_ok h
  obtain ⟨e4, aq, haq, hact, _⟩ := actStep_spec h
  have s1 := setCls_spec h1
  have s2 := setCfg_spec h2
  have s3 := setCfg_spec h3
  refine ⟨?_, ?_, ?_, aq, haq, hact⟩
  · have := e4.top "class_name" (by simp) (by decide)
    rw [clsOf, this, s3.2.2 _ (by decide), s2.2.2 _ (by decide)]
    exact s1.1
  · rw [e4.cfg kk (by simp [hk2]), s3.2.1 kk hk1]
    exact s2.1
  · rw [e4.cfg "bias_quantizer" (by decide)]
    exact s3.1

theorem fixRegistered_spec {l l' : PyVal} {st : Option String} (h : fixRegistered l st = .ok l') :
    Eff [] ["registered_name"] l l' :=
  Ok_fixRegistered (Eff.refl _ _ l) (by simp) l' h

/-- A Dense / Conv1D / Conv2D / Conv2DTranspose layer whose kernel-quantizer
    lookup (name entry first, then the class entry `"Q" + class`) is not None becomes
    `"Q" + class`; its `kernel_quantizer` is that lookup result; its `bias_quantizer` is the
    bias lookup when `use_bias` is truthy and None otherwise; its `activation` is the
    `activation_quantizer` lookup when that is truthy.  (No folding.) -/
theorem C12_selected_dense (F : Flags) (hF : F.folding = false) (qc : Dict) (st st' : Option String)
    (l l' : PyVal) (cn : String) (hcn : cn ∈ denseLike) (hcls : clsOf l = some (.str cn))
    (kq : PyVal) (hkq : getConfig qc l ("Q" ++ cn) (some "kernel_quantizer") = .ok kq) (hne : kq ≠ .none)
    (h : step F qc st l = .ok (l', st')) :
    clsOf l' = some (.str ("Q" ++ cn)) ∧ cfgGet l' "kernel_quantizer" = some kq ∧
    (∃ ub, cfgGet l "use_bias" = some ub ∧
      (truthy ub = false → cfgGet l' "bias_quantizer" = some .none) ∧
      (truthy ub = true → ∃ bq, getConfig qc l ("Q" ++ cn) (some "bias_quantizer") = .ok bq ∧
          cfgGet l' "bias_quantizer" = some bq)) ∧
    (∃ aq, getConfig qc l ("Q" ++ cn) (some "activation_quantizer") = .ok aq ∧
      (truthy aq = true → cfgGet l' "activation" = some aq)) := by
  unfold step stepCore at h
  obtain ⟨r, hb, h⟩ := bind_ok h
  obtain ⟨l1, st1, fin⟩ := r
  -- the dispatch
  unfold branch at hb
  obtain ⟨c0, hc0, hb⟩ := bind_ok hb
  obtain ⟨cls, hcls', hb⟩ := bind_ok hb
  have : cls = .str cn := by
    have := sub_ok hcls'
    rw [clsOf] at hcls
    rw [hcls] at this
    exact (Option.some.inj this).symm
  subst this
  simp only [hcn, if_true] at hb
  -- the conv branch without folding
  unfold convBranch at hb
  obtain ⟨fh, hfh, hb⟩ := bind_ok hb
  have : fh = false := by
    unfold foldCond at hfh
    simp [hF] at hfh
    cases hfh
    rfl
  subst this
  obtain ⟨lq, hlq, hb⟩ := bind_ok hb
  have : lq = (l, "Q" ++ cn) := by
    unfold foldStep at hlq
    simp at hlq
    cases hlq
    rfl
  subst this
  obtain ⟨kq', hkq', hb⟩ := bind_ok hb
  dsimp only at hkq'
  rw [hkq] at hkq'
  cases hkq'
  obtain ⟨c1, hc1, hb⟩ := bind_ok hb
  obtain ⟨ub, hub, hb⟩ := bind_ok hb
  obtain ⟨bq, hbq, hb⟩ := bind_ok hb
  obtain ⟨kb, hkb, hb⟩ := bind_ok hb
  have hkb' : kb = (kq, bq) := by
    unfold backupLook at hkb
    have : (match kq with | .none => true | _ => false) = false := by
      cases kq <;> simp at hne ⊢
    simp at hkb
    cases hkb
    rfl
  subst hkb'
  dsimp only at hb hc1 hbq
  have hubv : cfgGet l "use_bias" = some ub := by
    simp [cfgGet, sub_ok hc1, sub_ok hub]
  cases kq with
  | none => exact absurd rfl hne
  | bool _ | num _ _ | str _ | list _ | dict _ =>
    all_goals
      simp only at hb
      obtain ⟨l2, hl2, hb⟩ := bind_ok hb
      cases hb
      obtain ⟨s1, s2, s3, aq, haq, hact⟩ := convApply_spec (by decide) (by decide) hl2
      simp only [if_true] at h
      obtain ⟨l3, hl3, h⟩ := bind_ok h
      cases h
      have e := fixRegistered_spec hl3
      have ecls := e.top "class_name" (by decide) (by decide)
      refine ⟨by rw [clsOf, ecls]; exact s1, by rw [e.cfg _ (by simp)]; exact s2, ⟨ub, hubv, ?_, ?_⟩,
        ⟨aq, haq, fun ht => by rw [e.cfg _ (by simp)]; exact hact ht⟩⟩
      · intro ht
        unfold biasLook at hbq
        simp [ht] at hbq
        cases hbq
        rw [e.cfg _ (by simp)]
        exact s3
      · intro ht
        unfold biasLook at hbq
        simp [ht] at hbq
        exact ⟨bq, hbq, by rw [e.cfg _ (by simp)]; exact s3⟩

/-- bias-less layers get no bias quantizer: `use_bias` falsy ⇒ `bias_quantizer = None`
    (the documented exception is folding, where `use_bias` is forced to True). -/
theorem C12_biasless (F : Flags) (hF : F.folding = false) (qc : Dict) (st st' : Option String)
    (l l' : PyVal) (cn : String) (hcn : cn ∈ denseLike) (hcls : clsOf l = some (.str cn))
    (kq : PyVal) (hkq : getConfig qc l ("Q" ++ cn) (some "kernel_quantizer") = .ok kq) (hne : kq ≠ .none)
    (ub : PyVal) (hub : cfgGet l "use_bias" = some ub) (hf : truthy ub = false)
    (h : step F qc st l = .ok (l', st')) : cfgGet l' "bias_quantizer" = some .none := by
  obtain ⟨_, _, ⟨ub', hub', hno, _⟩, _⟩ := C12_selected_dense F hF qc st st' l l' cn hcn hcls kq hkq hne h
  rw [hub] at hub'
  cases hub'
  exact hno hf

/-- list form of the two theorems above: they hold at every position of every model -/
theorem C12_selected_dense_list (F : Flags) (hF : F.folding = false) (qc : Dict) (ls ls' : List PyVal)
    (h : rewrite F qc ls = .ok ls') (l l' : PyVal) (hm : (l, l') ∈ ls.zip ls')
    (cn : String) (hcn : cn ∈ denseLike) (hcls : clsOf l = some (.str cn))
    (kq : PyVal) (hkq : getConfig qc l ("Q" ++ cn) (some "kernel_quantizer") = .ok kq) (hne : kq ≠ .none) :
    clsOf l' = some (.str ("Q" ++ cn)) ∧ cfgGet l' "kernel_quantizer" = some kq ∧
    (∀ ub, cfgGet l "use_bias" = some ub → truthy ub = false → cfgGet l' "bias_quantizer" = some .none) := by
  obtain ⟨st₁, st₂, hs⟩ := (rewriteFrom_zip F qc ls none ls' h).2 l l' hm
  obtain ⟨h1, h2, _, _⟩ := C12_selected_dense F hF qc st₁ st₂ l l' cn hcn hcls kq hkq hne hs
  exact ⟨h1, h2, fun ub hub hf => C12_biasless F hF qc st₁ st₂ l l' cn hcn hcls kq hkq hne ub hub hf hs⟩

/-! ## `quantize_activation` -/

theorem C12_quantize_activation (d : Dict) (bits : String) :
    (dget d "activation" = some (.str "relu") →
      quantizeActivation (.dict d) bits = .ok (.dict (dset d "activation" (.str ("quantized_relu(" ++ bits ++ ")"))))) ∧
    (dget d "activation" = some (.str "tanh") →
      quantizeActivation (.dict d) bits = .ok (.dict (dset d "activation" (.str ("quantized_tanh(" ++ bits ++ ")"))))) ∧
    (dget d "activation" = some (.str "sigmoid") →
      quantizeActivation (.dict d) bits = .ok (.dict (dset d "activation" (.str ("quantized_sigmoid(" ++ bits ++ ")"))))) ∧
    (dget d "activation" = some (.str "linear") → quantizeActivation (.dict d) bits = .ok (.dict d)) ∧
    (dget d "activation" = none → quantizeActivation (.dict d) bits = .ok (.dict d)) := by
  refine ⟨?_, ?_, ?_, ?_, ?_⟩ <;> intro h <;> simp [quantizeActivation, h] <;> rfl


/-! ## layers that are not selected -/

/-- the class keys under which a layer of class `cn` can be selected -/
def classKeys (cn : String) : List String :=
  if cn ∈ denseLike ∨ cn = "DepthwiseConv2D" then ["Q" ++ cn, "Q" ++ cn ++ "Batchnorm"]
  else if cn = "SeparableConv1D" ∨ cn = "SeparableConv2D" then ["Q" ++ cn]
  else if cn = "SimpleRNN" ∨ cn = "LSTM" ∨ cn = "GRU" then ["Q" ++ cn]
  else if cn = "Bidirectional" then ["QBidirectional"]
  else if cn = "Activation" then ["QActivation", "QAdaptiveActivation"]
  else if cn = "ReLU" ∨ cn = "relu" ∨ cn = "LeakyReLU" then ["QActivation"]
  else if cn = "BatchNormalization" then ["QBatchNormalization"]
  else if cn = "AveragePooling2D" ∨ cn = "GlobalAveragePooling2D" then ["Q" ++ cn]
  else []

/-- neither the layer's name nor any of its class keys occurs in the dictionary -/
structure NotSelected (qc : Dict) (l : PyVal) (cn n : String) : Prop where
  cls : clsOf l = some (.str cn)
  name : nameOf l = some (.str n)
  noName : dget qc n = none
  noClass : ∀ q ∈ classKeys cn, dget qc q = none

theorem getConfig_notSelected {qc : Dict} {l : PyVal} {cn n : String} (h : NotSelected qc l cn n)
    (q : String) (hq : q ∈ classKeys cn) (p : Option String) : getConfig qc l q p = .ok .none := by
  have hn := h.name
  simp only [nameOf, cfgGet] at hn
  cases hc : pget l "config" with
  | none => simp [hc] at hn
  | some cfg =>
    simp only [hc, Option.bind_some] at hn
    unfold getConfig
    simp only [sub_of_pget hc, sub_of_pget hn, bind, Except.bind, getV, h.noName, h.noClass q hq, pure,
      Except.pure, Option.getD_none]
    cases p <;> rfl

theorem bnPresent_notSelected {qc : Dict} {l : PyVal} {n : String}
    (h : NotSelected qc l "BatchNormalization" n) : bnPresent qc l = .ok false := by
  have hn := h.name
  simp only [nameOf, cfgGet] at hn
  cases hc : pget l "config" with
  | none => simp [hc] at hn
  | some cfg =>
    simp only [hc, Option.bind_some] at hn
    unfold bnPresent
    have := h.noClass "QBatchNormalization" (by decide)
    simp [sub_of_pget hc, sub_of_pget hn, bind, Except.bind, h.noName, this, pure, Except.pure]

theorem convBranch_unselected {F : Flags} (hF : F.folding = false) {look : Look} {kk fn pn : String} {cf : Bool}
    {l : PyVal} {r : PyVal × Option String × Bool} (hl : ∀ p, look pn p = .ok .none)
    (h : convBranch F look kk cf fn pn l = .ok r) : r.1 = l ∧ r.2.2 = false := by
  unfold convBranch at h
  obtain ⟨fh, hfh, h⟩ := bind_ok h
  have : fh = false := by
    unfold foldCond at hfh
    simp [hF] at hfh
    cases hfh
    rfl
  subst this
  obtain ⟨lq, hlq, h⟩ := bind_ok h
  have : lq = (l, pn) := by
    unfold foldStep at hlq
    simp at hlq
    cases hlq
    rfl
  subst this
  obtain ⟨kq, hkq, h⟩ := bind_ok h
  dsimp only at hkq
  rw [hl] at hkq
  cases hkq
  obtain ⟨c1, hc1, h⟩ := bind_ok h
  obtain ⟨ub, hub, h⟩ := bind_ok h
  obtain ⟨bq, hbq, h⟩ := bind_ok h
  obtain ⟨kb, hkb, h⟩ := bind_ok h
  have : kb.1 = .none := by
    unfold backupLook at hkb
    dsimp only at hkb
    split at hkb
    · obtain ⟨k2, hk2, hkb⟩ := bind_ok hkb
      obtain ⟨b2, hb2, hkb⟩ := bind_ok hkb
      rw [hl] at hk2
      cases hk2
      cases hkb
      rfl
    · cases hkb
      rfl
  rw [this] at h
  cases h
  exact ⟨rfl, rfl⟩

theorem quantizeRnn_unselected {look : Look} {bits : String} {l l' : PyVal}
    (hl : ∀ q p, look q p = .ok .none) (h : quantizeRnn look bits l = .ok l') : l' = l := by
  unfold quantizeRnn at h
  obtain ⟨c0, _, h⟩ := bind_ok h
  obtain ⟨cn, _, h⟩ := bind_ok h
  obtain ⟨kq, hkq, h⟩ := bind_ok h
  rw [hl] at hkq
  cases hkq
  obtain ⟨rq, _, h⟩ := bind_ok h
  obtain ⟨c1, _, h⟩ := bind_ok h
  obtain ⟨ub, _, h⟩ := bind_ok h
  obtain ⟨bq, _, h⟩ := bind_ok h
  obtain ⟨sq, _, h⟩ := bind_ok h
  cases h
  rfl

theorem quantizeRnn_unselected' {look : Look} {bits : String} {l l' : PyVal} {cn : String}
    (hc : clsOf l = some (.str cn)) (hl : ∀ p, look ("Q" ++ cn) p = .ok .none)
    (h : quantizeRnn look bits l = .ok l') : l' = l := by
  unfold quantizeRnn at h
  obtain ⟨c0, hc0, h⟩ := bind_ok h
  have := sub_ok hc0
  rw [clsOf] at hc
  rw [hc] at this
  cases this
  obtain ⟨cn', hcn', h⟩ := bind_ok h
  cases hcn'
  obtain ⟨kq, hkq, h⟩ := bind_ok h
  rw [hl] at hkq
  cases hkq
  obtain ⟨rq, _, h⟩ := bind_ok h
  obtain ⟨c1, _, h⟩ := bind_ok h
  obtain ⟨ub, _, h⟩ := bind_ok h
  obtain ⟨bq, _, h⟩ := bind_ok h
  obtain ⟨sq, _, h⟩ := bind_ok h
  cases h
  rfl

theorem sepBranch_unselected {F : Flags} {look : Look} {l : PyVal} {cn : String}
    {r : PyVal × Option String × Bool} (h1 : ∀ p, look ("Q" ++ cn) p = .ok .none)
    (h : sepBranch F look cn l = .ok r) : r.1 = l ∧ r.2.2 = false := by
  unfold sepBranch at h
  obtain ⟨dq, hdq, h⟩ := bind_ok h
  rw [h1] at hdq
  cases hdq
  obtain ⟨pq, _, h⟩ := bind_ok h
  obtain ⟨c1, _, h⟩ := bind_ok h
  obtain ⟨ub, _, h⟩ := bind_ok h
  obtain ⟨bq, _, h⟩ := bind_ok h
  cases h
  exact ⟨rfl, rfl⟩

theorem bidirBranch_unselected {F : Flags} {look : Look} {st : Option String} {l : PyVal}
    {r : PyVal × Option String × Bool}
    (h1 : look "QBidirectional" (some "kernel_quantizer") = .ok .none)
    (h : bidirBranch F look st l = .ok r) : r.1 = l ∧ r.2.2 = false := by
  unfold bidirBranch at h
  obtain ⟨kq, hkq, h⟩ := bind_ok h
  rw [h1] at hkq
  cases hkq
  cases h
  exact ⟨rfl, rfl⟩

theorem activationBranch_unselected {F : Flags} {look : Look} {st : Option String} {l : PyVal}
    {r : PyVal × Option String × Bool}
    (h1 : look "QActivation" none = .ok .none) (h2 : look "QAdaptiveActivation" none = .ok .none)
    (h : activationBranch F look st l = .ok r) : r.1 = l ∧ r.2.2 = false := by
  unfold activationBranch at h
  obtain ⟨qa, hqa, h⟩ := bind_ok h
  have : qa.1 = .none := by
    unfold actLookup at hqa
    split at hqa
    · simp [h1, h2, bind, Except.bind, pure, Except.pure] at hqa
      cases hqa
      rfl
    · simp [h1, h2, bind, Except.bind, pure, Except.pure] at hqa
      cases hqa
      rfl
  rw [this] at h
  cases h
  exact ⟨rfl, rfl⟩

theorem reluBranch_unselected {F : Flags} {look : Look} {st : Option String} {l : PyVal} {cn : String}
    {r : PyVal × Option String × Bool} (h1 : look "QActivation" none = .ok .none)
    (h : reluBranch F look cn l st = .ok r) : r.1 = l ∧ r.2.2 = false := by
  unfold reluBranch at h
  obtain ⟨q, hq, h⟩ := bind_ok h
  rw [h1] at hq
  cases hq
  cases h
  exact ⟨rfl, rfl⟩

theorem poolBranch_unselected {F : Flags} {look : Look} {l : PyVal} {cn : String}
    {r : PyVal × Option String × Bool} (h1 : ∀ p, look ("Q" ++ cn) p = .ok .none)
    (h : poolBranch F look cn l = .ok r) : r.1 = l ∧ r.2.2 = false := by
  unfold poolBranch at h
  obtain ⟨q, hq, h⟩ := bind_ok h
  rw [h1] at hq
  cases hq
  cases h
  exact ⟨rfl, rfl⟩

theorem bnBranch_unselected {look : Look} {st : Option String} {l : PyVal} {bnIn : R Bool}
    {r : PyVal × Option String × Bool} (h1 : bnIn = .ok false)
    (h : bnBranch look bnIn st l = .ok r) : r.1 = l ∧ r.2.2 = false := by
  unfold bnBranch at h
  obtain ⟨q, hq, h⟩ := bind_ok h
  rw [h1] at hq
  cases hq
  simp at h
  cases h
  exact ⟨rfl, rfl⟩

/-- the value of the layer after the end-of-body `registered_name` pop, for a layer whose
    `registered_name` is absent or falsy (every built-in Keras layer: `null`) -/
def popped (l : PyVal) : PyVal :=
  match l with
  | .dict d => .dict (derase d "registered_name")
  | v => v

/-- the value of the layer after the end-of-body pop + re-insertion of a truthy `registered_name`
    (a registered custom class): the same dict, with the entry moved to the end -/
def reRegistered (l : PyVal) : PyVal :=
  match l with
  | .dict d => .dict (dset (derase d "registered_name") "registered_name" ((dget d "registered_name").getD .none))
  | v => v

/-- `popped` / `reRegistered` are the same layer as far as any lookup can tell -/
theorem pget_popped (l : PyVal) (k : String) (hk : k ≠ "registered_name") : pget (popped l) k = pget l k := by
  cases l <;> first | rfl | exact dget_derase_ne _ hk

theorem pget_reRegistered (l : PyVal) (k : String)
    (hreg : k = "registered_name" → ∃ v, pget l "registered_name" = some v) :
    pget (reRegistered l) k = pget l k := by
  cases l with
  | dict d =>
    by_cases hk : k = "registered_name"
    · subst hk
      obtain ⟨v, hv⟩ := hreg rfl
      simp only [pget_dict] at hv
      simp [reRegistered, dget_dset_same, hv]
    · simp only [reRegistered, pget_dict]
      rw [dget_dset_ne _ _ hk, dget_derase_ne _ hk]
  | _ => rfl

/-- end-of-body fix-up of a layer that kept its class (`q_name = None`): a falsy
    `registered_name` is popped, a truthy one is put back unchanged -/
theorem fixRegistered_none {l l' : PyVal} (h : fixRegistered l none = .ok l') :
    (truthy ((pget l "registered_name").getD .none) = false ∧ l' = popped l) ∨
    (truthy ((pget l "registered_name").getD .none) = true ∧ l' = reRegistered l) := by
  unfold fixRegistered at h
  obtain ⟨r, hr, h⟩ := bind_ok h
  obtain ⟨l1, reg⟩ := r
  unfold popReg at hr
  split at hr
  · rename_i d
    cases hr
    dsimp only at h
    by_cases ht : truthy ((dget d "registered_name").getD .none) = true
    · right
      simp only [ht, if_true] at h
      unfold setItem at h
      cases h
      exact ⟨ht, rfl⟩
    · left
      simp only [ht] at h
      cases h
      exact ⟨by simpa using ht, rfl⟩
  · cases hr

theorem unsel_pack {l l1 : PyVal} {st1 : Option String} {fin : Bool}
    (h : (l1, st1, fin).1 = l ∧ (l1, st1, fin).2.2 = false) : l1 = l ∧ (fin = true → st1 = none) := by
  obtain ⟨h1, h2⟩ := h
  dsimp only at h1 h2
  subst h2
  exact ⟨h1, fun hf => by cases hf⟩

/-- A layer that neither its name nor any of its class keys selects is left as it was: the
    result is the layer itself, or the layer with its null `registered_name` entry popped (a key
    Keras reads with `.get`), or — for a registered custom class — the layer with its
    `registered_name` entry popped and put back with the same value (`reRegistered`, equal as a
    Python dict, see `pget_reRegistered`).  After the fix round this holds for every class
    (Bidirectional included) and every `registered_name`; the one remaining hypothesis is
    "no folding" (see `C12_folding_unselected_counterexample`, still recorded). -/
theorem C12_untouched_partial (F : Flags) (hF : F.folding = false) (qc : Dict) (st st' : Option String)
    (l l' : PyVal) (cn n : String) (hns : NotSelected qc l cn n)
    (h : step F qc st l = .ok (l', st')) :
    l' = l ∨ (truthy ((pget l "registered_name").getD .none) = false ∧ l' = popped l) ∨
      (truthy ((pget l "registered_name").getD .none) = true ∧ l' = reRegistered l) := by
  have hlook : ∀ q ∈ classKeys cn, ∀ p, getConfig qc l q p = .ok .none :=
    fun q hq p => getConfig_notSelected hns q hq p
  unfold step stepCore at h
  obtain ⟨r, hb, h⟩ := bind_ok h
  obtain ⟨l1, st1, fin⟩ := r
  -- it is enough to show that the branch returns the layer itself (and q_name = None at the end)
  suffices hl1 : l1 = l ∧ (fin = true → st1 = none) by
    obtain ⟨e1, e2⟩ := hl1
    subst e1
    cases fin with
    | false => simp at h; cases h; exact Or.inl rfl
    | true =>
      simp only [if_true] at h
      obtain ⟨l3, hl3, h⟩ := bind_ok h
      cases h
      rw [e2 rfl] at hl3
      exact Or.inr (fixRegistered_none hl3)
  unfold branch at hb
  obtain ⟨c0, hc0, hb⟩ := bind_ok hb
  obtain ⟨cls, hcls', hb⟩ := bind_ok hb
  have : cls = .str cn := by
    have := sub_ok hcls'
    have hc := hns.cls
    rw [clsOf] at hc
    rw [hc] at this
    exact (Option.some.inj this).symm
  subst this
  dsimp only at hb
  by_cases c1 : cn ∈ denseLike
  · simp only [c1, if_true] at hb
    exact unsel_pack (convBranch_unselected hF (fun p => hlook _ (by simp [classKeys, c1]) p) hb)
  simp only [c1, if_false] at hb
  by_cases c2 : cn = "DepthwiseConv2D"
  · subst c2
    simp only [if_true] at hb
    exact unsel_pack (convBranch_unselected hF (fun p => hlook _ (by decide) p) hb)
  simp only [c2, if_false] at hb
  by_cases c2s : cn = "SeparableConv1D" ∨ cn = "SeparableConv2D"
  · simp only [c2s, if_true] at hb
    exact unsel_pack (sepBranch_unselected (fun p => hlook _ (by simp [classKeys, c1, c2, c2s]) p) hb)
  simp only [c2s, if_false] at hb
  by_cases c3 : cn = "SimpleRNN" ∨ cn = "LSTM" ∨ cn = "GRU"
  · simp only [c3, if_true] at hb
    obtain ⟨l2, hl2, hb⟩ := bind_ok hb
    cases hb
    exact ⟨quantizeRnn_unselected' hns.cls (fun p => hlook _ (by simp [classKeys, c1, c2, c2s, c3]) p) hl2,
      fun _ => rfl⟩
  simp only [c3, if_false] at hb
  by_cases c4 : cn = "Bidirectional"
  · subst c4
    simp only [if_true] at hb
    exact unsel_pack (bidirBranch_unselected (hlook _ (by decide) _) hb)
  simp only [c4, if_false] at hb
  by_cases c5 : cn = "Activation"
  · subst c5
    simp only [if_true] at hb
    exact unsel_pack (activationBranch_unselected (hlook _ (by decide) none) (hlook _ (by decide) none) hb)
  simp only [c5, if_false] at hb
  by_cases c6 : cn = "ReLU" ∨ cn = "relu" ∨ cn = "LeakyReLU"
  · simp only [c6, if_true] at hb
    exact unsel_pack (reluBranch_unselected (hlook _ (by simp [classKeys, c1, c2, c2s, c3, c4, c5, c6]) none) hb)
  simp only [c6, if_false] at hb
  by_cases c7 : cn = "BatchNormalization"
  · subst c7
    simp only [if_true] at hb
    exact unsel_pack (bnBranch_unselected (bnPresent_notSelected hns) hb)
  simp only [c7, if_false] at hb
  by_cases c8 : cn = "AveragePooling2D" ∨ cn = "GlobalAveragePooling2D"
  · simp only [c8, if_true] at hb
    exact unsel_pack (poolBranch_unselected
      (fun p => hlook _ (by simp [classKeys, c1, c2, c2s, c3, c4, c5, c6, c7, c8]) p) hb)
  simp only [c8, if_false] at hb
  cases hb
  exact ⟨rfl, fun _ => rfl⟩

/-- read extensionally: every top-level entry other than `registered_name` of an unselected layer
    (class, config, inbound_nodes, ...) is exactly what it was, and a truthy `registered_name`
    (registered custom class) is what it was, too -/
theorem C12_untouched_extensional_partial (F : Flags) (hF : F.folding = false) (qc : Dict)
    (st st' : Option String) (l l' : PyVal) (cn n : String) (hns : NotSelected qc l cn n)
    (h : step F qc st l = .ok (l', st')) :
    (∀ k, k ≠ "registered_name" → pget l' k = pget l k) ∧
    (∀ v, pget l "registered_name" = some v → truthy v = true → pget l' "registered_name" = some v) := by
  rcases C12_untouched_partial F hF qc st st' l l' cn n hns h with e | ⟨ht, e⟩ | ⟨ht, e⟩
  · subst e
    exact ⟨fun _ _ => rfl, fun v hv _ => hv⟩
  · subst e
    refine ⟨fun k hk => pget_popped l k hk, fun v hv hvt => ?_⟩
    rw [hv] at ht
    simp only [Option.getD_some] at ht
    rw [hvt] at ht
    cases ht
  · subst e
    refine ⟨fun k hk => pget_reRegistered l k (fun e => absurd e hk), fun v hv _ => ?_⟩
    rw [pget_reRegistered l _ (fun _ => ⟨v, hv⟩)]
    exact hv

/-- list form: at every position of every model -/
theorem C12_untouched_partial_list (F : Flags) (hF : F.folding = false) (qc : Dict) (ls ls' : List PyVal)
    (h : rewrite F qc ls = .ok ls') (l l' : PyVal) (hm : (l, l') ∈ ls.zip ls') (cn n : String)
    (hns : NotSelected qc l cn n) :
    l' = l ∨ (truthy ((pget l "registered_name").getD .none) = false ∧ l' = popped l) ∨
      (truthy ((pget l "registered_name").getD .none) = true ∧ l' = reRegistered l) := by
  obtain ⟨st₁, st₂, hs⟩ := (rewriteFrom_zip F qc ls none ls' h).2 l l' hm
  exact C12_untouched_partial F hF qc st₁ st₂ l l' cn n hns hs

/-- non-vacuity: `dense0` is not selected by a dictionary that only talks about other things -/
example : NotSelected [("QConv2D", .dict []), ("other", .none)] dense0 "Dense" "d1" :=
  ⟨rfl, rfl, rfl, by decide⟩


/-! ## selected ReLU-family layers (after fix 01d6934: the keys of the ORIGINAL class are removed) -/

/-- the ReLU-specific config keys the branch removes, per original class (utils.py:940-949) -/
def reluKeys (cn : String) : List String :=
  if cn = "LeakyReLU" then ["alpha"]
  else if cn = "relu" then ["max_value", "alpha", "threshold"]
  else ["max_value", "negative_slope", "threshold"]

theorem reluDelete_spec {cn : String} {l l' : PyVal} (h : reluDelete cn l = .ok l') :
    (∀ k ∈ reluKeys cn, cfgGet l' k = none) ∧ (∀ k, k ∉ reluKeys cn → cfgGet l' k = cfgGet l k) ∧
    (∀ k, k ≠ "config" → pget l' k = pget l k) := by
  unfold reluDelete at h
  unfold reluKeys
  by_cases c1 : cn = "LeakyReLU"
  · simp only [c1, if_true] at h ⊢
    have s := delCfg_spec h
    refine ⟨?_, ?_, s.2.2⟩
    · intro k hk
      simp only [List.mem_singleton] at hk
      subst hk
      exact s.1
    · intro k hk
      simp only [List.mem_singleton] at hk
      exact s.2.1 k hk
  · simp only [c1, if_false] at h ⊢
    by_cases c2 : cn = "relu"
    all_goals
      simp only [c2, if_true, if_false] at h ⊢
      obtain ⟨l1, h1, h⟩ := bind_ok h
      obtain ⟨l2, h2, h⟩ := bind_ok h
      have s1 := delCfg_spec h1
      have s2 := delCfg_spec h2
      have s3 := delCfg_spec h
      refine ⟨?_, ?_, fun k hk => by rw [s3.2.2 k hk, s2.2.2 k hk, s1.2.2 k hk]⟩
      · intro k hk
        simp only [List.mem_cons, List.not_mem_nil, or_false] at hk
        rcases hk with hk | hk | hk
        · subst hk
          rw [s3.2.1 _ (by decide), s2.2.1 _ (by decide)]
          exact s1.1
        · subst hk
          rw [s3.2.1 _ (by decide)]
          exact s2.1
        · subst hk
          exact s3.1
      · intro k hk
        simp only [List.mem_cons, List.not_mem_nil, or_false, not_or] at hk
        rw [s3.2.1 k hk.2.2, s2.2.1 k hk.2.1, s1.2.1 k hk.1]

/-- A ReLU / relu / LeakyReLU layer that a non-dict, truthy `QActivation` lookup (name entry
    first, then the class entry) selects becomes a `QActivation` whose `activation` is exactly
    that entry; the ReLU-specific keys of its ORIGINAL class are gone and every other config key
    and every other top-level key except `registered_name` is unchanged.  For a LeakyReLU this
    is the behaviour fix 01d6934 restored (before it the step raised `KeyError 'max_value'`). -/
theorem C12_selected_relu (F : Flags) (qc : Dict) (st st' : Option String) (l l' : PyVal) (cn : String)
    (hcn : cn = "ReLU" ∨ cn = "relu" ∨ cn = "LeakyReLU") (hcls : clsOf l = some (.str cn))
    (q : PyVal) (hq : getConfig qc l "QActivation" none = .ok q) (hnd : ∀ d, q ≠ .dict d)
    (ht : truthy q = true) (h : step F qc st l = .ok (l', st')) :
    clsOf l' = some (.str "QActivation") ∧ cfgGet l' "activation" = some q ∧
    (∀ k ∈ reluKeys cn, cfgGet l' k = none) ∧
    (∀ k, k ∉ reluKeys cn → k ≠ "activation" → cfgGet l' k = cfgGet l k) := by
  have hne : q ≠ .none := by
    intro e
    rw [e] at ht
    cases ht
  unfold step stepCore at h
  obtain ⟨r1, hb, h⟩ := bind_ok h
  obtain ⟨l1, st1, fin⟩ := r1
  unfold branch at hb
  obtain ⟨c0, hc0, hb⟩ := bind_ok hb
  obtain ⟨cls, hcls', hb⟩ := bind_ok hb
  have : cls = .str cn := by
    have := sub_ok hcls'
    rw [clsOf] at hcls
    rw [hcls] at this
    exact (Option.some.inj this).symm
  subst this
  have e1 : (cn ∈ denseLike) = False := by
    rcases hcn with h | h | h <;> subst h <;> decide
  have e2 : (cn = "DepthwiseConv2D") = False := by
    rcases hcn with h | h | h <;> subst h <;> decide
  have e2s : (cn = "SeparableConv1D" ∨ cn = "SeparableConv2D") = False := by
    rcases hcn with h | h | h <;> subst h <;> decide
  have e3 : (cn = "SimpleRNN" ∨ cn = "LSTM" ∨ cn = "GRU") = False := by
    rcases hcn with h | h | h <;> subst h <;> decide
  have e4 : (cn = "Bidirectional") = False := by
    rcases hcn with h | h | h <;> subst h <;> decide
  have e5 : (cn = "Activation") = False := by
    rcases hcn with h | h | h <;> subst h <;> decide
  simp only [e1, e2, e2s, e3, e4, e5, if_false, hcn, if_true] at hb
  unfold reluBranch at hb
  obtain ⟨q', hq', hb⟩ := bind_ok hb
  rw [hq] at hq'
  cases hq'
  have hc : ∀ qn, reluCond q qn = true := by
    intro qn
    unfold reluCond
    cases q <;> first | rfl | exact absurd rfl (hnd _)
  have hpick : ∀ qn, reluPick q qn = .ok q := by
    intro qn
    unfold reluPick
    cases q <;> first | rfl | exact absurd rfl (hnd _)
  have hfin : ∀ qn, reluFinish F q qn cn l = .ok (l1, st1, fin) →
      fin = true ∧ clsOf l1 = some (.str "QActivation") ∧ cfgGet l1 "activation" = some q ∧
      (∀ k ∈ reluKeys cn, cfgGet l1 k = none) ∧
      (∀ k, k ∉ reluKeys cn → k ≠ "activation" → cfgGet l1 k = cfgGet l k) := by
    intro qn hr
    unfold reluFinish at hr
    simp only [hc, if_true] at hr
    obtain ⟨l2, hl2, hr⟩ := bind_ok hr
    cases hr
    unfold reluApply at hl2
    obtain ⟨l3, hl3, hl2⟩ := bind_ok hl2
    obtain ⟨l4, hl4, hl2⟩ := bind_ok hl2
    obtain ⟨q2, hq2, hl2⟩ := bind_ok hl2
    rw [hpick] at hq2
    cases hq2
    simp only [ht, if_true] at hl2
    have s3 := setCls_spec hl3
    have s4 := reluDelete_spec hl4
    have s5 := setCfg_spec hl2
    have hact : ∀ k ∈ reluKeys cn, k ≠ "activation" := by
      intro k hk e
      subst e
      unfold reluKeys at hk
      split at hk
      · simp at hk
      · split at hk <;> simp at hk
    refine ⟨rfl, ?_, s5.1, ?_, ?_⟩
    · rw [clsOf, s5.2.2 _ (by decide), s4.2.2 _ (by decide)]
      exact s3.1
    · intro k hk
      rw [s5.2.1 k (hact k hk)]
      exact s4.1 k hk
    · intro k hk hka
      rw [s5.2.1 k hka, s4.2.1 k hk]
      exact cfgGet_of_top (s3.2 "config" (by decide)) k
  have hmain : fin = true ∧ clsOf l1 = some (.str "QActivation") ∧ cfgGet l1 "activation" = some q ∧
      (∀ k ∈ reluKeys cn, cfgGet l1 k = none) ∧
      (∀ k, k ∉ reluKeys cn → k ≠ "activation" → cfgGet l1 k = cfgGet l k) := by
    cases q with
    | none => exact absurd rfl hne
    | bool _ | num _ _ | str _ | list _ | dict _ =>
      all_goals
        simp only at hb
        obtain ⟨_, _, hb⟩ := bind_ok hb
        obtain ⟨_, _, hb⟩ := bind_ok hb
        obtain ⟨_, _, hb⟩ := bind_ok hb
        exact hfin _ hb
  obtain ⟨hfin', m1, m2, m3, m4⟩ := hmain
  subst hfin'
  simp only [if_true] at h
  obtain ⟨l5, hl5, h⟩ := bind_ok h
  cases h
  have e := fixRegistered_spec hl5
  refine ⟨?_, ?_, ?_, ?_⟩
  · rw [clsOf, e.top "class_name" (by decide) (by decide)]
    exact m1
  · rw [e.cfg _ (by simp)]
    exact m2
  · intro k hk
    rw [e.cfg _ (by simp)]
    exact m3 k hk
  · intro k hk hka
    rw [e.cfg _ (by simp)]
    exact m4 k hk hka

/-- list form: at every position of every converted model -/
theorem C12_selected_relu_list (F : Flags) (qc : Dict) (ls ls' : List PyVal)
    (h : rewrite F qc ls = .ok ls') (l l' : PyVal) (hm : (l, l') ∈ ls.zip ls') (cn : String)
    (hcn : cn = "ReLU" ∨ cn = "relu" ∨ cn = "LeakyReLU") (hcls : clsOf l = some (.str cn))
    (q : PyVal) (hq : getConfig qc l "QActivation" none = .ok q) (hnd : ∀ d, q ≠ .dict d)
    (ht : truthy q = true) :
    clsOf l' = some (.str "QActivation") ∧ cfgGet l' "activation" = some q ∧
    (∀ k ∈ reluKeys cn, cfgGet l' k = none) := by
  obtain ⟨st₁, st₂, hs⟩ := (rewriteFrom_zip F qc ls none ls' h).2 l l' hm
  obtain ⟨h1, h2, h3, _⟩ := C12_selected_relu F qc st₁ st₂ l l' cn hcn hcls q hq hnd ht hs
  exact ⟨h1, h2, h3⟩

def leaky : PyVal := .dict [("class_name", .str "LeakyReLU"),
  ("config", .dict [("name", .str "lr"), ("alpha", .num 3 1)]), ("registered_name", .none)]

/-- regression witness of the repaired defect (was `KeyError 'max_value'` before 01d6934):
    the LeakyReLU layer is converted, `alpha` is removed, the Dense layer is left alone -/
theorem C12_leakyrelu_fixed_witness :
    (rewrite F0 [("QActivation", .str "quantized_relu(4)")] [dense0, leaky]).toOption.map
      (fun ls => ls.map fun l => (clsOf l, cfgGet l "activation", cfgGet l "alpha")) =
    some [(some (.str "Dense"), some (.str "relu"), none),
          (some (.str "QActivation"), some (.str "quantized_relu(4)"), none)] := by
  rfl

/-- non-vacuity of `C12_selected_relu`: the witness meets its hypotheses -/
example : clsOf leaky = some (.str "LeakyReLU") ∧
    getConfig [("QActivation", .str "quantized_relu(4)")] leaky "QActivation" none
      = .ok (.str "quantized_relu(4)") ∧ truthy (.str "quantized_relu(4)") = true := by
  exact ⟨rfl, rfl, by decide⟩

/-- … while a dict-valued QActivation entry without a matching key leaves the layer alone -/
example : (rewrite F0 [("QActivation", .dict [("tanh", .str "quantized_tanh(4)")])] [leaky]).toOption.map
    (fun ls => ls.map clsOf) = some [some (.str "LeakyReLU")] := by rfl

/-! ## selected SeparableConv1D / SeparableConv2D (dedicated branch of the fix round) -/

/-- the config keys the SeparableConv branch writes -/
def sepKeys : List String := ["depthwise_quantizer", "pointwise_quantizer", "bias_quantizer", "activation"]

theorem sepApply_spec {look : Look} {bits qn : String} {dq pq bq l l' : PyVal}
    (h : sepApply look bits qn dq pq bq l = .ok l') :
    clsOf l' = some (.str qn) ∧ cfgGet l' "depthwise_quantizer" = some dq ∧
    cfgGet l' "pointwise_quantizer" = some pq ∧ cfgGet l' "bias_quantizer" = some bq ∧
    (∃ aq, look qn (some "activation_quantizer") = .ok aq ∧
      (truthy aq = true → cfgGet l' "activation" = some aq)) ∧
    (∀ k, k ∉ sepKeys → cfgGet l' k = cfgGet l k) := by
  have hfr := Ok_sepApply (ks := sepKeys) (ts := ["class_name"]) (Eff.refl _ _ l) (by decide) (by decide)
    (by decide) (by decide) (by decide) l' h
  unfold sepApply at h
  obtain ⟨l1, h1, h⟩ := bind_ok h
  obtain ⟨l2, h2, h⟩ := bind_ok h
  obtain ⟨l3, h3, h⟩ := bind_ok h
  obtain ⟨l4, h4, h⟩ := bind_ok h
  obtain ⟨e5, aq, haq, hact, _⟩ := actStep_spec h
  have s1 := setCls_spec h1
  have s2 := setCfg_spec h2
  have s3 := setCfg_spec h3
  have s4 := setCfg_spec h4
  refine ⟨?_, ?_, ?_, ?_, ⟨aq, haq, hact⟩, fun k hk => hfr.cfg k hk⟩
  · rw [clsOf, e5.top "class_name" (by simp) (by decide), s4.2.2 _ (by decide), s3.2.2 _ (by decide),
      s2.2.2 _ (by decide)]
    exact s1.1
  · rw [e5.cfg _ (by decide), s4.2.1 _ (by decide), s3.2.1 _ (by decide)]
    exact s2.1
  · rw [e5.cfg _ (by decide), s4.2.1 _ (by decide)]
    exact s3.1
  · rw [e5.cfg _ (by decide)]
    exact s4.1

/-- A SeparableConv1D / SeparableConv2D layer whose depthwise-quantizer lookup (name entry first,
    then the class entry `"Q" + class`) is not None becomes `"Q" + class`; its
    `depthwise_quantizer` and `pointwise_quantizer` are the two lookups, its `bias_quantizer` is
    the bias lookup when `use_bias` is truthy and None otherwise, its `activation` is the
    `activation_quantizer` lookup when that is truthy, and no other config key changes — in
    particular no `kernel_quantizer` key appears (the repaired defect). -/
theorem C12_selected_separable (F : Flags) (qc : Dict) (st st' : Option String) (l l' : PyVal) (cn : String)
    (hcn : cn = "SeparableConv1D" ∨ cn = "SeparableConv2D") (hcls : clsOf l = some (.str cn))
    (dq : PyVal) (hdq : getConfig qc l ("Q" ++ cn) (some "depthwise_quantizer") = .ok dq) (hne : dq ≠ .none)
    (h : step F qc st l = .ok (l', st')) :
    clsOf l' = some (.str ("Q" ++ cn)) ∧ cfgGet l' "depthwise_quantizer" = some dq ∧
    (∃ pq, getConfig qc l ("Q" ++ cn) (some "pointwise_quantizer") = .ok pq ∧
      cfgGet l' "pointwise_quantizer" = some pq) ∧
    (∃ ub, cfgGet l "use_bias" = some ub ∧
      (truthy ub = false → cfgGet l' "bias_quantizer" = some .none) ∧
      (truthy ub = true → ∃ bq, getConfig qc l ("Q" ++ cn) (some "bias_quantizer") = .ok bq ∧
          cfgGet l' "bias_quantizer" = some bq)) ∧
    (∃ aq, getConfig qc l ("Q" ++ cn) (some "activation_quantizer") = .ok aq ∧
      (truthy aq = true → cfgGet l' "activation" = some aq)) ∧
    (∀ k, k ∉ sepKeys → cfgGet l' k = cfgGet l k) := by
  unfold step stepCore at h
  obtain ⟨r, hb, h⟩ := bind_ok h
  obtain ⟨l1, st1, fin⟩ := r
  unfold branch at hb
  obtain ⟨c0, hc0, hb⟩ := bind_ok hb
  obtain ⟨cls, hcls', hb⟩ := bind_ok hb
  have : cls = .str cn := by
    have := sub_ok hcls'
    rw [clsOf] at hcls
    rw [hcls] at this
    exact (Option.some.inj this).symm
  subst this
  have e1 : (cn ∈ denseLike) = False := by
    rcases hcn with h | h <;> subst h <;> decide
  have e2 : (cn = "DepthwiseConv2D") = False := by
    rcases hcn with h | h <;> subst h <;> decide
  simp only [e1, e2, if_false, hcn, if_true] at hb
  unfold sepBranch at hb
  obtain ⟨dq', hdq', hb⟩ := bind_ok hb

  rw [hdq] at hdq'
  cases hdq'
  obtain ⟨pq, hpq, hb⟩ := bind_ok hb
  obtain ⟨c1, hc1, hb⟩ := bind_ok hb
  obtain ⟨ub, hub, hb⟩ := bind_ok hb
  obtain ⟨bq, hbq, hb⟩ := bind_ok hb

  have hubv : cfgGet l "use_bias" = some ub := by
    simp [cfgGet, sub_ok hc1, sub_ok hub]
  cases dq with
  | none => exact absurd rfl hne
  | bool _ | num _ _ | str _ | list _ | dict _ =>
    all_goals
      simp only at hb
      obtain ⟨l2, hl2, hb⟩ := bind_ok hb
      cases hb
      obtain ⟨s1, s2, s3, s4, ⟨aq, haq, hact⟩, sfr⟩ := sepApply_spec hl2
      simp only [if_true] at h
      obtain ⟨l3, hl3, h⟩ := bind_ok h
      cases h
      have e := fixRegistered_spec hl3
      have ecls := e.top "class_name" (by decide) (by decide)
      refine ⟨by rw [clsOf, ecls]; exact s1, by rw [e.cfg _ (by simp)]; exact s2,
        ⟨pq, hpq, by rw [e.cfg _ (by simp)]; exact s3⟩, ⟨ub, hubv, ?_, ?_⟩,
        ⟨aq, haq, fun ht => by rw [e.cfg _ (by simp)]; exact hact ht⟩,
        fun k hk => by rw [e.cfg _ (by simp)]; exact sfr k hk⟩
      · intro ht
        unfold biasLook at hbq
        simp [ht] at hbq
        cases hbq
        rw [e.cfg _ (by simp)]
        exact s4
      · intro ht
        unfold biasLook at hbq
        simp [ht] at hbq
        exact ⟨bq, hbq, by rw [e.cfg _ (by simp)]; exact s4⟩

/-- list form: at every position of every converted model -/
theorem C12_selected_separable_list (F : Flags) (qc : Dict) (ls ls' : List PyVal)
    (h : rewrite F qc ls = .ok ls') (l l' : PyVal) (hm : (l, l') ∈ ls.zip ls') (cn : String)
    (hcn : cn = "SeparableConv1D" ∨ cn = "SeparableConv2D") (hcls : clsOf l = some (.str cn))
    (dq : PyVal) (hdq : getConfig qc l ("Q" ++ cn) (some "depthwise_quantizer") = .ok dq) (hne : dq ≠ .none) :
    clsOf l' = some (.str ("Q" ++ cn)) ∧ cfgGet l' "depthwise_quantizer" = some dq ∧
    (∃ pq, getConfig qc l ("Q" ++ cn) (some "pointwise_quantizer") = .ok pq ∧
      cfgGet l' "pointwise_quantizer" = some pq) ∧
    cfgGet l' "kernel_quantizer" = cfgGet l "kernel_quantizer" := by
  obtain ⟨st₁, st₂, hs⟩ := (rewriteFrom_zip F qc ls none ls' h).2 l l' hm
  obtain ⟨h1, h2, h3, _, _, h6⟩ := C12_selected_separable F qc st₁ st₂ l l' cn hcn hcls dq hdq hne hs
  exact ⟨h1, h2, h3, h6 _ (by decide)⟩

def sep0 : PyVal := .dict [("class_name", .str "SeparableConv2D"),
  ("config", .dict [("name", .str "s1"), ("filters", .num 2 0), ("use_bias", .bool false),
                    ("activation", .str "relu")]), ("registered_name", .none)]
def qcSep : Dict := [("QSeparableConv2D", .dict [("depthwise_quantizer", .str "quantized_bits(4,0,1)"),
  ("pointwise_quantizer", .str "quantized_bits(3,0,1)"), ("bias_quantizer", .str "quantized_bits(4)")])]

/-- regression witness of the repaired defect (former finding C12-separable-kernel-quantizer): the
    entry AutoQKeras writes converts the layer — before the fix it was ignored, and a
    `kernel_quantizer` entry produced a `kernel_quantizer` key that QSeparableConv2D rejects; now
    such an entry selects nothing and no `kernel_quantizer` key is ever written. -/
theorem C12_separable_fixed_witness :
    (rewrite F0 qcSep [sep0]).toOption.map (fun ls => ls.map fun l =>
      (clsOf l, cfgGet l "depthwise_quantizer", cfgGet l "pointwise_quantizer", cfgGet l "bias_quantizer",
       cfgGet l "activation", cfgGet l "kernel_quantizer")) =
    some [(some (.str "QSeparableConv2D"), some (.str "quantized_bits(4,0,1)"), some (.str "quantized_bits(3,0,1)"),
           some .none, some (.str "quantized_relu(4)"), none)] ∧
    rewrite F0 [("QSeparableConv2D", .dict [("kernel_quantizer", .str "quantized_bits(4,0,1)")])] [sep0] = .ok [sep0] := by
  exact ⟨rfl, rfl⟩

/-! ## selected pooling layers -/

theorem poolApply_spec {F : Flags} {look : Look} {qn : String} {aq l l' : PyVal}
    (h : poolApply F look qn aq l = .ok l') :
    clsOf l' = some (.str qn) ∧ cfgGet l' "average_quantizer" = some aq ∧
    (∃ a, look qn (some "activation_quantizer") = .ok a ∧
      (truthy a = true → cfgGet l' "activation" = some a)) ∧
    (∀ k, k ∉ ["average_quantizer", "activation"] → cfgGet l' k = cfgGet l k) := by
  have hfr := Ok_poolApply (ks := ["average_quantizer", "activation"]) (ts := ["class_name"]) (Eff.refl _ _ l)
    (by decide) (by decide) (by decide) l' h
  unfold poolApply at h
  obtain ⟨l1, h1, h⟩ := bind_ok h
  obtain ⟨l2, h2, h⟩ := bind_ok h
  obtain ⟨e3, a, ha, hact, _⟩ := actStep_spec h
  have s1 := setCls_spec h1
  have s2 := setCfg_spec h2
  refine ⟨?_, ?_, ⟨a, ha, hact⟩, fun k hk => hfr.cfg k hk⟩
  · rw [clsOf, e3.top "class_name" (by simp) (by decide), s2.2.2 _ (by decide)]
    exact s1.1
  · rw [e3.cfg _ (by decide)]
    exact s2.1

/-- An AveragePooling2D / GlobalAveragePooling2D layer whose `average_quantizer` lookup is not
    None becomes `"Q" + class` with that `average_quantizer`; `activation` is the
    `activation_quantizer` lookup when truthy; every other config key is unchanged. -/
theorem C12_selected_pool (F : Flags) (qc : Dict) (st st' : Option String) (l l' : PyVal) (cn : String)
    (hcn : cn = "AveragePooling2D" ∨ cn = "GlobalAveragePooling2D") (hcls : clsOf l = some (.str cn))
    (aq : PyVal) (haq : getConfig qc l ("Q" ++ cn) (some "average_quantizer") = .ok aq) (hne : aq ≠ .none)
    (h : step F qc st l = .ok (l', st')) :
    clsOf l' = some (.str ("Q" ++ cn)) ∧ cfgGet l' "average_quantizer" = some aq ∧
    (∃ a, getConfig qc l ("Q" ++ cn) (some "activation_quantizer") = .ok a ∧
      (truthy a = true → cfgGet l' "activation" = some a)) ∧
    (∀ k, k ∉ ["average_quantizer", "activation"] → cfgGet l' k = cfgGet l k) := by
  unfold step stepCore at h
  obtain ⟨r, hb, h⟩ := bind_ok h
  obtain ⟨l1, st1, fin⟩ := r
  unfold branch at hb
  obtain ⟨c0, hc0, hb⟩ := bind_ok hb
  obtain ⟨cls, hcls', hb⟩ := bind_ok hb
  have : cls = .str cn := by
    have := sub_ok hcls'
    rw [clsOf] at hcls
    rw [hcls] at this
    exact (Option.some.inj this).symm
  subst this
  have e1 : (cn ∈ denseLike) = False := by
    rcases hcn with h | h <;> subst h <;> decide
  have e2 : (cn = "DepthwiseConv2D") = False := by
    rcases hcn with h | h <;> subst h <;> decide
  have e2s : (cn = "SeparableConv1D" ∨ cn = "SeparableConv2D") = False := by
    rcases hcn with h | h <;> subst h <;> decide
  have e3 : (cn = "SimpleRNN" ∨ cn = "LSTM" ∨ cn = "GRU") = False := by
    rcases hcn with h | h <;> subst h <;> decide
  have e4 : (cn = "Bidirectional") = False := by
    rcases hcn with h | h <;> subst h <;> decide
  have e5 : (cn = "Activation") = False := by
    rcases hcn with h | h <;> subst h <;> decide
  have e6 : (cn = "ReLU" ∨ cn = "relu" ∨ cn = "LeakyReLU") = False := by
    rcases hcn with h | h <;> subst h <;> decide
  have e7 : (cn = "BatchNormalization") = False := by
    rcases hcn with h | h <;> subst h <;> decide
  simp only [e1, e2, e2s, e3, e4, e5, e6, e7, if_false, hcn, if_true] at hb
  unfold poolBranch at hb
  obtain ⟨aq', haq', hb⟩ := bind_ok hb

  rw [haq] at haq'
  cases haq'
  cases aq with
  | none => exact absurd rfl hne
  | bool _ | num _ _ | str _ | list _ | dict _ =>
    all_goals
      simp only at hb
      obtain ⟨l2, hl2, hb⟩ := bind_ok hb
      cases hb
      obtain ⟨s1, s2, ⟨a, ha, hact⟩, sfr⟩ := poolApply_spec hl2
      simp only [if_true] at h
      obtain ⟨l3, hl3, h⟩ := bind_ok h
      cases h
      have e := fixRegistered_spec hl3
      have ecls := e.top "class_name" (by decide) (by decide)
      exact ⟨by rw [clsOf, ecls]; exact s1, by rw [e.cfg _ (by simp)]; exact s2,
        ⟨a, ha, fun ht => by rw [e.cfg _ (by simp)]; exact hact ht⟩,
        fun k hk => by rw [e.cfg _ (by simp)]; exact sfr k hk⟩

/-! ## selected BatchNormalization layers -/

def bnKeys : List String := ["gamma_quantizer", "beta_quantizer", "mean_quantizer", "variance_quantizer"]

theorem bnApply_spec {look : Look} {l l' : PyVal} (h : bnApply look l = .ok l') :
    clsOf l' = some (.str "QBatchNormalization") ∧
    (∀ k ∈ bnKeys, ∃ v, look "QBatchNormalization" (some k) = .ok v ∧ cfgGet l' k = some v) ∧
    (∀ k, k ∉ bnKeys → cfgGet l' k = cfgGet l k) := by
  have hfr := Ok_bnApply (ks := bnKeys) (ts := ["class_name"]) (Eff.refl _ _ l)
    (by decide) (by decide) (by decide) (by decide) (by decide) l' h
  unfold bnApply at h
  obtain ⟨l1, h1, h⟩ := bind_ok h
  obtain ⟨g, hg, h⟩ := bind_ok h
  obtain ⟨b, hb, h⟩ := bind_ok h
  obtain ⟨m, hm, h⟩ := bind_ok h
  obtain ⟨v, hv, h⟩ := bind_ok h
  obtain ⟨l2, h2, h⟩ := bind_ok h
  obtain ⟨l3, h3, h⟩ := bind_ok h
  obtain ⟨l4, h4, h⟩ := bind_ok h
  have s1 := setCls_spec h1
  have s2 := setCfg_spec h2
  have s3 := setCfg_spec h3
  have s4 := setCfg_spec h4
  have s5 := setCfg_spec h
  refine ⟨?_, ?_, fun k hk => hfr.cfg k hk⟩
  · rw [clsOf, s5.2.2 _ (by decide), s4.2.2 _ (by decide), s3.2.2 _ (by decide), s2.2.2 _ (by decide)]
    exact s1.1
  · intro k hk
    simp only [bnKeys, List.mem_cons, List.not_mem_nil, or_false] at hk
    rcases hk with hk | hk | hk | hk
    · subst hk
      exact ⟨g, hg, by rw [s5.2.1 _ (by decide), s4.2.1 _ (by decide), s3.2.1 _ (by decide)]; exact s2.1⟩
    · subst hk
      exact ⟨b, hb, by rw [s5.2.1 _ (by decide), s4.2.1 _ (by decide)]; exact s3.1⟩
    · subst hk
      exact ⟨m, hm, by rw [s5.2.1 _ (by decide)]; exact s4.1⟩
    · subst hk
      exact ⟨v, hv, s5.1⟩

theorem bnPresent_selected {qc : Dict} {l : PyVal} {n : String} (hn : nameOf l = some (.str n))
    (hsel : (dget qc n).isSome = true ∨ (dget qc "QBatchNormalization").isSome = true) :
    bnPresent qc l = .ok true := by
  simp only [nameOf, cfgGet] at hn
  cases hc : pget l "config" with
  | none => simp [hc] at hn
  | some cfg =>
    simp only [hc, Option.bind_some] at hn
    unfold bnPresent
    rcases hsel with hs | hs <;>
      simp [sub_of_pget hc, sub_of_pget hn, bind, Except.bind, hs, pure, Except.pure]

/-- A BatchNormalization layer is selected when its name or the key `QBatchNormalization` occurs
    in the dictionary; it then becomes a QBatchNormalization whose gamma / beta / mean / variance
    quantizers are exactly the four lookups (name entry first, then the class entry; None when
    the entry does not name one), and no other config key changes. -/
theorem C12_selected_bn (F : Flags) (qc : Dict) (st st' : Option String) (l l' : PyVal) (n : String)
    (hcls : clsOf l = some (.str "BatchNormalization")) (hn : nameOf l = some (.str n))
    (hsel : (dget qc n).isSome = true ∨ (dget qc "QBatchNormalization").isSome = true)
    (h : step F qc st l = .ok (l', st')) :
    clsOf l' = some (.str "QBatchNormalization") ∧
    (∀ k ∈ bnKeys, ∃ v, getConfig qc l "QBatchNormalization" (some k) = .ok v ∧ cfgGet l' k = some v) ∧
    (∀ k, k ∉ bnKeys → cfgGet l' k = cfgGet l k) := by
  unfold step stepCore at h
  obtain ⟨r, hb, h⟩ := bind_ok h
  obtain ⟨l1, st1, fin⟩ := r
  unfold branch at hb
  obtain ⟨c0, hc0, hb⟩ := bind_ok hb
  obtain ⟨cls, hcls', hb⟩ := bind_ok hb
  have : cls = .str "BatchNormalization" := by
    have := sub_ok hcls'
    rw [clsOf] at hcls
    rw [hcls] at this
    exact (Option.some.inj this).symm
  subst this
  have e1 : ("BatchNormalization" ∈ denseLike) = False := by decide
  simp only [e1, if_false] at hb
  simp only [show ("BatchNormalization" = "DepthwiseConv2D") = False by decide,
    show ("BatchNormalization" = "SeparableConv1D" ∨ "BatchNormalization" = "SeparableConv2D") = False by decide,
    show ("BatchNormalization" = "SimpleRNN" ∨ "BatchNormalization" = "LSTM" ∨ "BatchNormalization" = "GRU") = False by decide,
    show ("BatchNormalization" = "Bidirectional") = False by decide,
    show ("BatchNormalization" = "Activation") = False by decide,
    show ("BatchNormalization" = "ReLU" ∨ "BatchNormalization" = "relu" ∨ "BatchNormalization" = "LeakyReLU") = False by decide,
    if_false, if_true] at hb
  unfold bnBranch at hb
  obtain ⟨pr, hpr, hb⟩ := bind_ok hb
  rw [bnPresent_selected hn hsel] at hpr
  cases hpr
  simp only [if_true] at hb
  obtain ⟨l2, hl2, hb⟩ := bind_ok hb
  cases hb
  obtain ⟨s1, s2, sfr⟩ := bnApply_spec hl2
  simp only [if_true] at h
  obtain ⟨l3, hl3, h⟩ := bind_ok h
  cases h
  have e := fixRegistered_spec hl3
  have ecls := e.top "class_name" (by decide) (by decide)
  refine ⟨by rw [clsOf, ecls]; exact s1, fun k hk => ?_, fun k hk => by rw [e.cfg _ (by simp)]; exact sfr k hk⟩
  obtain ⟨v, hv, hv'⟩ := s2 k hk
  exact ⟨v, hv, by rw [e.cfg _ (by simp)]; exact hv'⟩

/-! ## selected Activation layers (QActivation path) -/

theorem actLookup_plain {F : Flags} (hpa : F.preferAdaptive = false) {look : Look} {q : PyVal}
    (hq : look "QActivation" none = .ok q) (hne : q ≠ .none) : actLookup F look = .ok (q, false) := by
  unfold actLookup
  simp only [hpa, hq, bind, Except.bind]
  cases q <;> first | exact absurd rfl hne | rfl

/-- shared walk: an Activation layer for which the QActivation lookup `q` is consulted, the
    condition holds and the picked quantizer `v` is truthy becomes a QActivation with
    `activation = v`; nothing else in its config changes -/
theorem activation_selected_core (F : Flags) (hpa : F.preferAdaptive = false) (qc : Dict)
    (st st' : Option String) (l l' : PyVal) (hcls : clsOf l = some (.str "Activation")) (q v : PyVal)
    (hq : getConfig qc l "QActivation" none = .ok q) (hne : q ≠ .none)
    (hcond : ∀ l₁, pget l₁ "config" = pget l "config" → actCond q l₁ = .ok true)
    (hpick : ∀ l₁, pget l₁ "config" = pget l "config" → actPick q l₁ = .ok v) (ht : truthy v = true)
    (h : step F qc st l = .ok (l', st')) :
    clsOf l' = some (.str "QActivation") ∧ cfgGet l' "activation" = some v ∧
    (∀ k, k ≠ "activation" → cfgGet l' k = cfgGet l k) := by
  unfold step stepCore at h
  obtain ⟨r, hb, h⟩ := bind_ok h
  obtain ⟨l1, st1, fin⟩ := r
  unfold branch at hb
  obtain ⟨c0, hc0, hb⟩ := bind_ok hb
  obtain ⟨cls, hcls', hb⟩ := bind_ok hb
  have : cls = .str "Activation" := by
    have := sub_ok hcls'
    rw [clsOf] at hcls
    rw [hcls] at this
    exact (Option.some.inj this).symm
  subst this
  simp only [show ("Activation" ∈ denseLike) = False by decide,
    show ("Activation" = "DepthwiseConv2D") = False by decide,
    show ("Activation" = "SeparableConv1D" ∨ "Activation" = "SeparableConv2D") = False by decide,
    show ("Activation" = "SimpleRNN" ∨ "Activation" = "LSTM" ∨ "Activation" = "GRU") = False by decide,
    show ("Activation" = "Bidirectional") = False by decide, if_false, if_true] at hb
  unfold activationBranch at hb
  obtain ⟨qa, hqa, hb⟩ := bind_ok hb
  rw [actLookup_plain hpa hq hne] at hqa
  cases hqa
  have hmain : fin = true ∧ clsOf l1 = some (.str "QActivation") ∧ cfgGet l1 "activation" = some v ∧
      (∀ k, k ≠ "activation" → cfgGet l1 k = cfgGet l k) := by
    cases q with
    | none => exact absurd rfl hne
    | bool _ | num _ _ | str _ | list _ | dict _ =>
      all_goals
        simp only at hb
        obtain ⟨c, hc, hb⟩ := bind_ok hb
        rw [hcond l rfl] at hc
        cases hc
        simp only [if_true] at hb
        obtain ⟨l2, hl2, hb⟩ := bind_ok hb
        cases hb
        unfold activationApply at hl2
        obtain ⟨l3, hl3, hl2⟩ := bind_ok hl2
        have s3 := setCls_spec hl3
        obtain ⟨v', hv', hl2⟩ := bind_ok hl2
        rw [hpick l3 (s3.2 "config" (by decide))] at hv'
        cases hv'
        simp only [ht, if_true, Bool.false_eq_true, if_false] at hl2
        have s4 := setCfg_spec hl2
        refine ⟨rfl, ?_, s4.1, fun k hk => ?_⟩
        · rw [clsOf, s4.2.2 _ (by decide)]
          exact s3.1
        · rw [s4.2.1 k hk]
          exact cfgGet_of_top (s3.2 "config" (by decide)) k
  obtain ⟨hfin, m1, m2, m3⟩ := hmain
  subst hfin
  simp only [if_true] at h
  obtain ⟨l5, hl5, h⟩ := bind_ok h
  cases h
  have e := fixRegistered_spec hl5
  exact ⟨by rw [clsOf, e.top "class_name" (by decide) (by decide)]; exact m1,
    by rw [e.cfg _ (by simp)]; exact m2, fun k hk => by rw [e.cfg _ (by simp)]; exact m3 k hk⟩

/-- An Activation layer selected by a plain (non-dict) truthy entry — name entry first, then
    `"QActivation"` — becomes a QActivation whose `activation` is that entry; every other config
    key is unchanged.  (QActivation consulted first: `prefer_qadaptiveactivation = False`.) -/
theorem C12_selected_activation (F : Flags) (hpa : F.preferAdaptive = false) (qc : Dict)
    (st st' : Option String) (l l' : PyVal) (hcls : clsOf l = some (.str "Activation")) (q : PyVal)
    (hq : getConfig qc l "QActivation" none = .ok q) (hnd : ∀ d, q ≠ .dict d) (ht : truthy q = true)
    (h : step F qc st l = .ok (l', st')) :
    clsOf l' = some (.str "QActivation") ∧ cfgGet l' "activation" = some q ∧
    (∀ k, k ≠ "activation" → cfgGet l' k = cfgGet l k) := by
  have hne : q ≠ .none := by
    intro e
    rw [e] at ht
    cases ht
  refine activation_selected_core F hpa qc st st' l l' hcls q q hq hne ?_ ?_ ht h
  · intro l₁ _
    unfold actCond
    cases q <;> first | rfl | exact absurd rfl (hnd _)
  · intro l₁ _
    unfold actPick
    cases q <;> first | rfl | exact absurd rfl (hnd _)

/-- … and one selected through an activation map (`{"relu": "quantized_relu(4)", ...}`) gets the
    map's entry for its own activation function, when that entry is truthy. -/
theorem C12_selected_activation_map (F : Flags) (hpa : F.preferAdaptive = false) (qc : Dict)
    (st st' : Option String) (l l' : PyVal) (hcls : clsOf l = some (.str "Activation")) (qd : Dict)
    (hq : getConfig qc l "QActivation" none = .ok (.dict qd)) (a : String)
    (ha : cfgGet l "activation" = some (.str a)) (v : PyVal) (hv : dget qd a = some v) (ht : truthy v = true)
    (h : step F qc st l = .ok (l', st')) :
    clsOf l' = some (.str "QActivation") ∧ cfgGet l' "activation" = some v ∧
    (∀ k, k ≠ "activation" → cfgGet l' k = cfgGet l k) := by
  have hsub : ∀ l₁, pget l₁ "config" = pget l "config" →
      ∃ c, sub l₁ "config" = .ok c ∧ sub c "activation" = .ok (.str a) := by
    intro l₁ hl
    simp only [cfgGet] at ha
    cases hc : pget l "config" with
    | none => simp [hc] at ha
    | some c =>
      simp only [hc, Option.bind_some] at ha
      exact ⟨c, sub_of_pget (hl.trans hc), sub_of_pget ha⟩
  refine activation_selected_core F hpa qc st st' l l' hcls (.dict qd) v hq (by simp) ?_ ?_ ht h
  · intro l₁ hl
    obtain ⟨c, h1, h2⟩ := hsub l₁ hl
    simp [actCond, h1, h2, bind, Except.bind, getV, hv, ht, pure, Except.pure]
  · intro l₁ hl
    obtain ⟨c, h1, h2⟩ := hsub l₁ hl
    simp [actPick, h1, h2, bind, Except.bind, getV, hv, pure, Except.pure]


/-! ## selected recurrent layers (SimpleRNN / LSTM / GRU, top level or inside Bidirectional) -/

def rnnKeys : List String :=
  ["kernel_quantizer", "recurrent_quantizer", "bias_quantizer", "state_quantizer", "activation",
   "recurrent_activation"]

/-- what `quantize_rnn` makes of a layer `l` of class `cn` whose kernel quantizer is `kq`, given the
    lookup function `look`: the result `l'` is a `"Q" + cn` carrying exactly the looked-up kernel,
    recurrent, state and (only with `use_bias`) bias quantizers, the `activation_quantizer` when
    truthy, and otherwise the configuration it had -/
structure RnnConverted (look : Look) (cn : String) (kq : PyVal) (l l' : PyVal) : Prop where
  cls : clsOf l' = some (.str ("Q" ++ cn))
  kernel : cfgGet l' "kernel_quantizer" = some kq
  recurrent : ∃ rq, look ("Q" ++ cn) (some "recurrent_quantizer") = .ok rq ∧
    cfgGet l' "recurrent_quantizer" = some rq
  state : ∃ sq, look ("Q" ++ cn) (some "state_quantizer") = .ok sq ∧ cfgGet l' "state_quantizer" = some sq
  bias : ∃ ub, cfgGet l "use_bias" = some ub ∧
    (truthy ub = false → cfgGet l' "bias_quantizer" = some .none) ∧
    (truthy ub = true → ∃ bq, look ("Q" ++ cn) (some "bias_quantizer") = .ok bq ∧
      cfgGet l' "bias_quantizer" = some bq)
  act : ∃ aq, look ("Q" ++ cn) (some "activation_quantizer") = .ok aq ∧
    (truthy aq = true → cfgGet l' "activation" = some aq)
  frame : ∀ k, k ∉ rnnKeys → cfgGet l' k = cfgGet l k

theorem RnnConverted.of_eff {look : Look} {cn : String} {kq l l' l'' : PyVal} {ts : List String}
    (h : RnnConverted look cn kq l l') (e : Eff [] ts l' l'') (hc : "class_name" ∉ ts) :
    RnnConverted look cn kq l l'' := by
  have ec : ∀ k, cfgGet l'' k = cfgGet l' k := fun k => e.cfg k (by simp)
  refine ⟨?_, ?_, ?_, ?_, ?_, ?_, ?_⟩
  · rw [clsOf, e.top "class_name" hc (by decide)]
    exact h.cls
  · rw [ec]
    exact h.kernel
  · obtain ⟨rq, h1, h2⟩ := h.recurrent
    exact ⟨rq, h1, by rw [ec]; exact h2⟩
  · obtain ⟨sq, h1, h2⟩ := h.state
    exact ⟨sq, h1, by rw [ec]; exact h2⟩
  · obtain ⟨ub, h1, h2, h3⟩ := h.bias
    refine ⟨ub, h1, fun ht => by rw [ec]; exact h2 ht, fun ht => ?_⟩
    obtain ⟨bq, h4, h5⟩ := h3 ht
    exact ⟨bq, h4, by rw [ec]; exact h5⟩
  · obtain ⟨aq, h1, h2⟩ := h.act
    exact ⟨aq, h1, fun ht => by rw [ec]; exact h2 ht⟩
  · intro k hk
    rw [ec]
    exact h.frame k hk

theorem rnnApply_spec {look : Look} {bits cn qn : String} {kq rq bq sq l l' : PyVal}
    (h : rnnApply look bits cn qn kq rq bq sq l = .ok l') :
    clsOf l' = some (.str qn) ∧ cfgGet l' "kernel_quantizer" = some kq ∧
    cfgGet l' "recurrent_quantizer" = some rq ∧ cfgGet l' "bias_quantizer" = some bq ∧
    cfgGet l' "state_quantizer" = some sq ∧
    (∃ aq, look qn (some "activation_quantizer") = .ok aq ∧
      (truthy aq = true → cfgGet l' "activation" = some aq)) ∧
    (∀ k, k ∉ rnnKeys → cfgGet l' k = cfgGet l k) := by
  have hfr := Ok_rnnApply (ks := rnnKeys) (ts := ["class_name", "registered_name"]) (Eff.refl _ _ l)
    (by decide) (by decide) (by decide) (by decide) (by decide) (by decide) (by decide) (by decide) l' h
  unfold rnnApply at h
  obtain ⟨l1, h1, h⟩ := bind_ok h
  obtain ⟨l2, h2, h⟩ := bind_ok h
  obtain ⟨l3, h3, h⟩ := bind_ok h
  obtain ⟨l4, h4, h⟩ := bind_ok h
  obtain ⟨l5, h5, h⟩ := bind_ok h
  obtain ⟨l6, h6, h⟩ := bind_ok h
  obtain ⟨l7, h7, h⟩ := bind_ok h
  have s1 := setCfg_spec h1
  have s2 := setCfg_spec h2
  have s3 := setCfg_spec h3
  have s4 := setCfg_spec h4
  obtain ⟨e5, aq, haq, hact, _⟩ := actStep_spec h5
  -- the tail (recurrent activation, rename, registered_name) only writes `recurrent_activation`
  have e6 := Ok_recActStep (ks := ["recurrent_activation"]) (ts := ["class_name", "registered_name"])
    (Eff.refl _ _ l5) (by decide) l6 h6
  have e7 := Ok_setCls e6 (by decide) l7 h7
  have e8 := Ok_rnnRegistered e7 (by decide) l' h
  have s7 := setCls_spec h7
  have e9 := Ok_rnnRegistered (ks := []) (ts := ["registered_name"]) (Eff.refl _ _ l7) (by decide) l' h
  have tail : ∀ k, k ≠ "recurrent_activation" → k ≠ "activation" → cfgGet l' k = cfgGet l4 k := by
    intro k hk hk'
    rw [e8.cfg k (by simpa using hk), e5.cfg k (by simpa using hk')]
  refine ⟨?_, ?_, ?_, ?_, ?_, ⟨aq, haq, fun ht => ?_⟩, fun k hk => hfr.cfg k hk⟩
  · rw [clsOf, e9.top "class_name" (by decide) (by decide)]
    exact s7.1
  · rw [tail _ (by decide) (by decide), s4.2.1 _ (by decide), s3.2.1 _ (by decide), s2.2.1 _ (by decide)]
    exact s1.1
  · rw [tail _ (by decide) (by decide), s4.2.1 _ (by decide), s3.2.1 _ (by decide)]
    exact s2.1
  · rw [tail _ (by decide) (by decide), s4.2.1 _ (by decide)]
    exact s3.1
  · rw [tail _ (by decide) (by decide)]
    exact s4.1
  · rw [e8.cfg _ (by decide)]
    exact hact ht

theorem quantizeRnn_spec {look : Look} {bits cn : String} {kq l l' : PyVal}
    (hcls : clsOf l = some (.str cn)) (hkq : look ("Q" ++ cn) (some "kernel_quantizer") = .ok kq)
    (hne : kq ≠ .none) (h : quantizeRnn look bits l = .ok l') : RnnConverted look cn kq l l' := by
  unfold quantizeRnn at h
  obtain ⟨c0, hc0, h⟩ := bind_ok h
  have := sub_ok hc0
  rw [clsOf] at hcls
  rw [hcls] at this
  cases this
  obtain ⟨cn', hcn', h⟩ := bind_ok h
  cases hcn'
  obtain ⟨kq', hkq', h⟩ := bind_ok h
  rw [hkq] at hkq'
  cases hkq'
  obtain ⟨rq, hrq, h⟩ := bind_ok h
  obtain ⟨c1, hc1, h⟩ := bind_ok h
  obtain ⟨ub, hub, h⟩ := bind_ok h
  obtain ⟨bq, hbq, h⟩ := bind_ok h
  obtain ⟨sq, hsq, h⟩ := bind_ok h
  have hubv : cfgGet l "use_bias" = some ub := by
    simp [cfgGet, sub_ok hc1, sub_ok hub]
  cases kq with
  | none => exact absurd rfl hne
  | bool _ | num _ _ | str _ | list _ | dict _ =>
    all_goals
      simp only at h
      obtain ⟨s0, s1, s2, s3, s4, sact, sfr⟩ := rnnApply_spec h
      refine ⟨s0, s1, ⟨rq, hrq, s2⟩, ⟨sq, hsq, s4⟩, ⟨ub, hubv, ?_, ?_⟩, sact, sfr⟩
      · intro ht
        unfold biasLook at hbq
        simp [ht] at hbq
        cases hbq
        exact s3
      · intro ht
        unfold biasLook at hbq
        simp [ht] at hbq
        exact ⟨bq, hbq, s3⟩

/-- A SimpleRNN / LSTM / GRU layer whose kernel-quantizer lookup (name entry first, then the class
    entry `"Q" + class`) is not None becomes `"Q" + class` carrying exactly the configured kernel,
    recurrent, state and (only with `use_bias`) bias quantizers and the configured
    `activation_quantizer`; no config key outside `rnnKeys` changes. -/
theorem C12_selected_rnn (F : Flags) (qc : Dict) (st st' : Option String) (l l' : PyVal) (cn : String)
    (hcn : cn = "SimpleRNN" ∨ cn = "LSTM" ∨ cn = "GRU") (hcls : clsOf l = some (.str cn))
    (kq : PyVal) (hkq : getConfig qc l ("Q" ++ cn) (some "kernel_quantizer") = .ok kq) (hne : kq ≠ .none)
    (h : step F qc st l = .ok (l', st')) : RnnConverted (getConfig qc l) cn kq l l' := by
  unfold step stepCore at h
  obtain ⟨r, hb, h⟩ := bind_ok h
  obtain ⟨l1, st1, fin⟩ := r
  unfold branch at hb
  obtain ⟨c0, hc0, hb⟩ := bind_ok hb
  obtain ⟨cls, hcls', hb⟩ := bind_ok hb
  have : cls = .str cn := by
    have := sub_ok hcls'
    have hc := hcls
    rw [clsOf] at hc
    rw [hc] at this
    exact (Option.some.inj this).symm
  subst this
  have e1 : (cn ∈ denseLike) = False := by
    rcases hcn with h | h | h <;> subst h <;> decide
  have e2 : (cn = "DepthwiseConv2D") = False := by
    rcases hcn with h | h | h <;> subst h <;> decide
  have e2s : (cn = "SeparableConv1D" ∨ cn = "SeparableConv2D") = False := by
    rcases hcn with h | h | h <;> subst h <;> decide
  simp only [e1, e2, e2s, if_false, hcn, if_true] at hb
  obtain ⟨l2, hl2, hb⟩ := bind_ok hb
  cases hb
  have hr := quantizeRnn_spec hcls hkq hne hl2
  simp only [if_true] at h
  obtain ⟨l3, hl3, h⟩ := bind_ok h
  cases h
  exact hr.of_eff (fixRegistered_spec hl3) (by decide)

/-! ## selected Bidirectional wrappers -/

theorem getConfig_param {qc : Dict} {l e : PyVal} {c : String} (h : getConfig qc l c none = .ok e)
    (p : String) : getConfig qc l c (some p) = paramOf e (some p) := by
  unfold getConfig at h ⊢
  obtain ⟨cfg, hcfg, h⟩ := bind_ok h
  obtain ⟨nm, hnm, h⟩ := bind_ok h
  obtain ⟨entry, hentry, h⟩ := bind_ok h
  have : entry = e := by
    unfold paramOf at h
    cases h
    rfl
  subst this
  simp only [hcfg, hnm, hentry, bind, Except.bind]

theorem pyKeyEq_refl {k : PyVal} (h : hashable k = .ok ()) : pyKeyEq k k = true := by
  cases k with
  | none => rfl
  | bool b => cases b <;> simp [pyKeyEq, keyNum]
  | num m e => simp [pyKeyEq, keyNum]
  | str s => simp [pyKeyEq]
  | list xs => simp [hashable] at h
  | dict d => simp [hashable] at h

/-- **The one-entry dictionary serves its entry to the layer it is keyed by, whatever that layer is
    called.**  For every layer `inner` whose name `key` is hashable, every class key and every
    parameter: `get_config({key: entry}, inner, cls, p)` is `entry` (resp. `entry.get(p)`) — the name
    of a wrapped layer (forward or explicit backward) and its class play no role. -/
theorem C12_bidirectional_one_entry_lookup (key entry inner c : PyVal)
    (hc : sub inner "config" = .ok c) (hk : sub c "name" = .ok key) (hh : hashable key = .ok ())
    (cls : String) (p : Option String) :
    getConfigOne key entry inner cls p = paramOf entry p := by
  have hs : hashable (.str cls) = .ok () := rfl
  unfold getConfigOne oneGet
  simp only [hc, hk, hh, hs, pyKeyEq_refl hh, bind, Except.bind, pure, Except.pure, if_true]

/-- the converse, which is why the key matters: a one-entry dictionary keyed by a string that is
    neither the layer's own name nor `"Q" + class` offers that layer nothing (every lookup is
    `None`), so `quantize_rnn` leaves the layer as it is -/
theorem getConfigOne_foreign_key {k n cn : String} {entry inner : PyVal}
    (hn : nameOf inner = some (.str n)) (h1 : k ≠ n) (h2 : k ≠ "Q" ++ cn) (p : Option String) :
    getConfigOne (.str k) entry inner ("Q" ++ cn) p = .ok .none := by
  unfold getConfigOne
  cases hpc : pget inner "config" with
  | none => simp [nameOf, cfgGet, hpc] at hn
  | some cfg =>
    have hpn : pget cfg "name" = some (.str n) := by
      simpa [nameOf, cfgGet, hpc] using hn
    have e1 : pyKeyEq (.str ("Q" ++ cn)) (.str k) = false := by
      simp only [pyKeyEq, decide_eq_false_iff_not]
      exact fun h => h2 h.symm
    have e2 : pyKeyEq (.str n) (.str k) = false := by
      simp only [pyKeyEq, decide_eq_false_iff_not]
      exact fun h => h1 h.symm
    have hs1 : hashable (.str ("Q" ++ cn)) = .ok () := rfl
    have hs2 : hashable (.str n) = .ok () := rfl
    simp only [sub_of_pget hpc, sub_of_pget hpn, oneGet, hs1, hs2, e1, e2, bind, Except.bind, pure,
      Except.pure]
    cases p <;> rfl

theorem bidirSide_foreign_key_unchanged {look : Look} {bits k n cn : String} {keyLayer inner inner' : PyVal}
    (hkey : nameOf keyLayer = some (.str k)) (hn : nameOf inner = some (.str n))
    (hcls : clsOf inner = some (.str cn)) (h1 : k ≠ n) (h2 : k ≠ "Q" ++ cn)
    (h : bidirSide look bits keyLayer inner = .ok inner') : inner' = inner := by
  unfold bidirSide at h
  obtain ⟨c, hc, h⟩ := bind_ok h
  obtain ⟨key, hk, h⟩ := bind_ok h
  obtain ⟨e, _, h⟩ := bind_ok h
  obtain ⟨u, _, h⟩ := bind_ok h
  have : key = .str k := by
    simp [nameOf, cfgGet, sub_ok hc, sub_ok hk] at hkey
    exact hkey
  subst this
  exact quantizeRnn_unselected' hcls (fun p => getConfigOne_foreign_key hn h1 h2 p) h

/-- `bidirInner` with the wrapper's entry `e` is `quantize_rnn` with the name-independent lookup
    `entry.get(parameter)` -/
theorem bidirInner_exact {look : Look} {bits : String} {e inner inner' : PyVal}
    (he : look "QBidirectional" none = .ok e) (h : bidirInner look bits inner = .ok inner') :
    quantizeRnn (fun _ p => paramOf e p) bits inner = .ok inner' := by
  unfold bidirInner bidirSide at h
  obtain ⟨c, hc, h⟩ := bind_ok h
  obtain ⟨key, hk, h⟩ := bind_ok h
  obtain ⟨e', he', h⟩ := bind_ok h
  rw [he] at he'
  cases he'
  obtain ⟨u, hu, h⟩ := bind_ok h
  cases u
  have : getConfigOne key e inner = fun _ p => paramOf e p := by
    funext cls p
    exact C12_bidirectional_one_entry_lookup key e inner c hc hk hu cls p
  rw [this] at h
  exact h

theorem bidirInner_spec {look : Look} {bits icn : String} {e kq inner inner' : PyVal}
    (he : look "QBidirectional" none = .ok e) (hicls : clsOf inner = some (.str icn))
    (hkq : paramOf e (some "kernel_quantizer") = .ok kq) (hne : kq ≠ .none)
    (h : bidirInner look bits inner = .ok inner') :
    RnnConverted (fun _ p => paramOf e p) icn kq inner inner' :=
  quantizeRnn_spec hicls hkq hne (bidirInner_exact he h)

/-- A Bidirectional wrapper whose `QBidirectional` lookup `e` (name entry first, then the class
    entry) provides a kernel quantizer becomes a QBidirectional whose wrapped layer — and backward
    layer, if it has an explicit one — is converted by `quantize_rnn` with the quantizers of that
    same entry (`RnnConverted` with the lookup `paramOf e`); no config key of the wrapper other
    than `layer` / `backward_layer` changes. -/
theorem C12_selected_bidirectional (F : Flags) (qc : Dict) (st st' : Option String) (l l' : PyVal)
    (hcls : clsOf l = some (.str "Bidirectional")) (e kq : PyVal)
    (he : getConfig qc l "QBidirectional" none = .ok e)
    (hkq : paramOf e (some "kernel_quantizer") = .ok kq) (hne : kq ≠ .none)
    (h : step F qc st l = .ok (l', st')) :
    clsOf l' = some (.str "QBidirectional") ∧
    (∀ inner icn, cfgGet l "layer" = some inner → clsOf inner = some (.str icn) →
      ∃ inner', cfgGet l' "layer" = some inner' ∧ RnnConverted (fun _ p => paramOf e p) icn kq inner inner') ∧
    (∀ binner bcn, cfgGet l "backward_layer" = some binner → clsOf binner = some (.str bcn) →
      ∃ binner', cfgGet l' "backward_layer" = some binner' ∧
        RnnConverted (fun _ p => paramOf e p) bcn kq binner binner') ∧
    (∀ k, k ≠ "layer" → k ≠ "backward_layer" → cfgGet l' k = cfgGet l k) := by
  unfold step stepCore at h
  obtain ⟨r, hb, h⟩ := bind_ok h
  obtain ⟨l1, st1, fin⟩ := r
  unfold branch at hb
  obtain ⟨c0, hc0, hb⟩ := bind_ok hb
  obtain ⟨cls, hcls', hb⟩ := bind_ok hb
  have : cls = .str "Bidirectional" := by
    have := sub_ok hcls'
    have hc := hcls
    rw [clsOf] at hc
    rw [hc] at this
    exact (Option.some.inj this).symm
  subst this
  simp only [show ("Bidirectional" ∈ denseLike) = False by decide,
    show ("Bidirectional" = "DepthwiseConv2D") = False by decide,
    show ("Bidirectional" = "SeparableConv1D" ∨ "Bidirectional" = "SeparableConv2D") = False by decide,
    show ("Bidirectional" = "SimpleRNN" ∨ "Bidirectional" = "LSTM" ∨ "Bidirectional" = "GRU") = False by decide,
    if_false, if_true] at hb
  unfold bidirBranch at hb
  obtain ⟨kq', hkq', hb⟩ := bind_ok hb
  rw [getConfig_param he, hkq] at hkq'
  cases hkq'
  have hmain : fin = true ∧ bidirApply F (getConfig qc l) l = .ok l1 := by
    cases kq with
    | none => exact absurd rfl hne
    | bool _ | num _ _ | str _ | list _ | dict _ =>
      all_goals
        simp only at hb
        obtain ⟨l2, hl2, hb⟩ := bind_ok hb
        cases hb
        exact ⟨rfl, hl2⟩
  obtain ⟨hfin, happ⟩ := hmain
  subst hfin
  simp only [if_true] at h
  obtain ⟨l5, hl5, h⟩ := bind_ok h
  cases h
  have efix := fixRegistered_spec hl5
  have hfr := Ok_bidirApply (ks := ["layer", "backward_layer"]) (ts := ["class_name"]) (l := l) (F := F)
    (look := getConfig qc l) (by decide) (by decide) (by decide) l1 happ
  unfold bidirApply at happ
  obtain ⟨cfg, hcfg, happ⟩ := bind_ok happ
  obtain ⟨inner0, hinner0, happ⟩ := bind_ok happ
  obtain ⟨inner0', hinner0', happ⟩ := bind_ok happ
  obtain ⟨l2, hl2, happ⟩ := bind_ok happ
  obtain ⟨l3, hl3, happ⟩ := bind_ok happ
  have s2 := setCfg_spec hl2
  have s4 := setCls_spec happ
  have hinnerv : cfgGet l "layer" = some inner0 := by
    simp [cfgGet, sub_ok hcfg, sub_ok hinner0]
  -- the backward step
  have hback : cfgGet l3 "layer" = some inner0' ∧
      (∀ binner bcn, cfgGet l "backward_layer" = some binner → clsOf binner = some (.str bcn) →
        ∃ binner', cfgGet l3 "backward_layer" = some binner' ∧
          RnnConverted (fun _ p => paramOf e p) bcn kq binner binner') := by
    unfold bidirBackward at hl3
    obtain ⟨cfg2, hcfg2, hl3⟩ := bind_ok hl3
    have hcfg2' := sub_ok hcfg2
    cases cfg2 with
    | dict d =>
      simp only at hl3
      cases hbk : dget d "backward_layer" with
      | none =>
        simp only [hbk] at hl3
        cases hl3
        refine ⟨s2.1, fun binner bcn hbi _ => ?_⟩
        rw [← s2.2.1 _ (by decide)] at hbi
        simp [cfgGet, hcfg2', hbk] at hbi
      | some binner0 =>
        simp only [hbk] at hl3
        obtain ⟨binner0', hb0, hl3⟩ := bind_ok hl3
        have s3 := setCfg_spec hl3
        refine ⟨by rw [s3.2.1 _ (by decide)]; exact s2.1, fun binner bcn hbi hbc => ?_⟩
        rw [← s2.2.1 _ (by decide)] at hbi
        have : binner = binner0 := by
          simp [cfgGet, hcfg2', hbk] at hbi
          exact hbi.symm
        subst this
        exact ⟨binner0', s3.1, bidirInner_spec he hbc hkq hne hb0⟩
    | none | bool _ | num _ _ | str _ | list _ =>
      all_goals
        simp only at hl3
        cases hl3
  have top4 : ∀ k, cfgGet l1 k = cfgGet l3 k := fun k => cfgGet_of_top (s4.2 "config" (by decide)) k
  have efc : ∀ k, cfgGet l' k = cfgGet l1 k := fun k => efix.cfg k (by simp)
  refine ⟨?_, ?_, ?_, ?_⟩
  · rw [clsOf, efix.top "class_name" (by decide) (by decide)]
    exact s4.1
  · intro inner icn hi hic
    rw [hinnerv] at hi
    cases hi
    exact ⟨inner0', by rw [efc, top4]; exact hback.1, bidirInner_spec he hic hkq hne hinner0'⟩
  · intro binner bcn hbi hbc
    obtain ⟨b', hb1, hb2⟩ := hback.2 binner bcn hbi hbc
    exact ⟨b', by rw [efc, top4]; exact hb1, hb2⟩
  · intro k hk1 hk2
    rw [efc]
    exact hfr.cfg k (by simp [hk1, hk2])


/-! ### both directions of a Bidirectional wrapper (strengthening round, seed C12-10)

    A `Bidirectional(layer, backward_layer=...)` carries two independent layer configurations: the
    explicit backward layer has its own name, and may have its own class, `use_bias`, activation.
    The theorems below say that each direction is converted on its own terms from the wrapper's
    entry alone. -/

/-- from a selected Bidirectional step to `bidirApply` and the `registered_name` fix-up -/
theorem bidir_step_apply {F : Flags} {qc : Dict} {st st' : Option String} {l l' e kq : PyVal}
    (hcls : clsOf l = some (.str "Bidirectional"))
    (he : getConfig qc l "QBidirectional" none = .ok e)
    (hkq : paramOf e (some "kernel_quantizer") = .ok kq) (hne : kq ≠ .none)
    (h : step F qc st l = .ok (l', st')) :
    ∃ l1, bidirApply F (getConfig qc l) l = .ok l1 ∧ Eff [] ["registered_name"] l1 l' := by
  unfold step stepCore at h
  obtain ⟨r, hb, h⟩ := bind_ok h
  obtain ⟨l1, st1, fin⟩ := r
  unfold branch at hb
  obtain ⟨c0, hc0, hb⟩ := bind_ok hb
  obtain ⟨cls, hcls', hb⟩ := bind_ok hb
  have : cls = .str "Bidirectional" := by
    have := sub_ok hcls'
    have hc := hcls
    rw [clsOf] at hc
    rw [hc] at this
    exact (Option.some.inj this).symm
  subst this
  simp only [show ("Bidirectional" ∈ denseLike) = False by decide,
    show ("Bidirectional" = "DepthwiseConv2D") = False by decide,
    show ("Bidirectional" = "SeparableConv1D" ∨ "Bidirectional" = "SeparableConv2D") = False by decide,
    show ("Bidirectional" = "SimpleRNN" ∨ "Bidirectional" = "LSTM" ∨ "Bidirectional" = "GRU") = False by decide,
    if_false, if_true] at hb
  unfold bidirBranch at hb
  obtain ⟨kq', hkq', hb⟩ := bind_ok hb
  rw [getConfig_param he, hkq] at hkq'
  cases hkq'
  have hmain : fin = true ∧ bidirApply F (getConfig qc l) l = .ok l1 := by
    cases kq with
    | none => exact absurd rfl hne
    | bool _ | num _ _ | str _ | list _ | dict _ =>
      all_goals
        simp only at hb
        obtain ⟨l2, hl2, hb⟩ := bind_ok hb
        cases hb
        exact ⟨rfl, hl2⟩
  obtain ⟨hfin, happ⟩ := hmain
  subst hfin
  simp only [if_true] at h
  obtain ⟨l5, hl5, h⟩ := bind_ok h
  cases h
  exact ⟨l1, happ, fixRegistered_spec hl5⟩

/-- **Each direction is `quantize_rnn` of that direction's own configuration with the wrapper's
    entry, and nothing else.**  For a selected Bidirectional wrapper (entry `e` with a kernel
    quantizer): the new `layer` is exactly `quantize_rnn(layer, e.get)`, the new `backward_layer`
    — when the source has an explicit one — is exactly `quantize_rnn(backward_layer, e.get)` (its own
    name, class, `use_bias`, activation decide; the forward layer and the rest of the dictionary do
    not occur), and a wrapper without an explicit backward layer does not get one. -/
theorem C12_bidirectional_sides_exact (F : Flags) (qc : Dict) (st st' : Option String) (l l' : PyVal)
    (hcls : clsOf l = some (.str "Bidirectional")) (e kq : PyVal)
    (he : getConfig qc l "QBidirectional" none = .ok e)
    (hkq : paramOf e (some "kernel_quantizer") = .ok kq) (hne : kq ≠ .none)
    (h : step F qc st l = .ok (l', st')) :
    (∀ inner, cfgGet l "layer" = some inner →
      ∃ inner', quantizeRnn (fun _ p => paramOf e p) F.actBits inner = .ok inner' ∧
        cfgGet l' "layer" = some inner') ∧
    (∀ binner, cfgGet l "backward_layer" = some binner →
      ∃ binner', quantizeRnn (fun _ p => paramOf e p) F.actBits binner = .ok binner' ∧
        cfgGet l' "backward_layer" = some binner') ∧
    (cfgGet l "backward_layer" = none → cfgGet l' "backward_layer" = none) := by
  obtain ⟨l1, happ, efix⟩ := bidir_step_apply hcls he hkq hne h
  have efc : ∀ k, cfgGet l' k = cfgGet l1 k := fun k => efix.cfg k (by simp)
  unfold bidirApply at happ
  obtain ⟨cfg, hcfg, happ⟩ := bind_ok happ
  obtain ⟨inner0, hinner0, happ⟩ := bind_ok happ
  obtain ⟨inner0', hinner0', happ⟩ := bind_ok happ
  obtain ⟨l2, hl2, happ⟩ := bind_ok happ
  obtain ⟨l3, hl3, happ⟩ := bind_ok happ
  have s2 := setCfg_spec hl2
  have s4 := setCls_spec happ
  have top4 : ∀ k, cfgGet l1 k = cfgGet l3 k := fun k => cfgGet_of_top (s4.2 "config" (by decide)) k
  have hinnerv : cfgGet l "layer" = some inner0 := by
    simp [cfgGet, sub_ok hcfg, sub_ok hinner0]
  have hbl2 : cfgGet l2 "backward_layer" = cfgGet l "backward_layer" := s2.2.1 _ (by decide)
  -- the backward step, exactly
  have hback : cfgGet l3 "layer" = some inner0' ∧
      (∀ binner, cfgGet l "backward_layer" = some binner →
        ∃ binner', quantizeRnn (fun _ p => paramOf e p) F.actBits binner = .ok binner' ∧
          cfgGet l3 "backward_layer" = some binner') ∧
      (cfgGet l "backward_layer" = none → cfgGet l3 "backward_layer" = none) := by
    unfold bidirBackward at hl3
    obtain ⟨cfg2, hcfg2, hl3⟩ := bind_ok hl3
    have hcfg2' := sub_ok hcfg2
    cases cfg2 with
    | dict d =>
      simp only at hl3
      cases hbk : dget d "backward_layer" with
      | none =>
        simp only [hbk] at hl3
        cases hl3
        refine ⟨s2.1, fun binner hbi => ?_, fun _ => ?_⟩
        · rw [← hbl2] at hbi
          simp [cfgGet, hcfg2', hbk] at hbi
        · simp [cfgGet, hcfg2', hbk]
      | some binner0 =>
        simp only [hbk] at hl3
        obtain ⟨binner0', hb0, hl3⟩ := bind_ok hl3
        have s3 := setCfg_spec hl3
        have hsrc : cfgGet l "backward_layer" = some binner0 := by
          rw [← hbl2]
          simp [cfgGet, hcfg2', hbk]
        refine ⟨by rw [s3.2.1 _ (by decide)]; exact s2.1, fun binner hbi => ?_, fun hn => ?_⟩
        · rw [hsrc] at hbi
          cases hbi
          exact ⟨binner0', bidirInner_exact he hb0, s3.1⟩
        · rw [hsrc] at hn
          cases hn
    | none | bool _ | num _ _ | str _ | list _ =>
      all_goals
        simp only at hl3
        cases hl3
  refine ⟨?_, ?_, ?_⟩
  · intro inner hi
    rw [hinnerv] at hi
    cases hi
    exact ⟨inner0', bidirInner_exact he hinner0', by rw [efc, top4]; exact hback.1⟩
  · intro binner hbi
    obtain ⟨b', hb1, hb2⟩ := hback.2.1 binner hbi
    exact ⟨b', hb1, by rw [efc, top4]; exact hb2⟩
  · intro hn
    rw [efc, top4]
    exact hback.2.2 hn

/-- bias-less per direction: an explicit backward layer without bias gets no bias quantizer even
    when the entry names one (and the forward layer, having a bias, gets it) -/
theorem C12_bidirectional_backward_biasless (F : Flags) (qc : Dict) (st st' : Option String) (l l' : PyVal)
    (hcls : clsOf l = some (.str "Bidirectional")) (e kq : PyVal)
    (he : getConfig qc l "QBidirectional" none = .ok e)
    (hkq : paramOf e (some "kernel_quantizer") = .ok kq) (hne : kq ≠ .none)
    (h : step F qc st l = .ok (l', st'))
    (binner : PyVal) (bcn : String) (ub : PyVal) (hb : cfgGet l "backward_layer" = some binner)
    (hbc : clsOf binner = some (.str bcn)) (hub : cfgGet binner "use_bias" = some ub)
    (hf : truthy ub = false) :
    ∃ binner', cfgGet l' "backward_layer" = some binner' ∧ cfgGet binner' "bias_quantizer" = some .none := by
  obtain ⟨_, _, hback, _⟩ := C12_selected_bidirectional F qc st st' l l' hcls e kq he hkq hne h
  obtain ⟨b', hb1, hb2⟩ := hback binner bcn hb hbc
  obtain ⟨ub', hub', hfalse, _⟩ := hb2.bias
  rw [hub] at hub'
  cases hub'
  exact ⟨b', hb1, hfalse hf⟩

theorem bidirBranch_congr {F : Flags} {look₁ look₂ : Look} {st : Option String} {l : PyVal}
    (hl : ∀ p, look₁ "QBidirectional" p = look₂ "QBidirectional" p) :
    bidirBranch F look₁ st l = bidirBranch F look₂ st l := by
  simp only [bidirBranch, bidirApply, bidirBackward, bidirInner, bidirSide, hl]

/-- **Only the wrapper's own entry counts.**  Two dictionaries that give a Bidirectional wrapper
    the same entry (under its name, else under `QBidirectional`) convert it identically: entries
    under the names of the wrapped layers, `QLSTM` / `QGRU` / `QSimpleRNN` class entries and
    everything else in the dictionary have no influence on either direction. -/
theorem C12_bidirectional_entry_only (F : Flags) (qc₁ qc₂ : Dict) (st : Option String) (l e : PyVal)
    (hcls : clsOf l = some (.str "Bidirectional"))
    (h1 : getConfig qc₁ l "QBidirectional" none = .ok e)
    (h2 : getConfig qc₂ l "QBidirectional" none = .ok e) :
    step F qc₁ st l = step F qc₂ st l := by
  have hl : ∀ p, getConfig qc₁ l "QBidirectional" p = getConfig qc₂ l "QBidirectional" p := by
    intro p
    cases p with
    | none => rw [h1, h2]
    | some p => rw [getConfig_param h1, getConfig_param h2]
  have hc : sub l "class_name" = .ok (.str "Bidirectional") := sub_of_pget hcls
  unfold step stepCore branch
  cases hcfg : sub l "config" with
  | error e => rfl
  | ok c =>
    simp only [hc, bind, Except.bind,
      show ("Bidirectional" ∈ denseLike) = False by decide,
      show ("Bidirectional" = "DepthwiseConv2D") = False by decide,
      show ("Bidirectional" = "SeparableConv1D" ∨ "Bidirectional" = "SeparableConv2D") = False by decide,
      show ("Bidirectional" = "SimpleRNN" ∨ "Bidirectional" = "LSTM" ∨ "Bidirectional" = "GRU") = False by decide,
      if_false, if_true]
    rw [bidirBranch_congr hl]

/-- non-vacuity and regression witness for the two-direction theorems: forward `LSTM "fw"` with bias
    and `tanh`, explicit backward `GRU "bw"` without bias and with `relu`, selected by a
    `QBidirectional` class entry; the dictionary also has entries under `"bw"` and `QGRU`, which
    must be ignored.  Both directions are converted, each on its own terms. -/
def bidir2 : PyVal := .dict [("class_name", .str "Bidirectional"),
  ("config", .dict [("name", .str "bi"), ("merge_mode", .str "concat"),
    ("layer", .dict [("class_name", .str "LSTM"),
      ("config", .dict [("name", .str "fw"), ("units", .num 2 0), ("use_bias", .bool true),
        ("activation", .str "tanh"), ("go_backwards", .bool false)]), ("registered_name", .none)]),
    ("backward_layer", .dict [("class_name", .str "GRU"),
      ("config", .dict [("name", .str "bw"), ("units", .num 3 0), ("use_bias", .bool false),
        ("activation", .str "relu"), ("go_backwards", .bool true)]), ("registered_name", .none)])]),
  ("registered_name", .none), ("inbound_nodes", .list [])]
def qcBidir2 : Dict := [("QBidirectional", .dict [("kernel_quantizer", .str "quantized_bits(4,0,1)"),
    ("recurrent_quantizer", .str "quantized_bits(5,0,1)"), ("bias_quantizer", .str "quantized_bits(6,0,1)")]),
  ("bw", .dict [("kernel_quantizer", .str "ternary()")]),
  ("QGRU", .dict [("kernel_quantizer", .str "binary()")])]

def sideView (l : PyVal) (side : String) : Option (Option PyVal × Option PyVal × Option PyVal × Option PyVal ×
    Option PyVal × Option PyVal × Option PyVal) :=
  (cfgGet l side).map fun s => (clsOf s, nameOf s, cfgGet s "kernel_quantizer", cfgGet s "recurrent_quantizer",
    cfgGet s "bias_quantizer", cfgGet s "activation", cfgGet s "go_backwards")

theorem C12_bidirectional_backward_witness :
    (rewrite F0 qcBidir2 [bidir2]).toOption.map (fun ls => ls.map fun l =>
      (clsOf l, sideView l "layer", sideView l "backward_layer")) =
    some [(some (.str "QBidirectional"),
      some (some (.str "QLSTM"), some (.str "fw"), some (.str "quantized_bits(4,0,1)"),
        some (.str "quantized_bits(5,0,1)"), some (.str "quantized_bits(6,0,1)"),
        some (.str "quantized_tanh(4)"), some (.bool false)),
      some (some (.str "QGRU"), some (.str "bw"), some (.str "quantized_bits(4,0,1)"),
        some (.str "quantized_bits(5,0,1)"), some .none,
        some (.str "quantized_relu(4)"), some (.bool true)))] := by rfl

example : clsOf bidir2 = some (.str "Bidirectional") ∧
    getConfig qcBidir2 bidir2 "QBidirectional" none = .ok (.dict [("kernel_quantizer", .str "quantized_bits(4,0,1)"),
      ("recurrent_quantizer", .str "quantized_bits(5,0,1)"), ("bias_quantizer", .str "quantized_bits(6,0,1)")]) :=
  ⟨rfl, rfl⟩

/-! ## non-vacuity of the per-branch "selected" theorems: concrete layers meeting the hypotheses,
    and what the model returns on them -/

def pool0 : PyVal := .dict [("class_name", .str "AveragePooling2D"),
  ("config", .dict [("name", .str "p1"), ("pool_size", .list [.num 2 0, .num 2 0])]), ("registered_name", .none)]
def qcPool : Dict := [("QAveragePooling2D", .dict [("average_quantizer", .str "quantized_bits(4,0,1)"),
  ("activation_quantizer", .str "quantized_bits(8,0,1)")])]

example : clsOf pool0 = some (.str "AveragePooling2D") ∧
    getConfig qcPool pool0 ("Q" ++ "AveragePooling2D") (some "average_quantizer") = .ok (.str "quantized_bits(4,0,1)") ∧
    (rewrite F0 qcPool [pool0]).toOption.map (fun ls => ls.map fun l =>
      (clsOf l, cfgGet l "average_quantizer", cfgGet l "activation", cfgGet l "pool_size")) =
    some [(some (.str "QAveragePooling2D"), some (.str "quantized_bits(4,0,1)"), some (.str "quantized_bits(8,0,1)"),
           some (.list [.num 2 0, .num 2 0]))] := ⟨rfl, rfl, rfl⟩

def bn0 : PyVal := .dict [("class_name", .str "BatchNormalization"),
  ("config", .dict [("name", .str "bn"), ("momentum", .num 99 2), ("center", .bool true)]),
  ("registered_name", .none)]
def qcBn : Dict := [("QBatchNormalization", .dict [("gamma_quantizer", .str "quantized_po2(6)")])]

example : clsOf bn0 = some (.str "BatchNormalization") ∧ nameOf bn0 = some (.str "bn") ∧
    (dget qcBn "QBatchNormalization").isSome = true ∧
    (rewrite F0 qcBn [bn0]).toOption.map (fun ls => ls.map fun l =>
      (clsOf l, cfgGet l "gamma_quantizer", cfgGet l "beta_quantizer", cfgGet l "momentum")) =
    some [(some (.str "QBatchNormalization"), some (.str "quantized_po2(6)"), some .none, some (.num 99 2))] :=
  ⟨rfl, rfl, rfl, rfl⟩

def act0 : PyVal := .dict [("class_name", .str "Activation"),
  ("config", .dict [("name", .str "a1"), ("activation", .str "relu")]), ("registered_name", .none)]
def qcActMap : Dict := [("QActivation", .dict [("relu", .str "quantized_relu(6,2)")])]

example : clsOf act0 = some (.str "Activation") ∧
    getConfig [("a1", .str "quantized_relu(4)")] act0 "QActivation" none = .ok (.str "quantized_relu(4)") ∧
    getConfig qcActMap act0 "QActivation" none = .ok (.dict [("relu", .str "quantized_relu(6,2)")]) ∧
    cfgGet act0 "activation" = some (.str "relu") ∧
    (rewrite F0 qcActMap [act0]).toOption.map (fun ls => ls.map fun l => (clsOf l, cfgGet l "activation")) =
      some [(some (.str "QActivation"), some (.str "quantized_relu(6,2)"))] := ⟨rfl, rfl, rfl, rfl, rfl⟩

def lstm0 : PyVal := .dict [("class_name", .str "LSTM"),
  ("config", .dict [("name", .str "ls"), ("units", .num 2 0), ("use_bias", .bool true),
                    ("activation", .str "tanh")]), ("registered_name", .none)]
def qcRnn : Dict := [("QLSTM", .dict [("kernel_quantizer", .str "quantized_bits(4,0,1)"),
  ("recurrent_quantizer", .str "ternary()"), ("bias_quantizer", .str "quantized_bits(4)")])]

example : clsOf lstm0 = some (.str "LSTM") ∧
    getConfig qcRnn lstm0 ("Q" ++ "LSTM") (some "kernel_quantizer") = .ok (.str "quantized_bits(4,0,1)") ∧
    (rewrite F0 qcRnn [lstm0]).toOption.map (fun ls => ls.map fun l =>
      (clsOf l, cfgGet l "kernel_quantizer", cfgGet l "recurrent_quantizer", cfgGet l "bias_quantizer",
       cfgGet l "state_quantizer", cfgGet l "activation", cfgGet l "units")) =
    some [(some (.str "QLSTM"), some (.str "quantized_bits(4,0,1)"), some (.str "ternary()"),
           some (.str "quantized_bits(4)"), some .none, some (.str "quantized_tanh(4)"), some (.num 2 0))] :=
  ⟨rfl, rfl, rfl⟩

/-! ## defects repaired in the fix round: the former counterexamples as regression witnesses -/

def bidir : PyVal := .dict [("class_name", .str "Bidirectional"),
  ("config", .dict [("name", .str "bi"), ("layer", .dict [("class_name", .str "LSTM"),
      ("config", .dict [("name", .str "ls"), ("units", .num 2 0), ("use_bias", .bool true),
                        ("activation", .str "tanh")]), ("registered_name", .none)]),
    ("merge_mode", .str "concat")]), ("registered_name", .none)]

/-- Bidirectional (former finding C12-bidirectional-always-renamed, where the result was a
    `QBidirectional` around a plain `LSTM`): a wrapper that nothing selects is returned as it is —
    an instance of `C12_untouched_partial`, which no longer excludes Bidirectional. -/
theorem C12_bidirectional_fixed_witness :
    NotSelected [] bidir "Bidirectional" "bi" ∧ rewrite F0 [] [bidir] = .ok [bidir] ∧
    rewrite F0 qcBoth [bidir] = .ok [bidir] := by
  exact ⟨⟨rfl, rfl, rfl, by decide⟩, rfl, rfl⟩

/-- … while a wrapper selected by a `QBidirectional` entry is still converted, inner layer included -/
example : (rewrite F0 [("QBidirectional", .dict [("kernel_quantizer", .str "quantized_bits(4,0,1)"),
        ("recurrent_quantizer", .str "ternary()")])] [bidir]).toOption.map (fun ls => ls.map fun l =>
      (clsOf l, (cfgGet l "layer").bind clsOf, (cfgGet l "layer").bind (cfgGet · "kernel_quantizer"),
       (cfgGet l "layer").bind (cfgGet · "bias_quantizer"))) =
    some [(some (.str "QBidirectional"), some (.str "QLSTM"), some (.str "quantized_bits(4,0,1)"),
           some .none)] := by rfl

/-- hypotheses of `C12_selected_bidirectional` on the wrapper `bidir` (its conclusion on this wrapper is the
    `example` just above) -/
example : getConfig [("bi", .dict [("kernel_quantizer", .str "binary()")])] bidir "QBidirectional" none =
      .ok (.dict [("kernel_quantizer", .str "binary()")]) ∧
    paramOf (.dict [("kernel_quantizer", .str "binary()")]) (some "kernel_quantizer") = .ok (.str "binary()") :=
  ⟨rfl, rfl⟩

def custom : PyVal := .dict [("class_name", .str "Twice"), ("config", .dict [("name", .str "tw")]),
  ("registered_name", .str "qkv>Twice")]

/-- registered_name (former finding C12-registered-name-stale-qname, where the custom layer after a
    converted Dense came out with `registered_name = "QDense"` and the custom layer first raised
    `UnboundLocalError`): the registered name of an unselected custom layer survives in both
    orders, and the conversion of the Dense layer is not disturbed. -/
theorem C12_registered_fixed_witness :
    (rewrite F0 qcBoth [dense0, custom]).toOption.map (fun ls => ls.map fun l =>
        (clsOf l, pget l "registered_name")) =
      some [(some (.str "QDense"), none), (some (.str "Twice"), some (.str "qkv>Twice"))] ∧
    (rewrite F0 qcBoth [custom, dense0]).toOption.map (fun ls => ls.map fun l =>
        (clsOf l, pget l "registered_name")) =
      some [(some (.str "Twice"), some (.str "qkv>Twice")), (some (.str "QDense"), none)] ∧
    rewrite F0 [] [custom] = .ok [reRegistered custom] := by
  exact ⟨rfl, rfl, rfl⟩

/-- non-vacuity of the third disjunct of `C12_untouched_partial` -/
example : NotSelected qcBoth custom "Twice" "tw" ∧ truthy ((pget custom "registered_name").getD .none) = true :=
  ⟨⟨rfl, rfl, rfl, by decide⟩, rfl⟩

/-! ## the defect that is still recorded (mirrored by the model) -/

def conv0 : PyVal := .dict [("class_name", .str "Conv2D"),
  ("config", .dict [("name", .str "c1"), ("filters", .num 2 0), ("use_bias", .bool false),
                    ("activation", .str "linear")]), ("registered_name", .none), ("name", .str "c1")]
def Ffold : Flags := { actBits := "4", preferAdaptive := false, folding := true, toFold := ["c1"] }

/-- folding (finding C12-folding-unselected-conv): the layer is not selected and keeps its class,
    but its config has been given `use_bias = True`, `folding_mode`, `ema_freeze_delay`. -/
theorem C12_folding_unselected_counterexample :
    NotSelected [] conv0 "Conv2D" "c1" ∧
    (rewrite Ffold [] [conv0]).toOption.map (fun ls => ls.map fun l =>
        (clsOf l, cfgGet l "use_bias", cfgGet l "folding_mode", cfgGet l "ema_freeze_delay")) =
      some [(some (.str "Conv2D"), some (.bool true), some (.str "ema_stats_folding"), some .none)] := by
  exact ⟨⟨rfl, rfl, rfl, by decide⟩, rfl⟩

end QKV.Props.C12
