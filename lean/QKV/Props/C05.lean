import QKV.Model.AutoFx
namespace QKV.Props.C05
theorem C05_placeholder : (1 : Nat) = 1 := rfl
end QKV.Props.C05
