/-
  C05 — "When a fixed-point quantizer derives its scale from the data ('auto', 'auto_po2', or a frozen
  post-training scale), every output equals the scale it exposes after the call times an integer code of
  the declared width, the scale is one positive value per output channel, 'auto' maps the channel maximum
  to the top code without clipping it, and 'auto_po2' scales are exact powers of two within any configured
  exponent bounds. Finite inputs, including all-zero channels, give finite outputs, and for magnitudes
  well above the library's epsilon floor multiplying the input by a power of two multiplies the output by
  the same factor."

  Model: Model/AutoFx.lean — `quantized_bits.__call__` (alpha auto / auto_po2 / post_training_scale) and
  `quantized_linear` (_get_auto_quantization_scale, _get_quantization_scale_from_max_data, _po2_autoscale,
  _scale_clip_and_round) on tensors of any rank (Model/TensorQ.lean), for every float context `c : Fl`
  (rounding function, logarithm oracle, epsilon) unless a statement says `Fl.exact`.

  As coded (and therefore as stated):
   * exposed scale of quantized_bits = internal scale · 2^unsigned_bits; output = scale · (2^integer · z / 2^ub)
     with z the integer code, |z| ≤ levels/2 = 2^(bits-1) − 1 (keep_negative is not consulted);
   * an all-zero group under 'auto' has scale 0 (`C05_auto_zero_group_scale_counterexample`, finding):
     the zero-scale float path (0/0 = NaN, floor, NaN < L false, sign(0)·L/2 = 0) is modelled on `FV`
     and proved finite (`C05_finite`);
   * the returned value is x + stop_gradient(-x + xq): see C04_ste_exact / C05_ste_absorb_counterexample.
-/
import QKV.Lemmas.AutoFx
import QKV.Lemmas.TensorQ
import QKV.Model.AutoFxArg
namespace QKV.Props.C05
open QKV QKV.Tn QKV.BT QKV.AF

/-! ### finiteness on the zero-scale path -/

/-- for every finite input and every finite scale INCLUDING 0 (all-zero group under "auto": 0/0, and x/0)
    the IEEE evaluation of `sign(x)·where(floor(|x|/s + 0.5) < L/2, ·, L/2)` is a finite number -/
theorem C05_finite (c : Fl) (l2 s x : ℚ) : ∃ q : ℚ, zCodeFV c l2 s x = .fin q ∧ q = zCode c l2 s x :=
  ⟨_, zCodeFV_eq c l2 s x, rfl⟩

/-! ### output = exposed scale × integer code of the declared width -/

private theorem qbFinish_elt (c : Fl) (hc : c.SignPres) (cfg : QBCfg) (hb : 1 ≤ cfg.bits)
    (frozen : Option (List ℚ)) (x xs s : List ℚ) (hs : ∀ v ∈ s, 0 ≤ v) :
    ∀ e ∈ qbFinish c cfg frozen x xs s,
      e.y = c.r (e.scale * c.r (c.r (cfg.mi * e.z) / cfg.m)) ∧
      ∃ k : ℤ, e.z = (k : ℚ) ∧ |k| ≤ twoPow (cfg.bits - 1) - 1 := by
  intro e he
  unfold qbFinish at he
  obtain ⟨p, hp, rfl⟩ := List.mem_map.1 he
  refine ⟨rfl, ?_⟩
  have h1 : p.2.1 ∈ s := (List.of_mem_zip (List.of_mem_zip hp).2).1
  have hL : (0 : ℤ) ≤ twoPow (cfg.bits - 1) - 1 := by have := twoPow_pos' (cfg.bits - 1); omega
  have := zCode_int_bound c hc _ hL (hs _ h1) p.1.2
  rw [← l2_eq cfg hb] at this
  exact this

/-- every element of `quantized_bits(bits ≥ 1, integer, alpha="auto"|"auto_po2", scale_axis,
    elements_per_scale, min/max_po2_exponent, post_training_scale ≥ 0)(x)`, any rank and shape, any
    sign-preserving rounding: the value is `scale · (2^integer · z / 2^ub)` (each product rounded once by
    the float context) where `scale` is the exposed `q.scale` at that position and `z` is an INTEGER with
    `|z| ≤ 2^(bits-1) − 1` -/
theorem C05_code_times_scale (c : Fl) (hc : c.SignPres) (cfg : QBCfg) (hb : 1 ≤ cfg.bits)
    (pts : Option (List ℚ)) (hp : ∀ p, pts = some p → ∀ v ∈ p, 0 ≤ v) (shape : List ℕ) (x : List ℚ)
    (es : List QElt) (h : qbAuto c cfg pts shape x = .ok es) :
    ∀ e ∈ es, e.y = c.r (e.scale * c.r (c.r (cfg.mi * e.z) / cfg.m)) ∧
      ∃ k : ℤ, e.z = (k : ℚ) ∧ |k| ≤ twoPow (cfg.bits - 1) - 1 := by
  unfold qbAuto at h
  by_cases h0 : (!cfg.po2 && (cfg.grp.eps ≠ .none || cfg.minE.isSome || cfg.maxE.isSome)) = true
  · rw [if_pos h0] at h; cases h
  rw [if_neg h0] at h
  dsimp only at h
  cases pts with
  | some p =>
    simp only at h
    cases h
    apply qbFinish_elt c hc cfg hb
    intro v hv
    obtain ⟨w, hw, rfl⟩ := List.mem_map.1 hv
    exact hc _ (div_nonneg (hp p rfl w hw) (pow2_pos _).le)
  | none =>
    simp only at h
    by_cases hpo : (!cfg.po2) = true
    · rw [if_pos hpo] at h
      cases h
      exact qbFinish_elt c hc cfg hb _ _ _ _ (qbInitScale_nonneg c hc cfg hb _ _)
    · rw [if_neg hpo] at h
      cases hk : keys cfg.grp shape with
      | error e => simp [hk] at h
      | ok v =>
        obtain ⟨pk, ck⟩ := v
        simp only [hk] at h
        cases h
        apply qbFinish_elt c hc cfg hb
        intro v hv
        rw [show (5 : ℕ) = 4 + 1 from rfl, iter_succ] at hv
        exact (lsScales_po2_pos c _ _ _ _ _ _ _ v hv).le

/-- in exact arithmetic: `y = scale · z · step` with `step = 2^integer / 2^ub` the step of the format -/
theorem C05_code_times_scale_exact (eps : ℚ) (cfg : QBCfg) (hb : 1 ≤ cfg.bits)
    (pts : Option (List ℚ)) (hp : ∀ p, pts = some p → ∀ v ∈ p, 0 ≤ v) (shape : List ℕ) (x : List ℚ)
    (es : List QElt) (h : qbAuto (Fl.exact eps) cfg pts shape x = .ok es) :
    ∀ e ∈ es, e.y = e.scale * e.z * cfg.step ∧ ∃ k : ℤ, e.z = (k : ℚ) ∧ |k| ≤ twoPow (cfg.bits - 1) - 1 := by
  intro e he
  obtain ⟨h1, h2⟩ := C05_code_times_scale _ (Fl.exact_signPres eps) cfg hb pts hp shape x es h e he
  refine ⟨?_, h2⟩
  rw [h1]; unfold Fl.exact QBCfg.step; simp only; ring

/-! ### the scale: one value per group, positive, power of two -/

/-- 'auto': positions whose key of the max-reduction agrees share the initial (= final) internal scale -/
theorem C05_auto_scale_group_constant (c : Fl) (cfg : QBCfg) (mk : List (List ℕ)) (xs : List ℚ) (i j : ℕ)
    (hi : i < mk.length) (hj : j < mk.length) (h : mk[i] = mk[j]) :
    (qbInitScale c cfg mk xs)[i]'(by simp [qbInitScale, hi]) = (qbInitScale c cfg mk xs)[j]'(by simp [qbInitScale, hj]) := by
  simp [qbInitScale, h]

/-- 'auto_po2': after any refinement round, positions with the same consumer key share the scale (any rank ≥ 2) -/
theorem C05_po2_scale_group_constant (c : Fl) (cfg : QBCfg) (rank : ℕ) (hr : ¬ rank ≤ 1) (pk ck : List (List ℕ))
    (xs s : List ℚ) (i j : ℕ) (hi : i < ck.length) (hj : j < ck.length) (h : ck[i] = ck[j]) :
    (qbRound c cfg rank pk ck xs s)[i]'(by simp [qbRound, lsScales, hr, hi]) =
      (qbRound c cfg rank pk ck xs s)[j]'(by simp [qbRound, lsScales, hr, hj]) := by
  simp [qbRound, lsScales, hr, h]

/-- the grouping itself is C04's: producer key = consumer key without elements_per_scale, for every rank,
    scale_axis and data format (the reduced axes are the complement of the documented scale axes) -/
theorem C05_group_contains_self (g : Grp) (hg : g.eps = .none) (shape : List ℕ) (hr : ¬ shape.length ≤ 1)
    (pk ck : List (List ℕ)) (h : keys g shape = .ok (pk, ck)) : pk = ck := by
  unfold keys at h
  simp only [hr, if_false, hg] at h
  cases h
  apply List.map_congr_left
  intro i hi
  exact zeroAxes_eq_bcast shape _ i (List.mem_range.1 hi)

/-- 'auto_po2': after at least one refinement round (the code runs five) every internal scale is an exact
    power of two within `min_po2_exponent` / the effective `max_po2_exponent` — for EVERY rounding function
    and EVERY value of the float logarithm (band-robust); hence positive -/
theorem C05_po2_scale (c : Fl) (cfg : QBCfg) (rank : ℕ) (pk ck : List (List ℕ)) (xs s0 : List ℚ) (n : ℕ) :
    ∀ s ∈ iter (qbRound c cfg rank pk ck xs) (n + 1) s0, ∃ e : ℤ, s = pow2 e ∧ 0 < s ∧
      (∀ a, cfg.minE = some a → a ≤ e) ∧ (∀ b, effMax cfg.minE cfg.maxE = some b → e ≤ b) := by
  intro s hs
  rw [iter_succ] at hs
  obtain ⟨e, he, h1, h2⟩ := lsScales_po2_spec c _ _ _ _ _ _ _ s hs
  exact ⟨e, he, by rw [he]; exact pow2_pos e, h1, h2⟩

/-- … and the exposed scale `s · 2^ub` is then the power of two `2^(e + ub)` (exact arithmetic) -/
theorem C05_po2_exposed_scale (cfg : QBCfg) (e : ℤ) : pow2 e * cfg.m = pow2 (e + cfg.ub) := by
  unfold QBCfg.m; rw [pow2_add]

/-- 'auto', exact arithmetic, bits ≥ 2: the scale of a group is positive iff the group is not all-zero -/
theorem C05_auto_scale_pos_iff (cfg : QBCfg) (hb : 2 ≤ cfg.bits) (mx : ℚ) (hm : 0 ≤ mx) :
    0 < mx * 2 / (2 * cfg.l2) ↔ 0 < mx := by
  have hl : 0 < cfg.l2 := by
    rw [l2_eq cfg (by omega)]
    have : (2 : ℤ) ≤ twoPow (cfg.bits - 1) := by
      unfold twoPow
      have : 1 ≤ (cfg.bits - 1).toNat := by omega
      have := Nat.pow_le_pow_right (show 0 < 2 by norm_num) this
      exact_mod_cast this
    have : (0 : ℤ) < twoPow (cfg.bits - 1) - 1 := by omega
    exact_mod_cast this
  constructor
  · intro h
    rcases lt_or_eq_of_le hm with h1 | h1
    · exact h1
    · rw [← h1] at h; simp at h
  · intro h; positivity

/-- recorded finding: an all-zero group under alpha="auto" exposes the scale 0 (no epsilon floor, unlike
    quantized_linear), so "one positive value per channel" fails for pruned channels -/
theorem C05_auto_zero_group_scale_counterexample (eps : ℚ) (cfg : QBCfg) (hp : cfg.po2 = false)
    (mk : List (List ℕ)) (xs : List ℚ) (k : List ℕ) (hk : k ∈ mk)
    (hz : ∀ v ∈ groupOf mk (xs.map rabs) k, v = 0) :
    (0 : ℚ) ∈ qbInitScale (Fl.exact eps) cfg mk xs := by
  unfold qbInitScale
  refine List.mem_map.2 ⟨k, hk, ?_⟩
  simp [hp, maxL_zero hz, Fl.exact]

/-! ### 'auto': the maximum sits on the top code, nothing is clipped -/

/-- exact arithmetic, one group with maximum magnitude `M > 0`, scale `s = 2M/levels`:
    for every element `|x| ≤ M` the rounded magnitude `floor(|x|/s + 1/2)` is at most `L = levels/2`
    (the clip never bites), and an element of magnitude `M` gets the code `sign(x)·L` -/
theorem C05_auto_no_clip (eps : ℚ) (L : ℤ) (hL : 0 < L) {M : ℚ} (hM : 0 < M) (x : ℚ) (hx : |x| ≤ M) :
    let s := M * 2 / (2 * (L : ℚ))
    ((rabs x / s + 1 / 2).floor ≤ L) ∧ (|x| = M → zCode (Fl.exact eps) (L : ℚ) s x = sgn x * (L : ℚ)) := by
  intro s
  have hLq : (0 : ℚ) < (L : ℚ) := by exact_mod_cast hL
  have hs : 0 < s := by positivity
  have hq : rabs x / s = |x| * (L : ℚ) / M := by
    rw [rabs_eq_abs]; simp only [s]; field_simp
  have hle : rabs x / s ≤ (L : ℚ) := by
    rw [hq, div_le_iff₀ hM]; nlinarith [abs_nonneg x]
  constructor
  · obtain ⟨f1, _⟩ := floor_spec (rabs x / s + 1 / 2)
    have : (((rabs x / s + 1 / 2).floor : ℤ) : ℚ) < ((L + 1 : ℤ) : ℚ) := by push_cast; linarith
    have : (rabs x / s + 1 / 2).floor < L + 1 := by exact_mod_cast this
    omega
  · intro heq
    have hq' : rabs x / s = (L : ℚ) := by rw [hq, heq]; field_simp
    unfold zCode Fl.exact
    simp only [hs.ne', if_false, hq']
    have h2 : ((L : ℚ) + 1 / 2).floor = L := by
      obtain ⟨f1, f2⟩ := floor_spec ((L : ℚ) + 1 / 2)
      have a : (((L : ℚ) + 1 / 2).floor : ℚ) < ((L + 1 : ℤ) : ℚ) := by push_cast; linarith
      have b : ((L - 1 : ℤ) : ℚ) < (((L : ℚ) + 1 / 2).floor : ℚ) := by push_cast; linarith
      have a' : ((L : ℚ) + 1 / 2).floor < L + 1 := by exact_mod_cast a
      have b' : L - 1 < ((L : ℚ) + 1 / 2).floor := by exact_mod_cast b
      omega
    rw [h2]; simp

/-- the group maximum dominates every member and is 0 only for an all-zero group -/
theorem C05_group_max (l : List ℚ) : (∀ v ∈ l, v ≤ maxL l) ∧ 0 ≤ maxL l := ⟨fun _ h => le_maxL h, maxL_nonneg l⟩

/-! ### scale equivariance -/

/-- exact arithmetic: multiplying input and scale by the same positive factor leaves the code unchanged -/
theorem C05_code_scale_invariant (eps l2 : ℚ) {a : ℚ} (ha : 0 < a) (s x : ℚ) :
    zCode (Fl.exact eps) l2 (a * s) (a * x) = zCode (Fl.exact eps) l2 s x := by
  have hsg : sgn (a * x) = sgn x := by
    unfold sgn
    by_cases h1 : x < 0
    · have : a * x < 0 := by nlinarith
      simp [h1, this]
    · by_cases h2 : 0 < x
      · have : 0 < a * x := by positivity
        have h3 : ¬ a * x < 0 := by linarith
        simp [h1, h2, this, h3]
      · have : x = 0 := le_antisymm (not_lt.mp h2) (not_lt.mp h1)
        simp [this]
  have hab : rabs (a * x) = a * rabs x := by
    rw [rabs_eq_abs, rabs_eq_abs, abs_mul, abs_of_pos ha]
  unfold zCode Fl.exact
  simp only [hsg, hab]
  by_cases hs : s = 0
  · simp [hs]
  · have : a * s ≠ 0 := mul_ne_zero ha.ne' hs
    have hq : a * rabs x / (a * s) = rabs x / s := by field_simp
    simp only [hs, this, if_false, hq]

/-- 'auto' (no epsilon anywhere): the initial scale of a group scales with the data, for any factor `a > 0`;
    together with `C05_code_scale_invariant` the codes are unchanged and the output `scale·z·step` scales by `a`.
    Stated per group (`_partial`: not threaded through the list plumbing of `qbAuto`; for 'auto_po2' the
    epsilon inside `log(s + ε)` and `qq + ε` breaks exact equivariance near the floor and in the band). -/
theorem C05_equivariant_auto_partial (eps l2 : ℚ) {a : ℚ} (ha : 0 < a) (g : List ℚ) (x : ℚ) :
    let s := maxL (g.map rabs) * 2 / (2 * l2)
    let s' := maxL ((g.map (a * ·)).map rabs) * 2 / (2 * l2)
    s' = a * s ∧ zCode (Fl.exact eps) l2 s' (a * x) = zCode (Fl.exact eps) l2 s x := by
  intro s s'
  have h1 : (g.map (a * ·)).map rabs = (g.map rabs).map (a * ·) := by
    simp only [List.map_map]
    apply List.map_congr_left
    intro v _
    simp only [Function.comp]
    rw [rabs_eq_abs, rabs_eq_abs, abs_mul, abs_of_pos ha]
  have h2 : s' = a * s := by
    simp only [s, s', h1, maxL_mul _ _ ha]; ring
  exact ⟨h2, by rw [h2]; exact C05_code_scale_invariant eps l2 ha s x⟩

/-- the straight-through sum, as in C04: exact = identity; float = absorption when |x| dwarfs xq -/
theorem C05_ste_exact (eps x y : ℚ) : ste (Fl.exact eps) x y = y := by unfold ste Fl.exact; ring

theorem C05_ste_absorb_counterexample (c : Fl) (x y y' : ℚ) (hne : y' ≠ y) (habs : c.r (-x + y) = -x + y')
    (hr : c.r (x + (-x + y')) = y') : ste c x y ≠ y := by
  unfold ste; rw [habs, hr]; exact hne

/-! ### quantized_linear -/

private theorem qlLoop_pos (c : Fl) (cfg : QLCfg) (rank : ℕ) (pk ck : List (List ℕ)) (x : List ℚ) (n : ℕ) :
    ∀ last cur : List ℚ, (∀ v ∈ cur, 0 < v) → ∀ v ∈ qlLoop c cfg rank pk ck x n last cur, 0 < v := by
  induction n with
  | zero => intro last cur h; simpa [qlLoop] using h
  | succ n ih =>
    intro last cur h
    unfold qlLoop
    split_ifs
    · exact h
    · exact ih _ _ (lsScales_po2_pos c _ _ _ _ _ _ _)

/-- every element of `quantized_linear(alpha="auto"|"auto_po2")(x)`: value = code · quantization_scale
    (one float product), `q.scale = quantization_scale / data_type_scale`, the quantization scale is
    POSITIVE (floored at K.epsilon() > 0, or a power of two), and outside the 1-bit sign mode the code is
    an integer -/
theorem C05_linear_code_times_scale (c : Fl) (he : 0 < c.eps) (cfg : QLCfg) (shape : List ℕ) (x : List ℚ) :
    ∀ e ∈ qlAuto c cfg shape x,
      e.y = c.r (e.code * e.qs) ∧ e.scale = c.r (e.qs / cfg.dts) ∧ 0 < e.qs ∧
      (cfg.signFn = false → ∃ k : ℤ, e.code = (k : ℚ)) := by
  intro e hmem
  unfold qlAuto at hmem
  obtain ⟨p, hp, rfl⟩ := List.mem_map.1 hmem
  have hq := (List.of_mem_zip hp).2
  refine ⟨rfl, rfl, ?_, ?_⟩
  · -- positivity of every scale the procedure can return
    have h0 : ∀ v ∈ qlMaxScale c cfg (maxKeys (scalingAxis cfg.chLast cfg.sa shape.length) shape) x, 0 < v := by
      intro v hv
      unfold qlMaxScale at hv
      obtain ⟨k, _, rfl⟩ := List.mem_map.1 hv
      dsimp only
      split_ifs <;> first | exact he | (rename_i h1; exact lt_of_lt_of_le he (not_lt.mp h1))
    have hp0 : ∀ v ∈ (qlMaxScale c cfg (maxKeys (scalingAxis cfg.chLast cfg.sa shape.length) shape) x).map (po2Of c),
        0 < v := by
      intro v hv; obtain ⟨w, _, rfl⟩ := List.mem_map.1 hv; exact pow2_pos _
    dsimp only at hq
    by_cases hpo : (!cfg.po2) = true
    · rw [if_pos hpo] at hq; exact h0 _ hq
    · rw [if_neg hpo] at hq
      cases hk : keys { chLast := cfg.chLast, sa := cfg.sa, eps := EpsSpec.none } shape with
      | error e => simp only [hk] at hq; exact hp0 _ hq
      | ok v =>
        obtain ⟨pk, ck⟩ := v
        simp only [hk] at hq
        exact qlLoop_pos c cfg _ pk ck x _ _ _ hp0 _ hq
  · intro hsf
    unfold qlCode
    simp only [hsf, Bool.false_eq_true, if_false, add_zero]
    exact ⟨_, rfl⟩

/-- exact arithmetic: the code lies in `[clip_min, clip_max]` of `get_clip_bounds` (non-sign mode;
    `0 ≤ bits - keep_negative` always holds for constructible quantizers) -/
theorem C05_linear_code_range (eps : ℚ) (cfg : QLCfg) (hs : cfg.signFn = false) (hub : 0 ≤ cfg.ub) (qs x : ℚ) :
    cfg.clipMin ≤ qlCode (Fl.exact eps) cfg qs x ∧ qlCode (Fl.exact eps) cfg qs x ≤ cfg.clipMax := by
  unfold qlCode Fl.exact
  simp only [hs, Bool.false_eq_true, if_false, sub_zero, add_zero]
  have e1 : pow2 cfg.ub = ((twoPow cfg.ub : ℤ) : ℚ) := by
    unfold pow2 twoPow; rw [if_pos hub]; push_cast; ring
  have hM : cfg.clipMax = ((twoPow cfg.ub - 1 : ℤ) : ℚ) := by
    unfold QLCfg.clipMax; rw [hs, e1]; push_cast; simp
  obtain ⟨m, hm, hmle⟩ : ∃ m : ℤ, cfg.clipMin = (m : ℚ) ∧ m ≤ twoPow cfg.ub - 1 := by
    have hp := twoPow_pos' cfg.ub
    unfold QLCfg.clipMin; rw [hs, e1]
    simp only [Bool.false_eq_true, if_false]
    by_cases hk : cfg.keepNeg
    · by_cases hy : cfg.symmetric
      · exact ⟨-twoPow cfg.ub + 1, by simp [hk, hy], by omega⟩
      · exact ⟨-twoPow cfg.ub, by simp [hk, hy], by omega⟩
    · exact ⟨0, by simp [hk], by omega⟩
  rw [hM, hm]
  split_ifs with h1 h2
  · rw [roundTie_int]
    exact ⟨by exact_mod_cast hmle, le_refl _⟩
  · rw [roundTie_int]
    exact ⟨le_refl _, by exact_mod_cast hmle⟩
  · have a := roundTie_mono Tie.even (not_lt.mp h2)
    have b := roundTie_mono Tie.even (not_lt.mp h1)
    rw [roundTie_int] at a b
    exact ⟨by exact_mod_cast a, by exact_mod_cast b⟩

/-! ### no hidden state: one object, a history of calls

  The theorems above are about the FUNCTIONS `qbAuto` / `qlAuto` of (configuration, data format, tensor).
  The Python quantizers are mutable objects; `qbCall` / `qlCall` (Model/AutoFx.lean) model what a call reads
  from and writes to `self`.  The refinement proved here: in ANY history on one object — tensors of any
  ranks and shapes, the data format switched and public attributes re-assigned between calls — every call
  returns exactly what a fresh object carrying the attributes of the moment returns for that tensor alone,
  and a call changes no public attribute.  So every `C05_*` statement holds for the k-th use as for the first.
-/

/-- a call writes no public attribute, keeps `freeze_scale`, and a frozen object keeps its stored scale -/
theorem C05_call_keeps_attributes (c : Fl) (o : QBObj) (ch : Bool) (shape : List ℕ) (x : List ℚ) :
    (qbCall c o ch shape x).1.attrs = o.attrs ∧ (qbCall c o ch shape x).1.frozen = o.frozen ∧
    (o.frozen = true → (qbCall c o ch shape x).1.scale = o.scale) := by
  refine ⟨rfl, rfl, ?_⟩
  intro h; simp [qbCall, h]

/-- the result of a call IS the function `qbAuto` of the attributes, the data format and the tensor; the scale
    left behind by earlier calls is not an input (two objects that differ only in it give the same result),
    a frozen post-training scale is -/
theorem C05_call_ignores_stored_scale (c : Fl) (o o' : QBObj) (ha : o.attrs = o'.attrs)
    (hf : o.frozen = o'.frozen) (hs : o.frozen = true → o.scale = o'.scale) (ch : Bool) (shape : List ℕ)
    (x : List ℚ) :
    (qbCall c o ch shape x).2 = (qbCall c o' ch shape x).2 ∧
    (qbCall c o ch shape x).2 = qbAuto c (o.attrs.cfg ch) (o.pts shape) shape x := by
  refine ⟨?_, rfl⟩
  unfold qbCall QBObj.pts
  simp only [← ha, ← hf]
  cases h : o.frozen with
  | false => simp
  | true => simp [← hs h]

private theorem stored_after (c : Fl) (o : QBObj) (ch : Bool) (shape : List ℕ) (x : List ℚ) :
    (if (qbCall c o ch shape x).1.frozen then (qbCall c o ch shape x).1.scale else none) =
      (if o.frozen then o.scale else none) := by
  unfold qbCall
  cases h : o.frozen <;> simp

/-- ANY history on one object (ranks, shapes, data formats, re-assigned attributes): the list of results is
    the list of results of fresh objects called once each, the attributes after every call are the assigned
    ones, the frozen flag and a frozen scale never change -/
theorem C05_history_fresh (c : Fl) (steps : List QBStep) : ∀ o : QBObj,
    (qbRun c o steps).map (·.2) = qbFresh c o.frozen (if o.frozen then o.scale else none) o.attrs steps ∧
    (qbRun c o steps).map (·.1.attrs) = qbAttrsAfter o.attrs steps ∧
    ∀ r ∈ qbRun c o steps, r.1.frozen = o.frozen ∧ (o.frozen = true → r.1.scale = o.scale) := by
  induction steps with
  | nil => intro o; simp [qbRun, qbFresh, qbAttrsAfter]
  | cons s t ih =>
    intro o
    obtain ⟨h1, h2, h3⟩ := ih (qbCall c (o.reconf s.set) s.chLast s.shape s.x).1
    have hst := stored_after c (o.reconf s.set) s.chLast s.shape s.x
    have hk := C05_call_keeps_attributes c (o.reconf s.set) s.chLast s.shape s.x
    refine ⟨?_, ?_, ?_⟩
    · simp only [qbRun, List.map_cons, qbFresh]
      rw [h1, hst, hk.1, hk.2.1]
      refine congrArg₂ _ ?_ rfl
      refine (C05_call_ignores_stored_scale c (o.reconf s.set)
        { attrs := s.set.getD o.attrs, frozen := o.frozen, scale := if o.frozen then o.scale else none }
        rfl rfl ?_ _ _ _).1
      intro hf
      simp only [QBObj.reconf] at hf ⊢
      simp [hf]
    · simp only [qbRun, List.map_cons, qbAttrsAfter]
      rw [h2, hk.1]; rfl
    · intro r hr
      simp only [qbRun, List.mem_cons] at hr
      rcases hr with rfl | hr
      · exact ⟨hk.2.1, fun hf => hk.2.2 hf⟩
      · obtain ⟨a, b⟩ := h3 r hr
        refine ⟨a.trans hk.2.1, fun hf => ?_⟩
        have hf' : (qbCall c (o.reconf s.set) s.chLast s.shape s.x).1.frozen = true := hk.2.1.trans hf
        exact (b hf').trans (hk.2.2 hf)

/-- the k-th call of a history without re-assignments equals the FIRST call of a fresh object on that tensor -/
theorem C05_kth_call_eq_first_call (c : Fl) (o : QBObj) (pre : List QBStep) (hpre : ∀ t ∈ pre, t.set = none)
    (s : QBStep) (hs : s.set = none) :
    ((qbRun c o (pre ++ [s])).map (·.2)).getLast? =
      some (qbCall c { attrs := o.attrs, frozen := o.frozen, scale := if o.frozen then o.scale else none }
        s.chLast s.shape s.x).2 := by
  rw [(C05_history_fresh c (pre ++ [s]) o).1]
  generalize (if o.frozen then o.scale else none) = st
  generalize o.attrs = a
  generalize o.frozen = f
  induction pre with
  | nil => simp [qbFresh, hs]
  | cons p t ih =>
    have hp : p.set = none := hpre p (by simp)
    have := ih (fun u hu => hpre u (by simp [hu]))
    simp only [List.cons_append, qbFresh, hp, Option.getD_none]
    rw [List.getLast?_cons_of_ne_nil]
    · exact this
    · cases t <;> simp [qbFresh]

/-- quantized_linear: a call writes no public attribute, and its result is `qlAuto` — the stored
    `quantization_scale` of earlier calls is overwritten, never read (no warm start) -/
theorem C05_linear_call_stateless (c : Fl) (o : QLObj) (ch : Bool) (shape : List ℕ) (x : List ℚ) :
    (qlCall c o ch shape x).1.attrs = o.attrs ∧ (qlCall c o ch shape x).2 = qlAuto c (o.attrs.cfg ch) shape x :=
  ⟨rfl, rfl⟩

/-- quantized_linear, any history on one object = fresh objects (whatever scale `qs0` they start with) called
    once each; attributes after every call are the assigned ones -/
theorem C05_linear_history_fresh (c : Fl) (qs0 : Stored) (steps : List QLStep) : ∀ o : QLObj,
    (qlRun c o steps).map (·.2) = qlFresh c qs0 o.attrs steps ∧
    (qlRun c o steps).map (·.1.attrs) = qlAttrsAfter o.attrs steps := by
  induction steps with
  | nil => intro o; simp [qlRun, qlFresh, qlAttrsAfter]
  | cons s t ih =>
    intro o
    obtain ⟨h1, h2⟩ := ih (qlCall c (o.reconf s.set) s.chLast s.shape s.x).1
    refine ⟨?_, ?_⟩
    · simp only [qlRun, List.map_cons, qlFresh]
      rw [h1]; rfl
    · simp only [qlRun, List.map_cons, qlAttrsAfter]
      rw [h2]; rfl

/-! ### the consumer does not write the quantizer: exports inside a history

  `model_save_quantized_weights` (the anchored consumer) reaches a weight quantizer with the layer weight,
  calls it once and reads `bits`, `keep_negative`, `integer`, `alpha` and `scale`.  `qbExport` (Model/AutoFx.lean)
  models that step, `qbRunEv` histories of calls AND exports on one object.  Frame statements: for the object an
  export is exactly its one call — a frozen object comes out of it IDENTICAL (scale, attributes, flag), a live one
  with the scale of the exported weight — so every observation made after an export (the exposed scale, the next
  call, the scale against earlier outputs) is the observation of a history of plain calls, to which
  `C05_history_fresh` and every `C05_*` clause theorem apply.
-/

/-- for the quantizer object an export is exactly the one call it makes (same object afterwards, same result) -/
theorem C05_export_is_one_call (c : Fl) (o : QBObj) (ch : Bool) (shape : List ℕ) (w : List ℚ) :
    (qbExport c o ch shape w).1 = (qbCall c o ch shape w).1 ∧
    (qbExport c o ch shape w).2.1 = (qbCall c o ch shape w).2 := ⟨rfl, rfl⟩

/-- a frozen object (post-training scale) leaves a call and an export IDENTICAL: scale, every attribute, the flag -/
theorem C05_export_keeps_frozen_object (c : Fl) (o : QBObj) (hf : o.frozen = true) (ch : Bool) (shape : List ℕ)
    (w : List ℚ) :
    (qbCall c o ch shape w).1 = o ∧ (qbExport c o ch shape w).1 = o := by
  have h : (qbCall c o ch shape w).1 = o := by
    cases o with
    | mk a f sc =>
      simp only at hf
      subst hf
      simp [qbCall]
  exact ⟨h, h⟩

/-- an export writes no public attribute and never unfreezes -/
theorem C05_export_keeps_attributes (c : Fl) (o : QBObj) (ch : Bool) (shape : List ℕ) (w : List ℚ) :
    (qbExport c o ch shape w).1.attrs = o.attrs ∧ (qbExport c o ch shape w).1.frozen = o.frozen ∧
    (o.frozen = true → (qbExport c o ch shape w).1.scale = o.scale) :=
  C05_call_keeps_attributes c o ch shape w

/-- the scales entry the export returns is computed from the scale the object exposes AFTER the call
    (`scale·m_i/m`, a new list), the hardware weight from the returned weight (`weight·m/m_i`), and the
    returned weight is the quantizer's output -/
theorem C05_export_reads_exposed_scale (c : Fl) (o : QBObj) (ch : Bool) (shape : List ℕ) (w : List ℚ)
    (hp : o.attrs.po2 = true) (es : List QElt) (hr : (qbCall c o ch shape w).2 = .ok es) (t : Stored)
    (ht : (qbCall c o ch shape w).1.scale = some t) :
    (qbExport c o ch shape w).2.2 = some
      { weight := es.map fun e => ste c e.x e.y,
        hw := (es.map fun e => ste c e.x e.y).map fun v =>
          c.r (c.r (v * (o.attrs.cfg ch).m) / (o.attrs.cfg ch).mi),
        scales := some ((bcastTo t shape).map fun s => c.r (c.r (s * (o.attrs.cfg ch).mi) / (o.attrs.cfg ch).m)) } := by
  simp only [qbExport]
  rw [hr]
  simp only [hp, if_true]
  rw [ht]

/-- a history of calls and exports, seen from the object: the history of plain calls on the same tensors -/
theorem C05_events_are_calls (c : Fl) (evs : List QBEvent) : ∀ o : QBObj,
    (qbRunEv c o evs).map (fun r => (r.1, r.2.1)) = qbRun c o (evs.map QBEvent.step) := by
  induction evs with
  | nil => intro o; simp [qbRunEv, qbRun]
  | cons e t ih =>
    intro o
    cases e with
    | call s => simp only [qbRunEv, List.map_cons, qbRun, QBEvent.step, ih]
    | save s =>
      simp only [qbRunEv, List.map_cons, qbRun, QBEvent.step, ih]
      rfl

/-- ANY history of calls and exports on one object (ranks, shapes, data formats, re-assigned attributes): every
    result (the direct calls and the calls the exports make) is the result of a fresh object called once on that
    tensor, the attributes after every event are the assigned ones, the frozen flag and a frozen scale never
    change — observations after an export are those of a fresh object -/
theorem C05_event_history_fresh (c : Fl) (evs : List QBEvent) (o : QBObj) :
    (qbRunEv c o evs).map (fun r => r.2.1) =
      qbFresh c o.frozen (if o.frozen then o.scale else none) o.attrs (evs.map QBEvent.step) ∧
    (qbRunEv c o evs).map (fun r => r.1.attrs) = qbAttrsAfter o.attrs (evs.map QBEvent.step) ∧
    ∀ r ∈ qbRunEv c o evs, r.1.frozen = o.frozen ∧ (o.frozen = true → r.1.scale = o.scale) := by
  have hp := C05_events_are_calls c evs o
  obtain ⟨h1, h2, h3⟩ := C05_history_fresh c (evs.map QBEvent.step) o
  refine ⟨?_, ?_, ?_⟩
  · rw [← h1, ← hp]; simp [List.map_map, Function.comp_def]
  · rw [← h2, ← hp]; simp [List.map_map, Function.comp_def]
  · intro r hr
    have : (r.1, r.2.1) ∈ qbRun c o (evs.map QBEvent.step) := by
      rw [← hp]; exact List.mem_map.mpr ⟨r, hr, rfl⟩
    exact h3 _ this

/-- a frozen object whose attributes are not re-assigned is the SAME object after every event of any history of
    calls and exports: `q.scale` read at any later time is the configured post-training scale -/
theorem C05_frozen_object_constant (c : Fl) (evs : List QBEvent) (hset : ∀ e ∈ evs, e.step.set = none) :
    ∀ o : QBObj, o.frozen = true → ∀ r ∈ qbRunEv c o evs, r.1 = o := by
  induction evs with
  | nil => intro o _ r hr; simp [qbRunEv] at hr
  | cons e t ih =>
    intro o hf r hr
    have he : e.step.set = none := hset e (by simp)
    have ht : ∀ e' ∈ t, e'.step.set = none := fun e' h' => hset e' (by simp [h'])
    cases e with
    | call s =>
      simp only [QBEvent.step] at he
      have hk : (qbCall c (o.reconf s.set) s.chLast s.shape s.x).1 = o := by
        rw [he]; exact (C05_export_keeps_frozen_object c _ hf _ _ _).1
      simp only [qbRunEv, List.mem_cons] at hr
      rcases hr with rfl | hr
      · exact hk
      · rw [hk] at hr; exact ih ht o hf r hr
    | save s =>
      simp only [QBEvent.step] at he
      have hk : (qbExport c (o.reconf s.set) s.chLast s.shape s.x).1 = o := by
        rw [he]; exact (C05_export_keeps_frozen_object c _ hf _ _ _).2
      simp only [qbRunEv, List.mem_cons] at hr
      rcases hr with rfl | hr
      · exact hk
      · rw [hk] at hr; exact ih ht o hf r hr

/-- quantized_linear as a weight quantizer: for the object the export is its one call (no attribute written,
    result = `qlAuto` of the weight) -/
theorem C05_linear_export_is_one_call (c : Fl) (o : QLObj) (ch : Bool) (shape : List ℕ) (w : List ℚ) :
    (qlExport c o ch shape w).1.attrs = o.attrs ∧ (qlExport c o ch shape w).2 = qlAuto c (o.attrs.cfg ch) shape w :=
  ⟨rfl, rfl⟩

/-! ### the ARGUMENT level of `scale_axis`: axes counted from the end (strengthening round, seed C05-12)

  `QBAttrs.sa` / `QLAttrs.sa` above are RESOLVED axes (naturals).  The objects hold what the user passed — ints that
  may be negative, "counted from the end" — and every call resolves it against the rank of ITS tensor
  (`qbAxis` / `qlAxis`, Model/AutoFxArg.lean: `_normalize_scale_axis` at the head of `_get_scaling_axis` and of
  `_get_scale_mean`).  Proved here: what a call makes of the argument depends only on the NORMALISED axes, the
  normalisation of a valid axis is `a mod rank`, so `k - rank` and `k` give the same call (ints, lists, mixed lists,
  with and without `elements_per_scale`, both classes); a resolvable call IS `qbAuto` / `qlAuto` of the resolved
  attributes, so every clause theorem above holds at the argument level; the argument is never written back, and
  any history (rank changing between calls, axes re-assigned) equals fresh objects called once each.
-/

/-- `_normalize_scale_axis` on a valid axis (`-rank ≤ a < rank`) is the numpy convention `a mod rank`: a valid index -/
theorem C05_norm_axis_mod (len : ℕ) (a : ℤ) (h1 : -(len : ℤ) ≤ a) (h2 : a < len) :
    normAxis len a = a % (len : ℤ) ∧ 0 ≤ normAxis len a ∧ normAxis len a < len := by
  unfold normAxis
  split_ifs with h
  · refine ⟨?_, by omega, by omega⟩
    have e : (a + (len : ℤ)) % (len : ℤ) = a % (len : ℤ) := by simp
    rw [← e, Int.emod_eq_of_lt (by omega) (by omega)]
  · exact ⟨(Int.emod_eq_of_lt (by omega) h2).symm, by omega, h2⟩

/-- the axis `k` counted from the end (`k - rank`) normalises to `k`, and so does `k` itself -/
theorem C05_norm_from_end (len k : ℕ) (hk : k < len) :
    normAxis len ((k : ℤ) - len) = k ∧ normAxis len (k : ℤ) = k := by
  unfold normAxis
  constructor
  · rw [if_pos (by omega)]; omega
  · rw [if_neg (by omega)]

private theorem axisOfArg_many_norm (len : ℕ) (l l' : List ℤ) (h : l.map (normAxis len) = l'.map (normAxis len)) :
    axisOfArg len (.many l) = axisOfArg len (.many l') ∧
    AxisArg.inRange len (.many l) = AxisArg.inRange len (.many l') := by
  have e : ∀ t : List ℤ,
      t.filterMap (fun a => if normAxis len a < 0 then Option.none else some (normAxis len a).toNat)
        = (t.map (normAxis len)).filterMap (fun b => if b < 0 then Option.none else some b.toNat) := by
    intro t; rw [List.filterMap_map]; rfl
  have e2 : ∀ t : List ℤ, (t.all fun a => decide (0 ≤ normAxis len a))
        = (t.map (normAxis len)).all (fun b => decide (0 ≤ b)) := by
    intro t; rw [List.all_map]; rfl
  constructor
  · simp only [axisOfArg]; rw [e l, e l', h]
  · simp only [AxisArg.inRange]; rw [e2 l, e2 l', h]

/-- what a call makes of a LIST `scale_axis` depends only on the normalised axes: two lists whose entries normalise
    to the same axes (any mix of from-the-start / from-the-end spellings) are the same argument, for both classes,
    with and without `elements_per_scale` -/
theorem C05_axis_list_depends_on_normalised (len : ℕ) (l l' : List ℤ)
    (h : l.map (normAxis len) = l'.map (normAxis len)) (eps : EpsSpec) :
    qbAxis len (.many l) eps = qbAxis len (.many l') eps ∧ qlAxis len (.many l) = qlAxis len (.many l') := by
  obtain ⟨h1, h2⟩ := axisOfArg_many_norm len l l' h
  exact ⟨by simp only [qbAxis, h1, h2], h1⟩

/-- the same for an INT `scale_axis` -/
theorem C05_axis_int_depends_on_normalised (len : ℕ) (a a' : ℤ) (h : normAxis len a = normAxis len a')
    (eps : EpsSpec) :
    qbAxis len (.one a) eps = qbAxis len (.one a') eps ∧ qlAxis len (.one a) = qlAxis len (.one a') := by
  have h1 : axisOfArg len (.one a) = axisOfArg len (.one a') := by simp only [axisOfArg, h]
  have h2 : AxisArg.inRange len (.one a) = AxisArg.inRange len (.one a') := by simp only [AxisArg.inRange, h]
  exact ⟨by simp only [qbAxis, h1, h2], h1⟩

/-- an int axis counted from the end IS the axis counted from the start: both resolve to `.one k` (quantized_linear
    at every rank, quantized_bits at rank > 1 — at rank ≤ 1 it is not consulted at all) -/
theorem C05_axis_from_end (len k : ℕ) (hk : k < len) (eps : EpsSpec) :
    qlAxis len (.one ((k : ℤ) - len)) = .ok (.one k) ∧ qlAxis len (.one (k : ℤ)) = .ok (.one k) ∧
    qbAxis len (.one ((k : ℤ) - len)) eps = qbAxis len (.one (k : ℤ)) eps ∧
    (¬ len ≤ 1 → qbAxis len (.one ((k : ℤ) - len)) eps = .ok (.one k)) := by
  obtain ⟨n1, n2⟩ := C05_norm_from_end len k hk
  have q1 : qlAxis len (.one ((k : ℤ) - len)) = .ok (.one k) := by
    simp only [qlAxis, axisOfArg, n1]; rw [if_neg (by omega)]; simp
  have q2 : qlAxis len (.one (k : ℤ)) = .ok (.one k) := by
    simp only [qlAxis, axisOfArg, n2]; rw [if_neg (by omega)]; simp
  refine ⟨q1, q2, (C05_axis_int_depends_on_normalised len _ _ (n1.trans n2.symm) eps).1, ?_⟩
  intro hr
  have hin : AxisArg.inRange len (.one ((k : ℤ) - len)) = true := by
    simp only [AxisArg.inRange, n1]; simp
  unfold qlAxis at q1
  simp only [qbAxis, hr, if_false, q1, hin, if_true]
  cases eps <;> rfl

/-- a list of valid axes in ANY spelling (every entry `k` or `k - rank`) resolves to the list of the axes themselves -/
theorem C05_axes_from_end (len : ℕ) (ks : List ℕ) (hks : ∀ k ∈ ks, k < len) (fromEnd : ℕ → Bool) :
    qlAxis len (.many (ks.map fun k => if fromEnd k then (k : ℤ) - len else (k : ℤ))) = .ok (.many ks) ∧
    ∀ eps, qbAxis len (.many (ks.map fun k => if fromEnd k then (k : ℤ) - len else (k : ℤ))) eps
      = qbAxis len (.many (ks.map fun k : ℕ => (k : ℤ))) eps := by
  have hn : (ks.map fun k => if fromEnd k then (k : ℤ) - len else (k : ℤ)).map (normAxis len)
      = (ks.map fun k : ℕ => (k : ℤ)).map (normAxis len) := by
    simp only [List.map_map]
    apply List.map_congr_left
    intro k hk
    obtain ⟨n1, n2⟩ := C05_norm_from_end len k (hks k hk)
    simp only [Function.comp]
    split_ifs
    · rw [n1, n2]
    · rfl
  refine ⟨?_, fun eps => (C05_axis_list_depends_on_normalised len _ _ hn eps).1⟩
  rw [(C05_axis_list_depends_on_normalised len _ _ hn .none).2]
  simp only [qlAxis, axisOfArg]
  congr 2
  clear hn
  induction ks with
  | nil => rfl
  | cons k t ih =>
    have n2 := (C05_norm_from_end len k (hks k (by simp))).2
    simp only [List.map_cons, List.filterMap_cons, n2]
    rw [if_neg (by omega)]
    try simp only [Int.toNat_natCast]
    rw [ih (fun j hj => hks j (by simp [hj]))]

/-- ONE scale per index of the scale axis: with the axis `k` (in either spelling) every other axis of the tensor is
    reduced and `k` is not — the reduced axes never depend on the spelling -/
theorem C05_from_end_reduced_axes (chLast : Bool) (len k : ℕ) (hk : k < len) (i : ℕ) :
    i ∈ scalingAxis chLast (.one k) len ↔ (i < len ∧ i ≠ k) := by
  simp only [scalingAxis, List.mem_append, List.mem_range, List.mem_filter, decide_eq_true_eq]
  omega

/-- a resolvable call at the argument level IS `qbAuto` of the resolved attributes (so `C05_code_times_scale`,
    `C05_po2_scale`, `C05_auto_no_clip`, … apply to it), and it writes nothing back: the ARGUMENT stays on the object
    (a negative axis stays negative), the frozen flag and a frozen scale are kept -/
theorem C05_arg_call_is_auto (c : Fl) (o : QBArgObj) (ch : Bool) (shape : List ℕ) (x : List ℚ) (a : QBAttrs)
    (ha : o.attrs.resolve shape.length = .ok a) :
    (qbArgCall c o ch shape x).2 =
      qbAuto c (a.cfg ch) ((⟨a, o.frozen, o.scale⟩ : QBObj).pts shape) shape x ∧
    (qbArgCall c o ch shape x).1.attrs = o.attrs ∧ (qbArgCall c o ch shape x).1.frozen = o.frozen ∧
    (o.frozen = true → (qbArgCall c o ch shape x).1.scale = o.scale) := by
  have e : qbArgCall c o ch shape x =
      ({ o with scale := (qbCall c ⟨a, o.frozen, o.scale⟩ ch shape x).1.scale },
        (qbCall c ⟨a, o.frozen, o.scale⟩ ch shape x).2) := by
    simp only [qbArgCall, ha]
  rw [e]
  exact ⟨rfl, rfl, rfl, fun h => (C05_call_keeps_attributes c ⟨a, o.frozen, o.scale⟩ ch shape x).2.2 h⟩

/-- an axis that is no axis of the tensor (an int below `-rank`): the call raises and leaves the object as it was -/
theorem C05_arg_call_unresolvable (c : Fl) (o : QBArgObj) (ch : Bool) (shape : List ℕ) (x : List ℚ) (e : Err)
    (ha : o.attrs.resolve shape.length = .error e) : qbArgCall c o ch shape x = (o, .error e) := by
  simp only [qbArgCall, ha]

/-- the call depends on the argument attributes only through their resolution at the rank of the tensor (and on
    the frozen flag / scale as before) -/
theorem C05_arg_call_congr (c : Fl) (o o' : QBArgObj) (ch : Bool) (shape : List ℕ) (x : List ℚ)
    (hr : o.attrs.resolve shape.length = o'.attrs.resolve shape.length) (hf : o.frozen = o'.frozen)
    (hs : o.scale = o'.scale) :
    (qbArgCall c o ch shape x).2 = (qbArgCall c o' ch shape x).2 ∧
    (qbArgCall c o ch shape x).1.scale = (qbArgCall c o' ch shape x).1.scale := by
  cases o with
  | mk a1 f1 s1 =>
    cases o' with
    | mk a2 f2 s2 =>
      simp only at hr hf hs
      subst hf; subst hs
      unfold qbArgCall
      simp only [hr]
      cases QBArgAttrs.resolve a2 shape.length <;> exact ⟨rfl, rfl⟩

/-- THE family statement: `quantized_bits(..., scale_axis = k - rank)` and `quantized_bits(..., scale_axis = k)` are
    the same function of the tensor (output, exposed scale), whatever the other options, frozen or not -/
theorem C05_negative_axis_is_axis_from_end (c : Fl) (a : QBArgAttrs) (frozen : Bool) (sc : Option Stored)
    (ch : Bool) (shape : List ℕ) (x : List ℚ) (k : ℕ) (hk : k < shape.length) :
    (qbArgCall c ⟨{ a with sa := .one ((k : ℤ) - shape.length) }, frozen, sc⟩ ch shape x).2 =
      (qbArgCall c ⟨{ a with sa := .one (k : ℤ) }, frozen, sc⟩ ch shape x).2 ∧
    (qbArgCall c ⟨{ a with sa := .one ((k : ℤ) - shape.length) }, frozen, sc⟩ ch shape x).1.scale =
      (qbArgCall c ⟨{ a with sa := .one (k : ℤ) }, frozen, sc⟩ ch shape x).1.scale := by
  refine C05_arg_call_congr c ⟨_, frozen, sc⟩ ⟨_, frozen, sc⟩ ch shape x ?_ rfl rfl
  simp only [QBArgAttrs.resolve, (C05_axis_from_end shape.length k hk a.eps).2.2.1]

/-- the same for lists in any spelling -/
theorem C05_negative_axes_are_axes_from_end (c : Fl) (a : QBArgAttrs) (frozen : Bool) (sc : Option Stored)
    (ch : Bool) (shape : List ℕ) (x : List ℚ) (ks : List ℕ) (hks : ∀ k ∈ ks, k < shape.length)
    (fromEnd : ℕ → Bool) :
    (qbArgCall c ⟨{ a with sa := .many (ks.map fun k => if fromEnd k then (k : ℤ) - shape.length else (k : ℤ)) },
        frozen, sc⟩ ch shape x).2 =
      (qbArgCall c ⟨{ a with sa := .many (ks.map fun k : ℕ => (k : ℤ)) }, frozen, sc⟩ ch shape x).2 := by
  have hr : QBArgAttrs.resolve
        { a with sa := .many (ks.map fun k => if fromEnd k then (k : ℤ) - shape.length else (k : ℤ)) } shape.length
      = QBArgAttrs.resolve { a with sa := .many (ks.map fun k : ℕ => (k : ℤ)) } shape.length := by
    simp only [QBArgAttrs.resolve, (C05_axes_from_end shape.length ks hks fromEnd).2 a.eps]
  exact (C05_arg_call_congr c ⟨_, frozen, sc⟩ ⟨_, frozen, sc⟩ ch shape x hr rfl rfl).1

private theorem arg_call_fresh (c : Fl) (o : QBArgObj) (ch : Bool) (shape : List ℕ) (x : List ℚ) :
    (qbArgCall c o ch shape x).2 =
      (qbArgCall c { attrs := o.attrs, frozen := o.frozen, scale := if o.frozen then o.scale else none } ch shape x).2 := by
  simp only [qbArgCall]
  cases h : o.attrs.resolve shape.length with
  | error e => rfl
  | ok a =>
    simp only
    refine (C05_call_ignores_stored_scale c ⟨a, o.frozen, o.scale⟩
      ⟨a, o.frozen, if o.frozen then o.scale else none⟩ rfl rfl ?_ ch shape x).1
    intro hf
    simp only at hf
    simp [hf]

private theorem arg_call_frame (c : Fl) (o : QBArgObj) (ch : Bool) (shape : List ℕ) (x : List ℚ) :
    (qbArgCall c o ch shape x).1.attrs = o.attrs ∧ (qbArgCall c o ch shape x).1.frozen = o.frozen ∧
    (o.frozen = true → (qbArgCall c o ch shape x).1.scale = o.scale) := by
  cases h : o.attrs.resolve shape.length with
  | error e => rw [C05_arg_call_unresolvable c o ch shape x e h]; exact ⟨rfl, rfl, fun _ => rfl⟩
  | ok a => exact (C05_arg_call_is_auto c o ch shape x a h).2

private theorem arg_export_is_call (c : Fl) (o : QBArgObj) (ch : Bool) (shape : List ℕ) (w : List ℚ) :
    (qbArgExport c o ch shape w).1 = (qbArgCall c o ch shape w).1 ∧
    (qbArgExport c o ch shape w).2.1 = (qbArgCall c o ch shape w).2 := by
  simp only [qbArgExport, qbArgCall]
  cases o.attrs.resolve shape.length with
  | error e => exact ⟨rfl, rfl⟩
  | ok a => exact ⟨rfl, rfl⟩

/-- ANY history of calls and exports on one object at the argument level — the rank, hence the meaning of a negative
    axis, changing from event to event; axes re-assigned in either spelling; calls that raise in between: every
    result is the result of a fresh object carrying the argument attributes of the moment, the attributes after
    every event are the assigned ARGUMENTS (nothing normalised is written back), frozen flag / scale invariant -/
theorem C05_arg_history_fresh (c : Fl) (evs : List QBArgEvent) : ∀ o : QBArgObj,
    (qbArgRunEv c o evs).map (fun r => r.2.1) =
      qbArgFresh c o.frozen (if o.frozen then o.scale else none) o.attrs (evs.map QBArgEvent.step) ∧
    (qbArgRunEv c o evs).map (fun r => r.1.attrs) = qbArgAttrsAfter o.attrs (evs.map QBArgEvent.step) ∧
    ∀ r ∈ qbArgRunEv c o evs, r.1.frozen = o.frozen ∧ (o.frozen = true → r.1.scale = o.scale) := by
  induction evs with
  | nil => intro o; simp [qbArgRunEv, qbArgFresh, qbArgAttrsAfter]
  | cons e t ih =>
    intro o
    -- both kinds of event are, for the object and the result, the one call
    have key : ∀ s : QBArgStep, (e = .call s ∨ e = .save s) → ∃ ex,
        qbArgRunEv c o (e :: t) =
          ((qbArgCall c (o.reconf s.set) s.chLast s.shape s.x).1,
            (qbArgCall c (o.reconf s.set) s.chLast s.shape s.x).2, ex) ::
          qbArgRunEv c (qbArgCall c (o.reconf s.set) s.chLast s.shape s.x).1 t := by
      intro s hs
      rcases hs with rfl | rfl
      · exact ⟨none, rfl⟩
      · have h := arg_export_is_call c (o.reconf s.set) s.chLast s.shape s.x
        refine ⟨(qbArgExport c (o.reconf s.set) s.chLast s.shape s.x).2.2, ?_⟩
        simp only [qbArgRunEv]
        rw [← h.1, ← h.2]
    have hs : ∃ s, (e = .call s ∨ e = .save s) ∧ e.step = s := by
      cases e with
      | call s => exact ⟨s, Or.inl rfl, rfl⟩
      | save s => exact ⟨s, Or.inr rfl, rfl⟩
    obtain ⟨s, hes, hstep⟩ := hs
    obtain ⟨ex, k0⟩ := key s hes
    obtain ⟨h1, h2, h3⟩ := ih (qbArgCall c (o.reconf s.set) s.chLast s.shape s.x).1
    have hk := arg_call_frame c (o.reconf s.set) s.chLast s.shape s.x
    have hst : (if (qbArgCall c (o.reconf s.set) s.chLast s.shape s.x).1.frozen then
          (qbArgCall c (o.reconf s.set) s.chLast s.shape s.x).1.scale else none) =
        (if o.frozen then o.scale else none) := by
      rw [hk.2.1]
      show (if o.frozen then _ else none) = _
      cases hf : o.frozen with
      | false => simp
      | true => simp only [if_true]; exact hk.2.2 hf
    rw [k0]
    refine ⟨?_, ?_, ?_⟩
    · simp only [List.map_cons, hstep, qbArgFresh]
      rw [h1, hst, hk.1, hk.2.1]
      refine congrArg₂ _ ?_ rfl
      exact arg_call_fresh c (o.reconf s.set) s.chLast s.shape s.x
    · simp only [List.map_cons, hstep, qbArgAttrsAfter]
      rw [h2, hk.1]; rfl
    · intro r hr
      simp only [List.mem_cons] at hr
      rcases hr with rfl | hr
      · exact ⟨hk.2.1, fun hf => hk.2.2 hf⟩
      · obtain ⟨a, b⟩ := h3 r hr
        refine ⟨a.trans hk.2.1, fun hf => ?_⟩
        have hf' : (qbArgCall c (o.reconf s.set) s.chLast s.shape s.x).1.frozen = true := hk.2.1.trans hf
        exact (b hf').trans (hk.2.2 hf)

/-- quantized_linear at the argument level: a resolvable call IS `qlAuto` of the resolved attributes (every rank),
    writes no attribute back; an unresolvable one raises and changes nothing -/
theorem C05_linear_arg_call_is_auto (c : Fl) (o : QLArgObj) (ch : Bool) (shape : List ℕ) (x : List ℚ) :
    (∀ a, o.attrs.resolve shape.length = .ok a →
      (qlArgCall c o ch shape x).2 = .ok (qlAuto c (a.cfg ch) shape x)) ∧
    (∀ e, o.attrs.resolve shape.length = .error e → qlArgCall c o ch shape x = (o, .error e)) ∧
    (qlArgCall c o ch shape x).1.attrs = o.attrs := by
  refine ⟨fun a ha => ?_, fun e he => ?_, ?_⟩
  · simp only [qlArgCall, ha]; rfl
  · simp only [qlArgCall, he]
  · simp only [qlArgCall]
    cases o.attrs.resolve shape.length <;> rfl

/-- `quantized_linear(..., scale_axis = k - rank)` ≡ `quantized_linear(..., scale_axis = k)`, and lists in any spelling -/
theorem C05_linear_negative_axis_is_axis_from_end (c : Fl) (a : QLArgAttrs) (qs qs' : Stored) (ch : Bool)
    (shape : List ℕ) (x : List ℚ) :
    (∀ k : ℕ, k < shape.length →
      (qlArgCall c ⟨{ a with sa := .one ((k : ℤ) - shape.length) }, qs⟩ ch shape x).2 =
        (qlArgCall c ⟨{ a with sa := .one (k : ℤ) }, qs'⟩ ch shape x).2) ∧
    (∀ (ks : List ℕ) (fromEnd : ℕ → Bool), (∀ k ∈ ks, k < shape.length) →
      (qlArgCall c ⟨{ a with sa := .many (ks.map fun k => if fromEnd k then (k : ℤ) - shape.length else (k : ℤ)) }, qs⟩
          ch shape x).2 =
        (qlArgCall c ⟨{ a with sa := .many (ks.map fun k : ℕ => (k : ℤ)) }, qs'⟩ ch shape x).2) := by
  constructor
  · intro k hk
    obtain ⟨q1, q2, _⟩ := C05_axis_from_end shape.length k hk .none
    simp only [qlArgCall, QLArgAttrs.resolve, q1, q2]
    rfl
  · intro ks fromEnd hks
    have q1 := (C05_axes_from_end shape.length ks hks fromEnd).1
    have q2 := (C05_axes_from_end shape.length ks hks (fun _ => false)).1
    simp only [Bool.false_eq_true, if_false] at q2
    simp only [qlArgCall, QLArgAttrs.resolve, q1, q2]
    rfl

/-- quantized_linear, any history at the argument level = fresh objects (whatever scale they start with) -/
theorem C05_linear_arg_history_fresh (c : Fl) (qs0 : Stored) (steps : List QLArgStep) : ∀ o : QLArgObj,
    (qlArgRun c o steps).map (·.2) = qlArgFresh c qs0 o.attrs steps ∧
    (qlArgRun c o steps).map (·.1.attrs) = qlArgAttrsAfter o.attrs steps := by
  induction steps with
  | nil => intro o; simp [qlArgRun, qlArgFresh, qlArgAttrsAfter]
  | cons s t ih =>
    intro o
    obtain ⟨h1, h2⟩ := ih (qlArgCall c (o.reconf s.set) s.chLast s.shape s.x).1
    have ha := (C05_linear_arg_call_is_auto c (o.reconf s.set) s.chLast s.shape s.x).2.2
    refine ⟨?_, ?_⟩
    · simp only [qlArgRun, List.map_cons, qlArgFresh]
      rw [h1, ha]
      refine congrArg₂ _ ?_ rfl
      simp only [qlArgCall, QLArgObj.reconf]
      cases (s.set.getD o.attrs).resolve s.shape.length <;> rfl
    · simp only [qlArgRun, List.map_cons, qlArgAttrsAfter]
      rw [h2, ha]; rfl


/-! ### non-vacuity -/

example : ∃ es, qbAuto (Fl.exact (1/10000000)) ⟨4, 0, true, false, ⟨true, .none, .none⟩, none, none⟩ none [2, 2]
    [0, 1/2, 0, -1] = .ok es := ⟨_, rfl⟩
/-- the grouping with elements_per_scale used by auto_po2 succeeds on a concrete kernel: blocks of two
    columns, every element in its own group's cell -/
example : (match keys ⟨true, .one 1, .one 2⟩ [2, 4] with
    | .ok (pk, ck) => pk == ck && pk == (List.range 8).map (fun i => [0, i % 4 / 2, 0])
    | .error _ => false) = true := by decide
example : (Fl.f32 (1/10000000)).SignPres := Fl.f32_signPres _
example : (1 : ℤ) ≤ (⟨4, 0, true, false, ⟨true, .none, .none⟩, none, none⟩ : QBCfg).bits := by decide

/-- a two-call history on one object (rank-2 tensor, then a rank-3 tensor under the other data format):
    both calls succeed and the second equals the call of a fresh object -/
example : (qbRun (Fl.exact (1/10000000)) ⟨⟨4, 0, true, false, .none, .none, none, none⟩, false, none⟩
    [⟨none, true, [2, 2], [0, 1/2, 0, -1]⟩, ⟨none, false, [2, 1, 2], [1, 1/2, 3, -1]⟩]).map (fun r => r.2.toOption.isSome)
    = [true, true] := by decide

/-- a frozen quantizer (post-training scales 2 and 1) called, exported inside a model, called again: all
    three results exist, the second call equals the first, the stored scale is the configured one throughout -/
example : let o : QBObj := ⟨⟨4, 1, true, true, .none, .none, none, none⟩, true, some ⟨[1, 2], [2, 1]⟩⟩
    let s : QBStep := ⟨none, true, [2, 2], [0, 1/2, 3/4, -1]⟩
    let r := qbRunEv (Fl.exact (1/10000000)) o [.call s, .save s, .call s]
    (r.map fun t => t.2.1.toOption.isSome) = [true, true, true] ∧
    (r.map fun t => t.1.scale.map (·.vals)) = [some [2, 1], some [2, 1], some [2, 1]] := by decide

/-- a history on ONE object with `scale_axis = -2`: a rank-2 tensor (axis 0), then a rank-3 tensor (axis 1); both
    calls succeed, equal the calls with the axes written from the start, and the argument stays `-2` -/
example : let o : QBArgObj := ⟨⟨4, 0, true, false, .one (-2), .none, none, none⟩, false, none⟩
    let s1 : QBArgStep := ⟨none, true, [2, 2], [0, 1/2, 3, -1]⟩
    let s2 : QBArgStep := ⟨none, true, [1, 2, 2], [1, 1/2, 3, -1]⟩
    let r := qbArgRunEv (Fl.exact (1/10000000)) o [.call s1, .call s2]
    (r.map fun t => t.2.1.toOption.isSome) = [true, true] ∧
    (r.map fun t => t.1.attrs.sa) = [.one (-2), .one (-2)] := by decide
example : qbAxis 3 (.many [0, -1]) (.one 2) = .ok (.many [0, 2]) ∧ qlAxis 1 (.one (-1)) = .ok (.one 0) ∧
    qbAxis 2 (.one (-3)) .none = .error .valueError := by decide

end QKV.Props.C05
