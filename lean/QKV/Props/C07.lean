/-
  C07 — qnoise_factor interpolates exactly between unquantized and quantized outputs.

  Property (verbatim, properties.jsonl): "For quantizers with a quantization-noise knob the output
  for factor f equals surrogate(x) + f*(quantized(x) - surrogate(x)): f=0 returns the unquantized
  activation, f=1 the fully quantized one, and the result is the same whether f is a constructor
  constant or is changed later through the update API (including the variable-backed mode used
  during training). The noise scheduler callback drives that factor with a value that at every
  update step is 0 before its start step and 1 from its finish step on, never decreases over the
  course of training, and is applied to every quantizer of the model that has the knob."

  This file holds ONLY property theorems (and non-vacuity examples).
  Models: QKV.Model.QNoise (mixing expressions, storage state machine), QKV.Model.Sched
  (QNoiseScheduler).  Inputs, factors, list lengths and histories are unbounded.

  Fix round (known/C07.json `fixed`): the five recorded defects were repaired in qkeras and the
  model follows the repaired code, so the former `…_partial` / `…_counterexample` pairs are now
  full theorems plus regression witnesses (`…_fixed_witness`, the model evaluated at the old
  failing input):
    * `update_qnoise_factor(tf.Variable)` on a python-float factor (raised under eager mode):
      `C07_storage_never_raises`, `C07_update_from_variable`, `…_fixed_witness`;
    * `on_train_begin` on a model holding a `quantized_linear` (read-only `use_variables`):
      `C07_sched_no_raise`, `C07_sched_all_quantizers` without a hypothesis on the quantizer kinds,
      `C07_sched_linear_fixed_witness`;
    * `get_quantizers` missing activation quantizers of QDense/QConv*, the cell quantizers of
      recurrent layers and quantizers of nested models: `C07_get_quantizers_covers` over the
      recursive layer structure, `C07_get_quantizers_{activation,cell,nested}_fixed_witness`.
-/
import QKV.Lemmas.Sched
import QKV.Lemmas.Rnd
import QKV.Lemmas.Pow2
namespace QKV.Props.C07
open QKV QKV.QNoise QKV.Sched

/-! ## 1. the mixing expressions -/

/-- both return forms equal `s + f·(q − s)` -/
theorem C07_mix (s q f : ℚ) (useSte : Bool) : mix s q f useSte = s + f * (q - s) := by
  cases useSte
  · simp only [mix, mixNoSte, Bool.false_eq_true, if_false]; ring
  · simp only [mix, mixSte, if_true]; ring

/-- quantized_linear's form -/
theorem C07_mix_linear (s q f : ℚ) : mixLinear s q f = s + f * (q - s) := rfl

/-- `f = 0` returns the surrogate -/
theorem C07_f0 (s q : ℚ) (useSte : Bool) : mix s q 0 useSte = s ∧ mixLinear s q 0 = s := by
  constructor
  · rw [C07_mix]; ring
  · simp [mixLinear]

/-- `f = 1` returns the quantized value -/
theorem C07_f1 (s q : ℚ) (useSte : Bool) : mix s q 1 useSte = q ∧ mixLinear s q 1 = q := by
  constructor
  · rw [C07_mix]; ring
  · simp [mixLinear]

/-- for `f ∈ [0,1]` the output lies between surrogate and quantized value -/
theorem C07_mix_between (s q f : ℚ) (useSte : Bool) (h0 : 0 ≤ f) (h1 : f ≤ 1) :
    min s q ≤ mix s q f useSte ∧ mix s q f useSte ≤ max s q := by
  rw [C07_mix]
  rcases le_total s q with h | h
  · rw [min_eq_left h, max_eq_right h]
    constructor <;> nlinarith
  · rw [min_eq_right h, max_eq_left h]
    constructor <;> nlinarith

/-- transfer: when no float32 step of the real evaluation rounds (`mixExactB`, which the driver
    reports per element), the float evaluation *is* the exact interpolation with the effective
    float32 factor — for every rounding function. -/
theorem C07_mixF_exact (rd : Rnd) (s q : ℚ) (st : Store) (useSte : Bool)
    (h : mixExactB rd s q st useSte = true) :
    mixF rd s q st useSte = s + st.asF rd * (q - s) := by
  cases useSte
  · simp only [mixExactB, Bool.false_eq_true, if_false, Bool.and_eq_true, decide_eq_true_eq] at h
    obtain ⟨⟨⟨h1, h2⟩, h3⟩, h4⟩ := h
    simp only [mixF, Bool.false_eq_true, if_false, mixNoSteF]
    rw [h1, h2, h3, h4]; ring
  · simp only [mixExactB, if_true, Bool.and_eq_true, decide_eq_true_eq] at h
    obtain ⟨⟨h1, h2⟩, h3⟩ := h
    simp only [mixF, if_true, mixSteF]
    rw [h1, h2, h3]; ring

theorem C07_mixLinearF_exact (rd : Rnd) (s q : ℚ) (st : Store)
    (h : mixLinearExactB rd s q st = true) :
    mixLinearF rd s q st = s + st.asF rd * (q - s) := by
  simp only [mixLinearExactB, Bool.and_eq_true, decide_eq_true_eq] at h
  obtain ⟨⟨h1, h2⟩, h3⟩ := h
  simp only [mixLinearF]
  rw [h1, h2, h3]

/-- non-vacuity: in the real-number reading every evaluation is exact -/
example (s q : ℚ) (st : Store) (u : Bool) : mixExactB Rnd.exact s q st u = true := by
  cases u <;> cases st <;> simp [mixExactB, Rnd.exact, Store.asF, Store.oneMinus]

/-- the STE form and quantized_linear's form are bit-identical for a python-float factor `v` and
    for the Variable that `build(use_variables=True)` makes of it — for every rounding -/
theorem C07_mix_storage_ste (rd : Rnd) (s q v : ℚ) :
    mixF rd s q (.py v) true = mixF rd s q (.var (rd.r32 v)) true ∧
    mixLinearF rd s q (.py v) = mixLinearF rd s q (.var (rd.r32 v)) := ⟨rfl, rfl⟩

/-- the non-STE form agrees between the two storages as soon as `1 − f` rounds the same way
    (python computes `1 − v` in float64, a Variable in float32); always true in exact arithmetic -/
theorem C07_mix_storage_noste_partial (rd : Rnd) (s q v : ℚ)
    (h : rd.r32 (rd.r64 (1 - v)) = rd.r32 (1 - rd.r32 v)) :
    mixF rd s q (.py v) false = mixF rd s q (.var (rd.r32 v)) false := by
  simp [mixF, mixNoSteF, Store.oneMinus, Store.asF, h]

example (v : ℚ) : Rnd.exact.r32 (Rnd.exact.r64 (1 - v)) = Rnd.exact.r32 (1 - Rnd.exact.r32 v) := rfl

/-! ## 1b. quantized_relu in full: `x_u`, `xq`, the `relu_upper_bound` pass, then the mix

  (strengthening round, seed C07-6)  `reluNoise` = the whole `quantized_relu.__call__` for every
  `bits`, `integer`, leaky slope `2^-k`, `relu_upper_bound` (on or off the quantization grid) and
  `is_quantized_clip`. -/

/-- the whole call interpolates between its unquantized activation and its quantized value -/
theorem C07_relu_interpolates (t : Tie) (c : ReluCfg) (f : ℚ) (useSte : Bool) (x : ℚ) :
    reluNoise t c f useSte x = c.act x + f * (qreluU t c x - c.act x) :=
  C07_mix _ _ _ _

/-- `f = 0` returns the unquantized activation, `f = 1` the fully quantized value (which respects
    `relu_upper_bound`) -/
theorem C07_relu_f0_f1 (t : Tie) (c : ReluCfg) (useSte : Bool) (x : ℚ) :
    reluNoise t c 0 useSte x = c.act x ∧ reluNoise t c 1 useSte x = qreluU t c x :=
  ⟨(C07_f0 _ _ _).1, (C07_f1 _ _ _).1⟩

/-- the clause the harness judges on the real outputs: `out(f) = out(0) + f·(out(1) − out(0))` -/
theorem C07_relu_affine_in_f (t : Tie) (c : ReluCfg) (f : ℚ) (useSte : Bool) (x : ℚ) :
    reluNoise t c f useSte x =
      reluNoise t c 0 useSte x + f * (reluNoise t c 1 useSte x - reluNoise t c 0 useSte x) := by
  rw [(C07_relu_f0_f1 t c useSte x).1, (C07_relu_f0_f1 t c useSte x).2]
  exact C07_relu_interpolates t c f useSte x

/-- with an active `relu_upper_bound` (not `is_quantized_clip`) the unquantized activation is
    below the bound … -/
theorem C07_relu_act_le_bound (c : ReluCfg) (ub : ℚ) (hc : c.clamp = some ub) (h0 : 0 ≤ ub) (x : ℚ) :
    c.act x ≤ ub := by
  have hq : c.qclip = false := by
    cases hq : c.qclip
    · rfl
    · unfold ReluCfg.clamp at hc; rw [hq] at hc; simp at hc
  have hu : c.upper = some ub := by
    unfold ReluCfg.clamp at hc; rw [hq] at hc; simpa using hc
  simp only [ReluCfg.act, hq, Bool.false_eq_true, if_false, hu]
  split
  · rename_i hx
    unfold ReluCfg.lrelu
    split
    · rename_i hneg
      have hs : 0 ≤ c.slope := by
        unfold ReluCfg.slope
        cases c.slopeLog with
        | none => exact le_refl _
        | some k => exact le_of_lt (QKV.pow2_pos _)
      nlinarith
    · exact hx
  · exact le_refl _

/-- … so for `f ∈ [0,1]` the mixed output already respects the bound: no clip of the result is
    needed (and none is applied by the code) -/
theorem C07_relu_bounded (t : Tie) (c : ReluCfg) (ub f : ℚ) (useSte : Bool) (x : ℚ)
    (hc : c.clamp = some ub) (hub : 0 ≤ ub) (h0 : 0 ≤ f) (h1 : f ≤ 1) :
    reluNoise t c f useSte x ≤ ub := by
  have hs := C07_relu_act_le_bound c ub hc hub x
  have hq : qreluU t c x ≤ ub := by
    unfold qreluU
    rw [hc]
    simp only [clampTo]
    split
    · assumption
    · exact le_refl _
  have := (C07_mix_between (c.act x) (qreluU t c x) f useSte h0 h1).2
  exact le_trans this (max_le hs hq)

/-- where clipping the mixed result instead would give the same value: at `f = 0`, at `f = 1`,
    and wherever the bound does not cut the quantized value -/
theorem C07_relu_clamp_order_agree (t : Tie) (c : ReluCfg) (ub f : ℚ) (useSte : Bool) (x : ℚ)
    (hc : c.clamp = some ub) (hub : 0 ≤ ub) (h0 : 0 ≤ f) (h1 : f ≤ 1)
    (h : f = 0 ∨ f = 1 ∨ qrelu t c x ≤ ub) :
    reluNoiseClampAfter t c f useSte x = reluNoise t c f useSte x := by
  have hs := C07_relu_act_le_bound c ub hc hub x
  unfold reluNoiseClampAfter reluNoise qreluU
  rw [hc]
  rcases h with h | h | h
  · subst h
    rw [(C07_f0 _ _ _).1, (C07_f0 _ _ _).1]
    simp [clampTo, hs]
  · subst h
    rw [(C07_f1 _ _ _).1, (C07_f1 _ _ _).1]
  · have hq : clampTo (some ub) (qrelu t c x) = qrelu t c x := by simp [clampTo, h]
    rw [hq]
    have := (C07_mix_between (c.act x) (qrelu t c x) f useSte h0 h1).2
    have hle : mix (c.act x) (qrelu t c x) f useSte ≤ ub := le_trans this (max_le hs h)
    simp [clampTo, hle]

/-- the order matters: `quantized_relu(2, 2, relu_upper_bound=2.6, is_quantized_clip=False)` (the
    bound is the float32 nearest 2.6, off the grid of step 1), `x = 2.5625`, `f = 1/2`: the call
    gives the interpolation `x_u + f·(xq − x_u)` with `xq = min(3, ub) = ub`, whereas clipping the
    mixed result gives the bound itself — which is not between-by-`f` its own `f = 0` and `f = 1`
    values (seed C07-6). -/
theorem C07_relu_clamp_after_mix_counterexample :
    let ub : ℚ := 5452595 / 2097152
    let c : ReluCfg := { bits := 2, integer := 2, slopeLog := none, upper := some ub, qclip := false }
    c.act (41/16) = 41/16 ∧ qrelu .even c (41/16) = 3 ∧ qreluU .even c (41/16) = ub ∧
    reluNoise .even c (1/2) true (41/16) = (41/16 + ub) / 2 ∧
    reluNoiseClampAfter .even c (1/2) true (41/16) = ub ∧
    reluNoiseClampAfter .even c (1/2) true (41/16) ≠
      reluNoiseClampAfter .even c 0 true (41/16) +
        (1/2) * (reluNoiseClampAfter .even c 1 true (41/16) - reluNoiseClampAfter .even c 0 true (41/16)) := by
  refine ⟨by decide +kernel, by decide +kernel, by decide +kernel, by decide +kernel, by decide +kernel,
    by decide +kernel⟩

/-- non-vacuity of the hypotheses of `C07_relu_bounded` / `C07_relu_clamp_order_agree` -/
example : ({ bits := 4, integer := 1, slopeLog := some 2, upper := some (29/20), qclip := false } : ReluCfg).clamp
    = some (29/20) := by decide +kernel

/-! ## 2. storage of the factor: python float vs tf.Variable, build / update in any order -/

/-- For every operation list (explicit `build(use_variables=…)`, `update_qnoise_factor` with a
    number or with a `tf.Variable`, flipping `use_variables`, calls): the factor the next call uses is
    the float32 of the last value written through the update API, or the initial one if none was. -/
theorem C07_storage_invariant (rd : Rnd) (s : QState) (ops : List Op)
    (hwf : ∀ op ∈ ops, Op.WF rd op) :
    (QState.run rd s ops).eff rd =
      match lastWrite ops with
      | some v => rd.r32 v
      | none => s.eff rd :=
  storage_invariant rd ops s hwf

/-- no operation of the build / update API raises, in any state, in any order -/
theorem C07_storage_never_raises (rd : Rnd) (s : QState) (ops : List Op) :
    (∀ op, (s.step rd op).2 = false) ∧ QState.anyRaise rd s ops = false :=
  ⟨step_no_raise rd s, anyRaise_false rd ops s⟩

/-- `update_qnoise_factor(<tf.Variable holding v>)` applies `v` whatever the storage is -/
theorem C07_update_from_variable (rd : Rnd) (s : QState) (v : ℚ) (hv : rd.r32 v = v) :
    (s.step rd (.updateFromVar v)).2 = false ∧ ((s.step rd (.updateFromVar v)).1).eff rd = v := by
  refine ⟨step_no_raise rd s _, ?_⟩
  have h := eff_step rd s (.updateFromVar v) hv
  simpa [lastWrite, hv] using h

/-- constructor constant vs update API: a quantizer constructed with factor `v` and then put
    through any build/call operations uses the same factor as any quantizer whose last update
    wrote `v`, whatever happened before and after it and whichever storage either is in. -/
theorem C07_ctor_equals_update (rd : Rnd) (v : ℚ) (s1 s2 : QState) (ops1 ops2 : List Op)
    (h1 : s1.store = .py v) (hl1 : lastWrite ops1 = none) (hl2 : lastWrite ops2 = some v)
    (hwf1 : ∀ op ∈ ops1, Op.WF rd op) (hwf2 : ∀ op ∈ ops2, Op.WF rd op) :
    (QState.run rd s1 ops1).eff rd = (QState.run rd s2 ops2).eff rd := by
  rw [storage_invariant rd ops1 s1 hwf1, storage_invariant rd ops2 s2 hwf2, hl1, hl2]
  simp [QState.eff, h1, Store.asF]

/-- build-before-update and update-before-build give the same factor -/
theorem C07_storage_build_order (rd : Rnd) (s : QState) (b : Bool) (v : ℚ) :
    (QState.run rd s [.build b, .update v, .call]).eff rd = rd.r32 v ∧
    (QState.run rd s [.update v, .build b, .call]).eff rd = rd.r32 v := by
  constructor <;> simp [QState.run, QState.step]

/-- non-vacuity of the hypothesis of `C07_storage_invariant` on a mixed list -/
example : ∀ op ∈ [Op.setUseVars true, .update (1/4), .call, .updateFromVar (1/2), .build false],
            Op.WF Rnd.exact op := by
  intro op hop; cases op <;> simp [Op.WF, Rnd.exact]

/-- regression witness of the former finding C07-update-from-variable: the update API given a
    `tf.Variable` while the factor is still a python float (it used to raise under TF2 eager
    execution, leaving the factor at 1) does not raise and the next call uses the new value -/
theorem C07_update_from_variable_fixed_witness :
    let s : QState := ⟨.py 1, false, false⟩
    (s.step Rnd.exact (.updateFromVar (1/2))).2 = false ∧
      ((s.step Rnd.exact (.updateFromVar (1/2))).1).eff Rnd.exact = 1/2 ∧
      (QState.run Rnd.exact s [.updateFromVar (1/2), .call]).eff Rnd.exact = 1/2 := by
  simp [QState.step, QState.updateFromVar, QState.eff, Store.asF, Rnd.exact, QState.run, QState.call,
    QState.build]

/-! ## 2b. several quantizers and caller-owned variables: the factor is private state

  (strengthening round, seed C07-4)  `Sys` = any number of quantizer objects and any number of
  caller-owned float32 `tf.Variable`s; an interleaved history mixes single-quantizer operations,
  `q_i.update_qnoise_factor(w_k)`, `q_i.update_qnoise_factor(q_j.qnoise_factor)` and the caller's
  own `w_k.assign(v)`.  The update API copies the CURRENT value of a variable it is handed. -/

/-- frame, one operation: an update (or build / call / flip) of another quantizer, or an assignment
    to a caller's variable, leaves quantizer `b` exactly as it was -/
theorem C07_multi_frame_step (rd : Rnd) (s : Sys) (m : MOp) (b : ℕ) (h : m.target ≠ some b) :
    (s.step rd m).q b = s.q b :=
  sys_step_frame rd s m b h

/-- frame, every interleaved history: whatever is done to OTHER quantizers — including updating
    them from the very variable `b` was updated from — and whatever the caller assigns to its
    variables, quantizer `b` keeps its storage, its value, and the factor its next call uses -/
theorem C07_multi_frame (rd : Rnd) (s : Sys) (b : ℕ) (ms : List MOp)
    (h : ∀ m ∈ ms, m.target ≠ some b) :
    (Sys.run rd s ms).q b = s.q b ∧ ((Sys.run rd s ms).q b).eff rd = (s.q b).eff rd := by
  have := sys_run_frame rd b ms s h
  exact ⟨this, by rw [this]⟩

/-- qkeras never writes a caller's variable: over every history its value is what the caller's own
    last `assign` made it (here: unchanged when the history has no `assign` to it) -/
theorem C07_multi_caller_variable_untouched (rd : Rnd) (s : Sys) (k : ℕ) (ms : List MOp)
    (h : ∀ m ∈ ms, m.assigns ≠ some k) : (Sys.run rd s ms).w k = s.w k :=
  sys_run_w rd k ms s h

/-- an interleaved history acts on quantizer `b` exactly like `b`'s own history (the operations
    addressed to `b`, a source variable being read at the moment of the update) -/
theorem C07_multi_local_history (rd : Rnd) (s : Sys) (b : ℕ) (ms : List MOp) :
    (Sys.run rd s ms).q b = QState.run rd (s.q b) (proj rd b s ms) :=
  sys_run_proj rd b ms s

/-- two interleavings (of any two systems) that contain the same history of `b` leave `b` in the
    same state: what surrounds `b`'s own operations is irrelevant -/
theorem C07_multi_interleaving_independent (rd : Rnd) (s1 s2 : Sys) (b : ℕ) (ms1 ms2 : List MOp)
    (h0 : s1.q b = s2.q b) (hp : proj rd b s1 ms1 = proj rd b s2 ms2) :
    (Sys.run rd s1 ms1).q b = (Sys.run rd s2 ms2).q b := by
  rw [sys_run_proj, sys_run_proj, h0, hp]

/-- the storage theorem for one quantizer among many: after every interleaved history the factor
    the next call of `b` uses is float32 of the last value written TO `b` (a number, or the value
    a source variable had when `b` was updated from it), or `b`'s initial factor -/
theorem C07_multi_storage_invariant (rd : Rnd) (hid : ∀ x, rd.r32 (rd.r32 x) = rd.r32 x)
    (s : Sys) (hs : s.WF rd) (b : ℕ) (ms : List MOp) (hms : ∀ m ∈ ms, m.WF rd) :
    ((Sys.run rd s ms).q b).eff rd =
      match lastWrite (proj rd b s ms) with
      | some v => rd.r32 v
      | none => (s.q b).eff rd := by
  rw [sys_run_proj]
  exact storage_invariant rd _ _ (proj_wf rd hid b ms s hs hms)

/-- one source variable pushed to two quantizers (`a` may even be `b`), then ANY history that does
    not address `b` — updates of `a`, further updates from the same variable, assignments to it:
    `b` still uses the value the variable had when `b` was updated -/
theorem C07_multi_shared_source (rd : Rnd) (s : Sys) (a b k : ℕ) (ms : List MOp)
    (hw : rd.r32 (s.w k) = s.w k) (h : ∀ m ∈ ms, m.target ≠ some b) :
    ((Sys.run rd s (.updateFromCaller a k :: .updateFromCaller b k :: ms)).q b).eff rd = s.w k := by
  simp only [Sys.run]
  rw [(C07_multi_frame rd _ b ms h).2, sys_step_q]
  simp only [MOp.resolve, if_true]
  have hk : (s.step rd (.updateFromCaller a k)).w k = s.w k :=
    sys_step_w rd s _ k (by simp [MOp.assigns])
  rw [hk]
  exact (C07_update_from_variable rd _ (s.w k) hw).2

/-- non-vacuity: a well-formed system and history (exact and IEEE readings are idempotent) -/
example : (⟨fun _ => ⟨.py (1/3), false, true⟩, fun _ => 1/4⟩ : Sys).WF Rnd.exact ∧
    (∀ m ∈ [MOp.updateFromCaller 0 0, .local 1 (.update (1/3)), .assign 0 (1/2), .updateFromQuant 1 0],
      m.WF Rnd.exact) ∧ (∀ x, Rnd.exact.r32 (Rnd.exact.r32 x) = Rnd.exact.r32 x) := by
  refine ⟨⟨fun _ => rfl, fun i v h => rfl⟩, ?_, fun _ => rfl⟩
  intro m hm
  simp only [List.mem_cons, List.mem_nil_iff, or_false] at hm
  rcases hm with h | h | h | h <;> subst h <;> simp [MOp.WF, Op.WF]

/-- the history of seed C07-4 in the model: one caller variable (1/4) pushed to two built quantizers
    in python storage (and, second system, in Variable storage), then `q0.update(1)`, then the
    caller assigns 1/2: quantizer 1 still uses 1/4, quantizer 0 uses 1, the variable holds 1/2 -/
theorem C07_multi_shared_source_witness :
    let h : List MOp := [.updateFromCaller 0 0, .updateFromCaller 1 0, .local 0 (.update 1),
                         .assign 0 (1/2), .local 1 .call]
    let sp : Sys := ⟨fun _ => ⟨.py 1, true, false⟩, fun _ => 1/4⟩
    let sv : Sys := ⟨fun _ => ⟨.var 1, true, true⟩, fun _ => 1/4⟩
    (((Sys.run Rnd.exact sp h).q 1).eff Rnd.exact = 1/4 ∧ ((Sys.run Rnd.exact sp h).q 0).eff Rnd.exact = 1
      ∧ (Sys.run Rnd.exact sp h).w 0 = 1/2) ∧
    (((Sys.run Rnd.exact sv h).q 1).eff Rnd.exact = 1/4 ∧ ((Sys.run Rnd.exact sv h).q 0).eff Rnd.exact = 1
      ∧ (Sys.run Rnd.exact sv h).w 0 = 1/2) := by
  simp [Sys.run, Sys.step, setAt, QState.step, QState.updateFromVar, QState.update, QState.call,
    QState.eff, Store.asF, Rnd.exact]

/-! ## 2c. variable-backed mode and compiled calls  (strengthening round, seed C07-8)

  The property's "variable-backed mode used during training": with `use_variables=True` the factor
  is held in a `tf.Variable` — for EVERY initial value, 0 included — so that a compiled function
  (`tf.function`, the Keras train step), which runs the python body of `__call__` only once, reads
  the CURRENT factor at every execution.  `CState` = one quantizer plus one compiled function
  wrapping its call; `Cap` = what the traced graph holds for the factor. -/

/-- `build(use_variables=True)`: whatever the factor was held in and whatever its value (0 is a
    value like any other) it is afterwards held in a Variable with float32 of that value. -/
theorem C07_build_variable_backed (rd : Rnd) (s : QState) :
    (s.build rd true).store = .var (s.eff rd) ∧ (s.build rd true).store.isVar = true ∧
      (s.build rd true).built = true := by
  simp [QState.build, QState.eff, Store.isVar]

/-- the first call of a quantizer with `use_variables=True` does the same -/
theorem C07_first_call_variable_backed (rd : Rnd) (s : QState) (hu : s.useVars = true)
    (hb : s.built = false) : (s.call rd).store = .var (s.eff rd) := by
  simp [QState.call, hb, hu, build_true_store]

/-- once in a Variable the factor stays in a Variable, over every operation list -/
theorem C07_variable_backed_stays (rd : Rnd) (s : QState) (ops : List Op)
    (h : s.store.isVar = true) : (QState.run rd s ops).store.isVar = true :=
  isVar_run rd ops s h

/-- variable mode (`use_variables=True` on an unbuilt quantizer, or a Variable already): after
    ANY history that does not switch the mode off (`use_variables = False`, explicit
    `build(use_variables=False)`) a call leaves the factor in a Variable. -/
theorem C07_variable_mode_call (rd : Rnd) (s : QState) (ops : List Op) (h : s.varMode = true)
    (hno : ∀ op ∈ ops, op ≠ .setUseVars false ∧ op ≠ .build false) :
    ((QState.run rd s ops).call rd).store.isVar = true :=
  (varMode_call rd _ (varMode_run rd ops s h hno)).1

/-- tracing a quantizer in variable mode captures its Variable, not a constant -/
theorem C07_compiled_trace_variable_mode (rd : Rnd) (s : QState) (h : s.varMode = true) :
    ((⟨s, none⟩ : CState).step rd .ccall).cap = some .live ∧
      ((⟨s, none⟩ : CState).step rd .ccall).q.built = true := by
  have hc := varMode_call rd s h
  refine ⟨?_, by simpa [CState.step] using hc.2⟩
  cases hs : (s.call rd).store with
  | py v => simp [hs, Store.isVar] at hc
  | var v => simp [CState.step, hs, Store.capture]

/-- THE COMPILED ROUTE.  A quantizer in variable mode goes through any eager history `ops0`
    (updates before the first call, the scheduler's `set_quantizers`, …), is then called from a
    compiled function (traced now, once), and then through any eager history `ops` (updates,
    eager calls, `build(False)`, flipping `use_variables` — anything but an explicit second
    `build(use_variables=True)`): the compiled function's next execution uses exactly the factor
    an eager call would use, i.e. float32 of the last value written through the update API
    (before or after the trace), or the constructor constant if none was. -/
theorem C07_compiled_variable_mode (rd : Rnd) (s : QState) (ops0 ops : List Op)
    (hmode : s.varMode = true)
    (hno0 : ∀ op ∈ ops0, op ≠ .setUseVars false ∧ op ≠ .build false)
    (hno : ∀ op ∈ ops, op ≠ .build true)
    (hwf0 : ∀ op ∈ ops0, Op.WF rd op) (hwf : ∀ op ∈ ops, Op.WF rd op) :
    let c := CState.run rd ⟨s, none⟩ (ops0.map .eager ++ .ccall :: ops.map .eager)
    c.cap = some .live ∧ c.q.store.isVar = true ∧ c.ceff rd = c.q.eff rd ∧
      c.ceff rd = (match lastWrite (ops0 ++ .call :: ops) with
                   | some v => rd.r32 v
                   | none => s.eff rd) := by
  intro c
  have hm := varMode_run rd ops0 s hmode hno0
  have hcall := varMode_call rd _ hm
  have hcap : ((QState.run rd s ops0).call rd).store.capture = .live := by
    cases hs : ((QState.run rd s ops0).call rd).store with
    | py v => simp [hs, Store.isVar] at hcall
    | var v => rfl
  have hc : c = ⟨QState.run rd s (ops0 ++ .call :: ops), some .live⟩ := by
    show CState.run rd ⟨s, none⟩ (ops0.map .eager ++ .ccall :: ops.map .eager) = _
    rw [crun_append, crun_eager_untraced]
    simp only [CState.run, CState.step, hcap]
    rw [crun_eager_live rd ops _ hcall.2 hno, qrun_append]
    simp [QState.run, QState.step]
  have hq : c.q = QState.run rd s (ops0 ++ .call :: ops) := by rw [hc]
  have hwfall : ∀ op ∈ ops0 ++ .call :: ops, Op.WF rd op := by
    intro op hop
    rcases List.mem_append.1 hop with h | h
    · exact hwf0 op h
    · rcases List.mem_cons.1 h with h | h
      · subst h; trivial
      · exact hwf op h
  have heff : c.ceff rd = c.q.eff rd := by rw [hc]; exact ceff_live rd _
  refine ⟨by rw [hc], ?_, heff, ?_⟩
  · rw [hq, qrun_append]
    show (QState.run rd ((QState.run rd s ops0).call rd) ops).store.isVar = true
    exact isVar_run rd ops _ hcall.1
  · rw [heff, hq]
    exact storage_invariant rd _ s hwfall

/-- a python-number capture is frozen: if the attribute is a python number when the function is
    traced, NO later operation (update, build, further calls) changes what the compiled function
    computes with.  This is why the storage kind is part of the property: a `build(use_variables=
    True)` that leaves a python number behind makes every later update invisible to training. -/
theorem C07_compiled_python_capture_frozen (rd : Rnd) (c : CState) (v : ℚ) (os : List COp)
    (h : c.cap = some (.const v)) :
    (CState.run rd c os).cap = some (.const v) ∧ (CState.run rd c os).ceff rd = rd.r32 v :=
  ⟨crun_const rd v os c h, ceff_const rd _ v (crun_const rd v os c h)⟩

/-- witness at factor 0 (the falsy value): `quantized_*(qnoise_factor=0.0, use_variables=True)`,
    called from a compiled function, `update_qnoise_factor(1/2)`: the Variable made at trace time
    holds 0, the compiled function then uses 1/2.  Next to it what a graph holding a python 0 (a
    `build` skipping the Variable for a falsy factor) does with the same history: the attribute
    reads 1/2, the compiled function still uses 0. -/
theorem C07_compiled_zero_factor_witness :
    let s : QState := ⟨.py 0, false, true⟩
    let c := CState.run Rnd.exact ⟨s, none⟩ [.ccall, .eager (.update (1/2))]
    (CState.run Rnd.exact ⟨s, none⟩ [.ccall]).q.store = .var 0 ∧
      c.q.store = .var (1/2) ∧ c.ceff Rnd.exact = 1/2 ∧
    (let bad := CState.run Rnd.exact ⟨⟨.py 0, true, true⟩, some (.const 0)⟩ [.eager (.update (1/2))]
     bad.q.eff Rnd.exact = 1/2 ∧ bad.ceff Rnd.exact = 0) := by
  decide +kernel

/-- modelled, not a clause: an explicit SECOND `build(use_variables=True)` after the trace makes a
    fresh Variable; the graph keeps reading the old one (1/4), the attribute follows the update.
    (`QNoiseScheduler.set_quantizers` re-builds only quantizers whose factor is not a Variable.) -/
theorem C07_compiled_rebuild_stale_witness :
    let c := CState.run Rnd.exact ⟨⟨.var (1/4), true, true⟩, some .live⟩
                [.eager (.build true), .eager (.update 1)]
    c.q.eff Rnd.exact = 1 ∧ c.cap = some (.stale (1/4)) ∧ c.ceff Rnd.exact = 1/4 := by
  decide +kernel

/-- non-vacuity of the hypotheses of `C07_compiled_variable_mode` (scheduler-shaped history) -/
example : (⟨.py 1, false, false⟩ : QState).step Rnd.exact (.setUseVars true) |>.1.varMode = true := by
  decide +kernel
example : (∀ op ∈ [Op.setUseVars true, .update 0], op ≠ Op.setUseVars false ∧ op ≠ Op.build false) ∧
    (∀ op ∈ [Op.update (1/4), .call, .build false, .setUseVars false, .updateFromVar (1/2)],
      op ≠ Op.build true) := by
  decide

/-! ## 2d. every call of a history on one object uses the factor in force NOW
  (strengthening round, seed C07-10)

  `QState.outs` = the values the `call`s of an operation list return (build / update / update from a
  Variable / `use_variables` flips / calls in any order, any length, factors 0 and 1 included at any
  moment: at construction, at an explicit `build`, at the first call).  `callFactors` = the property's
  reading of the same list: at each call the last value written before it.  Nothing else about the
  history — in particular not the factor the object had when it was built — enters. -/

/-- exact reading, every form, every history: the k-th call returns
    `surrogate + f_k (quantized − surrogate)` with `f_k` the last value written before it (or the
    constructor constant) -/
theorem C07_history_calls_interpolate (fm : Form) (s q : ℚ) (st : QState) (ops : List Op) :
    QState.outs Rnd.exact fm s q st ops =
      (callFactors id st.store.raw ops).map (fun f => s + f * (q - s)) := by
  have h := outs_of_factor Rnd.exact fm s q (fun f => s + f * (q - s))
    (fun st => outF_exact s q st fm) ops st (fun op _ => by cases op <;> simp [Op.WF, Rnd.exact])
  have he : st.eff Rnd.exact = st.store.raw := by
    cases hs : st.store <;> simp [QState.eff, Store.asF, Store.raw, Rnd.exact, hs]
  rw [h, he]; rfl

/-- float32 reading, STE form and quantized_linear's form, every rounding: the k-th call returns
    what a quantizer holding float32(`f_k`) returns — bit for bit, whatever the object went through
    before (which storage, built when and at which factor, how many calls) -/
theorem C07_history_calls_float (rd : Rnd) (fm : Form) (hfm : fm ≠ .two false) (s q : ℚ)
    (st : QState) (ops : List Op) (hwf : ∀ op ∈ ops, Op.WF rd op) :
    QState.outs rd fm s q st ops =
      (callFactors rd.r32 (st.eff rd) ops).map (fun f => fm.outF rd s q (.var f)) :=
  outs_of_factor rd fm s q (fun f => fm.outF rd s q (.var f))
    (fun st' => outF_asF rd s q st' fm hfm) ops st hwf

/-- history independence: two objects (any class form other than the non-STE one, any initial
    storage, any histories) whose calls see the same factor lists return the same values -/
theorem C07_history_independent (rd : Rnd) (fm : Form) (hfm : fm ≠ .two false) (s q : ℚ)
    (st1 st2 : QState) (ops1 ops2 : List Op)
    (hwf1 : ∀ op ∈ ops1, Op.WF rd op) (hwf2 : ∀ op ∈ ops2, Op.WF rd op)
    (h : callFactors rd.r32 (st1.eff rd) ops1 = callFactors rd.r32 (st2.eff rd) ops2) :
    QState.outs rd fm s q st1 ops1 = QState.outs rd fm s q st2 ops2 := by
  rw [C07_history_calls_float rd fm hfm s q st1 ops1 hwf1,
    C07_history_calls_float rd fm hfm s q st2 ops2 hwf2, h]

/-- a used object equals a fresh one: after ANY history the next call returns what a quantizer
    freshly constructed with the constant `v` = the last value written returns -/
theorem C07_history_equals_fresh (rd : Rnd) (fm : Form) (hfm : fm ≠ .two false) (s q v : ℚ)
    (st : QState) (ops : List Op) (b u : Bool) (hwf : ∀ op ∈ ops, Op.WF rd op)
    (hl : lastWrite ops = some v) :
    fm.outF rd s q ((QState.run rd st (ops ++ [.call])).store) =
      fm.outF rd s q ((QState.run rd ⟨.py v, b, u⟩ [.call]).store) := by
  have hwf' : ∀ op ∈ ops ++ [Op.call], Op.WF rd op := by
    intro op ho
    rcases List.mem_append.mp ho with h | h
    · exact hwf op h
    · simp only [List.mem_singleton] at h; subst h; trivial
  have h1 := storage_invariant rd (ops ++ [.call]) st hwf'
  have hl' : lastWrite (ops ++ [Op.call]) = some v := by
    have : ∀ l : List Op, lastWrite (l ++ [Op.call]) = lastWrite l := by
      intro l; induction l with
      | nil => rfl
      | cons o l ih => rw [List.cons_append, lastWrite_cons, ih, ← lastWrite_cons]
    rw [this, hl]
  rw [hl'] at h1
  have h2 := storage_invariant rd [.call] ⟨.py v, b, u⟩ (by intro op ho; simp at ho; subst ho; trivial)
  simp only [lastWrite, QState.eff] at h2
  rw [outF_asF rd s q _ fm hfm, outF_asF rd s q (QState.run rd ⟨.py v, b, u⟩ [.call]).store fm hfm]
  simp only [QState.eff] at h1
  rw [h1, h2]; rfl

/-- the legitimate part of an "identity fast path": at a factor of exactly 0 the float32 evaluation
    of every form already IS the surrogate bit for bit (python number or Variable) -/
theorem C07_f0_float_is_surrogate (rd : Rnd) (h0 : rd.r32 0 = 0) (h1 : rd.r32 1 = 1)
    (h64 : rd.r64 1 = 1) (s q : ℚ) (hs : rd.r32 s = s) (fm : Form) :
    fm.outF rd s q (.py 0) = s ∧ fm.outF rd s q (.var 0) = s :=
  ⟨outF_zero rd h0 h1 h64 s q hs fm _ rfl, outF_zero rd h0 h1 h64 s q hs fm _ rfl⟩

/-- … so a shortcut decided AT CALL TIME from the factor as it is now changes no returned value,
    over every history -/
theorem C07_call_time_shortcut_sound (rd : Rnd) (h0 : rd.r32 0 = 0) (h1 : rd.r32 1 = 1)
    (h64 : rd.r64 1 = 1) (s q : ℚ) (hs : rd.r32 s = s) (fm : Form) (st : QState) (ops : List Op) :
    QState.outsShortcut rd fm s q st ops = QState.outs rd fm s q st ops :=
  outsShortcut_eq rd fm s q (fun st' hz => outF_zero rd h0 h1 h64 s q hs fm st' hz) ops st

example : Rnd.ieee.r32 0 = 0 ∧ Rnd.exact.r32 1 = 1 ∧ Rnd.exact.r64 1 = 1 := ⟨rfl, rfl, rfl⟩

/-- … whereas the same decision taken ONCE, when the object is built, and cached (`Snap`, NOT the
    code) breaks the property for every form, every input with `s ≠ q` and every later factor
    `f ≠ 0`: built (first call) at the constant factor 0, then `update_qnoise_factor(f)`, the second
    call still returns the surrogate while the code returns `s + f (q − s)`.  The twin decision
    "constant factor 1 ⇒ return the quantized value" fails the same way after an update to 0. -/
theorem C07_build_time_shortcut_counterexample (fm : Form) (s q f : ℚ) (hsq : s ≠ q) (hf : f ≠ 0)
    (u : Bool) :
    Snap.outs Rnd.exact fm s q Store.isConstZero s ⟨⟨.py 0, false, u⟩, false⟩
        [.call, .update f, .call] = (if u then [s, s + f * (q - s)] else [s, s]) ∧
    QState.outs Rnd.exact fm s q ⟨.py 0, false, u⟩ [.call, .update f, .call] = [s, s + f * (q - s)] ∧
    s + f * (q - s) ≠ s ∧
    Snap.outs Rnd.exact fm s q Store.isConstOne q ⟨⟨.py 1, false, false⟩, false⟩
        [.call, .update 0, .call] = [q, q] ∧
    QState.outs Rnd.exact fm s q ⟨.py 1, false, false⟩ [.call, .update 0, .call] = [q, s] := by
  have hne : s + f * (q - s) ≠ s := by
    intro h
    have : f * (q - s) = 0 := by linarith
    rcases mul_eq_zero.mp this with h | h
    · exact hf h
    · exact hsq (by linarith)
  have e : ∀ st : Store, fm.outF ⟨id, id⟩ s q st = s + st.raw * (q - s) := by
    intro st
    have := outF_exact s q st fm
    cases st <;> simpa [Rnd.exact, Store.asF, Store.raw] using this
  have eq1 : s + (q - s) = q := by ring
  refine ⟨?_, ?_, hne, ?_, ?_⟩
  · cases u <;>
      simp [Snap.outs, Snap.step, QState.runsBuild, QState.step, QState.call, QState.build, QState.update,
        Store.isConstZero, Store.isVar, Store.raw, Store.asF, Rnd.exact, e]
  · cases u <;>
      simp [QState.outs, QState.step, QState.call, QState.build, QState.update, Store.asF, Store.raw,
        Rnd.exact, e]
  · simp [Snap.outs, Snap.step, QState.runsBuild, QState.step, QState.call, QState.build, QState.update,
      Store.isConstOne, Store.isVar, Store.raw]
  · simp [QState.outs, QState.step, QState.call, QState.build, QState.update, Store.raw, Rnd.exact, e, eq1]

/-! ## 3. calculate_qnoise_factor -/

/-- `r ↦ r^(k+1)` with exact arithmetic satisfies the hypotheses (exponent a positive natural) -/
theorem C07_numOK_nat_pow (k : ℕ) : NumOK ⟨fun r => r ^ (k + 1), Rnd.exact⟩ where
  pw_mono := fun a b ha hab _ => pow_le_pow_left₀ ha hab _
  pw_zero := by simp
  pw_one := by simp
  r64_mono := fun _ _ _ h => h
  r64_zero := rfl
  r64_one := rfl

/-- the code's own arithmetic (IEEE float64 rounding of the division and of the subtraction, as run
    by the driver) satisfies the hypotheses for EVERY power function that is monotone on [0,1] with
    0 ↦ 0, 1 ↦ 1 — the executable `rnd64` is proved monotone on the non-negatives and fixes 0, 1 -/
theorem C07_numOK_ieee (pw : ℚ → ℚ) (hm : ∀ a b, 0 ≤ a → a ≤ b → b ≤ 1 → pw a ≤ pw b)
    (h0 : pw 0 = 0) (h1 : pw 1 = 1) : NumOK ⟨pw, Rnd.ieee⟩ where
  pw_mono := hm
  pw_zero := h0
  pw_one := h1
  r64_mono := fun _ _ ha hab => rnd64_mono_nonneg ha hab
  r64_zero := rnd64_zero
  r64_one := rnd64_one

/-- non-vacuity: an exact natural power is such a function -/
example (k : ℕ) : NumOK ⟨fun r => r ^ (k + 1), Rnd.ieee⟩ :=
  C07_numOK_ieee _ (fun _ _ ha hab _ => pow_le_pow_left₀ ha hab _) (by simp) (by simp)

theorem C07_sched_bounds (c : Cfg) (n : Num) (h : NumOK n) (freq : ℤ) :
    0 ≤ calcF c n freq ∧ calcF c n freq ≤ 1 := calcF_bounds c h freq

theorem C07_sched_before_start (c : Cfg) (n : Num) (freq : ℤ) (h : freq < c.start) :
    calcF c n freq = 0 := by simp [calcF, h]

theorem C07_sched_after_finish (c : Cfg) (n : Num) (h : NumOK n) (freq : ℤ)
    (hsf : c.start ≤ c.finish) (hf : c.finish ≤ freq) : calcF c n freq = 1 := by
  unfold calcF
  have h1 : ¬ freq < c.start := by omega
  rw [if_neg h1]
  split_ifs with h2
  · have : freq = c.finish := by omega
    subst this
    simp [h.r64_zero, h.pw_zero, h.r64_one]
  · rfl

/-- the factor is non-decreasing in the step/epoch number -/
theorem C07_sched_calc_mono (c : Cfg) (n : Num) (h : NumOK n) (f1 f2 : ℤ) (h12 : f1 ≤ f2) :
    calcF c n f1 ≤ calcF c n f2 := calcF_mono c h h12

/-- `start == finish`: a step function at `start` (no hypotheses on the power function) -/
theorem C07_sched_start_eq_finish (c : Cfg) (n : Num) (freq : ℤ) (h : c.start = c.finish) :
    calcF c n freq = if freq < c.start then 0 else 1 := by
  unfold calcF
  split_ifs with h1 h2
  · rfl
  · exact absurd h h2.2
  · rfl

/-- exact value on the ramp for a natural exponent `k`: `1 − ((finish − freq)/(finish − start))^k` -/
theorem C07_sched_ramp_value (c : Cfg) (k : ℕ) (freq : ℤ) (h1 : c.start ≤ freq) (h2 : freq ≤ c.finish)
    (h3 : c.start ≠ c.finish) :
    calcF c ⟨fun r => r ^ k, Rnd.exact⟩ freq =
      1 - (((c.finish - freq : ℤ) : ℚ) / ((c.finish - c.start : ℤ) : ℚ)) ^ k := by
  unfold calcF
  rw [if_neg (by omega), if_pos ⟨h2, h3⟩]
  rfl

/-- the hypothesis `pw 0 = 0` is needed: with exponent 0 (`np.power(0., 0.) = 1`) the factor at the
    finish step is 0, not 1 -/
theorem C07_sched_exponent_zero_counterexample :
    calcF ⟨0, 4, false, 1, 0, true⟩ ⟨fun r => r ^ 0, Rnd.exact⟩ 4 = 0 := by
  simp [calcF, Rnd.exact]

/-! ## 4. the scheduler over every event history -/

/-- Over every event history (any interleaving of on_train_begin / on_epoch_begin / on_epoch_end /
    on_train_batch_begin hooks and forward passes, any model) the sequence of factors the callback
    applies is non-decreasing. -/
theorem C07_sched_mono (c : Cfg) (n : Num) (h : NumOK n) (layers : List Layer) (es : List Event) :
    (run c n layers CB.init es).trace.Pairwise (· ≤ ·) :=
  (monoInv_run c h layers es CB.init (monoInv_init c n)).1

/-- … and so is the sequence of float32 values the tracked (Variable-backed) quantizers hold -/
theorem C07_sched_mono_f32 (c : Cfg) (pw : ℚ → ℚ) (hm : ∀ a b, 0 ≤ a → a ≤ b → b ≤ 1 → pw a ≤ pw b)
    (h0 : pw 0 = 0) (h1 : pw 1 = 1) (layers : List Layer) (es : List Event) :
    ((run c ⟨pw, Rnd.ieee⟩ layers CB.init es).trace.map rnd32).Pairwise (· ≤ ·) := by
  have h := C07_numOK_ieee pw hm h0 h1
  have hmono := (monoInv_run c h layers es CB.init (monoInv_init c _)).1
  have hb : ∀ v ∈ (run c ⟨pw, Rnd.ieee⟩ layers CB.init es).trace, 0 ≤ v := by
    intro v hv
    -- every trace entry is 0 or a value of calcF, both non-negative
    have key : ∀ (es : List Event) (s : CB), (∀ v ∈ s.trace, 0 ≤ v) →
        ∀ v ∈ (run c ⟨pw, Rnd.ieee⟩ layers s es).trace, 0 ≤ v := by
      intro es
      induction es with
      | nil => intro s hs; exact hs
      | cons e t ih =>
        intro s hs
        apply ih
        have hu : ∀ v ∈ (updateStep c ⟨pw, Rnd.ieee⟩ s).1.trace, 0 ≤ v := by
          rcases updateStep_cases c ⟨pw, Rnd.ieee⟩ s with e | ⟨e, _⟩ | ⟨q, qs, _, _, e⟩
          · rw [e]; exact hs
          · rw [e]; exact hs
          · rw [e]
            intro v hv
            simp only [List.mem_append, List.mem_singleton] at hv
            rcases hv with hv | hv
            · exact hs v hv
            · rw [hv]; exact (calcF_bounds c h _).1
        cases e with
        | trainBegin =>
          simp only [step]
          split_ifs
          · exact hs
          · intro v hv
            simp only [List.mem_append, List.mem_singleton] at hv
            rcases hv with hv | hv
            · exact hs v hv
            · rw [hv]
          · exact hs
        | epochBegin => simp only [step]; split_ifs; exact hs; exact hu
        | batchBegin => simp only [step]; split_ifs; exact hu; exact hs
        | epochEnd => exact hs
        | forward => exact hs
    exact key es CB.init (by simp [CB.init]) v hv
  rw [List.pairwise_map]
  exact hmono.imp_of_mem (fun {a b} ha _ hab => rnd32_mono_nonneg (hb a ha) hab)

/-- every applied factor lies in [0,1] … -/
theorem C07_sched_trace_bounds (c : Cfg) (n : Num) (h : NumOK n) (layers : List Layer)
    (es : List Event) : ∀ v ∈ (run c n layers CB.init es).trace, 0 ≤ v ∧ v ≤ 1 := by
  have key : ∀ (es : List Event) (s : CB), (∀ v ∈ s.trace, 0 ≤ v ∧ v ≤ 1) →
      ∀ v ∈ (run c n layers s es).trace, 0 ≤ v ∧ v ≤ 1 := by
    intro es
    induction es with
    | nil => intro s hs; exact hs
    | cons e t ih =>
      intro s hs
      apply ih
      have hu : ∀ v ∈ (updateStep c n s).1.trace, 0 ≤ v ∧ v ≤ 1 := by
        rcases updateStep_cases c n s with e | ⟨e, _⟩ | ⟨q, qs, _, _, e⟩
        · rw [e]; exact hs
        · rw [e]; exact hs
        · rw [e]
          intro v hv
          simp only [List.mem_append, List.mem_singleton] at hv
          rcases hv with hv | hv
          · exact hs v hv
          · rw [hv]; exact calcF_bounds c h _
      cases e with
      | trainBegin =>
        simp only [step]
        split_ifs
        · exact hs
        · intro v hv
          simp only [List.mem_append, List.mem_singleton] at hv
          rcases hv with hv | hv
          · exact hs v hv
          · rw [hv]; exact ⟨le_rfl, zero_le_one⟩
        · exact hs
      | epochBegin => simp only [step]; split_ifs; exact hs; exact hu
      | batchBegin => simp only [step]; split_ifs; exact hu; exact hs
      | epochEnd => exact hs
      | forward => exact hs
  exact key es CB.init (by simp [CB.init])

/-- One call of `update_qnoise_factor` whose `update_freq` gate is open, on a non-empty quantizer
    list (ANY kinds, `quantized_linear` included): does not raise, the applied value is
    `calculate_qnoise_factor(initial + num_iters)` — hence 0 before `start` and 1 from `finish` on by
    the theorems above —, it is recorded, and EVERY tracked quantizer then holds exactly it. -/
theorem C07_sched_update_step (c : Cfg) (n : Num) (s : CB) (q : QObj) (qs : List QObj)
    (hq : s.quantizers = some (q :: qs))
    (hg : Int.fmod (c.initial + s.numIters) c.updateFreq = 0) :
    let v := calcF c n (c.initial + s.numIters)
    let r := updateStep c n s
    r.2 = false ∧ r.1.factor = some v ∧ r.1.trace = s.trace ++ [v] ∧ r.1.numIters = s.numIters + 1 ∧
    ∃ qs', r.1.quantizers = some qs' ∧ qs'.map QObj.tag = (q :: qs).map QObj.tag ∧
      ∀ q' ∈ qs', q'.st.eff n.rd = n.rd.r32 v := by
  intro v r
  have e := updateStep_cons c n s q qs hg hq
  refine ⟨by simp [r, e], by simp [r, e, v], by simp [r, e, v], by simp [r, e], ?_⟩
  refine ⟨updateAll n.rd v (q :: qs), by simp [r, e, v], updateAll_tags _ _ _, updateAll_eff _ _ _⟩

/-- closed gate: nothing changes but the counter -/
theorem C07_sched_gate_closed (c : Cfg) (n : Num) (s : CB)
    (hg : Int.fmod (c.initial + s.numIters) c.updateFreq ≠ 0) :
    updateStep c n s = ({ s with numIters := s.numIters + 1 }, false) :=
  updateStep_closed c n s hg

/-- `num_iters` counts exactly the hooks of the configured `freq_type`, so the `k`-th such hook is
    evaluated at `freq = initial_step_or_epoch + k` -/
theorem C07_sched_num_iters (c : Cfg) (n : Num) (layers : List Layer) (es : List Event) (s : CB)
    (hnr : anyRaise c n layers s es = false) :
    (run c n layers s es).numIters = s.numIters + ((es.filter (Event.ticks c)).length : ℤ) :=
  run_numIters c n layers es s hnr

/-- EVERY model, EVERY event history: whenever the callback tracks quantizers, all of them hold the
    float32 of the factor the callback applied last, the callback's own `qnoise_factor` is that
    factor, and the tracked objects are (by identity, in order) the ones `get_quantizers` returns. -/
theorem C07_sched_all_tracked (c : Cfg) (n : Num) (layers : List Layer) (es : List Event)
    (qs : List QObj) (hq : (run c n layers CB.init es).quantizers = some qs) :
    qs.map QObj.tag = (getQuantizers layers).map QObj.tag ∧
    (qs ≠ [] → ∃ v, (run c n layers CB.init es).trace.getLast? = some v ∧
      (run c n layers CB.init es).factor = some v ∧ ∀ q ∈ qs, q.st.eff n.rd = n.rd.r32 v) := by
  have h := sameInv_run c n layers es CB.init (sameInv_init n.rd)
  have ht := tagInv_run c n layers es CB.init (tagInv_init layers)
  unfold SameInv at h
  rw [hq] at h
  exact ⟨ht qs hq, h.2⟩

/-- no hook raises once `on_train_begin` came first (Keras' order) — every model, every history -/
theorem C07_sched_no_raise (c : Cfg) (n : Num) (layers : List Layer) (es : List Event) :
    anyRaise c n layers CB.init (.trainBegin :: es) = false := by
  have h := step_no_raise c n layers CB.init .trainBegin (Or.inr rfl)
  simp only [anyRaise, h.1, Bool.false_or]
  exact run_no_raise c n layers es _ h.2

/-- The property's last clause in full.  Take ANY model (layers with `quantizers` / `quantizer` /
    `get_quantizers()` / `activation` / `recurrent_activation` holders, holding cells, wrapped layers
    and nested models to any depth), ANY quantizer object `q` with the knob that the model holds
    anywhere (`ModelHolds`, defined without reference to the walk), and ANY history Keras can produce
    (`on_train_begin` first, then any interleaving of hooks and forward passes).  Then the callback
    tracks `q` (an entry with `q`'s identity), and every tracked quantizer — that entry included —
    holds the float32 of the factor applied last, which is also the callback's `qnoise_factor`. -/
theorem C07_sched_all_quantizers (c : Cfg) (n : Num) (layers : List Layer) (es : List Event)
    (q : QObj) (hq : ModelHolds layers q) (hk : q.hasKnob = true) :
    ∃ qs v, (run c n layers CB.init (.trainBegin :: es)).quantizers = some qs ∧
      (run c n layers CB.init (.trainBegin :: es)).trace.getLast? = some v ∧
      (run c n layers CB.init (.trainBegin :: es)).factor = some v ∧
      (∀ p ∈ qs, p.st.eff n.rd = n.rd.r32 v) ∧
      ∃ q' ∈ qs, q'.tag = q.tag ∧ q'.st.eff n.rd = n.rd.r32 v := by
  have hsome : (run c n layers CB.init (.trainBegin :: es)).quantizers.isSome = true := by
    simp only [run]
    exact run_isSome c n layers es _ (step_no_raise c n layers CB.init .trainBegin (Or.inr rfl)).2
  obtain ⟨qs, hqs⟩ := Option.isSome_iff_exists.1 hsome
  obtain ⟨ht, hv⟩ := C07_sched_all_tracked c n layers (.trainBegin :: es) qs hqs
  obtain ⟨q0, hq0, hq0t⟩ : ∃ q0 ∈ getQuantizers layers, q0.tag = q.tag := by
    rw [getQuantizers_eq]
    exact foldl_addQ_cover _ [] q ((mem_preList_iff layers q).2 hq) hk
  have hmem : q.tag ∈ qs.map QObj.tag := by
    rw [ht]; exact List.mem_map.2 ⟨q0, hq0, hq0t⟩
  obtain ⟨q', hq', hq't⟩ := List.mem_map.1 hmem
  obtain ⟨v, h1, h2, h3⟩ := hv (List.ne_nil_of_mem hq')
  exact ⟨qs, v, hqs, h1, h2, h3, q', hq', hq't, h3 q' hq'⟩

/-- non-vacuity: a QDense-like layer whose activation is a knob-bearing quantizer -/
example : ModelHolds [Layer.mk ⟨some [], none, none, some ⟨2, .std, true, ⟨.py 1, false, false⟩⟩, none⟩ []]
    ⟨2, .std, true, ⟨.py 1, false, false⟩⟩ :=
  ⟨_, List.mem_singleton.2 rfl, .own (by simp [Layer.attrs, Attrs.held])⟩

/-- regression witness of the former finding C07-sched-quantized-linear: `on_train_begin` on a model
    holding a `quantized_linear` constructed with `use_variables=False` (it used to raise
    AttributeError and leave the quantizer at its constructor factor 1) does not raise, turns
    `use_variables` on and sets the initial factor 0; the first scheduled update reaches it. -/
theorem C07_sched_linear_fixed_witness :
    let q : QObj := ⟨0, .linear, false, ⟨.py 1, false, false⟩⟩
    let layers : List Layer := [.mk ⟨none, some q, none, none, none⟩ []]
    let c : Cfg := ⟨0, 4, false, 1, 0, true⟩
    let n : Num := ⟨fun r => r ^ 3, Rnd.exact⟩
    (step c n layers CB.init .trainBegin).2 = false ∧
    (step c n layers CB.init .trainBegin).1.quantizers =
      some [⟨0, .linear, false, ⟨.py 0, false, true⟩⟩] ∧
    (step c n layers CB.init .trainBegin).1.factor = some 0 ∧
    ((run c n layers CB.init [.trainBegin, .forward, .epochBegin, .epochBegin]).quantizers.map
      fun qs => qs.map fun p => p.st.eff n.rd) = some [1 - (3/4 : ℚ) ^ 3] := by
  refine ⟨?_, ?_, ?_, ?_⟩ <;>
    simp [run, step, emptyish, CB.init, getQuantizers, addLayers, addLayer, Attrs.held, addQ,
      QObj.hasKnob, setAll, setOne, QState.update, QState.build, QState.call, QState.eff, Store.asF,
      Store.isVar, updateStep, updateAll, calcF, Rnd.exact, Int.fmod]

/-! ## 5. get_quantizers -/

/-- the walk is "append if knob-bearing and not yet listed" folded over the pre-order of the model,
    and the pre-order lists exactly the quantizer objects the model holds -/
theorem C07_get_quantizers_walk (layers : List Layer) :
    getQuantizers layers = (preList layers).foldl addQ [] ∧
    ∀ q, q ∈ preList layers ↔ ModelHolds layers q :=
  ⟨getQuantizers_eq layers, mem_preList_iff layers⟩

/-- soundness: what is returned has the knob and is held by the model -/
theorem C07_get_quantizers_mem (layers : List Layer) (q : QObj) (h : q ∈ getQuantizers layers) :
    q.hasKnob = true ∧ ModelHolds layers q := by
  refine ⟨getQuantizers_knob layers q h, ?_⟩
  rw [← mem_preList_iff]
  rw [getQuantizers_eq] at h
  obtain ⟨r, hr, hs, _⟩ := foldl_addQ_shape (preList layers) []
  rw [hr] at h
  exact hs.subset (by simpa using h)

/-- completeness: EVERY knob-bearing quantizer object the model holds — in `layer.quantizers`,
    `layer.quantizer`, `layer.get_quantizers()`, `layer.activation`, `layer.recurrent_activation`, of
    a top-level layer, of a cell, of a wrapped layer or of a layer of a nested model, at any depth —
    is returned (an entry with its identity) -/
theorem C07_get_quantizers_covers (layers : List Layer) (q : QObj) (hq : ModelHolds layers q)
    (hk : q.hasKnob = true) : ∃ q' ∈ getQuantizers layers, q'.tag = q.tag := by
  rw [getQuantizers_eq]
  exact foldl_addQ_cover _ [] q ((mem_preList_iff layers q).2 hq) hk

/-- … the object itself, for well-formed models (equal identity ⇒ equal object) -/
theorem C07_get_quantizers_covers_obj (layers : List Layer)
    (hwf : ∀ a b, ModelHolds layers a → ModelHolds layers b → a.tag = b.tag → a = b)
    (q : QObj) (hq : ModelHolds layers q) (hk : q.hasKnob = true) : q ∈ getQuantizers layers := by
  obtain ⟨q', hq', ht⟩ := C07_get_quantizers_covers layers q hq hk
  have := hwf q' q (C07_get_quantizers_mem layers q' hq').2 hq ht
  rwa [this] at hq'

/-- each object once -/
theorem C07_get_quantizers_once (layers : List Layer) :
    ((getQuantizers layers).map QObj.tag).Nodup := by
  rw [getQuantizers_eq]
  exact foldl_addQ_nodup _ [] (by simp)

/-- discovery order: a sub-sequence of the pre-order (layer order; per layer `quantizers`,
    `quantizer`, `get_quantizers()`, `activation`, `recurrent_activation`, then the held layers) -/
theorem C07_get_quantizers_order (layers : List Layer) :
    (getQuantizers layers).Sublist (preList layers) := by
  rw [getQuantizers_eq]
  obtain ⟨r, hr, hs, _⟩ := foldl_addQ_shape (preList layers) []
  rw [hr]; simpa using hs

/-- without aliasing (no object reached twice) the result is exactly the knob-bearing filter of the
    pre-order — in particular on the models the unrepaired code handled (flat, `quantizers` /
    `quantizer` only) the result and its order are unchanged (`C07_get_quantizers_flat`) -/
theorem C07_get_quantizers_exact (layers : List Layer)
    (hn : ((preList layers).map QObj.tag).Nodup) :
    getQuantizers layers = (preList layers).filter QObj.hasKnob := by
  rw [getQuantizers_eq, foldl_addQ_noalias _ [] (by simp) hn]
  simp

theorem C07_get_quantizers_flat (layers : List Layer)
    (hflat : ∀ l ∈ layers, l.sub = [] ∧ l.attrs.api = none ∧ l.attrs.activation = none ∧
      l.attrs.recurrentActivation = none)
    (hn : ((preList layers).map QObj.tag).Nodup) :
    getQuantizers layers = getQuantizersOld layers := by
  rw [C07_get_quantizers_exact layers hn, preList_eq_flatMap, getQuantizersOld, filter_flatMap']
  apply List.flatMap_congr
  intro l hl
  obtain ⟨h1, h2, h3, h4⟩ := hflat l hl
  cases l with
  | mk a sub =>
    simp only [Layer.sub, Layer.attrs] at h1 h2 h3 h4
    simp [Layer.pre, Attrs.held, h1, h2, h3, h4, preList, Layer.attrs]

/-- regression witness of the former finding C07-getq-activation: a QDense-like layer
    (`quantizers = [kernel, bias]`, `get_quantizers()` the same list, a knob-bearing activation
    quantizer): the activation quantizer was not returned, now it is — each object once -/
theorem C07_get_quantizers_activation_fixed_witness :
    let k : QObj := ⟨0, .std, true, ⟨.py 1, false, false⟩⟩
    let b : QObj := ⟨1, .std, true, ⟨.py 1, false, false⟩⟩
    let a : QObj := ⟨2, .std, true, ⟨.py 1, false, false⟩⟩
    let layers : List Layer := [.mk ⟨some [k, b], none, some [k, b], some a, none⟩ []]
    (getQuantizersOld layers).map QObj.tag = [0, 1] ∧
    (getQuantizers layers).map QObj.tag = [0, 1, 2] ∧ a ∈ getQuantizers layers := by
  simp [getQuantizersOld, Layer.attrs, getQuantizers, addLayers, addLayer, Attrs.held, addQ,
    QObj.hasKnob, List.filter]

/-- regression witness of the former finding C07-getq-rnn-cell: a QSimpleRNN-like layer (no
    `quantizers` attribute, `get_quantizers()` = the cell's list, a cell holding the list and a
    knob-bearing activation): nothing was returned, now all four objects are -/
theorem C07_get_quantizers_cell_fixed_witness :
    let k : QObj := ⟨0, .std, true, ⟨.py 1, false, false⟩⟩
    let r : QObj := ⟨1, .std, true, ⟨.py 1, false, false⟩⟩
    let b : QObj := ⟨2, .noKnob, false, ⟨.py 0, false, false⟩⟩
    let a : QObj := ⟨3, .std, true, ⟨.py 1, false, false⟩⟩
    let cell : Layer := .mk ⟨some [k, r, b], none, none, some a, none⟩ []
    let layers : List Layer := [.mk ⟨none, none, some [k, r, b], some a, none⟩ [cell]]
    getQuantizersOld layers = [] ∧ (getQuantizers layers).map QObj.tag = [0, 1, 3] := by
  simp [getQuantizersOld, Layer.attrs, getQuantizers, addLayers, addLayer, Attrs.held, addQ,
    QObj.hasKnob]

/-- regression witness of the former finding C07-getq-nested-model: a model holding a nested model
    (whose QActivation holds a knob-bearing quantizer) and a QActivation: only the outer quantizer
    was returned, now both are, in layer order -/
theorem C07_get_quantizers_nested_fixed_witness :
    let i : QObj := ⟨0, .std, true, ⟨.py 1, false, false⟩⟩
    let o : QObj := ⟨1, .std, true, ⟨.py 1, false, false⟩⟩
    let inner : Layer := .mk ⟨none, none, none, none, none⟩ [.mk ⟨none, some i, none, none, none⟩ []]
    let layers : List Layer := [inner, .mk ⟨none, some o, none, none, none⟩ []]
    (getQuantizersOld layers).map QObj.tag = [1] ∧ (getQuantizers layers).map QObj.tag = [0, 1] := by
  simp [getQuantizersOld, Layer.attrs, getQuantizers, addLayers, addLayer, Attrs.held, addQ,
    QObj.hasKnob, List.filter]

end QKV.Props.C07
