/-
  C07 — qnoise_factor interpolates exactly between unquantized and quantized outputs.

  Property (verbatim, properties.jsonl): "For quantizers with a quantization-noise knob the output
  for factor f equals surrogate(x) + f*(quantized(x) - surrogate(x)): f=0 returns the unquantized
  activation, f=1 the fully quantized one, and the result is the same whether f is a constructor
  constant or is changed later through the update API (including the variable-backed mode used
  during training). The noise scheduler callback drives that factor with a value that at every
  update step is 0 before its start step and 1 from its finish step on, never decreases over the
  course of training, and is applied to every quantizer of the model that has the knob."

  This file holds ONLY property theorems (and non-vacuity examples).
  Models: QKV.Model.QNoise (mixing expressions, storage state machine), QKV.Model.Sched
  (QNoiseScheduler).  Inputs, factors, list lengths and histories are unbounded.

  Where the code does not satisfy the property the provable part is `…_partial` and the failing
  corner is a `…_counterexample` (each reproduced on the real code by the harness):
    * `update_qnoise_factor(tf.Variable)` on a python-float factor raises (eager mode);
    * `on_train_begin` raises on a model holding a `quantized_linear` (read-only `use_variables`);
    * `get_quantizers` looks only at `layer.quantizers` / `layer.quantizer`: activation quantizers
      of QDense/QConv*, the cell quantizers of recurrent layers and quantizers of nested models
      keep their constructor factor.
-/
import QKV.Lemmas.Sched
import QKV.Lemmas.Rnd
namespace QKV.Props.C07
open QKV QKV.QNoise QKV.Sched

/-! ## 1. the mixing expressions -/

/-- both return forms equal `s + f·(q − s)` -/
theorem C07_mix (s q f : ℚ) (useSte : Bool) : mix s q f useSte = s + f * (q - s) := by
  cases useSte
  · simp only [mix, mixNoSte, Bool.false_eq_true, if_false]; ring
  · simp only [mix, mixSte, if_true]; ring

/-- quantized_linear's form -/
theorem C07_mix_linear (s q f : ℚ) : mixLinear s q f = s + f * (q - s) := rfl

/-- `f = 0` returns the surrogate -/
theorem C07_f0 (s q : ℚ) (useSte : Bool) : mix s q 0 useSte = s ∧ mixLinear s q 0 = s := by
  constructor
  · rw [C07_mix]; ring
  · simp [mixLinear]

/-- `f = 1` returns the quantized value -/
theorem C07_f1 (s q : ℚ) (useSte : Bool) : mix s q 1 useSte = q ∧ mixLinear s q 1 = q := by
  constructor
  · rw [C07_mix]; ring
  · simp [mixLinear]

/-- for `f ∈ [0,1]` the output lies between surrogate and quantized value -/
theorem C07_mix_between (s q f : ℚ) (useSte : Bool) (h0 : 0 ≤ f) (h1 : f ≤ 1) :
    min s q ≤ mix s q f useSte ∧ mix s q f useSte ≤ max s q := by
  rw [C07_mix]
  rcases le_total s q with h | h
  · rw [min_eq_left h, max_eq_right h]
    constructor <;> nlinarith
  · rw [min_eq_right h, max_eq_left h]
    constructor <;> nlinarith

/-- transfer: when no float32 step of the real evaluation rounds (`mixExactB`, which the driver
    reports per element), the float evaluation *is* the exact interpolation with the effective
    float32 factor — for every rounding function. -/
theorem C07_mixF_exact (rd : Rnd) (s q : ℚ) (st : Store) (useSte : Bool)
    (h : mixExactB rd s q st useSte = true) :
    mixF rd s q st useSte = s + st.asF rd * (q - s) := by
  cases useSte
  · simp only [mixExactB, Bool.false_eq_true, if_false, Bool.and_eq_true, decide_eq_true_eq] at h
    obtain ⟨⟨⟨h1, h2⟩, h3⟩, h4⟩ := h
    simp only [mixF, Bool.false_eq_true, if_false, mixNoSteF]
    rw [h1, h2, h3, h4]; ring
  · simp only [mixExactB, if_true, Bool.and_eq_true, decide_eq_true_eq] at h
    obtain ⟨⟨h1, h2⟩, h3⟩ := h
    simp only [mixF, if_true, mixSteF]
    rw [h1, h2, h3]; ring

theorem C07_mixLinearF_exact (rd : Rnd) (s q : ℚ) (st : Store)
    (h : mixLinearExactB rd s q st = true) :
    mixLinearF rd s q st = s + st.asF rd * (q - s) := by
  simp only [mixLinearExactB, Bool.and_eq_true, decide_eq_true_eq] at h
  obtain ⟨⟨h1, h2⟩, h3⟩ := h
  simp only [mixLinearF]
  rw [h1, h2, h3]

/-- non-vacuity: in the real-number reading every evaluation is exact -/
example (s q : ℚ) (st : Store) (u : Bool) : mixExactB Rnd.exact s q st u = true := by
  cases u <;> cases st <;> simp [mixExactB, Rnd.exact, Store.asF, Store.oneMinus]

/-- the STE form and quantized_linear's form are bit-identical for a python-float factor `v` and
    for the Variable that `build(use_variables=True)` makes of it — for every rounding -/
theorem C07_mix_storage_ste (rd : Rnd) (s q v : ℚ) :
    mixF rd s q (.py v) true = mixF rd s q (.var (rd.r32 v)) true ∧
    mixLinearF rd s q (.py v) = mixLinearF rd s q (.var (rd.r32 v)) := ⟨rfl, rfl⟩

/-- the non-STE form agrees between the two storages as soon as `1 − f` rounds the same way
    (python computes `1 − v` in float64, a Variable in float32); always true in exact arithmetic -/
theorem C07_mix_storage_noste_partial (rd : Rnd) (s q v : ℚ)
    (h : rd.r32 (rd.r64 (1 - v)) = rd.r32 (1 - rd.r32 v)) :
    mixF rd s q (.py v) false = mixF rd s q (.var (rd.r32 v)) false := by
  simp [mixF, mixNoSteF, Store.oneMinus, Store.asF, h]

example (v : ℚ) : Rnd.exact.r32 (Rnd.exact.r64 (1 - v)) = Rnd.exact.r32 (1 - Rnd.exact.r32 v) := rfl

/-! ## 2. storage of the factor: python float vs tf.Variable, build / update in any order -/

/-- For every operation list (explicit `build(use_variables=…)`, `update_qnoise_factor`, flipping
    `use_variables`, calls) in which no operation raised: the factor the next call uses is the
    float32 of the last value written through the update API, or the initial one if none was. -/
theorem C07_storage_invariant (rd : Rnd) (s : QState) (ops : List Op)
    (hwf : ∀ op ∈ ops, Op.WF rd op) (hnr : QState.anyRaise rd s ops = false) :
    (QState.run rd s ops).eff rd =
      match lastWrite ops with
      | some v => rd.r32 v
      | none => s.eff rd :=
  storage_invariant rd ops s hwf hnr

/-- an operation that raises leaves the quantizer as it was -/
theorem C07_storage_raise_unchanged (rd : Rnd) (s : QState) (op : Op)
    (h : (s.step rd op).2 = true) : (s.step rd op).1 = s :=
  step_raise_unchanged rd s op h

/-- only `update_qnoise_factor(<tf.Variable>)` on a python-float factor raises -/
theorem C07_storage_raise_iff (rd : Rnd) (s : QState) (op : Op) :
    (s.step rd op).2 = true ↔ (∃ v, op = .updateFromVar v) ∧ s.store.isVar = false := by
  cases op <;> simp [QState.step]
  unfold QState.updateFromVar
  cases s.store <;> simp [Store.isVar]

/-- constructor constant vs update API: a quantizer constructed with factor `v` and then put
    through any build/call operations uses the same factor as any quantizer whose last update
    wrote `v`, whatever happened before and after it and whichever storage either is in. -/
theorem C07_ctor_equals_update (rd : Rnd) (v : ℚ) (s1 s2 : QState) (ops1 ops2 : List Op)
    (h1 : s1.store = .py v) (hl1 : lastWrite ops1 = none) (hl2 : lastWrite ops2 = some v)
    (hwf1 : ∀ op ∈ ops1, Op.WF rd op) (hwf2 : ∀ op ∈ ops2, Op.WF rd op)
    (hnr1 : QState.anyRaise rd s1 ops1 = false) (hnr2 : QState.anyRaise rd s2 ops2 = false) :
    (QState.run rd s1 ops1).eff rd = (QState.run rd s2 ops2).eff rd := by
  rw [storage_invariant rd ops1 s1 hwf1 hnr1, storage_invariant rd ops2 s2 hwf2 hnr2, hl1, hl2]
  simp [QState.eff, h1, Store.asF]

/-- build-before-update and update-before-build give the same factor -/
theorem C07_storage_build_order (rd : Rnd) (s : QState) (b : Bool) (v : ℚ) :
    (QState.run rd s [.build b, .update v, .call]).eff rd = rd.r32 v ∧
    (QState.run rd s [.update v, .build b, .call]).eff rd = rd.r32 v := by
  constructor <;> simp [QState.run, QState.step]

/-- non-vacuity of the hypotheses of `C07_storage_invariant` on a mixed list -/
example : (∀ op ∈ [Op.setUseVars true, .update (1/4), .call, .updateFromVar (1/2), .build false],
            Op.WF Rnd.exact op) ∧
    QState.anyRaise Rnd.exact ⟨.py 1, false, false⟩
      [Op.setUseVars true, .update (1/4), .call, .updateFromVar (1/2), .build false] = false := by
  constructor
  · intro op hop; cases op <;> simp [Op.WF, Rnd.exact]
  · simp [QState.anyRaise, QState.step, QState.call, QState.build, QState.update, QState.updateFromVar,
      Store.asF, Rnd.exact]

/-- the update API given a `tf.Variable` while the factor is still a python float raises and the
    value is not applied (TF2 eager: `Variable.eval()` is not supported) -/
theorem C07_update_from_variable_counterexample :
    ∃ (s : QState) (v : ℚ), (s.step Rnd.exact (.updateFromVar v)).2 = true ∧
      ((s.step Rnd.exact (.updateFromVar v)).1).eff Rnd.exact ≠ v := by
  refine ⟨⟨.py 1, false, false⟩, 1/2, ?_, ?_⟩
  · simp [QState.step, QState.updateFromVar]
  · simp [QState.step, QState.updateFromVar, QState.eff, Store.asF, Rnd.exact]

/-! ## 3. calculate_qnoise_factor -/

/-- `r ↦ r^(k+1)` with exact arithmetic satisfies the hypotheses (exponent a positive natural) -/
theorem C07_numOK_nat_pow (k : ℕ) : NumOK ⟨fun r => r ^ (k + 1), Rnd.exact⟩ where
  pw_mono := fun a b ha hab _ => pow_le_pow_left₀ ha hab _
  pw_zero := by simp
  pw_one := by simp
  r64_mono := fun _ _ _ h => h
  r64_zero := rfl
  r64_one := rfl

/-- the code's own arithmetic (IEEE float64 rounding of the division and of the subtraction, as run
    by the driver) satisfies the hypotheses for EVERY power function that is monotone on [0,1] with
    0 ↦ 0, 1 ↦ 1 — the executable `rnd64` is proved monotone on the non-negatives and fixes 0, 1 -/
theorem C07_numOK_ieee (pw : ℚ → ℚ) (hm : ∀ a b, 0 ≤ a → a ≤ b → b ≤ 1 → pw a ≤ pw b)
    (h0 : pw 0 = 0) (h1 : pw 1 = 1) : NumOK ⟨pw, Rnd.ieee⟩ where
  pw_mono := hm
  pw_zero := h0
  pw_one := h1
  r64_mono := fun _ _ ha hab => rnd64_mono_nonneg ha hab
  r64_zero := rnd64_zero
  r64_one := rnd64_one

/-- non-vacuity: an exact natural power is such a function -/
example (k : ℕ) : NumOK ⟨fun r => r ^ (k + 1), Rnd.ieee⟩ :=
  C07_numOK_ieee _ (fun _ _ ha hab _ => pow_le_pow_left₀ ha hab _) (by simp) (by simp)

theorem C07_sched_bounds (c : Cfg) (n : Num) (h : NumOK n) (freq : ℤ) :
    0 ≤ calcF c n freq ∧ calcF c n freq ≤ 1 := calcF_bounds c h freq

theorem C07_sched_before_start (c : Cfg) (n : Num) (freq : ℤ) (h : freq < c.start) :
    calcF c n freq = 0 := by simp [calcF, h]

theorem C07_sched_after_finish (c : Cfg) (n : Num) (h : NumOK n) (freq : ℤ)
    (hsf : c.start ≤ c.finish) (hf : c.finish ≤ freq) : calcF c n freq = 1 := by
  unfold calcF
  have h1 : ¬ freq < c.start := by omega
  rw [if_neg h1]
  split_ifs with h2
  · have : freq = c.finish := by omega
    subst this
    simp [h.r64_zero, h.pw_zero, h.r64_one]
  · rfl

/-- the factor is non-decreasing in the step/epoch number -/
theorem C07_sched_calc_mono (c : Cfg) (n : Num) (h : NumOK n) (f1 f2 : ℤ) (h12 : f1 ≤ f2) :
    calcF c n f1 ≤ calcF c n f2 := calcF_mono c h h12

/-- `start == finish`: a step function at `start` (no hypotheses on the power function) -/
theorem C07_sched_start_eq_finish (c : Cfg) (n : Num) (freq : ℤ) (h : c.start = c.finish) :
    calcF c n freq = if freq < c.start then 0 else 1 := by
  unfold calcF
  split_ifs with h1 h2
  · rfl
  · exact absurd h h2.2
  · rfl

/-- exact value on the ramp for a natural exponent `k`: `1 − ((finish − freq)/(finish − start))^k` -/
theorem C07_sched_ramp_value (c : Cfg) (k : ℕ) (freq : ℤ) (h1 : c.start ≤ freq) (h2 : freq ≤ c.finish)
    (h3 : c.start ≠ c.finish) :
    calcF c ⟨fun r => r ^ k, Rnd.exact⟩ freq =
      1 - (((c.finish - freq : ℤ) : ℚ) / ((c.finish - c.start : ℤ) : ℚ)) ^ k := by
  unfold calcF
  rw [if_neg (by omega), if_pos ⟨h2, h3⟩]
  rfl

/-- the hypothesis `pw 0 = 0` is needed: with exponent 0 (`np.power(0., 0.) = 1`) the factor at the
    finish step is 0, not 1 -/
theorem C07_sched_exponent_zero_counterexample :
    calcF ⟨0, 4, false, 1, 0, true⟩ ⟨fun r => r ^ 0, Rnd.exact⟩ 4 = 0 := by
  simp [calcF, Rnd.exact]

/-! ## 4. the scheduler over every event history -/

/-- Over every event history (any interleaving of on_train_begin / on_epoch_begin / on_epoch_end /
    on_train_batch_begin hooks and forward passes, any model) the sequence of factors the callback
    applies is non-decreasing. -/
theorem C07_sched_mono (c : Cfg) (n : Num) (h : NumOK n) (layers : List Layer) (es : List Event) :
    (run c n layers CB.init es).trace.Pairwise (· ≤ ·) :=
  (monoInv_run c h layers es CB.init (monoInv_init c n)).1

/-- … and so is the sequence of float32 values the tracked (Variable-backed) quantizers hold -/
theorem C07_sched_mono_f32 (c : Cfg) (pw : ℚ → ℚ) (hm : ∀ a b, 0 ≤ a → a ≤ b → b ≤ 1 → pw a ≤ pw b)
    (h0 : pw 0 = 0) (h1 : pw 1 = 1) (layers : List Layer) (es : List Event) :
    ((run c ⟨pw, Rnd.ieee⟩ layers CB.init es).trace.map rnd32).Pairwise (· ≤ ·) := by
  have h := C07_numOK_ieee pw hm h0 h1
  have hmono := (monoInv_run c h layers es CB.init (monoInv_init c _)).1
  have hb : ∀ v ∈ (run c ⟨pw, Rnd.ieee⟩ layers CB.init es).trace, 0 ≤ v := by
    intro v hv
    -- every trace entry is 0 or a value of calcF, both non-negative
    have key : ∀ (es : List Event) (s : CB), (∀ v ∈ s.trace, 0 ≤ v) →
        ∀ v ∈ (run c ⟨pw, Rnd.ieee⟩ layers s es).trace, 0 ≤ v := by
      intro es
      induction es with
      | nil => intro s hs; exact hs
      | cons e t ih =>
        intro s hs
        apply ih
        have hu : ∀ v ∈ (updateStep c ⟨pw, Rnd.ieee⟩ s).1.trace, 0 ≤ v := by
          rcases updateStep_cases c ⟨pw, Rnd.ieee⟩ s with e | ⟨e, _⟩ | ⟨q, qs, _, _, e⟩
          · rw [e]; exact hs
          · rw [e]; exact hs
          · rw [e]
            intro v hv
            simp only [List.mem_append, List.mem_singleton] at hv
            rcases hv with hv | hv
            · exact hs v hv
            · rw [hv]; exact (calcF_bounds c h _).1
        cases e with
        | trainBegin =>
          simp only [step]
          split_ifs
          · exact hs
          · intro v hv
            simp only [List.mem_append, List.mem_singleton] at hv
            rcases hv with hv | hv
            · exact hs v hv
            · rw [hv]
          · exact hs
        | epochBegin => simp only [step]; split_ifs; exact hs; exact hu
        | batchBegin => simp only [step]; split_ifs; exact hu; exact hs
        | epochEnd => exact hs
        | forward => exact hs
    exact key es CB.init (by simp [CB.init]) v hv
  rw [List.pairwise_map]
  exact hmono.imp_of_mem (fun {a b} ha _ hab => rnd32_mono_nonneg (hb a ha) hab)

/-- every applied factor lies in [0,1] … -/
theorem C07_sched_trace_bounds (c : Cfg) (n : Num) (h : NumOK n) (layers : List Layer)
    (es : List Event) : ∀ v ∈ (run c n layers CB.init es).trace, 0 ≤ v ∧ v ≤ 1 := by
  have key : ∀ (es : List Event) (s : CB), (∀ v ∈ s.trace, 0 ≤ v ∧ v ≤ 1) →
      ∀ v ∈ (run c n layers s es).trace, 0 ≤ v ∧ v ≤ 1 := by
    intro es
    induction es with
    | nil => intro s hs; exact hs
    | cons e t ih =>
      intro s hs
      apply ih
      have hu : ∀ v ∈ (updateStep c n s).1.trace, 0 ≤ v ∧ v ≤ 1 := by
        rcases updateStep_cases c n s with e | ⟨e, _⟩ | ⟨q, qs, _, _, e⟩
        · rw [e]; exact hs
        · rw [e]; exact hs
        · rw [e]
          intro v hv
          simp only [List.mem_append, List.mem_singleton] at hv
          rcases hv with hv | hv
          · exact hs v hv
          · rw [hv]; exact calcF_bounds c h _
      cases e with
      | trainBegin =>
        simp only [step]
        split_ifs
        · exact hs
        · intro v hv
          simp only [List.mem_append, List.mem_singleton] at hv
          rcases hv with hv | hv
          · exact hs v hv
          · rw [hv]; exact ⟨le_rfl, zero_le_one⟩
        · exact hs
      | epochBegin => simp only [step]; split_ifs; exact hs; exact hu
      | batchBegin => simp only [step]; split_ifs; exact hu; exact hs
      | epochEnd => exact hs
      | forward => exact hs
  exact key es CB.init (by simp [CB.init])

/-- One call of `update_qnoise_factor` whose `update_freq` gate is open, on a non-empty quantizer
    list (ANY kinds, `quantized_linear` included): does not raise, the applied value is
    `calculate_qnoise_factor(initial + num_iters)` — hence 0 before `start` and 1 from `finish` on by
    the theorems above —, it is recorded, and EVERY tracked quantizer then holds exactly it. -/
theorem C07_sched_update_step (c : Cfg) (n : Num) (s : CB) (q : QObj) (qs : List QObj)
    (hq : s.quantizers = some (q :: qs))
    (hg : Int.fmod (c.initial + s.numIters) c.updateFreq = 0) :
    let v := calcF c n (c.initial + s.numIters)
    let r := updateStep c n s
    r.2 = false ∧ r.1.factor = some v ∧ r.1.trace = s.trace ++ [v] ∧ r.1.numIters = s.numIters + 1 ∧
    ∃ qs', r.1.quantizers = some qs' ∧ qs'.map QObj.tag = (q :: qs).map QObj.tag ∧
      ∀ q' ∈ qs', q'.st.eff n.rd = n.rd.r32 v := by
  intro v r
  have e := updateStep_cons c n s q qs hg hq
  refine ⟨by simp [r, e], by simp [r, e, v], by simp [r, e, v], by simp [r, e], ?_⟩
  refine ⟨updateAll n.rd v (q :: qs), by simp [r, e, v], updateAll_tags _ _ _, updateAll_eff _ _ _⟩

/-- closed gate: nothing changes but the counter -/
theorem C07_sched_gate_closed (c : Cfg) (n : Num) (s : CB)
    (hg : Int.fmod (c.initial + s.numIters) c.updateFreq ≠ 0) :
    updateStep c n s = ({ s with numIters := s.numIters + 1 }, false) :=
  updateStep_closed c n s hg

/-- `num_iters` counts exactly the hooks of the configured `freq_type`, so the `k`-th such hook is
    evaluated at `freq = initial_step_or_epoch + k` -/
theorem C07_sched_num_iters (c : Cfg) (n : Num) (layers : List Layer) (es : List Event) (s : CB)
    (hnr : anyRaise c n layers s es = false) :
    (run c n layers s es).numIters = s.numIters + ((es.filter (Event.ticks c)).length : ℤ) :=
  run_numIters c n layers es s hnr

/-- Models whose knob-bearing quantizers (as found by `get_quantizers`) are all of the standard
    kind: after EVERY event history all tracked quantizers hold the float32 of the factor the
    callback applied last, and the callback's own `qnoise_factor` is that factor. -/
theorem C07_sched_all_quantizers_partial (c : Cfg) (n : Num) (layers : List Layer)
    (hstd : ∀ q ∈ getQuantizers layers, q.kind = .std) (es : List Event) (qs : List QObj)
    (hq : (run c n layers CB.init es).quantizers = some qs) (hne : qs ≠ []) :
    ∃ v, (run c n layers CB.init es).trace.getLast? = some v ∧
      (run c n layers CB.init es).factor = some v ∧ ∀ q ∈ qs, q.st.eff n.rd = n.rd.r32 v := by
  have h := sameInv_run c n layers hstd es CB.init (sameInv_init n.rd)
  unfold SameInv at h
  rw [hq] at h
  exact h.2.2 hne

/-- … and for such models no hook raises once `on_train_begin` came first (Keras' order) -/
theorem C07_sched_no_raise (c : Cfg) (n : Num) (layers : List Layer)
    (hstd : ∀ q ∈ getQuantizers layers, q.kind = .std) (es : List Event) :
    anyRaise c n layers CB.init (.trainBegin :: es) = false := by
  have h := step_no_raise c n layers hstd CB.init .trainBegin (Or.inr rfl)
  simp only [anyRaise, h.1, Bool.false_or]
  exact run_no_raise c n layers hstd es _ h.2

/-- `on_train_begin` on a model holding a `quantized_linear` raises (AttributeError: read-only
    `use_variables`) and the quantizer keeps its constructor factor 1 instead of the initial 0. -/
theorem C07_sched_linear_counterexample :
    let q : QObj := ⟨0, .linear, false, ⟨.py 1, false, false⟩⟩
    let layers : List Layer := [⟨none, some q, []⟩]
    let c : Cfg := ⟨0, 4, false, 1, 0, true⟩
    let n : Num := ⟨fun r => r ^ 3, Rnd.exact⟩
    (step c n layers CB.init .trainBegin).2 = true ∧
    (step c n layers CB.init .trainBegin).1.quantizers = some [q] ∧
    (step c n layers CB.init .trainBegin).1.factor = none := by
  simp [step, emptyish, CB.init, getQuantizers, layerQuantizers, QObj.hasKnob, setAll, setOne]

/-! ## 5. get_quantizers -/

/-- `get_quantizers` returns exactly the knob-bearing objects held in `layer.quantizers` /
    `layer.quantizer`, in layer order then attribute order then list order -/
theorem C07_get_quantizers_exact (layers : List Layer) :
    getQuantizers layers = (layers.flatMap Layer.held).filter QObj.hasKnob :=
  getQuantizers_eq_filter layers

theorem C07_get_quantizers_mem (layers : List Layer) (q : QObj) :
    q ∈ getQuantizers layers ↔ q.hasKnob = true ∧ ∃ l ∈ layers, q ∈ l.held := by
  rw [getQuantizers_eq_filter]
  simp only [List.mem_filter, List.mem_flatMap]
  tauto

theorem C07_get_quantizers_order (layers : List Layer) :
    (getQuantizers layers).Sublist (layers.flatMap Layer.held) := by
  rw [getQuantizers_eq_filter]; exact List.filter_sublist

/-- every knob-bearing quantizer of the model is found, PROVIDED no layer holds one outside the
    two attributes -/
theorem C07_get_quantizers_covers_partial (layers : List Layer)
    (hh : ∀ l ∈ layers, ∀ q ∈ l.hidden, q.hasKnob = false) :
    ∀ l ∈ layers, ∀ q ∈ l.all, q.hasKnob = true → q ∈ getQuantizers layers := by
  intro l hl q hq hk
  rw [C07_get_quantizers_mem]
  refine ⟨hk, l, hl, ?_⟩
  simp only [Layer.all, List.mem_append] at hq
  rcases hq with hq | hq
  · exact hq
  · rw [hh l hl q hq] at hk; cases hk

/-- a QDense-like layer (`quantizers = [kernel, bias]`, activation quantizer held elsewhere):
    the activation quantizer has the knob and is not returned, so the scheduler never updates it -/
theorem C07_get_quantizers_covers_counterexample :
    let k : QObj := ⟨0, .std, true, ⟨.py 1, false, false⟩⟩
    let b : QObj := ⟨1, .std, true, ⟨.py 1, false, false⟩⟩
    let a : QObj := ⟨2, .std, true, ⟨.py 1, false, false⟩⟩
    let layers : List Layer := [⟨some [k, b], none, [a]⟩]
    a.hasKnob = true ∧ (∃ l ∈ layers, a ∈ l.all) ∧ a ∉ getQuantizers layers ∧
    (getQuantizers layers).map QObj.tag = [0, 1] := by
  simp [getQuantizers, layerQuantizers, QObj.hasKnob, Layer.all, Layer.held, List.filter]

end QKV.Props.C07
