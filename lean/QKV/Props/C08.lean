/-
  C08 — Stochastic rounding: adjacent code, unbiased in training, exact at inference.

  Property (verbatim, properties.jsonl): With stochastic rounding enabled and the training phase
  on, every output element is one of the two representable codes adjacent to the (clipped) input
  - never further away - and its expectation over the random draw equals that input; inputs that
  are already codes are returned unchanged. With the training phase off the same quantizers are
  deterministic and return exactly what their round-to-nearest configuration returns, and the
  stochastic binary/ternary quantizers return exactly their deterministic counterparts.

  Model: QKV.Model.Stoch (randomness = explicit arguments `u`, one per `tf.random.uniform` call;
  `phase` = `K.learning_phase()`).  This file holds ONLY property theorems and non-vacuity
  examples.  Every theorem quantifies over all inputs `x`, all draws `u` (no range restriction
  unless stated), all bit widths / integer bits / flags / scales.

  "Expectation equals the input" is stated algebraically: the set of draws that round up is
  exactly `{u | u ≤ frac}` (`*_up_iff`; `{u | u < frac}` for the power-of-two classes),
  `0 ≤ frac < 1` (`*_frac_mem`), so for `u` uniform on `[0,1)` the upper code has probability
  `frac`, and `(1-frac)·below + frac·above = input`
  (`*_unbiased`).  The measure-theoretic wrapping (Lebesgue measure of `[0,frac]` is `frac`) is
  not formalised.

  Four defects found by this check were repaired in /repo (known/C08.json "fixed"; the fourth, c0623bb, by the C06 fix round); the model
  mirrors the repaired code and each repair keeps a regression witness here:
   e93b27f  quantized_relu / quantized_tanh / quantized_sigmoid pass precision=1.0
            (`C08_act_impl_precision`, `C08_relu_regression_9_32`; what precision 1/2 did:
            `C08_precision_half_not_adjacent`).
   2fe48c1  `stochastic_round_po2` tests `y <= val`: exact powers of two are fixed for the draw 0
            as well (`C08_po2_u0_regression`).
   65bdf0f  `binary(use_stochastic_rounding=True)` at phase 0 fills with `tf.ones_like(x)`
            (`C08_binary_infer_shape`, witness 3x4).
-/
import QKV.Lemmas.Stoch
namespace QKV.Props.C08
open QKV
open QKV.Stoch

/-! ## 1. `stochastic_round` and `_round_through` -/

/-- adjacent: the multiple of the precision just below or just above the input, for every draw -/
theorem C08_round_adjacent (x π u : ℚ) (hπ : 0 < π) :
    stochasticRound x π u = π * (⌊x / π⌋ : ℚ) ∨ stochasticRound x π u = π * (⌈x / π⌉ : ℚ) :=
  stochasticRound_mem x π u hπ

/-- codes (multiples of the precision) are fixed points for every draw -/
theorem C08_round_code_fixed (π u : ℚ) (k : ℤ) (hπ : 0 < π) :
    stochasticRound (π * k) π u = π * k := stochasticRound_fixed π u k hπ

/-- the draws that round up are exactly `u ≤ frac` -/
theorem C08_round_up_iff (x π u : ℚ) (hπ : 0 < π) (hx : (⌊x / π⌋ : ℚ) ≠ x / π) :
    stochasticRound x π u = π * (⌈x / π⌉ : ℚ) ↔ u ≤ x / π - (⌊x / π⌋ : ℚ) :=
  stochasticRound_up_iff x π u hπ hx

theorem C08_round_frac_mem (t : ℚ) : 0 ≤ t - (⌊t⌋ : ℚ) ∧ t - (⌊t⌋ : ℚ) < 1 := frac_mem t

/-- … hence the mean over a uniform draw is the input -/
theorem C08_round_unbiased (x π : ℚ) (hπ : 0 < π) :
    (1 - (x / π - (⌊x / π⌋ : ℚ))) * (π * (⌊x / π⌋ : ℚ))
      + (x / π - (⌊x / π⌋ : ℚ)) * (π * (⌈x / π⌉ : ℚ)) = x := stochasticRound_mean x π hπ

/-- `_round_through`: with the learning phase off, the stochastic flag, the precision and the
    draw are irrelevant — it is `tf.round` (half to even), exactly as with the flag off. -/
theorem C08_round_through_inference (stoch : Bool) (π x u : ℚ) (phase' : Bool) (π' u' : ℚ) :
    roundThrough false stoch π x u = roundThrough phase' false π' x u' := by
  rw [roundThrough_infer, roundThrough_det]

example : stochasticRound (3 / 10) 1 (29 / 100) = 1 := by
  rw [stochasticRound_eq _ _ _ (by norm_num)]; norm_num
example : stochasticRound (3 / 10) 1 (31 / 100) = 0 := by
  rw [stochasticRound_eq _ _ _ (by norm_num)]; norm_num

/-! ## 2. quantized_bits and quantized_linear (precision 1): the full property -/

/-- a configuration with stochastic rounding on and at least one magnitude bit -/
structure BitsOK (c : Stoch.BitsCfg) : Prop where
  stoch : c.stoch = true
  ub : 0 < c.bits - b2z c.keepNegative

example : BitsOK { bits := 4, integer := 1, symmetric := false, keepNegative := true, alpha := 1,
                   stoch := true } := ⟨rfl, by decide⟩

theorem C08_bits_adjacent (c : Stoch.BitsCfg) (h : BitsOK c) (x u : ℚ) :
    quantizedBits c true x u = (bitsLat c).below (bitsLevel c x) ∨
    quantizedBits c true x u = (bitsLat c).above (bitsLevel c x) := by
  rw [quantizedBits_train c h.stoch h.ub, ← Lat.belowP_one, ← Lat.aboveP_one]
  exact latQ_mem 1 one_pos _ _ _

theorem C08_bits_unbiased (c : Stoch.BitsCfg) (x : ℚ) :
    (1 - (bitsLat c).frac (bitsLevel c x)) * (bitsLat c).below (bitsLevel c x)
      + (bitsLat c).frac (bitsLevel c x) * (bitsLat c).above (bitsLevel c x)
      = (bitsLat c).clipped (bitsLevel c x) := by
  rw [← Lat.belowP_one, ← Lat.aboveP_one, ← Lat.fracP_one]; exact latQ_mean 1 one_pos _ _

theorem C08_bits_up_iff (c : Stoch.BitsCfg) (h : BitsOK c) (hα : c.alpha ≠ 0) (x u : ℚ)
    (hx : (bitsLat c).below (bitsLevel c x) ≠ (bitsLat c).above (bitsLevel c x)) :
    quantizedBits c true x u = (bitsLat c).above (bitsLevel c x) ↔ u ≤ (bitsLat c).frac (bitsLevel c x) := by
  rw [quantizedBits_train c h.stoch h.ub, ← Lat.aboveP_one, ← Lat.fracP_one]
  have hpost : (bitsLat c).post ≠ 0 := by
    simp only [bitsLat]
    exact div_ne_zero (mul_ne_zero hα (pow2_ne_zero _)) (pow2_ne_zero _)
  apply latQ_up_iff 1 one_pos _ hpost
  intro e
  apply hx
  simp only [Lat.below, Lat.above, fl_eq, ce_eq]
  rw [div_one] at e
  have : ⌈(bitsLat c).lvl (bitsLevel c x)⌉ = ⌊(bitsLat c).lvl (bitsLevel c x)⌋ := by
    rw [← e]; simp
  rw [this]

theorem C08_bits_frac_mem (c : Stoch.BitsCfg) (x : ℚ) :
    0 ≤ (bitsLat c).frac (bitsLevel c x) ∧ (bitsLat c).frac (bitsLevel c x) < 1 := by
  rw [← Lat.fracP_one]; exact Lat.fracP_mem _ _ _

/-- inputs whose level is an integer inside the clip range — the codes, when `alpha = 1` — are
    returned unchanged by every draw -/
theorem C08_bits_code_fixed (c : Stoch.BitsCfg) (h : BitsOK c) (hα : c.alpha = 1) (x u : ℚ)
    (hc : (bitsLat c).isCode x = true) : quantizedBits c true x u = x := by
  rw [quantizedBits_train c h.stoch h.ub]
  have hm := pow2_ne_zero (c.bits - b2z c.keepNegative)
  have hi := pow2_ne_zero c.integer
  simp only [Lat.isCode, Bool.and_eq_true, decide_eq_true_eq] at hc
  obtain ⟨⟨h1, h2⟩, h3⟩ := hc
  have hlev : x / (bitsLat c).post = bitsLevel c x := by
    simp only [bitsLat, bitsLevel, hα]; field_simp
  rw [hlev] at h1 h2 h3
  have hoff : (bitsLat c).off = 0 := rfl
  rw [hoff, sub_zero] at h1
  have hk : (bitsLat c).lvl (bitsLevel c x) = ((bitsLevel c x).num : ℚ) := by
    rw [Lat.lvl, clip_of_mem h2 h3, hoff, sub_zero, Rat.coe_int_num_of_den_eq_one h1]
  rw [latQ_fixed (by unfold bitsPrecision; exact isPrec_one) _ _ _ _ hk, Lat.clipped,
    clip_of_mem h2 h3, ← hlev]
  have hpost : (bitsLat c).post ≠ 0 := by
    simp only [bitsLat, hα]; exact div_ne_zero (mul_ne_zero one_ne_zero hi) hm
  field_simp

/-- phase 0: exactly the quantizer with the flag off (any phase, any draw) -/
theorem C08_bits_inference (c : Stoch.BitsCfg) (x u : ℚ) (phase' : Bool) (u' : ℚ) :
    quantizedBits c false x u = quantizedBits { c with stoch := false } phase' x u' := by
  unfold quantizedBits; simp only [roundThrough_infer, roundThrough_det]

/-! ### 2b. the two corners of quantized_bits in which `use_stochastic_rounding` is dead code

* `bits - keep_negative ≤ 0` (1 bit with a sign): the `else` branch emits `sign(x)` and never calls
  `_round_through` — unlike quantized_linear, whose 1-bit path goes through `_round_through` with
  the half-level shift and IS stochastic (`C08_linear_adjacent` … hold for it).
* `alpha = "auto"` / `"auto_po2"`: the string-alpha branch returns before the `_round_through` call.
In both the output in training is the deterministic one for every draw, so its expectation is not
the input: recorded findings `C08-bits-sign-flag-ignored`, `C08-bits-auto-flag-ignored`. -/

theorem C08_bits_sign_flag_ignored (c : Stoch.BitsCfg) (h : c.bits - b2z c.keepNegative ≤ 0)
    (phase phase' s' : Bool) (x u u' : ℚ) :
    quantizedBits c phase x u = quantizedBits { c with stoch := s' } phase' x u' := by
  unfold quantizedBits
  have hn : ¬ 0 < c.bits - b2z c.keepNegative := not_lt.mpr h
  simp only [hn, if_false]

/-- `quantized_bits(1, 0, use_stochastic_rounding=True)(0.3)` is `+1` for every draw: the codes
    adjacent to 0.3 are `-1` and `+1`, unbiasedness needs `P(+1) = 0.65`, the code gives 1 -/
theorem C08_bits_sign_unbiased_counterexample (phase : Bool) (u : ℚ) :
    quantizedBits { bits := 1, integer := 0, symmetric := false, keepNegative := true, alpha := 1,
                    stoch := true } phase (3 / 10) u = 1 ∧ (1 : ℚ) ≠ 3 / 10 := by
  refine ⟨?_, by norm_num⟩
  simp [quantizedBits, b2z, sgn1]
  norm_num

theorem C08_bits_auto_flag_ignored (c : Stoch.BitsCfg) (phase phase' s' : Bool) (S x u u' : ℚ) :
    quantizedBitsAny true c phase S x u = quantizedBitsAny true { c with stoch := s' } phase' S x u' := by
  simp [quantizedBitsAny, quantizedBitsAuto]

/-- `quantized_bits(4, 0, alpha="auto_po2", use_stochastic_rounding=True)` with the scale the call
    settles on equal to 1 maps `0.3` to `0.25` for every draw and in either phase (the adjacent codes
    are `0.25` and `0.375`): the mean is `0.25`, not `0.3` -/
theorem C08_bits_auto_unbiased_counterexample (phase : Bool) (u : ℚ) :
    quantizedBitsAny true { bits := 4, integer := 0, symmetric := true, keepNegative := true, alpha := 1,
                            stoch := true } phase 1 (3 / 10) u = 1 / 4 ∧ (1 / 4 : ℚ) ≠ 3 / 10 := by
  refine ⟨?_, by norm_num⟩
  have h8 : pow2 3 = 8 := by simp [pow2_eq_zpow]; norm_num
  have h1 : pow2 0 = 1 := pow2_zero
  have h83 : pow2 (4 - 1) = 8 := by simp [pow2_eq_zpow]; norm_num
  have hfl : ⌊(3 / 10 : ℚ) * 8 + 1 / 2⌋ = 2 := by
    rw [Int.floor_eq_iff]; constructor <;> norm_num
  have hfl' : ⌊(29 / 10 : ℚ)⌋ = 2 := by
    rw [Int.floor_eq_iff]; constructor <;> norm_num
  simp only [quantizedBitsAny, quantizedBitsAuto, if_true, b2z, h83, h8, h1, fl_eq, absR, sgn]
  norm_num [h8, hfl, hfl']

theorem C08_linear_adjacent (c : Stoch.BitsCfg) (hs : c.stoch = true) (x u : ℚ) :
    quantizedLinear c true x u = (linLat c).below (linLevel c x) ∨
    quantizedLinear c true x u = (linLat c).above (linLevel c x) := by
  rw [quantizedLinear_train c hs, ← Lat.belowP_one, ← Lat.aboveP_one]
  exact latQ_mem 1 one_pos _ _ _

theorem C08_linear_unbiased (c : Stoch.BitsCfg) (x : ℚ) :
    (1 - (linLat c).frac (linLevel c x)) * (linLat c).below (linLevel c x)
      + (linLat c).frac (linLevel c x) * (linLat c).above (linLevel c x)
      = (linLat c).clipped (linLevel c x) := by
  rw [← Lat.belowP_one, ← Lat.aboveP_one, ← Lat.fracP_one]; exact latQ_mean 1 one_pos _ _

theorem C08_linear_up_iff (c : Stoch.BitsCfg) (hs : c.stoch = true) (hα : c.alpha ≠ 0) (x u : ℚ)
    (hx : (linLat c).below (linLevel c x) ≠ (linLat c).above (linLevel c x)) :
    quantizedLinear c true x u = (linLat c).above (linLevel c x) ↔ u ≤ (linLat c).frac (linLevel c x) := by
  rw [quantizedLinear_train c hs, ← Lat.aboveP_one, ← Lat.fracP_one]
  have hpost : (linLat c).post ≠ 0 := by
    simp only [linLat, linScale]; exact mul_ne_zero hα (pow2_ne_zero _)
  apply latQ_up_iff 1 one_pos _ hpost
  intro e
  apply hx
  simp only [Lat.below, Lat.above, fl_eq, ce_eq]
  rw [div_one] at e
  have : ⌈(linLat c).lvl (linLevel c x)⌉ = ⌊(linLat c).lvl (linLevel c x)⌋ := by
    rw [← e]; simp
  rw [this]

/-- codes of quantized_linear (any alpha ≠ 0) are fixed points -/
theorem C08_linear_code_fixed (c : Stoch.BitsCfg) (hs : c.stoch = true) (hα : c.alpha ≠ 0) (x u : ℚ)
    (hc : (linLat c).isCode x = true) : quantizedLinear c true x u = x := by
  rw [quantizedLinear_train c hs]
  simp only [Lat.isCode, Bool.and_eq_true, decide_eq_true_eq] at hc
  obtain ⟨⟨h1, h2⟩, h3⟩ := hc
  have hpost : (linLat c).post ≠ 0 := by
    simp only [linLat, linScale]; exact mul_ne_zero hα (pow2_ne_zero _)
  have hlev : x / (linLat c).post = linLevel c x := rfl
  rw [hlev] at h1 h2 h3
  have hk : (linLat c).lvl (linLevel c x) = (((linLevel c x) - (linLat c).off).num : ℚ) := by
    rw [Lat.lvl, clip_of_mem h2 h3, Rat.coe_int_num_of_den_eq_one h1]
  rw [latQ_fixed (by unfold bitsPrecision; exact isPrec_one) _ _ _ _ hk, Lat.clipped,
    clip_of_mem h2 h3, ← hlev]
  field_simp

theorem C08_linear_inference (c : Stoch.BitsCfg) (x u : ℚ) (phase' : Bool) (u' : ℚ) :
    quantizedLinear c false x u = quantizedLinear { c with stoch := false } phase' x u' := by
  unfold quantizedLinear linScale linClipBounds linSign
  simp only [roundThrough_infer, roundThrough_det]

/-! ## 3. quantized_relu / quantized_tanh / quantized_sigmoid

`π` is the precision `_round_through` runs with; the code passes `actPrecision = 1`
(`C08_act_impl_precision`).  The `*_prec` theorems hold for every precision `1/n`; the theorems
without suffix are the property for the implementation (`π = actPrecision`). -/

structure ReluOK (c : Stoch.ReluCfg) : Prop where
  stoch : c.stoch = true
  slope : c.negSlope = 0
  bits : 1 ≤ c.bits

example : ReluOK { bits := 4, integer := 0, negSlope := 0, stoch := true } := ⟨rfl, rfl, by decide⟩

theorem C08_relu_adjacent_prec {π : ℚ} (hπ : IsPrec π) (c : Stoch.ReluCfg) (h : ReluOK c) (x u1 u2 : ℚ) :
    quantizedRelu π c true x u1 u2 = (reluLat c).belowP π (reluLevel c x) ∨
    quantizedRelu π c true x u1 u2 = (reluLat c).aboveP π (reluLevel c x) := by
  rw [quantizedRelu_train hπ c h.stoch h.slope h.bits]; exact latQ_mem π hπ.pos _ _ _

/-- the precision the implementation passes (repair e93b27f; it was 1/2) -/
theorem C08_act_impl_precision : actPrecision = 1 := rfl

/-- adjacent: one of the two codes next to the clipped input, for every draw -/
theorem C08_relu_adjacent (c : Stoch.ReluCfg) (h : ReluOK c) (x u1 u2 : ℚ) :
    quantizedRelu actPrecision c true x u1 u2 = (reluLat c).below (reluLevel c x) ∨
    quantizedRelu actPrecision c true x u1 u2 = (reluLat c).above (reluLevel c x) := by
  rw [C08_act_impl_precision, ← Lat.belowP_one, ← Lat.aboveP_one]
  exact C08_relu_adjacent_prec isPrec_one c h x u1 u2

theorem C08_relu_unbiased {π : ℚ} (hπ : IsPrec π) (c : Stoch.ReluCfg) (x : ℚ) :
    (1 - (reluLat c).fracP π (reluLevel c x)) * (reluLat c).belowP π (reluLevel c x)
      + (reluLat c).fracP π (reluLevel c x) * (reluLat c).aboveP π (reluLevel c x)
      = (reluLat c).clipped (reluLevel c x) := latQ_mean π hπ.pos _ _

theorem C08_relu_up_iff {π : ℚ} (hπ : IsPrec π) (c : Stoch.ReluCfg) (h : ReluOK c) (x u1 u2 : ℚ)
    (hx : (⌊(reluLat c).lvl (reluLevel c x) / π⌋ : ℚ) ≠ (reluLat c).lvl (reluLevel c x) / π) :
    quantizedRelu π c true x u1 u2 = (reluLat c).aboveP π (reluLevel c x)
      ↔ u1 ≤ (reluLat c).fracP π (reluLevel c x) := by
  rw [quantizedRelu_train hπ c h.stoch h.slope h.bits]
  have hpost : (reluLat c).post ≠ 0 := by
    simp only [reluLat]; exact div_ne_zero (pow2_ne_zero _) (pow2_ne_zero _)
  exact latQ_up_iff π hπ.pos _ hpost _ _ hx

theorem C08_relu_code_fixed {π : ℚ} (hπ : IsPrec π) (c : Stoch.ReluCfg) (h : ReluOK c) (x u1 u2 : ℚ)
    (hc : (reluLat c).isCode x = true) : quantizedRelu π c true x u1 u2 = x := by
  rw [quantizedRelu_train hπ c h.stoch h.slope h.bits]
  simp only [Lat.isCode, Bool.and_eq_true, decide_eq_true_eq] at hc
  obtain ⟨⟨h1, h2⟩, h3⟩ := hc
  have hpost : (reluLat c).post ≠ 0 := by
    simp only [reluLat]; exact div_ne_zero (pow2_ne_zero _) (pow2_ne_zero _)
  have hlev : x / (reluLat c).post = reluLevel c x := by
    have a := pow2_ne_zero c.integer
    have b := pow2_ne_zero (c.bits - if c.negSlope = 0 then 0 else 1)
    simp only [reluLat, reluLevel]; field_simp
  rw [hlev] at h1 h2 h3
  have hoff : (reluLat c).off = 0 := rfl
  rw [hoff, sub_zero] at h1
  have hk : (reluLat c).lvl (reluLevel c x) = ((reluLevel c x).num : ℚ) := by
    rw [Lat.lvl, clip_of_mem h2 h3, hoff, sub_zero, Rat.coe_int_num_of_den_eq_one h1]
  rw [latQ_fixed hπ _ _ _ _ hk, Lat.clipped, clip_of_mem h2 h3, ← hlev]
  field_simp

theorem C08_relu_inference (π : ℚ) (c : Stoch.ReluCfg) (x u1 u2 : ℚ) (phase' : Bool) (π' v1 v2 : ℚ) :
    quantizedRelu π c false x u1 u2 = quantizedRelu π' { c with stoch := false } phase' x v1 v2 := by
  unfold quantizedRelu; simp only [roundThrough_infer, roundThrough_det]

theorem C08_tanh_adjacent_prec {π : ℚ} (hπ : IsPrec π) (bits : ℤ) (sym : Bool) (hb : 2 ≤ bits)
    (p u : ℚ) :
    quantizedTanh π bits sym true true p u = (tanhLat bits sym).belowP π (p * pow2 (bits - 1)) ∨
    quantizedTanh π bits sym true true p u = (tanhLat bits sym).aboveP π (p * pow2 (bits - 1)) := by
  rw [quantizedTanh_train hπ bits sym hb]; exact latQ_mem π hπ.pos _ _ _

theorem C08_tanh_adjacent (bits : ℤ) (sym : Bool) (hb : 2 ≤ bits) (p u : ℚ) :
    quantizedTanh actPrecision bits sym true true p u = (tanhLat bits sym).below (p * pow2 (bits - 1)) ∨
    quantizedTanh actPrecision bits sym true true p u = (tanhLat bits sym).above (p * pow2 (bits - 1)) := by
  rw [C08_act_impl_precision, ← Lat.belowP_one, ← Lat.aboveP_one]
  exact C08_tanh_adjacent_prec isPrec_one bits sym hb p u

theorem C08_tanh_unbiased {π : ℚ} (hπ : IsPrec π) (bits : ℤ) (sym : Bool) (p : ℚ) :
    (1 - (tanhLat bits sym).fracP π (p * pow2 (bits - 1))) * (tanhLat bits sym).belowP π (p * pow2 (bits - 1))
      + (tanhLat bits sym).fracP π (p * pow2 (bits - 1)) * (tanhLat bits sym).aboveP π (p * pow2 (bits - 1))
      = (tanhLat bits sym).clipped (p * pow2 (bits - 1)) := latQ_mean π hπ.pos _ _

theorem C08_tanh_code_fixed {π : ℚ} (hπ : IsPrec π) (bits : ℤ) (sym : Bool) (hb : 2 ≤ bits) (p u : ℚ)
    (hc : (tanhLat bits sym).isCode p = true) : quantizedTanh π bits sym true true p u = p := by
  rw [quantizedTanh_train hπ bits sym hb]
  simp only [Lat.isCode, Bool.and_eq_true, decide_eq_true_eq] at hc
  obtain ⟨⟨h1, h2⟩, h3⟩ := hc
  have hm := pow2_ne_zero (bits - 1)
  have hlev : p / (tanhLat bits sym).post = p * pow2 (bits - 1) := by
    simp only [tanhLat]; field_simp
  rw [hlev] at h1 h2 h3
  have hoff : (tanhLat bits sym).off = 0 := rfl
  rw [hoff, sub_zero] at h1
  have hk : (tanhLat bits sym).lvl (p * pow2 (bits - 1)) = ((p * pow2 (bits - 1)).num : ℚ) := by
    rw [Lat.lvl, clip_of_mem h2 h3, hoff, sub_zero, Rat.coe_int_num_of_den_eq_one h1]
  rw [latQ_fixed hπ _ _ _ _ hk, Lat.clipped, clip_of_mem h2 h3]
  simp only [tanhLat]; field_simp

theorem C08_tanh_inference (π : ℚ) (bits : ℤ) (sym stoch : Bool) (p u : ℚ) (phase' : Bool) (π' u' : ℚ) :
    quantizedTanh π bits sym stoch false p u = quantizedTanh π' bits sym false phase' p u' := by
  unfold quantizedTanh; simp only [roundThrough_infer, roundThrough_det]

theorem C08_sigmoid_adjacent_prec {π : ℚ} (hπ : IsPrec π) (bits : ℤ) (sym : Bool) (hb : 1 ≤ bits)
    (p u : ℚ) :
    quantizedSigmoid π bits sym true true p u = (sigmoidLat bits sym).belowP π (p * pow2 bits) ∨
    quantizedSigmoid π bits sym true true p u = (sigmoidLat bits sym).aboveP π (p * pow2 bits) := by
  rw [quantizedSigmoid_train hπ bits sym hb]; exact latQ_mem π hπ.pos _ _ _

theorem C08_sigmoid_adjacent (bits : ℤ) (sym : Bool) (hb : 1 ≤ bits) (p u : ℚ) :
    quantizedSigmoid actPrecision bits sym true true p u = (sigmoidLat bits sym).below (p * pow2 bits) ∨
    quantizedSigmoid actPrecision bits sym true true p u = (sigmoidLat bits sym).above (p * pow2 bits) := by
  rw [C08_act_impl_precision, ← Lat.belowP_one, ← Lat.aboveP_one]
  exact C08_sigmoid_adjacent_prec isPrec_one bits sym hb p u

theorem C08_sigmoid_unbiased {π : ℚ} (hπ : IsPrec π) (bits : ℤ) (sym : Bool) (p : ℚ) :
    (1 - (sigmoidLat bits sym).fracP π (p * pow2 bits)) * (sigmoidLat bits sym).belowP π (p * pow2 bits)
      + (sigmoidLat bits sym).fracP π (p * pow2 bits) * (sigmoidLat bits sym).aboveP π (p * pow2 bits)
      = (sigmoidLat bits sym).clipped (p * pow2 bits) := latQ_mean π hπ.pos _ _

theorem C08_sigmoid_code_fixed {π : ℚ} (hπ : IsPrec π) (bits : ℤ) (sym : Bool) (hb : 1 ≤ bits) (p u : ℚ)
    (hc : (sigmoidLat bits sym).isCode p = true) : quantizedSigmoid π bits sym true true p u = p := by
  rw [quantizedSigmoid_train hπ bits sym hb]
  simp only [Lat.isCode, Bool.and_eq_true, decide_eq_true_eq] at hc
  obtain ⟨⟨h1, h2⟩, h3⟩ := hc
  have hm := pow2_ne_zero bits
  have hlev : p / (sigmoidLat bits sym).post = p * pow2 bits := by
    simp only [sigmoidLat]; field_simp
  rw [hlev] at h1 h2 h3
  have hoff : (sigmoidLat bits sym).off = 0 := rfl
  rw [hoff, sub_zero] at h1
  have hk : (sigmoidLat bits sym).lvl (p * pow2 bits) = ((p * pow2 bits).num : ℚ) := by
    rw [Lat.lvl, clip_of_mem h2 h3, hoff, sub_zero, Rat.coe_int_num_of_den_eq_one h1]
  rw [latQ_fixed hπ _ _ _ _ hk, Lat.clipped, clip_of_mem h2 h3]
  simp only [sigmoidLat]; field_simp

theorem C08_sigmoid_inference (π : ℚ) (bits : ℤ) (sym stoch : Bool) (p u : ℚ) (phase' : Bool) (π' u' : ℚ) :
    quantizedSigmoid π bits sym stoch false p u = quantizedSigmoid π' bits sym false phase' p u' := by
  unfold quantizedSigmoid; simp only [roundThrough_infer, roundThrough_det]

/-- why the precision matters (the behaviour before e93b27f): at precision 1/2 a level `k + 1/2`
    strictly inside the range is returned unchanged by every draw — strictly between the two
    adjacent codes, for every lattice. -/
theorem C08_precision_half_not_adjacent (L : Lat) (hpost : 0 < L.post) (p u : ℚ) (k : ℤ)
    (hk : L.lvl p = k + 1 / 2) :
    latQ (1 / 2) L p u = L.post * (k + 1 / 2 + L.off) ∧
    L.below p < latQ (1 / 2) L p u ∧ latQ (1 / 2) L p u < L.above p := by
  have h1 : latQ (1 / 2) L p u = L.post * (k + 1 / 2 + L.off) := by
    unfold latQ
    have : L.lvl p = (1 / 2 : ℚ) * ((2 * k + 1 : ℤ) : ℚ) := by rw [hk]; push_cast; ring
    rw [this, stochasticRound_fixed _ _ _ (by norm_num)]
    push_cast; ring
  have hfl : ⌊L.lvl p⌋ = k := by
    rw [hk, Int.floor_eq_iff]; constructor <;> push_cast <;> linarith
  have hce : ⌈L.lvl p⌉ = k + 1 := by
    rw [hk, Int.ceil_eq_iff]; constructor <;> push_cast <;> linarith
  refine ⟨h1, ?_, ?_⟩
  · rw [h1, Lat.below, fl_eq, hfl]; nlinarith
  · rw [h1, Lat.above, ce_eq, hce]; push_cast; nlinarith

/-- regression witness of e93b27f: `quantized_relu(4,0,use_stochastic_rounding=True)(9/32)` (level
    4.5; it used to come back as 9/32) is `4/16` or `5/16` for every draw, and it is `5/16`
    exactly for the draws `u1 ≤ 1/2`. -/
theorem C08_relu_regression_9_32 (u1 u2 : ℚ) :
    let c : Stoch.ReluCfg := { bits := 4, integer := 0, negSlope := 0, stoch := true }
    (quantizedRelu actPrecision c true (9 / 32) u1 u2 = 1 / 4 ∨
     quantizedRelu actPrecision c true (9 / 32) u1 u2 = 5 / 16) ∧
    (quantizedRelu actPrecision c true (9 / 32) u1 u2 = 5 / 16 ↔ u1 ≤ 1 / 2) := by
  intro c
  have hc : ReluOK c := ⟨rfl, rfl, by decide⟩
  have h16 : pow2 4 = 16 := by simp [pow2_eq_zpow]; norm_num
  have h1 : pow2 0 = 1 := pow2_zero
  have hlev : reluLevel c (9 / 32) = 9 / 2 := by
    simp only [reluLevel, c, if_true, sub_zero, h16, h1]; norm_num
  have hlat : reluLat c = { post := 1 / 16, off := 0, lo := 0, hi := 15 } := by
    simp only [reluLat, c, if_true, sub_zero, h16, h1]; norm_num
  have hlvl : (reluLat c).lvl (reluLevel c (9 / 32)) = 9 / 2 := by
    rw [hlev, hlat, Lat.lvl, clip_of_mem] <;> norm_num
  have hfl : ⌊(9 / 2 : ℚ)⌋ = 4 := by rw [Int.floor_eq_iff]; constructor <;> norm_num
  have hce : ⌈(9 / 2 : ℚ)⌉ = 5 := by rw [Int.ceil_eq_iff]; constructor <;> norm_num
  have hb : (reluLat c).below (reluLevel c (9 / 32)) = 1 / 4 := by
    rw [Lat.below, hlvl, fl_eq, hfl, hlat]; norm_num
  have ha : (reluLat c).above (reluLevel c (9 / 32)) = 5 / 16 := by
    rw [Lat.above, hlvl, ce_eq, hce, hlat]; norm_num
  constructor
  · have := C08_relu_adjacent c hc (9 / 32) u1 u2
    rwa [hb, ha] at this
  · have hx : (⌊(reluLat c).lvl (reluLevel c (9 / 32)) / 1⌋ : ℚ) ≠ (reluLat c).lvl (reluLevel c (9 / 32)) / 1 := by
      rw [hlvl, div_one, hfl]; norm_num
    have := C08_relu_up_iff isPrec_one c hc (9 / 32) u1 u2 hx
    rw [Lat.aboveP_one, Lat.fracP_one, ha, Lat.frac, hlvl, fl_eq, hfl] at this
    rw [C08_act_impl_precision, this]; norm_num

/-! ## 4. power-of-two: `stochastic_round_po2`, `_clip_power_of_two`, quantized_po2 -/

/-- adjacent: the result is the exponent of the power of two just below, or the next one -/
theorem C08_po2_round_adjacent {y : ℚ} {e0 l : ℤ} (u : ℚ) (hb : Bracket y l) (h : LogOK y e0) :
    stochasticRoundPo2Core y e0 u = l ∨ stochasticRoundPo2Core y e0 u = l + 1 := by
  rw [stochasticRoundPo2Core_eq u hb h]; split <;> simp

/-- the draws that round up are exactly `u < (y − 2^l)/(2^(l+1) − 2^l)` (since 2fe48c1 the test
    is `y <= val`, so the boundary draw rounds down) -/
theorem C08_po2_round_up_iff {y : ℚ} {e0 l : ℤ} (u : ℚ) (hb : Bracket y l) (h : LogOK y e0) :
    stochasticRoundPo2Core y e0 u = l + 1 ↔ u < (y - pow2 l) / (pow2 (l + 1) - pow2 l) := by
  rw [stochasticRoundPo2Core_eq u hb h, pow2_succ]
  have hp := pow2_pos l
  have e : 2 * pow2 l - pow2 l = pow2 l := by ring
  rw [e, lt_div_iff₀ hp]
  split
  · rename_i hle
    constructor
    · intro h2; omega
    · intro h2; linarith
  · rename_i hle
    simp only [true_iff]; linarith

theorem C08_po2_frac_mem {y : ℚ} {l : ℤ} (hb : Bracket y l) :
    0 ≤ (y - pow2 l) / (pow2 (l + 1) - pow2 l) ∧ (y - pow2 l) / (pow2 (l + 1) - pow2 l) < 1 := by
  have hp := pow2_pos l
  have e : pow2 (l + 1) - pow2 l = pow2 l := by rw [pow2_succ]; ring
  rw [e]
  constructor
  · exact div_nonneg (by linarith [hb.1]) hp.le
  · rw [div_lt_one hp]; have := hb.2; rw [pow2_succ] at this; linarith

/-- … hence the mean of the emitted power of two is the input -/
theorem C08_po2_round_unbiased (y : ℚ) (l : ℤ) :
    (1 - (y - pow2 l) / (pow2 (l + 1) - pow2 l)) * pow2 l
      + (y - pow2 l) / (pow2 (l + 1) - pow2 l) * pow2 (l + 1) = y := by
  have hp := pow2_ne_zero l
  have e : pow2 (l + 1) - pow2 l = pow2 l := by rw [pow2_succ]; ring
  rw [e, pow2_succ]; field_simp; ring

/-- codes (exact powers of two) are fixed for every draw `u ≥ 0` -/
theorem C08_po2_code_fixed (k e0 : ℤ) (u : ℚ) (hu : 0 ≤ u) (h : LogOK (pow2 k) e0) :
    stochasticRoundPo2Core (pow2 k) e0 u = k := by
  rw [stochasticRoundPo2Core_eq u (bracket_pow2 k) h]
  have : pow2 k ≤ pow2 k + u * pow2 k := by have := pow2_pos k; nlinarith
  simp [this]

/-- regression witness of 2fe48c1: the draw `u = 0` (which `tf.random.uniform` can return) used to
    move every exact power of two one code up; now it is returned unchanged. -/
theorem C08_po2_u0_regression (k : ℤ) : stochasticRoundPo2Core (pow2 k) k 0 = k :=
  C08_po2_code_fixed k k 0 le_rfl (logOK_pow2 k)

/-- a power-of-two configuration in which the stochastic flag is live: flag on and
    `log2_rounding = "rnd"` (in "floor" mode the code never looks at the flag, §4b) -/
structure Po2OK (c : Po2Cfg) : Prop where
  stoch : c.stoch = true
  rnd : c.floorMode = false

example : Po2OK (po2CfgOf 4 none true) := ⟨rfl, rfl⟩
example : Po2OK (po2CfgOf 4 (some 3) true false true) := ⟨rfl, rfl⟩

/-- `_clip_power_of_two` in training: the clipped exponent of one of the two powers bracketing
    `x_input` (`x_filter`; its square root under quadratic approximation, where the result is
    doubled: the codes `4^l`, `4^(l+1)` bracketing `x_filter`, see `C08_po2_quad_bracket`) -/
theorem C08_po2_clip_adjacent (c : Po2Cfg) (h : Po2OK c) (xabs s u : ℚ) (l : ℤ)
    (hx : ¬ xabs < epsK) (hb : Bracket (po2Input c xabs s) l)
    (hl : LogOK (po2Input c xabs s) (roundLog2 (po2Input c xabs s + epsK))) :
    clipPowerOfTwo c true xabs s u = po2Qf c * clipI l c.minExp c.maxExp ∨
    clipPowerOfTwo c true xabs s u = po2Qf c * clipI (l + 1) c.minExp c.maxExp := by
  have hpos : 0 ≤ po2Input c xabs s := le_trans (pow2_pos l).le hb.1
  unfold clipPowerOfTwo po2Log2
  simp only [h.stoch, h.rnd, hx, if_true, if_false, stochasticRoundPo2, absR_nonneg_id hpos,
    Bool.false_eq_true]
  rcases C08_po2_round_adjacent u hb hl with e | e <;> rw [e] <;> simp

theorem C08_po2_adjacent (c : Po2Cfg) (h : Po2OK c) (x s u : ℚ) (l : ℤ)
    (hx : ¬ absR x < epsK) (hb : Bracket (po2Input c (absR x) s) l)
    (hl : LogOK (po2Input c (absR x) s) (roundLog2 (po2Input c (absR x) s + epsK))) :
    quantizedPo2 c true x s u = sgn1 x * pow2 (po2Qf c * clipI l c.minExp c.maxExp) ∨
    quantizedPo2 c true x s u = sgn1 x * pow2 (po2Qf c * clipI (l + 1) c.minExp c.maxExp) := by
  unfold quantizedPo2
  rcases C08_po2_clip_adjacent c h (absR x) s u l hx hb hl with e | e <;> rw [e] <;> simp

/-- quadratic approximation: when the oracle `s` is the exact square root of `x_filter`, the
    bracket `2^l ≤ s < 2^(l+1)` is the bracket `4^l ≤ x_filter < 4^(l+1)` of the code lattice -/
theorem C08_po2_quad_bracket {s y : ℚ} {l : ℤ} (hs : s * s = y) (hb : Bracket s l) :
    pow2 (2 * l) ≤ y ∧ y < pow2 (2 * (l + 1)) := hs ▸ bracket_sq hb

/-- class level: an input whose `x_input` is an exact power of two (not cut by `max_value`) is
    fixed by every draw `u ≥ 0` (without quadratic approximation: `x = 2^k`; with it: `x = 4^k`) -/
theorem C08_po2_clip_code_fixed (c : Po2Cfg) (h : Po2OK c) (k : ℤ) (xabs s u : ℚ) (hu : 0 ≤ u)
    (hx : ¬ xabs < epsK) (hin : po2Input c xabs s = pow2 k)
    (hl : LogOK (pow2 k) (roundLog2 (pow2 k + epsK))) :
    clipPowerOfTwo c true xabs s u = po2Qf c * clipI k c.minExp c.maxExp :=
  po2_clip_code_fixed c h.stoch h.rnd k xabs s u hu hx hin hl

/-- phase 0: `_clip_power_of_two` (hence quantized_po2 and quantized_relu_po2) ignores the flag —
    for EVERY option combination (max_value, quadratic_approximation, log2_rounding) -/
theorem C08_po2_clip_inference (c : Po2Cfg) (xabs s u : ℚ) (phase' : Bool) (u' : ℚ) :
    clipPowerOfTwo c false xabs s u = clipPowerOfTwo { c with stoch := false } phase' xabs s u' := by
  unfold clipPowerOfTwo po2Log2 po2Input po2Filter po2Qf
  cases c.stoch <;> cases c.floorMode <;> simp

theorem C08_po2_inference (c : Po2Cfg) (x s u : ℚ) (phase' : Bool) (u' : ℚ) :
    quantizedPo2 c false x s u = quantizedPo2 { c with stoch := false } phase' x s u' := by
  unfold quantizedPo2; rw [C08_po2_clip_inference c _ s u phase' u']

theorem C08_relu_po2_inference (c : Po2Cfg) (ns x s u1 u2 : ℚ) (phase' : Bool) (v1 v2 : ℚ) :
    quantizedReluPo2 c ns false x s u1 u2 =
      quantizedReluPo2 { c with stoch := false } ns phase' x s v1 v2 := by
  unfold quantizedReluPo2
  rw [C08_po2_clip_inference c _ s u1 phase' v1, C08_po2_clip_inference c _ s u2 phase' v2]

/-! ### 4b. `log2_rounding = "floor"` together with `use_stochastic_rounding = True`

`power_of_two_clip` tests `log2_rounding == "floor"` BEFORE `use_stochastic_rounding`: in floor mode
the flag is dead code.  Consequences, all proved: the inference clause holds trivially
(`C08_po2_clip_inference` above), the output in training is the code just BELOW the input for every
draw (`C08_po2_floor_below_partial`: "adjacent" holds) — and therefore its expectation is that code,
not the input (`C08_po2_floor_unbiased_counterexample`): recorded finding `C08-po2-floor-flag-ignored`. -/

/-- floor mode: flag, phase and draw are irrelevant -/
theorem C08_po2_floor_flag_ignored (c : Po2Cfg) (hfl : c.floorMode = true) (phase phase' stoch' : Bool)
    (xabs s u u' : ℚ) :
    clipPowerOfTwo c phase xabs s u = clipPowerOfTwo { c with stoch := stoch' } phase' xabs s u' := by
  rw [clipPowerOfTwo_floor c hfl, clipPowerOfTwo_floor { c with stoch := stoch' } hfl]
  rfl

/-- floor mode (any flag, any phase, any draw): the exponent is the clipped floor of the binary
    logarithm of `x_input` — the code just below; the "adjacent" clause holds -/
theorem C08_po2_floor_below_partial (c : Po2Cfg) (hfl : c.floorMode = true) (phase : Bool)
    (xabs s u : ℚ) (l : ℤ) (hx : ¬ xabs < epsK) (hb : Bracket (po2Input c xabs s) l) :
    clipPowerOfTwo c phase xabs s u = po2Qf c * clipI l c.minExp c.maxExp := by
  have hpos : 0 < po2Input c xabs s := lt_of_lt_of_le (pow2_pos l) hb.1
  have hl := logOK_roundLog2 hpos
  rw [clipPowerOfTwo_floor c hfl, if_neg hx, floorFromRound_eq hb ⟨hl.1.le, hl.2⟩]

/-- … so the upper code is never emitted although unbiasedness needs it with probability
    `frac > 0`: `quantized_po2(4, use_stochastic_rounding=True, log2_rounding="floor")(3/2)` is `1`
    for every draw, the mean over the draws is `1`, not `3/2`. -/
theorem C08_po2_floor_unbiased_counterexample (u : ℚ) :
    let c := po2CfgOf 4 none true true
    quantizedPo2 c true (3 / 2) 0 u = 1 ∧
    (0 : ℚ) < ((3 / 2 : ℚ) - pow2 0) / (pow2 1 - pow2 0) ∧ (1 : ℚ) ≠ 3 / 2 := by
  intro c
  have hb : Bracket (po2Input c (absR (3 / 2)) 0) 0 := by
    constructor <;> simp [c, po2Input, po2CfgOf, po2Filter, absR, epsK, pow2_eq_zpow] <;> norm_num
  have hx : ¬ absR (3 / 2 : ℚ) < epsK := by simp [absR, epsK]; norm_num
  have := C08_po2_floor_below_partial c rfl true (absR (3 / 2)) 0 u 0 hx hb
  refine ⟨?_, ?_, by norm_num⟩
  · unfold quantizedPo2
    rw [this]
    simp [c, po2CfgOf, po2Qf, clipI, needExpSignBit, p2i, quadMaxExp, sgn1, pow2_eq_zpow]
    norm_num
  · simp [pow2_eq_zpow]; norm_num

/-! ### 4c. `quadratic_approximation` together with `use_stochastic_rounding = True`

The stochastic choice is made on `sqrt(x)` (`stochastic_round_po2(tf.sqrt(x_filter))`) and the
exponent is doubled afterwards: the output is one of the two codes `4^l`, `4^(l+1)` adjacent to the
input (`C08_po2_clip_adjacent` + `C08_po2_quad_bracket`), codes are fixed
(`C08_po2_clip_code_fixed`), inference is exact (`C08_po2_clip_inference`), and the mean of the
SQUARE ROOT of the output is `sqrt(x)` (`C08_po2_round_unbiased` at `y = s`) — but the mean of the
output is `x + 4^l·f·(1-f)`, `f = s/2^l - 1`: too large whenever `x` is not a code
(`C08_po2_quad_bias`, `C08_po2_quad_unbiased_counterexample`): recorded finding
`C08-po2-quadratic-biased`. -/

/-- mean of the emitted code under quadratic approximation, in closed form: with `s = sqrt(x)`,
    `2^l ≤ s < 2^(l+1)` and `f = (s - 2^l)/2^l` the probability of the upper code (the round-up set
    of `C08_po2_round_up_iff`), `(1-f)·4^l + f·4^(l+1) = s² + 4^l·f·(1-f)`. -/
theorem C08_po2_quad_bias (s : ℚ) (l : ℤ) :
    let f := (s - pow2 l) / (pow2 (l + 1) - pow2 l)
    (1 - f) * pow2 (2 * l) + f * pow2 (2 * (l + 1)) = s * s + pow2 (2 * l) * (f * (1 - f)) := by
  intro f
  have hp := pow2_ne_zero l
  have e : pow2 (l + 1) - pow2 l = pow2 l := by rw [pow2_succ]; ring
  have hf : f = (s - pow2 l) / pow2 l := by simp only [f, e]
  rw [hf, pow2_two_mul, pow2_two_mul, pow2_succ]
  field_simp
  ring

/-- the bias is strictly positive strictly inside a bracket -/
theorem C08_po2_quad_bias_pos {s : ℚ} {l : ℤ} (hb : Bracket s l) (hne : s ≠ pow2 l) :
    let f := (s - pow2 l) / (pow2 (l + 1) - pow2 l)
    0 < pow2 (2 * l) * (f * (1 - f)) := by
  intro f
  have hfm := C08_po2_frac_mem hb
  have hp := pow2_pos l
  have e : pow2 (l + 1) - pow2 l = pow2 l := by rw [pow2_succ]; ring
  have hf0 : 0 < f := by
    simp only [f, e]
    exact div_pos (sub_pos.mpr (lt_of_le_of_ne hb.1 (Ne.symm hne))) hp
  have hf1 : f < 1 := hfm.2
  have := pow2_pos (2 * l)
  positivity

/-- witness on the class: `quantized_po2(4, use_stochastic_rounding=True,
    quadratic_approximation=True)(9/4)` (`sqrt = 3/2`) is `4` exactly for the draws `u < 1/2` and `1`
    otherwise: mean `5/2`, not `9/4`. -/
theorem C08_po2_quad_unbiased_counterexample (u : ℚ) :
    let c := po2CfgOf 4 none true false true
    (quantizedPo2 c true (9 / 4) (3 / 2) u = if u < 1 / 2 then 4 else 1) ∧
    ((1 - 1 / 2 : ℚ) * 1 + 1 / 2 * 4 ≠ 9 / 4) := by
  intro c
  refine ⟨?_, by norm_num⟩
  have hb : Bracket (3 / 2 : ℚ) 0 := by constructor <;> simp [pow2_eq_zpow] <;> norm_num
  have hl : LogOK (3 / 2 : ℚ) (roundLog2 (3 / 2 + epsK)) := by
    apply logOK_eps_of_bracket hb
    · simp [pow2_eq_zpow]; norm_num
    · simp [pow2_eq_zpow, epsK]; norm_num
  unfold quantizedPo2 clipPowerOfTwo po2Log2
  have hx : ¬ absR (9 / 4 : ℚ) < epsK := by simp [absR, epsK]; norm_num
  have hin : po2Input c (absR (9 / 4)) (3 / 2) = 3 / 2 := rfl
  simp only [hx, if_false, hin]
  have hc1 : c.floorMode = false := rfl
  have hc2 : c.stoch = true := rfl
  simp only [hc1, hc2, if_true, Bool.false_eq_true, if_false, stochasticRoundPo2,
    absR_nonneg_id (by norm_num : (0 : ℚ) ≤ 3 / 2)]
  rw [stochasticRoundPo2Core_eq u hb hl]
  have e0 : pow2 0 = 1 := pow2_zero
  rw [e0]
  by_cases hu : u < 1 / 2
  · have : ¬ ((3 / 2 : ℚ) ≤ 1 + u * 1) := by push Not; linarith
    rw [if_neg this, if_pos hu]
    simp [c, po2CfgOf, po2Qf, clipI, needExpSignBit, p2i, quadMaxExp, sgn1, pow2_eq_zpow]
    norm_num
  · have : ((3 / 2 : ℚ) ≤ 1 + u * 1) := by push Not at hu; linarith
    rw [if_pos this, if_neg hu]
    simp [c, po2CfgOf, po2Qf, clipI, needExpSignBit, p2i, quadMaxExp, sgn1, pow2_eq_zpow]
    norm_num

example : Bracket (3 / 4 : ℚ) (-1) := by
  constructor <;> simp [pow2_eq_zpow] <;> norm_num
example : LogOK (3 / 4 : ℚ) 0 := by
  constructor <;> simp [pow2_eq_zpow] <;> norm_num

/-! ## 5. binary / ternary with the flag, stochastic_binary / stochastic_ternary -/

/-- training: every output is one of the two binary codes `±alpha` (`0/alpha` with use_01) -/
theorem C08_binary_codes (use01 stoch phase : Bool) (α x m u1 u2 : ℚ) (h0 : 0 ≤ u2) (h1 : u2 < 1) :
    binaryQ use01 stoch phase α x m u1 u2 = α * (if use01 then 1 else 1) ∨
    binaryQ use01 stoch phase α x m u1 u2 = α * (if use01 then 0 else -1) := by
  unfold binaryQ
  simp only []
  generalize (if (stoch && phase) = true then
      2 * (if 1 < m then 1 else m) * roundThrough phase true (1 / 8) (x / (2 * if 1 < m then 1 else m)) u1
    else x) = x'
  rcases sgn_mem x' with e | e | e <;> rcases roundHE_unit h0 h1 with r | r <;>
    cases use01 <;> cases stoch <;> cases phase <;> simp [e, r, absR] <;> norm_num

/-- training: an input with `|x| ≥ f/8`, `f = 2·min(max|x|, 1)` — in particular the codes `±1` —
    keeps its sign for every pair of draws: exactly the output of `binary()` without the flag -/
theorem C08_binary_code_fixed (use01 : Bool) (α x m u1 u2 : ℚ) (hm : 0 < m)
    (hx : 2 * (if 1 < m then 1 else m) / 8 ≤ |x|) (phase' : Bool) (m' v1 v2 : ℚ) :
    binaryQ use01 true true α x m u1 u2 = binaryQ use01 false phase' α x m' v1 v2 :=
  binary_sign_kept use01 α x m u1 u2 hm hx phase' m' v1 v2

/-- phase 0: `binary(use_stochastic_rounding=True)` = `binary()` element-wise (0 ↦ +1) -/
theorem C08_binary_inference (use01 : Bool) (α x m u1 u2 : ℚ) (phase' : Bool) (m' v1 v2 : ℚ) :
    binaryQ use01 true false α x m u1 u2 = binaryQ use01 false phase' α x m' v1 v2 := by
  unfold binaryQ
  rcases sgn_mem x with e | e | e <;> cases use01 <;> simp [e, absR] <;> norm_num

/-- phase 0 keeps every input shape (repair 65bdf0f: the fill is `tf.ones_like(x)`); regression
    witness: the `3×4` input that used to raise. -/
theorem C08_binary_infer_shape (shape : List Nat) : binaryInferShapeOk shape = true := rfl

theorem C08_binary_infer_shape_regression : binaryInferShapeOk [3, 4] = true :=
  C08_binary_infer_shape _

/-- ternary's rounding step always yields a ternary code -/
theorem C08_ternary_step_codes (stoch phase : Bool) (x scale u : ℚ) :
    ternaryStep stoch phase x scale u = -1 ∨ ternaryStep stoch phase x scale u = 0 ∨
    ternaryStep stoch phase x scale u = 1 := by
  unfold ternaryStep
  simp only []
  rcases sgn_mem x with e | e | e <;> rw [e] <;> split <;> simp

theorem C08_ternary_step_inference (x scale u : ℚ) (phase' : Bool) (u' : ℚ) :
    ternaryStep true false x scale u = ternaryStep false phase' x scale u' := by
  unfold ternaryStep; simp only [roundThrough_infer, roundThrough_det]

/-- stochastic_binary at phase 0 is `binary.__call__` -/
theorem C08_stochastic_binary_inference (α x p r : ℚ) (phase' : Bool) (m u1 u2 : ℚ) :
    stochasticBinary false α x p r = binaryQ false false phase' α x m u1 u2 := by
  unfold stochasticBinary binaryQ; simp

/-- stochastic_binary in training emits `±alpha` -/
theorem C08_stochastic_binary_codes (α x p r : ℚ) :
    stochasticBinary true α x p r = α ∨ stochasticBinary true α x p r = -α := by
  unfold stochasticBinary sgn1; simp only [if_true]; split <;> simp

/-- stochastic_ternary at phase 0 is `ternary.__call__`; in training a ternary code -/
theorem C08_stochastic_ternary_inference (det p0 p1 r0 r1 : ℚ) :
    stochasticTernaryCode false det p0 p1 r0 r1 = det := by simp [stochasticTernaryCode]

theorem C08_stochastic_ternary_codes (det p0 p1 r0 r1 : ℚ) :
    stochasticTernaryCode true det p0 p1 r0 r1 = -1 ∨ stochasticTernaryCode true det p0 p1 r0 r1 = 0 ∨
    stochasticTernaryCode true det p0 p1 r0 r1 = 1 := by
  unfold stochasticTernaryCode sgn1; simp only [if_true]
  split <;> split <;> norm_num

/-! ## 6. the stochastic classes against their deterministic counterparts BUILT FROM THE SAME ARGUMENTS

The clause "with the training phase off the stochastic binary / ternary quantizers return exactly
their deterministic counterparts" speaks about two objects constructed from one argument set, so it
is stated on the constructors (`stochasticTernaryInit`, `ternaryInit`, …) and on the whole call of
one channel, including the `number_of_unrolls` scale / threshold iteration. -/

/-- the attributes `ternary.__call__` reads from a `stochastic_ternary` object are those of the
    `ternary` object built from the same `alpha`, `threshold`, `number_of_unrolls` (flag off): every
    constructor argument shared with the base class is forwarded -/
theorem C08_stochastic_ternary_init (α : Alpha) (thr : Option ℚ) (T : ℚ) (rs : Bool) (n : ℕ) :
    (stochasticTernaryInit α thr T rs n).base = ternaryInit α thr false n := rfl

theorem C08_stochastic_binary_init (α : Alpha) (T : ℚ) (rs : Bool) :
    (stochasticBinaryInit α T rs).base = binaryInit false α false := rfl

/-- `ternary` without the flag does not look at the phase or at any draw (whole call, every alpha,
    threshold and number of unrolls) -/
theorem C08_ternary_call_deterministic (α : Alpha) (thr : Option ℚ) (n : ℕ) (phase phase' : Bool)
    (xs : List ℚ) (d d' : List (List ℚ)) :
    ternaryCall (ternaryInit α thr false n) phase xs d = ternaryCall (ternaryInit α thr false n) phase' xs d' := by
  cases α <;> simp only [ternaryCall, ternaryInit]
  all_goals
    cases phase
    · rw [ternLoop_infer _ false phase' xs n _ d d' []]
    · cases phase'
      · rw [← ternLoop_infer _ false true xs n _ d' d []]
      · rw [← ternLoop_infer _ false true xs n _ [] d [], ← ternLoop_infer _ false true xs n _ [] d' []]

/-- phase 0, `ternary(alpha="auto*", use_stochastic_rounding=True, number_of_unrolls=n)` is
    `ternary(alpha, number_of_unrolls=n)`: the whole iteration, for every number of unrolls -/
theorem C08_ternary_call_inference (α : Alpha) (hα : α.isAuto = true) (thr : Option ℚ) (n : ℕ)
    (phase' : Bool) (xs : List ℚ) (d d' : List (List ℚ)) :
    ternaryCall (ternaryInit α thr true n) false xs d = ternaryCall (ternaryInit α thr false n) phase' xs d' := by
  cases α <;> simp [Alpha.isAuto] at hα <;> simp only [ternaryCall, ternaryInit] <;>
    rw [ternLoop_infer _ true phase' xs n _ d d' []] <;> try rfl

/-- THE LAST CLAUSE, on the constructors: for every `alpha`, `threshold`, `temperature`,
    `use_real_sigmoid`, `number_of_unrolls`, with the training phase off
    `stochastic_ternary(alpha, threshold, temperature, use_real_sigmoid, number_of_unrolls)(x)` is
    `ternary(alpha, threshold, number_of_unrolls=number_of_unrolls)(x)` (which ignores phase and
    draws) — the sampling options `temperature`, `use_real_sigmoid` are irrelevant, every other
    argument reaches the deterministic call. -/
theorem C08_stochastic_ternary_ctor_inference (α : Alpha) (thr : Option ℚ) (T : ℚ) (rs : Bool) (n : ℕ)
    (xs : List ℚ) (scale : ℚ) (p0 p1 r0 r1 : List ℚ) (phase' : Bool) (d : List (List ℚ)) :
    stochasticTernaryCall (stochasticTernaryInit α thr T rs n) false xs scale p0 p1 r0 r1
      = ternaryCall (ternaryInit α thr false n) phase' xs d := by
  simp only [stochasticTernaryCall, C08_stochastic_ternary_init, Bool.false_eq_true, if_false]
  exact C08_ternary_call_deterministic α thr n false phase' xs [] d

/-- the same clause for `stochastic_binary(alpha, temperature, use_real_sigmoid)` against
    `binary(alpha=alpha)` (numeric / absent alpha: the element-wise part of the call) -/
theorem C08_stochastic_binary_ctor_inference (α : Alpha) (T : ℚ) (rs : Bool)
    (xs ps rr : List ℚ) (phase' : Bool) (ms u1 u2 : List ℚ) :
    stochasticBinaryCall (stochasticBinaryInit α T rs) false xs ps rr
      = binaryCall (binaryInit false α false) phase' xs ms u1 u2 := by
  simp only [stochasticBinaryCall, C08_stochastic_binary_init, Bool.false_eq_true, if_false]
  cases α <;> simp only [binaryCall, binaryInit]
  all_goals
    refine congrArg some (List.map_congr_left fun i _ => ?_)
    exact binaryQ_det false false phase' _ _ _ _ _ _ _ _

/-- `number_of_unrolls` is not a dead option: one and five unrolls give different outputs on the
    channel `[1, 3/8, 3/8, 5/16]` (the threshold `scale/2` moves from `1/3` below `5/16` in the second
    iteration), so an object that silently keeps the default 5 does NOT equal its counterpart -/
theorem C08_ternary_unrolls_matter :
    ternaryCall (ternaryInit .auto none false 1) false [1, 3 / 8, 3 / 8, 5 / 16] [] ≠
    ternaryCall (ternaryInit .auto none false 5) false [1, 3 / 8, 3 / 8, 5 / 16] [] := by
  decide +kernel


/-! ## 9. layer objects used several times (QActivation, `activation=` / `kernel_quantizer=` slots,
keras `Activation(q)`): the k-th use of ONE layer object, after ANY history of earlier calls in
either phase, is the quantizer called in the phase of THAT call with the draws of THAT call — so every
clause above holds per call of a history.  A layer whose `call` sits behind a per-signature trace
cache does not have this property (`*_traced_*`): that is the behaviour of tf_keras'
`Model.predict` (recorded finding `C08-predict-phase-frozen`) and of any `@tf.function` put on a
layer's `call`. -/

/-- the eager layer is transparent: whatever the cache, whatever the history -/
theorem C08_layer_eager_history {α β γ : Type} (q : Bool → α → β → γ) (cache : LCache β)
    (hist : List (LCall α β)) :
    layerRun qactivationTraced q cache hist = hist.map fun c => q c.phase c.x c.u := by
  induction hist generalizing cache with
  | nil => rfl
  | cons c rest ih => simp [layerRun, layerStep, qactivationTraced, ih] <;> exact ih _

/-- the k-th use equals a fresh object used once -/
theorem C08_layer_history_kth {α β γ : Type} (q : Bool → α → β → γ) (cache : LCache β)
    (hist : List (LCall α β)) (i : ℕ) (c : LCall α β) (hc : hist[i]? = some c) :
    (layerRun qactivationTraced q cache hist)[i]? = some (q c.phase c.x c.u) := by
  rw [C08_layer_eager_history, List.getElem?_map, hc]; rfl

/-- inference clause along a history: if the quantizer equals `qd` at phase 0, every call of the
    history made at phase 0 returns `qd x`, whatever was called before (in particular training calls
    on the same input signature) -/
theorem C08_layer_history_inference {α β γ : Type} (q : Bool → α → β → γ) (qd : α → γ)
    (hinf : ∀ x u, q false x u = qd x) (cache : LCache β) (hist : List (LCall α β)) (i : ℕ)
    (c : LCall α β) (hc : hist[i]? = some c) (hp : c.phase = false) :
    (layerRun qactivationTraced q cache hist)[i]? = some (qd c.x) := by
  rw [C08_layer_history_kth q cache hist i c hc, hp, hinf]

theorem C08_qactivation_bits_history_inference (c : Stoch.BitsCfg) (cache : LCache ℚ)
    (hist : List (LCall ℚ ℚ)) (i : ℕ) (k : LCall ℚ ℚ) (hk : hist[i]? = some k) (hp : k.phase = false)
    (phase' : Bool) (u' : ℚ) :
    (layerRun qactivationTraced (quantizedBits c) cache hist)[i]? =
      some (quantizedBits { c with stoch := false } phase' k.x u') :=
  C08_layer_history_inference _ (fun x => quantizedBits { c with stoch := false } phase' x u')
    (fun x u => C08_bits_inference c x u phase' u') cache hist i k hk hp

theorem C08_qactivation_linear_history_inference (c : Stoch.BitsCfg) (cache : LCache ℚ)
    (hist : List (LCall ℚ ℚ)) (i : ℕ) (k : LCall ℚ ℚ) (hk : hist[i]? = some k) (hp : k.phase = false)
    (phase' : Bool) (u' : ℚ) :
    (layerRun qactivationTraced (quantizedLinear c) cache hist)[i]? =
      some (quantizedLinear { c with stoch := false } phase' k.x u') :=
  C08_layer_history_inference _ (fun x => quantizedLinear { c with stoch := false } phase' x u')
    (fun x u => C08_linear_inference c x u phase' u') cache hist i k hk hp

theorem C08_qactivation_relu_history_inference (π : ℚ) (c : Stoch.ReluCfg) (cache : LCache (ℚ × ℚ))
    (hist : List (LCall ℚ (ℚ × ℚ))) (i : ℕ) (k : LCall ℚ (ℚ × ℚ)) (hk : hist[i]? = some k)
    (hp : k.phase = false) (phase' : Bool) (π' v1 v2 : ℚ) :
    (layerRun qactivationTraced (fun ph x (u : ℚ × ℚ) => quantizedRelu π c ph x u.1 u.2) cache hist)[i]? =
      some (quantizedRelu π' { c with stoch := false } phase' k.x v1 v2) :=
  C08_layer_history_inference _ (fun x => quantizedRelu π' { c with stoch := false } phase' x v1 v2)
    (fun x u => C08_relu_inference π c x u.1 u.2 phase' π' v1 v2) cache hist i k hk hp

/-- power-of-two classes (every option combination); the input of a call is `(x, sqrt oracle)` -/
theorem C08_qactivation_po2_history_inference (c : Po2Cfg) (cache : LCache ℚ)
    (hist : List (LCall (ℚ × ℚ) ℚ)) (i : ℕ) (k : LCall (ℚ × ℚ) ℚ) (hk : hist[i]? = some k)
    (hp : k.phase = false) (phase' : Bool) (u' : ℚ) :
    (layerRun qactivationTraced (fun ph (x : ℚ × ℚ) u => quantizedPo2 c ph x.1 x.2 u) cache hist)[i]? =
      some (quantizedPo2 { c with stoch := false } phase' k.x.1 k.x.2 u') :=
  C08_layer_history_inference _ (fun x => quantizedPo2 { c with stoch := false } phase' x.1 x.2 u')
    (fun x u => C08_po2_inference c x.1 x.2 u phase' u') cache hist i k hk hp

/-- stochastic_binary behind a layer: every phase-0 call of a history is `binary` -/
theorem C08_qactivation_stochastic_binary_history_inference (α : Alpha) (T : ℚ) (rs : Bool)
    (cache : LCache (List ℚ × List ℚ)) (hist : List (LCall (List ℚ) (List ℚ × List ℚ))) (i : ℕ)
    (k : LCall (List ℚ) (List ℚ × List ℚ)) (hk : hist[i]? = some k) (hp : k.phase = false)
    (phase' : Bool) (ms u1 u2 : List ℚ) :
    (layerRun qactivationTraced
        (fun ph xs (u : List ℚ × List ℚ) => stochasticBinaryCall (stochasticBinaryInit α T rs) ph xs u.1 u.2)
        cache hist)[i]? =
      some (binaryCall (binaryInit false α false) phase' k.x ms u1 u2) :=
  C08_layer_history_inference _ (fun xs => binaryCall (binaryInit false α false) phase' xs ms u1 u2)
    (fun xs u => C08_stochastic_binary_ctor_inference α T rs xs u.1 u.2 phase' ms u1 u2) cache hist i k hk hp

/-- training clauses along a history (quantized_bits): every call of the history made at phase 1
    returns one of the two adjacent codes, and rounds up exactly for the draws `u ≤ frac` OF THAT
    CALL — also when the same input signature was used at phase 0 before -/
theorem C08_qactivation_bits_history_adjacent (c : Stoch.BitsCfg) (h : BitsOK c) (cache : LCache ℚ)
    (hist : List (LCall ℚ ℚ)) (i : ℕ) (k : LCall ℚ ℚ) (hk : hist[i]? = some k) (hp : k.phase = true) :
    (layerRun qactivationTraced (quantizedBits c) cache hist)[i]? =
        some ((bitsLat c).below (bitsLevel c k.x)) ∨
    (layerRun qactivationTraced (quantizedBits c) cache hist)[i]? =
        some ((bitsLat c).above (bitsLevel c k.x)) := by
  rw [C08_layer_history_kth _ cache hist i k hk, hp]
  rcases C08_bits_adjacent c h k.x k.u with h1 | h1
  · left; rw [h1]
  · right; rw [h1]

theorem C08_qactivation_bits_history_up_iff (c : Stoch.BitsCfg) (h : BitsOK c) (hα : c.alpha ≠ 0)
    (cache : LCache ℚ) (hist : List (LCall ℚ ℚ)) (i : ℕ) (k : LCall ℚ ℚ) (hk : hist[i]? = some k)
    (hp : k.phase = true)
    (hx : (bitsLat c).below (bitsLevel c k.x) ≠ (bitsLat c).above (bitsLevel c k.x)) :
    (layerRun qactivationTraced (quantizedBits c) cache hist)[i]? =
        some ((bitsLat c).above (bitsLevel c k.x)) ↔ k.u ≤ (bitsLat c).frac (bitsLevel c k.x) := by
  rw [C08_layer_history_kth _ cache hist i k hk, hp, Option.some_inj]
  exact C08_bits_up_iff c h hα k.x k.u hx

/-! ### 9b. a `call` behind a trace cache (`@tf.function` on `call`, Keras' `predict_function`) -/

/-- what still holds (the provable part): the first use of an input signature is the quantizer in
    the phase of that call -/
theorem C08_layer_traced_first_use_partial {α β γ : Type} (q : Bool → α → β → γ) (cache : LCache β)
    (c : LCall α β) (h : cache.lookup c.sig = none) :
    (layerStep true q cache c).1 = q c.phase c.x c.u := by
  simp [layerStep, h]

/-- ... and every later use of that signature replays the phase and the draws of the FIRST one: the
    phase and the draws of the call itself are not read -/
theorem C08_layer_traced_replay {α β γ : Type} (q : Bool → α → β → γ) (cache : LCache β)
    (c : LCall α β) (ph : Bool) (u : β) (h : cache.lookup c.sig = some (ph, u)) :
    (layerStep true q cache c).1 = q ph c.x u ∧ (layerStep true q cache c).2 = cache := by
  simp [layerStep, h]

/-- first use at phase 0, then training: the traced layer is DETERMINISTIC in training — for every
    configuration, every input and every draw it returns the round-to-nearest value (so its mean is
    not the input) -/
theorem C08_layer_traced_training_frozen (c : Stoch.BitsCfg) (s : ℕ) (x x' u0 u : ℚ) :
    layerRun true (quantizedBits c) [] [⟨false, s, x, u0⟩, ⟨true, s, x', u⟩] =
      [quantizedBits { c with stoch := false } false x 0,
       quantizedBits { c with stoch := false } false x' 0] := by
  simp only [layerRun, layerStep, List.lookup, if_true, beq_self_eq_true]
  rw [C08_bits_inference c x u0 false 0, C08_bits_inference c x' u0 false 0]

/-- first use at phase 1, then inference: the traced layer keeps rounding stochastically at phase 0
    with the draws recorded in the trace — for every configuration, input and draw -/
theorem C08_layer_traced_inference_frozen (c : Stoch.BitsCfg) (s : ℕ) (x x' u0 u : ℚ) :
    layerRun true (quantizedBits c) [] [⟨true, s, x, u0⟩, ⟨false, s, x', u⟩] =
      [quantizedBits c true x u0, quantizedBits c true x' u0] := by
  simp [layerRun, layerStep, List.lookup]

/-- witness: `quantized_bits(4, 0, 1, use_stochastic_rounding=True)` behind a traced `call`, first
    used in training with the draw 0, then at phase 0 on `5/16`: returns `3/8`; the round-to-nearest
    configuration returns `1/4` (tie 2.5 to even).  The eager layer returns `1/4`
    (`C08_qactivation_bits_history_inference`). -/
theorem C08_layer_traced_inference_counterexample :
    let c : Stoch.BitsCfg := { bits := 4, integer := 0, symmetric := true, keepNegative := true,
                               alpha := 1, stoch := true }
    (layerRun kerasPredictTraced (quantizedBits c) [] [⟨true, 0, 5 / 16, 0⟩, ⟨false, 0, 5 / 16, 0⟩])[1]?
        = some (3 / 8) ∧
    quantizedBits { c with stoch := false } false (5 / 16) 0 = 1 / 4 ∧
    (layerRun qactivationTraced (quantizedBits c) [] [⟨true, 0, 5 / 16, 0⟩, ⟨false, 0, 5 / 16, 0⟩])[1]?
        = some (1 / 4) := by
  decide +kernel

/-- a new input signature is traced afresh: the frozen phase is per signature (why "a new input shape
    after the switch hides it") -/
theorem C08_layer_traced_new_signature (c : Stoch.BitsCfg) (s s' : ℕ) (hs : s' ≠ s) (x x' u0 u : ℚ) :
    layerRun true (quantizedBits c) [] [⟨true, s, x, u0⟩, ⟨false, s', x', u⟩] =
      [quantizedBits c true x u0, quantizedBits c false x' u] := by
  have h : (s' == s) = false := by simpa using hs
  simp [layerRun, layerStep, List.lookup, h]

end QKV.Props.C08
