/-
  C17 — qtools accumulator and adder types can hold every sum they are sized for.

  Property (verbatim): The accumulator type derived for a kernel of N multiply-accumulate terms
  can exactly represent any sum of N values of the multiplier output type, and the adder type
  derived for two operands (including the bias add and power-of-two operands converted to fixed
  point) can represent the sum of any two of their values; fractional resolution is never coarser
  than the finest operand and the integer range never smaller than the sum of magnitudes
  requires. Widening any operand never narrows the result type.

  Model: QKV.Model.Accum (accumulator_impl / accumulator_factory / adder_impl / adder_factory /
  merge_factory).  Only property theorems here; N, all bit widths and list lengths are unbounded.
-/
import QKV.Lemmas.Sums
import QKV.Lemmas.Po2Type
namespace QKV.Props.C17
open QKV

/-- fractional bits of a fixed-point record -/
def fracBits (q : QRec) : ℤ := q.bits - b2i q.signed - q.intBits

/-- a record read as a genuine fixed-point type (multiplier outputs of mode 0, accumulators,
    fixed-point bias quantizers) -/
structure WFfx (q : QRec) : Prop where
  nf : q.isFloat = false
  np : q.isPo2 = false
  mag : 0 ≤ magBits q.bits q.signed

/-- a power-of-two record (multiplier output of the po2×po2 adder, po2 bias quantizer) -/
structure WFp2 (q : QRec) : Prop where
  nf : q.isFloat = false
  p : q.isPo2 = true
  nsb : 1 ≤ q.bits - b2i q.signed

/-! ## accumulators -/

/-- FixedPointAccumulator: any sum of at most `prod(kernel_shape[:-1]) + bias` values of a
    fixed-point multiplier output type is a value of the accumulator type. -/
theorem C17_acc_fixed (shape : List ℕ) (useBias : Bool) (m : QRec) (hm : WFfx m) (vs : List ℚ)
    (hv : ∀ v ∈ vs, ValFixed m.bits m.intBits m.signed v)
    (hn : vs.length ≤ kernelTerms shape + (if useBias then 1 else 0)) :
    let acc := makeAccumulator shape m useBias
    ValFixed acc.bits acc.intBits acc.signed vs.sum := by
  intro acc
  have hl := logAddOps_nonneg shape useBias
  have hacc : acc = { tQuantizedBits with
      bits := logAddOps shape useBias + m.bits
      intBits := logAddOps shape useBias + m.intBits
      signed := m.signed } := by
    simp [acc, makeAccumulator, hm.nf, hm.np]
  rw [hacc]
  simp only
  have hmag : 0 ≤ magBits (logAddOps shape useBias + m.bits) m.signed := by
    have := hm.mag; simp only [magBits] at this ⊢; omega
  rw [valFixed_iff hmag]
  have hlsb : fixedLsb (logAddOps shape useBias + m.bits) (logAddOps shape useBias + m.intBits)
      m.signed = fixedLsb m.bits m.intBits m.signed := by simp only [fixedLsb]; ring
  have hvs : ∀ v ∈ vs, IsMul (fixedLsb m.bits m.intBits m.signed) v ∧
      loVal m.intBits m.signed ≤ v ∧ v < pow2 m.intBits :=
    fun v h => (valFixed_iff hm.mag v).1 (hv v h)
  refine ⟨by rw [hlsb]; exact isMul_list_sum (fun v h => (hvs v h).1), ?_⟩
  refine sum_in_grown_range hl vs (fun v h => (hvs v h).2) ?_
  have := terms_le_pow shape useBias
  have h2 : (vs.length : ℤ) ≤ ((kernelTerms shape + (if useBias then 1 else 0) : ℕ) : ℤ) := by
    exact_mod_cast hn
  omega

/-- Po2Accumulator: sums of power-of-two multiplier outputs, converted through `po2_to_qbits`.
    PARTIAL: holds whenever the sum stays strictly below `2^(log_add_ops + max_exp)`, i.e. unless
    all `2^log_add_ops` terms sit at the top value `+2^max_exp` (see the counterexample below). -/
theorem C17_acc_po2_partial (shape : List ℕ) (useBias : Bool) (m : QRec) (hm : WFp2 m)
    (vs : List ℚ) (hv : ∀ v ∈ vs, ValPo2 m v)
    (hn : vs.length ≤ kernelTerms shape + (if useBias then 1 else 0))
    (htop : vs.sum < pow2 (logAddOps shape useBias + (getExp m).2)) :
    let acc := makeAccumulator shape m useBias
    ValFixed acc.bits acc.intBits acc.signed vs.sum := by
  intro acc
  have hl := logAddOps_nonneg shape useBias
  set l := logAddOps shape useBias with hldef
  have hmn := po2Half_pos m
  have hmx0 : 0 ≤ (getExp m).2 := by simp only [getExp, imax_eq_max]; exact le_max_left _ _
  have hmxr : po2MaxExpRaw m ≤ (getExp m).2 := by
    simp only [getExp, imax_eq_max]; exact le_max_right _ _
  have hmn' : (getExp m).1 = po2Half m := rfl
  have hacc : acc = { tQuantizedBits with
      bits := l + (b2i m.signed + ((getExp m).1 + (getExp m).2))
      intBits := l + (getExp m).2
      signed := m.signed } := by
    simp [acc, makeAccumulator, hm.nf, hm.p, po2ToQbits, hldef]
  rw [hacc]
  simp only
  have hmag : 0 ≤ magBits (l + (b2i m.signed + ((getExp m).1 + (getExp m).2))) m.signed := by
    simp only [magBits]; omega
  rw [valFixed_iff hmag]
  have hlsb : fixedLsb (l + (b2i m.signed + ((getExp m).1 + (getExp m).2))) (l + (getExp m).2)
      m.signed = - (getExp m).1 := by simp only [fixedLsb]; ring
  -- every po2 value is a multiple of 2^-mn with |v| ≤ 2^mx, and non-negative when unsigned
  have hvs : ∀ v ∈ vs, IsMul (-(getExp m).1) v ∧ loVal (getExp m).2 m.signed ≤ v ∧
      v ≤ pow2 (getExp m).2 := by
    intro v h
    obtain ⟨e, h1, h2, h3⟩ := hv v h
    have hle : pow2 e ≤ pow2 (getExp m).2 := pow2_le_pow2 (le_trans h2 hmxr)
    have hpos := pow2_pos e
    have hmul : IsMul (-(getExp m).1) (pow2 e) := isMul_pow2 (by rw [hmn']; omega)
    rcases h3 with rfl | ⟨hs, rfl⟩
    · refine ⟨hmul, ?_, hle⟩
      have := loVal_nonpos (getExp m).2 m.signed; linarith
    · refine ⟨isMul_neg hmul, ?_, by linarith [pow2_pos (getExp m).2]⟩
      simp only [loVal, hs, if_true]; linarith
  refine ⟨by rw [hlsb]; exact isMul_list_sum (fun v h => (hvs v h).1), ?_, htop⟩
  -- lower end
  have hb := list_sum_bounds vs (fun v h => ⟨(hvs v h).2.1, (hvs v h).2.2⟩)
  have hT : pow2 (l + (getExp m).2) = (tp l : ℚ) * pow2 (getExp m).2 := by
    rw [pow2_add, tp_cast hl]
  have hcnt : (vs.length : ℚ) ≤ (tp l : ℚ) := by
    have := terms_le_pow shape useBias
    rw [← hldef] at this
    have h2 : (vs.length : ℤ) ≤ ((kernelTerms shape + (if useBias then 1 else 0) : ℕ) : ℤ) := by
      exact_mod_cast hn
    have h3 : (vs.length : ℤ) ≤ tp l := by omega
    exact_mod_cast h3
  have hlo : loVal (l + (getExp m).2) m.signed = (tp l : ℚ) * loVal (getExp m).2 m.signed := by
    unfold loVal; split <;> simp [hT]
  rw [hlo]
  have := loVal_nonpos (getExp m).2 m.signed
  nlinarith [hb.1]

/-- COUNTEREXAMPLE (known finding C17-po2-top): `po2_to_qbits` gives the fixed-point carrier
    `int_bits = max_exp`, i.e. values `< 2^max_exp`, so the top power of two itself does not fit:
    a single product `2^3` of a 4-bit signed po2 multiplier output (N = 1, no bias) is not a value
    of the reported accumulator `(8 bits, 3 int bits)`. -/
theorem C17_acc_po2_counterexample :
    let m : QRec := { tPowerOfTwo with bits := 4, intBits := 4, signed := true }
    let acc := makeAccumulator [1, 1] m false
    ValPo2 m 8 ∧ acc.bits = 8 ∧ acc.intBits = 3 ∧ acc.signed = true ∧
      ¬ ValFixed 8 3 true 8 := by
  refine ⟨⟨3, by decide, by decide, Or.inl (by simp [pow2])⟩, by decide, by decide, by decide, ?_⟩
  rintro ⟨k, _, h2, h3⟩
  have hk : k ≤ 127 := by simpa [fixedHi] using h2
  have h16 : pow2 (fixedLsb 8 3 true) = 1 / 16 := by simp [fixedLsb, b2i, pow2]
  rw [h16] at h3
  have : (k : ℚ) = 128 := by linarith
  have : k = 128 := by exact_mod_cast this
  omega

/-! ## adders -/

private theorem two_pow_add_le (a b : ℤ) : pow2 a + pow2 b ≤ pow2 (max a b + 1) := by
  have h1 : pow2 a ≤ pow2 (max a b) := pow2_le_pow2 (le_max_left _ _)
  have h2 : pow2 b ≤ pow2 (max a b) := pow2_le_pow2 (le_max_right _ _)
  have : pow2 (max a b + 1) = 2 * pow2 (max a b) := by
    rw [pow2_add]; simp [pow2]; ring
  linarith

private theorem lo_add_le {ia ib : ℤ} {sa sb : Bool} {u v : ℚ}
    (ha : loVal ia sa ≤ u) (hb : loVal ib sb ≤ v) :
    loVal (max ia ib + 1) (sa || sb) ≤ u + v := by
  have h2 := two_pow_add_le ia ib
  have pa := pow2_pos ia
  have pb := pow2_pos ib
  unfold loVal at ha hb ⊢
  cases sa <;> cases sb <;> simp only [Bool.or_false, Bool.or_true, Bool.or_self, if_true,
    if_false, Bool.false_eq_true] at ha hb ⊢ <;> linarith

/-- core of every adder rule: multiples of `2^la` in `[lo_a, 2^ia)` plus multiples of `2^lb` in
    `[lo_b, 2^ib]` (closed top allowed on ONE side) land in the FixedPointAdder result range. -/
private theorem add_in_range {ia ib la lb : ℤ} {sa sb : Bool} {u v : ℚ}
    (hu : IsMul la u ∧ loVal ia sa ≤ u ∧ u < pow2 ia)
    (hv : IsMul lb v ∧ loVal ib sb ≤ v ∧ v ≤ pow2 ib) :
    IsMul (min la lb) (u + v) ∧ loVal (max ia ib + 1) (sa || sb) ≤ u + v ∧
      u + v < pow2 (max ia ib + 1) := by
  have h2 := two_pow_add_le ia ib
  refine ⟨isMul_add (isMul_of_le (min_le_left _ _) hu.1) (isMul_of_le (min_le_right _ _) hv.1),
    ?_, by linarith [hu.2.2, hv.2.2]⟩
  have ha := hu.2.1
  have hb := hv.2.1
  have pa := pow2_pos ia
  have pb := pow2_pos ib
  unfold loVal at ha hb ⊢
  cases sa <;> cases sb <;> simp only [Bool.or_false, Bool.or_true, Bool.or_self, if_true,
    if_false, Bool.false_eq_true] at ha hb ⊢ <;> linarith

/-- closed form of FixedPointAdder -/
theorem fixedPointAdder_shape (a b : QRec) :
    (fixedPointAdder a b).intBits = max a.intBits b.intBits + 1 ∧
    (fixedPointAdder a b).signed = (a.signed || b.signed) ∧
    fracBits (fixedPointAdder a b) = max (fracBits a) (fracBits b) ∧
    (fixedPointAdder a b).isFloat = false ∧ (fixedPointAdder a b).isPo2 = false := by
  simp only [fixedPointAdder, fracBits, tQuantizedBits, imax_eq_max]
  refine ⟨trivial, trivial, by ring, trivial, trivial⟩

/-- FixedPointAdder: the sum of any two values of two fixed-point types is a value of the
    reported type (this is also the bias add: accumulator + fixed-point bias). -/
theorem C17_adder_fixed (a b : QRec) (ha : WFfx a) (hb : WFfx b) (u v : ℚ)
    (hu : ValFixed a.bits a.intBits a.signed u) (hv : ValFixed b.bits b.intBits b.signed v) :
    let o := fixedPointAdder a b
    ValFixed o.bits o.intBits o.signed (u + v) := by
  intro o
  obtain ⟨hi, hs, hf, _, _⟩ := fixedPointAdder_shape a b
  have hu' := (valFixed_iff ha.mag u).1 hu
  have hv' := (valFixed_iff hb.mag v).1 hv
  have hma := ha.mag
  have hmb := hb.mag
  have hmag : 0 ≤ magBits o.bits o.signed := by
    have : magBits o.bits o.signed = o.intBits + fracBits o := by
      simp only [magBits, fracBits]; ring
    rw [this, hi, hf]
    simp only [magBits, fracBits] at hma hmb ⊢
    have := le_max_left a.intBits b.intBits
    have := le_max_left (a.bits - b2i a.signed - a.intBits) (b.bits - b2i b.signed - b.intBits)
    omega
  rw [valFixed_iff hmag]
  have hlsb : fixedLsb o.bits o.intBits o.signed
      = min (fixedLsb a.bits a.intBits a.signed) (fixedLsb b.bits b.intBits b.signed) := by
    have e1 : fixedLsb o.bits o.intBits o.signed = - fracBits o := by
      simp only [fixedLsb, fracBits]; ring
    have e2 : fixedLsb a.bits a.intBits a.signed = - fracBits a := by
      simp only [fixedLsb, fracBits]; ring
    have e3 : fixedLsb b.bits b.intBits b.signed = - fracBits b := by
      simp only [fixedLsb, fracBits]; ring
    rw [e1, e2, e3, hf]
    rcases le_total (fracBits a) (fracBits b) with h | h
    · rw [max_eq_right h, min_eq_right (by omega)]
    · rw [max_eq_left h, min_eq_left (by omega)]
  have := add_in_range (sa := a.signed) (sb := b.signed) hu' ⟨hv'.1, hv'.2.1, hv'.2.2.le⟩
  rw [hlsb, hi, hs]
  exact this

/-- a po2 value seen through its fixed-point carrier `po2_qbits_converter`: a multiple of the
    carrier's lsb inside `[lo, 2^int]` — the top `2^max_exp` is attained (closed). -/
private theorem po2_carrier (p : QRec) (hp : WFp2 p) (u : ℚ) (hu : ValPo2 p u) :
    let c := po2QbitsConverter p
    0 ≤ magBits c.bits c.signed ∧ c.isFloat = false ∧ c.isPo2 = false ∧
    IsMul (fixedLsb c.bits c.intBits c.signed) u ∧ loVal c.intBits c.signed ≤ u ∧
    u ≤ pow2 c.intBits := by
  intro c
  have hmn := po2Half_pos p
  have hmx0 : 0 ≤ (getExp p).2 := by simp only [getExp, imax_eq_max]; exact le_max_left _ _
  have hmxr : po2MaxExpRaw p ≤ (getExp p).2 := by
    simp only [getExp, imax_eq_max]; exact le_max_right _ _
  have hc : c = { tQuantizedBits with
      bits := b2i p.signed + ((getExp p).1 + (getExp p).2)
      intBits := (getExp p).2
      signed := p.signed } := by
    simp [c, po2QbitsConverter, po2ToQbits]
  have hmn' : (getExp p).1 = po2Half p := rfl
  rw [hc]
  simp only
  have hlsb : fixedLsb (b2i p.signed + ((getExp p).1 + (getExp p).2)) (getExp p).2 p.signed
      = - (getExp p).1 := by simp only [fixedLsb]; ring
  refine ⟨by simp only [magBits]; omega, rfl, rfl, ?_⟩
  rw [hlsb]
  obtain ⟨e, h1, h2, h3⟩ := hu
  have hle : pow2 e ≤ pow2 (getExp p).2 := pow2_le_pow2 (le_trans h2 hmxr)
  have hpos := pow2_pos e
  have hmul : IsMul (-(getExp p).1) (pow2 e) := isMul_pow2 (by rw [hmn']; omega)
  rcases h3 with rfl | ⟨hs, rfl⟩
  · exact ⟨hmul, by have := loVal_nonpos (getExp p).2 p.signed; linarith, hle⟩
  · refine ⟨isMul_neg hmul, ?_, by linarith [pow2_pos (getExp p).2]⟩
    simp only [loVal, hs, if_true]; linarith

/-- Po2FixedPointAdder (e.g. accumulator + po2 bias): po2 value + fixed-point value. -/
theorem C17_adder_po2_fixed (p f : QRec) (hp : WFp2 p) (hf : WFfx f) (u v : ℚ)
    (hu : ValPo2 p u) (hv : ValFixed f.bits f.intBits f.signed v) :
    let o := po2FixedAdder p f
    ValFixed o.bits o.intBits o.signed (u + v) := by
  intro o
  have ho : o = fixedPointAdder (po2QbitsConverter p) f := by
    simp [o, po2FixedAdder, hp.p]
  obtain ⟨hcm, _, _, hcu⟩ := po2_carrier p hp u hu
  set c := po2QbitsConverter p
  obtain ⟨hi, hs, hfr, _, _⟩ := fixedPointAdder_shape c f
  have hv' := (valFixed_iff hf.mag v).1 hv
  have hmf := hf.mag
  rw [ho]
  have hmag : 0 ≤ magBits (fixedPointAdder c f).bits (fixedPointAdder c f).signed := by
    have : magBits (fixedPointAdder c f).bits (fixedPointAdder c f).signed
        = (fixedPointAdder c f).intBits + fracBits (fixedPointAdder c f) := by
      simp only [magBits, fracBits]; ring
    rw [this, hi, hfr]
    simp only [magBits, fracBits] at hmf hcm ⊢
    have := le_max_left c.intBits f.intBits
    have := le_max_left (c.bits - b2i c.signed - c.intBits) (f.bits - b2i f.signed - f.intBits)
    omega
  rw [valFixed_iff hmag]
  have hlsb : fixedLsb (fixedPointAdder c f).bits (fixedPointAdder c f).intBits
      (fixedPointAdder c f).signed
      = min (fixedLsb f.bits f.intBits f.signed) (fixedLsb c.bits c.intBits c.signed) := by
    have e1 : ∀ q : QRec, fixedLsb q.bits q.intBits q.signed = - fracBits q := by
      intro q; simp only [fixedLsb, fracBits]; ring
    rw [e1, e1 f, e1 c, hfr]
    rcases le_total (fracBits c) (fracBits f) with h | h
    · rw [max_eq_right h, min_eq_left (by omega)]
    · rw [max_eq_left h, min_eq_right (by omega)]
  have := add_in_range (sa := f.signed) (sb := c.signed) hv' hcu
  rw [hlsb, hi, hs, max_comm, Bool.or_comm, add_comm]
  exact this

/-- Po2Adder (po2 + po2). PARTIAL: holds unless both operands sit at the closed top of their
    ranges with equal `max_exp` (then `2^M + 2^M = 2^(M+1)` is one lsb above the reported range). -/
theorem C17_adder_po2_po2_partial (p q : QRec) (hp : WFp2 p) (hq : WFp2 q) (u v : ℚ)
    (hu : ValPo2 p u) (hv : ValPo2 q v)
    (htop : u + v < pow2 (max (getExp p).2 (getExp q).2 + 1)) :
    let o := po2Adder p q
    ValFixed o.bits o.intBits o.signed (u + v) := by
  intro o
  obtain ⟨hcm, _, _, hcu⟩ := po2_carrier p hp u hu
  obtain ⟨hdm, _, _, hdv⟩ := po2_carrier q hq v hv
  set c := po2QbitsConverter p with hc
  set d := po2QbitsConverter q with hd
  have ho : o = fixedPointAdder c d := rfl
  obtain ⟨hi, hs, hfr, _, _⟩ := fixedPointAdder_shape c d
  rw [ho]
  have hmag : 0 ≤ magBits (fixedPointAdder c d).bits (fixedPointAdder c d).signed := by
    have : magBits (fixedPointAdder c d).bits (fixedPointAdder c d).signed
        = (fixedPointAdder c d).intBits + fracBits (fixedPointAdder c d) := by
      simp only [magBits, fracBits]; ring
    rw [this, hi, hfr]
    simp only [magBits, fracBits] at hcm hdm ⊢
    have := le_max_left c.intBits d.intBits
    have := le_max_left (c.bits - b2i c.signed - c.intBits) (d.bits - b2i d.signed - d.intBits)
    omega
  rw [valFixed_iff hmag]
  have e1 : ∀ r : QRec, fixedLsb r.bits r.intBits r.signed = - fracBits r := by
    intro r; simp only [fixedLsb, fracBits]; ring
  have hlsb : fixedLsb (fixedPointAdder c d).bits (fixedPointAdder c d).intBits
      (fixedPointAdder c d).signed
      = min (fixedLsb c.bits c.intBits c.signed) (fixedLsb d.bits d.intBits d.signed) := by
    rw [e1, e1 c, e1 d, hfr]
    rcases le_total (fracBits c) (fracBits d) with h | h
    · rw [max_eq_right h, min_eq_right (by omega)]
    · rw [max_eq_left h, min_eq_left (by omega)]
  have hci : c.intBits = (getExp p).2 := by simp [hc, po2QbitsConverter, po2ToQbits]
  have hdi : d.intBits = (getExp q).2 := by simp [hd, po2QbitsConverter, po2ToQbits]
  have hmul := isMul_add (isMul_of_le (min_le_left _ (fixedLsb d.bits d.intBits d.signed)) hcu.1)
    (isMul_of_le (min_le_right (fixedLsb c.bits c.intBits c.signed) _) hdv.1)
  refine ⟨by rw [hlsb]; exact hmul, ?_, by rw [hi, hci, hdi]; exact htop⟩
  rw [hi, hs]
  exact lo_add_le hcu.2.1 hdv.2.1

/-- the adder table: a power-of-two operand is always converted to fixed point first, floats win,
    everything else is the fixed-point adder (36 cells; after "fix: adder table cell
    [po2][binary 0/1] converts the po2 operand first" the table is symmetric). -/
theorem C17_adder_table (a b : Nat) (ha : a ≤ 5) (hb : b ≤ 5) :
    addTable a b = some (if a = 5 ∨ b = 5 then AddImpl.float
                         else if a = 1 ∧ b = 1 then AddImpl.po2
                         else if a = 1 ∨ b = 1 then AddImpl.po2Fixed else AddImpl.fixed) := by
  have h1 : a = 0 ∨ a = 1 ∨ a = 2 ∨ a = 3 ∨ a = 4 ∨ a = 5 := by omega
  have h2 : b = 0 ∨ b = 1 ∨ b = 2 ∨ b = 3 ∨ b = 4 ∨ b = 5 := by omega
  rcases h1 with rfl | rfl | rfl | rfl | rfl | rfl <;>
    rcases h2 with rfl | rfl | rfl | rfl | rfl | rfl <;> rfl

theorem C17_adder_table_symmetric (a b : Nat) (ha : a ≤ 5) (hb : b ≤ 5) :
    addTable a b = addTable b a := by
  rw [C17_adder_table a b ha hb, C17_adder_table b a hb ha]
  simp only [or_comm, and_comm]

/-! ## resolution, range, monotonicity -/

/-- fractional resolution never coarser than the finest operand; integer range one bit above the
    wider operand -/
theorem C17_resolution_range (a b : QRec) :
    fracBits (fixedPointAdder a b) = max (fracBits a) (fracBits b) ∧
    (fixedPointAdder a b).intBits = max a.intBits b.intBits + 1 :=
  ⟨(fixedPointAdder_shape a b).2.2.1, (fixedPointAdder_shape a b).1⟩

/-- widening order on fixed-point records: more integer bits, more fractional bits, sign kept -/
def Wider (a a' : QRec) : Prop :=
  a.intBits ≤ a'.intBits ∧ fracBits a ≤ fracBits a' ∧ (a.signed = true → a'.signed = true)

theorem wider_bits {a a' : QRec} (h : Wider a a') : a.bits ≤ a'.bits := by
  obtain ⟨h1, h2, h3⟩ := h
  simp only [fracBits] at h2
  cases hs : a.signed <;> cases hs' : a'.signed <;> simp [hs, hs', b2i] at h2 h3 ⊢ <;> omega

/-- widening any operand never narrows the adder's result type -/
theorem C17_monotone_adder (a a' b b' : QRec) (ha : Wider a a') (hb : Wider b b') :
    Wider (fixedPointAdder a b) (fixedPointAdder a' b') := by
  obtain ⟨hi, hs, hf, _, _⟩ := fixedPointAdder_shape a b
  obtain ⟨hi', hs', hf', _, _⟩ := fixedPointAdder_shape a' b'
  refine ⟨?_, ?_, ?_⟩
  · rw [hi, hi']; have := max_le_max ha.1 hb.1; omega
  · rw [hf, hf']; exact max_le_max ha.2.1 hb.2.1
  · rw [hs, hs']
    intro h
    simp only [Bool.or_eq_true] at h ⊢
    rcases h with h | h
    · exact Or.inl (ha.2.2 h)
    · exact Or.inr (hb.2.2 h)

/-- a longer kernel or a wider multiplier output never narrows the accumulator -/
theorem C17_monotone_acc (shape shape' : List ℕ) (useBias : Bool) (m m' : QRec)
    (hm : WFfx m) (hm' : WFfx m') (hw : Wider m m')
    (hN : kernelTerms shape ≤ kernelTerms shape') :
    Wider (makeAccumulator shape m useBias) (makeAccumulator shape' m' useBias) := by
  have hl : logAddOps shape useBias ≤ logAddOps shape' useBias := by
    have e : ∀ sh : List ℕ, logAddOps sh useBias
        = ((clog2 (kernelTerms sh + (if useBias then 1 else 0)) : ℕ) : ℤ) := fun _ => rfl
    rw [e, e]
    have : clog2 (kernelTerms shape + (if useBias then 1 else 0))
        ≤ clog2 (kernelTerms shape' + (if useBias then 1 else 0)) := by
      apply clog2_le_of_le_two_pow
      exact le_trans (by omega) (le_two_pow_clog2 _)
    exact_mod_cast this
  obtain ⟨h1, h2, h3⟩ := hw
  simp only [makeAccumulator, hm.nf, hm.np, hm'.nf, hm'.np, Wider, fracBits, tQuantizedBits] at *
  refine ⟨by simp; omega, by simp; omega, by simpa using h3⟩

/-! ## merge layers

After "fix: merge layer types keep the finest fraction and grow with the number of inputs" the
result type is computed from the widest integer part and the finest fractional part over the
inputs; `Add` grows by `max(⌈log2 n⌉, 1)` integer bits. -/

/-- fold step of `_fixed_point_envelope` on a fixed-point (non-float, non-po2) input -/
private theorem envelope_fold (l : List QRec) (hl : ∀ q ∈ l, q.isFloat = false ∧ q.isPo2 = false)
    (mi mf : Option ℤ) (sg : Bool) (fb : ℤ) :
    ∃ mi' mf' sg',
      l.foldl (fun (acc : Option ℤ × Option ℤ × Bool × Bool × ℤ) q =>
        if q.isFloat then (acc.1, acc.2.1, acc.2.2.1 || q.signed, true, imax acc.2.2.2.2 q.bits)
        else (optMax acc.1 (asQbits q).intBits, optMax acc.2.1 (fracOf (asQbits q)),
              acc.2.2.1 || q.signed, acc.2.2.2.1, acc.2.2.2.2)) (mi, mf, sg, false, fb)
        = (mi', mf', sg', false, fb) ∧
      (∀ x, mi = some x → ∃ y, mi' = some y ∧ x ≤ y) ∧
      (∀ x, mf = some x → ∃ y, mf' = some y ∧ x ≤ y) ∧
      (sg = true → sg' = true) ∧
      (∀ q ∈ l, (∃ y, mi' = some y ∧ q.intBits ≤ y) ∧ (∃ y, mf' = some y ∧ fracOf q ≤ y) ∧
                (q.signed = true → sg' = true)) ∧
      (l = [] → mi' = mi ∧ mf' = mf ∧ sg' = sg) := by
  induction l generalizing mi mf sg with
  | nil => exact ⟨mi, mf, sg, rfl, fun x h => ⟨x, h, le_rfl⟩, fun x h => ⟨x, h, le_rfl⟩, id,
      by simp, fun _ => ⟨rfl, rfl, rfl⟩⟩
  | cons q t ih =>
    obtain ⟨hqf, hqp⟩ := hl q (by simp)
    have hq : asQbits q = q := by simp [asQbits, hqp]
    obtain ⟨mi', mf', sg', he, h1, h2, h3, h4, _⟩ :=
      ih (fun r hr => hl r (by simp [hr])) (optMax mi q.intBits) (optMax mf (fracOf q)) (sg || q.signed)
    refine ⟨mi', mf', sg', ?_, ?_, ?_, ?_, ?_, by simp⟩
    · simp only [List.foldl_cons, hqf, Bool.false_eq_true, if_false, hq]
      exact he
    · intro x hx
      obtain ⟨y, hy, hxy⟩ := h1 (imax x q.intBits) (by simp [optMax, hx])
      exact ⟨y, hy, by rw [imax_eq_max] at hxy; exact le_trans (le_max_left _ _) hxy⟩
    · intro x hx
      obtain ⟨y, hy, hxy⟩ := h2 (imax x (fracOf q)) (by simp [optMax, hx])
      exact ⟨y, hy, by rw [imax_eq_max] at hxy; exact le_trans (le_max_left _ _) hxy⟩
    · intro hs; exact h3 (by simp [hs])
    · intro r hr
      rcases List.mem_cons.1 hr with rfl | hr
      · refine ⟨?_, ?_, fun hs => h3 (by simp [hs])⟩
        · rcases hmi : mi with _ | x
          · obtain ⟨y, hy, hxy⟩ := h1 r.intBits (by simp [optMax, hmi])
            exact ⟨y, hy, hxy⟩
          · obtain ⟨y, hy, hxy⟩ := h1 (imax x r.intBits) (by simp [optMax, hmi])
            exact ⟨y, hy, by rw [imax_eq_max] at hxy; exact le_trans (le_max_right _ _) hxy⟩
        · rcases hmf : mf with _ | x
          · obtain ⟨y, hy, hxy⟩ := h2 (fracOf r) (by simp [optMax, hmf])
            exact ⟨y, hy, hxy⟩
          · obtain ⟨y, hy, hxy⟩ := h2 (imax x (fracOf r)) (by simp [optMax, hmf])
            exact ⟨y, hy, by rw [imax_eq_max] at hxy; exact le_trans (le_max_right _ _) hxy⟩
      · exact h4 r hr

/-- the envelope of a non-empty list of fixed-point inputs: widest integer part `I`, finest
    fraction `Fr`, signed iff some input is -/
private theorem envelope_spec (qs : List QRec) (hne : qs ≠ [])
    (hl : ∀ q ∈ qs, q.isFloat = false ∧ q.isPo2 = false) :
    ∃ I Fr sg, mergeEnvelope qs = (some I, some Fr, sg, false, 0) ∧
      ∀ q ∈ qs, q.intBits ≤ I ∧ fracOf q ≤ Fr ∧ (q.signed = true → sg = true) := by
  obtain ⟨mi', mf', sg', he, _, _, _, h4, _⟩ := envelope_fold qs hl none none false 0
  obtain ⟨q0, hq0⟩ := List.exists_mem_of_ne_nil qs hne
  obtain ⟨⟨I, hI, _⟩, ⟨Fr, hF, _⟩, _⟩ := h4 q0 hq0
  refine ⟨I, Fr, sg', ?_, ?_⟩
  · unfold mergeEnvelope; rw [← hI, ← hF]; exact he
  · intro q hq
    obtain ⟨⟨y, hy, h1⟩, ⟨z, hz, h2⟩, h3⟩ := h4 q hq
    rw [hI] at hy; rw [hF] at hz
    cases hy; cases hz
    exact ⟨h1, h2, h3⟩

/-- a value of a fixed-point input is a multiple of the envelope's lsb inside the envelope's range -/
private theorem val_in_envelope {q : QRec} (hq : 0 ≤ magBits q.bits q.signed) {I Fr : ℤ} {sg : Bool}
    (h1 : q.intBits ≤ I) (h2 : fracOf q ≤ Fr) (h3 : q.signed = true → sg = true) {v : ℚ}
    (hv : ValFixed q.bits q.intBits q.signed v) :
    IsMul (-Fr) v ∧ loVal I sg ≤ v ∧ v < pow2 I := by
  obtain ⟨hm, hlo, hhi⟩ := (valFixed_iff hq v).1 hv
  have e : fixedLsb q.bits q.intBits q.signed = - fracOf q := by simp only [fixedLsb, fracOf]; ring
  rw [e] at hm
  refine ⟨isMul_of_le (by omega) hm, ?_, lt_of_lt_of_le hhi (pow2_le_pow2 h1)⟩
  have hp := pow2_le_pow2 h1
  have hpi := pow2_pos q.intBits
  unfold loVal at hlo ⊢
  cases hs : q.signed
  · simp only [hs, Bool.false_eq_true, if_false] at hlo
    have := pow2_pos I; split <;> linarith
  · simp only [hs, if_true] at hlo
    rw [h3 hs]; simp only [if_true]; linarith

/-- Add of ANY number of fixed-point inputs of ANY formats holds every sum of one value per input -/
theorem C17_merge_add (qv : List (QRec × ℚ)) (hne : qv ≠ [])
    (hq : ∀ p ∈ qv, WFfx p.1 ∧ ValFixed p.1.bits p.1.intBits p.1.signed p.2) :
    let o := mergeAdd (qv.map (·.1))
    ValFixed o.bits o.intBits o.signed (qv.map (·.2)).sum := by
  intro o
  have hne' : qv.map (·.1) ≠ [] := by simpa using hne
  obtain ⟨I, Fr, sg, he, hall⟩ := envelope_spec (qv.map (·.1)) hne' (by
    intro q hq'
    obtain ⟨p, hp, rfl⟩ := List.mem_map.1 hq'
    exact ⟨(hq p hp).1.nf, (hq p hp).1.np⟩)
  set n := (qv.map (·.1)).length with hn
  have hnpos : n ≠ 0 := by simpa [hn] using hne
  set grow : ℤ := imax (clog2 (if n = 0 then 1 else n) : ℤ) 1 with hg
  have ho : o = { tQuantizedBits with intBits := I + grow, signed := sg,
                                      bits := I + grow + Fr + b2i sg } := by
    simp only [o, mergeAdd, he, Bool.false_eq_true, if_false, Option.getD_some]
    rfl
  have hgrow0 : 0 ≤ grow := by rw [hg, imax_eq_max]; exact le_trans zero_le_one (le_max_right _ _)
  have hcnt : ((qv.map (·.2)).length : ℤ) ≤ tp grow := by
    have h1 : n ≤ 2 ^ clog2 n := le_two_pow_clog2 n
    have h2 : (clog2 n : ℤ) ≤ grow := by rw [hg, if_neg hnpos, imax_eq_max]; exact le_max_left _ _
    have h3 : tp (clog2 n : ℤ) ≤ tp grow := tp_mono h2
    have h4 : (n : ℤ) ≤ tp (clog2 n : ℤ) := by
      unfold tp; simp only [Int.toNat_natCast]; exact_mod_cast h1
    have : (qv.map (·.2)).length = n := by simp [hn]
    rw [this]; omega
  -- every value lies in the envelope
  have hvals : ∀ v ∈ qv.map (·.2), IsMul (-Fr) v ∧ loVal I sg ≤ v ∧ v < pow2 I := by
    intro v hv
    obtain ⟨p, hp, rfl⟩ := List.mem_map.1 hv
    obtain ⟨h1, h2, h3⟩ := hall p.1 (List.mem_map.2 ⟨p, hp, rfl⟩)
    exact val_in_envelope (hq p hp).1.mag h1 h2 h3 (hq p hp).2
  -- magnitude bits of the output are non-negative
  obtain ⟨p0, hp0⟩ := List.exists_mem_of_ne_nil qv hne
  obtain ⟨h01, h02, _⟩ := hall p0.1 (List.mem_map.2 ⟨p0, hp0, rfl⟩)
  have hmag0 := (hq p0 hp0).1.mag
  rw [ho]; simp only
  have hmag : 0 ≤ magBits (I + grow + Fr + b2i sg) sg := by
    simp only [magBits, fracOf] at hmag0 h02 ⊢; omega
  rw [valFixed_iff hmag]
  have hlsb : fixedLsb (I + grow + Fr + b2i sg) (I + grow) sg = -Fr := by
    simp only [fixedLsb]; ring
  refine ⟨by rw [hlsb]; exact isMul_list_sum (fun v hv => (hvals v hv).1), ?_⟩
  have := sum_in_grown_range (i := I) (l := grow) (s := sg) hgrow0 (qv.map (·.2))
    (fun v hv => (hvals v hv).2) hcnt
  rw [add_comm grow I] at this
  exact this

/-- Maximum / Minimum / Average / Concatenate: the result type holds every value of every input,
    for inputs of ANY fixed-point formats -/
theorem C17_merge_max_holds_inputs (qv : List (QRec × ℚ))
    (hq : ∀ p ∈ qv, WFfx p.1 ∧ ValFixed p.1.bits p.1.intBits p.1.signed p.2) (o : QRec)
    (ho : mergeMax (qv.map (·.1)) = some o) :
    ∀ p ∈ qv, ValFixed o.bits o.intBits o.signed p.2 := by
  intro p hp
  rcases hqv : qv with _ | ⟨p0, rest⟩
  · rw [hqv] at hp; cases hp
  · rw [hqv] at ho hp hq
    simp only [List.map_cons, mergeMax] at ho
    split at ho
    · -- identical types: the shared type itself
      rename_i hsame
      simp only [Option.some.injEq] at ho
      subst ho
      rcases List.mem_cons.1 hp with rfl | hp'
      · exact (hq _ (by simp)).2
      · have := List.all_eq_true.1 hsame p.1 (List.mem_map.2 ⟨p, hp', rfl⟩)
        simp only [sameType, Bool.and_eq_true, decide_eq_true_eq] at this
        obtain ⟨⟨⟨⟨_, hb⟩, hi⟩, hs⟩, _⟩ := this
        have hv := (hq p (by simp [hp'])).2
        rw [← hb, ← hi, ← hs] at hv
        exact hv
    · have hne' : (p0 :: rest).map (·.1) ≠ [] := by simp
      obtain ⟨I, Fr, sg, he, hall⟩ := envelope_spec ((p0 :: rest).map (·.1)) hne' (by
        intro q hq'
        obtain ⟨r, hr, rfl⟩ := List.mem_map.1 hq'
        exact ⟨(hq r hr).1.nf, (hq r hr).1.np⟩)
      simp only [List.map_cons] at he
      rw [he] at ho
      simp only [Bool.false_eq_true, if_false, Option.getD_some, Option.some.injEq] at ho
      subst ho
      simp only
      obtain ⟨h1, h2, h3⟩ := hall p.1 (List.mem_map.2 ⟨p, hp, rfl⟩)
      have hv := val_in_envelope (hq p hp).1.mag h1 h2 h3 (hq p hp).2
      have hmag0 := (hq p hp).1.mag
      have hmag : 0 ≤ magBits (I + Fr + b2i sg) sg := by
        simp only [magBits, fracOf] at hmag0 h2 ⊢; omega
      rw [valFixed_iff hmag]
      have hlsb : fixedLsb (I + Fr + b2i sg) I sg = -Fr := by simp only [fixedLsb]; ring
      rw [hlsb]; exact hv

/-- regression witness of the repaired defects: `Add[(8,0,signed), (8,7,signed)]` is now
    `(16, 8, signed)` and holds `2^-7`; `Maximum` of the same inputs is `(15, 7, signed)`;
    three inputs of `quantized_bits(5,0,1)` give `(7, 2)`, which holds `-3`. -/
theorem C17_merge_fixed_witness :
    let a : QRec := { tQuantizedBits with bits := 8, intBits := 0, signed := true }
    let b : QRec := { tQuantizedBits with bits := 8, intBits := 7, signed := true }
    let c : QRec := { tQuantizedBits with bits := 5, intBits := 0, signed := true }
    mergeAdd [a, b] = { tQuantizedBits with bits := 16, intBits := 8, signed := true } ∧
    mergeMax [a, b] = some { tQuantizedBits with bits := 15, intBits := 7, signed := true } ∧
    mergeAdd [c, c, c] = { tQuantizedBits with bits := 7, intBits := 2, signed := true } := by
  refine ⟨by decide, by decide, by decide⟩

/-! ## non-vacuity -/

example : WFfx { tQuantizedBits with bits := 8, intBits := 0, signed := true } :=
  ⟨rfl, rfl, by decide⟩
example : WFp2 { tPowerOfTwo with bits := 4, intBits := 4, signed := true } :=
  ⟨rfl, rfl, by decide⟩
example : kernelTerms [3, 3, 16, 32] = 144 ∧ logAddOps [3, 3, 16, 32] true = 8 := by decide

end QKV.Props.C17

namespace QKV.Props.C17
open QKV

/-- COUNTEREXAMPLE (known finding C17-unit-intbits): the ternary / ±1-binary records carry
    `int_bits = bits` (no room for the sign), so an accumulator or adder derived from them reads,
    as the fixed-point type it is declared to be, with a step of 2: the accumulator of ONE ternary
    product is `(2 bits, 2 int bits, signed)` = {−4,−2,0,2} and cannot hold the value 1. -/
theorem C17_acc_ternary_counterexample :
    makeAccumulator [1, 1] tTernary false
      = { tQuantizedBits with bits := 2, intBits := 2, signed := true } ∧
    Val tTernary 1 ∧ ¬ ValFixed 2 2 true 1 := by
  refine ⟨by decide, by simp [Val, tTernary], ?_⟩
  rintro ⟨k, _, _, h⟩
  simp [fixedLsb, b2i, pow2] at h
  have h' : ((1 : ℤ) : ℚ) = ((k * 2 : ℤ) : ℚ) := by push_cast; linarith
  have : (1 : ℤ) = k * 2 := by exact_mod_cast h'
  omega

/-- COUNTEREXAMPLE (known finding C17-po2-top, adder form): `quantized_po2(4) + quantized_po2(4)`
    is reported as `(9 bits, 4 int bits, signed)`, i.e. values `< 16`, but `8 + 8 = 16`. -/
theorem C17_adder_po2_po2_counterexample :
    let p : QRec := { tPowerOfTwo with bits := 4, intBits := 4, signed := true }
    ValPo2 p 8 ∧ po2Adder p p = { tQuantizedBits with bits := 9, intBits := 4, signed := true } ∧
    ¬ ValFixed 9 4 true (8 + 8) := by
  refine ⟨⟨3, by decide, by decide, Or.inl (by simp [pow2])⟩, by decide, ?_⟩
  rintro ⟨k, _, h2, h⟩
  have hk : k ≤ 255 := by simpa [fixedHi] using h2
  simp [fixedLsb, b2i, pow2] at h
  have : (k : ℚ) = 256 := by linarith
  have : k = 256 := by exact_mod_cast this
  omega

end QKV.Props.C17

/-! ## histories: the k-th derivation in a process equals a fresh one (strengthening round, seed C17-7) -/
namespace QKV.Props.C17
open QKV

/-- table invariant of a memo whose key determines the result -/
private def TblOK {α β κ : Type} [DecidableEq κ] (key : α → κ) (f : α → β) (tbl : List (κ × β)) : Prop :=
  ∀ k b, memoFind k tbl = some b → ∀ a, key a = k → f a = b

private theorem memoRun_of_ok {α β κ : Type} [DecidableEq κ] (key : α → κ) (f : α → β)
    (hkey : ∀ a a', key a = key a' → f a = f a') (hist : List α) :
    ∀ tbl, TblOK key f tbl → memoRun key f tbl hist = hist.map f := by
  induction hist with
  | nil => intro tbl _; rfl
  | cons a rest ih =>
    intro tbl hok
    simp only [memoRun, List.map_cons]
    cases hfind : memoFind (key a) tbl with
    | some b =>
      simp only
      rw [ih tbl hok, hok (key a) b hfind a rfl]
    | none =>
      simp only
      rw [ih ((key a, f a) :: tbl)]
      intro k b hb a' ha'
      simp only [memoFind] at hb
      split at hb
      · rename_i hk
        simp only [Option.some.injEq] at hb
        rw [← hb]; exact hkey a' a (by rw [ha', hk])
      · exact hok k b hb a' ha'

/-- HISTORY INDEPENDENCE: a factory that remembers earlier derivations under a key that DETERMINES the
    result answers every history of requests — any length, any order, any repetitions — exactly like
    the pure factory: the k-th derivation equals a fresh one. -/
theorem C17_history_memo_sound {α β κ : Type} [DecidableEq κ] (key : α → κ) (f : α → β)
    (hkey : ∀ a a', key a = key a' → f a = f a') (hist : List α) :
    memoRun key f [] hist = hist.map f :=
  memoRun_of_ok key f hkey hist [] (by intro k b h; simp [memoFind] at h)

/-- the full operand records are such a key for the adder factory (and so is any key that keeps every
    field the model reads): the memoised adder factory is history independent -/
theorem C17_history_adder_full_key (hist : List (QRec × QRec)) :
    memoRun (fun p => p) (fun p : QRec × QRec => makeAdder p.1 p.2) [] hist = adderHistory hist :=
  C17_history_memo_sound _ _ (by intro a a' h; rw [h]) hist

/-- conversely a key that does NOT determine the result is observable: for ANY two requests with equal
    keys and different results, the history `[a, a']` gets the first answer twice -/
theorem C17_history_memo_unsound {α β κ : Type} [DecidableEq κ] (key : α → κ) (f : α → β)
    (a a' : α) (hk : key a = key a') (hne : f a ≠ f a') :
    memoRun key f [] [a, a'] = [f a, f a] ∧ memoRun key f [] [a, a'] ≠ [a, a'].map f := by
  have e : memoRun key f [] [a, a'] = [f a, f a] := by
    simp [memoRun, memoFind, hk]
  refine ⟨e, ?_⟩
  rw [e]; simp only [List.map_cons, List.map_nil]
  intro h
  exact hne (by simpa using h)

/-- COUNTEREXAMPLE for the key `(mode, bits, int_bits, is_signed)` per operand (seed C17-7): it forgets
    `max_val_po2`.  `quantized_po2(4, max_value=1)` and `quantized_po2(4)` have the same key, their adders
    with `quantized_bits(6,0,unsigned)` differ — `(8,1,signed)` against `(11,4,signed)` — and the first
    one, handed out for the second request, cannot hold `-8 + 0`. -/
theorem C17_history_key_without_cap_counterexample :
    let a : QRec := { tPowerOfTwo with bits := 4, intBits := 4, signed := true, maxValPo2 := some 1 }
    let b : QRec := { tPowerOfTwo with bits := 4, intBits := 4, signed := true }
    let f : QRec := { tQuantizedBits with bits := 6, intBits := 0, signed := false }
    opKey4 a = opKey4 b ∧
    makeAdder a f = some { tQuantizedBits with bits := 8, intBits := 1, signed := true } ∧
    makeAdder b f = some { tQuantizedBits with bits := 11, intBits := 4, signed := true } ∧
    ValPo2 b (-8) ∧ ValFixed 6 0 false 0 ∧ ¬ ValFixed 8 1 true (-8 + 0) := by
  have h1 : ceilLog2Rat 1 = 0 := by simpa [pow2] using ceilLog2Rat_pow2 0
  refine ⟨by decide, ?_, by decide, ⟨3, by decide, by decide, Or.inr ⟨rfl, by simp [pow2]⟩⟩,
    ⟨0, by decide, by decide, by simp⟩, ?_⟩
  · simp [makeAdder, addTable, po2FixedAdder, fixedPointAdder, po2QbitsConverter, po2ToQbits, getExp,
      po2Half, po2MaxExpRaw, h1, tPowerOfTwo, tQuantizedBits, b2i, imax, imin]
  · rintro ⟨k, h1', _, h⟩
    have hk : (-128 : ℤ) ≤ k := by simpa [fixedLo] using h1'
    simp [fixedLsb, b2i, pow2] at h
    have : (k : ℚ) = -512 := by linarith
    have : k = -512 := by exact_mod_cast this
    omega

/-- regression witness of the repaired defect C17-merge-same-ignores-cap: `merge_factory.Maximum` (also
    Minimum / Average / Concatenate) used to take the FIRST input's type when all inputs agreed in name, bits,
    int_bits and sign — `max_val_po2` was not compared — so `Maximum[quantized_po2(4, max_value=1),
    quantized_po2(4)]` was reported as `quantized_po2(4, max_value=1)`, which cannot hold the second input's 4.
    The comparison now includes `max_val_po2`: the pair goes through the fixed-point envelope `(8, 3, signed)`,
    which holds 4 (the top value 8 remains excluded by the po2 carrier: finding C17-po2-top). -/
theorem C17_merge_max_po2_cap_fixed_witness :
    let a : QRec := { tPowerOfTwo with bits := 4, intBits := 4, signed := true, maxValPo2 := some 1 }
    let b : QRec := { tPowerOfTwo with bits := 4, intBits := 4, signed := true }
    mergeMax [a, b] = some { tQuantizedBits with bits := 8, intBits := 3, signed := true } ∧
    ValPo2 b 4 ∧ ¬ ValPo2 a 4 ∧ ValFixed 8 3 true 4 := by
  have h1 : ceilLog2Rat 1 = 0 := by simpa [pow2] using ceilLog2Rat_pow2 0
  refine ⟨by decide, ⟨2, by decide, by decide, Or.inl (by simp [pow2])⟩, ?_, ⟨64, by decide, by decide, ?_⟩⟩
  · rintro ⟨e, _, he, hv⟩
    have he0 : e ≤ 0 := by
      simpa [po2MaxExpRaw, po2Half, h1, tPowerOfTwo, imin] using he
    have hp : pow2 e ≤ 1 := by
      have := pow2_le_pow2 he0
      simpa [pow2] using this
    have hpos := pow2_pos e
    rcases hv with hv | ⟨_, hv⟩ <;> linarith
  · simp [fixedLsb, b2i, pow2]; norm_num

/-- the shortcut of `Maximum` (one shared type for all inputs) is taken only when the inputs agree in EVERY
    field that determines the value set of a po2 record — `max_val_po2` included — and then every value of every
    input is a value of the result (before the repair this needed an extra hypothesis on `max_val_po2`) -/
theorem C17_merge_max_po2_same (q0 : QRec) (rest : List QRec)
    (hsame : ∀ r ∈ rest, sameType q0 r = true)
    (r : QRec) (hr : r ∈ q0 :: rest) (v : ℚ) (hv : ValPo2 r v) :
    mergeMax (q0 :: rest) = some q0 ∧ ValPo2 q0 v := by
  have hall : rest.all (sameType q0) = true := List.all_eq_true.2 fun x hx => hsame x hx
  refine ⟨by simp [mergeMax, hall], ?_⟩
  rcases List.mem_cons.1 hr with rfl | hr'
  · exact hv
  · have hs := hsame r hr'
    simp only [sameType, Bool.and_eq_true, decide_eq_true_eq] at hs
    obtain ⟨⟨⟨⟨_, hb⟩, _⟩, hsg⟩, hm⟩ := hs
    obtain ⟨e, h1, h2, h3⟩ := hv
    have hh : po2Half r = po2Half q0 := by simp [po2Half, hb, hsg]
    have hx : po2MaxExpRaw r = po2MaxExpRaw q0 := by simp [po2MaxExpRaw, hh, hm]
    refine ⟨e, by rw [← hh]; exact h1, by rw [← hx]; exact h2, ?_⟩
    rcases h3 with h3 | ⟨h3, h4⟩
    · exact Or.inl h3
    · exact Or.inr ⟨by rw [hsg]; exact h3, h4⟩

/-- the shortcut is never taken for two inputs that differ in `max_val_po2` -/
theorem C17_merge_max_cap_differs_no_shortcut (q0 q1 : QRec) (h : q0.maxValPo2 ≠ q1.maxValPo2) :
    sameType q0 q1 = false := by
  simp [sameType, h]

end QKV.Props.C17
