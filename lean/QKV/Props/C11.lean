/-
  C11 — quantized layers equal their Keras layer run on pre-quantized weights (drop-in).

  Property (verbatim, properties.jsonl): For every quantized layer type (dense, 1D/2D convolution,
  depthwise and separable convolution, simple/LSTM/GRU recurrent layers, average pooling,
  scale-shift) and every admissible geometry, the layer's output equals the output of the
  corresponding stock Keras layer whose weights were replaced by the layer's quantizers applied to
  the same weights, followed by the layer's activation quantizer; with no quantizers configured it
  equals the stock layer exactly.  The quantizers a layer reports are exactly the ones it applies,
  in weight order.

  This file holds ONLY property theorems (and non-vacuity examples).
  Abstract model: QKV.Model.Layers (terms over uninterpreted primitives and quantizers).
  Concrete model: QKV.Model.LayersConcrete (exact-rational tensors), lemmas in QKV.Lemmas.Layers.
  `*Transpose` layers do not run in the sandbox and are outside every statement here.
-/
import QKV.Lemmas.Layers
import QKV.Lemmas.LayersConcrete
import QKV.Lemmas.LayerQObjects
namespace QKV.Props.C11
open QKV QKV.Layers

variable {T : Type}

/-- case split on every boolean of the configuration that `call` branches on -/
local macro "cfg_cases" c:term : tactic => `(tactic|
  (cases _ha : ($c).hasAct <;> cases _hb : ($c).useBias <;> cases _h0 : ($c).hasQ 0 <;>
   cases _h1 : ($c).hasQ 1 <;> cases _h2 : ($c).hasQ 2))

/-! ## 1. drop-in, feed-forward classes: for EVERY interpretation of the primitives and EVERY
       quantizer / activation functions -/

/-- classes whose `call` quantizes each weight tensor as stored (since /repo 871ddb1 also
    QSeparableConv1D) -/
def Plain (cls : Cls) : Prop :=
  cls = .dense ∨ cls = .activation ∨ cls = .conv1d ∨ cls = .conv2d ∨ cls = .sepConv1d ∨
  cls = .sepConv2d ∨ cls = .dwConv2d ∨ cls = .scaleShift

/-- QDense, QActivation, QConv1D (both data formats, every padding — causal under channels_first
    included since /repo 6ddae0e: the former hypothesis `CausalOK` is gone), QConv2D (no mask),
    QSeparableConv1D (every quantizer function — the former hypothesis `CommutesExpand` is gone since
    /repo 871ddb1), QSeparableConv2D, QDepthwiseConv2D, QScaleShift:
    output = activation (stock layer on weights `q_i(w_i)`). -/
theorem C11_dropin (I : Interp T) (E : Env T) (cls : Cls) (c : LCfg) (hc : Plain cls)
    (hm : c.hasMask = false) (ha : cls = .activation → c.hasAct = true) :
    eval I E (qlayer cls c) = actOf c E (eval I (preEnv c E) (kerasLayer cls c)) := by
  rcases hc with h | h | h | h | h | h | h | h <;> subst h
  · simp only [qlayer, kerasLayer, qDense, kDense, qw, withAct, actOf, preEnv]
    cfg_cases c <;> simp [eval, *]
  · simp [qlayer, kerasLayer, qActivation, actOf, preEnv, eval, ha rfl]
  · simp only [qlayer, kerasLayer, qConv1d, kConv1d, qw, withAct, actOf, preEnv]
    by_cases hp : c.conv.padding = .causal <;> by_cases hdf : c.conv.df = .channelsLast <;>
      cfg_cases c <;> simp [eval, spatialStart, *]
  · simp only [qlayer, kerasLayer, qConv2d, kConv2d, qw, withAct, actOf, preEnv, hm]
    cfg_cases c <;> simp [eval, *]
  · simp only [qlayer, kerasLayer, qSepConv1d, kSepConv1d, qw, withAct, actOf, preEnv]
    by_cases hp : c.conv.padding = .causal <;> cfg_cases c <;> simp [eval, *]
  · simp only [qlayer, kerasLayer, qSepConv2d, kSepConv2d, qw, withAct, actOf, preEnv]
    cfg_cases c <;> simp [eval, *]
  · simp only [qlayer, kerasLayer, qDwConv2d, kDwConv2d, qw, withAct, actOf, preEnv]
    cfg_cases c <;> simp [eval, *]
  · simp only [qlayer, kerasLayer, qScaleShift, kScaleShift, qw, withAct, actOf, preEnv]
    cfg_cases c <;> simp [eval, *]

/-- QConv2D with a mask: the stock layer's kernel is `q(kernel) * mask`. -/
theorem C11_dropin_conv2d_masked (I : Interp T) (E : Env T) (c : LCfg) (hm : c.hasMask = true) :
    eval I E (qlayer .conv2d c) =
      actOf c E (eval I { preEnv c E with
        weight := fun i => if i = 0 then I.op2 .mul ((preEnv c E).weight 0) E.mask
                           else (preEnv c E).weight i } (kerasLayer .conv2d c)) := by
  simp only [qlayer, kerasLayer, qConv2d, kConv2d, qw, withAct, actOf, preEnv, hm]
  cfg_cases c <;> simp [eval, *]

/-- QSeparableConv1D is drop-in for EVERY quantizer function (instance of `C11_dropin`; until /repo
    871ddb1 this needed the hypothesis that both kernel quantizers commute with `expand_dims(·, 0)`). -/
theorem C11_dropin_sepConv1d (I : Interp T) (E : Env T) (c : LCfg) (hm : c.hasMask = false) :
    eval I E (qlayer .sepConv1d c) = actOf c E (eval I (preEnv c E) (kerasLayer .sepConv1d c)) :=
  C11_dropin I E .sepConv1d c (by simp [Plain]) hm (by intro h; cases h)

/-- a quantizer commutes with `expand_dims(·, 0)` (every element-wise quantizer does, see
    `C11_elementwise_commutes_expandDims`; per-channel auto-scaled ones do not) -/
def CommutesExpand (I : Interp T) (q : T → T) : Prop :=
  ∀ t, q (I.op1 (.expandDims 0) t) = I.op1 (.expandDims 0) (q t)

/-- the repair 871ddb1 (quantize the stored kernels, expand afterwards) PRESERVES the layer's value
    for every quantizer that commutes with the reshape: old `call` = new `call`. -/
theorem C11_sepConv1d_repair_preserves_commuting (I : Interp T) (E : Env T) (c : LCfg)
    (h0 : c.hasQ 0 = true → CommutesExpand I (E.quant 0))
    (h1 : c.hasQ 1 = true → CommutesExpand I (E.quant 1)) :
    eval I E (qSepConv1dExpandFirst c) = eval I E (qlayer .sepConv1d c) := by
  simp only [CommutesExpand] at h0 h1
  simp only [qlayer, qSepConv1d, qSepConv1dExpandFirst, qw, withAct]
  by_cases hp : c.conv.padding = .causal <;> cfg_cases c <;> simp_all [eval]

/-- REGRESSION WITNESS of finding C11-sepconv1d-expanded-kernel-auto-scale (repaired in /repo
    871ddb1): in the interpretation where the quantizer distinguishes the expanded kernel (the old
    counterexample), the OLD `call` (expand first) is not the stock layer on pre-quantized weights,
    the layer as it is now is. -/
theorem C11_sepConv1d_expand_first_fixed_witness :
    ∃ (I : Interp Int) (E : Env Int) (c : LCfg),
      eval I E (qSepConv1dExpandFirst c) ≠ actOf c E (eval I (preEnv c E) (kerasLayer .sepConv1d c)) ∧
      eval I E (qlayer .sepConv1d c) = actOf c E (eval I (preEnv c E) (kerasLayer .sepConv1d c)) := by
  refine ⟨{ const := fun _ => 0, op1 := fun o t => match o with | .expandDims 0 => t + 1 | _ => t,
            op2 := fun _ a _ => a, op3 := fun _ _ b _ => b },
          { x := 0, state := fun _ => 0, weight := fun _ => 0, mask := 0,
            quant := fun _ t => 2 * t, actv := fun _ t => t },
          { hasQ := fun s => s == 0, useBias := false }, ?_, ?_⟩ <;>
  simp [qlayer, kerasLayer, qSepConv1d, qSepConv1dExpandFirst, kSepConv1d, qw, withAct, actOf, preEnv, eval]

/-- QAveragePooling2D with an average quantizer: the stock layer on `x * area`, times the
    quantized reciprocal (cast to floatx), then the activation. -/
theorem C11_dropin_avgPool (I : Interp T) (E : Env T) (c : LCfg) (hq : c.hasQ 0 = true) :
    eval I E (qlayer .avgPool2d c) =
      actOf c E (I.op2 .mul
        (eval I { E with x := I.op1 (.scale (c.area : Rat)) E.x } (kerasLayer .avgPool2d c))
        (I.op1 .castFloatx (E.quant 0 (I.const (1 / (c.area : Rat)))))) := by
  simp only [qlayer, kerasLayer, qAvgPool2d, kAvgPool2d, withAct, actOf, hq, recip]
  cases c.hasAct <;> simp [eval]

/-- QGlobalAveragePooling2D with an average quantizer: pooling SUM of the input times the quantized
    reciprocal of the pool area OF THAT SAME INPUT (`recipAreaHW` of `E.x`; no configuration field,
    no build-time shape). -/
theorem C11_dropin_globalAvgPool (I : Interp T) (E : Env T) (c : LCfg) (hq : c.hasQ 0 = true) :
    eval I E (qlayer .globalAvgPool2d c) =
      actOf c E (I.op2 .mul (I.op1 (.sumHW c.pool.df c.keepdims) E.x)
        (E.quant 0 (I.op1 (.recipAreaHW c.pool.df) E.x))) := by
  simp only [qlayer, qGlobalAvgPool2d, withAct, actOf, hq, recipIn]
  cases c.hasAct <;> simp [eval]

/-- pooling layers without an average quantizer call the stock layer -/
theorem C11_dropin_pool_noq (I : Interp T) (E : Env T) (cls : Cls) (c : LCfg)
    (hc : cls = .avgPool2d ∨ cls = .globalAvgPool2d) (hq : c.hasQ 0 = false) :
    eval I E (qlayer cls c) = actOf c E (eval I E (kerasLayer cls c)) := by
  rcases hc with h | h <;> subst h <;>
  simp only [qlayer, kerasLayer, qAvgPool2d, kAvgPool2d, qGlobalAvgPool2d, kGlobalAvgPool2d,
    withAct, actOf, hq] <;> cases c.hasAct <;> simp [eval]

/-- the stock terms contain no quantizer application … -/
theorem C11_kerasLayer_quantFree (cls : Cls) (c : LCfg) : quantSites (kerasLayer cls c) = [] := by
  cases cls <;>
  simp only [kerasLayer, kDense, kConv1d, kConv2d, kSepConv1d, kSepConv2d, kDwConv2d, kAvgPool2d,
    kGlobalAvgPool2d, kScaleShift] <;>
  cases c.useBias <;> (try by_cases hp : c.conv.padding = .causal) <;> simp [quantSites, *]

/-- … so their value does not depend on the quantizer functions at all (the right-hand sides above
    really are "the stock layer": only weights, input, mask and primitives enter). -/
theorem C11_quantFree_eval (I : Interp T) (E : Env T) (q' : Nat → T → T) (t : Term)
    (h : quantSites t = []) : eval I { E with quant := q' } t = eval I E t := by
  induction t with
  | quant s t _ => simp [quantSites] at h
  | actv s t ih => simp only [eval]; rw [ih (by simpa [quantSites] using h)]
  | op1 o t ih => simp only [eval]; rw [ih (by simpa [quantSites] using h)]
  | op2 o a b iha ihb =>
    simp only [quantSites, List.append_eq_nil_iff] at h
    simp only [eval]; rw [iha h.1, ihb h.2]
  | op3 o a b c iha ihb ihc =>
    simp only [quantSites, List.append_eq_nil_iff] at h
    simp only [eval]; rw [iha h.1.1, ihb h.1.2, ihc h.2]
  | _ => rfl

/-! ## 2. no quantizers configured: the two transcriptions are the SAME term -/

theorem C11_no_quantizer (cls : Cls) (c : LCfg) (hcls : cls ≠ .activation)
    (hq : ∀ s, c.hasQ s = false) (ha : c.hasAct = false) (hm : c.hasMask = false) :
    qlayer cls c = kerasLayer cls c := by
  cases cls <;>
  simp only [qlayer, kerasLayer, qDense, kDense, qConv1d, kConv1d, qConv2d, kConv2d,
    qSepConv1d, kSepConv1d, qSepConv2d, kSepConv2d, qDwConv2d, kDwConv2d, qAvgPool2d, kAvgPool2d,
    qGlobalAvgPool2d, kGlobalAvgPool2d, qScaleShift, kScaleShift, qw, withAct, hq, ha, hm] <;>
  first
    | exact absurd rfl hcls
    | (cases c.useBias <;> (try by_cases hp : c.conv.padding = .causal) <;>
        (try by_cases hdf : c.conv.df = .channelsLast) <;> simp_all [spatialStart])

/-! ## 3. recurrent layers -/

/-- QSimpleRNNCell / QLSTMCell (both implementations) / QGRUCell (both implementations,
    reset_after or not, any subset of quantizers): one step of the quantized cell is one step of
    the stock cell on pre-quantized weights with every previous state passed through the state
    quantizer. -/
theorem C11_dropin_cell (I : Interp T) (E : Env T) (cls : CellCls) (c : LCfg) (F : Nat → T) (x : T) :
    cellStep I E (qcell cls c) F x =
      cellStep I (preEnv c E) (kerasCell cls c) (fun j => stateQ c E (F j)) x := by
  cases cls
  · simp only [cellStep, qcell, kerasCell, qSimpleRNNCell, kSimpleRNNCell, qw, preEnv, stateQ,
      tAdd, tDot, bAdd]
    cfg_cases c <;> cases _h3 : c.hasQ 3 <;> simp [eval, *]
  · simp only [cellStep, qcell, kerasCell, qLSTMCell, kLSTMCell, qw, preEnv, stateQ,
      tAdd, tDot, bAdd, tMul]
    by_cases hi : c.impl = 1 <;> cfg_cases c <;> cases _h3 : c.hasQ 3 <;> simp [eval, *]
  · simp only [cellStep, qcell, kerasCell, qGRUCell, kGRUCell, qw, preEnv, stateQ,
      tAdd, tDot, bAdd, tMul]
    by_cases hi : c.impl = 1 <;> cases _hr : c.resetAfter <;> cases _hb : c.useBias <;>
      cases _h0 : c.hasQ 0 <;> cases _h1 : c.hasQ 1 <;> cases _h2 : c.hasQ 2 <;>
      cases _h3 : c.hasQ 3 <;> simp [eval, *]

/-- the whole recurrence, by induction over the time steps: the states (hence the outputs, state 0)
    after every step of the quantized layer are those of the stock cell on pre-quantized weights
    whose previous states go through the state quantizer.  Any number of steps, any initial state. -/
theorem C11_dropin_recurrent (I : Interp T) (E : Env T) (cls : CellCls) (c : LCfg)
    (xs : List T) (S0 : List T) :
    runCell I E (qcell cls c) S0 xs =
      runRef I (preEnv c E) (kerasCell cls c) (stateQ c E) S0 xs := by
  induction xs generalizing S0 with
  | nil => rfl
  | cons x xs ih =>
    simp only [runCell, runRef]
    have hs : stateFn (preEnv c E) S0 = stateFn E S0 := rfl
    rw [C11_dropin_cell I E cls c, hs, ih]

/-- without a state quantizer the reference recurrence is the plain stock recurrence -/
theorem C11_recurrent_no_state_quantizer (I : Interp T) (E : Env T) (cell : List Term) (c : LCfg)
    (h3 : c.hasQ 3 = false) (xs : List T) (S0 : List T) :
    runRef I E cell (stateQ c E) S0 xs = runCell I E cell S0 xs := by
  induction xs generalizing S0 with
  | nil => rfl
  | cons x xs ih => simp only [runCell, runRef, stateQ, h3]; rw [← ih]; simp

/-- no quantizers: the quantized SimpleRNN / LSTM / GRU cells ARE the stock cells (same terms) -/
theorem C11_no_quantizer_cell (cls : CellCls) (c : LCfg)
    (hq : ∀ s, c.hasQ s = false) : qcell cls c = kerasCell cls c := by
  cases cls
  · simp [qcell, kerasCell, qSimpleRNNCell, kSimpleRNNCell, qw, hq]
  · simp [qcell, kerasCell, qLSTMCell, kLSTMCell, qw, hq]
  · simp [qcell, kerasCell, qGRUCell, kGRUCell, qw, hq]

/-- REGRESSION WITNESS of the defect repaired in /repo 32aca3c (QGRUCell with
    `recurrent_quantizer=None` multiplied the state by `self.kernel`, the INPUT kernel): in the
    interpretation that separated the old transcription from the stock cell (integers, units = 1,
    kernel 2, recurrent kernel 3, state 1, input 0, `dot` = product) the quantized cell now gives
    the stock cell's value, which involves the recurrent kernel 3 and differs from what the input
    kernel 2 would give. -/
theorem C11_gru_no_quantizer_regression :
    let I : Interp Int :=
      { const := fun _ => 0,
        op1 := fun o t => match o with | .oneMinus => 1 - t | _ => t,
        op2 := fun o a b => match o with | .dot => a * b | .mul => a * b | _ => a + b,
        op3 := fun _ a _ _ => a }
    let E : Env Int :=
      { x := 0, state := fun _ => 1, weight := fun i => if i = 0 then 2 else 3, mask := 0,
        quant := fun _ t => t, actv := fun _ t => t }
    let E' : Env Int := { E with weight := fun _ => 2 }   -- recurrent kernel replaced by the input kernel
    let c : LCfg := { hasQ := fun _ => false, useBias := false, impl := 1 }
    cellStep I E (qcell .gru c) E.state 0 = cellStep I E (kerasCell .gru c) E.state 0 ∧
    cellStep I E (qcell .gru c) E.state 0 ≠ cellStep I E' (kerasCell .gru c) E'.state 0 := by
  simp [cellStep, qcell, kerasCell, qGRUCell, kGRUCell, qw, tAdd, tDot, tMul, eval]

/-! ## 4. `get_quantizers()` -/

/-- the quantizers the layer applies are exactly the reported ones (on existing tensors), in
    weight order … -/
theorem C11_reported_quantizers (cls : Cls) (c : LCfg) :
    appliedSlots (slotCount cls) [qlayer cls c] = reportedLive cls c := by
  cases cls
  · exact applied_dense c
  · exact applied_activation c
  · exact applied_conv1d c
  · exact applied_conv2d c
  · exact applied_sepConv1d c
  · exact applied_sepConv2d c
  · exact applied_dwConv2d c
  · exact applied_avgPool2d c
  · exact applied_globalAvgPool2d c
  · exact applied_scaleShift c

/-- … and each is applied to its own tensor only (`ownTarget`: the weight of the same slot, as
    stored or expanded to 4-D; pooling: the reciprocal of the pool area). -/
theorem C11_quantizers_on_own_weights (cls : Cls) (c : LCfg) :
    (quantSites (qlayer cls c)).all (ownTarget c) = true := by
  cases cls
  · exact own_dense c
  · exact own_activation c
  · exact own_conv1d c
  · exact own_conv2d c
  · exact own_sepConv1d c
  · exact own_sepConv2d c
  · exact own_dwConv2d c
  · exact own_avgPool2d c
  · exact own_globalAvgPool2d c
  · exact own_scaleShift c

/-- recurrent cells: `[kernel, recurrent, bias, state]`; the state quantizer is applied to the
    previous states only, the weight quantizers to their own weights only. -/
theorem C11_reported_quantizers_cell (cls : CellCls) (c : LCfg) :
    appliedSlots 4 (qcell cls c) = reportedLiveCell cls c ∧
    (qcell cls c).all (fun t => (quantSites t).all ownTargetCell) = true := by
  cases cls
  · exact rep_simpleRNN c
  · exact rep_lstm c
  · exact rep_gru c

/-- reporting is not conditional on the tensor: with `use_bias=False` the bias quantizer is still
    listed although nothing applies it -/
theorem C11_reported_bias_without_bias :
    ∃ c : LCfg, getQuantizers .dense c = [some 0, some 1] ∧
      appliedSlots 2 [qlayer .dense c] = [0] := by
  refine ⟨{ hasQ := fun _ => true, useBias := false }, ?_, ?_⟩ <;>
  simp [getQuantizers, slotCount, List.range_succ, appliedSlots, qlayer, qDense, qw, withAct, quantSites]

/-! ## 5. the concrete (exact-rational) primitives: why pooling is stated against
       "sum × quantized reciprocal", index facts of the convolutions, element-wise quantizers -/

/-- average pooling is homogeneous, for every padding: `avg(c·x) = c·avg(x)` -/
theorem C11_pool_homogeneous (h w ph pw sh sw bh bw : ℕ) (c : ℚ) (x : ℕ → ℕ → ℚ) (i j : ℕ) :
    avgPoolAt h w ph pw sh sw bh bw (fun r q => c * x r q) i j =
      c * avgPoolAt h w ph pw sh sw bh bw x i j :=
  avgPoolAt_mul_left h w ph pw sh sw bh bw c x i j

/-- `avgPool(area • x) = sumPool x` on every window that lies inside the image (all windows of a
    `valid` pooling): QAveragePooling2D computes  pooling SUM × quantized reciprocal. -/
theorem C11_pool_identity (h w ph pw sh sw : ℕ) (x : ℕ → ℕ → ℚ) (i j : ℕ)
    (hi : i * sh + ph ≤ h) (hj : j * sw + pw ≤ w) (hp : 0 < ph * pw) :
    avgPoolAt h w ph pw sh sw 0 0 (fun r q => ((ph * pw : ℕ) : ℚ) * x r q) i j =
      sumPoolAt h w ph pw sh sw 0 0 x i j := by
  rw [avgPoolAt_mul_left, avgPoolAt_inside h w ph pw sh sw x i j hi hj]
  have : ((ph * pw : ℕ) : ℚ) ≠ 0 := by exact_mod_cast hp.ne'
  field_simp

/-- so with a quantizer that represents `1/area` exactly (or none) the quantized pooling layer IS
    the stock average, for every padding (exact arithmetic) -/
theorem C11_avgPool_exact_reciprocal (h w ph pw sh sw bh bw area : ℕ) (x : ℕ → ℕ → ℚ) (i j : ℕ)
    (ha : 0 < area) :
    avgPoolAt h w ph pw sh sw bh bw (fun r q => (area : ℚ) * x r q) i j * (1 / (area : ℚ)) =
      avgPoolAt h w ph pw sh sw bh bw x i j := by
  rw [avgPoolAt_mul_left]
  have : (area : ℚ) ≠ 0 := by exact_mod_cast ha.ne'
  field_simp

/-- global pooling: the stock mean is the pooling sum times the exact reciprocal -/
theorem C11_globalAvgPool_mean (h w : ℕ) (x : ℕ → ℕ → ℚ) :
    meanHWAt h w x = sumHWAt h w x * (1 / ((h * w : ℕ) : ℚ)) := meanHWAt_eq h w x

/-- index facts of the concrete convolutions (also used by C19):
    causal = left-pad by the dilated extent − 1 then `valid`; `same` with stride 1 keeps the length;
    `valid` with stride 1 loses extent − 1; the last `same` window fits the padded signal -/
theorem C11_conv_indexing (n k s d : ℕ) (hs : 1 ≤ s) :
    convOutLen .valid (n + (kext k d - 1)) k s d = convOutLen .causal n k s d ∧
    convOutLen .same n k 1 d = n ∧
    (kext k d ≤ n → convOutLen .valid n k 1 d + kext k d = n + 1) ∧
    (1 ≤ n → 2 * padBefore .same n k s d ≤ (convOutLen .same n k s d - 1) * s + kext k d - n ∧
             (convOutLen .same n k s d - 1) * s < n) :=
  ⟨convOutLen_causal n k s d hs, convOutLen_same_stride1 n k d, convOutLen_valid_stride1 n k d,
   fun hn => same_window_fits n k s d hn hs⟩

/-- the causal left pad of the layer terms (`dilation * (kernel − 1)`) is the dilated extent − 1 -/
theorem C11_causal_pad_is_extent (k d : ℕ) : d * (k - 1) = kext k d - 1 := by
  unfold kext; rw [Nat.mul_comm]; omega

/-- a 1×1, stride-1, undilated, ungrouped convolution is `K.dot` along the channel axis (1-D, 2-D) -/
theorem C11_conv_pointwise_is_dot :
    (∀ (n cg fpg : ℕ) (x : ℕ → ℕ → ℚ) (w : ℕ → ℕ → ℕ → ℚ) (o f : ℕ), o < n → f < fpg →
      conv1dAt n 1 1 1 0 cg fpg x w o f = dotAt cg (x o) (w 0) f) ∧
    (∀ (h w cg fpg : ℕ) (x : ℕ → ℕ → ℕ → ℚ) (ker : ℕ → ℕ → ℕ → ℕ → ℚ) (oi oj f : ℕ),
      oi < h → oj < w → f < fpg →
      conv2dAt h w 1 1 1 1 1 1 0 0 cg fpg x ker oi oj f = dotAt cg (x oi oj) (ker 0 0) f) :=
  ⟨fun n cg fpg x w o f ho hf => conv1dAt_pointwise n cg fpg x w o f ho hf,
   fun h w cg fpg x ker oi oj f hi hj hf => conv2dAt_pointwise h w cg fpg x ker oi oj f hi hj hf⟩

/-- every element-wise quantizer (quantized_bits with constant scale, quantized_relu, quantized_tanh,
    quantized_sigmoid, hard sigmoid / tanh) commutes with `expand_dims` in the concrete model … -/
theorem C11_elementwise_commutes_expandDims (q : QSpec) (f : ℚ → ℚ) (h : q.scalarFn = some f) :
    CommutesExpand concrete q.apply :=
  fun t => elementwise_commutes_expandDims q f h 0 t

/-- … so for them the repair 871ddb1 changed nothing: concretely, any geometry, weights and inputs,
    the old `call` (expand, then quantize) and the present one give the same tensor (non-vacuity of the
    hypothesis of `C11_sepConv1d_repair_preserves_commuting`). -/
theorem C11_sepConv1d_repair_preserves_elementwise (c : LCfg) (x : Tensor) (ws : List Tensor) (qs as : List QSpec)
    (h0 : ∃ f, (qs.getD 0 .ident).scalarFn = some f) (h1 : ∃ f, (qs.getD 1 .ident).scalarFn = some f) :
    let E := concreteEnv x [] ws Tensor.bad qs as
    eval concrete E (qSepConv1dExpandFirst c) = eval concrete E (qlayer .sepConv1d c) := by
  intro E
  obtain ⟨f0, hf0⟩ := h0
  obtain ⟨f1, hf1⟩ := h1
  exact C11_sepConv1d_repair_preserves_commuting concrete E c
    (fun _ => C11_elementwise_commutes_expandDims _ f0 hf0)
    (fun _ => C11_elementwise_commutes_expandDims _ f1 hf1)

/-! ## 6. one layer object used several times; the process-wide data-format switch; 1-D channels_first -/

/-- the transcribed `call` of EVERY feed-forward class mentions no build-time node: its value is a
    function of (configuration, weights, mask, quantizer functions, input of the current call) only -/
theorem C11_qlayer_buildFree (cls : Cls) (c : LCfg) : buildFree (qlayer cls c) = true := by
  cases cls <;>
  simp only [qlayer, qDense, qActivation, qConv1d, qConv2d, qSepConv1d, qSepConv2d, qDwConv2d,
    qAvgPool2d, qGlobalAvgPool2d, qScaleShift, qw, withAct, recip, recipIn] <;>
  cases c.hasAct <;> cases c.useBias <;> cases c.hasQ 0 <;> cases c.hasQ 1 <;> cases c.hasQ 2 <;>
  cases c.hasMask <;> (try by_cases hp : c.conv.padding = .causal) <;> simp [buildFree, *]

/-- … and so does the stock transcription -/
theorem C11_kerasLayer_buildFree (cls : Cls) (c : LCfg) : buildFree (kerasLayer cls c) = true := by
  cases cls <;>
  simp only [kerasLayer, kDense, kConv1d, kConv2d, kSepConv1d, kSepConv2d, kDwConv2d, kAvgPool2d,
    kGlobalAvgPool2d, kScaleShift] <;>
  cases c.useBias <;> (try by_cases hp : c.conv.padding = .causal) <;> simp [buildFree, *]

/-- a build-free term does not see what the object saw before -/
theorem C11_buildFree_eval (I : Interp T) (E : Env T) (s' : Nat → T) (t : Term)
    (h : buildFree t = true) : eval I { E with state := s' } t = eval I E t := by
  induction t with
  | state j => simp [buildFree] at h
  | quant s t ih => simp only [eval]; rw [ih (by simpa [buildFree] using h)]
  | actv s t ih => simp only [eval]; rw [ih (by simpa [buildFree] using h)]
  | op1 o t ih => simp only [eval]; rw [ih (by simpa [buildFree] using h)]
  | op2 o a b iha ihb =>
    simp only [buildFree, Bool.and_eq_true] at h
    simp only [eval]; rw [iha h.1, ihb h.2]
  | op3 o a b c iha ihb ihc =>
    simp only [buildFree, Bool.and_eq_true] at h
    simp only [eval]; rw [iha h.1.1, ihb h.1.2, ihc h.2]
  | _ => rfl

/-- NO STATE IS CARRIED BETWEEN CALLS: for every history of inputs (any length, any shapes — the
    carrier is arbitrary), the k-th call of one layer object returns what a fresh object, built on
    and called once with the k-th input, returns; both are `eval` of the layer term at that input. -/
theorem C11_object_history (I : Interp T) (E : Env T) (cls : Cls) (c : LCfg) (xs : List T) :
    objectCalls I E (qlayer cls c) xs = freshCalls I E (qlayer cls c) xs ∧
    objectCalls I E (qlayer cls c) xs = xs.map fun x => eval I { E with x := x } (qlayer cls c) := by
  have key : ∀ (s' : Nat → T) (x : T),
      eval I { E with x := x, state := s' } (qlayer cls c) = eval I { E with x := x } (qlayer cls c) :=
    fun s' x => C11_buildFree_eval I { E with x := x } s' _ (C11_qlayer_buildFree cls c)
  cases xs with
  | nil => simp [objectCalls, freshCalls]
  | cons x0 xs => simp [objectCalls, freshCalls, key]

/-- hence the drop-in equation holds at EVERY position of every history (plain classes) … -/
theorem C11_object_history_dropin (I : Interp T) (E : Env T) (cls : Cls) (c : LCfg) (hc : Plain cls)
    (hm : c.hasMask = false) (ha : cls = .activation → c.hasAct = true) (xs : List T) :
    objectCalls I E (qlayer cls c) xs =
      xs.map fun x => actOf c E (eval I (preEnv c { E with x := x }) (kerasLayer cls c)) := by
  rw [(C11_object_history I E cls c xs).2]
  apply List.map_congr_left
  intro x _
  exact C11_dropin I { E with x := x } cls c hc hm ha

/-- … and for QGlobalAveragePooling2D every call multiplies the pooling sum of ITS input with the
    quantized reciprocal area of ITS input -/
theorem C11_object_history_globalAvgPool (I : Interp T) (E : Env T) (c : LCfg) (hq : c.hasQ 0 = true)
    (xs : List T) :
    objectCalls I E (qlayer .globalAvgPool2d c) xs =
      xs.map fun x => actOf c E (I.op2 .mul (I.op1 (.sumHW c.pool.df c.keepdims) x)
        (E.quant 0 (I.op1 (.recipAreaHW c.pool.df) x))) := by
  rw [(C11_object_history I E .globalAvgPool2d c xs).2]
  apply List.map_congr_left
  intro x _
  exact C11_dropin_globalAvgPool I { E with x := x } c hq

/-- the global-pooling term does not read the configuration's `area` field (it has no build-time
    shape in it); concretely the reciprocal is `1/(h·w)` of the tensor of the call, either format -/
theorem C11_globalAvgPool_no_build_shape (c : LCfg) (a : Nat) :
    qlayer .globalAvgPool2d { c with area := a } = qlayer .globalAvgPool2d c := rfl

theorem C11_globalAvgPool_area_per_call (x : Tensor) (b h w ch : ℕ) (hp : 0 < h * w) :
    (x.shape = [b, h, w, ch] →
      op1C (.recipAreaHW .channelsLast) x = { Tensor.scalar (1 / ((h * w : ℕ) : ℚ)) with ok := x.ok }) ∧
    (x.shape = [b, ch, h, w] →
      op1C (.recipAreaHW .channelsFirst) x = { Tensor.scalar (1 / ((h * w : ℕ) : ℚ)) with ok := x.ok }) :=
  ⟨fun hs => recipAreaC_last x b h w ch hs hp, fun hs => recipAreaC_first x b h w ch hs hp⟩

/-- a layer that caches the quantized reciprocal in `build` (seed C11-5) is indistinguishable from
    the real one by fresh-object single calls … -/
theorem C11_build_cache_invisible_to_single_calls (I : Interp T) (E : Env T) (c : LCfg)
    (hq : c.hasQ 0 = true) (xs : List T) :
    freshCalls I E (qGlobalAvgPool2dBuildCached c) xs = freshCalls I E (qlayer .globalAvgPool2d c) xs := by
  simp only [freshCalls, qlayer, qGlobalAvgPool2d, qGlobalAvgPool2dBuildCached, withAct, hq, recipIn]
  cases c.hasAct <;> simp [eval]

/-- … but is not drop-in on a history: second call on an input of another area -/
theorem C11_build_cache_counterexample :
    ∃ (I : Interp Int) (E : Env Int) (c : LCfg) (xs : List Int),
      c.hasQ 0 = true ∧
      objectCalls I E (qGlobalAvgPool2dBuildCached c) xs ≠ objectCalls I E (qlayer .globalAvgPool2d c) xs := by
  refine ⟨{ const := fun _ => 0, op1 := fun o t => match o with | .sumHW _ _ => 1 | _ => t,
            op2 := fun _ a b => a * b, op3 := fun _ a _ _ => a },
          { x := 0, state := fun _ => 0, weight := fun _ => 0, mask := 0,
            quant := fun _ t => t, actv := fun _ t => t },
          { hasQ := fun _ => true }, [4, 9], rfl, ?_⟩
  simp [objectCalls, qlayer, qGlobalAvgPool2d, qGlobalAvgPool2dBuildCached, withAct, recipIn, eval]

/-- no feed-forward `call` reads the process-wide `K.image_data_format()` of the moment of the call
    (QDense passes `data_format="channels_last"`, the others `self.data_format`) … -/
theorem C11_feedforward_ignores_global_format (cls : Cls) (c : LCfg) (g : DataFormat) :
    qlayer cls { c with imageDF := g } = qlayer cls c ∧
    kerasLayer cls { c with imageDF := g } = kerasLayer cls c := by
  cases cls <;> exact ⟨rfl, rfl⟩

/-- … QDense does not even read the layer-level data formats … -/
theorem C11_dense_ignores_data_format (c : LCfg) (g : ConvGeom) (p : PoolGeom) (d : DataFormat) :
    qlayer .dense { c with conv := g, pool := p, imageDF := d } = qlayer .dense c := rfl

/-- … and a QDense whose bias add follows the switch (seed C11-6) is not drop-in -/
theorem C11_global_bias_format_counterexample :
    ∃ (I : Interp Int) (E : Env Int) (c : LCfg),
      eval I E (qDenseGlobalBias c) ≠ actOf c E (eval I (preEnv c E) (kerasLayer .dense c)) ∧
      eval I E (qDenseGlobalBias { c with imageDF := .channelsLast }) =
        actOf c E (eval I (preEnv c E) (kerasLayer .dense c)) := by
  refine ⟨{ const := fun _ => 0, op1 := fun _ t => t,
            op2 := fun o a b => match o with | .biasAdd .channelsFirst => a + 2 * b | _ => a + b,
            op3 := fun _ a _ _ => a },
          { x := 0, state := fun _ => 0, weight := fun _ => 1, mask := 0,
            quant := fun _ t => t, actv := fun _ t => t },
          { hasQ := fun _ => false, imageDF := .channelsFirst }, ?_, ?_⟩ <;>
  simp [qDenseGlobalBias, kerasLayer, kDense, qw, withAct, actOf, preEnv, eval]

/-- the recurrent cells (qkeras and stock alike) do call `K.bias_add` without a format, on rank-2
    tensors, where both formats are the same function (concrete model) -/
theorem C11_cell_bias_rank2_format_free (x bias : Tensor) (b n : ℕ) (hs : x.shape = [b, n]) :
    op2C (.biasAdd .channelsFirst) x bias = op2C (.biasAdd .channelsLast) x bias :=
  biasAddC_rank2 x bias b n hs

/-- the repair 6ddae0e (pad the time axis in `call`, `valid` to `K.conv1d`) PRESERVES the term wherever
    the old code was right: not causal, or causal under channels_last — old `call` = new `call`. -/
theorem C11_conv1d_repair_preserves_channelsLast (c : LCfg)
    (h : c.conv.padding = .causal → c.conv.df = .channelsLast) :
    qConv1dBackendCausal c = qlayer .conv1d c := by
  simp only [qlayer, qConv1d, qConv1dBackendCausal, kConv1dOp]
  by_cases hp : c.conv.padding = .causal
  · simp [hp, h hp]
  · simp [hp]

/-- REGRESSION WITNESS of finding C11-conv1d-causal-channels-first (repaired in /repo 6ddae0e):
    QConv1D(padding='causal', data_format='channels_first').  In the interpretation that tells a pad
    of axis 1 (the channel axis — what `K.conv1d` does with `causal`) from a pad of axis 2 (the time
    axis — what the stock layer does), the OLD `call` is not the stock layer on pre-quantized weights,
    the layer as it is now is. -/
theorem C11_conv1d_causal_channelsFirst_fixed_witness :
    ∃ (I : Interp Int) (E : Env Int) (c : LCfg),
      c.conv.padding = .causal ∧ c.conv.df = .channelsFirst ∧
      eval I E (qConv1dBackendCausal c) ≠ actOf c E (eval I (preEnv c E) (kerasLayer .conv1d c)) ∧
      eval I E (qlayer .conv1d c) = actOf c E (eval I (preEnv c E) (kerasLayer .conv1d c)) := by
  refine ⟨{ const := fun _ => 0, op1 := fun o t => match o with | .padLeft ax _ => ax | _ => t,
            op2 := fun _ a _ => a, op3 := fun _ a _ _ => a },
          { x := 0, state := fun _ => 0, weight := fun _ => 0, mask := 0,
            quant := fun _ t => t, actv := fun _ t => t },
          { hasQ := fun _ => false, useBias := false, kernel := 2,
            conv := { strides := [1], padding := .causal, dilation := [1], df := .channelsFirst } },
          rfl, rfl, ?_, ?_⟩ <;>
  simp [qlayer, kerasLayer, qConv1d, qConv1dBackendCausal, kConv1d, kConv1dOp, qw, withAct, actOf, preEnv, eval,
    spatialStart]

/-! ### non-vacuity: the hypotheses used above are satisfiable -/

example : Plain .conv2d := by simp [Plain]
example : Plain .sepConv1d := by simp [Plain]
example : CommutesExpand (T := Int) ⟨fun _ => 0, fun _ t => t, fun _ a _ => a, fun _ a _ _ => a⟩
    (fun t => 2 * t) := fun _ => rfl
example : (1 : ℕ) * 2 + 2 ≤ 5 ∧ 0 < 2 * 2 := by omega
example : (QSpec.bits { bits := 4, integer := 0, symmetric := true, keepNeg := true, alpha := none }).scalarFn
    = some (qbits .even { bits := 4, integer := 0, symmetric := true, keepNeg := true, alpha := none }) := rfl
example : ∃ c : LCfg, c.hasQ 1 = true ∧ c.hasQ 3 = false := ⟨{ hasQ := fun s => s == 1 }, rfl, rfl⟩


/-! ## 9. (strengthening round, seed C11-8) the quantizer OBJECTS a layer reports are the ones it applies.

    §8 (`C11_reported_quantizers*`) reads the clause over quantizer SLOTS.  Python hands OBJECTS to the
    constructor: one object may sit in several roles of a layer or in two layers, and the constructors switch
    the kernel-type ones in place (`_set_trainable_parameter`).  `Model/LayerQObjects.lean` models that
    plumbing over a heap of objects; the statements below hold for EVERY aliasing pattern of the arguments,
    every heap (object states) and every later heap (any mutation after construction). -/
section QuantizerObjects
open QKV.Layers.QObj

/-! ## 9. the quantizer OBJECTS a layer reports are the ones it applies -/

theorem C11_reported_objects_are_applied (cls : Cls) (args : List (Option Nat)) (h : Heap) :
    (constructLayer cls args h).1.quantizers = (constructLayer cls args h).1.internal ∧
    (constructCell args h).1.quantizers = (constructCell args h).1.internal := ⟨rfl, rfl⟩

theorem C11_reported_state_is_applied_state {T : Type} (n : Nat) (train : List Nat)
    (args : List (Option Nat)) (h h' : Heap) (s : Nat) (val : QState → T → T) (w : T) :
    ((construct n train args h).1.reportedState h' s) = ((construct n train args h).1.appliedState h' s) ∧
    ((construct n train args h).1.reportedState h' s).map (fun q => val q w) =
      ((construct n train args h).1.appliedState h' s).map (fun q => val q w) := ⟨rfl, rfl⟩

theorem C11_reported_objects_in_slot_order (n : Nat) (train : List Nat) (args : List (Option Nat)) (h : Heap)
    (s : Nat) (hs : s < n) : (construct n train args h).1.quantizers.getD s none = args.getD s none := by
  rw [construct_obj]; exact construct_internal n train args h s hs

theorem C11_shared_object_switched_in_every_role (n : Nat) (train : List Nat) (args : List (Option Nat))
    (h : Heap) (t s o : Nat) (ht : t ∈ train) (htn : t < n) (hsn : s < n)
    (hat : args.getD t none = some o) (has : args.getD s none = some o)
    (hm : (h o).hasSetTrainable = true) (ha : (h o).alpha = none) :
    (construct n train args h).1.appliedState (construct n train args h).2 s = some (h o).setTrainable ∧
    (construct n train args h).1.reportedState (construct n train args h).2 s = some (h o).setTrainable ∧
    (h o).setTrainable.alpha = some 0 := by
  have hmem : some o ∈ train.map (fun s => ((List.range n).map fun s => args.getD s none).getD s none) := by
    refine List.mem_map.mpr ⟨t, ht, ?_⟩
    simp only [internal_getD, htn, if_true, hat]
  have hheap : (construct n train args h).2 o = (h o).setTrainable := by
    rw [construct_heap]; simp only [hmem, if_true]
  have happ : (construct n train args h).1.appliedState (construct n train args h).2 s = some (h o).setTrainable := by
    unfold LayerObj.appliedState
    rw [construct_internal n train args h s hsn, has]
    simp [hheap]
  refine ⟨happ, ?_, setTrainable_alpha _ hm ha⟩
  rw [← happ]; rfl

theorem C11_unshared_object_untouched (n : Nat) (train : List Nat) (args : List (Option Nat)) (h : Heap) (o : Nat)
    (hno : ∀ t ∈ train, t < n → args.getD t none ≠ some o) : (construct n train args h).2 o = h o := by
  rw [construct_heap]
  have : ¬ some o ∈ train.map (fun s => ((List.range n).map fun s => args.getD s none).getD s none) := by
    intro hmem
    obtain ⟨t, ht, he⟩ := List.mem_map.mp hmem
    simp only [internal_getD] at he
    by_cases htn : t < n
    · simp only [htn, if_true] at he
      exact hno t ht htn he
    · simp only [htn, if_false] at he
      exact absurd he (by simp)
  simp only [this, if_false]

theorem C11_object_shared_by_two_layers (nA nB : Nat) (trA trB : List Nat) (argsA argsB : List (Option Nat))
    (h : Heap) (s t o : Nat) (hsn : s < nA) (ht : t ∈ trB) (htn : t < nB)
    (hA : argsA.getD s none = some o) (hB : argsB.getD t none = some o)
    (hm : (h o).hasSetTrainable = true) (ha : (h o).alpha = none) :
    let rA := construct nA trA argsA h
    let rB := construct nB trB argsB rA.2
    rA.1.reportedState rB.2 s = rA.1.appliedState rB.2 s ∧
    rA.1.appliedState rB.2 s = some (h o).setTrainable ∧ (h o).setTrainable.alpha = some 0 := by
  intro rA rB
  have hmem : some o ∈ trB.map (fun s => ((List.range nB).map fun s => argsB.getD s none).getD s none) := by
    refine List.mem_map.mpr ⟨t, ht, ?_⟩
    simp only [internal_getD, htn, if_true, hB]
  have hB2 : rB.2 o = (rA.2 o).setTrainable := by
    show (construct nB trB argsB rA.2).2 o = _
    rw [construct_heap]; simp only [hmem, if_true]
  have hA2 : (rA.2 o).setTrainable = (h o).setTrainable := by
    show ((construct nA trA argsA h).2 o).setTrainable = _
    rw [construct_heap]; split
    · exact setTrainable_idem _
    · rfl
  refine ⟨rfl, ?_, setTrainable_alpha _ hm ha⟩
  show (construct nA trA argsA h).1.appliedState rB.2 s = _
  unfold LayerObj.appliedState
  rw [construct_internal nA trA argsA h s hsn, hA]
  simp [hB2, hA2]

/-! ### seed C11-8 -/

theorem C11_copy_on_share_invisible_without_sharing (args : List (Option Nat)) (h : Heap) (next : Nat)
    (h0 : ∀ o, args.getD 0 none = some o → args.getD 2 none ≠ some o ∧ args.getD 3 none ≠ some o)
    (h1 : ∀ o, args.getD 1 none = some o → args.getD 2 none ≠ some o ∧ args.getD 3 none ≠ some o) :
    constructCellCopyOnShare args h next = constructCell args h := by
  have e0 := setAutoScaling_unshared h next (args.getD 0 none) [args.getD 2 none, args.getD 3 none]
    (by intro i hi; have := h0 i hi; simp only [List.getD_eq_getElem?_getD] at this; simpa using this)
  unfold constructCellCopyOnShare
  simp only [e0]
  have e1 := setAutoScaling_unshared (setTrainableAt h (args.getD 0 none)) next (args.getD 1 none)
    [args.getD 2 none, args.getD 3 none] (by intro i hi; have := h1 i hi; simp only [List.getD_eq_getElem?_getD] at this; simpa using this)
  simp only [e1]
  rfl


theorem C11_copy_on_share_counterexample :
    let r := constructCellCopyOnShare [some 0, some 0, some 0, none] (fun _ => qbits401) 1
    r.1.reportedState r.2 0 = some qbits401 ∧
    r.1.appliedState r.2 0 = some { qbits401 with alpha := some 0 } ∧
    r.1.reportedState r.2 0 ≠ r.1.appliedState r.2 0 ∧
    -- the unchanged constructor on the same arguments: one object, switched, in every role
    (let u := constructCell [some 0, some 0, some 0, none] (fun _ => qbits401)
     u.1.reportedState u.2 0 = u.1.appliedState u.2 0 ∧
     u.1.appliedState u.2 2 = some { qbits401 with alpha := some 0 }) := by
  decide

/-- the seed's constructor is wrong for EVERY cell whose kernel object (alpha=None, own method) also sits in the bias or
    state role, whatever the other arguments and the heap: it reports the untouched object (alpha=None) and applies a
    copy with alpha='auto_po2' (`next` = the id of the copy, fresh: above every argument id) -/
theorem C11_copy_on_share_breaks_every_shared_cell (args : List (Option Nat)) (h : Heap) (next o : Nat)
    (hk : args.getD 0 none = some o)
    (hshare : args.getD 2 none = some o ∨ args.getD 3 none = some o)
    (hm : (h o).hasSetTrainable = true) (ha : (h o).alpha = none)
    (hfresh : ∀ s o', args.getD s none = some o' → o' < next) :
    ((constructCellCopyOnShare args h next).1.reportedState (constructCellCopyOnShare args h next).2 0).map (·.alpha)
      = some none ∧
    ((constructCellCopyOnShare args h next).1.appliedState (constructCellCopyOnShare args h next).2 0).map (·.alpha)
      = some (some 0) := by
  unfold constructCellCopyOnShare LayerObj.reportedState LayerObj.appliedState
  simp only [List.getD_eq_getElem?_getD] at hk hshare hfresh ⊢
  have hon : o < next := hfresh 0 o hk
  have hany : [args[2]?.getD none, args[3]?.getD none].any (· == some o) = true := by
    rcases hshare with e | e
    · simp only [List.any_cons, e]; simp
    · simp only [List.any_cons, e]; simp
  have e0 : setAutoScaling h next (some o) [args[2]?.getD none, args[3]?.getD none] =
      (some next, Heap.set h next (h o).setTrainable, next + 1) := by
    unfold setAutoScaling; simp only [hm, hany, if_true]
  have hne1 : o ≠ next + 1 := by omega
  have hne : o ≠ next := by omega
  have ho := setAutoScaling_heap_other (Heap.set h next (h o).setTrainable) (next + 1) (args[1]?.getD none)
    [args[2]?.getD none, args[3]?.getD none] o (fun _ => hany) hne1
  have hn := setAutoScaling_heap_other (Heap.set h next (h o).setTrainable) (next + 1) (args[1]?.getD none)
    [args[2]?.getD none, args[3]?.getD none] next
    (fun e => absurd (hfresh 1 next e) (Nat.lt_irrefl _)) (by omega)
  simp only [hk, e0, List.getD_cons_zero, Option.map_some, ho, hn]
  constructor
  · simp only [List.getElem?_cons_zero, Option.getD_some, Option.map_some, ho]; simp [Heap.set, hne, ha]
  · simp only [List.getElem?_cons_zero, Option.getD_some, Option.map_some, hn]; simp [Heap.set, setTrainable_alpha _ hm ha]


end QuantizerObjects

end QKV.Props.C11
