/-
  C18 — bit widths reported for a concrete model bound the values it really produces.

  Property (verbatim, properties.jsonl): For a quantized model with quantized inputs and weights,
  every pre-activation value that a dense or convolution layer can produce is exactly
  representable in the accumulator type that the qtools data-type map reports for that layer
  (sign, integer bits and fraction bits; the scale-adjusted accumulator entry where the kernel
  carries an auto power-of-two scale), and every weight, bias and activation tensor fits the
  quantizer type reported for it. The accumulator size returned by the weight-based estimator is
  an upper bound on log2 of the largest output magnitude of every output channel for any input
  inside the stated input range.

  Models: QKV.Model.LayerTypes (generate_layer_data_type_map dense/conv branch, qgraph edge
  propagation on chains, auto_po2 adjustment), QKV.Model.Estimator (analyze_accumulator),
  QKV.Model.Po2Range; composes C16 (products), C17 (sums, bias adder), C01 (quantizer outputs).
  Only property theorems here; all widths, kernel shapes, list lengths unbounded.
-/
import QKV.Lemmas.LayerTypes
import QKV.Lemmas.Estimator
import QKV.Props.C01
import QKV.Model.Po2Range
namespace QKV.Props.C18
open QKV QKV.Props.C16 QKV.Props.C17

/-! ## which (weight type, input type) pairs are covered

Exactly the operand kinds whose multiplier output is a fixed-point record (so that the
FixedPointAccumulator rule applies): fixed×fixed, fixed×po2, po2×fixed, fixed×(ternary|±1),
(ternary|±1)×fixed, fixed×0/1, 0/1×fixed.  NOT covered (inherited exceptions, see the
counterexample theorems of C17): both operands in {ternary, ±1, 0/1} (accumulator reads with
`int_bits = bits`, finding C17-unit-intbits) and po2×po2 / po2×unit (Po2Accumulator, finding
C17-po2-top); float operands are trivially representable. -/
inductive Covered (w x : QRec) : Prop
  | ff : WFfixed w → WFfixed x → Covered w x
  | fp : WFfixed w → WFpo2 x → Covered w x
  | pf : WFpo2 w → WFfixed x → Covered w x
  | fu : WFfixed w → (WFternary x ∨ WFbinPM x) → Covered w x
  | uf : (WFternary w ∨ WFbinPM w) → WFfixed x → Covered w x
  | fb : WFfixed w → WFbin01 x → Covered w x
  | bf : WFbin01 w → WFfixed x → Covered w x

/-- the multiplier of a covered pair is a well-formed fixed-point record holding every
    non-exceptional product (C16 re-read per pair instead of per value pair) -/
theorem covered_mult {w x : QRec} (hc : Covered w x) :
    ∃ impl m, makeMultiplier w x = some (impl, m) ∧ WFfx m ∧ m.mode = 0 ∧
      ∀ a b, Val w a → Val x b → ¬ Exceptional w x a b →
        ValFixed m.bits m.intBits m.signed (a * b) := by
  have fin : ∀ (impl : MulImpl) (m : QRec), makeMultiplier w x = some (impl, m) → WFfx m →
      m.mode = 0 →
      (∀ a b, Val w a → Val x b → ¬ Exceptional w x a b →
        ∃ o, makeMultiplier w x = some (impl, o) ∧ Val o (a * b)) →
      ∃ impl m, makeMultiplier w x = some (impl, m) ∧ WFfx m ∧ m.mode = 0 ∧
        ∀ a b, Val w a → Val x b → ¬ Exceptional w x a b →
          ValFixed m.bits m.intBits m.signed (a * b) := by
    intro impl m hm hwf hmode h
    refine ⟨impl, m, hm, hwf, hmode, fun a b ha hb hex => ?_⟩
    obtain ⟨o, ho, hv⟩ := h a b ha hb hex
    rw [hm] at ho
    have : o = m := by injection ho with h1; injection h1 with _ h2; exact h2.symm
    subst this
    simpa only [Val, hmode] using hv
  cases hc with
  | ff hw hx =>
    refine fin .fixedMul (mkFixedMul w x tQuantizedBits) ?_ (wffx_mkFixedMul hw hx)
      (mode_mkImpl .fixedMul w x tQuantizedBits) (fun a b ha hb hex => C16_fixed_fixed w x hw hx a b ha hb hex)
    simp [makeMultiplier, hw.mode, hx.mode, mulTable, mkImpl, OutTemplate.toRec]
  | fp hw hx =>
    refine fin .shifter (mkShifter w x tQuantizedBits) ?_
      (wffx_mkShifter (p := x) (q := w) hw hx (by simp [hw.mode]))
      (mode_mkImpl .shifter w x tQuantizedBits) (fun a b ha hb hex => C16_fixed_po2 w x hw hx a b ha hb hex)
    simp [makeMultiplier, hw.mode, hx.mode, mulTable, mkImpl, OutTemplate.toRec]
  | pf hw hx =>
    refine fin .shifter (mkShifter w x tQuantizedBits) ?_
      (wffx_mkShifter (p := w) (q := x) hx hw (by simp [hw.mode]))
      (mode_mkImpl .shifter w x tQuantizedBits) (fun a b ha hb hex => C16_po2_fixed w x hw hx a b ha hb hex)
    simp [makeMultiplier, hw.mode, hx.mode, mulTable, mkImpl, OutTemplate.toRec]
  | fu hw hx =>
    have hxs : x.signed = true := by rcases hx with h | h <;> exact h.signed
    have hwn : (w.name.hasBinary || w.name.hasTernary) = false := by simp [hw.nb, hw.nt]
    refine fin .mux (mkMux w x tQuantizedBits) ?_ (wffx_mkMux_wother hw hwn hxs)
      (mode_mkImpl .mux w x tQuantizedBits) (fun a b ha hb hex => C16_fixed_unit w x hw hx a b ha hb hex)
    rcases hx with h | h <;>
      simp [makeMultiplier, hw.mode, h.mode, mulTable, mkImpl, OutTemplate.toRec]
  | uf hw hx =>
    have hws : w.signed = true := by rcases hw with h | h <;> exact h.signed
    have hwn : (w.name.hasBinary || w.name.hasTernary) = true := by
      rcases hw with h | h
      · simp [h.name]
      · simp [h.name]
    refine fin .mux (mkMux w x tQuantizedBits) ?_ (wffx_mkMux_wunit hx hwn hws)
      (mode_mkImpl .mux w x tQuantizedBits) (fun a b ha hb hex => C16_unit_fixed w x hw hx a b ha hb hex)
    rcases hw with h | h <;>
      simp [makeMultiplier, hx.mode, h.mode, mulTable, mkImpl, OutTemplate.toRec]
  | fb hw hx =>
    refine fin .andGate (mkAnd w x tQuantizedBits) ?_ (wffx_mkAnd_fixed_bin01 hw hx)
      (mode_mkImpl .andGate w x tQuantizedBits) (fun a b ha hb _ => C16_fixed_bin01 w x hw hx a b ha hb)
    simp [makeMultiplier, hw.mode, hx.mode, mulTable, mkImpl, OutTemplate.toRec]
  | bf hw hx =>
    refine fin .andGate (mkAnd w x tQuantizedBits) ?_ (wffx_mkAnd_bin01_fixed hw hx)
      (mode_mkImpl .andGate w x tQuantizedBits) (fun a b ha hb _ => C16_bin01_fixed w x hw hx a b ha hb)
    simp [makeMultiplier, hw.mode, hx.mode, mulTable, mkImpl, OutTemplate.toRec]

/-- the kernel accumulator (built with `use_bias=False`) holds every dot product of at most
    `prod(kernel_shape[:-1])` terms (depthwise: `kh·kw`) -/
theorem kernel_sum (kind : LayerKind) {w x : QRec} (shape : List ℕ) (hc : Covered w x)
    (ws xs : List ℚ) (hws : ∀ v ∈ ws, Val w v) (hxs : ∀ v ∈ xs, Val x v)
    (hex : ∀ p ∈ ws.zip xs, ¬ Exceptional w x p.1 p.2)
    (hn : min ws.length xs.length ≤ kernelTerms (accShape kind shape)) :
    ∃ impl m, makeMultiplier w x = some (impl, m) ∧ WFfx m ∧
      ValFixed (makeAccumulator (accShape kind shape) m false).bits
        (makeAccumulator (accShape kind shape) m false).intBits
        (makeAccumulator (accShape kind shape) m false).signed (dot ws xs) := by
  obtain ⟨impl, m, hm, hwf, _, hprod⟩ := covered_mult hc
  refine ⟨impl, m, hm, hwf, ?_⟩
  rw [dot_eq_sum]
  refine C17_acc_fixed (accShape kind shape) false m hwf _ ?_ ?_
  · intro p hp
    obtain ⟨a, b, hab, rfl⟩ := mem_zipWith_mul hp
    have hmem := List.of_mem_zip hab
    exact hprod a b (hws a hmem.1) (hxs b hmem.2) (hex (a, b) hab)
  · simp only [List.length_zipWith, Bool.false_eq_true, if_false, Nat.add_zero]
    exact hn

/-! ## the bias operand -/

/-- bias types covered by the bias-adder theorems: none (`use_bias=False`, value 0), a fixed-point
    quantizer, or a power-of-two quantizer, with the value the bias takes -/
def BiasOK (b : Option QRec) (bv : ℚ) : Prop :=
  match b with
  | none => bv = 0
  | some bq => (bq.mode = 0 ∧ WFfx bq ∧ ValFixed bq.bits bq.intBits bq.signed bv) ∨
               (bq.mode = 1 ∧ WFp2 bq ∧ ValPo2 bq bv)

theorem bias_add {kacc : QRec} (hk : WFfx kacc) (hkm : kacc.mode = 0) {u : ℚ}
    (hu : ValFixed kacc.bits kacc.intBits kacc.signed u) {b : Option QRec} {bv : ℚ}
    (hb : BiasOK b bv) : ∃ acc, biasAdd kacc b = some acc ∧ Val acc (u + bv) := by
  cases b with
  | none =>
    simp only [BiasOK] at hb
    subst hb
    exact ⟨kacc, rfl, by simpa [Val, hkm] using hu⟩
  | some bq =>
    simp only [BiasOK] at hb
    rcases hb with ⟨hm, hwf, hv⟩ | ⟨hm, hwf, hv⟩
    · refine ⟨fixedPointAdder kacc bq, by simp [biasAdd, makeAdder, hkm, hm, addTable], ?_⟩
      have h := C17_adder_fixed kacc bq hk hwf u bv hu hv
      have hmode : (fixedPointAdder kacc bq).mode = 0 := rfl
      simpa only [Val, hmode] using h
    · have he : po2FixedAdder kacc bq = po2FixedAdder bq kacc := by
        simp [po2FixedAdder, hk.np, hwf.p]
      refine ⟨po2FixedAdder bq kacc, by simp [biasAdd, makeAdder, hkm, hm, addTable, he], ?_⟩
      have h := C17_adder_po2_fixed bq kacc hwf hk bv u hv hu
      have hmode : (po2FixedAdder bq kacc).mode = 0 := by
        simp [po2FixedAdder, hwf.p, fixedPointAdder, tQuantizedBits]
      rw [add_comm]
      simpa only [Val, hmode] using h

/-- transport of a non-membership along an equality of records (for concrete witnesses) -/
theorem not_val_of_eq {q q' : QRec} {v : ℚ} (h : q = q') (hv : ¬ Val q' v) : ¬ Val q v := h ▸ hv

/-! ## C18_preactivation -/

/-- Every pre-activation `Σ wᵢ·xᵢ + b` of a dense / conv1d / conv2d / depthwise layer whose weights
    are values of the reported weight type, inputs values of the reported input type and bias a
    value of the reported bias type is a value of the reported accumulator type — for every
    covered operand pair, all bit widths, all kernel shapes and any number of terms up to
    `prod(kernel_shape[:-1])`, provided no single product is most-negative × most-negative
    (the exception C16 states; see `C18_preactivation_mostneg_counterexample`). -/
theorem C18_preactivation (kind : LayerKind) (x w : QRec) (b : Option QRec) (shape : List ℕ)
    (hc : Covered w x) (ws xs : List ℚ) (bv : ℚ)
    (hws : ∀ v ∈ ws, Val w v) (hxs : ∀ v ∈ xs, Val x v) (hb : BiasOK b bv)
    (hex : ∀ p ∈ ws.zip xs, ¬ Exceptional w x p.1 p.2)
    (hn : min ws.length xs.length ≤ kernelTerms (accShape kind shape)) :
    ∃ lt, layerTypes kind x w b shape = some lt ∧ Val lt.accumulator (dot ws xs + bv) ∧
      lt.fusedAccumulator = lt.accumulator := by
  obtain ⟨impl, m, hm, hwf, hk⟩ := kernel_sum kind shape hc ws xs hws hxs hex hn
  obtain ⟨hkw, hkm⟩ := wffx_makeAccumulator (accShape kind shape) m hwf false
  obtain ⟨acc, hacc, hval⟩ := bias_add hkw hkm hk hb
  refine ⟨{ weight := w, bias := b, impl := impl, multiplier := m,
            kernelAcc := makeAccumulator (accShape kind shape) m false,
            accumulator := acc, fusedAccumulator := acc }, ?_, hval, rfl⟩
  simp [layerTypes, hm, accFor, hacc]

/-- COUNTEREXAMPLE (finding C18-mostneg-pow2; the exception inherited from C16 is NOT absorbed by
    the accumulator when the number of terms is a power of two): a `QDense(1)` on ONE input with
    weight type `quantized_bits(3,0,symmetric=0)`, input type `quantized_bits(4,0)`, no bias:
    weight −1 and input −1 are values of the reported types, the reported accumulator is
    `(6 bits, 0 int bits, signed)`, i.e. values `< 1`, but the pre-activation is `(−1)·(−1) = 1`.
    Same with four inputs: accumulator `(8, 2, signed)` (values `< 4`), pre-activation `4`. -/
theorem C18_preactivation_mostneg_counterexample :
    let w : QRec := { tQuantizedBits with bits := 3, intBits := 0, signed := true }
    let x : QRec := { tQuantizedBits with bits := 4, intBits := 0, signed := true }
    Val w (-1) ∧ Val x (-1) ∧
    (∃ lt, layerTypes .dense x w none [1, 1] = some lt ∧
      lt.accumulator = { tQuantizedBits with bits := 6, intBits := 0, signed := true } ∧
      ¬ Val lt.accumulator (dot [-1] [-1])) ∧
    (∃ lt, layerTypes .dense x w none [4, 1] = some lt ∧
      lt.accumulator = { tQuantizedBits with bits := 8, intBits := 2, signed := true } ∧
      ¬ Val lt.accumulator (dot [-1, -1, -1, -1] [-1, -1, -1, -1])) := by
  refine ⟨⟨-4, by decide, by decide, by simp [fixedLsb, b2i, tQuantizedBits, pow2]⟩,
    ⟨-8, by decide, by decide, by simp [fixedLsb, b2i, tQuantizedBits, pow2]⟩,
    ⟨_, rfl, by decide, not_val_of_eq
      (q' := { tQuantizedBits with bits := 6, intBits := 0, signed := true }) (by decide) ?_⟩,
    ⟨_, rfl, by decide, not_val_of_eq
      (q' := { tQuantizedBits with bits := 8, intBits := 2, signed := true }) (by decide) ?_⟩⟩
  · simp only [Val, tQuantizedBits]
    rw [valFixed_iff (by decide)]
    rintro ⟨_, _, h⟩
    simp [dot, pow2] at h
  · simp only [Val, tQuantizedBits]
    rw [valFixed_iff (by decide)]
    rintro ⟨_, _, h⟩
    simp [dot, pow2] at h
    norm_num at h

/-! ## auto_po2 kernels: the scale-adjusted (`fused_accumulator`) entry -/

/-- With a `quantized_bits(alpha="auto_po2")` kernel the weights of one output channel are
    `2^s · cᵢ` with `cᵢ` values of the reported weight type and `s` the channel's scale exponent,
    `min_shift ≤ s ≤ max_shift`.  Every such pre-activation is a value of the reported
    `fused_accumulator` (`adjust_accumulator_for_auto_po2`), for every covered operand pair. -/
theorem C18_preactivation_autopo2 (kind : LayerKind) (x w : QRec) (b : Option QRec)
    (shape : List ℕ) (hc : Covered w x) (cs xs : List ℚ) (bv : ℚ) (s mn mx : ℤ)
    (hs1 : mn ≤ s) (hs2 : s ≤ mx)
    (hws : ∀ v ∈ cs, Val w v) (hxs : ∀ v ∈ xs, Val x v) (hb : BiasOK b bv)
    (hex : ∀ p ∈ cs.zip xs, ¬ Exceptional w x p.1 p.2)
    (hn : min cs.length xs.length ≤ kernelTerms (accShape kind shape)) :
    ∃ lt, layerTypes kind x w b shape (some (mx, mn)) = some lt ∧
      Val lt.fusedAccumulator (dot (cs.map (pow2 s * ·)) xs + bv) := by
  obtain ⟨impl, m, hm, hwf, hk⟩ := kernel_sum kind shape hc cs xs hws hxs hex hn
  obtain ⟨hkw, hkm⟩ := wffx_makeAccumulator (accShape kind shape) m hwf false
  -- the ordinary accumulator exists
  obtain ⟨acc, hacc, _⟩ := bias_add hkw hkm hk hb
  -- the adjusted one
  obtain ⟨hawf, hab, hai, has⟩ := adjustMultiplier_wffx hwf (mx := mx) (mn := mn) (by omega)
  set m' := adjustMultiplier m mx mn with hm'
  obtain ⟨hkw', hkm'⟩ := wffx_makeAccumulator (accShape kind shape) m' hawf false
  have hk' : ValFixed (makeAccumulator (accShape kind shape) m' false).bits
      (makeAccumulator (accShape kind shape) m' false).intBits
      (makeAccumulator (accShape kind shape) m' false).signed (pow2 s * dot cs xs) := by
    have h := valFixed_shift (s := s) (mn := mn) (mx := mx) hkw.mag hs1 hs2 hk
    rw [makeAccumulator_fixed _ m hwf] at h
    rw [makeAccumulator_fixed _ m' hawf]
    have e1 : logAddOps (accShape kind shape) false + m'.bits
        = logAddOps (accShape kind shape) false + m.bits + mx - mn := by rw [hab]; ring
    have e2 : logAddOps (accShape kind shape) false + m'.intBits
        = logAddOps (accShape kind shape) false + m.intBits + mx := by rw [hai]; ring
    show ValFixed (logAddOps (accShape kind shape) false + m'.bits)
      (logAddOps (accShape kind shape) false + m'.intBits) m'.signed _
    rw [e1, e2, has]
    exact h
  obtain ⟨facc, hfacc, hfval⟩ := bias_add hkw' hkm' hk' hb
  refine ⟨{ weight := w, bias := b, impl := impl, multiplier := m,
            kernelAcc := makeAccumulator (accShape kind shape) m false,
            accumulator := acc, fusedAccumulator := facc }, ?_, ?_⟩
  · simp [layerTypes, hm, accFor, hacc, ← hm', hfacc]
  · rw [dot_smul]; exact hfval

/-! ## C18_tensor_fits: quantizer outputs are values of the converted qtools type -/

/-- `quantized_bits` (any symmetry, no scale or constant scale 1, at least one magnitude bit):
    every output is a value of the converted type `(bits, integer, keep_negative)`.
    (Generalises `C01_bits_valFixed` to `symmetric=1`, which only removes the lowest code.) -/
theorem C18_tensor_fits_bits (t : Tie) (c : BitsCfg) (h : 0 < c.ub) (hg : c.gain = 1) (x : ℚ) :
    ∃ r, ofQuantizer { cls := "quantized_bits", bits := c.bits, integer := c.integer,
                       keepNegative := c.keepNeg } = some r ∧ Val r (qbits t c x) := by
  refine ⟨{ tQuantizedBits with bits := c.bits, intBits := c.integer, signed := c.keepNeg }, rfl, ?_⟩
  obtain ⟨k, h1, h2, hk⟩ := C01.C01_bits_on_lattice t c h x
  show ValFixed c.bits c.integer c.keepNeg (qbits t c x)
  have hub : c.ub = c.bits - (if c.keepNeg then 1 else 0) := rfl
  refine ⟨k, ?_, ?_, ?_⟩
  · unfold BitsCfg.lo at h1
    rw [twoPow_eq_tp] at h1
    cases hk' : c.keepNeg <;> simp only [hk', if_true, if_false, Bool.false_eq_true] at h1 hub ⊢
    · rw [fixedLo_unsigned]; exact h1
    · rw [fixedLo_signed, ← hub]; split at h1 <;> omega
  · unfold BitsCfg.hi at h2
    rw [twoPow_eq_tp] at h2
    cases hk' : c.keepNeg <;> simp only [hk', if_true, if_false, Bool.false_eq_true] at hub ⊢
    · rw [fixedHi_unsigned]; rw [hub] at h2; simpa using h2
    · rw [fixedHi_signed, ← hub]; exact h2
  · rw [hk, hg, one_mul]
    congr 1
    unfold BitsCfg.step fixedLsb
    cases hk' : c.keepNeg <;> simp only [hk', b2i, if_true, if_false, Bool.false_eq_true] at hub ⊢ <;>
      (congr 1; omega)

/-- plain `quantized_relu(bits, integer)` (negative_slope = 0): every output is a value of the
    converted type — `(bits, integer, unsigned)`, or the 0/1 type when `bits = integer = 1` -/
theorem C18_tensor_fits_relu (t : Tie) (c : ReluCfg) (h : c.slopeLog = none) (hb : 0 ≤ c.bits)
    (x : ℚ) :
    ∃ r, ofQuantizer { cls := "quantized_relu", bits := c.bits, integer := c.integer,
                       negSlopeNonzero := false } = some r ∧ Val r (qrelu t c x) := by
  obtain ⟨k, h1, h2, hk⟩ := C01.C01_relu_plain_on_lattice t c h x
  have hnsb : c.nsb = c.bits := by simp [ReluCfg.nsb, h]
  unfold ReluCfg.hi at h2
  rw [twoPow_eq_tp, hnsb] at h2
  by_cases h11 : c.bits = 1 ∧ c.integer = 1
  · refine ⟨_, rfl, ?_⟩
    simp only [Val, h11, and_self, if_true]
    have hstep : c.step = 1 := by simp [ReluCfg.step, hnsb, h11.1, h11.2, pow2]
    rw [hk, hstep, mul_one]
    rw [h11.1, tp_one] at h2
    have : k = 0 ∨ k = 1 := by omega
    rcases this with rfl | rfl <;> simp
  · refine ⟨_, rfl, ?_⟩
    simp only [Val, h11, if_false]
    refine ⟨k, by rw [fixedLo_unsigned]; exact h1, by rw [fixedHi_unsigned]; exact h2, ?_⟩
    rw [hk]
    congr 1
    simp only [ReluCfg.step, hnsb, fixedLsb, b2i, Bool.false_eq_true, if_false]
    congr 1; ring

/-- `quantized_tanh(bits)` (any symmetry, any tie rule, hard or real tanh: every surrogate value
    `p`): every output `k / 2^(bits-1)` is a value of the converted type `(bits, 0, signed)`.
    (Was the counterexample of finding C18-tanh-intbits until the repair
    "QuantizedTanh.convert_qkeras_quantizer sets int_bits".) -/
theorem C18_tensor_fits_tanh (t : Tie) (bits : ℤ) (sym : Bool) (hb : 1 ≤ bits) (p : ℚ) :
    ∃ r, ofQuantizer { cls := "quantized_tanh", bits := bits } = some r ∧
      Val r (qtanhP t bits sym p) := by
  refine ⟨{ tQuantizedBits with name := .quantized_tanh, bits := bits, intBits := 0,
                                signed := true }, rfl, ?_⟩
  obtain ⟨k, h1, h2, hk⟩ := C01.C01_tanh_on_lattice t bits sym p
  show ValFixed bits 0 true (qtanhP t bits sym p)
  refine ⟨k, ?_, ?_, ?_⟩
  · rw [fixedLo_signed]; split at h1 <;> omega
  · rw [fixedHi_signed]; exact h2
  · rw [hk, tp_cast (by omega : 0 ≤ bits - 1)]
    have hp : pow2 (0 + b2i true - bits) * pow2 (bits - 1) = 1 := by
      rw [← pow2_add, show 0 + b2i true - bits + (bits - 1) = 0 by simp [b2i], pow2_zero]
    have hpos := pow2_pos (bits - 1)
    rw [div_eq_iff hpos.ne']
    show (k : ℚ) = (k : ℚ) * pow2 (0 + b2i true - bits) * pow2 (bits - 1)
    rw [mul_assoc, hp, mul_one]

/-- REGRESSION WITNESS (former finding C18-tanh-intbits): `quantized_tanh(4)` now converts to
    `(4 bits, 0 int bits, signed)`, which holds the saturated output `7/8` (the old record
    `(4, −1, signed)` stopped at `7/16`). -/
theorem C18_tensor_fits_tanh_fixed_witness :
    qtanhP .even 4 false 1 = 7 / 8 ∧
    ∃ r, ofQuantizer { cls := "quantized_tanh", bits := 4 } = some r ∧
      r.bits = 4 ∧ r.intBits = 0 ∧ r.signed = true ∧ Val r (7 / 8) ∧
      ¬ ValFixed 4 (-1) true (7 / 8) := by
  refine ⟨by decide +kernel, _, rfl, rfl, rfl, rfl, ?_, ?_⟩
  · show ValFixed 4 0 true (7 / 8)
    exact ⟨7, by decide, by decide, by simp [fixedLsb, b2i, pow2]; norm_num⟩
  · rw [valFixed_iff (by decide)]
    rintro ⟨_, _, h⟩
    simp [pow2] at h
    norm_num at h

/-- `quantized_po2(bits)` / `quantized_relu_po2(bits)` without `max_value`: every value `±2^e`
    with `e` in the quantizer's real exponent range is a value of the converted type. -/
theorem C18_tensor_fits_po2_partial (bits : ℤ) (isRelu : Bool)
    (hb : 1 ≤ bits - (if isRelu then 0 else 1)) (e : ℤ)
    (h1 : (po2RealRange bits isRelu none).1 ≤ e) (h2 : e ≤ (po2RealRange bits isRelu none).2) :
    ∃ r, ofQuantizer { cls := if isRelu then "quantized_relu_po2" else "quantized_po2",
                       bits := bits, maxValue := none } = some r ∧
      Val r (pow2 e) ∧ (isRelu = false → Val r (- pow2 e)) := by
  cases isRelu
  · refine ⟨_, rfl, ?_, fun _ => ?_⟩ <;>
      simp only [Val, tPowerOfTwo] <;>
      refine ⟨e, ?_, ?_, ?_⟩ <;>
      simp only [po2RealRange, po2Half, po2MaxExpRaw, Bool.false_eq_true, if_false, if_true] at * <;>
      first | omega | simp
  · refine ⟨_, rfl, ?_, fun h => by cases h⟩
    simp only [Val, tPowerOfTwo]
    refine ⟨e, ?_, ?_, Or.inl rfl⟩ <;>
      simp only [po2RealRange, po2Half, po2MaxExpRaw, Bool.false_eq_true, if_false, if_true] at * <;>
      omega

/-- COUNTEREXAMPLE (finding C18-po2-maxvalue-le1): with `max_value ≤ 1` the real quantizer drops
    the exponent's sign bit (`_need_exponent_sign_bit_check`) and reaches down to `2^-(2^(bits-1))`,
    while qtools' `get_exp` always reserves it: `quantized_po2(4, max_value=1)` emits `2^-8`
    (for inputs near 0) but the converted type only holds exponents `≥ −4`. -/
theorem C18_tensor_fits_po2_counterexample :
    po2RealRange 4 false (some 1) = (-8, 0) ∧
    ∃ r, ofQuantizer { cls := "quantized_po2", bits := 4, maxValue := some 1 } = some r ∧
      po2Half r = 4 ∧ ¬ Val r (pow2 (-8)) := by
  refine ⟨by decide +kernel, ?_⟩
  let r : QRec := { tPowerOfTwo with bits := 4, intBits := 4, signed := true, maxValPo2 := some 1 }
  have hr : ofQuantizer { cls := "quantized_po2", bits := 4, maxValue := some 1 } = some r := by
    decide +kernel
  have hh : po2Half r = 4 := by decide
  refine ⟨r, hr, hh, ?_⟩
  show ¬ ValPo2 r _
  rintro ⟨e, h1, _, h3⟩
  rw [hh] at h1
  rcases h3 with h3 | ⟨_, h3⟩
  · have := pow2_injective h3; omega
  · have := pow2_pos e; have := pow2_pos (-8); linarith

/-! ## activation propagation: pass-through layers re-make the record on the edge -/

/-- every record survives `QuantizerFactory.make_quantizer` unchanged (each qtools class is
    mapped to itself and cloned; the four exceptions of finding C18-edge-remake are repaired) -/
theorem C18_remake_id (q : QRec) : remake q = q := rfl

/-- a pass-through layer (Flatten / MaxPooling / Reshape / UpSampling) reports its input type as
    its output type, for every record -/
theorem C18_passthrough_type (inp : QRec) :
    stepNode inp .pass = some { input := inp, types := none, output := inp } := rfl

/-- along a chain the input type reported for a layer is the type reported for the tensor that
    feeds it (the output type of the previous node) -/
theorem C18_chain_input (src : QRec) (n : Node) (rest : List Node) (r : NodeReport)
    (rs : List NodeReport) (h : chainTypes src (n :: rest) = some (r :: rs)) :
    r.input = src ∧ chainTypes r.output rest = some rs := by
  simp only [chainTypes] at h
  cases hs : stepNode src n with
  | none => simp [hs] at h
  | some r' =>
    simp only [hs] at h
    cases hc : chainTypes r'.output rest with
    | none => simp [hc] at h
    | some rs' =>
      simp only [hc, Option.map_some, Option.some.injEq, List.cons.injEq] at h
      obtain ⟨rfl, rfl⟩ := h
      refine ⟨?_, hc⟩
      cases n <;> simp only [stepNode] at hs
      · cases hs; rfl
      · cases hs; rfl
      · simp only [Option.map_eq_some_iff] at hs
        obtain ⟨a, _, rfl⟩ := hs
        rfl

/-- REGRESSION WITNESS (former finding C18-edge-remake; `quantizer_lookup` mapped the qtools
    classes QuantizedTanh / QuantizedUlaw / Bernoulli / StochasticBinary to StochasticTernary):
    a `Flatten` after `QActivation(quantized_tanh(4))` now reports the tanh type for its output —
    and so does the input of the layer behind it — and the tanh value `7/8` fits it. -/
theorem C18_edge_remake_fixed_witness :
    let tanh4 : QRec := { tQuantizedBits with name := .quantized_tanh, bits := 4, intBits := 0,
                                              signed := true }
    let src : QRec := { tQuantizedBits with bits := 8, intBits := 0, signed := true }
    ∃ r1 r2, chainTypes src [.qact tanh4, .pass] = some [r1, r2] ∧
      r2.input = tanh4 ∧ r2.output = tanh4 ∧ Val r2.output (7 / 8) ∧
      ¬ Val { tTernary with name := .stochastic_ternary } (7 / 8) := by
  refine ⟨_, _, rfl, rfl, rfl, ?_, ?_⟩
  · show ValFixed 4 0 true (7 / 8)
    exact ⟨7, by decide, by decide, by simp [fixedLsb, b2i, pow2]; norm_num⟩
  · simp [Val, tTernary]
    norm_num

/-! ## C18_estimator_bound: `analyze_accumulator` -/

/-- per output channel: for inputs inside `[xmin, xmax]` the magnitude of the output is at most
    the channel's `max(n1, n0)` — induction over the weight list; any bias, any range (the
    hypothesis `b = 0 ∨ xmax ≥ 1` of the recorded state is gone with the repair
    "analyze_accumulator adds the bias after scaling by the input range"). -/
theorem C18_estimator_bound (ws xs : List ℚ) (b xmin xmax : ℚ)
    (hx : ∀ x ∈ xs, xmin ≤ x ∧ x ≤ xmax) :
    |dot ws xs + b| ≤ chanBound ws b xmin xmax := by
  have hP := posPart_nonneg xmax
  have hM := negPart_nonpos xmin
  have hd := dot_bounds ws xs hP hM
    (fun x h => ⟨le_trans (negPart_le xmin) (hx x h).1, le_trans (hx x h).2 (le_posPart xmax)⟩)
  have h1 : dot ws xs + b ≤ estN1 ws b xmin xmax := by
    unfold estN1 estNpp estNnn; linarith [hd.2]
  have h0 : -(dot ws xs + b) ≤ estN0 ws b xmin xmax := by
    unfold estN0 estNpp estNnn; linarith [hd.1]
  show |dot ws xs + b| ≤ if estN0 ws b xmin xmax < estN1 ws b xmin xmax
    then estN1 ws b xmin xmax else estN0 ws b xmin xmax
  rw [abs_le]
  split <;> constructor <;> linarith

/-- every output channel is visited: slice `i` and bias element `i` form an entry of the loop -/
theorem channel_mem (slices : List (List ℚ)) (bias : List ℚ) (h : slices.length ≤ bias.length)
    (i : ℕ) (hi : i < slices.length) :
    ∃ b, bias[i]? = some b ∧ (slices[i], b) ∈ channels slices bias := by
  have hb : i < bias.length := lt_of_lt_of_le hi h
  refine ⟨bias[i], List.getElem?_eq_getElem hb, ?_⟩
  unfold channels
  apply List.mem_of_getElem? (i := i)
  rw [List.getElem?_zip_eq_some]
  exact ⟨List.getElem?_eq_getElem hi, List.getElem?_eq_getElem hb⟩

/-- ALL CHANNELS (replaces the counterexample of finding C18-estimator-loop-bound): whenever
    `analyze_accumulator` returns a size `e` for a layer, EVERY output channel `i` of the kernel
    (dense, conv1d, conv2d: slice `i` of the last axis; depthwise: slice `c·dm + m`) has a bias
    element and satisfies `|Σ wⱼxⱼ + b| ≤ 2^e` for every input patch inside `[xmin, xmax]` — any
    number of channels, any kernel size, any bias, any range. -/
theorem C18_estimator_all_channels (slices : List (List ℚ)) (bias : List ℚ) (xmin xmax : ℚ)
    (e : ℤ) (h : analyzeAccumulator slices bias xmin xmax = .ok e)
    (i : ℕ) (hi : i < slices.length) (xs : List ℚ) (hx : ∀ x ∈ xs, xmin ≤ x ∧ x ≤ xmax) :
    ∃ b, bias[i]? = some b ∧ |dot slices[i] xs + b| ≤ pow2 e := by
  unfold analyzeAccumulator at h
  split at h
  · rename_i hlen
    obtain ⟨b, hb, hmem⟩ := channel_mem slices bias hlen i hi
    refine ⟨b, hb, ?_⟩
    simp only at h
    split at h
    · cases h
    · rename_i hm
      push Not at hm
      injection h with h
      subst h
      have hle : chanBound slices[i] b xmin xmax ≤ listMax ((channels slices bias).map
          fun (p : List ℚ × ℚ) => chanBound p.1 p.2 xmin xmax) :=
        le_listMax (List.mem_map.2 ⟨(slices[i], b), hmem, rfl⟩)
      exact le_trans (C18_estimator_bound slices[i] xs b xmin xmax hx)
        (le_trans hle (le_pow2_ceilLog2Rat hm))
  · cases h

/-- the loop never indexes past the bias vector of a built layer (one bias element per output
    channel), for any kernel shape — the IndexError of finding C18-estimator-loop-bound-raises
    is gone -/
theorem C18_estimator_no_index_error (slices : List (List ℚ)) (bias : List ℚ) (xmin xmax : ℚ)
    (h : slices.length ≤ bias.length) :
    analyzeAccumulator slices bias xmin xmax ≠ .indexError := by
  unfold analyzeAccumulator
  rw [if_pos h]
  simp only
  split <;> simp

/-- the remaining exception: OverflowError (`int(ceil(log2 0))`) is raised only when EVERY output
    channel is identically zero on the whole input range — there is no magnitude to size -/
theorem C18_estimator_overflow_only_zero (slices : List (List ℚ)) (bias : List ℚ)
    (xmin xmax : ℚ) (h : analyzeAccumulator slices bias xmin xmax = .overflowError)
    (i : ℕ) (hi : i < slices.length) (xs : List ℚ) (hx : ∀ x ∈ xs, xmin ≤ x ∧ x ≤ xmax) :
    ∃ b, bias[i]? = some b ∧ dot slices[i] xs + b = 0 := by
  unfold analyzeAccumulator at h
  split at h
  · rename_i hlen
    obtain ⟨b, hb, hmem⟩ := channel_mem slices bias hlen i hi
    refine ⟨b, hb, ?_⟩
    simp only at h
    split at h
    · rename_i hm
      have hle : chanBound slices[i] b xmin xmax ≤ listMax ((channels slices bias).map
          fun (p : List ℚ × ℚ) => chanBound p.1 p.2 xmin xmax) :=
        le_listMax (List.mem_map.2 ⟨(slices[i], b), hmem, rfl⟩)
      have := C18_estimator_bound slices[i] xs b xmin xmax hx
      exact abs_nonpos_iff.1 (le_trans this (le_trans hle hm))
    · cases h
  · cases h

/-- REGRESSION WITNESS (former findings C18-estimator-loop-bound / -raises; the loop ran over
    `range(k.shape[1])`, the kernel WIDTH of a rank-4 kernel): a `2×3` kernel with 5 filters, all
    five slices visited now.
    * only filter 4 non-zero (all weights 1/2), inputs in [−1, 1]: was OverflowError, is
      `ceil(log2 3) = 2`;
    * filter 0 additionally 1/8: was 0 (outputs "≤ 2^0") although filter 4 outputs
      `6 · 1/2 · 1 = 3` on the all-ones patch; is 2, and `3 ≤ 2^2`. -/
theorem C18_estimator_loop_bound_fixed_witness :
    let z : List ℚ := [0, 0, 0, 0, 0, 0]
    let f4 : List ℚ := [1/2, 1/2, 1/2, 1/2, 1/2, 1/2]
    let f0 : List ℚ := [1/8, 1/8, 1/8, 1/8, 1/8, 1/8]
    let ones : List ℚ := [1, 1, 1, 1, 1, 1]
    analyzeAccumulator [z, z, z, z, f4] [0, 0, 0, 0, 0] (-1) 1 = .ok 2 ∧
    analyzeAccumulator [f0, z, z, z, f4] [0, 0, 0, 0, 0] (-1) 1 = .ok 2 ∧
    (∀ x ∈ ones, (-1 : ℚ) ≤ x ∧ x ≤ 1) ∧ ¬ (|dot f4 ones + 0| ≤ pow2 0) ∧
    |dot f4 ones + 0| ≤ pow2 2 := by
  refine ⟨by decide +kernel, by decide +kernel, ?_, ?_, ?_⟩
  · intro x hx; simp at hx; subst hx; norm_num
  · simp [dot, pow2]; norm_num
  · simp [dot, pow2]; norm_num

/-- REGRESSION WITNESS (former depthwise counterexample; the loop indexed the depth-multiplier
    axis with the kernel-width index: IndexError as soon as `kw > 1`): a depthwise kernel
    `(2, 2, 1, 1)` is one output channel with the four weights; a kernel `(1, 2, 2, 2)`
    (2 input channels, depth multiplier 2) is four output channels `c·2 + m`, each with its own
    bias element. -/
theorem C18_estimator_depthwise_fixed_witness :
    analyzeAccumulator [[1/2, 1/2, 1/2, 1/2]] [0] (-1) 1 = .ok 1 ∧
    analyzeAccumulator [[1/2, 1/2], [1/4, 0], [1, 1], [0, -1/2]] [0, 0, 1/2, 3] (-1) 1 = .ok 2 := by
  refine ⟨by decide +kernel, by decide +kernel⟩

/-- REGRESSION WITNESS (former finding C18-estimator-bias-scaled; the bias was multiplied by the
    input range): one weight 1/2, bias 1/2, inputs in [−1/2, 1/2]: the estimate was −1 (outputs
    "≤ 1/2") although the input 1/2 gives `1/2·1/2 + 1/2 = 3/4`; it is `ceil(log2 3/4) = 0`. -/
theorem C18_estimator_bias_fixed_witness :
    analyzeAccumulator [[1/2]] [1/2] (-1/2) (1/2) = .ok 0 ∧
    ¬ (|dot [1/2] [1/2] + 1/2| ≤ pow2 (-1)) ∧ |dot [1/2] [1/2] + 1/2| ≤ pow2 0 := by
  refine ⟨by decide +kernel, ?_, ?_⟩
  · simp [dot, pow2]; norm_num
  · simp [dot, pow2]; norm_num

/-! ## non-vacuity -/

example : Covered { tQuantizedBits with bits := 4, intBits := 0, signed := true }
                  { tQuantizedBits with bits := 8, intBits := 0, signed := true } :=
  .ff ⟨rfl, by decide, rfl, rfl, rfl, rfl⟩ ⟨rfl, by decide, rfl, rfl, rfl, rfl⟩
example : Covered tTernary { tQuantizedBits with bits := 8, intBits := 0, signed := true } :=
  .uf (Or.inl ⟨rfl, rfl, rfl, rfl⟩) ⟨rfl, by decide, rfl, rfl, rfl, rfl⟩
example : BiasOK (some { tQuantizedBits with bits := 4, intBits := 0, signed := true }) 0 :=
  Or.inl ⟨rfl, ⟨rfl, rfl, by decide⟩, valFixed_zero⟩
example : accShape .depthwise [3, 3, 8, 1] = [3, 3, 1, 1] ∧ kernelTerms [3, 3, 1, 1] = 9 := by decide
example : ∃ lt, layerTypes .conv2d { tQuantizedBits with bits := 4, intBits := 0, signed := false }
    { tQuantizedBits with bits := 4, intBits := 0, signed := true }
    (some { tQuantizedBits with bits := 4, intBits := 0, signed := true }) [2, 3, 2, 5] = some lt ∧
    lt.accumulator.bits = 13 ∧ lt.accumulator.intBits = 5 := ⟨_, rfl, by decide, by decide⟩
example : analyzeAccumulator [[1/2, 1/2, -1/2], [-1/4, 1/4, 1/8]] [0, 0] (-1) (1/2) = .ok 1 := by
  decide +kernel
example : analyzeAccumulator [[0, 0], [0, 0]] [0, 0] (-1) 1 = .overflowError := by decide +kernel

end QKV.Props.C18
