/-
  C18 — bit widths reported for a concrete model bound the values it really produces.

  Property (verbatim, properties.jsonl): For a quantized model with quantized inputs and weights,
  every pre-activation value that a dense or convolution layer can produce is exactly
  representable in the accumulator type that the qtools data-type map reports for that layer
  (sign, integer bits and fraction bits; the scale-adjusted accumulator entry where the kernel
  carries an auto power-of-two scale), and every weight, bias and activation tensor fits the
  quantizer type reported for it. The accumulator size returned by the weight-based estimator is
  an upper bound on log2 of the largest output magnitude of every output channel for any input
  inside the stated input range.

  Models: QKV.Model.LayerTypes (generate_layer_data_type_map dense/conv branch, qgraph edge
  propagation on chains, auto_po2 adjustment), QKV.Model.Estimator (analyze_accumulator),
  QKV.Model.Po2Range; composes C16 (products), C17 (sums, bias adder), C01 (quantizer outputs).
  Only property theorems here; all widths, kernel shapes, list lengths unbounded.
-/
import QKV.Lemmas.LayerTypes
import QKV.Lemmas.Estimator
import QKV.Props.C01
import QKV.Model.Po2Range
namespace QKV.Props.C18
open QKV QKV.Props.C16 QKV.Props.C17

/-! ## which (weight type, input type) pairs are covered

Exactly the operand kinds whose multiplier output is a fixed-point record (so that the
FixedPointAccumulator rule applies): fixed×fixed, fixed×po2, po2×fixed, fixed×(ternary|±1),
(ternary|±1)×fixed, fixed×0/1, 0/1×fixed.  NOT covered (inherited exceptions, see the
counterexample theorems of C17): both operands in {ternary, ±1, 0/1} (accumulator reads with
`int_bits = bits`, finding C17-unit-intbits) and po2×po2 / po2×unit (Po2Accumulator, finding
C17-po2-top); float operands are trivially representable. -/
inductive Covered (w x : QRec) : Prop
  | ff : WFfixed w → WFfixed x → Covered w x
  | fp : WFfixed w → WFpo2 x → Covered w x
  | pf : WFpo2 w → WFfixed x → Covered w x
  | fu : WFfixed w → (WFternary x ∨ WFbinPM x) → Covered w x
  | uf : (WFternary w ∨ WFbinPM w) → WFfixed x → Covered w x
  | fb : WFfixed w → WFbin01 x → Covered w x
  | bf : WFbin01 w → WFfixed x → Covered w x

/-- the multiplier of a covered pair is a well-formed fixed-point record holding every
    non-exceptional product (C16 re-read per pair instead of per value pair) -/
theorem covered_mult {w x : QRec} (hc : Covered w x) :
    ∃ impl m, makeMultiplier w x = some (impl, m) ∧ WFfx m ∧ m.mode = 0 ∧
      ∀ a b, Val w a → Val x b → ¬ Exceptional w x a b →
        ValFixed m.bits m.intBits m.signed (a * b) := by
  have fin : ∀ (impl : MulImpl) (m : QRec), makeMultiplier w x = some (impl, m) → WFfx m →
      m.mode = 0 →
      (∀ a b, Val w a → Val x b → ¬ Exceptional w x a b →
        ∃ o, makeMultiplier w x = some (impl, o) ∧ Val o (a * b)) →
      ∃ impl m, makeMultiplier w x = some (impl, m) ∧ WFfx m ∧ m.mode = 0 ∧
        ∀ a b, Val w a → Val x b → ¬ Exceptional w x a b →
          ValFixed m.bits m.intBits m.signed (a * b) := by
    intro impl m hm hwf hmode h
    refine ⟨impl, m, hm, hwf, hmode, fun a b ha hb hex => ?_⟩
    obtain ⟨o, ho, hv⟩ := h a b ha hb hex
    rw [hm] at ho
    have : o = m := by injection ho with h1; injection h1 with _ h2; exact h2.symm
    subst this
    simpa only [Val, hmode] using hv
  cases hc with
  | ff hw hx =>
    refine fin .fixedMul (mkFixedMul w x tQuantizedBits) ?_ (wffx_mkFixedMul hw hx)
      (mode_mkImpl .fixedMul w x tQuantizedBits) (fun a b ha hb hex => C16_fixed_fixed w x hw hx a b ha hb hex)
    simp [makeMultiplier, hw.mode, hx.mode, mulTable, mkImpl, OutTemplate.toRec]
  | fp hw hx =>
    refine fin .shifter (mkShifter w x tQuantizedBits) ?_
      (wffx_mkShifter (p := x) (q := w) hw hx (by simp [hw.mode]))
      (mode_mkImpl .shifter w x tQuantizedBits) (fun a b ha hb hex => C16_fixed_po2 w x hw hx a b ha hb hex)
    simp [makeMultiplier, hw.mode, hx.mode, mulTable, mkImpl, OutTemplate.toRec]
  | pf hw hx =>
    refine fin .shifter (mkShifter w x tQuantizedBits) ?_
      (wffx_mkShifter (p := w) (q := x) hx hw (by simp [hw.mode]))
      (mode_mkImpl .shifter w x tQuantizedBits) (fun a b ha hb hex => C16_po2_fixed w x hw hx a b ha hb hex)
    simp [makeMultiplier, hw.mode, hx.mode, mulTable, mkImpl, OutTemplate.toRec]
  | fu hw hx =>
    have hxs : x.signed = true := by rcases hx with h | h <;> exact h.signed
    have hwn : (w.name.hasBinary || w.name.hasTernary) = false := by simp [hw.nb, hw.nt]
    refine fin .mux (mkMux w x tQuantizedBits) ?_ (wffx_mkMux_wother hw hwn hxs)
      (mode_mkImpl .mux w x tQuantizedBits) (fun a b ha hb hex => C16_fixed_unit w x hw hx a b ha hb hex)
    rcases hx with h | h <;>
      simp [makeMultiplier, hw.mode, h.mode, mulTable, mkImpl, OutTemplate.toRec]
  | uf hw hx =>
    have hws : w.signed = true := by rcases hw with h | h <;> exact h.signed
    have hwn : (w.name.hasBinary || w.name.hasTernary) = true := by
      rcases hw with h | h
      · simp [h.name]
      · simp [h.name]
    refine fin .mux (mkMux w x tQuantizedBits) ?_ (wffx_mkMux_wunit hx hwn hws)
      (mode_mkImpl .mux w x tQuantizedBits) (fun a b ha hb hex => C16_unit_fixed w x hw hx a b ha hb hex)
    rcases hw with h | h <;>
      simp [makeMultiplier, hx.mode, h.mode, mulTable, mkImpl, OutTemplate.toRec]
  | fb hw hx =>
    refine fin .andGate (mkAnd w x tQuantizedBits) ?_ (wffx_mkAnd_fixed_bin01 hw hx)
      (mode_mkImpl .andGate w x tQuantizedBits) (fun a b ha hb _ => C16_fixed_bin01 w x hw hx a b ha hb)
    simp [makeMultiplier, hw.mode, hx.mode, mulTable, mkImpl, OutTemplate.toRec]
  | bf hw hx =>
    refine fin .andGate (mkAnd w x tQuantizedBits) ?_ (wffx_mkAnd_bin01_fixed hw hx)
      (mode_mkImpl .andGate w x tQuantizedBits) (fun a b ha hb _ => C16_bin01_fixed w x hw hx a b ha hb)
    simp [makeMultiplier, hw.mode, hx.mode, mulTable, mkImpl, OutTemplate.toRec]

/-- the kernel accumulator (built with `use_bias=False`) holds every dot product of at most
    `prod(kernel_shape[:-1])` terms (depthwise: `kh·kw`) -/
theorem kernel_sum (kind : LayerKind) {w x : QRec} (shape : List ℕ) (hc : Covered w x)
    (ws xs : List ℚ) (hws : ∀ v ∈ ws, Val w v) (hxs : ∀ v ∈ xs, Val x v)
    (hex : ∀ p ∈ ws.zip xs, ¬ Exceptional w x p.1 p.2)
    (hn : min ws.length xs.length ≤ kernelTerms (accShape kind shape)) :
    ∃ impl m, makeMultiplier w x = some (impl, m) ∧ WFfx m ∧
      ValFixed (makeAccumulator (accShape kind shape) m false).bits
        (makeAccumulator (accShape kind shape) m false).intBits
        (makeAccumulator (accShape kind shape) m false).signed (dot ws xs) := by
  obtain ⟨impl, m, hm, hwf, _, hprod⟩ := covered_mult hc
  refine ⟨impl, m, hm, hwf, ?_⟩
  rw [dot_eq_sum]
  refine C17_acc_fixed (accShape kind shape) false m hwf _ ?_ ?_
  · intro p hp
    obtain ⟨a, b, hab, rfl⟩ := mem_zipWith_mul hp
    have hmem := List.of_mem_zip hab
    exact hprod a b (hws a hmem.1) (hxs b hmem.2) (hex (a, b) hab)
  · simp only [List.length_zipWith, Bool.false_eq_true, if_false, Nat.add_zero]
    exact hn

/-! ## the bias operand -/

/-- bias types covered by the bias-adder theorems: none (`use_bias=False`, value 0), a fixed-point
    quantizer, or a power-of-two quantizer, with the value the bias takes -/
def BiasOK (b : Option QRec) (bv : ℚ) : Prop :=
  match b with
  | none => bv = 0
  | some bq => (bq.mode = 0 ∧ WFfx bq ∧ ValFixed bq.bits bq.intBits bq.signed bv) ∨
               (bq.mode = 1 ∧ WFp2 bq ∧ ValPo2 bq bv)

theorem bias_add {kacc : QRec} (hk : WFfx kacc) (hkm : kacc.mode = 0) {u : ℚ}
    (hu : ValFixed kacc.bits kacc.intBits kacc.signed u) {b : Option QRec} {bv : ℚ}
    (hb : BiasOK b bv) : ∃ acc, biasAdd kacc b = some acc ∧ Val acc (u + bv) := by
  cases b with
  | none =>
    simp only [BiasOK] at hb
    subst hb
    exact ⟨kacc, rfl, by simpa [Val, hkm] using hu⟩
  | some bq =>
    simp only [BiasOK] at hb
    rcases hb with ⟨hm, hwf, hv⟩ | ⟨hm, hwf, hv⟩
    · refine ⟨fixedPointAdder kacc bq, by simp [biasAdd, makeAdder, hkm, hm, addTable], ?_⟩
      have h := C17_adder_fixed kacc bq hk hwf u bv hu hv
      have hmode : (fixedPointAdder kacc bq).mode = 0 := rfl
      simpa only [Val, hmode] using h
    · have he : po2FixedAdder kacc bq = po2FixedAdder bq kacc := by
        simp [po2FixedAdder, hk.np, hwf.p]
      refine ⟨po2FixedAdder bq kacc, by simp [biasAdd, makeAdder, hkm, hm, addTable, he], ?_⟩
      have h := C17_adder_po2_fixed bq kacc hwf hk bv u hv hu
      have hmode : (po2FixedAdder bq kacc).mode = 0 := by
        simp [po2FixedAdder, hwf.p, fixedPointAdder, tQuantizedBits]
      rw [add_comm]
      simpa only [Val, hmode] using h

/-- transport of a non-membership along an equality of records (for concrete witnesses) -/
theorem not_val_of_eq {q q' : QRec} {v : ℚ} (h : q = q') (hv : ¬ Val q' v) : ¬ Val q v := h ▸ hv

/-! ## C18_preactivation -/

/-- Every pre-activation `Σ wᵢ·xᵢ + b` of a dense / conv1d / conv2d / depthwise layer whose weights
    are values of the reported weight type, inputs values of the reported input type and bias a
    value of the reported bias type is a value of the reported accumulator type — for every
    covered operand pair, all bit widths, all kernel shapes and any number of terms up to
    `prod(kernel_shape[:-1])`, provided no single product is most-negative × most-negative
    (the exception C16 states; see `C18_preactivation_mostneg_counterexample`). -/
theorem C18_preactivation (kind : LayerKind) (x w : QRec) (b : Option QRec) (shape : List ℕ)
    (hc : Covered w x) (ws xs : List ℚ) (bv : ℚ)
    (hws : ∀ v ∈ ws, Val w v) (hxs : ∀ v ∈ xs, Val x v) (hb : BiasOK b bv)
    (hex : ∀ p ∈ ws.zip xs, ¬ Exceptional w x p.1 p.2)
    (hn : min ws.length xs.length ≤ kernelTerms (accShape kind shape)) :
    ∃ lt, layerTypes kind x w b shape = some lt ∧ Val lt.accumulator (dot ws xs + bv) ∧
      lt.fusedAccumulator = lt.accumulator := by
  obtain ⟨impl, m, hm, hwf, hk⟩ := kernel_sum kind shape hc ws xs hws hxs hex hn
  obtain ⟨hkw, hkm⟩ := wffx_makeAccumulator (accShape kind shape) m hwf false
  obtain ⟨acc, hacc, hval⟩ := bias_add hkw hkm hk hb
  refine ⟨{ weight := w, bias := b, impl := impl, multiplier := m,
            kernelAcc := makeAccumulator (accShape kind shape) m false,
            accumulator := acc, fusedAccumulator := acc }, ?_, hval, rfl⟩
  simp [layerTypes, hm, accFor, hacc]

/-- COUNTEREXAMPLE (finding C18-mostneg-pow2; the exception inherited from C16 is NOT absorbed by
    the accumulator when the number of terms is a power of two): a `QDense(1)` on ONE input with
    weight type `quantized_bits(3,0,symmetric=0)`, input type `quantized_bits(4,0)`, no bias:
    weight −1 and input −1 are values of the reported types, the reported accumulator is
    `(6 bits, 0 int bits, signed)`, i.e. values `< 1`, but the pre-activation is `(−1)·(−1) = 1`.
    Same with four inputs: accumulator `(8, 2, signed)` (values `< 4`), pre-activation `4`. -/
theorem C18_preactivation_mostneg_counterexample :
    let w : QRec := { tQuantizedBits with bits := 3, intBits := 0, signed := true }
    let x : QRec := { tQuantizedBits with bits := 4, intBits := 0, signed := true }
    Val w (-1) ∧ Val x (-1) ∧
    (∃ lt, layerTypes .dense x w none [1, 1] = some lt ∧
      lt.accumulator = { tQuantizedBits with bits := 6, intBits := 0, signed := true } ∧
      ¬ Val lt.accumulator (dot [-1] [-1])) ∧
    (∃ lt, layerTypes .dense x w none [4, 1] = some lt ∧
      lt.accumulator = { tQuantizedBits with bits := 8, intBits := 2, signed := true } ∧
      ¬ Val lt.accumulator (dot [-1, -1, -1, -1] [-1, -1, -1, -1])) := by
  refine ⟨⟨-4, by decide, by decide, by simp [fixedLsb, b2i, tQuantizedBits, pow2]⟩,
    ⟨-8, by decide, by decide, by simp [fixedLsb, b2i, tQuantizedBits, pow2]⟩,
    ⟨_, rfl, by decide, not_val_of_eq
      (q' := { tQuantizedBits with bits := 6, intBits := 0, signed := true }) (by decide) ?_⟩,
    ⟨_, rfl, by decide, not_val_of_eq
      (q' := { tQuantizedBits with bits := 8, intBits := 2, signed := true }) (by decide) ?_⟩⟩
  · simp only [Val, tQuantizedBits]
    rw [valFixed_iff (by decide)]
    rintro ⟨_, _, h⟩
    simp [dot, pow2] at h
  · simp only [Val, tQuantizedBits]
    rw [valFixed_iff (by decide)]
    rintro ⟨_, _, h⟩
    simp [dot, pow2] at h
    norm_num at h

/-! ## auto_po2 kernels: the scale-adjusted (`fused_accumulator`) entry -/

/-- With a `quantized_bits(alpha="auto_po2")` kernel the weights of one output channel are
    `2^s · cᵢ` with `cᵢ` values of the reported weight type and `s` the channel's scale exponent,
    `min_shift ≤ s ≤ max_shift`.  Every such pre-activation is a value of the reported
    `fused_accumulator` (`adjust_accumulator_for_auto_po2`), for every covered operand pair. -/
theorem C18_preactivation_autopo2 (kind : LayerKind) (x w : QRec) (b : Option QRec)
    (shape : List ℕ) (hc : Covered w x) (cs xs : List ℚ) (bv : ℚ) (s mn mx : ℤ)
    (hs1 : mn ≤ s) (hs2 : s ≤ mx)
    (hws : ∀ v ∈ cs, Val w v) (hxs : ∀ v ∈ xs, Val x v) (hb : BiasOK b bv)
    (hex : ∀ p ∈ cs.zip xs, ¬ Exceptional w x p.1 p.2)
    (hn : min cs.length xs.length ≤ kernelTerms (accShape kind shape)) :
    ∃ lt, layerTypes kind x w b shape (some (mx, mn)) = some lt ∧
      Val lt.fusedAccumulator (dot (cs.map (pow2 s * ·)) xs + bv) := by
  obtain ⟨impl, m, hm, hwf, hk⟩ := kernel_sum kind shape hc cs xs hws hxs hex hn
  obtain ⟨hkw, hkm⟩ := wffx_makeAccumulator (accShape kind shape) m hwf false
  -- the ordinary accumulator exists
  obtain ⟨acc, hacc, _⟩ := bias_add hkw hkm hk hb
  -- the adjusted one
  obtain ⟨hawf, hab, hai, has⟩ := adjustMultiplier_wffx hwf (mx := mx) (mn := mn) (by omega)
  set m' := adjustMultiplier m mx mn with hm'
  obtain ⟨hkw', hkm'⟩ := wffx_makeAccumulator (accShape kind shape) m' hawf false
  have hk' : ValFixed (makeAccumulator (accShape kind shape) m' false).bits
      (makeAccumulator (accShape kind shape) m' false).intBits
      (makeAccumulator (accShape kind shape) m' false).signed (pow2 s * dot cs xs) := by
    have h := valFixed_shift (s := s) (mn := mn) (mx := mx) hkw.mag hs1 hs2 hk
    rw [makeAccumulator_fixed _ m hwf] at h
    rw [makeAccumulator_fixed _ m' hawf]
    have e1 : logAddOps (accShape kind shape) false + m'.bits
        = logAddOps (accShape kind shape) false + m.bits + mx - mn := by rw [hab]; ring
    have e2 : logAddOps (accShape kind shape) false + m'.intBits
        = logAddOps (accShape kind shape) false + m.intBits + mx := by rw [hai]; ring
    show ValFixed (logAddOps (accShape kind shape) false + m'.bits)
      (logAddOps (accShape kind shape) false + m'.intBits) m'.signed _
    rw [e1, e2, has]
    exact h
  obtain ⟨facc, hfacc, hfval⟩ := bias_add hkw' hkm' hk' hb
  refine ⟨{ weight := w, bias := b, impl := impl, multiplier := m,
            kernelAcc := makeAccumulator (accShape kind shape) m false,
            accumulator := acc, fusedAccumulator := facc }, ?_, ?_⟩
  · simp [layerTypes, hm, accFor, hacc, ← hm', hfacc]
  · rw [dot_smul]; exact hfval

/-! ## C18_tensor_fits: quantizer outputs are values of the converted qtools type -/

/-- `quantized_bits` (any symmetry, no scale or constant scale 1, at least one magnitude bit):
    every output is a value of the converted type `(bits, integer, keep_negative)`.
    (Generalises `C01_bits_valFixed` to `symmetric=1`, which only removes the lowest code.) -/
theorem C18_tensor_fits_bits (t : Tie) (c : BitsCfg) (h : 0 < c.ub) (hg : c.gain = 1) (x : ℚ) :
    ∃ r, ofQuantizer { cls := "quantized_bits", bits := c.bits, integer := c.integer,
                       keepNegative := c.keepNeg } = some r ∧ Val r (qbits t c x) := by
  refine ⟨{ tQuantizedBits with bits := c.bits, intBits := c.integer, signed := c.keepNeg }, rfl, ?_⟩
  obtain ⟨k, h1, h2, hk⟩ := C01.C01_bits_on_lattice t c h x
  show ValFixed c.bits c.integer c.keepNeg (qbits t c x)
  have hub : c.ub = c.bits - (if c.keepNeg then 1 else 0) := rfl
  refine ⟨k, ?_, ?_, ?_⟩
  · unfold BitsCfg.lo at h1
    rw [twoPow_eq_tp] at h1
    cases hk' : c.keepNeg <;> simp only [hk', if_true, if_false, Bool.false_eq_true] at h1 hub ⊢
    · rw [fixedLo_unsigned]; exact h1
    · rw [fixedLo_signed, ← hub]; split at h1 <;> omega
  · unfold BitsCfg.hi at h2
    rw [twoPow_eq_tp] at h2
    cases hk' : c.keepNeg <;> simp only [hk', if_true, if_false, Bool.false_eq_true] at hub ⊢
    · rw [fixedHi_unsigned]; rw [hub] at h2; simpa using h2
    · rw [fixedHi_signed, ← hub]; exact h2
  · rw [hk, hg, one_mul]
    congr 1
    unfold BitsCfg.step fixedLsb
    cases hk' : c.keepNeg <;> simp only [hk', b2i, if_true, if_false, Bool.false_eq_true] at hub ⊢ <;>
      (congr 1; omega)

/-- plain `quantized_relu(bits, integer)` (negative_slope = 0): every output is a value of the
    converted type — `(bits, integer, unsigned)`, or the 0/1 type when `bits = integer = 1` -/
theorem C18_tensor_fits_relu (t : Tie) (c : ReluCfg) (h : c.slopeLog = none) (hb : 0 ≤ c.bits)
    (x : ℚ) :
    ∃ r, ofQuantizer { cls := "quantized_relu", bits := c.bits, integer := c.integer,
                       negSlopeNonzero := false } = some r ∧ Val r (qrelu t c x) := by
  obtain ⟨k, h1, h2, hk⟩ := C01.C01_relu_plain_on_lattice t c h x
  have hnsb : c.nsb = c.bits := by simp [ReluCfg.nsb, h]
  unfold ReluCfg.hi at h2
  rw [twoPow_eq_tp, hnsb] at h2
  by_cases h11 : c.bits = 1 ∧ c.integer = 1
  · refine ⟨_, rfl, ?_⟩
    simp only [Val, h11, and_self, if_true]
    have hstep : c.step = 1 := by simp [ReluCfg.step, hnsb, h11.1, h11.2, pow2]
    rw [hk, hstep, mul_one]
    rw [h11.1, tp_one] at h2
    have : k = 0 ∨ k = 1 := by omega
    rcases this with rfl | rfl <;> simp
  · refine ⟨_, rfl, ?_⟩
    simp only [Val, h11, if_false]
    refine ⟨k, by rw [fixedLo_unsigned]; exact h1, by rw [fixedHi_unsigned]; exact h2, ?_⟩
    rw [hk]
    congr 1
    simp only [ReluCfg.step, hnsb, fixedLsb, b2i, Bool.false_eq_true, if_false]
    congr 1; ring

/-- `quantized_tanh(bits)` (any symmetry, any tie rule, hard or real tanh: every surrogate value
    `p`): every output `k / 2^(bits-1)` is a value of the converted type `(bits, 0, signed)`.
    (Was the counterexample of finding C18-tanh-intbits until the repair
    "QuantizedTanh.convert_qkeras_quantizer sets int_bits".) -/
theorem C18_tensor_fits_tanh (t : Tie) (bits : ℤ) (sym : Bool) (hb : 1 ≤ bits) (p : ℚ) :
    ∃ r, ofQuantizer { cls := "quantized_tanh", bits := bits } = some r ∧
      Val r (qtanhP t bits sym p) := by
  refine ⟨{ tQuantizedBits with name := .quantized_tanh, bits := bits, intBits := 0,
                                signed := true }, rfl, ?_⟩
  obtain ⟨k, h1, h2, hk⟩ := C01.C01_tanh_on_lattice t bits sym p
  show ValFixed bits 0 true (qtanhP t bits sym p)
  refine ⟨k, ?_, ?_, ?_⟩
  · rw [fixedLo_signed]; split at h1 <;> omega
  · rw [fixedHi_signed]; exact h2
  · rw [hk, tp_cast (by omega : 0 ≤ bits - 1)]
    have hp : pow2 (0 + b2i true - bits) * pow2 (bits - 1) = 1 := by
      rw [← pow2_add, show 0 + b2i true - bits + (bits - 1) = 0 by simp [b2i], pow2_zero]
    have hpos := pow2_pos (bits - 1)
    rw [div_eq_iff hpos.ne']
    show (k : ℚ) = (k : ℚ) * pow2 (0 + b2i true - bits) * pow2 (bits - 1)
    rw [mul_assoc, hp, mul_one]

/-- REGRESSION WITNESS (former finding C18-tanh-intbits): `quantized_tanh(4)` now converts to
    `(4 bits, 0 int bits, signed)`, which holds the saturated output `7/8` (the old record
    `(4, −1, signed)` stopped at `7/16`). -/
theorem C18_tensor_fits_tanh_fixed_witness :
    qtanhP .even 4 false 1 = 7 / 8 ∧
    ∃ r, ofQuantizer { cls := "quantized_tanh", bits := 4 } = some r ∧
      r.bits = 4 ∧ r.intBits = 0 ∧ r.signed = true ∧ Val r (7 / 8) ∧
      ¬ ValFixed 4 (-1) true (7 / 8) := by
  refine ⟨by decide +kernel, _, rfl, rfl, rfl, rfl, ?_, ?_⟩
  · show ValFixed 4 0 true (7 / 8)
    exact ⟨7, by decide, by decide, by simp [fixedLsb, b2i, pow2]; norm_num⟩
  · rw [valFixed_iff (by decide)]
    rintro ⟨_, _, h⟩
    simp [pow2] at h
    norm_num at h

/-- `quantized_po2(bits)` / `quantized_relu_po2(bits)` without `max_value`: every value `±2^e`
    with `e` in the quantizer's real exponent range is a value of the converted type. -/
theorem C18_tensor_fits_po2_partial (bits : ℤ) (isRelu : Bool)
    (hb : 1 ≤ bits - (if isRelu then 0 else 1)) (e : ℤ)
    (h1 : (po2RealRange bits isRelu none).1 ≤ e) (h2 : e ≤ (po2RealRange bits isRelu none).2) :
    ∃ r, ofQuantizer { cls := if isRelu then "quantized_relu_po2" else "quantized_po2",
                       bits := bits, maxValue := none } = some r ∧
      Val r (pow2 e) ∧ (isRelu = false → Val r (- pow2 e)) := by
  cases isRelu
  · refine ⟨_, rfl, ?_, fun _ => ?_⟩ <;>
      simp only [Val, tPowerOfTwo] <;>
      refine ⟨e, ?_, ?_, ?_⟩ <;>
      simp only [po2RealRange, po2Half, po2MaxExpRaw, Bool.false_eq_true, if_false, if_true] at * <;>
      first | omega | simp
  · refine ⟨_, rfl, ?_, fun h => by cases h⟩
    simp only [Val, tPowerOfTwo]
    refine ⟨e, ?_, ?_, Or.inl rfl⟩ <;>
      simp only [po2RealRange, po2Half, po2MaxExpRaw, Bool.false_eq_true, if_false, if_true] at * <;>
      omega

/-- COUNTEREXAMPLE (finding C18-po2-maxvalue-le1): with `max_value ≤ 1` the real quantizer drops
    the exponent's sign bit (`_need_exponent_sign_bit_check`) and reaches down to `2^-(2^(bits-1))`,
    while qtools' `get_exp` always reserves it: `quantized_po2(4, max_value=1)` emits `2^-8`
    (for inputs near 0) but the converted type only holds exponents `≥ −4`. -/
theorem C18_tensor_fits_po2_counterexample :
    po2RealRange 4 false (some 1) = (-8, 0) ∧
    ∃ r, ofQuantizer { cls := "quantized_po2", bits := 4, maxValue := some 1 } = some r ∧
      po2Half r = 4 ∧ ¬ Val r (pow2 (-8)) := by
  refine ⟨by decide +kernel, ?_⟩
  let r : QRec := { tPowerOfTwo with bits := 4, intBits := 4, signed := true, maxValPo2 := some 1 }
  have hr : ofQuantizer { cls := "quantized_po2", bits := 4, maxValue := some 1 } = some r := by
    decide +kernel
  have hh : po2Half r = 4 := by decide
  refine ⟨r, hr, hh, ?_⟩
  show ¬ ValPo2 r _
  rintro ⟨e, h1, _, h3⟩
  rw [hh] at h1
  rcases h3 with h3 | ⟨_, h3⟩
  · have := pow2_injective h3; omega
  · have := pow2_pos e; have := pow2_pos (-8); linarith

/-! ## activation propagation: pass-through layers re-make the record on the edge -/

/-- every record survives `QuantizerFactory.make_quantizer` unchanged (each qtools class is
    mapped to itself and cloned; the four exceptions of finding C18-edge-remake are repaired) -/
theorem C18_remake_id (q : QRec) : remake q = q := rfl

/-- a pass-through layer (Flatten / MaxPooling / Reshape / UpSampling) reports its input type as
    its output type, for every record -/
theorem C18_passthrough_type (inp : QRec) :
    stepNode inp .pass = some { input := inp, types := none, output := inp } := rfl

/-- along a chain the input type reported for a layer is the type reported for the tensor that
    feeds it (the output type of the previous node) -/
theorem C18_chain_input (src : QRec) (n : Node) (rest : List Node) (r : NodeReport)
    (rs : List NodeReport) (h : chainTypes src (n :: rest) = some (r :: rs)) :
    r.input = src ∧ chainTypes r.output rest = some rs := by
  simp only [chainTypes] at h
  cases hs : stepNode src n with
  | none => simp [hs] at h
  | some r' =>
    simp only [hs] at h
    cases hc : chainTypes r'.output rest with
    | none => simp [hc] at h
    | some rs' =>
      simp only [hc, Option.map_some, Option.some.injEq, List.cons.injEq] at h
      obtain ⟨rfl, rfl⟩ := h
      refine ⟨?_, hc⟩
      cases n <;> simp only [stepNode] at hs
      · cases hs; rfl
      · cases hs; rfl
      · simp only [Option.map_eq_some_iff] at hs
        obtain ⟨a, _, rfl⟩ := hs
        rfl

/-- REGRESSION WITNESS (former finding C18-edge-remake; `quantizer_lookup` mapped the qtools
    classes QuantizedTanh / QuantizedUlaw / Bernoulli / StochasticBinary to StochasticTernary):
    a `Flatten` after `QActivation(quantized_tanh(4))` now reports the tanh type for its output —
    and so does the input of the layer behind it — and the tanh value `7/8` fits it. -/
theorem C18_edge_remake_fixed_witness :
    let tanh4 : QRec := { tQuantizedBits with name := .quantized_tanh, bits := 4, intBits := 0,
                                              signed := true }
    let src : QRec := { tQuantizedBits with bits := 8, intBits := 0, signed := true }
    ∃ r1 r2, chainTypes src [.qact tanh4, .pass] = some [r1, r2] ∧
      r2.input = tanh4 ∧ r2.output = tanh4 ∧ Val r2.output (7 / 8) ∧
      ¬ Val { tTernary with name := .stochastic_ternary } (7 / 8) := by
  refine ⟨_, _, rfl, rfl, rfl, ?_, ?_⟩
  · show ValFixed 4 0 true (7 / 8)
    exact ⟨7, by decide, by decide, by simp [fixedLsb, b2i, pow2]; norm_num⟩
  · simp [Val, tTernary]
    norm_num

/-! ## C18_estimator_bound: `analyze_accumulator` -/

/-- per output channel: for inputs inside `[xmin, xmax]` the magnitude of the output is at most
    the channel's `max(n1, n0)` — induction over the weight list; any bias, any range (the
    hypothesis `b = 0 ∨ xmax ≥ 1` of the recorded state is gone with the repair
    "analyze_accumulator adds the bias after scaling by the input range"). -/
theorem C18_estimator_bound (ws xs : List ℚ) (b xmin xmax : ℚ)
    (hx : ∀ x ∈ xs, xmin ≤ x ∧ x ≤ xmax) :
    |dot ws xs + b| ≤ chanBound ws b xmin xmax := by
  have hP := posPart_nonneg xmax
  have hM := negPart_nonpos xmin
  have hd := dot_bounds ws xs hP hM
    (fun x h => ⟨le_trans (negPart_le xmin) (hx x h).1, le_trans (hx x h).2 (le_posPart xmax)⟩)
  have h1 : dot ws xs + b ≤ estN1 ws b xmin xmax := by
    unfold estN1 estNpp estNnn; linarith [hd.2]
  have h0 : -(dot ws xs + b) ≤ estN0 ws b xmin xmax := by
    unfold estN0 estNpp estNnn; linarith [hd.1]
  show |dot ws xs + b| ≤ if estN0 ws b xmin xmax < estN1 ws b xmin xmax
    then estN1 ws b xmin xmax else estN0 ws b xmin xmax
  rw [abs_le]
  split <;> constructor <;> linarith

/-- every output channel is visited: slice `i` and bias element `i` form an entry of the loop -/
theorem channel_mem (slices : List (List ℚ)) (bias : List ℚ) (h : slices.length ≤ bias.length)
    (i : ℕ) (hi : i < slices.length) :
    ∃ b, bias[i]? = some b ∧ (slices[i], b) ∈ channels slices bias := by
  have hb : i < bias.length := lt_of_lt_of_le hi h
  refine ⟨bias[i], List.getElem?_eq_getElem hb, ?_⟩
  unfold channels
  apply List.mem_of_getElem? (i := i)
  rw [List.getElem?_zip_eq_some]
  exact ⟨List.getElem?_eq_getElem hi, List.getElem?_eq_getElem hb⟩

/-- ALL CHANNELS (replaces the counterexample of finding C18-estimator-loop-bound): whenever
    `analyze_accumulator` returns a size `e` for a layer, EVERY output channel `i` of the kernel
    (dense, conv1d, conv2d: slice `i` of the last axis; depthwise: slice `c·dm + m`) has a bias
    element and satisfies `|Σ wⱼxⱼ + b| ≤ 2^e` for every input patch inside `[xmin, xmax]` — any
    number of channels, any kernel size, any bias, any range. -/
theorem C18_estimator_all_channels (slices : List (List ℚ)) (bias : List ℚ) (xmin xmax : ℚ)
    (e : ℤ) (h : analyzeAccumulator slices bias xmin xmax = .ok e)
    (i : ℕ) (hi : i < slices.length) (xs : List ℚ) (hx : ∀ x ∈ xs, xmin ≤ x ∧ x ≤ xmax) :
    ∃ b, bias[i]? = some b ∧ |dot slices[i] xs + b| ≤ pow2 e := by
  unfold analyzeAccumulator at h
  split at h
  · rename_i hlen
    obtain ⟨b, hb, hmem⟩ := channel_mem slices bias hlen i hi
    refine ⟨b, hb, ?_⟩
    simp only at h
    split at h
    · cases h
    · rename_i hm
      push Not at hm
      injection h with h
      subst h
      have hle : chanBound slices[i] b xmin xmax ≤ listMax ((channels slices bias).map
          fun (p : List ℚ × ℚ) => chanBound p.1 p.2 xmin xmax) :=
        le_listMax (List.mem_map.2 ⟨(slices[i], b), hmem, rfl⟩)
      exact le_trans (C18_estimator_bound slices[i] xs b xmin xmax hx)
        (le_trans hle (le_pow2_ceilLog2Rat hm))
  · cases h

/-- the loop never indexes past the bias vector of a built layer (one bias element per output
    channel), for any kernel shape — the IndexError of finding C18-estimator-loop-bound-raises
    is gone -/
theorem C18_estimator_no_index_error (slices : List (List ℚ)) (bias : List ℚ) (xmin xmax : ℚ)
    (h : slices.length ≤ bias.length) :
    analyzeAccumulator slices bias xmin xmax ≠ .indexError := by
  unfold analyzeAccumulator
  rw [if_pos h]
  simp only
  split <;> simp

/-- the remaining exception: OverflowError (`int(ceil(log2 0))`) is raised only when EVERY output
    channel is identically zero on the whole input range — there is no magnitude to size -/
theorem C18_estimator_overflow_only_zero (slices : List (List ℚ)) (bias : List ℚ)
    (xmin xmax : ℚ) (h : analyzeAccumulator slices bias xmin xmax = .overflowError)
    (i : ℕ) (hi : i < slices.length) (xs : List ℚ) (hx : ∀ x ∈ xs, xmin ≤ x ∧ x ≤ xmax) :
    ∃ b, bias[i]? = some b ∧ dot slices[i] xs + b = 0 := by
  unfold analyzeAccumulator at h
  split at h
  · rename_i hlen
    obtain ⟨b, hb, hmem⟩ := channel_mem slices bias hlen i hi
    refine ⟨b, hb, ?_⟩
    simp only at h
    split at h
    · rename_i hm
      have hle : chanBound slices[i] b xmin xmax ≤ listMax ((channels slices bias).map
          fun (p : List ℚ × ℚ) => chanBound p.1 p.2 xmin xmax) :=
        le_listMax (List.mem_map.2 ⟨(slices[i], b), hmem, rfl⟩)
      have := C18_estimator_bound slices[i] xs b xmin xmax hx
      exact abs_nonpos_iff.1 (le_trans this (le_trans hle hm))
    · cases h
  · cases h

/-- REGRESSION WITNESS (former findings C18-estimator-loop-bound / -raises; the loop ran over
    `range(k.shape[1])`, the kernel WIDTH of a rank-4 kernel): a `2×3` kernel with 5 filters, all
    five slices visited now.
    * only filter 4 non-zero (all weights 1/2), inputs in [−1, 1]: was OverflowError, is
      `ceil(log2 3) = 2`;
    * filter 0 additionally 1/8: was 0 (outputs "≤ 2^0") although filter 4 outputs
      `6 · 1/2 · 1 = 3` on the all-ones patch; is 2, and `3 ≤ 2^2`. -/
theorem C18_estimator_loop_bound_fixed_witness :
    let z : List ℚ := [0, 0, 0, 0, 0, 0]
    let f4 : List ℚ := [1/2, 1/2, 1/2, 1/2, 1/2, 1/2]
    let f0 : List ℚ := [1/8, 1/8, 1/8, 1/8, 1/8, 1/8]
    let ones : List ℚ := [1, 1, 1, 1, 1, 1]
    analyzeAccumulator [z, z, z, z, f4] [0, 0, 0, 0, 0] (-1) 1 = .ok 2 ∧
    analyzeAccumulator [f0, z, z, z, f4] [0, 0, 0, 0, 0] (-1) 1 = .ok 2 ∧
    (∀ x ∈ ones, (-1 : ℚ) ≤ x ∧ x ≤ 1) ∧ ¬ (|dot f4 ones + 0| ≤ pow2 0) ∧
    |dot f4 ones + 0| ≤ pow2 2 := by
  refine ⟨by decide +kernel, by decide +kernel, ?_, ?_, ?_⟩
  · intro x hx; simp at hx; subst hx; norm_num
  · simp [dot, pow2]; norm_num
  · simp [dot, pow2]; norm_num

/-- REGRESSION WITNESS (former depthwise counterexample; the loop indexed the depth-multiplier
    axis with the kernel-width index: IndexError as soon as `kw > 1`): a depthwise kernel
    `(2, 2, 1, 1)` is one output channel with the four weights; a kernel `(1, 2, 2, 2)`
    (2 input channels, depth multiplier 2) is four output channels `c·2 + m`, each with its own
    bias element. -/
theorem C18_estimator_depthwise_fixed_witness :
    analyzeAccumulator [[1/2, 1/2, 1/2, 1/2]] [0] (-1) 1 = .ok 1 ∧
    analyzeAccumulator [[1/2, 1/2], [1/4, 0], [1, 1], [0, -1/2]] [0, 0, 1/2, 3] (-1) 1 = .ok 2 := by
  refine ⟨by decide +kernel, by decide +kernel⟩

/-- REGRESSION WITNESS (former finding C18-estimator-bias-scaled; the bias was multiplied by the
    input range): one weight 1/2, bias 1/2, inputs in [−1/2, 1/2]: the estimate was −1 (outputs
    "≤ 1/2") although the input 1/2 gives `1/2·1/2 + 1/2 = 3/4`; it is `ceil(log2 3/4) = 0`. -/
theorem C18_estimator_bias_fixed_witness :
    analyzeAccumulator [[1/2]] [1/2] (-1/2) (1/2) = .ok 0 ∧
    ¬ (|dot [1/2] [1/2] + 1/2| ≤ pow2 (-1)) ∧ |dot [1/2] [1/2] + 1/2| ≤ pow2 0 := by
  refine ⟨by decide +kernel, ?_, ?_⟩
  · simp [dot, pow2]; norm_num
  · simp [dot, pow2]; norm_num

/-! ## padded layers × stated ranges that exclude zero (strengthening round, seed C18-10)

`padding="same"` / `"causal"` make the border output positions read padded zeros; strides and
dilation only choose WHICH input elements a position reads.  A patch is therefore any list whose
entries are in the stated range or zero (`PaddedPatch`).  The estimator stays an upper bound for
all of them — because it clamps the range to contain zero — and the clamp cannot be dropped. -/

/-- per output channel, ANY layer geometry: for a patch whose taps read inputs inside
    `[xmin, xmax]` or padded zeros, `|Σ wⱼxⱼ + b| ≤ max(n1, n0)` — every bias, every range (also
    ranges that exclude zero, degenerate points, `xmin > xmax` vacuous for unpadded taps) -/
theorem C18_estimator_bound_padded (ws xs : List ℚ) (b xmin xmax : ℚ)
    (hx : PaddedPatch xs xmin xmax) :
    |dot ws xs + b| ≤ chanBound ws b xmin xmax := by
  have hP := posPart_nonneg xmax
  have hM := negPart_nonpos xmin
  have hd := dot_bounds ws xs hP hM (fun x h => by
    rcases hx x h with ⟨h1, h2⟩ | h0
    · exact ⟨le_trans (negPart_le xmin) h1, le_trans h2 (le_posPart xmax)⟩
    · subst h0; exact ⟨hM, hP⟩)
  have h1 : dot ws xs + b ≤ estN1 ws b xmin xmax := by
    unfold estN1 estNpp estNnn; linarith [hd.2]
  have h0 : -(dot ws xs + b) ≤ estN0 ws b xmin xmax := by
    unfold estN0 estNpp estNnn; linarith [hd.1]
  show |dot ws xs + b| ≤ if estN0 ws b xmin xmax < estN1 ws b xmin xmax
    then estN1 ws b xmin xmax else estN0 ws b xmin xmax
  rw [abs_le]
  split <;> constructor <;> linarith

/-- ALL CHANNELS, ALL OUTPUT POSITIONS of a padded / strided / dilated layer: whenever
    `analyze_accumulator` returns `e`, every output channel `i` satisfies `|Σ wⱼxⱼ + b| ≤ 2^e` on
    every patch of in-range inputs and padded zeros -/
theorem C18_estimator_all_channels_padded (slices : List (List ℚ)) (bias : List ℚ)
    (xmin xmax : ℚ) (e : ℤ) (h : analyzeAccumulator slices bias xmin xmax = .ok e)
    (i : ℕ) (hi : i < slices.length) (xs : List ℚ) (hx : PaddedPatch xs xmin xmax) :
    ∃ b, bias[i]? = some b ∧ |dot slices[i] xs + b| ≤ pow2 e := by
  unfold analyzeAccumulator at h
  split at h
  · rename_i hlen
    obtain ⟨b, hb, hmem⟩ := channel_mem slices bias hlen i hi
    refine ⟨b, hb, ?_⟩
    simp only at h
    split at h
    · cases h
    · rename_i hm
      push Not at hm
      injection h with h
      subst h
      have hle : chanBound slices[i] b xmin xmax ≤ listMax ((channels slices bias).map
          fun (p : List ℚ × ℚ) => chanBound p.1 p.2 xmin xmax) :=
        le_listMax (List.mem_map.2 ⟨(slices[i], b), hmem, rfl⟩)
      exact le_trans (C18_estimator_bound_padded slices[i] xs b xmin xmax hx)
        (le_trans hle (le_pow2_ceilLog2Rat hm))
  · cases h

/-- an unpadded patch is a padded patch: the earlier statements are the special case -/
theorem C18_estimator_unpadded_is_padded (xs : List ℚ) (xmin xmax : ℚ)
    (hx : ∀ x ∈ xs, xmin ≤ x ∧ x ≤ xmax) : PaddedPatch xs xmin xmax :=
  fun x h => Or.inl (hx x h)

/-- for a stated range that contains or touches zero the clamp changes nothing: the code's
    per-channel bound IS the endpoint formula (so a change of the range terms can only show on
    ranges that exclude zero) -/
theorem C18_estimator_clamp_noop_zero_in_range (ws : List ℚ) (b xmin xmax : ℚ)
    (h0 : xmin ≤ 0) (h1 : 0 ≤ xmax) :
    chanBound ws b xmin xmax = chanBoundEndpoint ws b xmin xmax := by
  have hp : posPart xmax = xmax := by
    unfold posPart; split
    · rfl
    · linarith
  have hn : negPart xmin = xmin := by
    unfold negPart; split
    · rfl
    · linarith
  unfold chanBound chanBoundEndpoint estN1 estN0 estN1Endpoint estN0Endpoint
  rw [hp, hn]

/-- the endpoint formula is sound when NO tap reads a padded zero (dense layers, `"valid"`
    convolutions with any strides / dilation): every tap on a real input inside `[xmin, xmax]` -/
theorem C18_estimator_endpoint_bound_unpadded (ws xs : List ℚ) (b xmin xmax : ℚ)
    (hlen : ws.length ≤ xs.length) (hx : ∀ x ∈ xs, xmin ≤ x ∧ x ≤ xmax) :
    |dot ws xs + b| ≤ chanBoundEndpoint ws b xmin xmax := by
  have hd := dot_bounds_endpoint ws xs hlen hx
  have h1 : dot ws xs + b ≤ estN1Endpoint ws b xmin xmax := by
    unfold estN1Endpoint estNpp estNnn; linarith [hd.2]
  have h0 : -(dot ws xs + b) ≤ estN0Endpoint ws b xmin xmax := by
    unfold estN0Endpoint estNpp estNnn; linarith [hd.1]
  show |dot ws xs + b| ≤ if estN0Endpoint ws b xmin xmax < estN1Endpoint ws b xmin xmax
    then estN1Endpoint ws b xmin xmax else estN0Endpoint ws b xmin xmax
  rw [abs_le]
  split <;> constructor <;> linarith

/-- ... and UNSOUND as soon as a tap can read a padded zero (seed C18-10): a `3×3` kernel whose
    first row is −1/2 and whose other taps are +1/2, stated range `[1, 1]` (an all-max sample).
    The top border position of a `padding="same"` layer reads zeros under the first row: its
    output is `6 · 1/2 = 3`.  The endpoint formula credits the negative row with `−3/2` of
    cancellation: bound `3/2`, size `ceil(log2 3/2) = 1`, and `3 > 2^1`.  The code (clamped
    range) returns 2, and `3 ≤ 2^2`.  Same for the mirrored kernel on `[−1, −1]`. -/
theorem C18_estimator_endpoint_padded_counterexample :
    let ws : List ℚ := [-1/2, -1/2, -1/2, 1/2, 1/2, 1/2, 1/2, 1/2, 1/2]
    let border : List ℚ := [0, 0, 0, 1, 1, 1, 1, 1, 1]
    PaddedPatch border 1 1 ∧
    chanBoundEndpoint ws 0 1 1 = 3 / 2 ∧ ceilLog2Rat (3 / 2) = 1 ∧
    ¬ (|dot ws border + 0| ≤ pow2 1) ∧
    analyzeAccumulator [ws] [0] 1 1 = .ok 2 ∧ |dot ws border + 0| ≤ pow2 2 ∧
    chanBoundEndpoint (ws.map (-·)) 0 (-1) (-1) = 3 / 2 ∧
    ¬ (|dot (ws.map (-·)) (border.map (-·)) + 0| ≤ pow2 1) := by
  refine ⟨?_, by decide +kernel, by decide +kernel, ?_, by decide +kernel, ?_, by decide +kernel, ?_⟩
  · intro x hx
    simp at hx
    rcases hx with rfl | rfl
    · right; rfl
    · left; constructor <;> norm_num
  · simp [dot, pow2]; norm_num
  · simp [dot, pow2]; norm_num
  · simp [dot, pow2]; norm_num

/-! ### the route `analyze_accumulator_from_sample` (stated range derived from a sample) -/

/-- the derived range covers every element of every sample, whatever the number of quantized
    layers (since fix round R also for a single one) -/
theorem C18_from_sample_range_covers (single : Bool) (samples : List (List ℚ)) (s : List ℚ)
    (hs : s ∈ samples) (x : ℚ) (hx : x ∈ s) :
    (fromSampleRange single samples).1 ≤ x ∧ x ≤ (fromSampleRange single samples).2 := by
  have hmem : x ∈ samples.flatten := List.mem_flatten.2 ⟨s, hs, hx⟩
  exact ⟨listMin_le hmem, le_listMax hmem⟩

/-- FULL (any number of quantized layers; the hypothesis "two or more" of the former
    `C18_from_sample_partial` is gone since fix round R): whenever the function returns `e`, every
    output channel is bounded by `2^e` on every patch made of sample elements and padded zeros —
    in particular on every sample of the batch itself, whatever the padding -/
theorem C18_from_sample (single : Bool) (samples : List (List ℚ)) (slices : List (List ℚ))
    (bias : List ℚ) (e : ℤ) (h : analyzeFromSample single samples slices bias = .ok e)
    (i : ℕ) (hi : i < slices.length) (xs : List ℚ)
    (hx : ∀ x ∈ xs, x ∈ samples.flatten ∨ x = 0) :
    ∃ b, bias[i]? = some b ∧ |dot slices[i] xs + b| ≤ pow2 e := by
  refine C18_estimator_all_channels_padded slices bias _ _ e h i hi xs ?_
  intro x hxm
  rcases hx x hxm with hmem | h0
  · exact Or.inl ⟨listMin_le hmem, le_listMax hmem⟩
  · exact Or.inr h0

/-- the number of quantized layers in the model does not enter the size of a layer -/
theorem C18_from_sample_single_irrelevant (samples : List (List ℚ)) (slices : List (List ℚ))
    (bias : List ℚ) :
    analyzeFromSample true samples slices bias = analyzeFromSample false samples slices bias := rfl

/-- REGRESSION WITNESS (repaired finding C18-from-sample-single-layer): one quantized layer with
    the single weight 1, sample batch `[[1/4], [1]]`.  Before the repair the derived range was that
    of the FIRST sample, `[1/4, 1/4]`, the size `ceil(log2 1/4) = −2`, and the second sample of the
    very batch gave the output 1 > 2^−2.  Now the range is `[1/4, 1]`, the size 0, and both samples
    fit — exactly as for the same layer beside a second quantized layer. -/
theorem C18_from_sample_single_layer_fixed_witness :
    fromSampleRange true [[1/4], [1]] = (1/4, 1) ∧
    analyzeFromSample true [[1/4], [1]] [[1]] [0] = .ok 0 ∧
    |dot [1] [1] + 0| ≤ pow2 0 ∧ |dot [1] [1/4] + 0| ≤ pow2 0 ∧
    ¬ (|dot [1] [1] + 0| ≤ pow2 (-2)) ∧
    analyzeFromSample false [[1/4], [1]] [[1]] [0] = .ok 0 := by
  refine ⟨by decide +kernel, by decide +kernel, ?_, ?_, ?_, by decide +kernel⟩
  · simp [dot, pow2]
  · simp [dot, pow2]; norm_num
  · simp [dot, pow2]; norm_num

/-! ## alias class names (strengthening round, seed C18-5)

qtools picks the multiplier CELL from the operands' `mode`, but inside Mux / AndGate / Adder it
decides which operand is the 1–2 bit "select" operand — and therefore whose bits the product
takes — by substring tests on the record's `name`.  `stochastic_ternary`, `stochastic_binary`
(and `bernoulli` for `binary(use_01=True)`) are registered quantizer classes that share a mode
and a value set with the plain spelling; the reported widths must not depend on the spelling. -/

/-- a weight record that differs from `w` in its class name only, with the same answers to the
    three substring tests (`"binary" in name`, `"ternary" in name`, `"po2" in name`), gets the
    same multiplier, kernel accumulator, accumulator and fused accumulator — every layer kind,
    input type, bias, kernel shape and auto_po2 shift -/
theorem C18_alias_invariance (kind : LayerKind) (x w : QRec) (n : QName) (b : Option QRec)
    (shape : List ℕ) (ap : Option (ℤ × ℤ))
    (hb : n.hasBinary = w.name.hasBinary) (ht : n.hasTernary = w.name.hasTernary)
    (hp : n.hasPo2 = w.name.hasPo2) :
    layerTypes kind x { w with name := n } b shape ap =
      (layerTypes kind x w b shape ap).map fun lt => { lt with weight := { w with name := n } } :=
  layerTypes_congr_weight kind x w _ b shape ap (makeMultiplier_rename w x n hb ht hp)

/-- the three alias kernel classes get exactly the types of the plain spelling: a
    `stochastic_ternary` kernel those of `ternary`, `stochastic_binary` those of `binary`,
    `bernoulli` those of `binary(use_01=True)` — for EVERY input type (also a mode the table
    does not know: both sides are then `none`) -/
theorem C18_stochastic_kernel_types (kind : LayerKind) (x : QRec) (b : Option QRec)
    (shape : List ℕ) (ap : Option (ℤ × ℤ)) :
    (layerTypes kind x { tTernary with name := .stochastic_ternary } b shape ap =
      (layerTypes kind x tTernary b shape ap).map fun lt =>
        { lt with weight := { tTernary with name := .stochastic_ternary } }) ∧
    (layerTypes kind x { tBinary false with name := .stochastic_binary } b shape ap =
      (layerTypes kind x (tBinary false) b shape ap).map fun lt =>
        { lt with weight := { tBinary false with name := .stochastic_binary } }) ∧
    (layerTypes kind x { tBinary true with name := .bernoulli } b shape ap =
      (layerTypes kind x (tBinary true) b shape ap).map fun lt =>
        { lt with weight := { tBinary true with name := .bernoulli } }) :=
  ⟨C18_alias_invariance kind x tTernary .stochastic_ternary b shape ap rfl rfl rfl,
   C18_alias_invariance kind x (tBinary false) .stochastic_binary b shape ap rfl rfl rfl,
   layerTypes_congr_weight kind x (tBinary true) _ b shape ap
     (makeMultiplier_rename_mode4 (tBinary true) x .bernoulli rfl rfl)⟩

/-- the records the factory makes for the alias classes are covered operands of
    `C18_preactivation`, as kernels and as inputs, against every fixed-point partner -/
theorem C18_covered_alias (q : QRec) (hq : WFfixed q) :
    (∃ r, ofQuantizer { cls := "stochastic_ternary" } = some r ∧ Covered r q ∧ Covered q r) ∧
    (∃ r, ofQuantizer { cls := "stochastic_binary" } = some r ∧ Covered r q ∧ Covered q r) ∧
    (∃ r, ofQuantizer { cls := "bernoulli" } = some r ∧ Covered r q ∧ Covered q r) := by
  refine ⟨⟨_, rfl, ?_, ?_⟩, ⟨_, rfl, ?_, ?_⟩, ⟨_, rfl, ?_, ?_⟩⟩
  · exact .uf (Or.inl ⟨rfl, rfl, rfl, rfl⟩) hq
  · exact .fu hq (Or.inl ⟨rfl, rfl, rfl, rfl⟩)
  · exact .uf (Or.inr ⟨rfl, rfl, rfl, rfl, rfl⟩) hq
  · exact .fu hq (Or.inr ⟨rfl, rfl, rfl, rfl, rfl⟩)
  · exact .bf ⟨rfl, rfl, rfl, rfl, rfl⟩ hq
  · exact .fb hq ⟨rfl, rfl, rfl, rfl, rfl⟩

/-- WITNESS (the configuration of seed C18-5): a `stochastic_ternary` kernel on
    `quantized_bits(6,2)` inputs, 8 terms, no bias: the product takes the INPUT's `(6, 2)`,
    the accumulator is `(9, 5, signed)` with step `1/8` and holds `−3.75`; the kernel's own
    `(2, 2)` would give a `(5, 5)` accumulator with step 2. -/
theorem C18_stochastic_kernel_witness :
    let w : QRec := { tTernary with name := .stochastic_ternary }
    let x : QRec := { tQuantizedBits with bits := 6, intBits := 2, signed := true }
    ∃ lt, layerTypes .dense x w none [8, 3] = some lt ∧
      lt.multiplier = { tQuantizedBits with bits := 6, intBits := 2, signed := true } ∧
      lt.accumulator = { tQuantizedBits with bits := 9, intBits := 5, signed := true } ∧
      Val lt.accumulator (-15 / 4) ∧ ¬ ValFixed 5 5 true (-15 / 4) := by
  refine ⟨_, rfl, by decide, by decide, ?_, ?_⟩
  · show ValFixed 9 5 true (-15 / 4)
    exact ⟨-30, by decide, by decide, by simp [fixedLsb, b2i, pow2]; norm_num⟩
  · rw [valFixed_iff (by decide)]
    rintro ⟨⟨k, hk⟩, _, _⟩
    simp [fixedLsb, b2i, pow2] at hk
    have h2 : ((k * 2 : ℤ) : ℚ) = ((-15 : ℤ) : ℚ) / 4 := by push_cast; linarith
    have h3 : ((k * 8 : ℤ) : ℚ) = ((-15 : ℤ) : ℚ) := by push_cast; push_cast at h2; linarith
    have := Int.cast_injective h3
    omega

/-! ## unit-type BIAS quantizers (finding C18-unit-bias-intbits) -/

/-- COUNTEREXAMPLE: a `binary` (±1) bias on a `ternary` kernel with `quantized_bits(2,2)` inputs
    (values −4, −2, 0, 2): kernel accumulator `(2, 2, signed)`, the bias record `(1, 1, signed)`
    is read by the FixedPointAdder as a type with −1 fraction bits, so the reported accumulator
    `(3, 3, signed)` has step 2 — weight 1, input 2, bias −1 are values of their reported types,
    the pre-activation `1` is not a value of the accumulator.  `BiasOK` therefore does not
    include ternary / ±1 bias records. -/
theorem C18_preactivation_unit_bias_counterexample :
    let w : QRec := tTernary
    let x : QRec := { tQuantizedBits with bits := 2, intBits := 2, signed := true }
    let bq : QRec := tBinary false
    Val w 1 ∧ Val x 2 ∧ Val bq (-1) ∧
    ∃ lt, layerTypes .dense x w (some bq) [1, 1] = some lt ∧
      lt.accumulator = { tQuantizedBits with bits := 3, intBits := 3, signed := true } ∧
      ¬ Val lt.accumulator (dot [1] [2] + -1) := by
  refine ⟨by simp [Val, tTernary], ⟨1, by decide, by decide, by simp [fixedLsb, b2i, tQuantizedBits, pow2]⟩,
    by simp [Val, tBinary], _, rfl, by decide, not_val_of_eq
      (q' := { tQuantizedBits with bits := 3, intBits := 3, signed := true }) (by decide) ?_⟩
  simp only [Val, tQuantizedBits]
  rw [valFixed_iff (by decide)]
  rintro ⟨⟨k, hk⟩, _, _⟩
  simp [dot, fixedLsb, b2i, pow2] at hk
  have h2 : ((k * 2 : ℤ) : ℚ) = ((1 : ℤ) : ℚ) := by push_cast; linarith
  have := Int.cast_injective h2
  omega

/-! ## the `is_inference=True` route (strengthening round, seed C18-6) -/

/-- the inference block changes no record: `update_inference_values` only counts values -/
theorem C18_inference_types_unchanged (w : QRec) (b : Option QRec) (c : InfConsts) (r : InfLayer)
    (h : inferenceBlock w b c = .ok r) : r.w = w ∧ r.b = b := by
  unfold inferenceBlock at h
  cases b with
  | some bq =>
    simp only at h
    injection h with h; subst h
    refine ⟨?_, ?_⟩
    · show (if w.isPo2 then updateInferenceValues w c.wv else (w, -1)).1 = w
      split <;> rfl
    · show some (if bq.isPo2 then updateInferenceValues bq c.bv else (bq, -1)).1 = some bq
      split <;> rfl
  | none =>
    simp only at h
    have hw : (if w.isPo2 then updateInferenceValues w c.wv else (w, -1)).1 = w := by split <;> rfl
    injection h with h; subst h; exact ⟨hw, rfl⟩

theorem inferNode_fst (n : Node) (c : InfConsts) (n' : Node) (wc bc : ℤ)
    (h : inferNode n c = .ok (n', wc, bc)) : n' = n := by
  cases n with
  | qact q => simp only [inferNode] at h; injection h with h; exact (Prod.mk.inj h).1.symm
  | pass => simp only [inferNode] at h; injection h with h; exact (Prod.mk.inj h).1.symm
  | layer kind w b shape act ap =>
    simp only [inferNode] at h
    cases hb : inferenceBlock w b c with
    | indexError => simp only [hb] at h; cases h
    | ok r =>
      simp only [hb] at h
      injection h with h
      obtain ⟨rfl, rfl⟩ := C18_inference_types_unchanged w b c r hb
      exact (Prod.mk.inj h).1.symm

theorem inferChain_fst (nodes : List (Node × InfConsts)) (ns : List Node) (cs : List (ℤ × ℤ))
    (h : inferChain nodes = .ok (ns, cs)) : ns = nodes.map (·.1) := by
  induction nodes generalizing ns cs with
  | nil => simp only [inferChain] at h; injection h with h; simp [(Prod.mk.inj h).1.symm]
  | cons p rest ih =>
    obtain ⟨n, c⟩ := p
    simp only [inferChain] at h
    cases hn : inferNode n c with
    | indexError => simp only [hn] at h; cases h
    | ok t =>
      obtain ⟨n', wc, bc⟩ := t
      simp only [hn] at h
      cases hr : inferChain rest with
      | indexError => simp only [hr] at h; cases h
      | ok q =>
        obtain ⟨ns', cs'⟩ := q
        simp only [hr] at h
        injection h with h
        have h1 := (Prod.mk.inj h).1
        rw [← h1, inferNode_fst n c n' wc bc hn, ih ns' cs' hr]
        rfl

/-- SAME REPORTS: whenever `QTools(..., is_inference=True)` produces a map for a chain, it is
    the map of `is_inference=False` — every record of every node; so `C18_preactivation`,
    `C18_preactivation_autopo2`, `C18_chain_input`, … speak about the inference route as well -/
theorem C18_inference_same_reports (src : QRec) (nodes : List (Node × InfConsts))
    (rs : Option (List NodeReport)) (cs : List (ℤ × ℤ))
    (h : chainTypesInf src nodes = .ok (rs, cs)) : rs = chainTypes src (nodes.map (·.1)) := by
  unfold chainTypesInf at h
  cases hc : inferChain nodes with
  | indexError => simp only [hc] at h; cases h
  | ok q =>
    obtain ⟨ns, cs'⟩ := q
    simp only [hc] at h
    injection h with h
    rw [← (Prod.mk.inj h).1, inferChain_fst nodes ns cs' hc]

/-- the clause of the property on this route: every constant handed to the block (kernel and
    bias) that is a value of the quantizer's record is a value of the record REPORTED after the
    block — for every record, every list of constants -/
theorem C18_inference_constants_fit (w : QRec) (b : Option QRec) (c : InfConsts) (r : InfLayer)
    (h : inferenceBlock w b c = .ok r) :
    (∀ v ∈ c.wv, Val w v → Val r.w v) ∧
    (∀ bq rb, b = some bq → r.b = some rb → ∀ v ∈ c.bv, Val bq v → Val rb v) := by
  obtain ⟨hw, hb⟩ := C18_inference_types_unchanged w b c r h
  refine ⟨fun v _ hv => hw ▸ hv, fun bq rb h1 h2 v _ hv => ?_⟩
  rw [hb, h1] at h2
  injection h2 with h2
  exact h2 ▸ hv

/-- `C18_preactivation` on the inference route: the types the block leaves behind report an
    accumulator that holds every pre-activation -/
theorem C18_preactivation_inference (kind : LayerKind) (x w : QRec) (b : Option QRec)
    (shape : List ℕ) (c : InfConsts) (r : InfLayer) (h : inferenceBlock w b c = .ok r)
    (hc : Covered w x) (ws xs : List ℚ) (bv : ℚ)
    (hws : ∀ v ∈ ws, Val w v) (hxs : ∀ v ∈ xs, Val x v) (hb : BiasOK b bv)
    (hex : ∀ p ∈ ws.zip xs, ¬ Exceptional w x p.1 p.2)
    (hn : min ws.length xs.length ≤ kernelTerms (accShape kind shape)) :
    ∃ lt, layerTypes kind x r.w r.b shape = some lt ∧ Val lt.accumulator (dot ws xs + bv) := by
  obtain ⟨hw, hb'⟩ := C18_inference_types_unchanged w b c r h
  rw [hw, hb']
  obtain ⟨lt, h1, h2, _⟩ := C18_preactivation kind x w b shape hc ws xs bv hws hxs hb hex hn
  exact ⟨lt, h1, h2⟩

/-- `inference_value_counts`: written for po2 records only (`-1` otherwise), and then it is the
    number of DISTINCT constants — a duplicate-free list with the same members as the tensor,
    at least 1 and at most the tensor size -/
theorem C18_inference_counts (w : QRec) (b : Option QRec) (c : InfConsts) (r : InfLayer)
    (h : inferenceBlock w b c = .ok r) :
    (w.isPo2 = false → r.wCounts = -1) ∧
    (w.isPo2 = true → r.wCounts = ((distinctVals c.wv).length : ℤ) ∧ (distinctVals c.wv).Nodup ∧
      (∀ v, v ∈ distinctVals c.wv ↔ v ∈ c.wv) ∧ (distinctVals c.wv).length ≤ c.wv.length ∧
      (c.wv ≠ [] → 0 < (distinctVals c.wv).length)) := by
  have hwc : r.wCounts = (if w.isPo2 then updateInferenceValues w c.wv else (w, -1)).2 := by
    unfold inferenceBlock at h
    cases b with
    | some bq => simp only at h; injection h with h; subst h; rfl
    | none => simp only at h; injection h with h; subst h; rfl
  refine ⟨fun hp => ?_, fun hp => ⟨?_, nodup_distinctVals _, mem_distinctVals _, length_distinctVals_le _,
    distinctVals_pos⟩⟩
  · rw [hwc, hp]; rfl
  · rw [hwc, hp]; rfl

/-- NO IndexError (full; was `C18_inference_no_index_error_partial` with the hypothesis "a bias
    weight, or no po2 quantizer left in the unused bias slot" until the repair of
    C18-inference-unused-po2-bias): the block succeeds for every layer, every record, every list of
    constants, whatever quantizer sits in the bias slot of a layer built with `use_bias=False` -/
theorem C18_inference_no_index_error (w : QRec) (b : Option QRec) (c : InfConsts) :
    inferenceBlock w b c ≠ .indexError := by
  unfold inferenceBlock
  cases b <;> simp

/-- … hence for every chain: `QTools(..., is_inference=True)` produces a map whenever
    `is_inference=False` does, and it is the same map (`C18_inference_same_reports`) -/
theorem C18_inference_chain_total (src : QRec) (nodes : List (Node × InfConsts)) :
    ∃ cs, chainTypesInf src nodes = .ok (chainTypes src (nodes.map (·.1)), cs) := by
  have hnode : ∀ (n : Node) (c : InfConsts), ∃ wc bc, inferNode n c = .ok (n, wc, bc) := by
    intro n c
    cases n with
    | qact q => exact ⟨-1, -1, rfl⟩
    | pass => exact ⟨-1, -1, rfl⟩
    | layer kind w b shape act ap =>
      cases hb : inferenceBlock w b c with
      | indexError => exact absurd hb (C18_inference_no_index_error w b c)
      | ok r =>
        obtain ⟨h1, h2⟩ := C18_inference_types_unchanged w b c r hb
        refine ⟨r.wCounts, r.bCounts, ?_⟩
        simp only [inferNode, hb, h1, h2]
  have hchain : ∃ cs, inferChain nodes = .ok (nodes.map (·.1), cs) := by
    induction nodes with
    | nil => exact ⟨[], rfl⟩
    | cons p rest ih =>
      obtain ⟨n, c⟩ := p
      obtain ⟨wc, bc, hn⟩ := hnode n c
      obtain ⟨cs, hr⟩ := ih
      exact ⟨(wc, bc) :: cs, by simp only [inferChain, hn, hr, List.map_cons]⟩
  obtain ⟨cs, hc⟩ := hchain
  exact ⟨cs, by simp only [chainTypesInf, hc]⟩

/-- the record left in the unused bias slot is irrelevant to the block -/
theorem C18_inference_unused_bias_irrelevant (w : QRec) (c : InfConsts) (u : Option QRec) :
    inferenceBlock w none { c with unusedBias := u } = inferenceBlock w none c := rfl

/-- REGRESSION WITNESS (former finding C18-inference-unused-po2-bias, repaired): `QDense(3,
    use_bias=False, kernel_quantizer=quantized_bits(4,0), bias_quantizer=quantized_po2(3))`: the
    block used to test `bias_quantizer.is_po2` before the layer's `use_bias` was consulted and
    indexed `weights[1]` of a one-element list — `QTools(..., is_inference=True)` raised IndexError
    and reported nothing (`inferenceBlock … = .indexError`).  Now the block leaves the kernel record,
    no bias record and no counts, and the inference route reports what `is_inference=False` does. -/
theorem C18_inference_unused_po2_bias_fixed_witness :
    let w : QRec := { tQuantizedBits with bits := 4, intBits := 0, signed := true }
    let u : QRec := { tPowerOfTwo with bits := 3, intBits := 3, signed := true }
    let x : QRec := { tQuantizedBits with bits := 4, intBits := 1, signed := true }
    ofQuantizer { cls := "quantized_po2", bits := 3 } = some u ∧ u.isPo2 = true ∧
    (∃ r, inferenceBlock w none { wv := [1/2, -1/4], bv := [], unusedBias := some u } = .ok r ∧
      r.w = w ∧ r.b = none ∧ r.wCounts = -1 ∧ r.bCounts = -1) ∧
    (∃ cs, chainTypesInf x [(.layer .dense w none [2, 1] none none,
      { wv := [1/2, -1/4], bv := [], unusedBias := some u })] =
        .ok (chainTypes x [.layer .dense w none [2, 1] none none], cs)) ∧
    (chainTypes x [.layer .dense w none [2, 1] none none]).isSome = true := by
  refine ⟨rfl, rfl, ⟨_, rfl, rfl, rfl, rfl, rfl⟩, ?_, by decide⟩
  exact C18_inference_chain_total _ _

/-- SOUND TIGHTENING (what an implementation of the TODO "update the quantizer type with min and
    max of the constant values" may write): capping a po2 record's `max_val_po2` at ANY positive
    `m` keeps every value whose MAGNITUDE is at most `m` — all bit widths, all previous caps.
    So the cap must bound `max |weights|`. -/
theorem C18_inference_cap_sound (q : QRec) (m : ℚ) (hm : 0 < m) (v : ℚ) (hv : ValPo2 q v)
    (hle : |v| ≤ m) : ValPo2 (capPo2 q m) v := by
  obtain ⟨e, h1, h2, h3⟩ := hv
  have habs : |v| = pow2 e := by
    have hp := pow2_pos e
    rcases h3 with rfl | ⟨_, rfl⟩
    · exact abs_of_pos hp
    · rw [abs_neg]; exact abs_of_pos hp
  have he : e ≤ ceilLog2Rat m := le_ceilLog2Rat_of_pow2_le hm (habs ▸ hle)
  have hraw := po2MaxExpRaw_le q
  refine ⟨e, h1, ?_, ?_⟩
  · show e ≤ po2MaxExpRaw (capPo2 q m)
    have : po2MaxExpRaw (capPo2 q m) = imin (ceilLog2Rat m) (po2Half q - 1) := by
      show (if m ≤ 0 then 0 else imin (ceilLog2Rat m) (po2Half (capPo2 q m) - 1)) = _
      rw [if_neg (not_le.2 hm)]; rfl
    rw [this, imin_eq_min]
    exact le_min he (le_trans h2 hraw)
  · exact h3

/-- COUNTEREXAMPLE TO THE SIGNED MAXIMUM (the mutation of seed C18-6): the constants
    `−4, 1, 1/2, −1/4` are values of `quantized_po2(4)`; their largest SIGNED entry is `1`;
    the record capped at 1 does not contain `−4` any more (while the cap `max |w| = 4` keeps
    all four, by `C18_inference_cap_sound`). -/
theorem C18_inference_cap_signed_max_counterexample :
    let q : QRec := { tPowerOfTwo with bits := 4, intBits := 4, signed := true }
    let ws : List ℚ := [-4, 1, 1/2, -1/4]
    (∀ v ∈ ws, ValPo2 q v) ∧ listMax ws = 1 ∧ ¬ ValPo2 (capPo2 q 1) (-4) ∧
    (∀ v ∈ ws, ValPo2 (capPo2 q 4) v) := by
  intro q ws
  have hall : ∀ v ∈ ws, ValPo2 q v := by
    intro v hv
    simp only [ws, List.mem_cons, List.not_mem_nil, or_false] at hv
    rcases hv with rfl | rfl | rfl | rfl
    · exact ⟨2, by decide, by decide, Or.inr ⟨rfl, by rw [pow2_eq_zpow]; norm_num⟩⟩
    · exact ⟨0, by decide, by decide, Or.inl (by rw [pow2_eq_zpow]; norm_num)⟩
    · exact ⟨-1, by decide, by decide, Or.inl (by rw [pow2_eq_zpow]; norm_num)⟩
    · exact ⟨-2, by decide, by decide, Or.inr ⟨rfl, by rw [pow2_eq_zpow]; norm_num⟩⟩
  refine ⟨hall, by decide +kernel, ?_, fun v hv => C18_inference_cap_sound q 4 (by norm_num) v (hall v hv) ?_⟩
  · rintro ⟨e, _, h2, h3⟩
    have hcap : po2MaxExpRaw (capPo2 q 1) = 0 := by decide +kernel
    rw [hcap] at h2
    rcases h3 with h3 | ⟨_, h3⟩
    · have := pow2_pos e; linarith
    · have h4 : pow2 e = pow2 2 := by
        have : pow2 2 = 4 := by rw [pow2_eq_zpow]; norm_num
        linarith
      have := pow2_injective h4
      omega
  · simp only [ws, List.mem_cons, List.not_mem_nil, or_false] at hv
    rcases hv with rfl | rfl | rfl | rfl <;> norm_num [abs_le]

/-! ## non-vacuity -/

example : Covered { tQuantizedBits with bits := 4, intBits := 0, signed := true }
                  { tQuantizedBits with bits := 8, intBits := 0, signed := true } :=
  .ff ⟨rfl, by decide, rfl, rfl, rfl, rfl⟩ ⟨rfl, by decide, rfl, rfl, rfl, rfl⟩
example : Covered tTernary { tQuantizedBits with bits := 8, intBits := 0, signed := true } :=
  .uf (Or.inl ⟨rfl, rfl, rfl, rfl⟩) ⟨rfl, by decide, rfl, rfl, rfl, rfl⟩
example : BiasOK (some { tQuantizedBits with bits := 4, intBits := 0, signed := true }) 0 :=
  Or.inl ⟨rfl, ⟨rfl, rfl, by decide⟩, valFixed_zero⟩
example : accShape .depthwise [3, 3, 8, 1] = [3, 3, 1, 1] ∧ kernelTerms [3, 3, 1, 1] = 9 := by decide
example : ∃ lt, layerTypes .conv2d { tQuantizedBits with bits := 4, intBits := 0, signed := false }
    { tQuantizedBits with bits := 4, intBits := 0, signed := true }
    (some { tQuantizedBits with bits := 4, intBits := 0, signed := true }) [2, 3, 2, 5] = some lt ∧
    lt.accumulator.bits = 13 ∧ lt.accumulator.intBits = 5 := ⟨_, rfl, by decide, by decide⟩
example : analyzeAccumulator [[1/2, 1/2, -1/2], [-1/4, 1/4, 1/8]] [0, 0] (-1) (1/2) = .ok 1 := by
  decide +kernel
example : analyzeAccumulator [[0, 0], [0, 0]] [0, 0] (-1) 1 = .overflowError := by decide +kernel
-- the inference block on a po2 kernel and po2 bias: records unchanged, counts = distinct constants
example : ∃ r, inferenceBlock { tPowerOfTwo with bits := 4, intBits := 4 }
    (some { tPowerOfTwo with bits := 3, intBits := 3 })
    { wv := [-4, 1, 1, -4, 1/2], bv := [2, 2], unusedBias := none } = .ok r ∧
    r.wCounts = 3 ∧ r.bCounts = 1 := ⟨_, rfl, by decide +kernel, by decide +kernel⟩
example : WFfixed { tQuantizedBits with bits := 6, intBits := 2, signed := true } :=
  ⟨rfl, by decide, rfl, rfl, rfl, rfl⟩

end QKV.Props.C18

/-! ## po2 activation → po2 kernel: the four max_value combinations (strengthening round, seed C18-8) -/
namespace QKV.Props.C18
open QKV QKV.Props.C16 QKV.Props.C17

/-- the po2 × po2 multiplier (`Adder`): the product type has NO `max_value` cap as soon as ONE operand has
    none, and the product of the two caps otherwise -/
theorem C18_po2po2_cap_rule (w x : QRec) (hw : WFpo2 w) (hx : WFpo2 x) :
    ∃ m, makeMultiplier w x = some (.adder, m) ∧ WFp2 m ∧
      ((w.maxValPo2 = none ∨ x.maxValPo2 = none) → m.maxValPo2 = none) ∧
      (∀ cw cx, w.maxValPo2 = some cw → x.maxValPo2 = some cx → m.maxValPo2 = some (cx * cw)) := by
  refine ⟨mkAdder w x tPowerOfTwo, ?_, ?_, ?_, ?_⟩
  · simp [makeMultiplier, hw.mode, hx.mode, mulTable, mkImpl, OutTemplate.toRec]
  · rw [mkAdder_po2]
    refine ⟨rfl, rfl, ?_⟩
    simp only [imax_eq_max]
    have := hw.nsb
    have := le_max_right (x.bits - b2i x.signed) (w.bits - b2i w.signed)
    omega
  · rw [mkAdder_po2]
    rintro (h | h) <;> simp [h, mulMaxVal]
  · intro cw cx h1 h2
    rw [mkAdder_po2]; simp [h1, h2, mulMaxVal]

/-- PARTIAL (po2 activation → po2 kernel, no bias; all four max_value combinations): every pre-activation
    `Σ wᵢ·xᵢ` of at most `prod(kernel_shape[:-1])` terms whose weights / inputs are values of the reported po2
    types is a value of the reported accumulator, unless the sum reaches `2^(log_add_ops + max_exp)` —
    the inherited finding C17-po2-top (all `2^k` products at the top power of two). -/
theorem C18_preactivation_po2_po2_partial (kind : LayerKind) (x w : QRec) (shape : List ℕ)
    (hw : WFpo2 w) (hx : WFpo2 x) (ws xs : List ℚ)
    (hws : ∀ v ∈ ws, Val w v) (hxs : ∀ v ∈ xs, Val x v)
    (hn : min ws.length xs.length ≤ kernelTerms (accShape kind shape)) :
    ∃ lt, layerTypes kind x w none shape = some lt ∧ lt.multiplier.maxValPo2 = mulMaxVal x.maxValPo2 w.maxValPo2 ∧
      (dot ws xs < pow2 (logAddOps (accShape kind shape) false + (getExp lt.multiplier).2) →
        Val lt.accumulator (dot ws xs)) := by
  obtain ⟨m, hm, hwf, _, _⟩ := C18_po2po2_cap_rule w x hw hx
  have hmeq : m = mkAdder w x tPowerOfTwo := by
    have : makeMultiplier w x = some (.adder, mkAdder w x tPowerOfTwo) := by
      simp [makeMultiplier, hw.mode, hx.mode, mulTable, mkImpl, OutTemplate.toRec]
    rw [this] at hm; simpa using hm.symm
  set kacc := makeAccumulator (accShape kind shape) m false with hk
  refine ⟨{ weight := w, bias := none, impl := .adder, multiplier := m, kernelAcc := kacc,
            accumulator := kacc, fusedAccumulator := kacc }, ?_, ?_, ?_⟩
  · simp [layerTypes, hm, accFor, biasAdd, hk]
  · simp only; rw [hmeq, mkAdder_po2]
  · intro htop
    simp only at htop ⊢
    have hmode : kacc.mode = 0 := by
      simp [hk, makeAccumulator, hwf.nf, hwf.p, tQuantizedBits]
    simp only [Val, hmode]
    rw [dot_eq_sum] at htop ⊢
    refine C17_acc_po2_partial (accShape kind shape) false m hwf _ ?_ ?_ htop
    · intro p hp
      obtain ⟨a, b, hab, rfl⟩ := mem_zipWith_mul hp
      have hmem := List.of_mem_zip hab
      obtain ⟨o, ho, hv⟩ := C16_po2_po2 w x hw hx a b (hws a hmem.1) (hxs b hmem.2)
      rw [hm] at ho
      have : o = m := by simpa using ho.symm
      subst this
      have hm1 : o.mode = 1 := by rw [hmeq]; exact mode_mkImpl .adder w x tPowerOfTwo
      simpa [Val, hm1] using hv
    · simp only [List.length_zipWith, Bool.false_eq_true, if_false, Nat.add_zero]
      exact hn

/-! ## Grouped convolutions (`groups > 1`; strengthening round, seed C18-12) -/

/-- The Keras kernel of a grouped convolution is `ks ++ [cin / groups, filters]`: its axis −2 is ALREADY the
    per-group fan-in, so the term count `generate_layer_data_type_map` sizes the kernel accumulator with is
    `prod ks * (cin / groups)` — exactly the number of products one output element sums.  `C18_preactivation`
    therefore covers grouped `QConv1D` / `QConv2D` layers with the kernel shape taken as it is. -/
theorem C18_grouped_fanin (ks : List ℕ) (cpg f : ℕ) :
    kernelTerms (accShape .conv2d (ks ++ [cpg, f])) = ks.foldl (· * ·) 1 * cpg ∧
    kernelTerms (accShape .conv1d (ks ++ [cpg, f])) = ks.foldl (· * ·) 1 * cpg := by
  have h : ks ++ [cpg, f] = (ks ++ [cpg]) ++ [f] := by simp
  constructor <;>
    simp only [accShape, kernelTerms, h, List.dropLast_concat, List.foldl_append, List.foldl_cons,
      List.foldl_nil]

/-- Dividing the fan-in by `groups` once more is unsound: `QConv2D(8, (1,1), groups=2)` on 8 input channels has the
    kernel `(1, 1, 4, 8)` — four products per output.  Sized for `(1, 1, 2, 8)` the reported accumulator is
    `(7 bits, 1 int bit, signed)`, values `< 2`; weights `3/4` of `quantized_bits(3,0)` and inputs `7/8` of
    `quantized_bits(4,0)` (no most-negative product) give `4 · 21/32 = 21/8`. -/
theorem C18_grouped_double_division_counterexample :
    let w : QRec := { tQuantizedBits with bits := 3, intBits := 0, signed := true }
    let x : QRec := { tQuantizedBits with bits := 4, intBits := 0, signed := true }
    Val w (3/4) ∧ Val x (7/8) ∧
    kernelTerms (accShape .conv2d [1, 1, 4, 8]) = 4 ∧
    (∃ lt, layerTypes .conv2d x w none [1, 1, 2, 8] = some lt ∧
      lt.accumulator = { tQuantizedBits with bits := 7, intBits := 1, signed := true } ∧
      ¬ Val lt.accumulator (dot [3/4, 3/4, 3/4, 3/4] [7/8, 7/8, 7/8, 7/8])) := by
  refine ⟨⟨3, by decide, by decide, by simp [fixedLsb, b2i, tQuantizedBits, pow2] <;> norm_num⟩,
    ⟨7, by decide, by decide, by simp [fixedLsb, b2i, tQuantizedBits, pow2] <;> norm_num⟩,
    by decide,
    ⟨_, rfl, by decide, not_val_of_eq
      (q' := { tQuantizedBits with bits := 7, intBits := 1, signed := true }) (by decide) ?_⟩⟩
  simp only [Val, tQuantizedBits]
  rw [valFixed_iff (by decide)]
  rintro ⟨_, _, h⟩
  simp [dot, pow2] at h
  all_goals (norm_num at h)

end QKV.Props.C18
