/-
  C14 — exported quantized weights equal inference weights and rebuild from the HW form.

  Property (verbatim): After exporting quantized weights, every quantized layer holds exactly its
  quantizer applied once to its previous weights, and the returned dictionary describes those same
  weights: power-of-two layers satisfy sign * 2^exponent = stored weight, auto-po2 fixed-point
  layers satisfy scale * integer weight = stored weight with integers inside the declared bit
  range, and layers followed by a fusable batch-normalisation carry inverse and fused-bias terms
  equal to the batch-norm algebra on the quantized parameters. When every quantizer's scale is
  independent of the data (fixed point, power of two, constant scale, or a post-training scale
  frozen with the library's freezing utility) the export leaves the model's predictions unchanged
  and a second export changes nothing.

  Model: QKV.Model.Export (model_save_quantized_weights, find_bn_fusing_layer_pair,
  add_bn_fusing_weights, get_model_sparsity), quantizers abstract.  Only property theorems here;
  the number of layers, weights per layer, tensor sizes, bit widths, the quantizer functions, the
  float rounding `env.rnd` and the `rsqrt` oracle `env.rsq` are all universally quantified.

  Parts of the statement the code does NOT satisfy (mirrored by the model, see notes/C14.md):
    * auto_po2 split: `hw = w*m/m_i`, `scale' = scale*m_i/m` give scale'·hw = scale·w, so the
      rebuild holds only where quantizer.scale = 1           (C14_autopo2_rebuild_counterexample)
    * a quantizer that is not idempotent (quantized_bits with constant alpha ≠ 1; a data-dependent
      scale that is not frozen) makes the second export move the weights
                                                                (C14_idempotent_counterexample)
    * an UNSIGNED auto_po2 quantizer (keep_negative=False) handed a negative weight emits a
      negative code (the auto_po2 path of quantized_bits never reads keep_negative); the export
      passes it on, outside the declared range [0, 2^bits-1]
                                                  (C14_autopo2_unsigned_negative_counterexample)
  Repaired in the fix round (model follows the repaired code; the former counterexamples are
  regression witnesses evaluated at the old failing inputs):
    * QBatchNormalization(scale=False / center=False) and QBidirectional: each weight is paired with
      ITS quantizer    (C14_weights_quantized_once_bn / _bidir, C14_shifted_zip_fixed_witness,
                        C14_bidirectional_zip_fixed_witness; C14_bn_terms for any scale / center)
    * `signs` / `scales` have one slot per weight  (C14_signs_scales_aligned,
                                                    C14_signs_slot_fixed_witness)
    * pooling layers without average quantizer     (C14_pool_never_raises, C14_pool_none_fixed_witness)
    * auto_po2 with a negative `integer`           (C14_autopo2_err_iff,
                                                    C14_autopo2_negative_integer_fixed_witness)
  Strengthening round (notes/C14.md):
    * QBidirectional with an explicit `backward_layer=`: nothing about the two directions is assumed
      equal — each direction's OWN quantizers, cut to its OWN number of weights
                          (C14_weights_quantized_once_bidir without symmetry hypotheses,
                           C14_bidir_as_two_rnn, C14_bidir_backward_own,
                           C14_bidirectional_own_quantizers_witness)
  Fix round 2 (notes/C14.md "Fix round 2"):
    * a user SUBCLASS of QBatchNormalization without scale / center used to be zipped positionally
      (the pairing was selected by class NAME); the export now tests `isinstance`, the model's
      `layerQs` reads `Layer.bn` (the batch-norm attributes, present for every instance of the class)
      and never the class name   (C14_weights_quantized_once_bn without a class-name hypothesis,
                                  C14_weights_class_name_irrelevant, C14_bn_subclass_zip_fixed_witness)
  Strengthening round 2 (seed C14-9; notes/C14.md):
    * the declared format of an auto_po2 quantizer for EVERY keep_negative: `codeLo / codeHi /
      inCodeRange / stepOf` of the model (the clause oracle runs the same `inCodeRange`)
                        (C14_autopo2_code_range, C14_autopo2_rebuild_partial_range,
                         C14_autopo2_rebuild_scale_one, C14_autopo2_magnitude_bits_unique,
                         C14_autopo2_unsigned_witness)
-/
import QKV.Lemmas.Export
import QKV.Lemmas.FixedQ
import QKV.Model.FixedQ
import QKV.Props.C02
namespace QKV.Props.C14
open QKV QKV.Export

/-! ## 1. after the export every layer holds its quantizers applied once -/

/-- every written-back layer: `set_weights` of the zip of the loop's quantizer list `layerQs l`
    with `get_weights()` — each weight is its partner's quantizer applied ONCE to the previous
    weight (not twice, not zero times).  The four theorems below say what `layerQs` is per class. -/
theorem C14_weights_quantized_once_paired (env : Env) (M : Model) (W : ℕ → List Tensor) (i : ℕ)
    (l : Layer) (hl : M[i]? = some l) (hk : l.kind = .plain ∨ l.kind = .rnn ∨ l.kind = .bidir) :
    (exportQ env M W).w i = zipApply (layerQs l) (W i) := by
  rw [exportQ_w, S_eq_of_get hl]
  rcases hk with hk | hk | hk <;> simp [stepWeights, hk]

/-- plain layers that are not instances of QBatchNormalization (fix round 2: `isinstance`, not the
    class name): `zip(get_quantizers(), get_weights())` -/
theorem C14_weights_quantized_once (env : Env) (M : Model) (W : ℕ → List Tensor) (i : ℕ) (l : Layer)
    (hl : M[i]? = some l) (hk : l.kind = .plain) (hc : l.isBN = false) :
    (exportQ env M W).w i = zipApply l.qs (W i) := by
  have hbn : l.bn = none := by simpa [Layer.isBN] using hc
  rw [exportQ_w, S_eq_of_get hl]; simp [stepWeights, layerQs, hk, hbn]

/-- recurrent layers: the last entry of get_quantizers() (the state quantizer) is skipped -/
theorem C14_weights_quantized_once_rnn (env : Env) (M : Model) (W : ℕ → List Tensor) (i : ℕ) (l : Layer)
    (hl : M[i]? = some l) (hk : l.kind = .rnn) :
    (exportQ env M W).w i = zipApply l.qs.dropLast (W i) := by
  rw [exportQ_w, S_eq_of_get hl]; simp [stepWeights, layerQs, hk]

/-- the weights a QBatchNormalization holds: gamma only with `scale`, beta only with `center` -/
def bnWeights (info : BNInfo) (γ β μ v : Tensor) : List Tensor :=
  (if info.scale then [γ] else []) ++ (if info.center then [β] else []) ++ [μ, v]

/-- QBatchNormalization with ANY scale / center (fix round; was `_partial`: scale and center only):
    gamma, beta, moving mean and moving variance are each quantized once by the gamma, beta, mean
    and variance quantizer respectively — whichever of gamma / beta the layer actually holds.
    Fix round 2: for EVERY instance of QBatchNormalization (`l.bn = some info`), whatever its class
    name — the former hypothesis `l.cls = "QBatchNormalization"` is gone, user subclasses are covered. -/
theorem C14_weights_quantized_once_bn (env : Env) (M : Model) (W : ℕ → List Tensor) (i : ℕ) (l : Layer)
    (hl : M[i]? = some l) (hk : l.kind = .plain)
    (info : BNInfo) (hbn : l.bn = some info) (gq bq mq vq : Option Quant) (r : List (Option Quant))
    (hqs : l.qs = gq :: bq :: mq :: vq :: r) (γ β μ v : Tensor) (hW : W i = bnWeights info γ β μ v) :
    (exportQ env M W).w i = bnWeights info (applyQ gq γ) (applyQ bq β) (applyQ mq μ) (applyQ vq v) := by
  rw [exportQ_w, S_eq_of_get hl]
  simp only [stepWeights, layerQs, hk, hbn, hqs, bnQs_cons, hW, bnWeights]
  rcases info with ⟨sc, ce, eps⟩
  cases sc <;> cases ce <;> simp [zipApply]

/-- QBidirectional (fix round; the positional zip used to give the backward kernel the forward
    STATE quantizer): with get_quantizers() = forward_layer's ++ backward_layer's (`dirQ` forward ones)
    and get_weights() = forward ++ backward weights (`dirW` resp. `dirWb` of them), each direction's
    weights are quantized once by THAT direction's quantizers, in order.
    Strengthening round: nothing is assumed symmetric — the two directions may list different
    quantizers (kinds, widths, None), different numbers of quantizers and of weights (an explicit
    `backward_layer=` of another cell class, or without bias). -/
theorem C14_weights_quantized_once_bidir (env : Env) (M : Model) (W : ℕ → List Tensor) (i : ℕ)
    (l : Layer) (hl : M[i]? = some l) (hk : l.kind = .bidir)
    (fq bq : List (Option Quant)) (hqs : l.qs = fq ++ bq) (hq : fq.length = l.dirQ)
    (fw bw : List Tensor) (hW : W i = fw ++ bw) (hfw : fw.length = l.dirW) (hbw : bw.length = l.dirWb)
    (hd : l.dirW ≤ fq.length) :
    (exportQ env M W).w i = zipApply fq fw ++ zipApply bq bw := by
  rw [exportQ_w, S_eq_of_get hl]
  simp only [stepWeights, layerQs, hk, bidirQs, hqs, ← hq, hW, List.take_left', List.drop_left']
  rw [zipApply_append _ _ _ _ (by simp [hfw, hd]), zipApply_take _ _ _ (le_of_eq hfw),
    zipApply_take _ _ _ (le_of_eq hbw)]

/-- Fix round 2: the weights a layer holds after the export do not depend on its class NAME at all —
    two layers that differ only in `cls` (the library class and a user subclass of it, of ANY kind:
    batch-norm, dense, recurrent, bidirectional, folded …) store the same weights.  (The dictionary
    may still differ: the fusing decisions read the class name, see `C14_fuse_rule`.) -/
theorem C14_weights_class_name_irrelevant (env : Env) (M M' : Model) (W : ℕ → List Tensor) (i i' : ℕ)
    (l : Layer) (c : String) (hl : M[i]? = some l) (hl' : M'[i']? = some { l with cls := c })
    (w : List Tensor) (hW : W i = w) (W' : ℕ → List Tensor) (hW' : W' i' = w) :
    (exportQ env M' W').w i' = (exportQ env M W).w i := by
  rw [exportQ_w, exportQ_w, S_eq_of_get hl, S_eq_of_get hl', hW, hW']
  unfold stepWeights layerQs
  cases l.kind <;> rfl

/-- the state quantizer at the end of a recurrent layer's list is never reached by its weights -/
theorem zipApply_dropLast (qs : List (Option Quant)) (ws : List Tensor) (h : ws.length < qs.length) :
    zipApply qs.dropLast ws = zipApply qs ws := by
  rw [List.dropLast_eq_take]
  exact zipApply_take _ _ _ (by omega)

/-- Strengthening round (seed C14-5): a QBidirectional is exported as its two directions exported
    STAND-ALONE — the stored weights are the concatenation of what the export stores for a recurrent
    layer with the forward layer's quantizers and weights and for a recurrent layer with the BACKWARD
    layer's quantizers and weights (any models `Mf`, `Mb` holding such layers).  In particular the
    backward half does not depend on the forward layer's quantizers at all. -/
theorem C14_bidir_as_two_rnn (env : Env) (M : Model) (W : ℕ → List Tensor) (i : ℕ)
    (l : Layer) (hl : M[i]? = some l) (hk : l.kind = .bidir)
    (fq bq : List (Option Quant)) (hqs : l.qs = fq ++ bq) (hq : fq.length = l.dirQ)
    (fw bw : List Tensor) (hW : W i = fw ++ bw) (hfw : fw.length = l.dirW) (hbw : bw.length = l.dirWb)
    (hdf : l.dirW < fq.length) (hdb : l.dirWb < bq.length)
    (Mf Mb : Model) (Wf Wb : ℕ → List Tensor) (jf jb : ℕ) (lf lb : Layer)
    (hlf : Mf[jf]? = some lf) (hkf : lf.kind = .rnn) (hqf : lf.qs = fq) (hWf : Wf jf = fw)
    (hlb : Mb[jb]? = some lb) (hkb : lb.kind = .rnn) (hqb : lb.qs = bq) (hWb : Wb jb = bw) :
    (exportQ env M W).w i = (exportQ env Mf Wf).w jf ++ (exportQ env Mb Wb).w jb := by
  rw [C14_weights_quantized_once_bidir env M W i l hl hk fq bq hqs hq fw bw hW hfw hbw (le_of_lt hdf),
    C14_weights_quantized_once_rnn env Mf Wf jf lf hlf hkf,
    C14_weights_quantized_once_rnn env Mb Wb jb lb hlb hkb, hqf, hqb, hWf, hWb,
    zipApply_dropLast _ _ (by omega), zipApply_dropLast _ _ (by omega)]

/-- ... hence two bidirectional layers with the same backward layer (quantizers, weights) store the
    same backward weights whatever their forward layers are (quantizers AND weights) -/
theorem C14_bidir_backward_own (env : Env) (M M' : Model) (W W' : ℕ → List Tensor) (i i' : ℕ)
    (l l' : Layer) (hl : M[i]? = some l) (hl' : M'[i']? = some l')
    (hk : l.kind = .bidir) (hk' : l'.kind = .bidir)
    (fq fq' bq : List (Option Quant)) (hqs : l.qs = fq ++ bq) (hqs' : l'.qs = fq' ++ bq)
    (hq : fq.length = l.dirQ) (hq' : fq'.length = l'.dirQ)
    (fw fw' bw : List Tensor) (hW : W i = fw ++ bw) (hW' : W' i' = fw' ++ bw)
    (hfw : fw.length = l.dirW) (hfw' : fw'.length = l'.dirW)
    (hbw : bw.length = l.dirWb) (hbw' : bw.length = l'.dirWb)
    (hd : l.dirW ≤ fq.length) (hd' : l'.dirW ≤ fq'.length) :
    ((exportQ env M W).w i).drop fw.length = ((exportQ env M' W').w i').drop fw'.length := by
  rw [C14_weights_quantized_once_bidir env M W i l hl hk fq bq hqs hq fw bw hW hfw hbw hd,
    C14_weights_quantized_once_bidir env M' W' i' l' hl' hk' fq' bq hqs' hq' fw' bw hW' hfw' hbw' hd']
  have h1 : (zipApply fq fw).length = fw.length := by rw [zipApply_length_le]; omega
  have h2 : (zipApply fq' fw').length = fw'.length := by rw [zipApply_length_le]; omega
  rw [← h1, ← h2, List.drop_left, List.drop_left]

/-- folded layers are not written back; layers without quantizers and everything outside the
    model are untouched -/
theorem C14_not_written_back (env : Env) (M : Model) (W : ℕ → List Tensor) (i : ℕ)
    (h : M[i]? = none ∨ ∃ l, M[i]? = some l ∧ (l.kind = .folded ∨ l.kind = .noQuant)) :
    (exportQ env M W).w i = W i := by
  rw [exportQ_w]
  rcases h with h | ⟨l, hl, hk | hk⟩
  · exact S_none h _
  · rw [S_eq_of_get hl]; simp [stepWeights, hk]
  · rw [S_eq_of_get hl]; simp [stepWeights, hk]

/-- position `k` of a zip is quantizer `k` applied to weight `k` -/
theorem C14_weight_k (qs : List (Option Quant)) (ws : List Tensor) (k : ℕ) (hq : k < qs.length)
    (hw : k < ws.length) :
    (zipApply qs ws).getD k [] = applyQ ((qs[k]?).join) (ws.getD k []) := by
  rw [zipApply_getD qs ws k hq, if_pos hw]

/-! ## 2. the dictionary describes those same weights -/

/-- exactly the layers that have quantizers get an entry, one each -/
theorem C14_dict_entry_iff (env : Env) (M : Model) (W : ℕ → List Tensor) (i : ℕ) (e : Entry) :
    (i, e) ∈ (exportQ env M W).d ↔
      ∃ l, M[i]? = some l ∧ l.kind ≠ .noQuant ∧ e = (mkEntry env M i l (wAt M W i)).1 :=
  exportQ_d_mem env M W i e

theorem assemble_hw (outs : List WOut) (en : Bool) (pp : Option PoolEntry × Option String)
    (ft : Option (ℕ × BnTerms)) : (assemble outs en pp ft).1.hw = outs.map (·.hw) := by
  unfold assemble
  cases ft with
  | none => rfl
  | some p => rfl

/-- the entry's "weights" are the HW forms of exactly the tensors the layer now holds:
    both are read off the same zip `layerOuts l (W i)` -/
theorem C14_dict_describes_weights (env : Env) (M : Model) (W : ℕ → List Tensor) (i : ℕ) (e : Entry)
    (l : Layer) (hl : M[i]? = some l) (hk : l.kind = .plain ∨ l.kind = .rnn ∨ l.kind = .bidir)
    (he : (i, e) ∈ (exportQ env M W).d) :
    e.hw = (layerOuts l (W i)).map (·.hw) ∧
      (layerOuts l (W i)).map (·.stored) = (exportQ env M W).w i := by
  obtain ⟨l', hl', _, rfl⟩ := (C14_dict_entry_iff env M W i e).1 he
  have : l' = l := by rw [hl] at hl'; exact (Option.some.inj hl').symm
  subst this
  have hwi : wAt M W i i = W i := by simp [wAt]
  constructor
  · simp only [mkEntry, assemble_hw, hwi]
  · rw [exportQ_w, S_eq_of_get hl]
    unfold layerOuts
    rw [zipSplit_stored]
    rcases hk with hk | hk | hk <;> simp [stepWeights, layerWs, hk]

/-- folded layers: the entry holds the HW form of the quantized FOLDED weights -/
theorem C14_dict_folded (env : Env) (M : Model) (W : ℕ → List Tensor) (i : ℕ) (e : Entry)
    (l : Layer) (hl : M[i]? = some l) (hk : l.kind = .folded)
    (he : (i, e) ∈ (exportQ env M W).d) :
    e.hw = (zipSplit l.qs (l.fold (W i))).map (·.hw) := by
  obtain ⟨l', hl', _, rfl⟩ := (C14_dict_entry_iff env M W i e).1 he
  have : l' = l := by rw [hl] at hl'; exact (Option.some.inj hl').symm
  subst this
  have hwi : wAt M W i i = W i := by simp [wAt]
  simp only [mkEntry, assemble_hw, hwi, layerOuts, layerQs, layerWs, hk]

/-! ### power of two: sign * 2^exponent = stored weight -/

/-- a value a power-of-two quantizer emits -/
def IsPo2Val (v : ℚ) : Prop := ∃ e : ℤ, v = pow2 e ∨ v = - pow2 e

theorem C14_po2_rebuild_value (v : ℚ) (h : IsPo2Val v) :
    signOf v * pow2 (expOf v) = v ∧ (signOf v = 1 ∨ signOf v = -1) := by
  obtain ⟨e, rfl | rfl⟩ := h
  · have hp := pow2_pos e
    rw [expOf_pow2]
    simp [signOf, not_lt.mpr hp.le]
  · have hp := pow2_pos e
    rw [expOf_neg_pow2]
    have : -pow2 e < 0 := by linarith
    simp [signOf, this]

/-- the po2 branch of the loop: stored weight, sign tensor and exponent tensor are maps of the same
    quantized tensor, and elementwise `sign * 2^exponent = stored` -/
theorem C14_po2_rebuild (Q : Quant) (sg : Bool) (hk : Q.kind = .po2 sg) (w : Tensor)
    (hv : ∀ v ∈ Q.q w, IsPo2Val v) :
    let out := splitWeight (some Q) w
    out.stored = Q.q w ∧ out.sign = (Q.q w).map signOf ∧
      out.hw = (Q.q w).map (fun v => ((expOf v : ℤ) : ℚ)) ∧ out.hasSign = sg ∧
      ∀ v ∈ out.stored, signOf v * pow2 (expOf v) = v := by
  simp only [splitWeight, hk, true_and]
  exact fun v hvm => (C14_po2_rebuild_value v (hv v hvm)).1

/-- unsigned power-of-two quantizers (`quantized_relu_po2`: no "signs" entry): the exponent alone
    rebuilds the weight when it is positive -/
theorem C14_po2_rebuild_unsigned (v : ℚ) (e : ℤ) (h : v = pow2 e) : pow2 (expOf v) = v := by
  subst h; rw [expOf_pow2]

/-- zero weights (never emitted by the library's po2 quantizers) get sign +1 -/
theorem C14_sign_zero : signOf 0 = 1 := by simp [signOf]

/-! ### auto_po2: what the split satisfies, and where it rebuilds -/

/-- the auto_po2 branch as written: `hw = w*m/m_i`, `scale' = scale*m_i/m`; hence
    `hw * m_i / m = stored` and `scale' * hw = quantizer.scale * stored` elementwise -/
theorem C14_autopo2_split (Q : Quant) (bits integer : ℤ) (kn : Bool)
    (hk : Q.kind = .autoPo2 bits integer kn) (w : Tensor) :
    let out := splitWeight (some Q) w
    let m := pow2 (ubits bits kn)
    let mi := pow2 integer
    out.stored = Q.q w ∧ out.hw = (Q.q w).map (fun v => v * m / mi) ∧
      out.scale = (Q.scaleOf w).map (fun s => s * mi / m) ∧ out.sign = [] ∧
      (∀ v : ℚ, (v * m / mi) * mi / m = v) ∧
      (∀ s v : ℚ, (s * mi / m) * (v * m / mi) = s * v) := by
  simp only [splitWeight, hk, true_and]
  have hm := pow2_ne_zero (ubits bits kn)
  have hmi := pow2_ne_zero integer
  constructor
  · intro v; field_simp
  · intro s v; field_simp

/-- PARTIAL (the property's clause holds only where `quantizer.scale = 1`): if the quantizer's
    output is `scale * m_i * z / m` with an integer code `|z| ≤ 2^(bits-1) - 1` (the C05 code/scale
    split) then the exported integer weight is `scale * z`; where `scale = 1` it is the code itself,
    inside the declared range, and `scale' * hw = stored`. -/
theorem C14_autopo2_rebuild_partial (bits integer : ℤ) (kn : Bool) (s : ℚ) (z : ℤ)
    (hz : |z| ≤ 2 ^ (bits - 1).toNat - 1) :
    let m := pow2 (ubits bits kn)
    let mi := pow2 integer
    let stored := s * mi * (z : ℚ) / m
    let hw := stored * m / mi
    let scale' := s * mi / m
    hw = s * (z : ℚ) ∧ scale' * hw = s * stored ∧
      (s = 1 → hw = (z : ℚ) ∧ scale' * hw = stored ∧ |z| ≤ 2 ^ (bits - 1).toNat - 1) := by
  intro m mi stored hw scale'
  have hm : m ≠ 0 := pow2_ne_zero _
  have hmi : mi ≠ 0 := pow2_ne_zero _
  refine ⟨?_, ?_, ?_⟩
  · simp only [hw, stored]; field_simp
  · simp only [hw, stored, scale']; field_simp
  · intro h1
    subst h1
    refine ⟨?_, ?_, hz⟩
    · simp only [hw, stored]; field_simp
    · simp only [hw, stored, scale']; field_simp

/-- COUNTEREXAMPLE (known finding C14-autopo2-split): quantized_bits(4, 0, alpha="auto_po2") whose
    scale came out as 1/2 and code 7: stored 7/16, exported "integer" weight 7/2 (not an integer)
    and exported scale 1/16, product 7/32 ≠ 7/16. -/
theorem C14_autopo2_rebuild_counterexample :
    let Q : Quant := { kind := .autoPo2 4 0 true, q := fun _ => [7/16], scaleOf := fun _ => [1/2] }
    let out := splitWeight (some Q) [1/2]
    out.stored = [7/16] ∧ out.hw = [7/2] ∧ out.scale = [1/16] ∧
      ((1/16 : ℚ) * (7/2) ≠ 7/16) ∧ ((7/2 : ℚ).den ≠ 1) := by
  decide +kernel

/-! ### auto_po2: the declared format of EVERY `keep_negative` (strengthening round, seed C14-9)

`quantized_bits.__call__` and the export both use `bits - keep_negative` magnitude bits: a signed
quantizer spends one bit on the sign, an UNSIGNED one (`keep_negative=False / 0 / np.False_`) none.
The theorems below are stated through `codeLo / codeHi / inCodeRange / stepOf` of the model (the
clause oracle `judge_autopo2` runs the same `inCodeRange`), for both values of `keep_negative`. -/

/-- the signed range of `C14_autopo2_rebuild_partial` is the declared range for `keep_negative`,
    and it lies inside the unsigned format's range `[0, 2^bits - 1]` on its non-negative half -/
theorem C14_autopo2_code_range (bits : ℤ) :
    codeLo bits true = -(pow2 (bits - 1) - 1) ∧ codeHi bits true = pow2 (bits - 1) - 1 ∧
      codeLo bits false = 0 ∧ codeHi bits false = pow2 bits - 1 ∧
      codeHi bits true ≤ codeHi bits false := by
  refine ⟨rfl, rfl, rfl, rfl, ?_⟩
  simp only [codeHi, if_true, Bool.false_eq_true, if_false]
  have := pow2_le_pow2 (show bits - 1 ≤ bits by omega)
  linarith

/-- PARTIAL, both signednesses: a quantizer output `scale * m_i * z / m` whose integer code `z`
    lies in the DECLARED range of `(bits, keep_negative)` is exported as `scale * z`; where
    `scale = 1` the exported weight is the code itself — an integer inside the declared range —,
    `scale' * hw = stored`, and the exported scale is the step of the declared format
    `2^integer / 2^(bits - keep_negative)`. -/
theorem C14_autopo2_rebuild_partial_range (bits integer : ℤ) (kn : Bool) (s : ℚ) (z : ℤ)
    (hlo : codeLo bits kn ≤ (z : ℚ)) (hhi : (z : ℚ) ≤ codeHi bits kn) :
    let m := pow2 (ubits bits kn)
    let mi := pow2 integer
    let stored := s * mi * (z : ℚ) / m
    let hw := stored * m / mi
    let scale' := s * mi / m
    hw = s * (z : ℚ) ∧ scale' * hw = s * stored ∧
      (s = 1 → hw = (z : ℚ) ∧ scale' * hw = stored ∧ inCodeRange bits kn hw = true ∧
        scale' = stepOf bits integer kn) := by
  intro m mi stored hw scale'
  have hm : m ≠ 0 := pow2_ne_zero _
  have hmi : mi ≠ 0 := pow2_ne_zero _
  have hhw : hw = s * (z : ℚ) := by simp only [hw, stored]; field_simp
  refine ⟨hhw, ?_, ?_⟩
  · simp only [hw, stored, scale']; field_simp
  · intro h1
    subst h1
    have hz : hw = (z : ℚ) := by rw [hhw, one_mul]
    refine ⟨hz, ?_, ?_, ?_⟩
    · simp only [hw, stored, scale']; field_simp
    · rw [hz]; simp [inCodeRange, hlo, hhi]
    · simp only [scale', stepOf, mi, m, one_mul]
      rw [sub_eq_add_neg, pow2_add, pow2_eq_zpow (-ubits bits kn), zpow_neg, ← pow2_eq_zpow,
        div_eq_mul_inv]

/-- the split of a whole tensor where `quantizer.scale = 1`, for EVERY `(bits, integer,
    keep_negative)`: if the quantizer's output is `code * step` of its declared format with codes
    in the declared range, the dictionary holds exactly the codes (integers in range), every
    exported scale is the step, nothing is raised, and `scale * hw = stored` elementwise. -/
theorem C14_autopo2_rebuild_scale_one (Q : Quant) (bits integer : ℤ) (kn : Bool)
    (hk : Q.kind = .autoPo2 bits integer kn) (w : Tensor) (codes : List ℤ)
    (hq : Q.q w = codes.map (fun z : ℤ => (z : ℚ) * stepOf bits integer kn))
    (hs : ∀ s ∈ Q.scaleOf w, s = 1)
    (hr : ∀ z ∈ codes, codeLo bits kn ≤ (z : ℚ) ∧ (z : ℚ) ≤ codeHi bits kn) :
    let out := splitWeight (some Q) w
    out.hw = codes.map (fun z : ℤ => (z : ℚ)) ∧ (∀ h ∈ out.hw, inCodeRange bits kn h = true) ∧
      (∀ s ∈ out.scale, s = stepOf bits integer kn) ∧ out.err = none ∧
      out.stored = out.hw.map (fun h => stepOf bits integer kn * h) := by
  have hm : pow2 (ubits bits kn) ≠ 0 := pow2_ne_zero _
  have hmi : pow2 integer ≠ 0 := pow2_ne_zero _
  have hstep : stepOf bits integer kn = pow2 integer / pow2 (ubits bits kn) := by
    simp only [stepOf]
    rw [sub_eq_add_neg, pow2_add, pow2_eq_zpow (-ubits bits kn), zpow_neg, ← pow2_eq_zpow,
      div_eq_mul_inv]
  have hhw : (splitWeight (some Q) w).hw = codes.map (fun z : ℤ => (z : ℚ)) := by
    simp only [splitWeight, hk, hq, List.map_map]
    apply List.map_congr_left
    intro z _
    simp only [Function.comp, hstep]
    field_simp
  refine ⟨hhw, ?_, ?_, ?_, ?_⟩
  · intro h hh
    rw [hhw] at hh
    obtain ⟨z, hz, rfl⟩ := List.mem_map.1 hh
    obtain ⟨h1, h2⟩ := hr z hz
    simp [inCodeRange, h1, h2]
  · intro s hsm
    simp only [splitWeight, hk] at hsm
    obtain ⟨t, ht, rfl⟩ := List.mem_map.1 hsm
    rw [hs t ht, hstep, one_mul]
  · simp only [splitWeight, hk]
    have : (Q.scaleOf w).all isPo2 = true := by
      rw [List.all_eq_true]
      intro s hsm
      rw [hs s hsm]
      decide +kernel
    simp [this]
  · rw [hhw]
    simp only [splitWeight, hk, hq, List.map_map]
    apply List.map_congr_left
    intro z _
    simp only [Function.comp]
    ring

/-- the number of magnitude bits is forced: for a non-zero code `z` of a quantizer at scale 1
    (`stored = 2^integer * z / 2^(bits - keep_negative)`), converting with `2^k` magnitude levels
    returns the code iff `k = bits - keep_negative`.  (Any other count — e.g. `bits - 1` for an
    unsigned quantizer — gives `z * 2^(k - ubits)`: half-integers or doubled codes.) -/
theorem C14_autopo2_magnitude_bits_unique (bits integer k : ℤ) (kn : Bool) (z : ℤ) (hz : z ≠ 0) :
    let stored := pow2 integer * (z : ℚ) / pow2 (ubits bits kn)
    stored * pow2 k / pow2 integer = (z : ℚ) ↔ k = ubits bits kn := by
  intro stored
  have hm : pow2 (ubits bits kn) ≠ 0 := pow2_ne_zero _
  have hmi : pow2 integer ≠ 0 := pow2_ne_zero _
  have hzq : (z : ℚ) ≠ 0 := by exact_mod_cast hz
  have key : stored * pow2 k / pow2 integer = (z : ℚ) * (pow2 k / pow2 (ubits bits kn)) := by
    simp only [stored]; field_simp
  rw [key]
  constructor
  · intro h
    apply pow2_injective
    have h1 : pow2 k / pow2 (ubits bits kn) = 1 :=
      mul_left_cancel₀ hzq (h.trans (mul_one _).symm)
    exact (div_eq_one_iff_eq hm).1 h1
  · intro h
    subst h
    rw [div_self hm, mul_one]

/-- WITNESS (seed C14-9 family): unsigned quantized_bits(4, 0, keep_negative=False,
    alpha="auto_po2") at scale 1, stored [7/16, 5/16, 0]: the export gives the codes [7, 5, 0]
    (inside [0, 15]) and scale 1/16; with `bits - 1` magnitude bits the "integers" would be
    [7/2, 5/2, 0] with scale 1/8. -/
theorem C14_autopo2_unsigned_witness :
    let Q : Quant := { kind := .autoPo2 4 0 false, q := fun _ => [7/16, 5/16, 0],
                       scaleOf := fun _ => [1, 1, 1] }
    let out := splitWeight (some Q) [7/16, 5/16, 0]
    out.err = none ∧ out.stored = [7/16, 5/16, 0] ∧ out.hw = [7, 5, 0] ∧
      out.scale = [1/16, 1/16, 1/16] ∧ out.hw.all (inCodeRange 4 false) = true ∧
      ([7/16, 5/16, 0].map fun v : ℚ => v * pow2 3 / pow2 0) = [7/2, 5/2, 0] ∧
      inCodeRange 4 false (7/2) = false := by
  decide +kernel

/-- COUNTEREXAMPLE (known finding C14-autopo2-unsigned-negative): the auto_po2 path of
    `quantized_bits.__call__` clips `sign(x) * min(|x|/scale, levels/2)` and never looks at
    `keep_negative`, so an unsigned quantizer maps a negative weight to a negative code; the export
    hands it on: quantized_bits(4, 0, keep_negative=False, alpha="auto_po2"), scale 1, stored
    -3/16 ↦ "unsigned 4-bit integer" -3, outside the declared range [0, 15]
    (`scale * hw = stored` still holds). -/
theorem C14_autopo2_unsigned_negative_counterexample :
    let Q : Quant := { kind := .autoPo2 4 0 false, q := fun _ => [7/16, -3/16],
                       scaleOf := fun _ => [1, 1] }
    let out := splitWeight (some Q) [7/16, -3/16]
    out.err = none ∧ out.hw = [7, -3] ∧ out.scale = [1/16, 1/16] ∧
      inCodeRange 4 false 7 = true ∧ inCodeRange 4 false (-3) = false ∧
      ((1/16 : ℚ) * (-3) = -3/16) := by
  decide +kernel

/-- the auto_po2 branch raises exactly when the po2-ness assertion on `quantizer.scale` fails — for
    EVERY `integer`, negative ones included (fix round: `2**integer` is a floating-point power) -/
theorem C14_autopo2_err_iff (Q : Quant) (bits integer : ℤ) (kn : Bool)
    (hk : Q.kind = .autoPo2 bits integer kn) (w : Tensor) :
    (splitWeight (some Q) w).err = none ↔ (Q.scaleOf w).all isPo2 = true := by
  simp only [splitWeight, hk]
  split <;> simp_all

/-- REGRESSION WITNESS (was finding C14-autopo2-negative-integer: the int32 power raised):
    quantized_bits(4, -1, alpha="auto_po2"), scale 1: no exception, `m_i = 1/2`, stored 3/16 ↦
    integer weight 3, exported scale 1/16 and 1/16 · 3 = 3/16. -/
theorem C14_autopo2_negative_integer_fixed_witness :
    let Q : Quant := { kind := .autoPo2 4 (-1) true, q := fun _ => [3/16], scaleOf := fun _ => [1] }
    let out := splitWeight (some Q) [1/5]
    out.err = none ∧ out.stored = [3/16] ∧ out.hw = [3] ∧ out.scale = [1/16] ∧
      ((1/16 : ℚ) * 3 = 3/16) := by
  decide +kernel

/-- "signs", "scales" and "weights" of an entry are maps over the SAME per-weight list (fix round:
    every branch of the loop appends to both lists), hence index-aligned: `signs[k]` / `scales[k]`
    describe `weights[k]`, and all three have one slot per weight -/
theorem C14_signs_scales_aligned (outs : List WOut) (en : Bool)
    (pp : Option PoolEntry × Option String) (ft : Option (ℕ × BnTerms)) :
    let e := (assemble outs en pp ft).1
    e.hw = outs.map (·.hw) ∧
      (∀ ss, e.signs = some ss → ss = outs.map (·.sign) ∧ ss.length = e.hw.length) ∧
      (∀ sc, e.scales = some sc → sc = outs.map (·.scale) ∧ sc.length = e.hw.length) := by
  have key : ∀ e0 : Entry, e0.hw = outs.map (·.hw) →
      e0.signs = (if outs.any (·.hasSign) then some (outs.map (·.sign)) else none) →
      e0.scales = (if outs.any (·.hasScale) then some (outs.map (·.scale)) else none) →
      e0.hw = outs.map (·.hw) ∧
      (∀ ss, e0.signs = some ss → ss = outs.map (·.sign) ∧ ss.length = e0.hw.length) ∧
      (∀ sc, e0.scales = some sc → sc = outs.map (·.scale) ∧ sc.length = e0.hw.length) := by
    intro e0 h1 h2 h3
    refine ⟨h1, ?_, ?_⟩
    · intro ss hss
      rw [h2] at hss
      split at hss
      · simp only [Option.some.injEq] at hss; subst hss; simp [h1]
      · simp at hss
    · intro sc hsc
      rw [h3] at hsc
      split at hsc
      · simp only [Option.some.injEq] at hsc; subst hsc; simp [h1]
      · simp at hsc
  unfold assemble
  cases ft with
  | none => exact key _ rfl rfl rfl
  | some p => exact key _ rfl rfl rfl

/-- REGRESSION WITNESS (was finding C14-signs-slot: "signs" had ONE element, the bias signs at
    index 0, for TWO weights): a layer whose kernel is auto_po2 and whose bias is quantized_po2 —
    "signs" now has a placeholder for the kernel and the bias signs at index 1. -/
theorem C14_signs_slot_fixed_witness :
    let K : Quant := { kind := .autoPo2 4 0 true, q := id, scaleOf := fun t => t.map fun _ => 1 }
    let B : Quant := { kind := .po2 true, q := id, scaleOf := fun _ => [] }
    let outs := zipSplit [some K, some B] [[1/2], [-1/4]]
    (assemble outs false (none, none) none).1.signs = some [[], [-1]] ∧
      (assemble outs false (none, none) none).1.hw.length = 2 := by
  decide +kernel

/-! ### pooling factors -/

/-- the pooling part of an entry never raises (fix round: a missing average quantizer used to be
    called → TypeError), and `q_mult_factor` is the average quantizer applied to `1/pool_area`, or
    the plain factor when there is no quantizer -/
theorem C14_pool_never_raises (l : Layer) :
    (poolPart l).2 = none ∧
      ∀ p, l.pool = some p →
        (poolPart l).1 = some { qMult := match (l.qs[0]?).join with
                                         | none => p.mf
                                         | some Q => (Q.q [p.mf]).getD 0 0,
                                mult := p.mf, area := p.area } := by
  unfold poolPart
  cases hp : l.pool with
  | none => simp
  | some p =>
    cases hq : (l.qs[0]?).join with
    | none => simp
    | some Q => simp

/-- REGRESSION WITNESS (was finding C14-pool-none): QAveragePooling2D(pool_size=2) without average
    quantizer exports q_mult_factor = mult_factor = 1/4, pool_area = 4, and no exception. -/
theorem C14_pool_none_fixed_witness :
    let L : Layer := { cls := "QAveragePooling2D", kind := .plain, qs := [none], fwd := [], fold := id,
                       useBias := false, bn := none, pool := some { area := 4, mf := 1/4 },
                       succ := [1], allow := false }
    let env : Env := { rnd := id, rsq := id }
    (exportQ env [L] (fun _ => [])).err = none ∧
      (exportQ env [L] (fun _ => [])).d.map (fun p => p.2.pool) =
        [some { qMult := 1/4, mult := 1/4, area := 4 }] := by
  decide +kernel

/-! ## 3. batch-norm fusing -/

/-- selection rule of find_bn_fusing_layer_pair -/
theorem C14_fuse_rule (M : Model) (i b : ℕ) :
    fuseOf M i = some b ↔
      ∃ l, M[i]? = some l ∧ (l.cls = "QConv2D" ∨ l.cls = "QDepthwiseConv2D") ∧ l.succ = [b] ∧
        clsOf M b = "QBatchNormalization" := by
  unfold fuseOf
  cases hl : M[i]? with
  | none => simp
  | some l =>
    simp only [Option.some.injEq, exists_eq_left']
    by_cases hc : l.cls = "QConv2D" ∨ l.cls = "QDepthwiseConv2D"
    · simp only [hc, if_true, true_and]
      cases hs : l.succ with
      | nil => simp
      | cons b' rest =>
        cases rest with
        | nil =>
          by_cases hb : clsOf M b' = "QBatchNormalization"
          · simp only [hb, if_true, Option.some.injEq, List.cons.injEq, and_true]
            constructor
            · rintro rfl; exact ⟨rfl, hb⟩
            · rintro ⟨h, _⟩; exact h
          · simp only [hb, if_false, List.cons.injEq, and_true, reduceCtorEq, false_iff, not_and]
            rintro rfl; exact hb
        | cons c r => simp
    · simp [hc]

/-- `layers_followed_by_bn` lists exactly the selected pairs -/
theorem C14_fuse_pairs (M : Model) (i b : ℕ) : (i, b) ∈ fusePairs M ↔ fuseOf M i = some b := by
  unfold fusePairs
  simp only [List.mem_filterMap, List.mem_range, Option.map_eq_some_iff, Prod.mk.injEq]
  constructor
  · rintro ⟨j, _, b', hb', rfl, rfl⟩; exact hb'
  · intro h
    refine ⟨i, ?_, b, h, rfl, rfl⟩
    obtain ⟨l, hl, _⟩ := (C14_fuse_rule M i b).1 h
    exact (List.getElem?_eq_some_iff.mp hl).1

/-- `bn_layers_to_skip` is the set of batch-norms some layer is fused with -/
theorem C14_skip_iff (M : Model) (b : ℕ) : b ∈ skipSet M ↔ ∃ i, fuseOf M i = some b := by
  unfold skipSet
  simp only [List.mem_map, Prod.exists, exists_eq_right]
  constructor
  · rintro ⟨i, h⟩; exact ⟨i, (C14_fuse_pairs M i b).1 h⟩
  · rintro ⟨i, h⟩; exact ⟨i, (C14_fuse_pairs M i b).2 h⟩

/-- a batch-norm's own entry carries `enable_bn_fusing = True` exactly when some layer is fused
    with it -/
theorem C14_bn_marked (env : Env) (M : Model) (W : ℕ → List Tensor) (b : ℕ) (e : Entry) (lb : Layer)
    (hlb : M[b]? = some lb) (hc : lb.cls = "QBatchNormalization")
    (he : (b, e) ∈ (exportQ env M W).d) :
    e.enableBnFusing = true ↔ ∃ i, fuseOf M i = some b := by
  obtain ⟨l', hl', _, rfl⟩ := (C14_dict_entry_iff env M W b e).1 he
  have : l' = lb := by rw [hlb] at hl'; exact (Option.some.inj hl').symm
  subst this
  have hnf : fuseOf M b = none := by
    cases hf : fuseOf M b with
    | none => rfl
    | some c =>
      obtain ⟨l, hl, hcls, _⟩ := (C14_fuse_rule M b c).1 hf
      rw [hlb] at hl
      have : l = l' := (Option.some.inj hl).symm
      subst this
      rw [hc] at hcls
      rcases hcls with h | h <;> simp at h
  rw [← C14_skip_iff]
  simp [mkEntry, fuseTerms, hnf, assemble, hc]

/-- the layer with all weight quantizers removed (its parameters are already quantized);
    the inverse quantizer stays -/
def stripQ (lb : Layer) : Layer := { lb with qs := [none, none, none, none, (lb.qs[4]?).join] }

/-- number of weights a QBatchNormalization holds -/
def bnCount (info : BNInfo) : ℕ := (if info.scale then 1 else 0) + (if info.center then 1 else 0) + 2

/-- add_bn_fusing_weights applies the batch-norm's own quantizers to its raw weights; this equals
    the unquantized formula evaluated on the parameters the main loop stores (`bnQs` pairing) —
    for ANY scale / center (fix round; was: scale and center present) -/
theorem bnTerms_on_quantized (env : Env) (lb : Layer) (hlen : 4 ≤ lb.qs.length) {info : BNInfo}
    (hbn : lb.bn = some info)
    (bw : List Tensor) (hbw : bnCount info ≤ bw.length) (ub : Bool) (pw : List Tensor) :
    let t := bnTerms env lb bw ub pw
    let t' := bnTerms env (stripQ lb) (zipApply (bnQs info lb.qs) bw) ub pw
    t.inv = t'.inv ∧ t.fusedBias = t'.fusedBias := by
  obtain ⟨g, b, m, v, r, hqs⟩ := exists_four hlen
  rcases info with ⟨sc, ce, eps⟩
  cases sc <;> cases ce
  · have h0 := C14_weight_k [m, v] bw 0 (by simp) (by simp [bnCount] at hbw; omega)
    have h1 := C14_weight_k [m, v] bw 1 (by simp) (by simp [bnCount] at hbw; omega)
    simp at h0 h1
    simp [bnTerms, stripQ, hbn, hqs, bnQs_cons, defaultBN, h0, h1, applyQ]
  · have h0 := C14_weight_k [b, m, v] bw 0 (by simp) (by simp [bnCount] at hbw; omega)
    have h1 := C14_weight_k [b, m, v] bw 1 (by simp) (by simp [bnCount] at hbw; omega)
    have h2 := C14_weight_k [b, m, v] bw 2 (by simp) (by simp [bnCount] at hbw; omega)
    simp at h0 h1 h2
    simp [bnTerms, stripQ, hbn, hqs, bnQs_cons, defaultBN, h0, h1, h2, applyQ]
  · have h0 := C14_weight_k [g, m, v] bw 0 (by simp) (by simp [bnCount] at hbw; omega)
    have h1 := C14_weight_k [g, m, v] bw 1 (by simp) (by simp [bnCount] at hbw; omega)
    have h2 := C14_weight_k [g, m, v] bw 2 (by simp) (by simp [bnCount] at hbw; omega)
    simp at h0 h1 h2
    simp [bnTerms, stripQ, hbn, hqs, bnQs_cons, defaultBN, h0, h1, h2, applyQ]
  · have h0 := C14_weight_k [g, b, m, v] bw 0 (by simp) (by simp [bnCount] at hbw; omega)
    have h1 := C14_weight_k [g, b, m, v] bw 1 (by simp) (by simp [bnCount] at hbw; omega)
    have h2 := C14_weight_k [g, b, m, v] bw 2 (by simp) (by simp [bnCount] at hbw; omega)
    have h3 := C14_weight_k [g, b, m, v] bw 3 (by simp) (by simp [bnCount] at hbw; omega)
    simp at h0 h1 h2 h3
    simp [bnTerms, stripQ, hbn, hqs, bnQs_cons, defaultBN, h0, h1, h2, h3, applyQ]

/-- bn_inv / fused_bias in the dictionary are the BN algebra evaluated on the parameters the two
    layers HOLD AFTER the export (the quantized ones), when the conv layer precedes its
    batch-norm in model.layers — for a batch-norm with ANY scale / center (fix round; the former
    `hs : info.scale = true`, `hc : info.center = true` hypotheses are gone). -/
theorem C14_bn_terms (env : Env) (M : Model) (W : ℕ → List Tensor) (i b : ℕ) (e : Entry)
    (l lb : Layer) (hl : M[i]? = some l) (hlb : M[b]? = some lb) (hkl : l.kind = .plain)
    (hf : fuseOf M i = some b) (hib : i < b)
    (hkb : lb.kind = .plain) (hlen : 4 ≤ lb.qs.length) {info : BNInfo}
    (hbn : lb.bn = some info)
    (hbw : bnCount info ≤ (W b).length)
    (he : (i, e) ∈ (exportQ env M W).d) :
    let W' := (exportQ env M W).w
    let t := bnTerms env (stripQ lb) (W' b) l.useBias (W' i)
    e.enableBnFusing = true ∧ e.fusedBn = some b ∧ e.bnInv = some t.inv ∧
      e.fusedBias = some t.fusedBias := by
  obtain ⟨l', hl', _, rfl⟩ := (C14_dict_entry_iff env M W i e).1 he
  have : l' = l := by rw [hl] at hl'; exact (Option.some.inj hl').symm
  subst this
  have hwi : wAt M W i i = W i := by simp [wAt]
  have hwb : wAt M W i b = W b := by simp [wAt]; omega
  have hW'i : (exportQ env M W).w i = stepWeights l' (W i) := by rw [exportQ_w, S_eq_of_get hl]
  have hW'b : (exportQ env M W).w b = zipApply (bnQs info lb.qs) (W b) := by
    rw [exportQ_w, S_eq_of_get hlb]; simp [stepWeights, layerQs, hkb, hbn]
  have hft : fuseTerms env M i l' (wAt M W i) =
      some (b, bnTerms env lb (W b) l'.useBias (stepWeights l' (W i))) := by
    simp only [fuseTerms, hf, hlb, hwi, hwb]
  obtain ⟨hinv, hfb⟩ := bnTerms_on_quantized env lb hlen hbn (W b) hbw l'.useBias
    (stepWeights l' (W i))
  simp only [mkEntry, hft, assemble, hW'i, hW'b, hinv, hfb, and_self]

/-- scalar form of the two fused terms, as the code computes them -/
def invS (env : Env) (γ v eps : ℚ) : ℚ := env.rnd (γ * env.rsq (env.rnd (v + env.rnd eps)))
def fusedBiasS (env : Env) (inv b β μ : ℚ) : ℚ :=
  env.rnd (env.rnd (env.rnd (inv * b) + β) - env.rnd (inv * μ))

/-- the tensors of bnTerms are the scalar formulas applied channel by channel -/
theorem C14_bn_terms_elementwise (env : Env) (lb : Layer) {info : BNInfo}
    (hbn : lb.bn = some info) (hs : info.scale = true) (hc : info.center = true)
    (bw : List Tensor) (pw : List Tensor) :
    let γ := applyQ ((lb.qs[0]?).join) (bw.getD 0 [])
    let β := applyQ ((lb.qs[1]?).join) (bw.getD 1 [])
    let μ := applyQ ((lb.qs[2]?).join) (bw.getD 2 [])
    let v := applyQ ((lb.qs[3]?).join) (bw.getD 3 [])
    let t := bnTerms env lb bw true pw
    let bias := pw.getLast?.getD []
    t.inv = applyQ ((lb.qs[4]?).join) (List.zipWith (fun g x => invS env g x info.eps) γ v) ∧
    t.fusedBias = List.zipWith (fun a b => env.rnd (a - b))
      (List.zipWith (fun a b => env.rnd (a + b))
        (List.zipWith (fun i b => env.rnd (i * b)) t.inv bias) β)
      (List.zipWith (fun i m => env.rnd (i * m)) t.inv μ) := by
  simp only [bnTerms, hbn, Option.getD_some, hs, hc, if_true, Nat.zero_add, Nat.reduceAdd, invS,
    and_self]

/-- the same without gamma and / or beta (`scale=False`: `gamma = 1.0`; `center=False`: `beta = 0`),
    with the remaining weights at the positions `get_weights()` then has -/
theorem C14_bn_terms_elementwise_any (env : Env) (lb : Layer) {info : BNInfo}
    (hbn : lb.bn = some info) (γ β μ v : Tensor) (pw : List Tensor) :
    let gq := (lb.qs[0]?).join
    let bq := (lb.qs[1]?).join
    let μ' := applyQ ((lb.qs[2]?).join) μ
    let v' := applyQ ((lb.qs[3]?).join) v
    let γ' := if info.scale then applyQ gq γ else List.replicate v'.length 1
    let β' := if info.center then applyQ bq β else List.replicate v'.length 0
    let t := bnTerms env lb (bnWeights info γ β μ v) true pw
    let bias := pw.getLast?.getD []
    t.inv = applyQ ((lb.qs[4]?).join) (List.zipWith (fun g x => invS env g x info.eps) γ' v') ∧
    t.fusedBias = List.zipWith (fun a b => env.rnd (a - b))
      (List.zipWith (fun a b => env.rnd (a + b))
        (List.zipWith (fun i b => env.rnd (i * b)) t.inv bias) β')
      (List.zipWith (fun i m => env.rnd (i * m)) t.inv μ') := by
  rcases info with ⟨sc, ce, eps⟩
  cases sc <;> cases ce <;>
    simp [bnTerms, hbn, bnWeights, invS]

/-- PARTIAL (float rounding excluded: `rnd = id`; no inverse quantizer): the fused form computes
    the batch-norm of the biased layer output, for every value of the `rsqrt` oracle:
    `inv*y + fused_bias = γ·r·((y + b) − μ) + β` with `inv = γ·r`, `r = rsqrt(v + ε)`. -/
theorem C14_bn_fused_algebra_partial (rsq : ℚ → ℚ) (γ β μ v eps b y : ℚ) :
    let env : Env := { rnd := id, rsq := rsq }
    let inv := invS env γ v eps
    let fb := fusedBiasS env inv b β μ
    inv = γ * rsq (v + eps) ∧ fb = inv * b + β - inv * μ ∧
      inv * y + fb = γ * rsq (v + eps) * ((y + b) - μ) + β := by
  simp only [invS, fusedBiasS, id_eq]
  refine ⟨trivial, trivial, ?_⟩
  ring

/-! ## 4. a second export, predictions, sparsity -/

/-- in general a second export quantizes the quantized weights again -/
theorem C14_second_export (env : Env) (M : Model) (W : ℕ → List Tensor) (k : ℕ) :
    (exportQ env M (exportQ env M W).w).w k = S M k (S M k (W k)) := by
  rw [exportQ_w, exportQ_w]

/-- if every quantizer object is idempotent (value and `.scale`; see the instances below), a second
    export changes neither the weights nor the returned dictionary (`FuseAligned`: a fused
    batch-norm lists its four weight quantizers; fix round: no condition on scale / center) -/
theorem C14_idempotent (env : Env) (M : Model) (W : ℕ → List Tensor) (hq : ModelIdem M)
    (ha : FuseAligned M) :
    let st1 := exportQ env M W
    let st2 := exportQ env M st1.w
    (∀ k, st2.w k = st1.w k) ∧ st2.d = st1.d := by
  intro st1 st2
  constructor
  · intro k
    simp only [st2, st1, exportQ_w]
    exact S_idem hq k _
  · simp only [st2, st1, exportQ_d]
    exact entriesOf_congr env hq ha _ (fun k => exportQ_w env M W k)

/-- the layer's own call() pairs quantizers and weights like the export's loop does
    (entries of `fwd` beyond the number of weights are irrelevant: zips truncate).  Fix round: the
    loop's list is `layerQs l` — `bnQs` for QBatchNormalization, `bidirQs` for QBidirectional — so
    this now HOLDS for batch-norms without scale / center and for bidirectional layers
    (`C14_shifted_zip_fixed_witness`, `C14_bidirectional_zip_fixed_witness`, examples below). -/
def FwdAligned (M : Model) : Prop :=
  ∀ l ∈ M, (l.kind = .plain ∨ l.kind = .rnn ∨ l.kind = .bidir) → l.fwd = layerQs l

/-- congruence: predictions are a function of the effective weights, and under idempotence the
    export does not move them — for every network function `net` and every input -/
theorem C14_predict_unchanged {I O : Type} (net : (ℕ → List Tensor) → I → O) (env : Env) (M : Model)
    (W : ℕ → List Tensor) (hq : ModelIdem M) (hf : FwdAligned M) (x : I) :
    predict net M (exportQ env M W).w x = predict net M W x := by
  unfold predict
  congr 1
  funext k
  unfold eff
  rw [exportQ_w]
  cases hl : M[k]? with
  | none => simp [S_none hl]
  | some l =>
    have hm : l ∈ M := List.mem_of_getElem? hl
    have hi : AllIdem (layerQs l) := (hq l hm).mono (layerQs_subset l)
    have hp := hf l hm
    rw [S_eq_of_get hl]
    cases hk : l.kind with
    | plain => simp only [stepWeights, hk, hp (Or.inl hk)]; exact zipApply_idem hi _
    | rnn => simp only [stepWeights, hk, hp (Or.inr (Or.inl hk))]; exact zipApply_idem hi _
    | bidir => simp only [stepWeights, hk, hp (Or.inr (Or.inr hk))]; exact zipApply_idem hi _
    | folded => simp [stepWeights, hk]
    | noQuant => simp [stepWeights, hk]

/-- instances of the idempotence hypothesis from C02: quantized_bits without scale (any width),
    as an elementwise tensor quantizer -/
theorem C14_qidem_fixed (t : Tie) (c : BitsCfg) (h : 0 < c.ub) (hg : c.gain = 1) (kind : QKind) :
    QIdem { kind := kind, q := fun w => w.map (qbits t c), scaleOf := fun w => w.map fun _ => 1 } := by
  constructor
  · intro w
    simp only [List.map_map]
    apply List.map_congr_left
    intro x _
    exact QKV.Props.C02.C02_bits_idem t c h hg x
  · intro w; simp [List.map_map, Function.comp_def]

/-- a quantizer with a frozen (post-training) scale: `.scale` is a constant -/
theorem C14_qidem_frozen (kind : QKind) (q : Tensor → Tensor) (s : Tensor) (h : ∀ t, q (q t) = q t) :
    QIdem { kind := kind, q := q, scaleOf := fun _ => s } := ⟨h, fun _ => rfl⟩

/-- COUNTEREXAMPLE (C02 finding, seen through the export): quantized_bits(4,0,alpha=2) as the
    kernel quantizer of one dense layer, weight 0.3: first export stores 0.5, second export 1. -/
theorem C14_idempotent_counterexample :
    let c : BitsCfg := { bits := 4, integer := 0, symmetric := false, keepNeg := true, alpha := some 2 }
    let Q : Quant := { kind := .other, q := fun w => w.map (qbits .even c), scaleOf := fun w => w.map fun _ => 2 }
    let L : Layer := { cls := "QDense", kind := .plain, qs := [some Q], fwd := [some Q], fold := id,
                       useBias := false, bn := none, pool := none, succ := [1], allow := true }
    let env : Env := { rnd := id, rsq := id }
    let W : ℕ → List Tensor := fun _ => [[3/10]]
    (exportQ env [L] W).w 0 = [[1/2]] ∧ (exportQ env [L] (exportQ env [L] W).w).w 0 = [[1]] := by
  decide +kernel

/-- REGRESSION WITNESS (was the counterexample of findings C14-bn-zip / -fused / -predict: the export
    quantized beta with gamma's quantizer and the effective weights became [[1], [0], [1]]):
    a batch-norm with scale=False holds [beta, mean, variance] while get_quantizers() is
    [gamma_q, beta_q, mean_q, …]; the export now quantizes beta with beta's quantizer, the one the
    layer's own call() uses, and the effective weights do not move. -/
theorem C14_shifted_zip_fixed_witness :
    let G : Quant := { kind := .other, q := fun w => w.map fun _ => 1, scaleOf := fun _ => [] }   -- "gamma" quantizer
    let Bq : Quant := { kind := .other, q := id, scaleOf := fun _ => [] }                          -- "beta" quantizer
    let L : Layer := { cls := "QBatchNormalization", kind := .plain, qs := [some G, some Bq, none, none, none],
                       fwd := [some Bq, none, none], fold := id, useBias := false,
                       bn := some { scale := false, center := true, eps := 0 }, pool := none,
                       succ := [1], allow := false }
    let env : Env := { rnd := id, rsq := id }
    let W : ℕ → List Tensor := fun _ => [[-3/4], [0], [1]]
    QIdem G ∧ QIdem Bq ∧
      eff [L] W 0 = [[-3/4], [0], [1]] ∧ eff [L] (exportQ env [L] W).w 0 = [[-3/4], [0], [1]] ∧
      (exportQ env [L] W).w 0 = [[-3/4], [0], [1]] := by
  refine ⟨⟨fun t => by simp, fun _ => rfl⟩, ⟨fun _ => rfl, fun _ => rfl⟩, ?_, ?_, ?_⟩ <;> decide +kernel

/-- REGRESSION WITNESS (was finding C14-bidirectional-zip / -predict): a QBidirectional over a
    simple RNN, get_quantizers() = [k, r, b, state] ++ [k', r', b', state'], six weights.  Each
    quantizer here maps every element to its own tag (forward 1 2 3 [state 4], backward 5 6 7
    [state 8]); the old positional zip stored [1,2,3,4,5,6] (backward kernel ← forward STATE
    quantizer); the repaired loop stores [1,2,3,5,6,7], which is also what call() computes with. -/
theorem C14_bidirectional_zip_fixed_witness :
    let tag : ℚ → Option Quant := fun c =>
      some { kind := .other, q := fun w => w.map fun _ => c, scaleOf := fun _ => [] }
    let qs := [tag 1, tag 2, tag 3, tag 4, tag 5, tag 6, tag 7, tag 8]
    let L : Layer := { cls := "QBidirectional", kind := .bidir, qs := qs,
                       fwd := [tag 1, tag 2, tag 3, tag 5, tag 6, tag 7], fold := id, useBias := true,
                       bn := none, pool := none, succ := [1], allow := true,
                       dirW := 3, dirWb := 3, dirQ := 4 }
    let L2 : Layer := { L with dirW := 2, dirWb := 2, fwd := [tag 1, tag 2, tag 5, tag 6] }   -- use_bias=False
    let env : Env := { rnd := id, rsq := id }
    (exportQ env [L] (fun _ => [[0], [0], [0], [0], [0], [0]])).w 0 = [[1], [2], [3], [5], [6], [7]] ∧
      (exportQ env [L2] (fun _ => [[0], [0], [0], [0]])).w 0 = [[1], [2], [5], [6]] ∧
      eff [L] (exportQ env [L] (fun _ => [[0], [0], [0], [0], [0], [0]])).w 0 =
        eff [L] (fun _ => [[0], [0], [0], [0], [0], [0]]) 0 := by
  decide +kernel

/-- WITNESS (strengthening round, seed C14-5): `QBidirectional(layer, backward_layer=other)` with
    directions that differ in everything — forward with bias (3 weights), backward without (2), and
    the other way round.  Tagged quantizers as above.  Each backward weight carries the BACKWARD
    layer's tag (5, 6, 7); a loop that repeats the forward layer's weight quantizers for the second
    half ("the backward layer is a clone") would store [1,2,3,1,2] resp. only four of the five
    weights ([1,2,1,2]: `set_weights` raises). -/
theorem C14_bidirectional_own_quantizers_witness :
    let tag : ℚ → Option Quant := fun c =>
      some { kind := .other, q := fun w => w.map fun _ => c, scaleOf := fun _ => [] }
    let qs := [tag 1, tag 2, tag 3, tag 4, tag 5, tag 6, tag 7, tag 8]
    let L32 : Layer := { cls := "QBidirectional", kind := .bidir, qs := qs,
                         fwd := [tag 1, tag 2, tag 3, tag 5, tag 6], fold := id, useBias := true,
                         bn := none, pool := none, succ := [1], allow := true,
                         dirW := 3, dirWb := 2, dirQ := 4 }
    let L23 : Layer := { L32 with dirW := 2, dirWb := 3, fwd := [tag 1, tag 2, tag 5, tag 6, tag 7] }
    let env : Env := { rnd := id, rsq := id }
    let W : ℕ → List Tensor := fun _ => [[0], [0], [0], [0], [0]]
    (exportQ env [L32] W).w 0 = [[1], [2], [3], [5], [6]] ∧
      (exportQ env [L23] W).w 0 = [[1], [2], [5], [6], [7]] ∧
      eff [L32] (exportQ env [L32] W).w 0 = eff [L32] W 0 ∧
      eff [L23] (exportQ env [L23] W).w 0 = eff [L23] W 0 := by
  decide +kernel

/-- REGRESSION WITNESS (was `C14_bn_subclass_zip_counterexample`, findings C14-bn-subclass-zip /
    -predict: the QBatchNormalization pairing was selected by the class NAME, so a user SUBCLASS
    "MyBN" with `scale=False` fell through to the positional zip of the 5-entry get_quantizers() with
    its 3 weights — beta was quantized by gamma's quantizer (here: everything ↦ 1), the stored beta
    moved from -3/4 to 1 and the effective weights became [[1], [0], [1]]).  Evaluated at the old
    failing input: the export now quantizes beta with beta's quantizer (identity), the one the
    layer's own call() uses; stored and effective weights do not move, exactly as for the same layer
    under its library class name (`C14_shifted_zip_fixed_witness`). -/
theorem C14_bn_subclass_zip_fixed_witness :
    let G : Quant := { kind := .other, q := fun w => w.map fun _ => 1, scaleOf := fun _ => [] }   -- "gamma" quantizer
    let Bq : Quant := { kind := .other, q := id, scaleOf := fun _ => [] }                          -- "beta" quantizer
    let L : Layer := { cls := "MyBN", kind := .plain, qs := [some G, some Bq, none, none, none],
                       fwd := [some Bq, none, none], fold := id, useBias := false,
                       bn := some { scale := false, center := true, eps := 0 }, pool := none,
                       succ := [1], allow := false }
    let env : Env := { rnd := id, rsq := id }
    let W : ℕ → List Tensor := fun _ => [[-3/4], [0], [1]]
    QIdem G ∧ QIdem Bq ∧
      (exportQ env [L] W).w 0 = [[-3/4], [0], [1]] ∧
      eff [L] W 0 = [[-3/4], [0], [1]] ∧ eff [L] (exportQ env [L] W).w 0 = [[-3/4], [0], [1]] ∧
      (exportQ env [{ L with cls := "QBatchNormalization" }] W).w 0 = (exportQ env [L] W).w 0 := by
  refine ⟨⟨fun t => by simp, fun _ => rfl⟩, ⟨fun _ => rfl, fun _ => rfl⟩, ?_, ?_, ?_, ?_⟩ <;> decide +kernel

/-- get_model_sparsity counts zeros of exactly the exported (once-quantized) weights -/
theorem C14_sparsity_counts_exported (env : Env) (M : Model) (W : ℕ → List Tensor) :
    modelSparsity env M W =
      (let ts := (List.range M.length).flatMap (examined M (fun k => S M k (W k)))
       (countZeros ts, countAll ts)) := by
  unfold modelSparsity
  have : (exportQ env M W).w = fun k => S M k (W k) := by funext k; exact exportQ_w env M W k
  rw [this]

/-! ## non-vacuity -/

/-- the hypotheses of C14_idempotent / C14_predict_unchanged / C14_bn_terms are satisfiable by a
    real configuration: QConv2D(kernel quantized_bits(4), bias quantized_bits(4)) followed by a
    QBatchNormalization with scale and center -/
def exQ : Quant :=
  { kind := .other,
    q := fun w => w.map (qbits .even { bits := 4, integer := 0, symmetric := true, keepNeg := true, alpha := none }),
    scaleOf := fun w => w.map fun _ => 1 }
def exConv : Layer :=
  { cls := "QConv2D", kind := .plain, qs := [some exQ, some exQ], fwd := [some exQ, some exQ], fold := id,
    useBias := true, bn := none, pool := none, succ := [1], allow := true }
def exBn : Layer :=
  { cls := "QBatchNormalization", kind := .plain, qs := [some exQ, some exQ, some exQ, some exQ, none],
    fwd := [some exQ, some exQ, some exQ, some exQ], fold := id, useBias := false,
    bn := some { scale := true, center := true, eps := 1/1000 }, pool := none, succ := [2], allow := false }

theorem exQ_idem : QIdem exQ :=
  C14_qidem_fixed .even _ (by decide) (by decide) .other

example : ModelIdem [exConv, exBn] := by
  intro l hl Q hQ
  simp only [List.mem_cons, List.not_mem_nil, or_false] at hl
  rcases hl with rfl | rfl <;>
  · simp only [exConv, exBn, List.mem_cons, Option.some.injEq, List.not_mem_nil, or_false,
      reduceCtorEq] at hQ
    rcases hQ with rfl | rfl | rfl | rfl <;> exact exQ_idem

example : fuseOf [exConv, exBn] 0 = some 1 := by decide +kernel
example : FwdAligned [exConv, exBn] := by
  intro l hl _
  simp only [List.mem_cons, List.not_mem_nil, or_false] at hl
  rcases hl with rfl | rfl <;> simp [exConv, exBn, layerQs, bnQs]
example : FuseAligned [exConv, exBn] := by
  intro i b hf lb hlb
  obtain ⟨l, hl, _, hs, _⟩ := (C14_fuse_rule _ i b).1 hf
  have hi : i = 0 := by
    rcases i with _ | _ | i
    · rfl
    · simp [exBn] at hl; subst hl; simp at *
    · simp at hl
  subst hi
  simp [exConv] at hl; subst hl
  simp at hs; subst hs
  simp at hlb; subst hlb
  exact ⟨rfl, by simp [exBn]⟩

/-- fix round: the hypotheses are also satisfiable by a batch-norm WITHOUT scale (three weights,
    five quantizers) whose call() pairs beta / mean / variance with their own quantizers -/
def exBnNoScale : Layer :=
  { exBn with fwd := [some exQ, some exQ, some exQ],
              bn := some { scale := false, center := true, eps := 1/1000 } }
example : FwdAligned [exConv, exBnNoScale] := by
  intro l hl _
  simp only [List.mem_cons, List.not_mem_nil, or_false] at hl
  rcases hl with rfl | rfl <;> simp [exConv, exBn, exBnNoScale, layerQs, bnQs]
example : bnCount { scale := false, center := true, eps := 1/1000 } ≤ [[(1:ℚ)], [0], [1]].length := by
  decide
/-- fix round 2: ... and by a user SUBCLASS of QBatchNormalization without scale (class name "MyBN");
    `C14_weights_quantized_once_bn` applies to it, `C14_predict_unchanged`'s `FwdAligned` holds -/
def exMyBn : Layer := { exBnNoScale with cls := "MyBN" }
example : FwdAligned [exConv, exMyBn] := by
  intro l hl _
  simp only [List.mem_cons, List.not_mem_nil, or_false] at hl
  rcases hl with rfl | rfl <;> simp [exConv, exBn, exBnNoScale, exMyBn, layerQs, bnQs]
example (env : Env) (β μ v : Tensor) :
    (exportQ env [exConv, exMyBn] (fun _ => [β, μ, v])).w 1 =
      [applyQ (some exQ) β, applyQ (some exQ) μ, applyQ (some exQ) v] :=
  C14_weights_quantized_once_bn env [exConv, exMyBn] _ 1 exMyBn rfl rfl _ rfl
    (some exQ) (some exQ) (some exQ) (some exQ) [none] rfl [] β μ v rfl
example : IsPo2Val (-1/4) := ⟨-2, Or.inr (by decide +kernel)⟩

/-- strengthening round: the hypotheses of `C14_bidir_as_two_rnn` are satisfiable by directions that
    differ in everything — forward [k, r, b, state] with bias (3 weights), backward [k', r', b', state']
    without (2 weights) -/
def exTag (c : ℚ) : Option Quant :=
  some { kind := .other, q := fun w => w.map fun _ => c, scaleOf := fun _ => [] }
def exBidir : Layer :=
  { cls := "QBidirectional", kind := .bidir,
    qs := [exTag 1, exTag 2, exTag 3, exTag 4, exTag 5, exTag 6, exTag 7, exTag 8],
    fwd := [exTag 1, exTag 2, exTag 3, exTag 5, exTag 6], fold := id, useBias := true,
    bn := none, pool := none, succ := [1], allow := true, dirW := 3, dirWb := 2, dirQ := 4 }
def exRnn (qs : List (Option Quant)) : Layer :=
  { cls := "QLSTM", kind := .rnn, qs := qs, fwd := qs.dropLast, fold := id, useBias := true,
    bn := none, pool := none, succ := [1], allow := true }
example (env : Env) (a b c d e : Tensor) :
    (exportQ env [exBidir] (fun _ => [a, b, c, d, e])).w 0 =
      (exportQ env [exRnn [exTag 1, exTag 2, exTag 3, exTag 4]] (fun _ => [a, b, c])).w 0 ++
        (exportQ env [exRnn [exTag 5, exTag 6, exTag 7, exTag 8]] (fun _ => [d, e])).w 0 :=
  C14_bidir_as_two_rnn env [exBidir] _ 0 exBidir rfl rfl
    [exTag 1, exTag 2, exTag 3, exTag 4] [exTag 5, exTag 6, exTag 7, exTag 8] rfl rfl
    [a, b, c] [d, e] rfl rfl rfl (by decide) (by decide)
    _ _ _ _ 0 0 _ _ rfl rfl rfl rfl rfl rfl rfl rfl

end QKV.Props.C14
